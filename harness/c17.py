"""C17 — Temporary overrides and derived computations leave the model unchanged.

Programs (nested override blocks, derived computations, faults) are run on a real small AmplitudeModel and on the
Lean model `TfPwaV.Override.exec`.  The Lean model has, per defect site, the statements of the tree as it is and
the statements after the proposed fix_C17_*.diff patches; one probe per site decides which variant the tree has
(`observe_fix_flags`), and the correspondence runs against that variant.  The search oracle is independent of the
model: snapshot before == snapshot after for every executed block / computation (blame goes to the innermost node
that changes the state) and the density of a fixed 16-event sample before == after.
"""
import contextlib
import gc
import io
import json
import os
import random

import common as C

PID = "C17"
DRIVER = [("C17", "TfPwaV.Model.Override", "Override.handle"), ("C17y", "TfPwaV.Model.OverrideY", "OverrideY.handle")]
LEAN_TARGETS = ["TfPwaV.Props.C17", "TfPwaV.Props.C17b", "TfPwaV.Props.C17c"]
PROP_MODULES = ["TfPwaV.Props.C17", "TfPwaV.Props.C17b", "TfPwaV.Props.C17c"]
ALL_MODULES = ["TfPwaV.Model.Override", "TfPwaV.Proofs.Override", "TfPwaV.Props.C17", "TfPwaV.Props.C17b",
               "TfPwaV.Model.OverrideY", "TfPwaV.Proofs.OverrideY", "TfPwaV.Props.C17c"]
ASSUMPTIONS = [
    "Python semantics assumed by the model: generator-based @contextmanager (statements after `yield` are skipped when the body raises unless in `finally`); an abandoned generator (factor_iteration, split_gls) is finalised by CPython as soon as the exception that made its consumer stop has been handled (the harness drops the exception and calls gc.collect() before it looks at the state); iteration over a `set` of small ints is ascending; dict insertion order",
    "faults are: user code raising inside a block body, the k-th density evaluation inside a computation raising (harness wraps decay_group.sum_amp / get_amp), and a value that tf.Variable.assign rejects in a params dict; faults inside the restore statements themselves are not modelled",
    "parameter values are abstract in the model (pool index; Bound.get_y2x kept symbolic and evaluated with the real Bound object by the harness); variables with pre_trans / shared (same_list) variables are not in the test model",
    "the correspondence covers two default AmplitudeModels built by ConfigLoader from dict configs: A (3-body, 3 chains, every chain its own decay objects) and B (4-body cascade, 3 chains that share the decay object A->X+E and the resonance X); mask_factor and the ls selection are observed once per distinct chain / decay object; BaseAmplitudeModel.partial_weight is exercised as an unbound call on that object; cal_fitfractions_no_grad, build_angle_amp_matrix and build_int_matrix share the patched pattern of cal_fitfractions / build_amp_matrix and are not driven separately",
    "HelicityDecay.single_gls (set by set_ls, read nowhere in the package) is not part of the modelled state; it is covered, like every other plainly-typed attribute of the decay group and of every distinct chain / decay / particle object, by the attribute comparison the search makes whenever the modelled state is restored",
    "round 3: ConfigLoader.likelihood_profile is run with self.fit replaced by a stub that assigns pool values to every trainable variable and raises at the chosen call (the scan, set_fix and the restoring are the library's); ConfigLoader.get_params_error is run with method='correct', force_pos=False and Model.nll / Model.nll_grad_hessian replaced by counting stubs (FCN, set_params, cal_hesse_correct are the library's); the values such inner steps leave in the variables are an unspecified value `tmp` in the model and a wildcard in the comparison; plot_partial_wave_interf is entered with plot_partial_wave replaced by a capture of its weights_function; _cal_partial_wave is called with empty plot_var_dic / chain_property; PlotAllData gets the 16-event sample wrapped in a dict with get_weight()",
    "ConfigLoader.inv_he (the error matrix get_params_error stores for later fit-fraction errors) is an output of get_params_error, not part of the compared state; the harness clears it before every program",
    "the site inventory (harness/c17_sites.py) is syntactic: calls are recognised by the NAME of the called attribute (temp_params, set_used_res, set_params, set_all, set_fix, assign, ...) and assignments by the attribute name (chains_idx, not_full, mask_vars, mask_factor, trainable_vars); state reached through getattr/setattr, aliases or list methods (trainable_vars.append) is not seen",
    "round 4: selection statements (add_used_chains / set_used_chains / set_used_res) in a body are PERMANENT edits by design, like set_params: a block node is blamed for chains_idx / not_full only when every selection statement under it sits inside a temp_used_res / keep_used_chains block; generated statements use valid chain indices and never an empty selection; in the tree before fix_C17_used_chains.diff keep_used_chains does not exist (model: AttributeError before any change)",
    "round 4, entry-point probes (harness/c17_y.py): rig C = the 4-body cascade built with amp_model / preprocessor cached_shape and the mass of R2 floating (cached_shape_idx = [0, 2], fixed by the first build_cached from the FULL selection); the fault is injected by replacing tf_pwa.experimental.build_amp.build_params_vector (pdf / build_cached import it at call time); attach_fix_params_error and get_params_error(method='3-point' / default branch, in a scratch working directory) run with ConfigLoader.get_fcn returning one FCN built by the real get_fcn on the 16-event sample and Model.nll / nll_grad_hessian replaced by counting stubs (identity Hessian): the freeing / re-fixing / restoring statements are the library's; cal_signal_yields runs with ConfigLoader.get_data / _get_bg_weight replaced by stubs that hand out the 16-event sample (the bg=None path of the library raises TypeError when it unpacks N_total: not a state matter, not used); eval_normal_factors is called on a SimpleNllFracModel constructed directly around the amplitude of rig B; the Lean programs cachedShapePdf(AsIs), buildCached(AsIs), attachFixParamsError (variant chosen per site by whether its probes leak) and the per-object model glsOneObjs are compared line by line with what the probes observe (selection, not_full, per-object mask_factor, trainable_vars order, raised)",
    "quick tier only: in two of three random programs the density evaluations inside a computation after its first one return the first result again (the harness already wraps that function to inject faults); probes, systematic programs and the thorough tier evaluate every time",
]

SITES = ["absTemp", "vmTemp", "vmMask", "usedRes", "glsOne", "tempConfig", "pw", "pwBase", "pwi", "calFF",
         "appendInt", "factorIter", "splitGls", "bam", "plotAll", "likeProf", "hesse", "tempVar"]

CFG = {
    "data": {"dat_order": ["B", "C", "D"]},
    "decay": {"A": [["R_BC", "D"], ["R_BD", "C"], ["R_CD", "B"]], "R_BC": ["B", "C"], "R_BD": ["B", "D"], "R_CD": ["C", "D"]},
    "particle": {
        "$top": {"A": {"J": 1, "P": -1, "spins": [-1, 1], "mass": 4.6}},
        "$finals": {"B": {"J": 1, "P": -1, "mass": 2.00698}, "C": {"J": 1, "P": -1, "mass": 2.01028}, "D": {"J": 0, "P": -1, "mass": 0.13957}},
        "R_BC": {"J": 1, "Par": 1, "m0": 4.16, "g0": 0.1},
        "R_BD": {"J": 1, "Par": 1, "m0": 2.43, "g0": 0.3},
        "R_CD": {"J": 1, "Par": 1, "m0": 2.42, "g0": 0.03},
    },
}
# second real model: a 4-body cascade whose three chains SHARE the decay object A->X+E (two (l,s) couplings) and the
# resonance X; anything the 3-body model hides by giving every chain its own decay objects shows up here
CFG4 = {
    "data": {"dat_order": ["B", "C", "D", "E"]},
    "decay": {"A": [["X", "E"]], "X": [["R1", "D"], ["R2", "B"], ["R3", "C"]], "R1": ["B", "C"], "R2": ["C", "D"], "R3": ["B", "D"]},
    "particle": {
        "$top": {"A": {"J": 1, "P": -1, "spins": [-1, 1], "mass": 5.0}},
        "$finals": {"B": {"J": 1, "P": -1, "mass": 2.0}, "C": {"J": 0, "P": -1, "mass": 0.5}, "D": {"J": 0, "P": -1, "mass": 0.14},
                    "E": {"J": 0, "P": -1, "mass": 0.14}},
        "X": {"J": 1, "P": 1, "m0": 4.3, "g0": 0.4},
        "R1": {"J": 1, "P": -1, "m0": 2.8, "g0": 0.1},
        "R2": {"J": 1, "P": -1, "m0": 1.0, "g0": 0.2},
        "R3": {"J": 1, "P": 1, "m0": 2.4, "g0": 0.1},
    },
}
CFGS = {"A": CFG, "B": CFG4}
CFG_KEYS = ["verif_c17_a", "verif_c17_b"]
N_EVENTS = 16


# computations whose evaluations all have the shape of the first one (cheap mode of the quick tier may replay it)
CHEAP_OK = ("pw", "pwb", "pwi", "cff", "ffn", "fi", "bam", "evn")
# recorded while a program runs, read when it is serialised for the model: id(computation tuple) -> run-time arguments
# (the scan points of likelihood_profile, the number of finite-difference evaluations of get_params_error)
_RT = {}


class Fault(Exception):
    """raised by the harness (user code in a body / injected into an evaluation)"""


# --------------------------------------------------------------------------
# the real objects
# --------------------------------------------------------------------------

def distinct(objs):
    """objects de-duplicated by identity, first occurrence first"""
    seen, out = set(), []
    for o in objs:
        if id(o) not in seen:
            seen.add(id(o))
            out.append(o)
    return out


class Rig:
    def __init__(self, name="A"):
        self.name = name
        import numpy as np
        import tensorflow as tf
        from tf_pwa import config as tcfg
        from tf_pwa.config_loader import ConfigLoader
        self.np = np
        self.tcfg = tcfg
        np.random.seed(1717)
        tf.random.set_seed(1717)
        self.config = ConfigLoader(CFGS[name])
        self.amp = self.config.get_amplitude()
        self.dg = self.amp.decay_group
        self.vm = self.amp.vm
        self.names = list(self.vm.variables)
        self.idx = {n: i for i, n in enumerate(self.names)}
        p = self.config.generate_phsp_p(N_EVENTS)
        self.data = self.config.data.cal_angle(p)
        self.chains = list(self.dg.chains)
        self.n = len(self.chains)
        # decay objects are observed per distinct OBJECT: a decay shared by several chains is one entry
        self.decays = distinct(d for ch in self.chains for d in ch)
        pos = {id(d): i for i, d in enumerate(self.decays)}
        self.chain_decays = [[pos[id(d)] for d in ch] for ch in self.chains]
        self.shared_decays = [i for i in range(len(self.decays)) if sum(i in cd for cd in self.chain_decays) > 1]
        for d in self.decays:
            d.set_ls(list(d.get_ls_list()))  # fixes total_ls, ls_index = None
        self.n_ls = [len(d.total_ls) for d in self.decays]
        mask_part = []
        for ch in self.dg:
            mask_part.append(ch)
            for d in ch:
                mask_part.append(d)
        self.mask_part = distinct(mask_part)  # every chain and decay object once
        self.attr_objs = distinct([self.dg] + self.chains + self.decays + [self.dg.top] + list(self.dg.resonances) + list(self.dg.outs))
        self.res = list(self.dg.resonances)
        self.res_names = [str(r) for r in self.res]
        self.res_chains = [[j for j, c in enumerate(self.chains) if r in c.inner] for r in self.res]
        # variables the harness is allowed to override (couplings, not masses / widths)
        self.free = [i for i, n in enumerate(self.names) if "g_ls" in n or "total" in n]
        self.bounded_names = [self.names[self.free[3]], self.names[self.free[11]]]
        self.vm.set_bound({self.bounded_names[0]: (-3.0, 3.0), self.bounded_names[1]: (None, 5.0)})
        self.bounded = [self.idx[n] for n in self.bounded_names]
        for k in CFG_KEYS:
            try:
                tcfg.regist_config(k, 0.0)
            except Exception:
                pass
        # pool of values: index 0 is 0.0
        self.pool = [0.0]
        self.pool_ix = {C.f2h(0.0): 0}
        self.base_params = [self.pid(float(self.vm.variables[n].numpy())) for n in self.names]
        rnd = random.Random(99)
        self.rand_ids = [self.pid(round(rnd.uniform(-2.0, 2.0), 6)) for _ in range(24)]
        self.base_tr = [self.idx[n] for n in self.vm.trainable_vars]
        self.lp_points = {}
        self.density()  # settles lazily initialised attributes before anything is compared
        self.factor_masks = []
        for ch in self.chains:
            ds = list(ch)
            self.factor_masks.append([[(self.idx[k], self.pid(float(v))) for k, v in j.items()]
                                      for j in ds[0].factor_iter_names(deep=1, extra=ds[1:])])

    # ---- values
    def pid(self, x):
        h = C.f2h(x)
        if h not in self.pool_ix:
            self.pool_ix[h] = len(self.pool)
            self.pool.append(float(x))
        return self.pool_ix[h]

    def evalv(self, tok):
        """value of a model term: `<poolindex>` or `y<var>(<term>)`"""
        if tok[0] == "f":
            return float(self.np.float32(self.evalv(tok[2:-1])))
        if tok[0] == "y":
            j = tok.index("(")
            var = int(tok[1:j])
            inner = self.evalv(tok[j + 1:-1])
            return float(self.vm.bnd_dic[self.names[var]].get_y2x(self.np.float64(inner)))
        return self.pool[int(tok)]

    # ---- state
    def base_state(self):
        return {"params": list(self.base_params), "mask": [], "chains": list(range(self.n)), "nf": False,
                "mf": [False] * len(self.mask_part), "cfg": [self.rand_ids[0], self.rand_ids[1]],
                "ls": [list(range(k)) for k in self.n_ls], "tr": list(self.base_tr)}

    def put(self, st):
        tr = st.get("tr", self.base_tr)  # replay files written before round 3 carry no list
        # get_params_error stores its result (an error matrix in the order / size of the trainable list it saw) on the
        # ConfigLoader, where cal_fitfractions picks it up: an output of that call, not part of the compared state
        self.config.inv_he = None
        self.vm.trainable_vars[:] = [self.names[i] for i in tr]
        for i, n in enumerate(self.names):
            self.vm.variables[n]._trainable = i in tr
        for n, i in zip(self.names, st["params"]):
            self.vm.variables[n].assign(self.pool[i])
        self.vm.mask_vars = {self.names[k]: self.pool[v] for k, v in st["mask"]}
        self.dg.chains_idx = list(st["chains"])
        self.dg.not_full = bool(st["nf"])
        for o, b in zip(self.mask_part, st["mf"]):
            o.mask_factor = bool(b)
        for k, v in zip(CFG_KEYS, st["cfg"]):
            self.tcfg.set_config(k, self.pool[v])
        for d, sel in zip(self.decays, st["ls"]):
            d.set_ls([d.total_ls[i] for i in sel])

    def snap(self):
        """canonical observation of the real objects (floats as IEEE bit strings)"""
        mv = self.vm.mask_vars
        return {
            "params": [C.f2h(float(self.vm.variables[n].numpy())) for n in self.names],
            "mask_vars": [(self.idx.get(k, k), C.f2h(float(v))) for k, v in mv.items()],
            "chains_idx": [int(i) for i in self.dg.chains_idx],
            "not_full": bool(self.dg.not_full),
            "mask_factor": [bool(getattr(o, "mask_factor", False)) for o in self.mask_part],
            "config": [C.f2h(float(self.tcfg.get_config(k))) for k in CFG_KEYS],
            "ls": [list(d.ls_index) if d.ls_index is not None else list(range(len(d.total_ls))) for d in self.decays],
            "trainable": [self.idx.get(n, n) for n in self.vm.trainable_vars],
        }

    def attrs(self):
        """every plainly-typed attribute of the decay group, of every chain, decay and particle object (once per distinct
        object): a net for state that is aliased between chains or simply not part of `snap`"""
        def plain(v):
            if v is None or type(v) in (bool, int, float, str):
                return True
            return type(v) in (list, tuple) and all(plain(x) for x in v)
        out = {}
        for i, o in enumerate(self.attr_objs):
            for k, v in vars(o).items():
                if plain(v):
                    out["%d:%s.%s" % (i, type(o).__name__, k)] = repr(v)
        return out

    def view(self):
        return [C.f2h(float(v)) for v in self.amp.get_params().values()]

    def density(self):
        return self.np.asarray(self.amp(self.data)).tobytes()

    # ---- running programs
    def sel(self, s):
        return self.res_names[s[1]] if s[0] == "r" else int(s[1])

    def trainable_idx(self):
        """name indices of vm.trainable_vars, in that order (the order a value SEQUENCE is assigned in)"""
        return [self.idx[n] for n in self.vm.trainable_vars]

    def pdict(self, items):
        bad = self.np.zeros(3)  # wrong shape: tf.Variable.assign raises
        name = lambda k: self.names[k] if k < len(self.names) else "verif_c17_unknown_%d" % k
        return {name(k): (bad if v == "bad" else self.pool[v]) for k, v in items}

    def enter(self, b):
        k = b[0]
        if k == "at":
            return self.amp.temp_params(self.pdict(b[1]))
        if k == "ats":
            # sequence form (set_params / VarsManager.set_all accept "either dict or list": one value per trainable
            # variable, in trainable_vars order); b[2] = [(name index, value id)] in that order
            seq = [(self.np.zeros(3) if v == "bad" else self.pool[v]) for _, v in b[2]]
            return self.amp.temp_params(self.np.asarray(seq) if b[1] == "ndarray" else seq)
        if k == "vts":
            return self.vm.temp_params([self.pool[v] for _, v in b[2]])
        if k == "vt":
            return self.vm.temp_params(self.pdict(b[1]))
        if k == "mp":
            return self.amp.mask_params(self.pdict(b[1]))
        if k == "ur":
            return self.amp.temp_used_res([self.sel(s) for s in b[1]])
        if k == "g1":
            return self.amp.temp_total_gls_one()
        if k == "kc":
            return self.dg.keep_used_chains()
        if k == "tc":
            return self.tcfg.temp_config(CFG_KEYS[b[1]] if b[1] < len(CFG_KEYS) else "verif_c17_missing", self.pool[b[2]])
        raise ValueError(k)

    def _compute(self, c):
        from tf_pwa.amp.amp import BaseAmplitudeModel
        from tf_pwa.experimental.build_amp import build_amp_matrix
        from tf_pwa.fitfractions import FitFractions, cal_fitfractions
        k = c[0]
        if k == "pw":
            self.amp.partial_weight(self.data, combine=[[self.sel(s) for s in l] for l in c[1]])
        elif k == "pwb":
            BaseAmplitudeModel.partial_weight(self.amp, self.data, combine=[list(l) for l in c[1]])
        elif k == "pwi":
            self.amp.partial_weight_interference(self.data)
        elif k == "cff":
            cal_fitfractions(self.amp, self.data, res=[self.sel(s) for s in c[2]], batch=-(-N_EVENTS // c[1]))
        elif k == "ffn":
            FitFractions(self.amp, [self.sel(s) for s in c[2]]).integral(self.data, batch=-(-N_EVENTS // c[1]))
        elif k == "fi":
            for _ in self.amp.factor_iteration(deep=c[1]):
                self.amp(self.data)
        elif k == "bam":
            build_amp_matrix(self.dg, self.data)
        elif k == "evn":
            for _ in range(c[1]):
                self.amp(self.data)
        elif k == "cbn":  # ConfigLoader.cal_bins_numbers: one evaluation on the phase-space sample
            from tf_pwa.adaptive_bins import AdaptiveBound
            xy = self.np.stack([self.np.arange(N_EVENTS, dtype=float), (self.np.arange(N_EVENTS, dtype=float) * 7) % N_EVENTS])
            self.config.cal_bins_numbers(AdaptiveBound(xy, [[2, 2]]), self.data, self.data, lambda d: xy)
        elif k == "pla":  # PlotAllData = get_all_plotdatas / get_plotter, without any drawing
            from tf_pwa.config_loader.plotter import PlotAllData
            PlotAllData(self.amp, self.plot_data(), self.plot_data(), res=[[self.sel(x) for x in l] for l in c[1]])
        elif k == "pam":
            from tf_pwa.experimental.factor_system import partial_amp
            partial_amp(self.amp, self.data, [self.names[z] for z in c[1]], [])
        elif k == "ccf":  # ConfigLoader.cal_fitfractions(params, mcdata, res, batch, method)
            self.config.cal_fitfractions(params=self.pdict(c[1]), mcdata=self.data, res=[self.sel(x) for x in c[3]],
                                         batch=-(-N_EVENTS // c[2]), method="new" if c[4] else "old")
        elif k == "cpw":  # the weight computation of plot_partial_wave (_get_plot_partial_wave_input -> _cal_partial_wave)
            self.config._cal_partial_wave(self.amp, self.pdict(c[1]), self.data, self.data, None, None, "", {}, [],
                                          res=[[self.sel(x) for x in l] for l in c[3]], batch=-(-N_EVENTS // c[2]))
        elif k == "pwif":  # the weights_function closure of plot_partial_wave_interf (drawing replaced by a capture)
            got = []
            self.config.plot_partial_wave = lambda partial_waves_function=None, **kw: got.append(partial_waves_function)
            try:
                self.config.plot_partial_wave_interf([self.sel(x) for x in c[1]], [self.sel(x) for x in c[2]])
            finally:
                del self.config.plot_partial_wave
            got[0](self.data)
        elif k == "lp":
            self._likelihood_profile(c)
        elif k == "pe":
            self._params_error(c)
        else:
            raise ValueError(k)

    def plot_data(self):
        np = self.np

        class _D(dict):
            def get_weight(self):
                return np.ones(N_EVENTS)
        return _D(self.data)

    def _likelihood_profile(self, c):
        """ConfigLoader.likelihood_profile with `self.fit` replaced by a stub that moves every trainable variable (the
        scan, the fixing / freeing and the restoring are the library's); the k-th fit raises"""
        import types
        v, nu, nd = c[1], c[2], c[3]
        name = self.names[v] if v < len(self.names) else "verif_c17_unknown"
        cur = float(self.config.get_params()[name]) if v < len(self.names) else 0.0
        delta = 0.25
        var_max, var_min, n = cur + (nu - 0.5) * delta, cur - (nd + 0.5) * delta, max(nu + nd, 1)
        dv = (var_max - var_min) / n  # the arithmetic of the code, so that the scan points are bit-identical
        ups, x = [], cur
        while x <= var_max:
            ups.append(x)
            x += dv
        downs, x = [], cur - dv
        while x >= var_min:
            downs.append(x)
            x -= dv
        _RT[id(c)] = ([self.pid(x) for x in ups], [self.pid(x) for x in downs])
        calls = [0]

        def fit_stub(*a, **kw):
            self._tick()
            for j, nme in enumerate(list(self.vm.trainable_vars)):
                self.vm.variables[nme].assign(self.pool[self.rand_ids[(calls[0] + j) % len(self.rand_ids)]])
            calls[0] += 1
            return types.SimpleNamespace(min_nll=0.0)

        self.config.fit = fit_stub
        try:
            self.config.likelihood_profile(name, var_min, var_max, n)
        finally:
            del self.config.fit

    def _params_error(self, c):
        """ConfigLoader.get_params_error(params, method="correct", correct_params=…) with the numerics of the likelihood
        (Model.nll, Model.nll_grad_hessian) replaced by counting stubs; FCN, set_params and cal_hesse_correct are the
        library's"""
        import tensorflow as tf
        from tf_pwa.model import model as mm
        np = self.np

        def hess_stub(m, *a, **kw):
            self._tick()
            n = len(self.vm.trainable_vars)
            return tf.constant(1.0, dtype=tf.float64), np.zeros(n), tf.eye(n, dtype=tf.float64)

        def nll_stub(m, *a, **kw):
            self._tick()
            return tf.constant(1.0, dtype=tf.float64)

        cp = [self.vm.trainable_vars[0]] if c[2] else []
        _RT[id(c)] = 4 * len(self.vm.trainable_vars) if c[2] else 0
        saved = mm.Model.nll_grad_hessian, mm.Model.nll
        mm.Model.nll_grad_hessian, mm.Model.nll = hess_stub, nll_stub
        try:
            self.config.get_params_error(self.pdict(c[1]), data=[self.data], phsp=[self.data], batch=1000,
                                         correct_params=cp, method="correct", force_pos=False)
        finally:
            mm.Model.nll_grad_hessian, mm.Model.nll = saved

    def compute(self, c, fault):
        """run a computation; the `fault`-th density evaluation inside it raises"""
        target = "get_amp" if c[0] == "bam" else "sum_amp"
        orig = getattr(self.dg, target)
        count = [0]
        first = []

        def tick():
            i = count[0]
            count[0] += 1
            if fault is not None and i == fault:
                raise Fault("injected into evaluation %d" % i)

        self._tick = tick  # likelihood_profile / get_params_error count fits / likelihood evaluations instead

        def wrapped(*a, **kw):
            tick()
            if self.replay_evals and first and c[0] in CHEAP_OK:
                return first[0]  # cheap mode: only the first evaluation of a computation is a real one
            first.append(orig(*a, **kw))
            return first[-1]

        setattr(self.dg, target, wrapped)
        err = None
        try:
            with contextlib.redirect_stdout(io.StringIO()):  # cal_bins_numbers, get_params_error, time_print … print
                self._compute(c)
        except Exception as e:
            err = "%s: %s" % (type(e).__name__, str(e)[:200])
        finally:
            delattr(self.dg, target)
        # the exception (and with it the frames that hold abandoned generators) is dropped here
        if err is not None and c[0] in ("fi", "bam"):
            gc.collect()
        self.n_evals += count[0]
        if err is not None:
            raise Fault(err)

    def run_node(self, prog, rec):
        k = prog[0]
        if k == "skip":
            return
        if k == "raise":
            raise Fault("user code raises")
        if k == "setp":  # the user code of a body assigns parameters: permanent by design
            self.amp.set_params(self.pdict(prog[1]))
            return
        # selection statements of the user code of a body: permanent edits of the chain selection
        if k == "addc":
            self.dg.add_used_chains([int(i) for i in prog[1]])
            return
        if k == "setc":
            self.dg.set_used_chains([int(i) for i in prog[1]])
            return
        if k == "setr":
            self.dg.set_used_res([self.sel(x) for x in prog[1]])
            return
        if k == "seq":
            self.run_node(prog[1], rec)
            self.run_node(prog[2], rec)
            return
        node = {"prog": prog, "children": [], "before": self.snap(), "outcome": "normal", "entry": self.entry_ctx(prog)}
        rec.append(node)
        try:
            if k == "blk":
                entered = [False]
                try:
                    with self.enter(prog[1]):
                        entered[0] = True
                        self.run_node(prog[2], node["children"])
                except Exception:
                    node["outcome"] = "body-raised" if entered[0] else "enter-raised"
                    raise
            else:
                try:
                    self.compute(prog[1], prog[2])
                except Exception:
                    node["outcome"] = "eval-raised"
                    raise
        finally:
            node["after"] = self.snap()

    def entry_ctx(self, prog):
        """context tags that decide whether a NORMAL exit of this node can restore at all"""
        tags = []
        if prog[0] == "blk":
            b = prog[1]
            if b[0] in ("at", "ats") and self.vm.mask_vars:
                tags.append("masked")
            if b[0] == "vt" and any(self.names[k] in self.vm.bnd_dic for k, _ in b[1] if k < len(self.names)):
                tags.append("bounded")
        else:
            c = prog[1]
            full = list(self.dg.chains_idx) == list(range(self.n))
            stale = bool(self.dg.not_full) != (len(self.dg.chains_idx) != self.n)
            if c[0] in ("cff", "ffn", "pla") and (not full or self.dg.not_full):
                tags.append("non-default-selection")
            if c[0] == "lp" and c[1] < len(self.names):
                n = self.names[c[1]]
                tags += [t for t, on in (("trainable", n in self.vm.trainable_vars), ("bounded", n in self.vm.bnd_dic),
                                         ("masked", bool(self.vm.mask_vars))) if on]
            if c[0] == "pe":
                tags += [t for t, on in (("params-given", bool(c[1])), ("finite-differences", bool(c[2]))) if on]
            if c[0] == "pam" and self.vm.mask_vars:
                tags.append("masked")
            if c[0] in ("pw", "pwb", "pwi", "bam") and stale:
                tags.append("stale-not_full")
        return tags

    def run(self, st, prog, replay_evals=False):
        """returns (raised, exception text, snapshot after, node records, density unchanged?)"""
        self.replay_evals = replay_evals
        self.put(st)
        self.n_evals = 0
        d0 = self.density()
        before = self.snap()
        attrs0 = self.attrs()
        rec, raised, text = [], False, ""
        try:
            self.run_node(prog, rec)
        except Exception as e:
            raised, text = True, "%s: %s" % (type(e).__name__, str(e)[:200])
        after = self.snap()
        # density of the fixed sample before / after EVERY program; it must be bit-identical whenever the observed
        # state is (a difference then means state the snapshot does not see)
        attrs1 = self.attrs()
        hidden = sorted(k.split(":", 1)[1] for k in set(attrs0) | set(attrs1) if attrs0.get(k) != attrs1.get(k)) if after == before else []
        density_changed = self.density() != d0
        same_density = not (after == before and density_changed)
        return {"raised": raised, "text": text, "before": before, "after": after, "nodes": rec, "same_density": same_density,
                "density_changed": density_changed, "hidden_attrs": hidden, "evals": self.n_evals}


SITE_NAME = {
    "at": "AbsPDF.temp_params", "ats": "AbsPDF.temp_params(sequence)", "vt": "VarsManager.temp_params", "mp": "mask_params", "ur": "temp_used_res",
    "g1": "temp_total_gls_one", "tc": "temp_config", "pw": "DecayGroup.partial_weight",
    "pwb": "BaseAmplitudeModel.partial_weight", "pwi": "partial_weight_interference", "cff": "cal_fitfractions",
    "ffn": "FitFractions.integral", "fi": "factor_iteration", "bam": "build_amp_matrix",
    "vts": "VarsManager.temp_params(sequence)", "evn": "amp(data)", "cbn": "ConfigLoader.cal_bins_numbers",
    "pla": "PlotAllData", "pam": "factor_system.partial_amp", "ccf": "ConfigLoader.cal_fitfractions",
    "cpw": "ConfigLoader._cal_partial_wave", "pwif": "plot_partial_wave_interf.weights_function",
    "lp": "ConfigLoader.likelihood_profile", "pe": "ConfigLoader.get_params_error", "kc": "keep_used_chains",
}
COMPONENTS = ["params", "mask_vars", "chains_idx", "not_full", "mask_factor", "config", "ls", "trainable"]


TAGS_FOR = {"lp": {"trainable": ("trainable",), "params": ("bounded", "masked")}}


def unguarded_setp(p):
    """does the program assign parameters (set_params in a body) outside every amp.temp_params block?"""
    k = p[0]
    if k == "setp":
        return True
    if k == "blk":
        return False if p[1][0] in ("at", "ats") else unguarded_setp(p[2])
    if k == "seq":
        return unguarded_setp(p[1]) or unguarded_setp(p[2])
    return False


SEL_STMTS = ("addc", "setc", "setr")


def unguarded_sel(p):
    """does the program edit the chain selection (add_used_chains / set_used_chains / set_used_res in a body) outside
    every chain-restoring block (temp_used_res, keep_used_chains)?"""
    k = p[0]
    if k in SEL_STMTS:
        return True
    if k == "blk":
        return False if p[1][0] in ("ur", "kc") else unguarded_sel(p[2])
    if k == "seq":
        return unguarded_sel(p[1]) or unguarded_sel(p[2])
    return False


def has_y(p):
    """does the program use the grammar of Model/OverrideY.lean (selection statements, keep_used_chains)?"""
    k = p[0]
    if k in SEL_STMTS:
        return True
    if k == "blk":
        return p[1][0] == "kc" or has_y(p[2])
    if k == "seq":
        return has_y(p[1]) or has_y(p[2])
    return False


def meant_to_stay(c, prog):
    """components a permanent edit of the user code is MEANT to change"""
    return (c == "params" and unguarded_setp(prog)) or (c in ("chains_idx", "not_full") and unguarded_sel(prog))


def leaks(nodes, out):
    """innermost nodes whose exit state differs from their entry state -> list of (key, node, component)"""
    any_leak = False
    for nd in nodes:
        child = leaks(nd["children"], out)
        # parameters assigned by a set_params of the body outside any amp.temp_params are meant to stay
        # (likewise the selection edited by a selection statement outside any temp_used_res / keep_used_chains)
        diff = [c for c in COMPONENTS if nd["before"][c] != nd["after"][c]
                and not (nd["prog"][0] == "blk" and meant_to_stay(c, nd["prog"]))]
        if diff:
            any_leak = True
            if not child:
                kind = nd["prog"][1][0]
                for c in diff:
                    # entry tags that matter for THIS component (keeps the keys a small closed set)
                    tags = [t for t in nd["entry"] if kind not in TAGS_FOR or t in TAGS_FOR[kind].get(c, ())]
                    ctx = ":" + "+".join(tags) if (nd["outcome"] == "normal" and tags) else ""
                    out.append(("%s:%s%s:%s" % (SITE_NAME[kind], nd["outcome"], ctx, c), nd, c))
    return any_leak


# --------------------------------------------------------------------------
# serialisation for the Lean driver
# --------------------------------------------------------------------------

def s_list(items, f):
    return [str(len(items))] + [t for it in items for t in f(it)]


def s_sel(s):
    return [s[0], str(s[1])]


def s_pv(kv):
    return [str(kv[0]), "bad" if kv[1] == "bad" else str(kv[1])]


def s_prog(p):
    k = p[0]
    if k in ("skip", "raise"):
        return [k]
    if k == "setp":
        return ["setp"] + s_list(p[1], s_pv)
    if k in ("addc", "setc"):
        return [k] + s_list(p[1], lambda i: [str(i)])
    if k == "setr":
        return ["setr"] + s_list(p[1], s_sel)
    if k == "seq":
        return ["seq"] + s_prog(p[1]) + s_prog(p[2])
    if k == "blk":
        b = p[1]
        if b[0] in ("at", "vt", "mp"):
            t = [b[0]] + s_list(b[1], s_pv)
        elif b[0] in ("ats", "vts"):  # the values only: the model assigns them to its trainable list, in order
            t = [b[0]] + s_list(b[2], lambda kv: ["bad" if kv[1] == "bad" else str(kv[1])])
        elif b[0] == "ur":
            t = ["ur"] + s_list(b[1], s_sel)
        elif b[0] == "g1":
            t = ["g1"]
        elif b[0] == "kc":
            return ["kc"] + s_prog(p[2])
        else:
            t = ["tc", str(b[1]), str(b[2])]
        return ["blk"] + t + s_prog(p[2])
    c, fault = p[1], p[2]
    fs = lambda f: "-" if f is None else str(f)
    if c[0] == "ccf":  # derived program Override.cfgCalFitfractions
        return s_prog(("blk", ("at", c[1]), ("cmp", ("ffn" if c[4] else "cff", c[2], c[3]), fault)))
    if c[0] == "cpw":  # derived program Override.calPartialWave: the fault index counts all evaluations of the call
        nb, comb = c[2], c[3]
        g = None if fault is None or fault < nb else fault - nb
        tail = ("skip",)
        for j in reversed(range(nb)):
            fj = g - j * len(comb) if (g is not None and len(comb) and g // len(comb) == j) else None
            tail = ("seq", ("cmp", ("pw", comb), fj), tail)
        return s_prog(("blk", ("at", c[1]), ("seq", ("cmp", ("evn", nb), fault if (fault is not None and fault < nb) else None), tail)))
    if c[0] == "pwif":  # derived program Override.interfWeights
        one = lambda r, j: ("blk", ("ur", r), ("cmp", ("evn", 1), 0 if fault == j else None))
        return s_prog(("seq", one(c[1], 0), ("seq", one(c[2], 1), one(list(c[1]) + list(c[2]), 2))))
    if c[0] in ("evn", "cbn"):
        return ["cmp", "evn", str(c[1] if c[0] == "evn" else 1), fs(fault)]
    if c[0] == "pla":
        return ["cmp", "pla"] + s_list(c[1], lambda l: s_list(l, s_sel)) + [fs(fault)]
    if c[0] == "pam":
        return ["cmp", "pam"] + s_list(c[1], lambda i: [str(i)]) + [fs(fault)]
    if c[0] == "lp":
        up, down = _RT.get(id(c), ([], []))
        return ["cmp", "lp", str(c[1])] + s_list(up, lambda i: [str(i)]) + s_list(down, lambda i: [str(i)]) + [fs(fault)]
    if c[0] == "pe":
        return ["cmp", "pe"] + s_list(c[1], s_pv) + [str(_RT.get(id(c), 0)), fs(fault)]
    if c[0] == "pw":
        t = ["pw"] + s_list(c[1], lambda l: s_list(l, s_sel))
    elif c[0] == "pwb":
        t = ["pwb"] + s_list(c[1], lambda l: s_list(l, lambda i: [str(i)]))
    elif c[0] in ("cff", "ffn"):
        t = [c[0], str(c[1])] + s_list(c[2], s_sel)
    elif c[0] == "fi":
        t = ["fi", str(c[1])]
    else:
        t = [c[0]]
    return ["cmp"] + t + ["-" if fault is None else str(fault)]


def s_env(rig):
    one = lambda i: [str(i)]
    return ([str(rig.n)] + s_list(rig.res_chains, lambda l: s_list(l, one)) + s_list(rig.bounded, one)
            + s_list(rig.factor_masks, lambda ch: s_list(ch, lambda m: s_list(m, lambda kv: [str(kv[0]), str(kv[1])])))
            + s_list(rig.chain_decays, lambda l: s_list(l, one)))


def s_state(st):
    one = lambda i: [str(i)]
    b = lambda x: ["1" if x else "0"]
    return (s_list(st["params"], one) + s_list(st["mask"], lambda kv: [str(kv[0]), str(kv[1])]) + s_list(st["chains"], one)
            + b(st["nf"]) + s_list(st["mf"], b) + s_list(st["cfg"], one) + s_list(st["ls"], lambda l: s_list(l, one))
            + s_list(st["tr"], one))


def line(rig, flags, st, prog):
    return " ".join(["C17y" if has_y(prog) else "C17", "run"] + s_list([flags[s] for s in SITES], lambda x: ["1" if x else "0"]) + s_env(rig)
                    + s_state(st) + s_prog(prog))


def parse_out(rig, out):
    """model answer -> (raised, snapshot in the format of Rig.snap)"""
    t = out.split(" ")
    pos = [1]

    def nat():
        pos[0] += 1
        return int(t[pos[0] - 1])

    def tok():
        pos[0] += 1
        return t[pos[0] - 1]

    def lst(f):
        return [f() for _ in range(nat())]

    raised = t[0] == "1"
    def val():
        x = tok()
        return None if x == "t" else C.f2h(rig.evalv(x))  # `t`: unspecified temporary value (wildcard)

    snap = {}
    snap["params"] = lst(val)
    snap["mask_vars"] = lst(lambda: (nat(), val()))
    snap["chains_idx"] = lst(nat)
    snap["not_full"] = tok() == "1"
    snap["mask_factor"] = lst(lambda: tok() == "1")
    snap["config"] = lst(val)
    snap["ls"] = lst(lambda: lst(nat))
    snap["trainable"] = lst(nat)
    if pos[0] != len(t):
        raise C.ModelBroken("trailing tokens in model answer: " + out[:200])
    return raised, snap


# --------------------------------------------------------------------------
# probes: one minimal program per defect site and outcome
# --------------------------------------------------------------------------

def probes(rig):
    """(site flag, name, initial-state changes, program)"""
    f = rig.free
    v = rig.rand_ids
    b0 = rig.bounded[0]
    P = []
    raise_ = ("raise",)
    blk = lambda b, body=("skip",): ("blk", b, body)
    cmp_ = lambda c, fault=None: ("cmp", c, fault)
    masked = {"mask": [(f[2], 0), (f[5], v[3])]}
    partial = {"chains": [2, 0], "nf": True}
    stale = {"chains": [0, 1, 2], "nf": True}
    P.append(("absTemp", "temp_params under mask_params", masked, blk(("at", [(f[2], v[4]), (f[6], v[5])]))))
    P.append(("absTemp", "temp_params, body raises", {}, blk(("at", [(f[2], v[4])]), raise_)))
    P.append(("absTemp", "temp_params, second value rejected", {}, blk(("at", [(f[2], v[4]), (f[6], "bad")]))))
    P.append(("absTemp", "temp_params, normal exit", {}, blk(("at", [(f[2], v[4]), (f[6], v[5])]))))
    tr = rig.trainable_idx()
    P.append(("absTemp", "temp_params(list of all trainable values), normal exit", {}, blk(("ats", "list", [(i, v[(4 + j) % len(v)]) for j, i in enumerate(tr)]))))
    P.append(("absTemp", "temp_params(ndarray of all trainable values), body raises", {}, blk(("ats", "ndarray", [(i, v[(7 + j) % len(v)]) for j, i in enumerate(tr)]), raise_)))
    P.append(("vmTemp", "vm.temp_params on a bounded variable", {"setp": (b0, v[9])}, blk(("vt", [(b0, v[6])]))))
    P.append(("vmTemp", "vm.temp_params, body raises", {}, blk(("vt", [(f[7], v[7])]), raise_)))
    P.append(("vmTemp", "vm.temp_params, second value rejected", {}, blk(("vt", [(f[7], v[7]), (f[8], "bad")]))))
    unknown = len(rig.names) + 3
    P.append(("absTemp", "temp_params with an unknown name (warning only)", {}, blk(("at", [(f[2], v[4]), (unknown, v[5])]))))
    P.append(("vmTemp", "vm.temp_params with an unknown name (raises before any change)", {}, blk(("vt", [(f[7], v[7]), (unknown, v[5])]))))
    P.append(("tempConfig", "temp_config with an unregistered key (raises before any change)", {}, blk(("tc", 5, v[8]))))
    P.append(("vmMask", "mask_params, body raises", {}, blk(("mp", [(f[2], 0)]), raise_)))
    P.append(("vmMask", "mask_params, normal exit", masked, blk(("mp", [(f[9], 0)]))))
    P.append(("usedRes", "temp_used_res, normal exit", {}, blk(("ur", [("r", 0), ("r", 2)]))))
    P.append(("usedRes", "temp_used_res, body raises", {}, blk(("ur", [("r", 1)]), raise_)))
    P.append(("glsOne", "temp_total_gls_one, body raises", {}, blk(("g1",), raise_)))
    P.append(("glsOne", "temp_total_gls_one, normal exit", {"mf": [True] + [False] * (len(rig.mask_part) - 1)}, blk(("g1",))))
    P.append(("glsOne", "temp_total_gls_one, normal exit, all flags False at entry", {}, blk(("g1",))))
    P.append(("tempConfig", "temp_config, body raises", {}, blk(("tc", 1, v[8]), raise_)))
    P.append(("tempConfig", "temp_config, normal exit", {}, blk(("tc", 0, v[8]))))
    for site, c in (("pw", ("pw", [[("r", 0)], [("i", 1), ("r", 2)]])), ("pwBase", ("pwb", [[0], [1, 2]])), ("pwi", ("pwi",))):
        P.append((site, c[0] + ", second evaluation raises", {}, cmp_(c, 1)))
        P.append((site, c[0] + ", stale not_full at entry", stale, cmp_(c)))
        P.append((site, c[0] + ", partial selection at entry", partial, cmp_(c)))
    for site, c in (("calFF", ("cff", 2, [("r", 0), ("r", 1)])), ("appendInt", ("ffn", 2, [("r", 0), ("r", 1)]))):
        P.append((site, c[0] + ", third evaluation raises", {}, cmp_(c, 2)))
        P.append((site, c[0] + ", partial selection at entry", partial, cmp_(c)))
        P.append((site, c[0] + ", default selection at entry", {}, cmp_(c)))
    P.append(("factorIter", "factor_iteration(2), normal", {}, cmp_(("fi", 2))))
    P.append(("factorIter", "factor_iteration(1), consumer raises at item 1", {}, cmp_(("fi", 1), 1)))
    P.append(("vmMask", "factor_iteration(2), consumer raises at item 3", {"chains": [1, 2], "nf": True}, cmp_(("fi", 2), 3)))
    P.append(("bam", "build_amp_matrix, 2nd evaluation raises", {"ls": None}, cmp_(("bam",), 1)))
    P.append(("bam", "build_amp_matrix, stale not_full at entry", stale, cmp_(("bam",))))
    P.append(("splitGls", "build_amp_matrix, 2nd evaluation raises (ls selection)", {"ls": None}, cmp_(("bam",), 1)))
    # round 3: further read-only entry points
    pla = ("pla", [[("r", 0)], [("r", 1), ("i", 2)]])
    P.append(("plotAll", "PlotAllData(res), partial selection at entry", partial, cmp_(pla)))
    P.append(("plotAll", "PlotAllData(res), third evaluation raises", {}, cmp_(pla, 2)))
    P.append(("plotAll", "PlotAllData(res), default selection at entry", {}, cmp_(pla)))
    P.append(("likeProf", "likelihood_profile on a trainable variable, 2 points up 1 down", {}, cmp_(("lp", tr[1], 2, 1))))
    P.append(("likeProf", "likelihood_profile, second fit raises", {}, cmp_(("lp", tr[1], 2, 1), 1)))
    P.append(("likeProf", "likelihood_profile on a bounded variable", {"setp": (b0, v[9])}, cmp_(("lp", b0, 1, 0))))
    P.append(("likeProf", "likelihood_profile under mask_params", masked, cmp_(("lp", f[6], 1, 1))))
    P.append(("likeProf", "likelihood_profile on a bounded variable under mask_params", dict(masked, setp=(b0, v[9])), cmp_(("lp", b0, 0, 1))))
    P.append(("likeProf", "likelihood_profile on a fixed variable, first fit raises", {}, cmp_(("lp", [i for i in range(len(rig.names)) if i not in tr][0], 1, 1), 0)))
    P.append(("likeProf", "likelihood_profile on an unknown variable (raises before any change)", {}, cmp_(("lp", unknown, 1, 1))))
    P.append(("hesse", "get_params_error(params)", {}, cmp_(("pe", [(f[2], v[4])], 0))))
    P.append(("hesse", "get_params_error(correct_params=[one])", {}, cmp_(("pe", [], 1))))
    P.append(("hesse", "get_params_error(correct_params=[one]), 6th evaluation raises", {}, cmp_(("pe", [(f[6], v[5])], 1), 5)))
    P.append(("hesse", "get_params_error(params, correct_params=[one])", {}, cmp_(("pe", [(f[6], v[5])], 1))))
    P.append(("hesse", "get_params_error() without arguments", {}, cmp_(("pe", [], 0))))
    P.append(("tempVar", "partial_amp, evaluation raises", {}, cmp_(("pam", [f[2], f[6]]), 0)))
    P.append(("tempVar", "partial_amp under mask_params", masked, cmp_(("pam", [f[6]]))))
    P.append(("tempVar", "partial_amp, normal", {}, cmp_(("pam", [f[2]]))))
    # entry points that are compositions of patched sites ("-": no flag of their own)
    P.append(("-", "ConfigLoader.cal_fitfractions(params, old), 3rd evaluation raises", partial, cmp_(("ccf", [(f[2], v[4])], 2, [("r", 0), ("r", 1)], False), 2)))
    P.append(("-", "ConfigLoader.cal_fitfractions(params, new)", partial, cmp_(("ccf", [(f[2], v[4]), (f[6], v[5])], 1, [("r", 1)], True))))
    P.append(("-", "_cal_partial_wave(params, res), 2 batches", partial, cmp_(("cpw", [(f[2], v[4])], 2, [[("r", 0)], [("i", 1)]]))))
    P.append(("-", "_cal_partial_wave(params, res), evaluation 4 (second batch of partial weights) raises", {}, cmp_(("cpw", [(f[2], v[4])], 2, [[("r", 0)], [("i", 1)]]), 4)))
    P.append(("-", "plot_partial_wave_interf weights", partial, cmp_(("pwif", [("r", 0)], [("r", 1)]))))
    P.append(("-", "plot_partial_wave_interf weights, second evaluation raises", stale, cmp_(("pwif", [("r", 0)], [("r", 2)]), 1)))
    P.append(("-", "cal_bins_numbers", partial, cmp_(("cbn",))))
    P.append(("-", "cal_bins_numbers, the evaluation raises", masked, cmp_(("cbn",), 0)))
    # sequence / nested forms, set_params in a body
    seq3 = lambda j: [(i, v[(j + q) % len(v)]) for q, i in enumerate(tr)]
    P.append(("absTemp", "temp_params(list) too short (IndexError after the first values)", {}, blk(("ats", "list", seq3(2)[:3]))))
    P.append(("absTemp", "temp_params(list) with a rejected value", {}, blk(("ats", "list", seq3(3)[:2] + [(tr[2], "bad")] + seq3(3)[3:]))))
    P.append(("absTemp", "temp_params(list) with the trainable list permuted", {"tr": tr[3:] + tr[:3]}, blk(("ats", "list", seq3(5)))))
    P.append(("absTemp", "nested: list form > mask_params > dict form > set_params; raise", {},
              blk(("ats", "ndarray", seq3(6)), blk(("mp", [(f[2], 0)]), blk(("at", [(f[6], v[5])]), ("seq", ("setp", [(f[2], v[7]), (f[9], v[8])]), raise_))))))
    P.append(("absTemp", "dict form > temp_used_res > list form > set_params", {},
              blk(("at", [(f[6], v[5])]), blk(("ur", [("r", 1)]), blk(("ats", "list", seq3(8)), ("setp", [(f[6], v[9])]))))))
    P.append(("-", "vm.temp_params(list) raises before any change", {}, blk(("vts", "list", seq3(4)))))
    P.append(("-", "set_params inside mask_params is kept", {}, blk(("mp", [(f[2], 0)]), ("setp", [(f[2], v[7]), (f[9], v[8])]))))
    P.append(("-", "set_params inside temp_used_res / temp_total_gls_one / temp_config is kept", {},
              blk(("ur", [("r", 0)]), blk(("g1",), blk(("tc", 0, v[8]), ("setp", [(f[9], v[8])]))))))
    P.append(("vmTemp", "vm.temp_params restores its keys only: set_params on its key and on another one", {},
              blk(("vt", [(f[7], v[7])]), ("setp", [(f[7], v[3]), (f[9], v[8])]))))
    # round 4: selection statements in a body, the block keep_used_chains (restricted and unrestricted entry states)
    kc = lambda body=("skip",): ("blk", ("kc",), body)
    seq = lambda *ps: ps[0] if len(ps) == 1 else ("seq", ps[0], seq(*ps[1:]))
    one = {"chains": [1], "nf": True}
    for ename, entry in (("restricted entry selection", partial), ("single-chain entry selection", one), ("full entry selection", {})):
        P.append(("-", "keep_used_chains: add_used_chains first, normal exit; " + ename, entry, kc(("addc", [1, 2]))))
        P.append(("-", "keep_used_chains: add_used_chains first, body raises; " + ename, entry, kc(seq(("addc", [0]), ("addc", [2]), raise_))))
        P.append(("-", "keep_used_chains: set_used_chains, add_used_chains, set_used_res, evaluation; " + ename, entry,
                  kc(seq(("setc", [1]), ("addc", [2, 1]), ("setr", [("r", 0), ("i", 1)]), cmp_(("evn", 1))))))
        P.append(("-", "keep_used_chains: set_used_res first then add_used_chains, evaluation raises; " + ename, entry,
                  kc(seq(("setr", [("r", 2)]), ("addc", [0]), cmp_(("evn", 1), 0)))))
        P.append(("usedRes", "temp_used_res: add_used_chains / set_used_chains in the body; " + ename, entry,
                  blk(("ur", [("r", 0)]), seq(("addc", [2]), ("setc", [1, 0]), ("addc", [2])))))
        P.append(("usedRes", "temp_used_res > keep_used_chains > add_used_chains; " + ename, entry,
                  blk(("ur", [("r", 0)]), kc(("addc", [1])))))
        P.append(("usedRes", "temp_used_res > keep_used_chains > add_used_chains, raise; " + ename, entry,
                  blk(("ur", [("r", 1), ("i", 0)]), kc(seq(("addc", [2]), raise_)))))
    P.append(("-", "set_used_res (permanent), then keep_used_chains > add_used_chains", {}, seq(("setr", [("r", 0)]), kc(("addc", [2])))))
    P.append(("-", "set_used_chains (permanent), then keep_used_chains > add_used_chains, raise", {}, seq(("setc", [2, 1]), kc(seq(("addc", [0]), raise_)))))
    P.append(("-", "keep_used_chains > keep_used_chains > add_used_chains; outer add afterwards", partial, kc(seq(kc(("addc", [1])), ("addc", [1]), cmp_(("pw", [[("i", 0)]]))))))
    P.append(("-", "selection statements inside mask_params / temp_total_gls_one / temp_params are kept", partial,
              blk(("mp", [(f[2], 0)]), blk(("g1",), blk(("at", [(f[6], v[5])]), seq(("addc", [1]), ("setr", [("r", 1), ("i", 2)])))))))
    P.append(("-", "keep_used_chains around partial_weight and cal_fitfractions with add_used_chains in between", partial,
              kc(seq(("addc", [1]), cmp_(("pw", [[("r", 0)]])), ("addc", [1]), cmp_(("cff", 1, [("r", 1)]), 1)))))
    out = []
    for site, name, mod, prog in P:
        st = rig.base_state()
        for k, val in mod.items():
            if k == "setp":
                st["params"][val[0]] = val[1]
            elif k == "ls":
                st["ls"] = [list(range(n)) for n in rig.n_ls]
                st["ls"][0] = [1]
            else:
                st[k] = val
        out.append((site, name, st, prog))
    return out


def observe_fix_flags(results):
    """a site carries the fix iff none of its probes is blamed on a component that site owns"""
    own = {
        "absTemp": ("at", None), "vmTemp": ("vt", None), "vmMask": (None, "mask_vars"), "usedRes": ("ur", None),
        "glsOne": ("g1", None), "tempConfig": ("tc", None), "pw": ("pw", None), "pwBase": ("pwb", None),
        "pwi": ("pwi", None), "calFF": ("cff", None), "appendInt": ("ffn", None), "factorIter": ("fi", ("chains_idx", "not_full")),
        "splitGls": ("bam", ("ls",)), "bam": ("bam", ("chains_idx", "not_full")),
        "plotAll": ("pla", None), "likeProf": ("lp", None), "hesse": ("pe", None), "tempVar": ("pam", None),
    }
    flags = {}
    for site in SITES:
        kind, comps = own[site]
        leak = False
        for (s, name, st, prog), r in results:
            if s != site:
                continue
            found = []
            leaks(r["nodes"], found)
            for key, nd, comp in found:
                if site == "vmMask":
                    leak |= comp == "mask_vars"
                elif nd["prog"][1][0] == kind and (comps is None or comp in comps):
                    leak = True
        flags[site] = not leak
    return flags


# --------------------------------------------------------------------------
# random programs
# --------------------------------------------------------------------------

def gen_state(rig, rnd):
    st = rig.base_state()
    for _ in range(rnd.choice([0, 0, 1, 3])):
        st["params"][rnd.choice(rig.free)] = rnd.choice(rig.rand_ids)
    if rnd.random() < 0.3:
        ks = rnd.sample(rig.free, rnd.choice([1, 2]))
        st["mask"] = [(k, rnd.choice([0, 0] + rig.rand_ids[:6])) for k in ks]
    r = rnd.random()
    if r < 0.25:
        sub = rnd.sample(range(rig.n), rnd.randint(1, rig.n))
        st["chains"] = sub
        st["nf"] = len(sub) != rig.n
    elif r < 0.35:
        st["nf"] = True  # stale flag on a full selection
    if rnd.random() < 0.2:
        st["mf"] = [rnd.random() < 0.3 for _ in st["mf"]]
    if rnd.random() < 0.2:
        d = rnd.randrange(len(rig.n_ls))
        st["ls"][d] = sorted(rnd.sample(range(rig.n_ls[d]), rnd.randint(1, rig.n_ls[d])))
    st["cfg"] = [rnd.choice(rig.rand_ids), rnd.choice(rig.rand_ids)]
    r = rnd.random()
    if r < 0.15:  # another order of trainable_vars
        k = rnd.randrange(1, len(st["tr"]))
        st["tr"] = st["tr"][k:] + st["tr"][:k]
    elif r < 0.25:  # one more fixed variable
        drop = rnd.choice(st["tr"])
        st["tr"] = [i for i in st["tr"] if i != drop]
    return st


def gen_sel(rig, rnd, res_only=False):
    if res_only or rnd.random() < 0.7:
        return ("r", rnd.randrange(len(rig.res)))
    return ("i", rnd.randrange(rig.n))


def gen_pdict(rig, rnd, bad_ok, pool):
    ks = list(dict.fromkeys(rnd.sample(pool, rnd.choice([1, 1, 2, 3]))))  # a dict has every key once
    items = [(k, rnd.choice(rig.rand_ids)) for k in ks]
    if bad_ok and rnd.random() < 0.12:
        j = rnd.randrange(len(items))
        items[j] = (items[j][0], "bad")
    return items


def gen_block(rig, rnd):
    k = rnd.choice(["at", "at", "ats", "ats", "vt", "vt", "mp", "mp", "ur", "ur", "g1", "tc", "vts", "kc", "kc"])
    if k == "kc":
        return ("kc",)
    if k == "at":
        return ("at", gen_pdict(rig, rnd, True, rig.free))
    if k in ("ats", "vts"):
        # one value per trainable variable of the DEFAULT list (the state may have fewer: surplus values are ignored);
        # sometimes too short, sometimes (list form) with a value that cannot be assigned
        items = [(i, rnd.choice(rig.rand_ids)) for i in rig.base_tr]
        kind = rnd.choice(["list", "ndarray"])
        r = rnd.random()
        if r < 0.12:
            items = items[:rnd.randrange(0, len(items) - 2)]
        elif r < 0.22 and kind == "list" and k == "ats":
            j = rnd.randrange(len(items) - 2)
            items[j] = (items[j][0], "bad")
        return (k, kind, items)
    if k == "vt":
        return ("vt", gen_pdict(rig, rnd, True, rig.free + rig.bounded * 3))
    if k == "mp":
        return ("mp", [(a, rnd.choice([0, b])) for a, b in gen_pdict(rig, rnd, False, rig.free)])
    if k == "ur":
        return ("ur", [gen_sel(rig, rnd) for _ in range(rnd.choice([1, 1, 2, 3]))])
    if k == "g1":
        return ("g1",)
    return ("tc", rnd.choice([0, 1]), rnd.choice(rig.rand_ids))


def gen_comp(rig, rnd, cheap):
    kinds = ["pw", "pw", "pwb", "pwi", "cff", "ffn", "fi", "fi", "bam", "pla", "lp", "lp", "pe", "pam", "ccf", "cpw", "pwif", "cbn"]
    if cheap:
        kinds = ["pw", "pw", "pwb", "pwb", "pwi", "fi1", "cff1", "lp", "pam", "evn", "cbn", "pla1"]
    k = rnd.choice(kinds)
    if k in ("pla", "pla1"):
        return ("pla", [[gen_sel(rig, rnd) for _ in range(rnd.choice([1, 1, 2]))] for _ in range(1 if k == "pla1" else rnd.choice([1, 2]))])
    if k == "lp":
        nu, nd = rnd.choice([(1, 0), (0, 1), (1, 1), (2, 1), (1, 2)])
        pool = rig.free * 3 + rig.bounded + [i for i in range(len(rig.names)) if i not in rig.base_tr][:2]
        return ("lp", rnd.choice(pool), nu, nd)
    if k == "pe":
        return ("pe", gen_pdict(rig, rnd, True, rig.free) if rnd.random() < 0.6 else [], rnd.choice([0, 0, 1]))
    if k == "pam":
        return ("pam", rnd.sample(rig.free, rnd.choice([1, 2, 3])))
    if k == "evn":
        return ("evn", rnd.choice([1, 2]))
    if k == "cbn":
        return ("cbn",)
    if k == "ccf":
        return ("ccf", gen_pdict(rig, rnd, True, rig.free), rnd.choice([1, 2]), [("r", r) for r in rnd.sample(range(len(rig.res)), rnd.choice([1, 2]))], rnd.random() < 0.5)
    if k == "cpw":
        return ("cpw", gen_pdict(rig, rnd, True, rig.free), rnd.choice([1, 2]), [[gen_sel(rig, rnd) for _ in range(rnd.choice([1, 2]))] for _ in range(rnd.choice([1, 2]))])
    if k == "pwif":
        return ("pwif", [gen_sel(rig, rnd, True)], [gen_sel(rig, rnd, True) for _ in range(rnd.choice([1, 2]))])
    if k == "pw":
        return ("pw", [[gen_sel(rig, rnd) for _ in range(rnd.choice([1, 1, 2]))] for _ in range(rnd.choice([1, 2, 3]))])
    if k == "pwb":
        return ("pwb", [rnd.sample(range(rig.n), rnd.randint(1, rig.n)) for _ in range(rnd.choice([1, 2]))])
    if k == "pwi":
        return ("pwi",)
    if k in ("cff", "ffn"):
        rs = rnd.sample(range(len(rig.res)), rnd.choice([1, 2]))
        return (k, rnd.choice([1, 2]), [("r", r) for r in rs])
    if k == "cff1":
        return (rnd.choice(["cff", "ffn"]), 1, [("r", rnd.randrange(len(rig.res)))])
    if k == "fi1":
        return ("fi", rnd.choice([0, 1]))
    if k == "fi":
        return ("fi", rnd.choice([1, 2, 2, 3]))
    return ("bam",)


def gen_prog(rig, rnd, depth, budget, cheap):
    """budget = max number of nodes; depth = remaining nesting"""
    r = rnd.random()
    if budget[0] <= 0:
        return ("skip",)
    if r < 0.07:
        return ("raise",)
    if r < 0.13:
        return ("setp", gen_pdict(rig, rnd, True, rig.free))
    if r < 0.21:
        return gen_sel_stmt(rig, rnd)
    if r < 0.42 or depth == 0:
        budget[0] -= 1
        fault = rnd.choice([0, 0, 1, 1, 2, 3, 5, 8]) if rnd.random() < 0.3 else None
        return ("cmp", gen_comp(rig, rnd, cheap), fault)
    if r < 0.80:
        budget[0] -= 1
        b = gen_block(rig, rnd)
        body = gen_prog(rig, rnd, depth - 1, budget, cheap)
        if b[0] in ("kc", "ur") and rnd.random() < 0.5:  # a selection statement as the FIRST statement of the body
            body = ("seq", gen_sel_stmt(rig, rnd), body)
        return ("blk", b, body)
    return ("seq", gen_prog(rig, rnd, depth, budget, cheap), gen_prog(rig, rnd, depth, budget, cheap))


def gen_sel_stmt(rig, rnd):
    """add_used_chains / set_used_chains / set_used_res with valid chain indices, never an empty selection"""
    k = rnd.choice(["addc", "addc", "setc", "setr"])
    if k == "setr":
        return ("setr", [gen_sel(rig, rnd, True)] + [gen_sel(rig, rnd) for _ in range(rnd.choice([0, 1]))])
    return (k, rnd.sample(range(rig.n), rnd.randint(1, rig.n)))


def prog_depth(p):
    if p[0] == "blk":
        return 1 + prog_depth(p[2])
    if p[0] == "seq":
        return max(prog_depth(p[1]), prog_depth(p[2]))
    return 0


def prog_size(p):
    if p[0] == "blk":
        return 1 + prog_size(p[2])
    if p[0] == "seq":
        return prog_size(p[1]) + prog_size(p[2])
    return 1 if p[0] == "cmp" else 0


def has_fault(p):
    if p[0] == "raise":
        return True
    if p[0] == "cmp":
        return p[2] is not None
    if p[0] == "blk":
        if p[1][0] in ("at", "vt") and any(v == "bad" for _, v in p[1][1]):
            return True
        if p[1][0] in ("ats", "vts"):
            return True if p[1][0] == "vts" else any(v == "bad" for _, v in p[1][2])
        return has_fault(p[2])
    if p[0] == "seq":
        return has_fault(p[1]) or has_fault(p[2])
    return False


# --------------------------------------------------------------------------
# the check
# --------------------------------------------------------------------------

_RIG = {}


def rig(name="A"):
    if name not in _RIG:
        _RIG[name] = Rig(name)
    return _RIG[name]


def systematic(R, quick):
    """every ordered pair (outer, inner) of block kinds with a normal and a raising innermost body; thorough tier also
    every block kind around every computation kind, fault-free and with the first evaluation raising"""
    f, v = R.free, R.rand_ids
    blocks = [("at", [(f[2], v[10]), (f[12], v[11])]), ("vt", [(f[4], v[12]), (R.bounded[0], v[13])]),
              ("mp", [(f[2], 0), (f[13], v[14])]), ("ur", [("r", 1), ("i", 2)]), ("g1",), ("tc", 0, v[15])]
    comps = [("pw", [[("r", 0)], [("i", 1)]]), ("pwb", [[2], [0, 1]]), ("pwi",), ("cff", 1, [("r", 1)]),
             ("ffn", 1, [("r", 1)]), ("fi", 2), ("bam",)]
    progs = [("blk", o, ("blk", i, body)) for o in blocks for i in blocks for body in (("skip",), ("raise",))]
    if not quick:
        progs += [("blk", o, ("cmp", c, fault)) for o in blocks for c in comps for fault in (None, 0)]
    st = R.base_state()
    st["params"][R.bounded[0]] = v[9]
    out = [(dict(st, params=list(st["params"])), p) for p in progs]
    if not quick:
        # round 4: every block kind (keep_used_chains included) around a selection statement as FIRST statement of the body,
        # from the full and from a restricted entry selection, normal / raising
        stmts = [("addc", [1]), ("setc", [2, 0]), ("setr", [("r", 1), ("i", 0)])]
        for o in blocks + [("kc",)]:
            for stmt in stmts:
                for body in (("skip",), ("raise",), ("cmp", ("pw", [[("i", 1)]]), 0)):
                    for entry in ({}, {"chains": [2, 0], "nf": True}, {"chains": [1], "nf": True}):
                        out.append((dict(st, params=list(st["params"]), **entry), ("blk", o, ("seq", stmt, body))))
    return out


def run_cases(ctx):
    """probes + systematic + seeded random programs on the real objects of both models (shared by correspond and search).
    Returns (flags, items) with items = (case name, rig, initial state, program, run record)."""
    if getattr(ctx, "c17_cases", None) is not None:
        return ctx.c17_cases
    rigs = [rig("A"), rig("B")]
    items = []
    for R in rigs:
        items += [("probe[%s]: %s" % (R.name, p[1]), R, p[2], p[3], R.run(p[2], p[3]), p[0]) for p in probes(R)]
    n_probes = len(items)
    flags = observe_fix_flags([((it[5], it[0], it[2], it[3]), it[4]) for it in items])
    items = [it[:5] for it in items]
    rnd = random.Random(1000003 * ctx.seed + 17)
    n = 100 if ctx.quick else 1500
    if ctx.suspect and ctx.quick:
        n = 300
    # systematic programs run on the model with shared decay objects (quick) / on both (thorough)
    for R in (rigs[1:] if ctx.quick else rigs):
        items += [("systematic[%s] %d" % (R.name, i), R, st, prog, R.run(st, prog)) for i, (st, prog) in enumerate(systematic(R, ctx.quick))]
    n_sys = len(items) - n_probes
    for i in range(n):
        R = rigs[i % 2]
        st = gen_state(R, rnd)
        prog = gen_prog(R, rnd, 4, [rnd.choice([2, 4, 6, 12])], cheap=(rnd.random() < 0.6))
        # quick tier: in two programs out of three only the first density evaluation of each computation is a
        # real one (later ones return that tensor again); the state handling under test is the same
        items.append(("program[%s] %d" % (R.name, i), R, st, prog, R.run(st, prog, replay_evals=ctx.quick and i % 3 != 0)))
    for R in rigs:
        R.put(R.base_state())
    ctx.c17_counts = {"probes": n_probes, "systematic": n_sys, "random": n}
    ctx.c17_cases = (flags, items)
    return ctx.c17_cases


def comp_eq(c, model, impl):
    """equality of one state component; a `None` entry of the model's parameter list is an unspecified value"""
    if c != "params":
        return model == impl
    return len(model) == len(impl) and all(m is None or m == a for m, a in zip(model, impl))


def site_inventory(res):
    """every place of the tree under test that can change the state the property is about, re-derived by an AST walk
    and compared with the reviewed list: a new / vanished / multiplied site is a broken obligation"""
    import c17_sites
    inv, diff = c17_sites.compare(C.REPO)
    cov = {"model": 0, "via": 0, "excluded": 0}
    for k, (acc, why) in c17_sites.REVIEWED.items():
        if inv.get(k, 0):
            cov[why.split(":", 1)[0]] += 1
    res.coverage["override_site_inventory"] = {
        "sites_in_tree": len(inv), "calls_and_assignments": sum(inv.values()), "covered_by_model_and_driven_or_proved": cov["model"],
        "covered_through_an_identical_site": cov["via"], "excluded_with_reason": cov["excluded"],
        "excluded_but_read_only_computation_NOT_COVERED": sorted(k for k, (a, w) in c17_sites.REVIEWED.items() if "NOT COVERED" in w and inv.get(k, 0)),
        "differences": len(diff)}
    if diff:
        res.broke("uncovered override site (inventory of state-changing calls differs from the reviewed list)",
                  [{"site": k, "found": n, "accepted_counts": acc, "status": why} for k, n, acc, why in diff[:12]])


def correspond(ctx, res):
    site_inventory(res)
    flags, items = run_cases(ctx)
    cnt = ctx.c17_counts
    lines = [line(R, flags, st, prog) for _, R, st, prog, _ in items]
    outs = ctx.model.query(lines)
    dis = []
    for (name, R, st, prog, r), out in zip(items, outs):
        if out == "bad-op":
            raise C.ModelBroken("model rejected " + " ".join(s_prog(prog)))
        m_raised, m_snap = parse_out(R, out)
        comp = [c for c in COMPONENTS if not comp_eq(c, m_snap[c], r["after"][c])]
        if m_raised != r["raised"] or comp:
            dis.append({"case": name, "program": " ".join(s_prog(prog)), "differs": comp + ([] if m_raised == r["raised"] else ["raised"]),
                        "impl": {c: r["after"][c] for c in comp}, "model": {c: m_snap[c] for c in comp}, "impl_exception": r["text"]})
    nodes = sum(prog_size(it[3]) for it in items)
    cases = [(it[2], it[3], it[4]) for it in items[cnt["probes"]:]]
    res.coverage.update({
        "traces_validated_against_impl": len(items),
        "evaluations": sum(it[4]["evals"] for it in items),
        "distinct_nontrivial": len({it[1].name + " " + " ".join(s_prog(it[3])) for it in items if prog_size(it[3]) >= 2 or has_fault(it[3])}),
        "rule": "two real models: A = 3-body, every chain its own decay objects; B = 4-body cascade, the decay A->X+E (2 couplings) and the resonance X shared by all three chains; mask_factor / ls observed per distinct object. Probes (one per defect site and outcome, on both models) + systematic programs on B (thorough: A and B) (every ordered pair of block kinds with a normal / raising innermost body; thorough: every block kind around every computation kind, fault-free / first evaluation raising) + seeded random programs, nesting depth <= 4, <= 12 nodes, random initial state (parameter overrides, mask, chain selection incl. stale not_full, mask_factor, ls selection); non-trivial = distinct programs with >= 2 nodes or a fault",
        "exhaustive": False,
        "programs": len(cases), "systematic_programs": cnt["systematic"], "random_programs": cnt["random"], "probes": cnt["probes"], "block_and_compute_nodes": nodes,
        "programs_on_shared_decay_model": sum(1 for it in items if it[1].name == "B"),
        "shared_decay_objects": {R.name: [str(R.decays[i]) for i in R.shared_decays] for R in (rig("A"), rig("B"))},
        "density_compared_before_after": len(items), "object_attributes_compared": {R.name: len(R.attrs()) for R in (rig("A"), rig("B"))}, "density_changed_with_state_leak": sum(1 for it in items if it[4]["density_changed"]),
        "programs_with_fault": sum(1 for _, p, _ in cases if has_fault(p)),
        "programs_raised": sum(1 for _, _, r in cases if r["raised"]),
        "max_depth": max([prog_depth(p) for _, p, _ in cases] + [0]),
        "fix_flags_observed": flags,
        "model_variant": "fixed" if all(flags.values()) else ("as-is" if not any(flags.values()) else "mixed"),
        "disagreements": len(dis),
    })
    res.samples += [{"case": items[i][0], "program": " ".join(s_prog(items[i][3])), "impl_raised": items[i][4]["raised"], "model": outs[i][:160]}
                    for i in (0, cnt["probes"], len(items) // 2, len(items) - 1)]
    if dis:
        res.broke("correspondence Override.exec vs real objects (variant %s)" % res.coverage["model_variant"], dis[:5])
    correspond_objects(ctx, res)


def correspond_objects(ctx, res):
    """the per-object model of temp_total_gls_one (OverrideY.glsOneObjs, theorem restore_shared_objects) against the real
    block with the real visiting sequence (object identities) of rigs A, B and the cached_shape rig C"""
    import c17_y
    lines, seen = c17_y.gls_lines()
    outs = ctx.model.query(lines)
    b = lambda l: " ".join([str(len(l))] + ["1" if x else "0" for x in l])
    dis, fused_differs = [], 0
    for (name, visit, flags, raises, inside, after), out in zip(seen, outs):
        if out == "bad-op":
            raise C.ModelBroken("model rejected a gls line")
        want = b(inside) + " " + b(after)
        if not out.startswith(want + " "):
            dis.append({"rig": name, "visit": visit, "flags_at_entry": flags, "body_raises": raises, "impl_inside_after": want, "model": out})
        fused_differs += out != want + " " + b(after)
    res.coverage["per_object_mask_factor"] = {
        "blocks_compared": len(lines), "disagreements": len(dis), "visiting_sequences": {n: v for n, v, *_ in seen},
        "cases_where_the_fused_loop_of_the_model_would_differ": fused_differs}
    if dis:
        res.broke("correspondence OverrideY.glsOneObjs vs temp_total_gls_one (per-object mask_factor, shared decay objects)", dis[:4])
    # the transcriptions of the round-4 entry points against what their probes saw on the real objects
    lines, want, what = c17_y.model_lines(y_probes(ctx))
    outs = ctx.model.query(lines)
    dis = [{"probe": w[0], "variant": w[1], "impl": x, "model": o} for w, x, o in zip(what, want, outs) if x != o]
    res.coverage["entry_point_models_compared"] = {"lines": len(lines), "disagreements": len(dis),
                                                   "variants": {k: v for k, v in sorted({(w[0].split(";")[0], w[1]) for w in what})}}
    if dis:
        res.broke("correspondence cachedShapePdf / buildCached / attachFixParamsError (Model/OverrideY.lean) vs real objects", dis[:4])


def search(ctx, res):
    """property statement on the implementation: every executed block / computation leaves the observable state as it
    found it (also when it is left by an exception), and the density of the fixed sample is unchanged"""
    flags, items = run_cases(ctx)
    seen = {}
    outside = []
    n_leaky = 0
    for name, R, st, prog, r in items:
        found = []
        leaks(r["nodes"], found)
        if found:
            n_leaky += 1
        for key, nd, comp in found:
            if key in seen:
                continue
            seen[key] = True
            if key.startswith(OUTSIDE_STATEMENT):
                # modelled and compared with the code, but NOT judged: these entry points are not among the computations the
                # property statement lists (a fit / an error calculation is expected to move the parameters)
                outside.append(key)
                continue
            res.fail(key, "%s leaves %s changed (%s exit%s): %s -> %s; program: %s" % (
                SITE_NAME[nd["prog"][1][0]], comp, nd["outcome"], (", entry " + "+".join(nd["entry"])) if nd["entry"] else "",
                _short(nd["before"][comp]), _short(nd["after"][comp]), "model %s: " % R.name + " ".join(s_prog(prog))),
                {"rig": R.name, "init": st, "prog": prog, "key": key})
        if not found and any(r["after"][c] != r["before"][c] for c in COMPONENTS if not meant_to_stay(c, prog)):
            res.fail("unattributed-state-change", "state changed outside any block / computation: model %s: " % R.name + " ".join(s_prog(prog)), {"rig": R.name, "init": st, "prog": prog})
        for a in r["hidden_attrs"]:
            res.fail("object-attribute-changed-with-equal-observed-state:" + a, "attribute %s of a chain / decay / particle object differs after the program although the observed state is restored: model %s: %s" % (
                a, R.name, " ".join(s_prog(prog))), {"rig": R.name, "init": st, "prog": prog})
        if not r["same_density"]:
            res.fail("density-changed-with-equal-observed-state", "density of the fixed sample differs although the observed state is restored: model %s: " % R.name + " ".join(s_prog(prog)),
                     {"rig": R.name, "init": st, "prog": prog})
    outside += search_entry_points(ctx, res)
    if os.environ.get("C17_DUMP_FINDINGS"):  # development aid: the failures of this run as known_findings lines
        with open(os.environ["C17_DUMP_FINDINGS"], "w") as f:
            for g in res.failures:
                f.write(json.dumps({"property": "C17", "kind": "finding", "key": g.key, "what": g.what, "replay": g.replay}) + "\n")
    res.coverage["search_programs"] = len(items)
    res.coverage["search_programs_with_a_leak"] = n_leaky
    res.coverage["search_leak_keys"] = sorted(seen)
    res.coverage["state_changes_observed_outside_the_statement"] = sorted(outside)
    if outside:
        res.notes.append("state changes by entry points that the statement of C17 does not list (recorded, not judged): " + ", ".join(sorted(outside)))


def y_probes(ctx):
    if getattr(ctx, "c17_y_probes", None) is None:
        import c17_y
        ctx.c17_y_probes = c17_y.cached_shape_probes() + c17_y.config_loader_probes()
    return ctx.c17_y_probes


def search_entry_points(ctx, res):
    """round 4: CachedShapeAmplitudeModel.pdf, CachedShapePreProcessor.build_cached (cached_shape rig C), attach_fix_params_error,
    get_params_error(3-point), ConfigLoader.cal_fitfractions(method new / old, nested res) on rig B: observation before ==
    observation after, per object (harness/c17_y.py)"""
    import c17_y
    outside, seen, n_leaky = [], {}, 0
    items = y_probes(ctx)
    for name, entry, r in items:
        n_leaky += bool(r["leaks"])
        for key, comp, b, a in r["leaks"]:
            if key in seen:
                continue
            seen[key] = True
            if key.startswith(c17_y.OUTSIDE_STATEMENT):
                outside.append(key)
                continue
            res.fail(key, "%s leaves %s changed (%s%s): %s -> %s; probe: %s" % (
                r["site"], comp, r["outcome"], (" at evaluation %d: %s" % (r["fault"], r["text"])) if r["outcome"] != "normal" else "", _short(b), _short(a), name),
                {"y_probe": name, "key": key})
    res.coverage["entry_point_probes"] = {
        "probes": len(items), "with_a_leak": n_leaky, "leak_keys": sorted(seen),
        "sites": sorted({r["site"] for _, _, r in items}),
        "raised": sum(1 for _, _, r in items if r["outcome"] != "normal"),
        "evaluations": sum(r["evals"] for _, _, r in items)}
    return outside


# ConfigLoader.likelihood_profile (runs fits) and ConfigLoader.get_params_error (sets `params`, finite differences) are in the
# model and in the correspondence, but the property statement enumerates "partial weights, interference weights, fit
# fractions or factor iterations" and the override blocks: what these two leave behind is recorded, never reported.
OUTSIDE_STATEMENT = ("ConfigLoader.likelihood_profile:", "ConfigLoader.get_params_error:")


def _short(x):
    s = str(x)
    return s if len(s) < 120 else s[:117] + "..."


def _tuplify(p):
    return tuple(_tuplify(x) for x in p) if isinstance(p, list) else p


def replay(ctx, payload):
    rp = payload.get("replay") or {}
    if "y_probe" in rp:
        bad = 0
        for name, entry, r in y_probes(ctx):
            if name == rp["y_probe"]:
                for key, comp, b, a in r["leaks"]:
                    print("leak %s: %s -> %s" % (key, _short(b), _short(a)))
                    bad = 1
        return bad
    R = rig(rp.get("rig", "A"))
    if "prog" not in rp:
        print("nothing to replay: " + str(payload.get("broken"))[:500])
        return 1
    st = rp["init"]
    st["mask"] = [tuple(x) for x in st["mask"]]
    r = R.run(st, _tuplify(rp["prog"]))
    found = []
    leaks(r["nodes"], found)
    for key, nd, comp in found:
        print("leak %s: %s -> %s" % (key, _short(nd["before"][comp]), _short(nd["after"][comp])))
    R.put(R.base_state())
    if not r["same_density"]:
        print("density of the fixed sample changed although the observed state is restored")
    if r["hidden_attrs"]:
        print("attributes changed although the observed state is restored: %s" % r["hidden_attrs"])
    return 1 if (found or not r["same_density"] or r["hidden_attrs"]) else 0


MANIFEST = {
    "text": "For every program built from override blocks (temp_params in dict AND sequence form, vm.temp_params, mask_params, temp_used_res, keep_used_chains, temp_total_gls_one, temp_config, nested in any way), body statements (set_params; add_used_chains / set_used_chains / set_used_res), derived computations (partial_weight, partial_weight_interference, cal_fitfractions / fit_fractions / ConfigLoader.cal_fitfractions / cal_signal_yields, FitFractions.integral, factor_iteration, build_amp_matrix, the weight computations of plot_partial_wave and plot_partial_wave_interf, cal_bins_numbers, PlotAllData = get_all_plotdatas / get_plotter, likelihood_profile, get_params_error, factor_system.partial_amp, eval_normal_factors, CachedShapeAmplitudeModel.pdf, CachedShapePreProcessor.build_cached, attach_fix_params_error) and faults (a body raising, any inner density evaluation / fit / likelihood evaluation raising, a rejected value, a too short sequence), the observable state (stored parameter values, mask_vars, chains_idx, not_full, mask_factor of every distinct chain and decay object, configuration, ls selection, the trainable_vars list with its order) after the program equals the state before it; a set_params in a body is undone exactly when it sits inside an amp.temp_params block, a selection statement exactly when it sits inside a temp_used_res / keep_used_chains block (which restore chains_idx and not_full whatever the body does to them, in any order, normally or by exception), and otherwise they change the parameter values / the selection only. Every call / assignment in the package that can change this state is inventoried from the source on every run and must be on the reviewed list.",
    "note": "Lean: Model/Override.lean gives the big-step semantics of both the tree as it is and the tree after fix_C17_*.diff (18 per-site flags, observed per run; PlotAllData and factor_system.temp_var violated the statement on the pinned tree and were repaired in /repo by cdd15db and 7f17cec (kind 'fixed' in known_findings.jsonl); likelihood_profile and get_params_error — a fit scan and an error calculation, which the property statement does not enumerate — are modelled and compared with the code in both variants, what they leave behind is recorded in the evidence (state_changes_observed_outside_the_statement) but never judged; candidate patches C17-likelihood_profile.diff, C17-params_error.diff are kept unapplied). Props/C17.lean: restore_upTo, restore_covered / restore_all (every guarded program, every fault, every state), refutations for the as-is variant, restore_all_partial. Props/C17b.lean: the further entry points as instances, 10 as-is witnesses, sequence-form / nesting / set_params statements. ROUND 4 — Model/OverrideY.lean extends the grammar (execBlock / execComp reused; execY_agrees_on_old_programs) by the statements add_used_chains / set_used_chains / set_used_res and the block keep_used_chains; Props/C17c.lean: restoreY_rel (every covered program, statements anywhere: mask, mask_factor, config, ls, trainable restored; parameters if gP; selection if gC), restoreY_covered / restoreY_all, chain_block_restores_selection (temp_used_res / keep_used_chains restore chains_idx and not_full for ANY body), keep_chains_restores_all, keep_chains_selection_body, selection_statements_permanent, selection_in_other_blocks_kept; the variant of keep_used_chains that keeps the LIVE list (seeded change C17-04) is refuted (keep_live_refuted) and characterised (keep_live_iff, keep_live_after_rebinding: it restores exactly when the leading add_used_chains add nothing, e.g. whenever the first statement rebinds — every caller inside the library); restore_shared_objects (per-object mask_factor: save-all-then-set-all restores every object for ANY visiting sequence with repetitions and any body), fused_loop_refuted / fused_loop_ok_without_sharing; gls_one_block_is_per_object (the glsOne block of the program semantics = the per-object loop for every visiting sequence that reaches every object); restore_fit_fractions_nested_res; restore_cached_shape_pdf, restore_build_cached (patched programs, all arguments / faults / states), asis_cached_shape_normal_consistent, asis_cached_shape_leaks, restore_attach_fix_params_error (order of trainable_vars, any list of distinct fixed parameters), asis_attach_fix_params_error_leaks. Proved about the model; tied to the code by (a) one probe per site and outcome on the real objects that selects the variant, (b) exact comparison model vs real objects on probes (incl. 26 per rig for keep_used_chains / selection statements from restricted, single-chain and full entry selections), systematic and seeded random programs in the extended grammar (a selection statement is the first statement of half of the generated chain-restoring blocks), (c) the per-object model glsOneObjs compared line by line with the real temp_total_gls_one on the real visiting sequences of rigs A, B and the cached_shape rig C (5 flag patterns x normal / raising body), (d) harness/c17_y.py: model-independent before/after probes, per OBJECT (and, for pdf / build_cached / attach_fix_params_error, comparison with the Lean transcription of the observed variant), of CachedShapeAmplitudeModel.pdf and CachedShapePreProcessor.build_cached (5 entry states x normal / build_params_vector raising), attach_fix_params_error (normal, Hessian raising, bounded parameter), get_params_error(method='3-point') and its default Hessian branch (recorded, not judged), ConfigLoader.cal_fitfractions with method new / old and nested res (set_used_res rejects the nested list with TypeError; state restored), cal_signal_yields (two samples, full / restricted / stale entry states, fault in the first and in the second sample; get_data / _get_bg_weight stubbed), SimpleNllFracModel.eval_normal_factors (two constraints, one with mask_params, 4 entry states x every fault position), (e) the AST inventory harness/c17_sites.py (no read-only computation is left NOT COVERED). FINDINGS on the unchanged tree (proposed known_findings lines, kind 'finding'; the check exits 0 on the tree as it is and on the tree with the patches): CachedShapeAmplitudeModel.pdf and CachedShapePreProcessor.build_cached leave the subset selection / not_full behind when build_params_vector raises and clear a stale not_full on a normal exit (fixes/C17-cached_shape.diff: keep_used_chains); attach_fix_params_error leaves the given parameters free when the Hessian raises (fixes/C17-attach_fix_params_error.diff: finally). Validated only (not proved): likelihood_profile with a real fit (a stub fit moves the trainable variables), the numerics of the likelihood inside get_params_error / attach_fix_params_error (counting stubs), the 3-point / default branches of get_params_error (recorded only).",
    "technique": "proof (structural induction over programs; list induction for shared objects) + differential correspondence + model-independent before/after search + AST site inventory",
}
