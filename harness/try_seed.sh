#!/bin/sh
# try_seed.sh <ID> <worktree>: move worktree to /repo HEAD, apply _seed/patch.diff, run demo and the check against it, revert
ID=$1; WT=$2
cd $WT && git reset -q --hard && git checkout -q --detach main && (git apply _seed/patch.diff 2>/dev/null || git apply --3way _seed/patch.diff) || { echo "PATCH DOES NOT APPLY"; exit 1; }
git status --short | grep -v _seed | head -5
(PYTHONPATH=$WT /venv/bin/python _seed/demo.py > /tmp/demo_mut_$ID.txt 2>&1; echo "demo with patch rc=$?")
cd /verif && cp evidence/$ID.json /tmp/ev_keep_$ID.json && VERIF_REPO=$WT ./check $ID 2>&1 | grep -E "VIOLATION|failing|done" | cut -c1-400; cp /tmp/ev_keep_$ID.json /verif/evidence/$ID.json  # evidence must come from runs against /repo
cd $WT && git reset -q --hard
(PYTHONPATH=$WT /venv/bin/python _seed/demo.py > /tmp/demo_clean_$ID.txt 2>&1; echo "demo clean rc=$?")
