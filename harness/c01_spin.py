"""C01 (Props/C01j.lean, ingredient (b)) — `SpinOK`: angular-momentum conservation of the decay card, on the real loader.

`Props/C01j.lean` proves the phase cancellation of a chain under the decidable well-formedness predicate `CTree.spinOK`
(at every vertex 2 j_core = 2 j_b + 2 j_c mod 2; `spin_sign_rule`, `chain_phases_cancel`).  Here, on every run:
 (1) every decay of every chain of every decay card the C01 harness generates (hand-designed and seeded random, built through
     `ConfigLoader(dict)`) satisfies it, and every chain has the same set of final particles (`hperm`);
 (2) `loader_enforces_spinOK` on the REAL loader: `HelicityDecay.get_ls_list()` is empty for every spin triple with
     2 (j_a + j_b + j_c) odd and non-empty for every triple with even sum (p_break=True), 2j <= 4 (quick) / 6
     (the exact agreement of the real list with the Lean model `LS.lsList` is C13's own correspondence check).
"""
import itertools

import common as C


def correspond_spin(ctx, res, builds):
    from tf_pwa.amp.core import HelicityDecay, Particle

    n_vert, n_chain, cards = 0, 0, []
    for b in builds:
        dg = b.amp.decay_group
        finals0 = None
        for chain in dg.chains:
            n_chain += 1
            fin = sorted(str(p) for p in chain.outs)
            if finals0 is None:
                finals0 = fin
            elif fin != finals0:
                res.broke("correspondence spinOK: two chains of one decay group have different final particles (hperm of Props/C01j)",
                          {"structure": b.st["name"], "chain": str(chain), "finals": fin, "finals of the first chain": finals0})
            for dec in chain:
                twoj = [int(round(2 * float(dec.core.J)))] + [int(round(2 * float(o.J))) for o in dec.outs]
                n_vert += 1
                if len(dec.outs) != 2 or sum(twoj) % 2 != 0:
                    res.broke("correspondence spinOK: a decay of a generated card violates 2j_core = 2j_b + 2j_c (mod 2) — CTree.spinOK of Props/C01j is a hypothesis of the proved phase cancellation",
                              {"structure": b.st["name"], "decay": str(dec), "2j": twoj})
        cards.append(b.st["name"])
    # (2) the real loader offers no (l, s) coupling to a parity-violating vertex
    jmax = 4 if ctx.quick else 6
    n_odd, n_even, k, n_rep = 0, 0, 0, 0
    for ja, jb, jc in itertools.product(range(jmax + 1), repeat=3):
        k += 1
        a = Particle("spA%d" % k, J=ja / 2, P=1)
        bb = Particle("spB%d" % k, J=jb / 2, P=1)
        c = Particle("spC%d" % k, J=jc / 2, P=1)
        try:
            ls = tuple(HelicityDecay(a, [bb, c], p_break=True).get_ls_list())
        except Exception as e:
            res.broke("correspondence spinOK: HelicityDecay.get_ls_list raised", {"2j": [ja, jb, jc], "error": "%s: %s" % (type(e).__name__, str(e)[:200])})
            continue
        odd = (ja + jb + jc) % 2 == 1
        triangle = True  # s = |jb-jc| and l = |ja-s| are always offered when the sum is even (p_break=True)
        if odd:
            n_odd += 1
            if len(ls) != 0 and n_rep < 3:
                n_rep += 1
                res.broke("correspondence spinOK (loader_enforces_spinOK): the real get_ls_list offers couplings to a vertex with 2(j_a+j_b+j_c) odd",
                          {"2j": [ja, jb, jc], "ls": [list(map(float, x)) for x in ls][:4]})
        else:
            n_even += 1
            if len(ls) == 0 and triangle and n_rep < 3:
                n_rep += 1
                res.broke("correspondence spinOK: the real get_ls_list (p_break=True) is empty for a vertex with even 2(j_a+j_b+j_c)",
                          {"2j": [ja, jb, jc]})
    res.coverage["spinOK"] = {"cards": cards, "chains": n_chain, "vertices_checked": n_vert, "odd_spin_triples_with_empty_ls": n_odd,
                              "even_spin_triples_with_couplings": n_even, "max_2j": jmax}
    return n_vert + n_odd + n_even
