"""C17 round 4, GOAL (1) — entry points the site inventory listed as NOT COVERED / not driven.

Probes on the real objects with a model-independent oracle (observation before == observation after, normal exit and an
exception injected at the evaluation).  The observation is per OBJECT: parameters, chain selection, `not_full`,
`mask_factor` of every distinct chain and decay object (identity; the 4-body cascade shares the decay A->X+E between its
three chains), `mask_vars`, the `trainable_vars` list with its order, the `_trainable` flags, the registered bounds, the
lazily fixed `cached_shape_idx`.

* rig C: the 4-body cascade of harness/c17.py built with `amp_model: cached_shape` / `preprocessor: cached_shape`
  -> `CachedShapeAmplitudeModel.pdf`, `CachedShapePreProcessor.build_cached` (with its `temp_total_gls_one`);
* rig B of harness/c17.py -> `ConfigLoader.attach_fix_params_error`, `get_params_error(method="3-point")` and its default
  Hessian branch, `ConfigLoader.cal_fitfractions` with method "new"/"old" and `res` given as nested lists,
  `ConfigLoader.cal_signal_yields`, `SimpleNllFracModel.eval_normal_factors`;
* the per-object model `OverrideY.glsOneObjs` (Props/C17c.lean `restore_shared_objects`) against the real
  `temp_total_gls_one` with the real visiting sequence (object identities) of rigs A, B, C.
"""
import contextlib
import copy
import io

import common as C

COMPONENTS = ["params", "chains_idx", "not_full", "mask_factor", "mask_vars", "trainable", "trainable_flags", "bounds", "cached_shape_idx"]
# error calculations: what they leave behind is recorded, never judged (same policy as get_params_error in c17.py)
OUTSIDE_STATEMENT = ("ConfigLoader.get_params_error(3-point):", "ConfigLoader.get_params_error(default):")


class Fault(Exception):
    pass


def distinct(objs):
    seen, out = set(), []
    for o in objs:
        if id(o) not in seen:
            seen.add(id(o))
            out.append(o)
    return out


class Obs:
    """observation / entry state of one amplitude model"""

    def __init__(self, config, amp):
        self.config, self.amp, self.dg, self.vm = config, amp, amp.decay_group, amp.vm
        self.names = list(self.vm.variables)
        part = []
        for ch in self.dg:
            part.append(ch)
            for d in ch:
                part.append(d)
        self.objs = distinct(part)
        pos = {id(o): i for i, o in enumerate(self.objs)}
        self.visit = [pos[id(o)] for o in part]  # the mask_part list of temp_total_gls_one, as object indices
        self.n = len(list(self.dg.chains))
        self.shared = sorted({i for i in self.visit if self.visit.count(i) > 1})
        self.tr0 = list(self.vm.trainable_vars)
        self.p0 = {n: float(self.vm.variables[n].numpy()) for n in self.names}

    def snap(self):
        vm = self.vm
        return {
            "params": [C.f2h(float(vm.variables[n].numpy())) for n in self.names],
            "chains_idx": [int(i) for i in self.dg.chains_idx],
            "not_full": bool(self.dg.not_full),
            "mask_factor": [bool(getattr(o, "mask_factor", False)) for o in self.objs],
            "mask_vars": sorted((str(k), C.f2h(float(v))) for k, v in vm.mask_vars.items()),
            "trainable": list(vm.trainable_vars),
            "trainable_flags": [bool(getattr(vm.variables[n], "_trainable", True)) for n in self.names],
            "bounds": sorted(vm.bnd_dic),
            "cached_shape_idx": list(getattr(self.amp, "cached_shape_idx", None) or []),
        }

    def put(self, chains=None, nf=None, mf=None):
        vm = self.vm
        vm.trainable_vars[:] = list(self.tr0)
        for n in self.names:
            vm.variables[n]._trainable = n in self.tr0
            vm.variables[n].assign(self.p0[n])
        vm.mask_vars = {}
        chains = list(range(self.n)) if chains is None else list(chains)
        self.dg.chains_idx = chains
        self.dg.not_full = (len(chains) != self.n) if nf is None else bool(nf)
        flags = [False] * len(self.objs) if mf is None else mf
        for o, b in zip(self.objs, flags):
            o.mask_factor = bool(b)
        if hasattr(self.config, "inv_he"):
            self.config.inv_he = None


@contextlib.contextmanager
def raising(module, attr, fault, counter):
    """the `fault`-th call of module.attr raises (None: never); calls are counted"""
    orig = getattr(module, attr)

    def wrapped(*a, **kw):
        i = counter[0]
        counter[0] += 1
        if fault is not None and i == fault:
            raise Fault("injected into evaluation %d" % i)
        return orig(*a, **kw)

    setattr(module, attr, wrapped)
    try:
        yield
    finally:
        setattr(module, attr, orig)


class _Hook:
    """the likelihood stubs call HOOK.tick(): the place a fault is injected into an evaluation they replace"""

    @staticmethod
    def tick():
        return None


HOOK = _Hook()

ENTRIES = [("full selection", {}, ""), ("restricted selection", {"chains": [2, 0]}, ""),
           ("single chain", {"chains": [1]}, ""), ("stale not_full on a full selection", {"nf": True}, "stale-not_full"),
           ("mask_factor set on the shared decay", {"mf": "shared"}, "")]

_RIGC = []


def rig_c():
    if not _RIGC:
        import numpy as np
        import tensorflow as tf
        import c17
        from tf_pwa.config_loader import ConfigLoader
        np.random.seed(1717)
        tf.random.set_seed(1717)
        cfg = copy.deepcopy(c17.CFG4)
        cfg["data"].update({"preprocessor": "cached_shape", "amp_model": "cached_shape"})
        cfg["particle"]["R2"]["float"] = "m"  # one chain without a fixed shape: both branches of pdf / build_cached run
        config = ConfigLoader(cfg)
        amp = config.get_amplitude()
        with contextlib.redirect_stdout(io.StringIO()):
            p = config.generate_phsp_p(c17.N_EVENTS)
            data = config.data.cal_angle(p)  # first build_cached: fixes amp.cached_shape_idx from the FULL selection
            amp(data)
        o = Obs(config, amp)
        o.p, o.data = p, data
        _RIGC.append(o)
    return _RIGC[0]


def run_probe(o, site, fn, entry, tag, fault_target, fault, args=None):
    """-> record: leaks of one call of `fn` from the entry state `entry`"""
    e = dict(entry)
    if e.get("mf") == "shared":
        e["mf"] = [i in o.shared for i in range(len(o.objs))]
    o.put(**e)
    before = o.snap()
    counter = [0]
    outcome, text = "normal", ""
    try:
        with contextlib.redirect_stdout(io.StringIO()):
            if fault_target is None:
                fn()
            else:
                with raising(fault_target[0], fault_target[1], fault, counter):
                    fn()
    except Exception as ex:  # noqa: BLE001 - every exception is an outcome here
        outcome, text = "eval-raised", "%s: %s" % (type(ex).__name__, str(ex)[:160])
    after = o.snap()
    diff = [c for c in COMPONENTS if before[c] != after[c]]
    ctx = (":" + tag) if (tag and outcome == "normal") else ""
    return {"site": site, "outcome": outcome, "text": text, "evals": counter[0], "fault": fault, "before": before, "after": after, "args": args,
            "names": o.names,
            "leaks": [("%s:%s%s:%s" % (site, outcome, ctx, c), c, before[c], after[c]) for c in diff]}


def cached_shape_probes():
    import tf_pwa.experimental.build_amp as ba
    o = rig_c()
    out = []
    for ename, entry, tag in ENTRIES:
        for fault in (None, 0):
            what = "%s, %s" % (ename, "build_params_vector raises" if fault == 0 else "normal")
            r = run_probe(o, "CachedShapeAmplitudeModel.pdf", lambda: o.amp.pdf(o.data), entry, tag, (ba, "build_params_vector"), fault)
            out.append(("rig C: amp.pdf(data); " + what, entry, r))
            r = run_probe(o, "CachedShapePreProcessor.build_cached", lambda: o.config.data.cal_angle(o.p), entry, tag, (ba, "build_params_vector"), fault)
            out.append(("rig C: config.data.cal_angle(p) -> build_cached; " + what, entry, r))
    o.put()
    return out


def config_loader_probes():
    """on rig B of c17.py (default amplitude model, 4-body cascade with a shared decay object)"""
    import numpy as np
    import tensorflow as tf
    import c17
    from tf_pwa.model import model as mm
    R = c17.rig("B")
    o = Obs(R.config, R.amp)
    data = R.data
    out = []
    fcn = [None]

    def hess_stub(m, *a, **kw):
        HOOK.tick()
        n = len(o.vm.trainable_vars)
        return tf.constant(1.0, dtype=tf.float64), np.zeros(n), tf.eye(n, dtype=tf.float64)

    def nll_stub(m, *a, **kw):
        HOOK.tick()
        return tf.constant(1.0, dtype=tf.float64)

    def with_stubs(f):
        def g():
            saved = mm.Model.nll_grad_hessian, mm.Model.nll
            mm.Model.nll_grad_hessian, mm.Model.nll = hess_stub, nll_stub
            if fcn[0] is None:
                fcn[0] = R.config.get_fcn([[data], [data], None, None], batch=1000)
            R.config.get_fcn = lambda *a, **kw: fcn[0]
            try:
                f()
            finally:
                del R.config.get_fcn
                mm.Model.nll_grad_hessian, mm.Model.nll = saved
        return g

    fixed = [n for n in o.names if n not in o.tr0]
    two = {fixed[0]: 0.1, fixed[-1]: 0.2}
    for fault in (None, 0):
        what = "Hessian evaluation raises" if fault == 0 else "normal"
        r = run_probe(o, "ConfigLoader.attach_fix_params_error", with_stubs(lambda: R.config.attach_fix_params_error(two)), {}, "",
                      (HOOK, "tick"), fault, args=list(two))
        out.append(("rig B: attach_fix_params_error(two fixed parameters); " + what, {}, r))
    # the bound bookkeeping: one of the freed-and-refixed parameters carries a bound
    o.vm.set_bound({fixed[0]: (-50.0, 50.0)})
    try:
        r = run_probe(o, "ConfigLoader.attach_fix_params_error", with_stubs(lambda: R.config.attach_fix_params_error({fixed[0]: 0.1})), {}, "bounded",
                      (HOOK, "tick"), None, args=[fixed[0]])
        out.append(("rig B: attach_fix_params_error(one fixed parameter with a bound); normal", {}, r))
    finally:
        o.vm.bnd_dic.pop(fixed[0], None)
    some = {o.tr0[2]: 0.37}
    for fault, what in ((None, "normal"), (1, "2nd likelihood evaluation raises")):
        r = run_probe(o, "ConfigLoader.get_params_error(3-point)", with_stubs(
            lambda: R.config.get_params_error(some, data=[data], phsp=[data], batch=1000, method="3-point")), {}, "", (HOOK, "tick"), fault)
        out.append(("rig B: get_params_error(params, method='3-point'); " + what, {}, r))
    # the default branch (cal_hesse_error; it saves error_matrix.npy into the working directory: run in a scratch directory)
    def default_hesse():
        import os
        import shutil
        import tempfile
        cwd, tmp = os.getcwd(), tempfile.mkdtemp(prefix="verif_c17_")
        os.chdir(tmp)
        try:
            R.config.get_params_error(some, data=[data], phsp=[data], batch=1000, method="hesse", correct_params=[o.tr0[0]])
        finally:
            os.chdir(cwd)
            shutil.rmtree(tmp, ignore_errors=True)

    for fault, what in ((None, "normal"), (0, "the Hessian evaluation raises")):
        r = run_probe(o, "ConfigLoader.get_params_error(default)", with_stubs(default_hesse), {}, "", (HOOK, "tick"), fault)
        out.append(("rig B: get_params_error(params), default Hessian branch (cal_hesse_error); " + what, {}, r))
    # fit fractions through the ConfigLoader entry points: method new / old, res as nested lists
    names = R.res_names
    nested = [[names[1], names[2]], names[3], [names[0]]] if len(names) > 3 else [[names[0], names[1]], names[2]]
    par = {o.tr0[2]: 0.41, o.tr0[5]: -0.3}
    for method in ("new", "old"):
        for ename, entry, tag in (ENTRIES[0], ENTRIES[1], ENTRIES[3]):
            for fault in (None,):  # set_used_res rejects a nested list (TypeError) before any pair is evaluated
                what = "%s, %s" % (ename, "3rd evaluation raises" if fault is not None else "no fault injected")
                site = "ConfigLoader.cal_fitfractions(%s,nested res)" % method
                fn = lambda method=method: R.config.cal_fitfractions(params=par, mcdata=data, res=nested, batch=8, method=method)
                out.append(("rig B: cal_fitfractions(method=%s, res=nested lists); %s" % (method, what), entry,
                            run_probe(o, site, fn, entry, tag, (o.dg, "sum_amp"), fault)))
    # cal_signal_yields: one fit_fractions per phase-space sample (the data / background samples come from stubs of
    # get_data / _get_bg_weight; the parameter override, the fit-fraction loops and their restoring are the library's)
    def yields():
        R.config.get_data = lambda name: [data, data]
        R.config._get_bg_weight = lambda d=None, b=None, display=True: ([0.1, 0.1], [0.0, 0.0])
        try:
            R.config.cal_signal_yields(params=par, mcdata=[data, data], batch=8)
        finally:
            del R.config.get_data
            del R.config._get_bg_weight

    for ename, entry, tag in (ENTRIES[0], ENTRIES[1], ENTRIES[3]):
        for fault in ((None,) if tag else (None, 1, 30)):
            what = "%s, %s" % (ename, ("evaluation %d raises" % fault) if fault is not None else "normal")
            out.append(("rig B: cal_signal_yields(params, two phase-space samples); " + what, entry,
                        run_probe(o, "ConfigLoader.cal_signal_yields", yields, entry, tag, (o.dg, "sum_amp"), fault)))
    # eval_normal_factors of the constrained-fraction likelihood: with temp_used_res(res): with mask_params(m): amp(mc)
    from tf_pwa.model.custom import SimpleNllFracModel
    constr = {names[0]: {"res": [names[1], names[2]], "mask_params": {o.tr0[2]: 0.0}, "value": 0.3, "sigma": 0.1},
              "second": {"res": names[-1], "value": 0.2, "sigma": 0.1}}
    model = SimpleNllFracModel(R.amp, constr_frac=constr)
    weight = np.ones(c17.N_EVENTS)
    for ename, entry, tag in (ENTRIES[0], ENTRIES[1], ENTRIES[3], ENTRIES[4]):
        for fault in (None, 0, 1, 2):
            what = "%s, %s" % (ename, ("evaluation %d raises" % fault) if fault is not None else "normal")
            out.append(("rig B: SimpleNllFracModel.eval_normal_factors(two constrained fractions, one with mask_params); " + what, entry,
                        run_probe(o, "SimpleNllFracModel.eval_normal_factors", lambda: model.eval_normal_factors(data, weight), entry, tag,
                                  (o.dg, "sum_amp"), fault)))
    o.put()
    R.put(R.base_state())
    return out


def gls_lines():
    """real temp_total_gls_one on rigs A, B, C (normal exit and a raising body, several entry flag patterns) -> model lines
    + the observed (inside, after) flags per object"""
    import c17
    rigs = [("A", Obs(c17.rig("A").config, c17.rig("A").amp)), ("B", Obs(c17.rig("B").config, c17.rig("B").amp)), ("C", rig_c())]
    lines, seen = [], []
    for name, o in rigs:
        k = len(o.objs)
        patterns = [[False] * k, [True] * k, [i in o.shared for i in range(k)], [i % 3 == 0 for i in range(k)], [i % 2 == 1 for i in range(k)]]
        for flags in patterns:
            for raises in (False, True):
                o.put(mf=flags)
                inside = None
                try:
                    with o.amp.temp_total_gls_one():
                        inside = [bool(x.mask_factor) for x in o.objs]
                        if raises:
                            raise Fault("body raises")
                except Fault:
                    pass
                after = [bool(x.mask_factor) for x in o.objs]
                b = lambda x: "1" if x else "0"
                lines.append("C17y gls %d %s %d %s" % (len(o.visit), " ".join(map(str, o.visit)), k, " ".join(b(x) for x in flags)))
                seen.append((name, o.visit, flags, raises, inside, after))
        o.put()
    return lines, seen


def model_lines(items):
    """the Lean transcriptions cachedShapePdf(AsIs) / buildCached(AsIs) / attachFixParamsError against what the probes saw:
    -> (lines, expected answers, descriptions).  The variant (as it is / patched) is the one the probes of that site show."""
    b = lambda x: "1" if x else "0"
    lst = lambda l: " ".join([str(len(l))] + [str(x) for x in l])
    leaky = {r["site"] for _, _, r in items if r["leaks"]}
    lines, want, what = [], [], []
    for name, entry, r in items:
        site, bf, af = r["site"], r["before"], r["after"]
        patched = site not in leaky
        raised = r["outcome"] != "normal"
        if site in ("CachedShapeAmplitudeModel.pdf", "CachedShapePreProcessor.build_cached"):
            op = "csp" if site.endswith("pdf") else "bc"
            cached = bf["cached_shape_idx"]
            subset = [i for i in bf["chains_idx"] if i not in cached] if op == "csp" else cached
            n = 3
            lines.append("C17y %s %s %d %s %s %s %s %s" % (op, b(patched), n, lst(bf["chains_idx"]), b(bf["not_full"]),
                                                        lst([b(x) for x in bf["mask_factor"]]), lst(subset), "-" if r["fault"] is None else str(r["fault"])))
            want.append(" ".join([b(raised), lst(af["chains_idx"]), b(af["not_full"]), lst([b(x) for x in af["mask_factor"]])]))
        elif site == "ConfigLoader.attach_fix_params_error":
            ix = {nme: i for i, nme in enumerate(r["names"])}
            lines.append("C17y afp %s %s %s %s" % (b(patched), lst([ix[x] for x in bf["trainable"]]), lst([ix[x] for x in r["args"]]), b(r["fault"] is not None)))
            want.append(b(raised) + " " + lst([ix[x] for x in af["trainable"]]))
        else:
            continue
        what.append((name, "patched" if patched else "as it is"))
    return lines, want, what
