"""C01 — the decay-rate density is independent of the observer's frame.

Lean side (Props/C01.lean): the algebraic skeleton (unitary mixing of helicity indices by the code's D-matrices,
Lorentz invariance of every mass / break-up momentum, parity symmetry of the small-d tables, 3-body inversion =
rotation by pi about the decay-plane normal, identical-particle group average).  What is NOT proved (the behaviour of
the nested rest-frame angles under a boost) is the explicit hypothesis of `density_boost_invariant_partial`.

Python side: the metamorphic statement itself on the real code over a zoo of decay structures built through
`ConfigLoader(dict)`; `correspond` checks the hypotheses of the skeleton on the implementation's intermediate data
(invariant masses, |q|^2, polar helicity angles below the top vertex), `search` the density.
"""
import copy
import math

import numpy as np

import common as C

PID = "C01"
DRIVER = [("C01", "TfPwaV.Model.Swap", "Swap.handle"), ("C01amp", "TfPwaV.Gen.AmpF", "AmpF.handle"), ("C01g", "TfPwaV.Gen.LorentzSLF", "LorentzSLF.handle"), ("C01h", "TfPwaV.Gen.AngleF", "AngleF.handle")]
LEAN_TARGETS = ["TfPwaV.Props.C01", "TfPwaV.Props.C01b", "TfPwaV.Props.C01d", "TfPwaV.Props.C01e", "TfPwaV.Props.C01f", "TfPwaV.Props.C01g", "TfPwaV.Props.C01h", "TfPwaV.Props.C01i", "TfPwaV.Props.C01j", "TfPwaV.Props.C01k", "TfPwaV.Gen.AmpF", "TfPwaV.Gen.LorentzSLF", "TfPwaV.Gen.AngleF", "TfPwaV.Model.Swap"]
PROP_MODULES = ["TfPwaV.Props.C01", "TfPwaV.Props.C01b", "TfPwaV.Props.C01d", "TfPwaV.Props.C01e", "TfPwaV.Props.C01f", "TfPwaV.Props.C01g", "TfPwaV.Props.C01h", "TfPwaV.Props.C01i", "TfPwaV.Props.C01j", "TfPwaV.Props.C01k"]
ALL_MODULES = ["TfPwaV.Props.C01", "TfPwaV.Props.C01b", "TfPwaV.Props.C01d", "TfPwaV.Props.C01e", "TfPwaV.Props.C01f", "TfPwaV.Props.C01g", "TfPwaV.Props.C01h", "TfPwaV.Props.C01i", "TfPwaV.Props.C01j", "TfPwaV.Props.C01k", "TfPwaV.Proofs.AxesIndCPair", "TfPwaV.Proofs.AxesIndCPhase", "TfPwaV.Proofs.AxesIndCGauge", "TfPwaV.Props.C13", "TfPwaV.Model.LS", "TfPwaV.Proofs.AxesInd", "TfPwaV.Proofs.AxesIndVertex", "TfPwaV.Proofs.AxesIndB", "TfPwaV.Proofs.AxesIndBRoute", "TfPwaV.Proofs.AxesIndBSteps", "TfPwaV.Proofs.AxesIndBD", "TfPwaV.Proofs.AxesIndBGauge", "TfPwaV.Proofs.AxesIndBMkD", "TfPwaV.Props.C02e", "TfPwaV.Proofs.RouteRest", "TfPwaV.Proofs.RouteRestTree", "TfPwaV.Proofs.LorentzSL",
               "TfPwaV.Props.C02", "TfPwaV.Props.C02b", "TfPwaV.Props.C02c", "TfPwaV.Props.C02d", "TfPwaV.Proofs.SL2C", "TfPwaV.Proofs.Align", "TfPwaV.Proofs.AlignD", "TfPwaV.Model.Align",
               "TfPwaV.Proofs.CascadeAngle", "TfPwaV.Props.C11c", "TfPwaV.Proofs.Amp", "TfPwaV.Proofs.AmpMix", "TfPwaV.Proofs.AmpSwap", "TfPwaV.Proofs.Spinless", "TfPwaV.Proofs.LineShape", "TfPwaV.Proofs.FrameRot", "TfPwaV.Proofs.CascadeTree", "TfPwaV.Proofs.Cascade", "TfPwaV.Proofs.Angle",
               "TfPwaV.Props.C12b", "TfPwaV.Props.C12d", "TfPwaV.Proofs.DHom", "TfPwaV.Proofs.ZHom", "TfPwaV.Proofs.SU2", "TfPwaV.Model.Swap", "TfPwaV.Proofs.FrameAlg", "TfPwaV.Proofs.UnitaryMix", "TfPwaV.Props.C11", "TfPwaV.Props.C12",
               "TfPwaV.Proofs.Kin", "TfPwaV.Proofs.Wigner", "TfPwaV.Proofs.ScalarR"]
ASSUMPTIONS = [
    "BOOSTS / general Lorentz transformations (Props/C01g.lean, model = templates/Cascade.lean.in + Kin.lean.in + SL2C.lean.in + LorentzSL.lean.in): PROVED for every A in SL(2,C) (the common Lorentz transformation lor A: herm(lor A p) = A herm(p) A^dagger; orthochronous: lor_pos), every binary decay tree and all final momenta whose total P is time-like with positive energy, on the code's own boost branch (|beta|^2 > 1e-14, or the parent exactly at rest) for P and for its image: LorentzVector.rest_vector(P, .) IS the SL(2,C) element restM P = r^-1 Boost_z(omega(P)) r (rest_vector_is_restM); rest_vector(LP, Lp) = R rest_vector(P, p) with ONE proper rotation R = rotOf(W), W = restM(LP) A restM(P)^-1 in SU(2) (wigner_rotation, wigner_rotation_at_rest); the whole tree of nested rest-frame momenta of cal_chain_boost is rotated by R, masses equal (rest_frames_rotate); every mass, every polar angle below the top vertex, every azimuth two or more levels below the top (below_top_invariant_boost, arbitrary base axes on both sides, regular cross_unit branch) and every rapidity omega(rest_p) (rapidities_boost_invariant) are unchanged; the complete angle tree of the transformed event with base axes (z', x') equals the angle tree of the event itself with base axes (R^-1 z', R^-1 x') (boost_is_axes_change, top_vertex_boost, corotating_axes_invariant_boost). density_boost_invariant_partial (C01g): any function F of the per-chain data (angle tree with all masses + rapidities = the inputs of the amplitude tensor and of the rule-1 alignment matrices) is Lorentz invariant PROVIDED it does not depend on the base axes chosen for a FIXED event - the named hypothesis AxesIndependent. PROVED since (Props/C01h.lean, hypotheses: the code's guards for both choices of axes + an SU(2) element U relating the two top frames, FrameChange): a change of the base axes composes the top-vertex angles of every chain and both daughters with one common SU(2) element (top_angles_compose: r' U = Rotation_z(gamma) r), multiplies the top D-function by D(mirror U) on the left and diag(exp(i l gamma)) on the right (top_D_compose, 2j <= 8), and lowers exactly the next-level azimuths by the same gamma mod 2 pi, everything else below the top being equal (below_top_azimuth_shift); density_axes_independent_(model_)partial = C01b.density_rot_fixed_axes_partial with hcomp discharged. PROVED since (Props/C01i.lean, Proofs/AxesIndB.lean): SU(2) -> SO(3) is onto for frames — for ANY two right-handed orthonormal frames there is U in SU(2) with FrameChange U F F' (frame_change_exists; the coordinates along a frame are lor V for V = Rotation_z(g) Rotation_y(b) Rotation_z(a), degenerate directions included), hence AxesPair holds for some U for EVERY two choices of base axes passing the two cross_unit guards (axes_pair_exists) and the C01h statements hold with hypotheses on the guards only, ONE U for all chains (top_angles_compose_any_axes, top_D_compose_any_axes, below_top_azimuth_shift_any_axes, density_axes_independent_any_axes_partial); the vertex-level half of hB on SU(2) ELEMENTS, 2j <= 8: the D-matrix is a function of the element Rz(a)Ry(b)Rz(g) (DConj_zero, DConj_of_element), lowering the azimuth element of a vertex by gamma on the same sheet multiplies row m of its D-function by exp(-i m gamma), on the other sheet (angles equal mod 2 pi, not mod 4 pi) by (-1)^(2j) exp(-i m gamma) (vertex_phase_element, vertex_phase_other_sheet, mkD_vertex_phase on the executable amplitude model), and the column phase of the top D-function cancels the row phases of the two daughters' D-functions for every helicity configuration (mkD_top_gamma, top_and_vertex_phases_cancel); the D-matrices are a unitary representation of SU(2) elements (D_is_representation: DE multiplicative, Rotation_z(t) -> diag exp(i m t), -1 -> (-1)^(2j)); on the model of cal_helicity_angle's step record (templates/RouteRest.lean.in stepTree, any depth, the code's guards): the route matrices b_matrix[f] r_matrix[f] satisfy M' U = W M with W = Rotation_z(gamma) for a direct daughter of the top particle and W = +-1 for every deeper particle (route_axes_change = the former validated-only alignment_compose; below_top_steps_shift, rotZ_of_cos_sin: the two sheets), hence the alignment element changes to W_ref R W_k^-1 (alignment_element_change: U drops out) and the alignment D-function D_matrix_conj(get_euler_angle(R)) = C02.codeD by codeD(W_k^-1) on its row index and codeD(W_ref) on its column index (aligned_D_axes_change, alignment_axes_change_model, row_factor_of_routeW: exp(-i m gamma), 1 or (-1)^(2j)); on the executable amplitude model (templates/Amp.lean.in, any list of chains of any topology and depth, reference chains included): if the D-functions of every chain change by one unitary on the top rows, a column factor on the top D-function, row factors on every lower vertex, row and column factors on every alignment D-function, and these factors multiply on every helicity configuration the einsum visits to ONE unit-modulus number Xi(ext) common to all chains, the density is unchanged (model_density_axes_independent_ext_partial; with unitary column mixing for chains aligned once: model_density_axes_independent_partial / _stored_partial) — and the same with hypotheses on SU(2) ELEMENTS only, 2j <= 8, D-functions = AmpR.mkD at the primed angles (model_density_axes_independent_elements_ext_partial, _elements_partial; vertex_element_of_shift links the model's level-2 azimuth to the element hypothesis). PROVED since (Props/C01j.lean): hcancel itself for every chain with the index structure of a decay tree of any depth whose vertices conserve angular momentum mod 1 (CTree.spinOK - checked on every generated card by harness/c01_spin.py, enforced by the loader: an odd vertex has no (l,s) coupling), from Rotation_z(gamma_2) = Rotation_z(-gamma_1) EXACTLY (top_gammas_opposite, from alpha_2 = alpha_1 - pi, beta_2 = pi - beta_1 as real numbers for back-to-back daughters: vertex_second_daughter_exact), the sign rule (spin_sign_rule), the identification of the route sign with the vertex's sheet (routes_carry_vertex_sheet) and reference element = own element in the reference chain; model_density_axes_independent_tree_partial has no numerical hypothesis left (hypotheses: relations between SU(2) elements per particle id, each a theorem about the model of cal_helicity_angle; hcancel of C01i was restated: only configurations with h = ext off the contracted indices, column phase continued outside the Dfun_delta_v2 table). ASSUMED there: the daughters of every vertex are back to back in the mother's rest frame (hbb: vect r_2 = -vect r_1, momentum conservation; exact for the momenta cal_chain_boost computes up to rounding) and 2j <= 8. NOT proved: the simultaneous instantiation of these per-id hypotheses for all chains of a DecayGroup from the cascade model. FORMERLY (kept for the record, superseded by the previous sentence): the single NUMERICAL link hcancel — that the factors proved above do multiply to one common Xi(ext): needs Rotation_z(gamma_1) Rotation_z(gamma_2) = +-1 for the two daughters of the top vertex (validated on every run), the sign bookkeeping (-1)^(2 j_R) = product of (-1)^(2 j_f) over the finals below R (angular-momentum conservation of the decay card), the equality of the reference chain's own vertex phase with the other chains' alignment column phase, and a builder function ATree -> AmpR.Chain (the chains of the amplitude model are fed from the real data dictionary, not from the cascade model). In the words of the former link hB: that the index structure of get_amp turns the gamma-shift of the next-level azimuths and the change of the alignment elements (r_matrix' U = Rotation_z(gamma) r_matrix for direct daughters of the top, +- r_matrix below) into ONE common unitary on the final helicities, incl. the 4 pi range of gamma for half-integer spins (C01e.model_density_rot_invariant supplies the unitary-mixing half). Validated on every run (harness/c01_axes.py, 1e-9): all proved relations on the real cal_helicity_angle at two explicit random choices of base axes, the r_matrix relation, and the real density at the two choices of axes. Not covered by F: the rule-2 alignment reference (align_ref = center_mass / identical_particles), which uses rest_vector(p_top, p_i) of deeper final particles; the guard branch 0 < |beta|^2 <= 1e-14 of LorentzVector.boost (not a Lorentz transformation); the cross_unit fallback. ROTATIONS with co-rotating axes stay proved in Props/C01b.lean. Validated on the implementation on every run (harness/c01_wigner.py, 1e-9): lor A p vs a numpy oracle; lor (restM P) q vs the real rest_vector; W vs the numpy oracle (algebraic boosts) and its SU(2) residuals; EVERY rest_p of the real cal_chain_boost on the transformed event vs lor W of the rest_p on the event (all chains / decays / particles, parents moving with beta 0.2..0.9 and at rest, transformations up to beta = 0.97 incl. pure rotations); below-top angles and rapidities of the real cal_helicity_angle with the default axes; all angles with pulled-back axes. Also validated: the density itself over a zoo of decay structures, and the invariance of every mass, |q|^2 and polar helicity angle below the top vertex in the data dictionary",
    "amplitude tensor: templates/Amp.lean.in models amp/core.py (HelicityDecay._cal_cg_matrix / get_barrier_factor2 / get_ls_amp / get_helicity_amp incl. the allow_cc reversal H[..., ::-1, ::-1] on charge <= 0 events / get_amp, dfun.D_matrix_conj + Dfun_delta_v2, Particle/ParticleBW/ParticleOne.get_amp, DecayChain.get_amp, DecayGroup.get_amp, get_amp2 (id_swap terms: sign = Swap.fixedFactor of the permutation of every group of identical fermions, transposition of the exchanged final-state axes), get_amp3 (cp_swap term: frac, transposition of the conjugate pairs, reversal of ALL helicity axes), sum_amp) with DEFAULT decay options only (has_barrier_factor, has_bprime, has_ql, no barrier_factor_norm / below_threshold / force_min_l / helicity_inner_full / ls_selector, no is_cp total (get_cp_amp_total), no polarisation); exchanges are modelled for groups of TWO identical particles (for three the dictionary trick of get_swap_transpose is not modelled); its inputs (masses, |q|2, ang, aligned_angle of the event's own, the id_swap and the cp_swap data dictionaries, charge_conjugation, g_ls(), total(), mass, width, bw_l, the C attribute of self-conjugate finals) are READ from the real data dictionary / model objects, and the mapping chain -> data-dictionary entry (get_chains_map, rename_data_dict, standard_topology, cp_charge_group) is the library's own, so cal_angle and the bookkeeping are outside this model (C11/C02/C14). Tie to the code: Float instance vs the real tensors per helicity component (DecayChain.get_amp, DecayGroup.get_amp, get_amp3) and vs sum_amp, 1e-9 of the largest component per (chain, event) block (measured 1e-15). Python-float |q0|2 (a decay none of whose three particles carries a tensor mass: top / final particles, ParticleOne): on the unrepaired tree tf.cast inside Bprime_q2 rounds it to float32 (3e-8 relative in the barrier factor; finding, patch fixes/C01-fix_q0_float64.diff, demonstration fixes/C01-repro_q0_float32.py); the per-vertex rounding flag of the model follows what the harness OBSERVES on the real Bprime_q2 (barrier factor at q2 == q02 exactly one or not), so the correspondence is quiet on both trees",
    "Props/C01d, C01e, C01f: theorems are about the R instance of the same template text. model_density_rot_invariant (C01e) is the full unitary-mixing statement: one rotation composed in SU(2) onto the top angles of every chain (left) and one rotation per final particle p in M composed onto the alignment angles of every chain (right), 2j <= 8 (abstract unitaries: no spin bound); structural hypothesis Chain.AlignedOnce: a chain takes part in the mixing of p through exactly one alignment D-function whose unprimed index is contracted - the shape DecayChain.get_amp produces when the data carry aligned_angle for p; the reference chain of p (no aligned_angle, no D-function inserted) is covered only with p not in M (index not mixed), which is the case for rotations and boosts where the relative alignment rotations do not change. That cal_angle's angles DO change by such common rotations is not proved (first assumption). model_exchange_invariant (C01f) is for ONE pair of identical particles and takes as given that the id_swap data of the exchanged event are the data of the event (momenta exchanged twice). The reduction to Spinless.helAmp is Props/C04c (spinless_reduction, registered with C04)",
    "tolerances: density unchanged to 1e-8 relative (floor 1e-3 x median density of the batch); events on which an alignment angle beta of a final particle with spin is within 1e-6 of 0 or pi are compared with 1e-5 (SU2M.get_euler_angle takes acos of cos(beta): absolute noise sqrt(eps) ~ 1.5e-8 in beta there, measured up to 5e-8 in the density); masses / |q|^2 to 1e-9 relative, cos(beta) to 1e-9 absolute",
    "transformations are applied by the harness' own numpy implementation of rotations and boosts (independent of tf_pwa.angle); the parent is unpolarised (all helicities of the top particle summed; no `spins` restriction on it)",
    "d-function parity symmetry and unitarity are theorems about the exact table model TfPwaV.Wigner, which C12 compares entry by entry with tf_pwa.dfun.small_d_weight",
    "Props/C01k.lean: theorems about the R instance of templates/RouteRest.lean.in (stepTree = the (alpha, beta, omega) record of cal_helicity_angle) and templates/Cascade.lean.in; hypotheses on momenta of the final theorem axes_independent_event_guards_partial = Guards at both choices of base axes, total momentum massive and on the code's boost branches, |vect r| >= 1e-14 for a decaying daughter of the top particle (back-to-back daughters are derived from momentum conservation in the input frame); hR (alignment elements in SU(2)) and the id <-> decay-path tables are hypotheses of axes_independent_cascade_partial and are discharged in axes_independent_event_partial",
]

TOL = 1e-8
TOL_DEGENERATE = 1e-5
TOL_INV = 1e-9
ABS_FLOOR = 1e-12  # densities below this are treated as zero (e.g. an odd-l resonance into two identical scalars cancels identically)
KINDS = ["rot", "rotz", "boost", "boost99", "boostz", "boostx", "boosttiny", "lorentz", "inv", "invrot", "swap"]


# ---------------------------------------------------------------------------------------------
# transformations (numpy, independent of tf_pwa)
# ---------------------------------------------------------------------------------------------

def rand_rot(rng, n):
    q = rng.normal(size=(n, 4))
    q /= np.linalg.norm(q, axis=1, keepdims=True)
    w, x, y, z = q.T
    R = np.empty((n, 3, 3))
    R[:, 0, 0] = 1 - 2 * (y * y + z * z); R[:, 0, 1] = 2 * (x * y - z * w); R[:, 0, 2] = 2 * (x * z + y * w)
    R[:, 1, 0] = 2 * (x * y + z * w); R[:, 1, 1] = 1 - 2 * (x * x + z * z); R[:, 1, 2] = 2 * (y * z - x * w)
    R[:, 2, 0] = 2 * (x * z - y * w); R[:, 2, 1] = 2 * (y * z + x * w); R[:, 2, 2] = 1 - 2 * (x * x + y * y)
    return R


def rotz(a):
    n = len(a)
    R = np.zeros((n, 3, 3))
    R[:, 0, 0] = np.cos(a); R[:, 0, 1] = -np.sin(a); R[:, 1, 0] = np.sin(a); R[:, 1, 1] = np.cos(a); R[:, 2, 2] = 1
    return R


def rand_dir(rng, n):
    d = rng.normal(size=(n, 3))
    return d / np.linalg.norm(d, axis=1, keepdims=True)


def apply_lin(p, R):
    """p: (n,4); R: (n,3,3) acting on the space part"""
    return np.concatenate([p[:, :1], np.einsum("nij,nj->ni", R, p[:, 1:])], -1)


def apply_boost(p, v):
    """active boost of p (n,4) by velocity v (n,3) — textbook formula"""
    b2 = np.sum(v * v, -1)
    g = 1 / np.sqrt(1 - b2)
    bp = np.sum(p[:, 1:] * v, -1)
    with np.errstate(divide="ignore", invalid="ignore"):
        g2 = np.where(b2 > 0, (g - 1) / np.where(b2 > 0, b2, 1), 0.0)
    t = g * (p[:, 0] + bp)
    s = p[:, 1:] + (g2 * bp + g * p[:, 0])[:, None] * v
    return np.concatenate([t[:, None], s], -1)


def make_transform(kind, rng, n, st):
    """returns a JSON-able description: list of steps, each ('lin', R[n,3,3]) | ('boost', v[n,3]) | ('swap', perm)"""
    if kind == "rot":
        return [("lin", rand_rot(rng, n))]
    if kind == "rotz":
        return [("lin", rotz(rng.uniform(-math.pi, math.pi, n)))]
    if kind == "boost":
        return [("boost", rand_dir(rng, n) * rng.uniform(0.05, 0.95, (n, 1)))]
    if kind == "boost99":
        return [("boost", rand_dir(rng, n) * 0.99)]
    if kind == "boostz":
        v = np.zeros((n, 3)); v[:, 2] = rng.uniform(0.05, 0.95, n) * rng.choice([-1.0, 1.0], n)
        return [("boost", v)]
    if kind == "boostx":
        v = np.zeros((n, 3)); v[:, 0] = rng.uniform(0.05, 0.95, n) * rng.choice([-1.0, 1.0], n)
        return [("boost", v)]
    if kind == "boosttiny":
        return [("boost", rand_dir(rng, n) * (10.0 ** rng.uniform(-9, -3, (n, 1))))]
    if kind == "lorentz":
        return [("lin", rand_rot(rng, n)), ("boost", rand_dir(rng, n) * rng.uniform(0.05, 0.9, (n, 1))), ("lin", rand_rot(rng, n))]
    if kind == "inv":
        return [("lin", -np.tile(np.eye(3), (n, 1, 1)))]
    if kind == "invrot":
        return [("lin", -rand_rot(rng, n)), ("boost", rand_dir(rng, n) * rng.uniform(0.05, 0.9, (n, 1)))]
    if kind == "swap":
        # a random non-trivial permutation inside every declared group of identical particles
        order = st["cfg"]["data"]["dat_order"]
        perm = list(range(len(order)))
        for grp in st["cfg"]["data"]["identical_particles"]:
            idx = [order.index(x) for x in grp]
            while True:
                sh = [int(x) for x in rng.permutation(idx)]
                if sh != idx:
                    break
            for a, b in zip(idx, sh):
                perm[a] = b
        return [("swap", perm)]
    raise ValueError(kind)


def apply_transform(p, steps, sel=None):
    """p: list over particles of (n,4) arrays"""
    out = [np.array(x) for x in p]
    for what, arg in steps:
        if what == "swap":
            out = [out[j] for j in arg]
            continue
        arg = np.asarray(arg, dtype=float)
        if sel is not None:
            arg = arg[sel]
        if what == "lin":
            out = [apply_lin(x, arg) for x in out]
        else:
            out = [apply_boost(x, arg) for x in out]
    return out


def steps_json(steps, i):
    """the transformation of event i, JSON-able"""
    out = []
    for what, arg in steps:
        out.append([what, arg if what == "swap" else np.asarray(arg)[i:i + 1].tolist()])
    return out


# ---------------------------------------------------------------------------------------------
# the zoo
# ---------------------------------------------------------------------------------------------

def _p(J, P, mass, **kw):
    d = {"J": J, "P": P, "mass": mass}
    d.update(kw)
    return d


def fixed_zoo():
    """Hand-designed structures covering the clauses of the property (names are unique per structure: tf_pwa caches
    CG matrices per decay NAME in a process-wide lru_cache)."""
    Z = []
    # 1: spin-1/2 parent -> 1/2 0 1, three interfering chains with J = 3/2, 1/2, 1; all vertices conserve parity; BWR
    Z.append({"name": "s3_half_3chains", "pc": True, "cfg": {
        "data": {"dat_order": ["Ba", "Ca", "Da"]},
        "decay": {"Aa": [["Rbca", "Da"], ["Rbda", "Ca"], ["Rcda", "Ba"]], "Rbca": ["Ba", "Ca"], "Rbda": ["Ba", "Da"], "Rcda": ["Ca", "Da"]},
        "particle": {"$top": {"Aa": _p("1/2", 1, 4.6)},
                     "$finals": {"Ba": _p("1/2", 1, 0.938), "Ca": _p(0, -1, 0.494), "Da": _p(1, -1, 0.78)},
                     "Rbca": _p("3/2", -1, 1.9, width=0.1), "Rbda": _p("1/2", 1, 2.43, width=0.3), "Rcda": _p(1, 1, 1.8, width=0.13)}}})
    # 2: weak three-body decay (every top vertex violates parity), spin-0 parent, spin-2 and BW resonances
    Z.append({"name": "s3_weak", "pc": False, "cfg": {
        "data": {"dat_order": ["Bb", "Cb", "Db"]},
        "decay": {"Ab": [["Rbcb", "Db", {"p_break": True}], ["Rbdb", "Cb", {"p_break": True}], ["Rcdb", "Bb", {"p_break": True}]],
                  "Rbcb": ["Bb", "Cb"], "Rbdb": ["Bb", "Db"], "Rcdb": ["Cb", "Db"]},
        "particle": {"$top": {"Ab": _p(0, -1, 5.28)},
                     "$finals": {"Bb": _p(1, -1, 3.097), "Cb": _p(0, -1, 0.494), "Db": _p(0, -1, 0.1396)},
                     "Rbcb": _p(1, 1, 4.2, width=0.1, model="BW"), "Rbdb": _p(1, 1, 3.9, width=0.04), "Rcdb": _p(2, 1, 1.43, width=0.1)}}})
    # 3: four-body, sequential + branching topologies interfering, spins 1, 1/2, 3/2, line shape `one`
    Z.append({"name": "s4_seq_branch", "pc": True, "cfg": {
        "data": {"dat_order": ["Bc", "Cc", "Dc", "Ec"]},
        "decay": {"Ac": [["R1c", "Ec"], ["R3c", "R4c"]], "R1c": [["R2c", "Dc"]], "R2c": ["Bc", "Cc"], "R3c": ["Bc", "Cc"], "R4c": ["Dc", "Ec"]},
        "particle": {"$top": {"Ac": _p(1, -1, 4.6)},
                     "$finals": {"Bc": _p("1/2", 1, 0.938), "Cc": _p(0, -1, 0.494), "Dc": _p(0, -1, 0.1396), "Ec": _p("1/2", -1, 1.115)},
                     "R1c": _p("3/2", 1, 2.6, width=0.2), "R2c": _p("1/2", -1, 1.67, width=0.1),
                     "R3c": _p("3/2", -1, 1.52, width=0.2), "R4c": _p("3/2", 1, 1.385, width=0.05, model="one")}}})
    # 4: identical bosons (declared), spin-1 parent, spin-2 resonance
    Z.append({"name": "s3_identical_bosons", "pc": True, "cfg": {
        "data": {"dat_order": ["Bd", "C1d", "C2d"], "identical_particles": [["C1d", "C2d"]]},
        "decay": {"Ad": [["Rbcd", "C2d"], ["Rccd", "Bd"]], "Rbcd": ["Bd", "C1d"], "Rccd": ["C1d", "C2d"]},
        "particle": {"$top": {"Ad": _p(1, -1, 3.686)},
                     "$finals": {"Bd": _p(1, -1, 0.78), "C1d": _p(0, -1, 0.1396), "C2d": _p(0, -1, 0.1396)},
                     "Rbcd": _p(1, 1, 1.23, width=0.14), "Rccd": _p(2, 1, 1.27, width=0.18)}}})
    # 5: identical fermions (sign factor), spin-1/2 and spin-1 resonances
    Z.append({"name": "s3_identical_fermions", "pc": True, "cfg": {
        "data": {"dat_order": ["Be", "C1e", "C2e"], "identical_particles": [["C1e", "C2e"]]},
        "decay": {"Ae": [["Rbce", "C2e"], ["Rcce", "Be"]], "Rbce": ["Be", "C1e"], "Rcce": ["C1e", "C2e"]},
        "particle": {"$top": {"Ae": _p(1, -1, 3.686)},
                     "$finals": {"Be": _p(0, -1, 0.548), "C1e": _p("1/2", 1, 0.938), "C2e": _p("1/2", 1, 0.938)},
                     "Rbce": _p("1/2", -1, 1.535, width=0.15), "Rcce": _p(1, -1, 2.2, width=0.18)}}})
    # 6: four-body with a parity-violating vertex below the top, spin-2 parent, spin-3/2 final
    Z.append({"name": "s4_weak_inner", "pc": False, "cfg": {
        "data": {"dat_order": ["Bf", "Cf", "Df", "Ef"]},
        "decay": {"Af": [["R1f", "Ef"], ["R5f", "Bf"]], "R1f": [["R2f", "Df", {"p_break": True}]], "R2f": ["Bf", "Cf"],
                  "R5f": [["R6f", "Cf"]], "R6f": [["Df", "Ef", {"p_break": True}]]},
        "particle": {"$top": {"Af": _p(2, 1, 5.0)},
                     "$finals": {"Bf": _p("3/2", 1, 1.232), "Cf": _p(0, -1, 0.494), "Df": _p(1, -1, 0.78), "Ef": _p("1/2", 1, 0.938)},
                     "R1f": _p("3/2", -1, 3.1, width=0.25), "R2f": _p("1/2", 1, 1.9, width=0.2, model="BW"),
                     "R5f": _p("1/2", -1, 2.9, width=0.3), "R6f": _p("3/2", 1, 2.0, width=0.15)}}})
    # 7: four-body, two pairs of identical particles, branching only, all parity conserving
    Z.append({"name": "s4_two_identical_pairs", "pc": True, "cfg": {
        "data": {"dat_order": ["B1g", "B2g", "C1g", "C2g"], "identical_particles": [["B1g", "B2g"], ["C1g", "C2g"]]},
        "decay": {"Ag": [["R1g", "R2g"], ["R3g", "B2g"]], "R1g": ["B1g", "C1g"], "R2g": ["B2g", "C2g"], "R3g": [["R1g", "C2g"]]},
        "particle": {"$top": {"Ag": _p(0, 1, 3.4)},
                     "$finals": {"B1g": _p(1, -1, 0.78), "B2g": _p(1, -1, 0.78), "C1g": _p(0, -1, 0.1396), "C2g": _p(0, -1, 0.1396)},
                     "R1g": _p(1, 1, 1.23, width=0.14), "R2g": _p(1, 1, 1.23, width=0.14), "R3g": _p(1, -1, 1.6, width=0.3)}}})
    # 8: three identical fermions (exchange group S3: the sign must be the parity of the permutation)
    Z.append({"name": "s4_three_identical_fermions", "pc": True, "cfg": {
        "data": {"dat_order": ["Bh", "C1h", "C2h", "C3h"], "identical_particles": [["C1h", "C2h", "C3h"]]},
        "decay": {"Ah": [["R1h", "C3h"]], "R1h": [["R2h", "C2h"]], "R2h": ["Bh", "C1h"]},
        "particle": {"$top": {"Ah": _p("3/2", 1, 5.0)},
                     "$finals": {"Bh": _p(0, -1, 0.494), "C1h": _p("1/2", 1, 0.938), "C2h": _p("1/2", 1, 0.938), "C3h": _p("1/2", 1, 0.938)},
                     "R1h": _p(1, -1, 3.0, width=0.3), "R2h": _p("1/2", -1, 1.7, width=0.2)}}})
    # 9: structure 1 with the data option align_ref = center_mass (events are NOT in the centre-of-mass frame after a boost)
    Z.append({"name": "s3_align_center_mass", "pc": True, "cfg": {
        "data": {"dat_order": ["Bk", "Ck", "Dk"], "align_ref": "center_mass"},
        "decay": {"Ak": [["Rbck", "Dk"], ["Rbdk", "Ck"], ["Rcdk", "Bk"]], "Rbck": ["Bk", "Ck"], "Rbdk": ["Bk", "Dk"], "Rcdk": ["Ck", "Dk"]},
        "particle": {"$top": {"Ak": _p("1/2", 1, 4.6)},
                     "$finals": {"Bk": _p("1/2", 1, 0.938), "Ck": _p(0, -1, 0.494), "Dk": _p(1, -1, 0.78)},
                     "Rbck": _p("3/2", -1, 1.9, width=0.1), "Rbdk": _p("1/2", 1, 2.43, width=0.3), "Rcdk": _p(1, 1, 1.8, width=0.13)}}})
    # 10: structure 5 (identical fermions) with the fixed laboratory z axis (random_z False, r_boost left at its default):
    # the exchanged pass of cal_angle_from_momentum_id_swap must use the same options as the direct pass
    Z.append({"name": "s3_identical_fermions_fixed_z", "pc": True, "cfg": {
        "data": {"dat_order": ["Bm", "C1m", "C2m"], "identical_particles": [["C1m", "C2m"]], "random_z": False},
        "decay": {"Am": [["Rbcm", "C2m"], ["Rccm", "Bm"]], "Rbcm": ["Bm", "C1m"], "Rccm": ["C1m", "C2m"]},
        "particle": {"$top": {"Am": _p(1, -1, 3.686)},
                     "$finals": {"Bm": _p(0, -1, 0.548), "C1m": _p("1/2", 1, 0.938), "C2m": _p("1/2", 1, 0.938)},
                     "Rbcm": _p("3/2", -1, 1.535, width=0.15), "Rccm": _p(1, -1, 2.2, width=0.18)}}})
    return Z


MASSES = [0.1396, 0.494, 0.548, 0.78, 0.938, 1.115, 1.87]
LETTERS = "BCDEF"


def random_structure(rng, idx):
    """A random decay card: 3 or 4 finals, 1-3 interfering chains over random topologies, random spins/parities,
    line shapes, optional parity violation and identical particles.  May be rejected by ConfigLoader (no allowed ls)."""
    tag = "r%d" % idx
    n = int(rng.choice([3, 3, 4, 4, 4]))
    names = [LETTERS[i] + tag for i in range(n)]
    spins = [str(rng.choice(["0", "0", "1/2", "1/2", "1", "1", "3/2"])) for _ in range(n)]
    par = [int(rng.choice([-1, 1])) for _ in range(n)]
    mass = [float(rng.choice(MASSES)) for _ in range(n)]
    ident = None
    if rng.random() < 0.25:
        i, j = sorted(int(x) for x in rng.choice(n, 2, replace=False))
        spins[j], par[j], mass[j] = spins[i], par[i], mass[i]
        ident = [[names[i], names[j]]]
    half = lambda s: "/" in s
    nh = sum(half(s) for s in spins)
    topJ = str(rng.choice(["1/2", "3/2"] if nh % 2 else ["0", "1", "2"]))
    top = "A" + tag
    m0 = sum(mass) + float(rng.uniform(0.8, 2.5))
    pv = rng.random() < 0.35
    particle = {"$top": {top: _p(topJ, int(rng.choice([-1, 1])), m0)},
                "$finals": {nm: _p(s, p, m) for nm, s, p, m in zip(names, spins, par, mass)}}
    decay = {}
    res = {}

    def resonance(content):
        key = "R" + "".join(LETTERS[i] for i in sorted(content)) + tag
        if key not in res:
            h = sum(half(spins[i]) for i in content) % 2
            J = str(rng.choice(["1/2", "1/2", "3/2"] if h else ["0", "1", "1", "2"]))
            lo = sum(mass[i] for i in content)
            hi = m0 - sum(mass[i] for i in range(n) if i not in content)
            m = float(rng.uniform(lo + 0.05, hi + 0.3))
            d = _p(J, int(rng.choice([-1, 1])), m, width=float(rng.uniform(0.04, 0.4)))
            model = str(rng.choice(["", "", "BW", "one"]))
            if model:
                d["model"] = model
            res[key] = d
        return key

    def add(core, outs):
        o = list(outs)
        if pv and rng.random() < 0.6:
            o.append({"p_break": True})
        lst = decay.setdefault(core, [])
        if not any(sorted(x for x in e if not isinstance(x, dict)) == sorted(x for x in o if not isinstance(x, dict)) for e in lst):
            lst.append(o)

    nch = int(rng.choice([1, 2, 2, 3]))
    for _ in range(nch):
        perm = [int(x) for x in rng.permutation(n)]
        if n == 3:
            r = resonance(perm[:2])
            add(top, [r, names[perm[2]]])
            add(r, [names[perm[0]], names[perm[1]]])
        elif rng.random() < 0.5:  # sequential ((ij)k)l
            r2 = resonance(perm[:2]); r1 = resonance(perm[:3])
            add(top, [r1, names[perm[3]]])
            add(r1, [r2, names[perm[2]]])
            add(r2, [names[perm[0]], names[perm[1]]])
        else:  # branching (ij)(kl)
            ra = resonance(perm[:2]); rb = resonance(perm[2:])
            add(top, [ra, rb])
            add(ra, [names[perm[0]], names[perm[1]]])
            add(rb, [names[perm[2]], names[perm[3]]])
    particle.update(res)
    data = {"dat_order": names}
    if ident:
        data["identical_particles"] = ident
    if rng.random() < 0.15:
        data["align_ref"] = "center_mass"
    if rng.random() < 0.25:
        data["random_z"] = False  # fixed laboratory z axis (an admissible choice, C02)
    return {"name": "random_%d" % idx, "pc": not pv, "cfg": {"data": data, "decay": decay, "particle": particle}}


class Built:
    pass


def build(st, params=None, rng=None):
    """ConfigLoader(dict) -> amplitude with harness-chosen parameters.  Returns None when the card is not a valid model."""
    import tensorflow as tf
    from tf_pwa.config_loader import ConfigLoader
    b = Built()
    b.st = st
    b.config = ConfigLoader(copy.deepcopy(st["cfg"]))
    b.amp = b.config.get_amplitude()
    b.chains = list(b.amp.decay_group.chains)
    if not b.chains:
        return None
    cur = {k: float(v) for k, v in b.amp.get_params().items()}
    if params is None:
        params = {}
        for k in sorted(cur):
            if "g_ls" in k or "total" in k:
                params[k] = float(rng.uniform(0.3, 2.0)) if k.endswith("r") else float(rng.uniform(-math.pi, math.pi))
            else:
                params[k] = cur[k]
    b.amp.set_params(params)
    b.params = {k: float(v) for k, v in b.amp.get_params().items()}
    b.order = list(st["cfg"]["data"]["dat_order"])
    fin = st["cfg"]["particle"]["$finals"]
    b.fmass = [float(fin[k]["mass"]) for k in b.order]
    b.m0 = float(list(st["cfg"]["particle"]["$top"].values())[0]["mass"])
    b.top = list(st["cfg"]["particle"]["$top"].keys())[0]
    b.spin_finals = [k for k in b.order if str(fin[k]["J"]) not in ("0", "0.0")]
    b.nbody = len(b.order)
    return b


def st_class(b):
    """input class used in the failure keys (so that a listed finding on one class cannot hide a failure on another)"""
    d = b.st["cfg"]["data"]
    fin = b.st["cfg"]["particle"]["$finals"]
    groups = d.get("identical_particles") or []
    spin = lambda k: str(fin[k]["J"])
    if any(len(g) >= 3 and "/" in spin(g[0]) for g in groups):
        return "three-identical-fermions"
    if groups and any(spin(k) not in ("0", "0.0") for k in fin):
        # the exchanged-momenta pass re-derives the spin frame of EVERY final particle from its own chains
        return "identical-spin"
    if d.get("align_ref") == "center_mass":
        return "align-center-mass"
    return "%dbody" % b.nbody


def phsp(b, n, seed):
    import tensorflow as tf
    from tf_pwa.phasespace import PhaseSpaceGenerator
    tf.random.set_seed(int(seed))
    p = PhaseSpaceGenerator(b.m0, b.fmass).generate(n)
    return [np.array(x, dtype=float)[:n] for x in p]


def kinds_for(b):
    ks = ["rot", "rotz", "boost", "boost99", "boostz", "boostx", "boosttiny", "lorentz"]
    if b.nbody == 3 or b.st["pc"]:
        ks += ["inv", "invrot"]
    if b.st["cfg"]["data"].get("identical_particles"):
        ks += ["swap"]
    return ks


def evaluate(b, plist):
    """one eager pass over all events: returns (density array, flattened data dictionary)"""
    from tf_pwa.data import flatten_dict_data
    data = b.config.data.cal_angle([np.array(x) for x in plist])
    dens = np.asarray(b.amp(data).numpy(), dtype=float)
    flat = {}
    try:
        for k, v in flatten_dict_data({"particle": data["particle"], "decay": data["decay"]}).items():
            v = np.asarray(v)
            if v.ndim == 1 and v.shape[0] == dens.shape[0]:
                flat[str(k)] = v.astype(float)
    except Exception:  # the layout of the data dictionary changed: the density comparison is still made
        flat = {}
    return dens, flat


def degenerate_mask(b, flat, n):
    """events where an alignment beta of a final particle with spin is within 1e-6 of 0 or pi (acos noise sqrt(eps))"""
    m = np.zeros(n, dtype=bool)
    for k, v in flat.items():
        if k.endswith("/aligned_angle/beta"):
            part = k.split("/")[-3]
            if part in b.spin_finals:
                m |= np.abs(np.sin(v)) < 1e-6
    return m


def run_structure(b, n_ev, seed, rng, kinds=None):
    """returns dict kind -> per-event records.  All transformed copies go through ONE cal_angle + amplitude call."""
    p = phsp(b, n_ev, seed)
    n = len(p[0])
    kinds = kinds or kinds_for(b)
    steps = {k: make_transform(k, rng, n, b.st) for k in kinds}
    blocks = [p] + [apply_transform(p, steps[k]) for k in kinds]
    big = [np.concatenate([blk[i] for blk in blocks], 0) for i in range(len(p))]
    dens, flat = evaluate(b, big)
    dens = dens.reshape(len(blocks), n)
    deg_all = degenerate_mask(b, flat, len(blocks) * n).reshape(len(blocks), n)
    return {"p": p, "n": n, "kinds": kinds, "steps": steps, "dens": dens, "flat": {k: v.reshape(len(blocks), n) for k, v in flat.items()}, "deg": deg_all}


def density_errors(run):
    d0 = run["dens"][0]
    med = float(np.median(np.abs(d0[np.isfinite(d0)]))) if np.any(np.isfinite(d0)) else 1.0
    out = {}
    for j, k in enumerate(run["kinds"]):
        d1 = run["dens"][j + 1]
        with np.errstate(invalid="ignore"):
            e = np.abs(d1 - d0) / np.maximum(np.maximum(np.abs(d0), np.abs(d1)), max(1e-3 * med, ABS_FLOOR))
        deg = run["deg"][0] | run["deg"][j + 1]
        out[k] = (e, deg)
    run["floor"] = max(1e-3 * med, ABS_FLOOR)
    return out


def replay_dict(b, run, kind, i, extra=None):
    r = {"op": "density", "structure": b.st["name"], "pc": b.st["pc"], "config": b.st["cfg"], "params": b.params, "kind": kind,
         "event": [x[i].tolist() for x in run["p"]], "transformation": steps_json(run["steps"][kind], i) if kind in run["steps"] else []}
    r["floor"] = float(run.get("floor", 0.0))
    if extra:
        r.update(extra)
    return r


def structures(ctx, n_random):
    rng = np.random.Generator(np.random.Philox(ctx.seed + 1001))
    out = list(fixed_zoo())
    for i in range(n_random):
        out.append(random_structure(rng, ctx.seed * 1000 + i))
    return out


def try_build(st, rng):
    import io
    import contextlib
    try:
        with contextlib.redirect_stdout(io.StringIO()):
            return build(st, rng=rng)
    except Exception:
        return None


_CACHE = {}


def all_runs(ctx, res):
    """Build every structure once and evaluate it (shared by correspond and search)."""
    key = (ctx.seed, ctx.tier, bool(ctx.suspect))
    if key in _CACHE:
        return _CACHE[key]
    n_random = (4 if ctx.quick else 240) * (3 if (ctx.suspect and ctx.quick) else 1)
    n_ev = 40 if ctx.quick else 120
    rng = np.random.Generator(np.random.Philox(ctx.seed + 2002))
    runs, rejected = [], 0
    for k, st in enumerate(structures(ctx, n_random)):
        b = try_build(st, rng)
        if b is None:
            if st["name"].startswith("random_"):
                rejected += 1
                continue
            res.broke("C01 zoo: hand-designed structure %s is no longer accepted by ConfigLoader" % st["name"], st["cfg"])
            continue
        try:
            run = run_structure(b, n_ev, ctx.seed * 7919 + k, rng)
        except Exception as e:  # evaluation raised on physical events: the density is not even defined
            import traceback
            res.fail("density:raises:%dbody" % b.nbody, "evaluating structure %s raised %s: %s" % (st["name"], type(e).__name__, str(e)[:300]),
                     {"op": "raises", "structure": st["name"], "config": st["cfg"], "params": b.params, "seed_events": ctx.seed * 7919 + k, "n": n_ev})
            C.log(traceback.format_exc()[-1500:])
            continue
        runs.append((b, run))
    _CACHE[key] = (runs, rejected)
    return runs, rejected


# ---------------------------------------------------------------------------------------------
# correspondence: hypotheses of the skeleton on the implementation's intermediate data
# ---------------------------------------------------------------------------------------------

WIGNER_STRUCTURES = ["s3_half_3chains", "s4_seq_branch", "s4_weak_inner"]
FRAME_KINDS = ("rot", "rotz", "boost", "boost99", "boostz", "boostx", "boosttiny", "lorentz")


def correspond_swap_factor(ctx, res):
    """DecayGroup.get_swap_factor on the real object vs the Lean model (legacy and repaired variants): the harness
    observes which variant the tree implements; anything else breaks the correspondence."""
    import itertools
    st = [s for s in fixed_zoo() if s["name"] == "s4_three_identical_fermions"][0]
    b = try_build(st, np.random.Generator(np.random.Philox(1)))
    if b is None:
        res.broke("C01 swap-factor correspondence: cannot build the three-identical-fermion structure", st["cfg"])
        return
    dg = b.amp.decay_group
    raw = getattr(type(dg).get_swap_factor, "__wrapped__", None)
    names = ["C1h", "C2h", "C3h"]
    saved = dg.identical_particles
    cases, lines = [], []
    try:
        for n in (1, 2, 3):
            grp = names[:n]
            dg.identical_particles = [grp]
            for perm in itertools.permutations(range(n)):
                comb = (tuple(grp[i] for i in perm),)
                key = (None, comb)
                val = raw(dg, key) if raw else dg.get_swap_factor(key)
                cases.append((n, list(perm), float(val)))
                for variant in ("legacy", "fixed"):
                    lines.append("C01 swapfac %s %s" % (variant, " ".join(str(i) for i in perm)))
    finally:
        dg.identical_particles = saved
    out = ctx.model.query(lines)
    leg = [float(x) for x in out[0::2]]
    fix = [float(x) for x in out[1::2]]
    real = [c[2] for c in cases]
    variant = "fixed" if real == fix else ("legacy" if real == leg else None)
    res.coverage["swap_factor_variant_observed"] = variant
    res.coverage["swap_factor_cases"] = len(cases)
    res.samples.append({"get_swap_factor": [{"perm": c[1], "real": c[2], "legacy_model": l, "fixed_model": f} for c, l, f in zip(cases, leg, fix)][-6:]})
    if variant is None:
        bad = [(c, l, f) for c, l, f in zip(cases, leg, fix) if c[2] != f]
        res.broke("correspondence: DecayGroup.get_swap_factor is neither the permutation sign (Swap.fixedFactor) nor the legacy pair count (Swap.legacyFactor)",
                  {"first": bad[:3]})
    return len(cases)


def correspond(ctx, res):
    n_swap = correspond_swap_factor(ctx, res) or 0
    import c01_amp
    n_swap += c01_amp.correspond_amp(ctx, res) or 0  # amplitude tensor of amp/core.py vs the Lean model AmpF, per helicity component
    n_swap += c01_amp.correspond_amp3(ctx, res) or 0  # get_amp2 / get_amp3 / sum_amp: identical particles, cp partner, allow_cc
    runs, rejected = all_runs(ctx, res)
    # Props/C01g (Wigner rotation of the parent rest frame): the theorem's objects on the real cal_chain_boost / cal_helicity_angle
    import c01_wigner
    want = WIGNER_STRUCTURES if ctx.quick else [b.st["name"] for b, _ in runs[:12]]
    n_swap += c01_wigner.correspond_wigner(ctx, res, [b for b, _ in runs if b.st["name"] in want]) or 0
    # Props/C01h (change of the base axes for a fixed event): the theorems' objects on the real cal_helicity_angle at explicit base axes
    import c01_axes
    n_swap += c01_axes.correspond_axes(ctx, res, [b for b, _ in runs if b.st["name"] in want]) or 0
    # Props/C01j (ingredient (b)): every generated card satisfies CTree.spinOK; the real loader offers no coupling to a parity-violating vertex
    import c01_spin
    n_swap += c01_spin.correspond_spin(ctx, res, [b for b, _ in runs]) or 0
    n_cmp, worst_m, worst_b, first = 0, 0.0, 0.0, None
    nbad = 0
    for b, run in runs:
        for key, v in run["flat"].items():
            is_m = key.startswith("particle/") and key.endswith("/m")
            is_q = key.endswith("/|q|2")
            is_b = key.endswith("/ang/beta") and not key.split("/")[-4].startswith(b.top + "->")
            if not (is_m or is_q or is_b):
                continue
            for j, kind in enumerate(run["kinds"]):
                if kind not in FRAME_KINDS and not (kind in ("inv", "invrot") and (is_m or is_q or is_b)):
                    continue
                a0, a1 = v[0], v[j + 1]
                if is_b:
                    e = np.abs(np.cos(a1) - np.cos(a0))
                    worst_b = max(worst_b, float(np.nanmax(e)))
                else:
                    sc = np.maximum(np.abs(a0), 1e-3 * (b.m0 ** (2 if is_q else 1)))
                    e = np.abs(a1 - a0) / sc
                    worst_m = max(worst_m, float(np.nanmax(e)))
                n_cmp += len(e)
                bad = np.where(~(e < TOL_INV))[0]
                if len(bad):
                    nbad += len(bad)
                    if first is None:
                        i = int(bad[0])
                        first = {"structure": b.st["name"], "quantity": key, "kind": kind, "before": float(a0[i]), "after": float(a1[i]),
                                 "event": [x[i].tolist() for x in run["p"]], "transformation": steps_json(run["steps"][kind], i)}
    res.coverage.update({
        "traces_validated_against_impl": int(n_cmp) + int(n_swap),
        "invariants_worst_rel_err_mass_q2": worst_m,
        "invariants_worst_abs_err_cos_beta": worst_b,
        "invariants_disagreements": int(nbad),
    })
    if nbad:
        res.broke("correspondence: a Lorentz invariant of the data dictionary (mass, |q|^2 or a polar helicity angle below the top vertex) changes under a common rotation/boost "
                  "(hypotheses lorentz_invariants / hB of density_boost_invariant_partial)", {"n": nbad, "first": first})
        ctx.hint = first


# ---------------------------------------------------------------------------------------------
# search: the metamorphic statement itself
# ---------------------------------------------------------------------------------------------

def search(ctx, res):
    runs, rejected = all_runs(ctx, res)
    n_eval, n_cases, n_deg = 0, 0, 0
    worst = {"strict": 0.0, "degenerate": 0.0}
    per_kind = {}
    cover = {"nbody": {}, "spins": set(), "models": set(), "parity_violating": 0, "identical": 0, "chains": {}, "classes": {}}
    for b, run in runs:
        st = b.st
        n = run["n"]
        n_eval += run["dens"].size
        cover["nbody"][b.nbody] = cover["nbody"].get(b.nbody, 0) + 1
        cover["classes"][st_class(b)] = cover["classes"].get(st_class(b), 0) + 1
        cover["chains"][len(b.chains)] = cover["chains"].get(len(b.chains), 0) + 1
        cover["parity_violating"] += 0 if st["pc"] else 1
        cover["identical"] += 1 if st["cfg"]["data"].get("identical_particles") else 0
        for sect in ("$top", "$finals"):
            for v in st["cfg"]["particle"][sect].values():
                cover["spins"].add(str(v["J"]))
        for k, v in st["cfg"]["particle"].items():
            if not k.startswith("$"):
                cover["spins"].add(str(v["J"]))
                cover["models"].add(str(v.get("model", "default(BWR)")))
        d0 = run["dens"]
        # finite and non-negative, every copy
        bad = np.argwhere(~np.isfinite(d0))
        for blk, i in bad[:3]:
            kind = "identity" if blk == 0 else run["kinds"][blk - 1]
            res.fail("density:not-finite:%dbody" % b.nbody, "density is %r for a physical event of structure %s (copy: %s)" % (float(d0[blk, i]), st["name"], kind),
                     replay_dict(b, run, kind if blk else "identity", int(i), {"op": "finite"}))
        bad = np.argwhere(d0 < 0)
        for blk, i in bad[:3]:
            kind = "identity" if blk == 0 else run["kinds"][blk - 1]
            res.fail("density:negative:%dbody" % b.nbody, "density %r < 0 for structure %s (copy: %s)" % (float(d0[blk, i]), st["name"], kind),
                     replay_dict(b, run, kind if blk else "identity", int(i), {"op": "finite"}))
        for kind, (e, deg) in density_errors(run).items():
            j0 = run["kinds"].index(kind) + 1
            n_cases += int(np.sum(np.maximum(np.abs(run["dens"][0]), np.abs(run["dens"][j0])) > run["floor"]))
            n_deg += int(deg.sum())
            tol = np.where(deg, TOL_DEGENERATE, TOL)
            fin = np.isfinite(e)
            bad = np.where(fin & (e > tol))[0]
            pk = per_kind.setdefault(kind, [0, 0.0, 0])
            pk[0] += n
            pk[2] += len(bad)
            if len(bad) == 0:  # headroom statistics over (structure, transformation) blocks that pass
                if np.any(fin & ~deg):
                    worst["strict"] = max(worst["strict"], float(np.max(e[fin & ~deg])))
                if np.any(fin & deg):
                    worst["degenerate"] = max(worst["degenerate"], float(np.max(e[fin & deg])))
                if np.any(fin):
                    pk[1] = max(pk[1], float(np.max(e[fin])))
            bad = np.where(fin & (e > tol))[0]
            if len(bad):
                i = int(bad[np.argmax(e[bad])])
                j = run["kinds"].index(kind) + 1
                res.fail("frame:%s:%s" % (kind, st_class(b)),
                         "density changes under %s: structure %s (%d chains), %r -> %r (rel %.3g, tolerance %.0e; %d of %d events)" % (
                             kind, st["name"], len(b.chains), float(run["dens"][0, i]), float(run["dens"][j, i]), float(e[i]), float(tol[i]), len(bad), n),
                         replay_dict(b, run, kind, i))
    res.coverage.update({
        "evaluations": int(n_eval),
        "distinct_nontrivial": int(n_cases),
        "structures": len(runs),
        "random_cards_rejected_by_ConfigLoader": int(rejected),
        "rule": "fixed zoo of 9 hand-designed decay cards + seeded random cards (3/4 finals, 1-3 chains over random topologies, spins 0..2, random parities, BWR/BW/one, p_break, identical particles) through ConfigLoader(dict); events from PhaseSpaceGenerator; per-event random rotation, z-rotation, boost (beta<0.95), boost beta=0.99, boosts along z and x, tiny boosts 1e-9..1e-3, rotation-boost-rotation, inversion (3-body or all-vertex parity conserving), inversion+rotation+boost, identical-particle exchange; non-trivial = one (event, transformation) pair whose density was compared and is above the floor max(1e-3 median, 1e-12)",
        "exhaustive": False,
        "degenerate_alignment_cases": int(n_deg),
        "worst_accepted_rel_density_change_strict": worst["strict"],
        "worst_accepted_rel_density_change_degenerate_alignment": worst["degenerate"],
        "per_transformation": {k: {"cases": v[0], "worst_accepted": v[1], "rejected": v[2]} for k, v in sorted(per_kind.items())},
        "zoo": {"classes": cover["classes"], "nbody": cover["nbody"], "chains_per_structure": cover["chains"], "spins": sorted(cover["spins"]), "line_shapes": sorted(cover["models"]),
                "parity_violating_structures": cover["parity_violating"], "structures_with_identical_particles": cover["identical"]},
    })
    for b, run in runs[:3]:
        res.samples.append({"structure": b.st["name"], "chains": [str(c) for c in b.chains], "density[0]": float(run["dens"][0, 0]),
                            "after": {k: float(run["dens"][j + 1, 0]) for j, k in enumerate(run["kinds"])}})


# ---------------------------------------------------------------------------------------------
# replay
# ---------------------------------------------------------------------------------------------

def replay(ctx, payload):
    """Re-execute the stored (config, params, event, transformation) on the current /repo; 1 if it still fails."""
    r = payload.get("replay") or {}
    op = r.get("op")
    if op is None:
        print("replay file names a broken obligation, not a failing input: %s" % str(payload.get("broken"))[:3000])
        return 1
    st = {"name": r.get("structure", "replay"), "pc": r.get("pc", True), "cfg": r["config"]}
    try:
        b = build(st, params=r["params"])
    except Exception as e:
        print("REPLAY: building the stored configuration raised %s: %s" % (type(e).__name__, e))
        return 1
    if op == "raises":
        try:
            run_structure(b, int(r["n"]), int(r["seed_events"]), np.random.Generator(np.random.Philox(0)))
        except Exception as e:
            print("REPLAY: still raises %s: %s" % (type(e).__name__, str(e)[:300]))
            return 1
        print("REPLAY: evaluation no longer raises")
        return 0
    p = [np.array([x], dtype=float) for x in r["event"]]
    steps = [(w, a) for w, a in r["transformation"]]
    q = apply_transform(p, steps)
    big = [np.concatenate([a, c], 0) for a, c in zip(p, q)]
    dens, flat = evaluate(b, big)
    d0, d1 = float(dens[0]), float(dens[1])
    print("density(event) = %r   density(transformed event, %s) = %r" % (d0, r.get("kind"), d1))
    if not (math.isfinite(d0) and math.isfinite(d1)) or d0 < 0 or d1 < 0:
        print("REPLAY: property C01 still violated (density not finite / negative)")
        return 1
    if op == "finite":
        print("REPLAY: not reproduced on this tree")
        return 0
    deg = bool(degenerate_mask(b, flat, 2).any())
    tol = TOL_DEGENERATE if deg else TOL
    floor = float(r.get("floor", 0.0))
    e = abs(d1 - d0) / max(abs(d0), abs(d1), floor, 1e-300)
    bad = not (e <= tol)
    print("relative change %.3g (tolerance %.0e)" % (e, tol))
    print("REPLAY: property C01 %s" % ("still violated" if bad else "not reproduced on this tree"))
    return 1 if bad else 0


MANIFEST = {
    "text": "Lean theorems (all finite helicity index sets, all complex chain tensors, all real angles): mixing the parent and final-state helicity indices of EVERY chain with the same unitary matrices leaves the helicity-summed density unchanged and it is non-negative; the code's conjugated D-matrix exp(i m alpha) d^j_{mn}(beta) exp(i n gamma) (dfun.D_matrix_conj) built from the exact small-d table model is a unitary matrix for every 2j <= 8 and all real angles, hence a common rotation acting by D^J on the parent index leaves the density unchanged (density_rot_invariant); every invariant mass of every subsystem and every break-up momentum is unchanged by a common boost (regular branch) or rotation/reflection; d^j_{-m,-n} = (-1)^{m-n} d^j_{mn} for 2j <= 8 (kernel-checked polynomial identity, all real beta); for a three-body decay in the parent rest frame spatial inversion equals the rotation by pi about the decay-plane normal; the identical-particle sum over a finite group with a sign character is an eigenvector of every exchange so its helicity-summed square is exchange invariant; the repaired get_swap_factor is the permutation sign for up to four identical fermions, the unrepaired one is refuted on a 3-cycle. On the Lean model of cal_chain_boost/cal_helicity_angle (every binary decay tree, regular branch of cross_unit) a common rotation leaves every mass and every angle below the top vertex unchanged, and every angle when the base axes co-rotate; with fixed laboratory axes the first D-matrix of every chain is left-multiplied by one common D^J(R) whenever the top-vertex rotations compose in SU(2) (D_hom_su2), which gives invariance of the density from two named hypotheses (density_rot_fixed_axes_partial). Boosts (Props/C01g.lean): for EVERY element A of SL(2,C) acting as the common Lorentz transformation (proved orthochronous), every binary decay tree and all final momenta with a massive total momentum on the code's own boost branch (|beta|^2 > 1e-14 or exactly at rest, before and after): LorentzVector.rest_vector(P, .) is the SL(2,C) element restM P = r^-1 Boost_z(omega(P)) r built from the code's SU2M matrices (rest_vector_is_restM); the parent-rest-frame momenta computed from the transformed event are R times those of the event for ONE proper rotation R, the image of the SU(2) element W = restM(LP) A restM(P)^-1 (wigner_rotation, wigner_rotation_at_rest); the whole tree of nested rest-frame momenta of cal_chain_boost is rotated by R (rest_frames_rotate); every mass (lorentz_invariants_sl2c: any subsystem, no guard), every polar angle below the top vertex, every azimuth two or more levels below the top and every rapidity are unchanged for arbitrary base axes before and after (below_top_invariant_boost, rapidities_boost_invariant); the top-vertex angles are the angles of R n (top_vertex_boost) and the complete angle tree of the transformed event with base axes (z', x') equals that of the event itself with base axes (R^-1 z', R^-1 x') (boost_is_axes_change); hence any function of the per-chain data of cal_angle (angle trees, masses, rapidities) that does not depend on the base axes of a fixed event (named hypothesis AxesIndependent) is invariant under every Lorentz transformation (density_boost_invariant_partial in C01g; the older C01.density_boost_invariant_partial keeps the abstract unitary-mixing form). What is still not proved is AxesIndependent for the real density (Euler-angle composition at the top vertex and the induced common rotation of the alignment elements - no boost is left in it); it and the full statement are validated on the implementation: density finite, >= 0 and unchanged (1e-8) under per-event random rotations, boosts up to beta = 0.99, axis-aligned and tiny boosts, rotation-boost-rotation, spatial inversion (3-body / parity-conserving), identical-particle exchange, over hand-designed and seeded random decay cards built by ConfigLoader(dict). Amplitude tensor (Props/C01d, about the real-number instance of the executable model templates/Amp.lean.in of amp/core.py, whose Float instance is compared with the real DecayChain.get_amp / DecayGroup.get_amp / DecayGroup.get_amp3 tensors per helicity component and with sum_amp on every run, including cards with identical fermions / identical vector bosons (id_swap terms), a charge-conjugate pair (cp_swap term) and charge -1 events with allow_cc): for every chain (any depth, any spins, any couplings and line-shape values) and all top-vertex angles the model amplitude equals sum_mu D^{J*}_{lambda_A mu}(alpha,beta,gamma) T[mu, finals] with D the unitary matrix DConj of the exact small-d tables and a remainder T independent of lambda_A and of the top angles (amp_is_chain_tensor); for every list of chains, if the top-vertex D-matrix of every chain is left-multiplied by one common unitary (D^J(R) whenever the top-vertex rotations compose with R in SU(2); composed angles always exist) the helicity-summed density of the model is unchanged (model_density_top_mix, model_density_top_unitary, model_density_top_rot_invariant; 2j <= 8 for the top particle); for every list of chains, if for every final particle p of a list M the alignment D-function of EVERY chain is right-multiplied by one common unitary V_p and the other alignment D-functions are unchanged, the density of the model is unchanged (model_density_final_mix: no bound on the spins, final index lists = full helicity ranges, every chain aligned exactly once for p), together with one common unitary on the top index (model_density_mix_all), and with hypotheses about ANGLES: one rotation composed in SU(2) onto the top angles of every chain from the left and one rotation per final particle composed onto its alignment angles in every chain from the right, all spins 2j <= 8 (model_density_rot_invariant, Props/C01e: the full statement; composed angles always exist); identical particles (Props/C01f): the model of get_amp2 on the exchanged event is epsilon times the model of get_amp2 on the event with the two helicity indices transposed (amp2_exchange_covariant), hence the symmetrised model density sum_amp is the same on the event and on the exchanged event for every list of chains, epsilon = +-1, every helicity list of the pair and arbitrary other finals (model_exchange_invariant; the nested helicity sums are re-indexed by sumOverR_swap); the chain amplitude is linear in `total` and in the helicity couplings of the top vertex, the helicity coupling is sum_ls g_ls bf_ls cg[ls][lambda_b][lambda_c] (linear in g_ls), the group amplitude is the sum over chains, and the model density is >= 0. Base axes (Props/C01h.lean, model = templates/Cascade.lean.in + Angle.lean.in + the SU2M matrices): for ONE event (the output of cal_chain_boost for every binary decay tree, all momenta) and ANY two admissible choices of base axes (z, x), (z', x') (arbitrary vectors passing the code's cross_unit guards) whose orthonormal top frames are related by an SU(2) element U (FrameChange: coords' = lor U coords): for BOTH daughters of the top vertex the passive vertex rotations r = Rotation_y(beta) Rotation_z(alpha) built from the angles angle_zx_z_getx extracts (with the code's alpha range shifts) satisfy r' U = Rotation_z(gamma) r EXACTLY in SU(2) with one real gamma per daughter (top_angles_compose; from su2_fix_z: the SU(2) stabiliser of a momentum along z is {Rotation_z}); in active form Rz(alpha')Ry(beta')Rz(0) = mirror(U) Rz(alpha)Ry(beta)Rz(gamma) with the SAME mirror(U) for every chain (top_angles_compose_active), hence for 2j <= 8 the top D-function of every chain is D(alpha',beta',0) = D(euler(mirror U)) D(alpha,beta,0) diag(exp(i l gamma)) (top_D_compose, via D_hom_su2 and euler_roundtrip); the complete angle tree below the top vertex computed with (z', x') differs from the one computed with (z, x) ONLY by a lowering of the two azimuths of the daughter's own vertex by that same gamma (mod 2 pi): all masses, all polar angles, everything two or more levels down literally equal (below_top_azimuth_shift / AzShift, hypotheses = the code's guards only); density_axes_independent_partial / density_axes_independent_model_partial: C01b.density_rot_fixed_axes_partial with its link hcomp DISCHARGED for the angles of the model (any number of chains, parent spin 2j <= 8), remaining named link hB (the remainder of chain k changes by the phase exp(-i l gamma_k) up to a common unitary on the final helicities). Props/C01i.lean: for ALL pairs of right-handed orthonormal frames there is U in SU(2) with FrameChange U F F' (frame_change_exists; frame_is_su2: the coordinates along any frame are the Lorentz map of an element Rotation_z Rotation_y Rotation_z), so for ALL base axes passing the code's two cross_unit guards AxesPair holds for some U (axes_pair_exists) and the statements above hold with hypotheses on the guards only and ONE U for all chains and events sharing the axes (top_angles_compose_any_axes, top_D_compose_any_axes, below_top_azimuth_shift_any_axes, density_axes_independent_any_axes_partial: only hB left); for all spins 2j <= 8 and all angles the D-matrix depends on the Euler angles only through the SU(2) element (DConj_zero, DConj_of_element), a vertex whose azimuth ELEMENT is Rotation_z(a) Rotation_z(-gamma) has row m of its D-function multiplied by exp(-i m gamma) and on the other sheet of the double cover by (-1)^(2j) exp(-i m gamma) (vertex_phase_element, vertex_phase_other_sheet; mkD_vertex_phase, mkD_top_gamma on the executable get_D_matrix_lambda model incl. padding zeros), and for every helicity configuration at the top vertex the column phase of the top D-function times the row phases of the two daughters' D-functions is one (top_and_vertex_phases_cancel); D_matrix_conj is a unitary representation of SU(2) ELEMENTS for 2j <= 8 (D_is_representation); for every event, every decay tree of any depth and every decay path the route matrix b_matrix[f] r_matrix[f] of the model of cal_helicity_angle satisfies M' U = W M with W = Rotation_z(gamma) (direct daughter of the top, gamma of its vertex equation) or W = +-1 (deeper) (route_axes_change, RouteW), so the alignment element becomes W_ref R W_k^-1 (alignment_element_change) and its D-function changes by codeD(W_k^-1) on the row and codeD(W_ref) on the column index (aligned_D_axes_change, alignment_axes_change_model, row_factor_of_routeW); assembly on the executable amplitude model for ANY list of chains (any topology / depth, reference chains included): one unitary on the top rows, a column factor on the top D-function, row factors on the lower vertices, row and column factors on the alignment D-functions whose product is ONE unit-modulus number Xi(ext) common to all chains on every helicity configuration the einsum visits (hcancel) leave the density sum_amp unchanged (model_density_axes_independent_ext_partial / _partial / _stored_partial), also with hypotheses on SU(2) elements only and D-functions = mkD at the primed angles, 2j <= 8 (model_density_axes_independent_elements_ext_partial / _elements_partial; vertex_element_of_shift). Props/C01j.lean (builder C01J) DISCHARGES hcancel: (a) on the model of cal_helicity_angle, at EVERY vertex whose daughters are back to back (momentum conservation in the mother's rest frame) the stored angles of outs[1] are (alpha_1 - pi, pi - beta_1) as REAL numbers, not mod 2 pi - the role of the range-shift biases -pi / -2pi (vertex_second_daughter_exact, top_second_daughter_exact; hypotheses = the code's guards) - hence for ALL gamma_1, gamma_2 solving the two vertex equations of the top vertex Rotation_z(gamma_2) = Rotation_z(-gamma_1) and Rotation_z(gamma_1) Rotation_z(gamma_2) = 1 EXACTLY in SU(2), no sign (top_gammas_opposite), and at a lower vertex both daughters' azimuth elements are lowered on the SAME sheet, which is the sign +-1 of the route matrices of ALL final particles below it (sheet_exists, second_daughter_same_sheet, lower_vertex_sheet, routes_carry_vertex_sheet: M' U = (signM e) M with e the sheet of the vertex's own D-function - route_axes_change with the sign identified); (b) CTree.spinOK (decidable: 2j_core = 2j_b + 2j_c mod 2 at every vertex of a decay tree with ids and doubled spins), spin_sign_rule / fermion_sign_rule: (-1)^(2j_R) = product of (-1)^(2j_f) over the finals below R for EVERY tree (structural induction), loader_enforces_spinOK: a vertex with 2(j_a+j_b+j_c) odd has C13.lsList = [] (all parities / p_break / C settings, from ls_mem_iff); (c) chain_phases_cancel = hcancel PROVED for every AmpR.Chain whose index structure is that of a decay tree of ANY depth (ChainOfTree: lower vertices <-> decaying particles, alignment D-functions <-> aligned finals, contracted indices; mkChain builds such a chain from a tree, mkChain_shape): column phase of the top vertex x row phases of all lower vertices x row and column phases of all alignment D-functions = product over ALL final particles f of exp(i ext_f phi_f / 2) with Rotation_z(phi_f) the reference element of f - the reference chain's own vertex phase IS the other chains' alignment column phase; (d) model_density_axes_independent_tree_partial: the density AmpR.densityG of ANY list of such chains (reference chains included, 2j <= 8, D-functions = AmpR.mkD at the primed angles) equals the density at the first axes with NO hcancel hypothesis - the hypotheses left are relations between SU(2) ELEMENTS (vertex equation, Rotation_z(gamma_2) = Rotation_z(-gamma_1), SideOKE: -gamma on the side's sheet for the daughter's own vertex / unit below / -gamma for an aligned direct daughter / the sheet sign for deeper finals, href: own element = reference element in the reference chain), each of which is a theorem of C01h/C01i/C01j about the model of cal_helicity_angle. Two defects of the STATEMENT of hcancel in C01i (unsatisfiable for real chains, not wrong) are repaired: it was asked for configurations with |lambda_b - lambda_c| > J (padding zero of Dfun_delta_v2; colPhaseX continues the phase there) and for configurations h differing from the external helicities on the reference chain's own finals (AmpR.densityG_gauge_ext2 carries h = ext off the contracted indices). Props/C01k.lean (builder C01K): the element relations hold SIMULTANEOUSLY on the step record RouteRestR.stepTree of cal_helicity_angle for ONE event at two admissible choices of base axes, decay trees of ANY depth (the 3-body decay group is the special case): stshift_elements / side_elements - per daughter of the top particle ONE gamma and ONE sheet e serve the vertex equation, the azimuth element of the daughter's own vertex, the route matrices b_matrix.r_matrix of ALL final particles below it (through outs[0] and outs[1] of that vertex: alpha_2 = alpha_1 - pi exactly from back-to-back daughters, side_bb), and every deeper vertex is literally unchanged; chain_elements / chain_rel - per chain gamma_1, gamma_2, e_1, e_2 with htop, Rotation_z(gamma_2) = Rotation_z(-gamma_1), M' U = chainW(path) M for the route of EVERY final particle, W = Rotation_z(chainAngle path) (chainW_is_rotZ: gamma, 0 or 2 pi); alignment_hal - the Euler angles get_euler_angle(M_ref M_k^-1) satisfy exactly the hypothesis hal of C01j with Rotation_z(theta_a) = W_k^-1, Rotation_z(phi) = W_ref; href_of_own_route; sideOKE_of_paths - SideOKE of C01j for a side with a decay tree of any depth from the decay paths of its ids; axes_independent_cascade_partial - C01j.model_density_axes_independent_tree_partial with ALL element hypotheses (htop, h-gamma, hvert, hal, hSb, hSc, href) DISCHARGED: for any list of chains with ChainOfTree structure and the same finals, the momenta (p, T1, T2, g) of each chain passing the code's Guards at both choices of axes with back-to-back daughters at the top vertex and at the vertices of its two daughters (SideBB), D-functions = AmpR.mkD at the angles of the step record (top D(alpha_1, beta_1, 0), lower vertices D(alpha_1, beta_1, 0), alignment D(*get_euler_angle(M_ref M_k^-1))): densityG at the second axes = densityWith at the first. axes_independent_event_partial - the same for ONE event given, per chain, as the tree of final momenta in the input frame (calChainBoost), same total momentum and same final momenta by id for all chains: the id <-> decay-path tables are BUILT from the trees (fpathOf / vpathOf, correct for pairwise different ids), the routes and vertex steps are READ OFF the step record (routeOf / vtxOf), and hR (alignment elements in SU(2)) is PROVED from C02e.route_to_rest_of_cascade + C02d.alignR_isSU2; axes_independent_3body_partial - the 3-body decay group (Is3Body: resonance on either side; ResBB: back-to-back daughters of the resonance). Hypotheses of axes_independent_event_partial: the code's Guards of every chain at both choices of axes, back-to-back daughters at the top vertex and at the two level-2 vertices in the frames the code computes (hbb, SideBB), ChainOfTree incl. spinOK, pairwise different ids, decaying ids at decaying nodes, a chain that does not align f is the reference chain of f, lower-vertex D-functions = get_D_matrix_lambda(alpha_1, beta_1, 0) of the step record (hvD); decay trees of any depth, 2j <= 8; joint non-vacuity examples. axes_independent_event_guards_partial - hbb / SideBB DERIVED from momentum conservation in the input frame (rest_self: rest_vector(P, P) = (m, 0, 0, 0) on the code's boost branches; bb_of_sum: the daughters of R = a + b are back to back in rest_vector(R, .), rest_vector being linear; sideBB_of_guards), so the hypotheses on momenta are GUARDS only: Guards of every chain at both choices of axes, total momentum massive and |beta|^2 > 1e-14 or exactly at rest, |vect r| >= 1e-14 for a decaying daughter of the top particle. Missing for FULL, named: the boost clause density_boost_invariant (needs AmpR.density of chains built from the angle trees as the F of C01g.AxesIndependent) and the construction of the chain list (C01j.mkChain, hvD, reference convention) from a DecayGroup.",
    "note": "Executable Lean model of the amplitude tensor: templates/Amp.lean.in (general binary chains and spins; CG matrix, barrier factors, helicity couplings, D_matrix_conj + Dfun_delta_v2 gather, BWR/BW/one propagators, alignment D-functions, einsum over inner helicities, sum over chains, helicity-summed density; default decay options; identical-particle and cp terms, allow_cc), fed with the masses, |q|2, ang and aligned_angle of the real data dictionary and the parameter values of the real model objects (harness/c01_amp.py: 6 decay cards, spins 0..2, parity conserving and violating vertices, 2-3 interfering chains of different topology, 3- and 4-body, BWR/BW/one; agreement 1e-15, tolerance 1e-9 of the largest component). get_amp2 / get_amp3 / the allow_cc branch are in the model (groupAmp2, groupAmp3, density3, mkHrev) and compared on 4 more cards (harness/c01_amp.py correspond_amp3; exchanges of pairs only). Proved on the model since the last revision: unitary mixing of the FINAL-state indices through the alignment D-functions (Props/C01e; the reference chain of a particle, which has no alignment D-function, only with that particle unmixed), exchange invariance for one pair (Props/C01f), reduction to Spinless.helAmp (Props/C04c, with C04). Finding on the unchanged tree, not reported as a violation (3e-8 relative, below every tolerance of the property): a Python-float |q0|2 is rounded to float32 inside Bprime_q2 - fixes/C01-fix_q0_float64.diff (one line, baseline tests green), fixes/C01-repro_q0_float32.py; the model's rounding flag follows the observed behaviour of the real Bprime_q2. get_swap_factor: Model/Swap.lean, legacy and repaired variants, the harness observes which one the tree has. Wigner rotation (Props/C01g.lean, Proofs/LorentzSL.lean, templates/LorentzSL.lean.in): proved on the model of cal_chain_boost / cal_helicity_angle for every SL(2,C) element; tied to the code by harness/c01_wigner.py (every rest_p of the real cal_chain_boost on an event and on its image: p' = R p with the R the theorem predicts, 1e-9, measured 1e-12; restM vs the real rest_vector 2e-16; below-top angles and pulled-back-axes angles 1e-11). Base axes (Props/C01h.lean, Proofs/AxesInd.lean, Proofs/AxesIndVertex.lean): proved on the model — Euler-angle composition at the top vertex with one common SU(2) element for all chains, the resulting left/right multiplication of the top D-function, and that the next-level azimuths are lowered by the same gamma while nothing else below the top vertex depends on the base axes; tied to the code by harness/c01_axes.py (real cal_helicity_angle at two explicit random choices of base_z/base_x per event: top angles vs the Lean angle_zx_z_getx at the same axes, r' U r^-1 diagonal, level-2 azimuth shift = gamma, deeper angles equal, real D_matrix_conj composition with the real get_euler_angle of mirror(U) for 2j = 1..4; all 1e-9, measured 2e-15). Props/C01i.lean + Proofs/AxesIndB.lean (builder C01I): surjectivity SU(2) -> SO(3) for frames is PROVED (frame_change_exists, axes_pair_exists: FrameChange / AxesPair are no longer hypotheses; the *_any_axes theorems and density_axes_independent_any_axes_partial assume the code's guards and hB only), and the vertex-level half of hB is proved on SU(2) elements (DConj_of_element, vertex_phase_element, vertex_phase_other_sheet with the fermion sign (-1)^(2j), mkD_vertex_phase, mkD_top_gamma, top_and_vertex_phases_cancel); harness/c01_axes.py compares on every run the SU(2) element built as in frame_lift with an independent scipy lift (equal up to sign) and the REAL level-2 D_matrix_conj rows with (+-1)^(2j) exp(-i m gamma) times the rows at the first axes (2j = 1..4; both sheets occur and are counted). Further in Props/C01i.lean (Proofs/AxesIndBRoute, AxesIndBSteps, AxesIndBD, AxesIndBGauge, AxesIndBMkD): route_axes_change (the r_matrix relation that was validated only is now a theorem about the model's step record, any depth), the alignment D-function under a change of axes, and the assembly theorems on the executable amplitude model whose only open hypothesis is hcancel (the product of the proved row/column phases is one common unit-modulus number); Props/C01j.lean + Proofs/AxesIndCPair, AxesIndCPhase, AxesIndCGauge (builder C01J): hcancel is PROVED for chains with the index structure of a decay tree with spinOK (chain_phases_cancel; tree_phases_cancel / sign_rule by structural induction) and the assembly theorem model_density_axes_independent_tree_partial has hypotheses on SU(2) elements only; tied to the code on every run by harness/c01_axes.py - the REAL cal_helicity_angle at two explicit choices of axes gives Rotation_z(gamma_1) Rotation_z(gamma_2) = +1 (not only +-1; measured 3e-15), alpha_2 = alpha_1 - pi and beta_2 = pi - beta_1 at every vertex of every chain (8e-15), and the sign of r_matrix' U r_matrix^-1 of every deeper final particle equals the sheet (-1)^turns of the level-2 azimuth on its route (both sheets occur; 1e-15) - and by harness/c01_spin.py: every decay of every generated card satisfies spinOK, all chains of a group have the same finals, and the real HelicityDecay.get_ls_list() is empty for all spin triples with 2(j_a+j_b+j_c) odd (2j <= 4 quick / 6 thorough) and non-empty otherwise (p_break). Proved since the last revision (Props/C01k.lean): the simultaneous instantiation of the element hypotheses on the step record of the cascade model for chains of any depth (axes_independent_cascade_partial). Validated, not proved (= what is left of AxesIndependent): the construction of the AmpR chain list of a DecayGroup with the hypotheses of axes_independent_event_partial (ChainOfTree, hvD, reference convention), the boost clause for the real pipeline; i.e. what is left of the former link hB: the index structure of DecayChain.get_amp that turns the common lowering of the next-level azimuths by gamma_k, together with the change r_matrix' U = Rotation_z(gamma) r_matrix (direct daughters of the top) / +- r_matrix (deeper) of the alignment elements, into one common unitary on the final helicities — for half-integer spins including the 4 pi bookkeeping of gamma_k (fermion-number parity at every vertex). Both are checked on the real code on every run by harness/c01_axes.py: the r_matrix relation for every final particle of every chain, and the DENSITY of the real amplitude model evaluated through the library's own pipeline with cal_helicity_angle forced to two different explicit choices of base axes (agreement 2e-15). correspond = invariance of masses, |q|^2 and polar helicity angles of the real data dictionary; search = the metamorphic property on the real density. Events where an alignment beta of a spinning final particle is 0 or pi are compared with 1e-5 (acos noise of get_euler_angle). Known findings on the unchanged tree (reported through search with stable keys frame:<transformation>:<class>): identical_particles declared together with any spinning final particle (the exchanged pass uses other spin frames: O(1) frame dependence), three identical fermions (get_swap_factor is not the permutation sign), align_ref=center_mass with events not in the centre-of-mass frame (lab momenta used for the reference frames); patches fixes/fix_C01_alignment_reference.diff and fixes/fix_C01_swap_factor_permutation_sign.diff make all of them vanish.",
    "technique": "Lean 4 proof of the algebraic skeleton (Mathlib matrices over C, kernel-decided polynomial identities), of theorems about an executable model of the amplitude tensor tied to amp/core.py by a per-helicity-component differential check, and of SU(2)/SL(2,C) theorems about the model of cal_angle (Wigner rotation, change of base axes) tied to the code by differential checks at explicit transformations / base axes + metamorphic search on the implementation",
}
