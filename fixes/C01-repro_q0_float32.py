"""Demonstration for fixes/C01-fix_q0_float64.diff (run with /venv/bin/python; PYTHONPATH=<tree> selects the tf_pwa tree).

`Bprime_q2(L, q2, q02, d)` passes `q02` through `tf.cast(q02, q2.dtype)`.  When `q02` is a Python float (a decay whose
three particles all carry plain-float masses: top / final particles, `model: one`), `tf.cast` first makes a float32
tensor, so |q0|^2 is rounded to single precision (6e-8 relative) before it enters the Blatt-Weisskopf factor:

 1. the barrier factor is NOT one at q = q0 (C15: "barrier factors equal one at q = q0");
 2. `HelicityDecay.get_barrier_factor2` at |q|^2 = |q0|^2 is not q0^l, and the amplitude of every chain through such a
    decay is off by ~3e-8 relative (C04: absolute normalisation), while the same decay with a Variable mass is exact.

Exit status 1 when the deviation is present, 0 when not (after the fix).
"""
import sys

import numpy as np

if not hasattr(np, "Inf"):
    np.Inf = np.inf

import tensorflow as tf

from tf_pwa.breit_wigner import Bprime_q2
from tf_pwa.config_loader import ConfigLoader

bad = False
q02 = 0.7123456789012345  # not representable in float32
q2 = tf.constant([q02], dtype=tf.float64)
for L in (1, 2, 3, 4):
    b_float = float(Bprime_q2(L, q2, q02, 3.0)[0])
    b_tensor = float(Bprime_q2(L, q2, tf.constant(q02, dtype=tf.float64), 3.0)[0])
    print("L=%d  Bprime_q2(q2=q02, q02 as Python float) - 1 = % .3e    (q02 as float64 tensor: % .3e)" % (L, b_float - 1.0, b_tensor - 1.0))
    bad |= b_float != 1.0

cfg = {
    "data": {"dat_order": ["Bz", "Cz", "Dz"]},
    "decay": {"Az": [["Rz", "Dz"]], "Rz": ["Bz", "Cz"]},
    "particle": {"$top": {"Az": {"J": 0, "P": -1, "mass": 3.1}},
                 "$finals": {"Bz": {"J": 0, "P": -1, "mass": 0.4937}, "Cz": {"J": 0, "P": -1, "mass": 0.1396}, "Dz": {"J": 0, "P": -1, "mass": 0.5479}},
                 "Rz": {"J": 2, "P": 1, "mass": 1.4321, "width": 0.1, "model": "one"}},
}
config = ConfigLoader(cfg)
amp = config.get_amplitude()
dec = [d for d in amp.decay_group.chains[0] if str(d.core) == "Rz"][0]
data_p = {p: {"m": p.get_mass()} for p in [dec.core] + list(dec.outs)}
q0sq = dec.get_relative_momentum2(data_p, False)
print("decay %s: |q0|^2 = %r (%s)" % (dec, q0sq, type(q0sq).__name__))
bf = np.asarray(dec.get_barrier_factor2(tf.constant([1.4321], dtype=tf.float64), tf.constant([float(q0sq)], dtype=tf.float64), q0sq, dec.d))[0]
ls = dec.get_l_list()
for l, v in zip(ls, bf):
    want = float(q0sq) ** (l / 2)
    print("get_barrier_factor2 at |q|^2 = |q0|^2, l=%d: %.17g   q0^l = %.17g   rel. deviation % .3e" % (l, v, want, v / want - 1))
    bad |= abs(v / want - 1) > 1e-12
print("DEVIATION PRESENT" if bad else "no deviation")
sys.exit(1 if bad else 0)
