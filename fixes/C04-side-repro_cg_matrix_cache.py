import sys
sys.path.insert(0, "/verif/harness")
import common as C
C.setup_tf()
import numpy as np
from tf_pwa.config_loader import ConfigLoader
def cfg(order):
    return {"data": {"dat_order": ["B","C","D"]},
     "decay": {"A": [order], "R": ["B","C"]},
     "particle": {"$top": {"A": {"J":"1/2","P":1,"mass":5.6}},
       "$finals": {"B":{"J":"1/2","P":1,"mass":0.94},"C":{"J":0,"P":-1,"mass":0.5},"D":{"J":1,"P":-1,"mass":3.1}},
       "R":{"J":"1/2","P":-1,"mass":1.6,"width":0.1}}}
def first_decay_matrix(order):
    config = ConfigLoader(cfg(order))
    amp = config.get_amplitude()
    for ch in amp.decay_group:
        for d in ch:
            if str(d.core) == "A":
                return d, np.array(d.get_cg_matrix())
import tf_pwa.amp.core as core
d2, m2_fresh = first_decay_matrix(["D","R"])
core.HelicityDecay._get_cg_matrix.cache_clear()
d1, m1 = first_decay_matrix(["R","D"])
d2, m2_stale = first_decay_matrix(["D","R"])
print("fresh process  [D,R]:", m2_fresh.shape)
print("after [R,D]    [D,R]:", m2_stale.shape, "n_helicity_inner =", d2.n_helicity_inner())
want = m2_fresh
got = m2_stale.reshape(m2_fresh.shape)   # what get_helicity_amp does
print("max |H(stale, reshaped) - H(fresh)| =", np.abs(got-want).max())
