import TfPwaV.Props.C14
import TfPwaV.Proofs.TopologyEnum
/-!
# C14b — the chain-level statements of C14 for EVERY number of final particles

`Props/C14.lean` proves count / binary tree / pairwise different grouping sets for every n on the GRAPH states of
`from_particles`, and kernel-evaluates the chain level (`get_decay_chain` → `DecayChain` → `sorted_table` →
`topology_id`) for n ≤ 5. Here the chain level is proved for every n ≥ 2 by induction:

* `getDecayChain_rep` (Proofs/TopologyGraphChain): `get_decay_chain` on ANY edge list that is a permutation of the
  edges of a binary tree hanging under `top` returns the chain that consists of exactly the decays of that tree;
* `sortedTable_rep` (Proofs/TopologyChain): the `while chain:` loop of `sorted_table` terminates on ANY such chain
  (any order of decays / daughters) and returns for every vertex the sorted list of the finals below it;
* `fromParticles_denotes` (Proofs/TopologyEnum): induction over the insertion sequence of `from_particles`.

The only hypothesis beyond "finals pairwise different, top not a final" is that the generated inner particles
`chain{i}_node_{k}` are new (`NamesOK`): the Python code silently needs the same (a final particle literally
called `chain0_node_0` breaks `from_particles`).
-/
namespace TfPwaV.C14
open TfPwaV.Topology

/-- the trees of the enumeration, in the order of the list returned by `from_particles` -/
def enumTrees {α : Type} [DecidableEq α] (top : α) : List α → List (Tr α)
  | [] => []
  | f :: fs => (enumGT top (baseGraph top f) (Tr.leaf f) fs).map Prod.snd

/-- ★ EVERY n: the (2n-3)!! enumerated trees have exactly the given finals as leaves and pairwise different sets
of final-state groupings (repackaging of `enumeration_pairwise_distinct` on `enumTrees`). -/
theorem enumTrees_spec {α : Type} [DecidableEq α] (top : α) (finals : List α) (h1 : 1 ≤ finals.length)
    (hnd : finals.Nodup) :
    (enumTrees top finals).length = dfact (2 * finals.length - 3) ∧
    (∀ T ∈ enumTrees top finals, T.leaves.Perm finals) ∧
    (enumTrees top finals).Pairwise (fun a b => ¬ a.SameTopo b) := by
  cases finals with
  | nil => simp at h1
  | cons f fs =>
    have hf := List.nodup_cons.1 hnd
    have inv : EnumInv top (baseGraph top f) (Tr.leaf f) fs := by
      refine ⟨?_, ?_, ?_, hf.2, ?_, ?_⟩
      · simp [baseGraph, Graph.addEdge, Graph.empty, Tr.hang, Tr.edges, Tr.root]
      · simp [Tr.leaves]
      · intro x hx hm
        simp only [Tr.leaves, List.mem_singleton] at hm
        subst hm; exact hf.1 hx
      · simp [Tr.labels]
      · simp [Tr.labels]
    refine ⟨?_, ?_, ?_⟩
    · simp only [enumTrees, List.length_map]
      rw [← count_double_factorial top f fs, ← enumGT_fst top fs (baseGraph top f) (Tr.leaf f), List.length_map]
    · intro T hT
      simp only [enumTrees, List.mem_map] at hT
      obtain ⟨gt, hgt, rfl⟩ := hT
      simpa [Tr.leaves] using (enumGT_inv top fs _ _ inv gt hgt).2
    · simp only [enumTrees]
      rw [List.pairwise_map]
      exact enumGT_pairwise top fs _ _ inv

example : ([1, 2, 3] : List Nat).Nodup ∧ 1 ≤ ([1, 2, 3] : List Nat).length := by decide

/-- ★ The link graph → chain → `sorted_table` → `topology_id` for EVERY n ≥ 2 (`linkSpec n` of Props/C14.lean without
the bound, any particle type, either `identical` flag): `from_particles` returns; the i-th chain consists of exactly
the decays of the i-th enumerated tree (root merged into `top`, inner vertices `chain{i}_node_{k}`); its
`sorted_table` exists and has one entry (vertex, sorted finals below it) per vertex of that tree; and its
`topology_id` is the sorted list of the (sorted, key-mapped) leaf groupings of that tree. -/
theorem topology_id_link {α κ : Type} [DecidableEq α] [LT α] [DecidableLT α] [DecidableEq κ] [LT κ]
    [DecidableLT κ] (hα : LinLt α) (hκ : LinLt κ) (key : α → κ) (mk : Nat → Nat → α) (top : α)
    (finals : List α) (h2 : 2 ≤ finals.length) (hn : NamesOK mk top finals) :
    ∃ cs, fromParticles mk top finals = some cs ∧ cs.length = (enumTrees top finals).length ∧
      ∀ j (h1 : j < cs.length) (h2 : j < (enumTrees top finals).length),
        Denotes (mk j) top (enumTrees top finals)[j] cs[j] ∧
        (∃ t, sortedTable cs[j] = some t ∧ t.keys.Nodup ∧
          t.Perm ((((enumTrees top finals)[j]).chainTree (mk j) top).subs.map fun s => (s.name, isort s.leaves))) ∧
        topologyId key cs[j] = some (isort ((enumTrees top finals)[j].groups.map fun g => (isort g).map key)) := by
  cases finals with
  | nil => simp at h2
  | cons f fs =>
    have hfs : fs ≠ [] := by intro e; subst e; simp at h2
    obtain ⟨cs, hcs, hlen, hden⟩ := fromParticles_denotes mk top f fs hfs hn
    refine ⟨cs, hcs, by simpa [enumTrees, baseGraph] using hlen, ?_⟩
    intro j hj1 hj2
    have hj2' : j < (enumGT top (Graph.empty.addEdge (.p top) (.p f)) (Tr.leaf f) fs).length := by
      simpa [enumTrees, baseGraph] using hj2
    have hd := hden j hj1 hj2'
    have e : (enumTrees top (f :: fs))[j] = (enumGT top (Graph.empty.addEdge (.p top) (.p f)) (Tr.leaf f) fs)[j].2 := by
      simp [enumTrees, baseGraph]
    rw [e]
    exact ⟨hd, hd.table hα, hd.topologyId hα hκ key⟩

/-- ★ The chain-level statement of C14 for EVERY n ≥ 2, every particle type with a linear order, every top and
pairwise different finals (this is the FULL statement documented at `enum_le4_partial`, except the
`from_sorted_table` round trip): `from_particles` returns (2n-3)!! chains; each chain is a binary tree rooted at
`top` with leaf set = finals (`IsTreeChain`: two daughters per decay, no second mother, no second decay, single
top, `sorted_table` exists and is the bottom-up table of the tree); the `topology_id`s (identical=False) of the
chains are pairwise different, so no two chains are reported as the same topology. The round trip is
`enum_roundtrip_all_n` in Props/C14c.lean. -/
theorem enum_all_n {α : Type} [DecidableEq α] [LT α] [DecidableLT α] (hα : LinLt α) (mk : Nat → Nat → α)
    (top : α) (finals : List α) (h2 : 2 ≤ finals.length) (hn : NamesOK mk top finals) :
    ∃ cs, fromParticles mk top finals = some cs ∧ cs.length = dfact (2 * finals.length - 3)
      ∧ (∀ c ∈ cs, IsTreeChain top finals c)
      ∧ (cs.map (topologyId (fun x : α => x))).Nodup
      ∧ cs.Pairwise (fun a b => topologySame (fun x : α => x) a b ≠ some true) := by
  obtain ⟨cs, hcs, hlen, hlink⟩ := topology_id_link hα hα (fun x : α => x) mk top finals h2 hn
  obtain ⟨tlen, tleaves, tpw⟩ := enumTrees_spec top finals (by omega) hn.nodup
  have hnd : (cs.map (topologyId (fun x : α => x))).Nodup := by
    rw [List.Nodup, List.pairwise_map, List.pairwise_iff_getElem]
    intro i j hi hj hij heq
    have hi' : i < (enumTrees top finals).length := hlen ▸ hi
    have hj' : j < (enumTrees top finals).length := hlen ▸ hj
    rw [(hlink i hi hi').2.2, (hlink j hj hj').2.2, Option.some.injEq] at heq
    have := (List.pairwise_iff_getElem.1 tpw) i j hi' hj' hij
    exact this (sameTopo_of_ids_eq hα _ _ heq)
  refine ⟨cs, hcs, hlen.trans tlen, ?_, hnd, ?_⟩
  · intro c hc
    obtain ⟨j, hj, rfl⟩ := List.mem_iff_getElem.1 hc
    have hj' : j < (enumTrees top finals).length := hlen ▸ hj
    exact (hlink j hj hj').1.treeChain hα finals (tleaves _ (List.getElem_mem hj'))
  · have := List.pairwise_map.1 hnd
    refine List.Pairwise.imp ?_ this
    intro a b hab hs
    apply hab
    obtain ⟨x, h1, h2⟩ := (sameB_iff (fun x : α => x) a b).1 (by simp [sameB, hs])
    rw [h1, h2]

/-! ## the Nat labelling of Props/C14.lean (top = 0, finals = 1..n, `chain{i}_node_{k}` = 1000 (i+1) + k) -/

theorem finalsN_mem (n x : Nat) : x ∈ finalsN n ↔ 1 ≤ x ∧ x ≤ n := by
  simp only [finalsN, List.mem_map, List.mem_range]
  constructor
  · rintro ⟨a, ha, rfl⟩; omega
  · intro h; exact ⟨x - 1, by omega, by omega⟩

/-- the inner labels 1000 (i+1) + k do not collide with the finals 1..n as long as n < 1000 -/
theorem namesOK_nat (n : Nat) (hn : n < 1000) : NamesOK natMk 0 (finalsN n) := by
  refine ⟨?_, ?_, ?_, ?_, ?_⟩
  · intro i k k' h; simp only [natMk] at h; omega
  · intro i k; simp only [natMk]; omega
  · intro i k h; rw [finalsN_mem] at h; simp only [natMk] at h; omega
  · intro h; rw [finalsN_mem] at h; omega
  · simp only [finalsN]
    apply nodup_map_of_inj_on _ _ List.nodup_range
    intro x _ y _ h; omega

theorem nodup_allDistinct {β : Type} [DecidableEq β] (l : List β) (h : l.Nodup) : allDistinct l = true := by
  induction l with
  | nil => rfl
  | cons a l ih =>
    rw [List.nodup_cons] at h
    simp only [allDistinct, Bool.and_eq_true, Bool.not_eq_true', List.contains_eq_mem, decide_eq_false_iff_not]
    exact ⟨h.1, ih h.2⟩

/-- `IsTreeChain` implies the Boolean `isBinaryTree` that the kernel evaluates for n ≤ 5 in Props/C14.lean -/
theorem isBinaryTree_of_isTreeChain (top : Nat) (finals : List Nat) (c : Chain Nat) (hf : finals.Nodup)
    (h : IsTreeChain top finals c) : isBinaryTree top finals c = true := by
  obtain ⟨t, ht, _, hlen, htop, hfin, hdec⟩ := h.table
  simp only [isBinaryTree, ht, Bool.and_eq_true, List.all_eq_true, beq_iff_eq]
  refine ⟨⟨⟨⟨h.two, nodup_allDistinct _ h.coresNodup⟩, nodup_allDistinct _ h.outsNodup⟩, h.topIs⟩,
    ⟨⟨⟨⟨by omega, htop⟩, nodup_allDistinct _ ((isort_perm finals).nodup_iff.2 hf)⟩, hfin⟩, hdec⟩⟩

/-- ★ `enum_le4_partial` of Props/C14.lean without the bound 4 (5 with C14N5), in its own Boolean vocabulary: for
EVERY 2 ≤ n < 1000 (the Nat labelling 1000 (i+1) + k of the inner particles collides with the finals for larger n —
`enum_all_n` has no such bound) `from_particles` returns (2n-3)!! chains, each `isBinaryTree`, with pairwise
different `topology_id`. The `from_sorted_table` round trip for every n is `enum_nat_roundtrip_all_n` /
`enum_roundtrip_all_n` of Props/C14c.lean (`enum_le4_partial`, `enum_5_partial` remain as kernel-evaluated instances). -/
theorem enum_nat_all_n (n : Nat) (h2 : 2 ≤ n) (h3 : n < 1000) :
    ∃ cs, fromParticles natMk 0 (finalsN n) = some cs ∧ cs.length = dfact (2 * n - 3)
      ∧ (∀ c ∈ cs, isBinaryTree 0 (finalsN n) c = true)
      ∧ (cs.map (topologyId (fun x : Nat => x))).Nodup
      ∧ cs.Pairwise (fun a b => topologySame (fun x : Nat => x) a b ≠ some true) := by
  have hlen : (finalsN n).length = n := by simp [finalsN]
  have hn := namesOK_nat n h3
  obtain ⟨cs, h1, hl, ht, hd, hp⟩ := enum_all_n LinLt.nat natMk 0 (finalsN n) (by omega) hn
  exact ⟨cs, h1, by rw [hl, hlen], fun c hc => isBinaryTree_of_isTreeChain 0 _ c hn.nodup (ht c hc), hd, hp⟩

-- non-vacuity of the hypotheses: the Nat labelling satisfies `NamesOK` with a linear order, n = 3
example : NamesOK natMk 0 (finalsN 3) ∧ 2 ≤ (finalsN 3).length := ⟨namesOK_nat 3 (by omega), by decide⟩

/-! ## topology classes after standardisation; `get_chains_map` after fix 41067a5 -/

theorem mapM_filter_length {β : Type} (f : β → Option β) (P : β → Bool) (l l' : List β)
    (h : l.mapM f = some l') (hp : ∀ r ∈ l, ∀ r', f r = some r' → P r' = P r) :
    (l'.filter P).length = (l.filter P).length := by
  induction l generalizing l' with
  | nil => simp at h; subst h; rfl
  | cons a l ih =>
    simp only [List.mapM_cons, Option.pure_def, Option.bind_eq_bind, Option.bind_eq_some_iff,
      Option.some.injEq] at h
    obtain ⟨b, hb, bs, hbs, rfl⟩ := h
    have h1 := hp a List.mem_cons_self b hb
    have h2 := ih bs hbs (fun r hr => hp r (List.mem_cons_of_mem _ hr))
    simp only [List.filter_cons, h1]
    split <;> simp [h2]

/-- ★ For EVERY list of chains whose tables exist, either flag (`key` = name covers `identical=True` with
repeated names: groupings are lists, compared as multisets) and EVERY renaming `std` of the representatives that
keeps their `topology_id` (what `standard_topology` is meant to do): every chain of the group has the same topology
as EXACTLY ONE of the renamed representatives. -/
theorem standardised_classes_partition {α κ : Type} [DecidableEq α] [DecidableEq κ] [LT α] [DecidableLT α]
    [LT κ] [DecidableLT κ] (key : α → κ) (std : Chain α → Option (Chain α)) (chains reps' : List (Chain α))
    (hdef : ∀ c ∈ chains, (topologyId key c).isSome)
    (hstd : (topologyReps key chains).mapM std = some reps')
    (hpres : ∀ r ∈ topologyReps key chains, ∀ r', std r = some r' → topologyId key r' = topologyId key r) :
    ∀ c ∈ chains, (reps'.filter fun s => topologySame key s c == some true).length = 1 := by
  intro c hc
  rw [mapM_filter_length std _ _ _ hstd]
  · have := (classes_partition key chains hdef).2.2 c hc
    rw [← this]
    congr 1
    apply List.filter_congr
    intro r _
    have := sameB_symm key r c
    simpa [sameB] using this
  · intro r hr r' hr'
    simp only [topologySame, hpres r hr r' hr']

-- non-vacuity: two chains with identical-particle labels 11, 12 (`pi:1`, `pi:2`), `std` reverses the decay list
example :
    let cs : List (Chain Nat) := [[⟨0, [30, 11]⟩, ⟨30, [12, 20]⟩], [⟨0, [30, 12]⟩, ⟨30, [11, 20]⟩]]
    (cs.all fun c => (topologyId (fun x : Nat => x) c).isSome) = true
    ∧ ((topologyReps (fun x : Nat => x) cs).mapM fun c => some c.reverse).isSome = true
    ∧ ((topologyReps (fun x : Nat => x) cs).all fun r =>
        decide (topologyId (fun x : Nat => x) r.reverse = topologyId (fun x : Nat => x) r)) = true := by
  decide +kernel

/-- ★ `get_chains_map` after fix 41067a5 (classes AND assignment with `identical=False`; model `chainsMap false`,
whose class `k` lists exactly the chains `j` with `reps'[k].topology_same(j, identical=False)`, `reps'` =
`topology_structure()` = the standardised representatives): for EVERY decay group whose tables exist, every chain
of the group is assigned to EXACTLY ONE class — also when final particles share a name (`pi:1`, `pi:2`), because
both steps use the particle itself as key (for the mixture of keys before the fix see the counterexample in
Props/C14.lean §4). Hypothesis `hpres`: `standard_topology` (which renames the inner particles to "(B, C)"-style
names) does not change the `topology_id(identical=False)` of a representative; this is string formatting/parsing
of particle names, not evaluable in the kernel, and is validated by correspondence (ops `std`, `tid 0`, `cmap 0`). -/
theorem chainsMap_classes_partition (chains reps' : List (Chain Pt))
    (hdef : ∀ c ∈ chains, (topologyId (fun p : Pt => p) c).isSome)
    (hstd : topologyStructure false true chains = some reps')
    (hpres : ∀ r ∈ topologyReps (fun p : Pt => p) chains, ∀ r', standardTopology r = some r' →
      topologyId (fun p : Pt => p) r' = topologyId (fun p : Pt => p) r) :
    ∀ c ∈ chains, (reps'.filter fun s => topologySame (fun p : Pt => p) s c == some true).length = 1 := by
  simp only [topologyStructure, Bool.false_eq_true, if_false, if_true] at hstd
  exact standardised_classes_partition (fun p : Pt => p) standardTopology chains reps' hdef hstd hpres

-- non-vacuity of `hdef` on the group of the fixed finding (pi:1, pi:2); `hstd`/`hpres` involve `String` parsing
-- that the kernel cannot evaluate (see `standardised_classes_partition` for a fully evaluated instance)
example : ([[⟨⟨"A", 0⟩, [⟨"R", 0⟩, ⟨"pi", 1⟩]⟩, ⟨⟨"R", 0⟩, [⟨"pi", 2⟩, ⟨"K", 0⟩]⟩],
    [⟨⟨"A", 0⟩, [⟨"R", 0⟩, ⟨"pi", 2⟩]⟩, ⟨⟨"R", 0⟩, [⟨"pi", 1⟩, ⟨"K", 0⟩]⟩]] : List (Chain Pt)).all
      (fun c => (topologyId (fun p : Pt => p) c).isSome) = true := by decide +kernel

end TfPwaV.C14
