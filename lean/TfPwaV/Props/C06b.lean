import TfPwaV.Proofs.NLLRes
import TfPwaV.Props.C06
/-!
# C06b — the remaining likelihood code paths

Theorems over ℝ about the extensions of `templates/NLL.lean.in` (same text runs as Float against the code):
`resolution_size = r > 1`, the clip region of `clip_log`, `MixLogLikehoodFCN`, the `constr_frac` /
`cfit_constr_frac` models, the legacy `inject_mc` model, Gaussian-constraint terms as an additive part of what
`FCN` reports.  All statements quantify over **all** lists (sample sizes, weights of either sign, zeros) and all
batch sizes named in them.
-/
open TfPwaV.ScalarR
namespace TfPwaV.C06b
open TfPwaV.NLLR

/-! ## (4) the clip region: what `FCN.__call__` returns for ANY densities -/

/-- the value `clip_log` takes: `ln x` above ε, the quadratic continuation at and below ε -/
noncomputable def clipValue (x : ℝ) : ℝ :=
  if eps < x then Real.log x else Real.log eps + (x - eps) / eps - ((x - eps) / eps) ^ 2 / 2

theorem clipLog_eq_clipValue (x : ℝ) : clipLog x = clipValue x := by
  unfold clipValue
  by_cases h : eps < x
  · rw [if_pos h, clipLog_above x h]
  · rw [if_neg h, clipLog_below x (not_lt.mp h)]; unfold clipPoly NLLR.sq; ring

/-- ★ `FCN.__call__` for `Model` (extended or not) with NO hypothesis on the densities:
`-α[Σ Wᵢ·c(fᵢ) − (ΣW)·int_f(I)] + constraints`, where `c(f) = ln f` for `f > ε` and
`c(f) = ln ε + (f−ε)/ε − ((f−ε)/ε)²/2` for `f ≤ ε` (zero and negative densities included).
This is the exact statement of what is returned in the clip region; `C06.fcn_call_formula` is its restriction
to `fᵢ > ε`. -/
theorem nll_formula_clipped (ext : Bool) (w bgw f v g : List ℝ) (cs : List (ℝ × ℝ × ℝ))
    (hlen : f.length = (w ++ bgw).length) (hlen' : g.length = v.length)
    (hW : lsum (w ++ bgw) ≠ 0) (hV : lsum v ≠ 0) :
    fcnCall ext w bgw f v g cs =
      -(alphaOf (w ++ bgw)) *
        (lsum (((w ++ bgw).zip f).map fun p => p.1 * clipValue p.2)
          - lsum (w ++ bgw) * intF ext (dotp (v.zip g) / lsum v))
      + gaussConstr cs := by
  set W := w ++ bgw with hWdef
  set D := W.zip f with hD
  have wD : weights D = W := weights_zip W f hlen
  have wM : weights (v.zip g) = v := weights_zip v g hlen'
  have hDW : lsum (weights D) ≠ 0 := by rw [wD]; exact hW
  have hα : alphaOf (scaleW W) = 1 := alphaOf_scaleW W hW
  unfold fcnCall fcnData fcnMc getWeightData modelNll
  rw [← hWdef, zip_scaleW, ← hD, zip_normMc v g hlen']
  have e1 : alphaOf W = alphaOf (weights D) := by rw [wD]
  rw [e1, reweight_scaleEv D hDW]
  unfold baseNll
  simp only []
  rw [batchSum_eq_plain, weights_scaleEv_alpha, wD]
  have hα' : lsum (scaleW W) / lsum ((scaleW W).map NLLR.sq) = 1 := hα
  rw [hα', dotp_normMcEv, lsum_weights_normMcEv _ (by rw [wM]; exact hV), wM, plainSum_scaleEv]
  have e3 : lsum (scaleW W) = alphaOf W * lsum W := by
    have := lsum_weights_scaleEv (alphaOf W) D
    rw [weights_scaleEv, wD] at this
    exact this
  have e4 : plainSum clipLog D = lsum (D.map fun p => p.1 * clipValue p.2) := by
    unfold plainSum
    exact lsum_map_congr _ _ D (fun p _ => by rw [clipLog_eq_clipValue])
  rw [e3, e4, div_one]
  ring

-- non-vacuity: one event above ε, one at 0 (inside the clip region), one background event
example : ([3, 0, 1] : List ℝ).length = (([1, 1] : List ℝ) ++ [-0.5]).length ∧ lsum (([1, 1] : List ℝ) ++ [-0.5]) ≠ 0
    ∧ lsum ([1, 1] : List ℝ) ≠ 0 ∧ clipValue 0 = Real.log eps - 1 - 1 / 2 := by
  refine ⟨rfl, by norm_num [lsum], by norm_num [lsum], ?_⟩
  have he : eps ≠ 0 := ne_of_gt eps_pos
  unfold clipValue
  rw [if_neg (not_lt.mpr (le_of_lt eps_pos))]
  field_simp
  ring

/-- in particular: an event with density `f ≤ ε` contributes `W·(ln ε + (f−ε)/ε − ((f−ε)/ε)²/2)` -/
theorem clipValue_below (x : ℝ) (h : x ≤ eps) :
    clipValue x = Real.log eps + (x - eps) / eps - ((x - eps) / eps) ^ 2 / 2 := by
  unfold clipValue; rw [if_neg (not_lt.mpr h)]

theorem clipValue_above (x : ℝ) (h : eps < x) : clipValue x = Real.log x := by
  unfold clipValue; rw [if_pos h]

/-! ## (1) `resolution_size = r` -/

/-- ★ the three reported values agree for `resolution_size = r`, every batch size that is a multiple `k·r`
of the group (the code asserts that), every sample size (no divisibility needed for the last batch),
all weights, extended or not, densities in the clip region included. -/
theorem fcn_value_paths_agree_resolution (ext : Bool) (r k : ℕ) (hr : 0 < r) (hk : 0 < k)
    (w bgw f v g : List ℝ) (cs : List (ℝ × ℝ × ℝ))
    (hlen : f.length = (w ++ bgw).length) (hlen' : g.length = v.length)
    (hW : lsum (w ++ bgw) ≠ 0) (hV : lsum v ≠ 0) :
    fcnNllGradRes ext r (k * r) w bgw f v g cs = fcnCallRes ext r w bgw f v g cs
      ∧ fcnNllGradHessianRes ext r (k * r) w bgw f v g cs = fcnCallRes ext r w bgw f v g cs := by
  have wD : weights ((w ++ bgw).zip f) = w ++ bgw := weights_zip _ f hlen
  have wM : weights (v.zip g) = v := weights_zip v g hlen'
  have key := res_paths_core ext r k hr hk ((w ++ bgw).zip f) (v.zip g) (by rw [wD]; exact hW) (by rw [wM]; exact hV)
  simp only [wD] at key
  unfold fcnNllGradRes fcnNllGradHessianRes fcnCallRes fcnDataRes fcnMc getWeightDataRes
  rw [zip_scaleWRes, zip_normMc v g hlen']
  obtain ⟨k1, k2, k3⟩ := key
  constructor
  · rw [k2, k1]
  · rw [k3, k1]

example : (0 : ℕ) < 3 ∧ lsum (([1, 1, 1, 2, 2, 2] : List ℝ) ++ [-0.5, -0.5, -0.5]) ≠ 0 := by
  refine ⟨by decide, by norm_num [lsum]⟩

/-- ★ batch invariance for batches that are multiples of the group: any two partitions of the same sample into
batches whose lengths are multiples of `r` give the same gradient-path value. -/
theorem nll_grad_batch_invariant_resolution (ext : Bool) (r : ℕ) (hr : 0 < r) (bs bs' mbs mbs' : List (List (ℝ × ℝ)))
    (hb : ∀ b ∈ bs, r ∣ b.length) (hb' : ∀ b ∈ bs', r ∣ b.length)
    (h : bs.flatten = bs'.flatten) (hm : mbs.flatten = mbs'.flatten) :
    modelNllGradBatchRes ext r bs mbs = modelNllGradBatchRes ext r bs' mbs' := by
  unfold modelNllGradBatchRes
  rw [sumBatchesRes_flatten clipLog r hr bs hb, sumBatchesRes_flatten clipLog r hr bs' hb', sumBatches_flatten,
    sumBatches_flatten kid mbs', sumW_flatten, sumW_flatten bs', h, hm]

-- non-vacuity: r = 2, a sample of two smeared events cut as [2 | 2] and as [4]
example : (∀ b ∈ ([[(1, 2), (1, 3)], [(1, 4), (1, 5)]] : List (List (ℝ × ℝ))), 2 ∣ b.length)
    ∧ (∀ b ∈ ([[(1, 2), (1, 3), (1, 4), (1, 5)]] : List (List (ℝ × ℝ))), 2 ∣ b.length)
    ∧ ([[(1, 2), (1, 3)], [(1, 4), (1, 5)]] : List (List (ℝ × ℝ))).flatten
        = ([[(1, 2), (1, 3), (1, 4), (1, 5)]] : List (List (ℝ × ℝ))).flatten := by
  refine ⟨?_, ?_, by simp⟩ <;> intro b hb <;> simp only [List.mem_cons, List.not_mem_nil, or_false] at hb
  · rcases hb with h | h <;> subst h <;> decide
  · subst hb; decide

/-- ★ `FCN.__call__` with `resolution_size = r` (smeared copies `k = 1..r` of event `G`, per-copy weights `w_Gk`):
`-α_r [ Σ_G W_G · ln( Σ_k w_Gk f_Gk / W_G ) − (ΣW) · int_f(I) ] + constraints`, `W_G = Σ_k w_Gk`,
`α_r = Σ_G W_G / Σ_G W_G²`, for every event whose weighted mean density is above ε (events with `W_G = 0`
contribute 0 whatever their densities). -/
theorem nll_formula_resolution (ext : Bool) (r : ℕ) (hr : 0 < r) (w bgw f v g : List ℝ) (cs : List (ℝ × ℝ × ℝ))
    (hlen : f.length = (w ++ bgw).length) (hlen' : g.length = v.length)
    (hW : lsum (w ++ bgw) ≠ 0) (hV : lsum v ≠ 0)
    (hf : ∀ G ∈ chunk r ((w ++ bgw).zip f), lsum (weights G) ≠ 0 → eps < dotp G / lsum (weights G)) :
    fcnCallRes ext r w bgw f v g cs =
      -(alphaRes r (w ++ bgw)) *
        (lsum ((chunk r ((w ++ bgw).zip f)).map fun G => lsum (weights G) * Real.log (dotp G / lsum (weights G)))
          - lsum (w ++ bgw) * intF ext (dotp (v.zip g) / lsum v))
      + gaussConstr cs := by
  have wD : weights ((w ++ bgw).zip f) = w ++ bgw := weights_zip _ f hlen
  have wM : weights (v.zip g) = v := weights_zip v g hlen'
  have key := (res_paths_core ext r 1 hr Nat.one_pos ((w ++ bgw).zip f) (v.zip g) (by rw [wD]; exact hW)
    (by rw [wM]; exact hV)).1
  simp only [wD] at key
  have ha : alphaRes r (w ++ bgw) ≠ 0 := alphaRes_ne_zero r hr _ hW
  unfold fcnCallRes fcnDataRes fcnMc getWeightDataRes
  rw [zip_scaleWRes, zip_normMc v g hlen', key, batchSumRes_scaleEv clipLog r _ ha, batchSumRes_clean,
    lsum_weights_scaleEv, wD, dotp_normMcEv, wM]
  have e : lsum ((chunk r ((w ++ bgw).zip f)).map (cleanTerm clipLog))
      = lsum ((chunk r ((w ++ bgw).zip f)).map fun G => lsum (weights G) * Real.log (dotp G / lsum (weights G))) := by
    apply lsum_map_congr
    intro G hG
    unfold cleanTerm
    by_cases h0 : lsum (weights G) = 0
    · rw [h0]; simp
    · rw [clipLog_above _ (hf G hG h0)]
  rw [e]
  ring

/-- … and without any hypothesis on the densities (clip region included): the same with `clipValue`. -/
theorem nll_formula_resolution_clipped (ext : Bool) (r : ℕ) (hr : 0 < r) (w bgw f v g : List ℝ) (cs : List (ℝ × ℝ × ℝ))
    (hlen : f.length = (w ++ bgw).length) (hlen' : g.length = v.length)
    (hW : lsum (w ++ bgw) ≠ 0) (hV : lsum v ≠ 0) :
    fcnCallRes ext r w bgw f v g cs =
      -(alphaRes r (w ++ bgw)) *
        (lsum ((chunk r ((w ++ bgw).zip f)).map fun G => lsum (weights G) * clipValue (dotp G / lsum (weights G)))
          - lsum (w ++ bgw) * intF ext (dotp (v.zip g) / lsum v))
      + gaussConstr cs := by
  have wD : weights ((w ++ bgw).zip f) = w ++ bgw := weights_zip _ f hlen
  have wM : weights (v.zip g) = v := weights_zip v g hlen'
  have key := (res_paths_core ext r 1 hr Nat.one_pos ((w ++ bgw).zip f) (v.zip g) (by rw [wD]; exact hW)
    (by rw [wM]; exact hV)).1
  simp only [wD] at key
  have ha : alphaRes r (w ++ bgw) ≠ 0 := alphaRes_ne_zero r hr _ hW
  unfold fcnCallRes fcnDataRes fcnMc getWeightDataRes
  rw [zip_scaleWRes, zip_normMc v g hlen', key, batchSumRes_scaleEv clipLog r _ ha, batchSumRes_clean,
    lsum_weights_scaleEv, wD, dotp_normMcEv, wM]
  have e : lsum ((chunk r ((w ++ bgw).zip f)).map (cleanTerm clipLog))
      = lsum ((chunk r ((w ++ bgw).zip f)).map fun G => lsum (weights G) * clipValue (dotp G / lsum (weights G))) := by
    apply lsum_map_congr
    intro G _
    unfold cleanTerm
    rw [clipLog_eq_clipValue]
  rw [e]
  ring

-- non-vacuity of `nll_formula_resolution`: r = 2, two smeared events, mean densities 2.5 and 4.5
example : ∀ G ∈ chunk 2 (([1, 1, 1, 1] : List ℝ).zip ([2, 3, 4, 5] : List ℝ)), lsum (weights G) ≠ 0 → eps < dotp G / lsum (weights G) := by
  have hc : chunk 2 (([1, 1, 1, 1] : List ℝ).zip ([2, 3, 4, 5] : List ℝ)) = [[(1, 2), (1, 3)], [(1, 4), (1, 5)]] := by
    simp [chunk, chunkAux]
  intro G hG _
  rw [hc] at hG
  simp only [List.mem_cons, List.not_mem_nil, or_false] at hG
  rcases hG with h | h <;> subst h <;> norm_num [eps, dotp, lsum, weights]

/-- per-event α is idempotent (the code applies it in `FCN.__init__`, again in `Model.nll` and a third time in
`BaseModel.nll_grad_hessian`) -/
theorem alpha_resolution_idempotent (r : ℕ) (hr : 0 < r) (w : List ℝ) (h : lsum w ≠ 0) :
    alphaRes r (scaleWRes r w) = 1 := alphaRes_scaleWRes r hr w h

/-! ## (2) `MixLogLikehoodFCN` -/

/-- ★ `MixLogLikehoodFCN.nll_grad` value = the sum over the data sets of the per-set gradient-path values
(what `CombineFCN` reports), for every number of data sets, every batch size `k·r`, data sets whose lengths are
multiples of the group size `r` (each data set may be extended or not). -/
theorem mix_eq_combine (r k : ℕ) (hr : 0 < r) (hk : 0 < k) (parts : List (Bool × List (ℝ × ℝ) × List (ℝ × ℝ)))
    (hlen : ∀ p ∈ parts, r ∣ p.2.1.length) :
    mixNllGrad r (k * r) parts =
      lsum (parts.map fun p => modelNllGradBatchRes p.1 r (chunk (k * r) p.2.1) (chunk (k * r) p.2.2)) := by
  have hn : 0 < k * r := Nat.mul_pos hk hr
  unfold mixNllGrad
  rw [sumBatchesRes_chunk clipLog r k hr hk _ _ le_rfl]
  have hdata : batchSumRes clipLog r (parts.map fun p => p.2.1).flatten
      = lsum (parts.map fun p => batchSumRes clipLog r p.2.1) := by
    have := sumBatchesRes_flatten clipLog r hr (parts.map fun p => p.2.1) (by
      intro b hb
      obtain ⟨p, hp, rfl⟩ := List.mem_map.mp hb
      exact hlen p hp)
    rw [← this]
    unfold sumBatchesRes
    rw [List.map_map]
    rfl
  have hsum : ∀ ps : List (Bool × List (ℝ × ℝ) × List (ℝ × ℝ)),
      -(lsum (ps.map fun p => batchSumRes clipLog r p.2.1)) + lsum (ps.map (mixNorm (k * r)))
        = lsum (ps.map fun p => modelNllGradBatchRes p.1 r (chunk (k * r) p.2.1) (chunk (k * r) p.2.2)) := by
    intro ps
    induction ps with
    | nil => simp
    | cons p ps ih =>
      simp only [List.map_cons, lsum_cons]
      have hp : modelNllGradBatchRes p.1 r (chunk (k * r) p.2.1) (chunk (k * r) p.2.2)
          = -(batchSumRes clipLog r p.2.1) + mixNorm (k * r) p := by
        unfold modelNllGradBatchRes mixNorm
        rw [sumBatchesRes_chunk clipLog r k hr hk _ _ le_rfl, sumW_chunk _ hn]
        ring
      rw [hp]
      linarith
  rw [hdata]
  exact hsum parts

example : ∀ p ∈ ([(false, [(1, 2), (1, 3)], [(1, 1)]), (true, [(2, 2), (1, 3), (1, 1), (1, 1)], [(1, 1)])] :
    List (Bool × List (ℝ × ℝ) × List (ℝ × ℝ))), 2 ∣ p.2.1.length := by
  intro p hp
  simp only [List.mem_cons, List.not_mem_nil, or_false] at hp
  rcases hp with h | h <;> subst h <;> decide

/-! ## (2) `constr_frac` -/

/-- ★ `constr_frac` (`SimpleNllFracModel.nll`): `−Σ wᵢ ln fᵢ + (Σ wᵢ) ln I₀ + Σ_c ½((I_c/I₀ − μ_c)/σ_c)²` with
`I₀ = Σ vⱼ gⱼ` and `I_c = Σ vⱼ g_cⱼ` the integral of the partial amplitude of constraint `c`. -/
theorem constr_frac_formula (d m : List (ℝ × ℝ)) (fr : List (List (ℝ × ℝ) × ℝ × ℝ)) :
    constrFracNll d m fr =
      -(lsum (d.map fun p => p.1 * Real.log p.2)) + lsum (weights d) * Real.log (dotp m)
        + lsum (fr.map fun c => (1 / 2) * ((dotp c.1 / dotp m - c.2.1) / c.2.2) ^ 2) := by
  unfold constrFracNll fracPart
  rw [if_pos rfl, fracAdd_eq]
  unfold fracInts simplePart klog
  rw [List.map_map]
  congr 1
  apply lsum_map_congr
  intro c _
  simp only [Function.comp_apply, fracTerm, NLLR.sq]
  ring

/-- ★ the batched value (gradient and Hessian path) of `constr_frac` equals the `nll` value for every batch size
`n > 0`, provided there is at least one data event (the constraint terms are added to batch 0 only). -/
theorem constr_frac_batch_invariant (n : ℕ) (hn : 0 < n) (d m : List (ℝ × ℝ)) (fr : List (List (ℝ × ℝ) × ℝ × ℝ))
    (hd : d ≠ []) : constrFracNllBatch n d m fr = constrFracNll d m fr := by
  unfold constrFracNllBatch constrFracNll
  simp only []
  have hfi : fracIntsBatch n fr = fracInts fr := by
    unfold fracIntsBatch fracInts
    apply List.map_congr_left
    intro c _
    rw [lsum_chunk_dotp n hn]
  rw [hfi, lsum_chunk_dotp n hn]
  rw [chunk_step n hn d hd]
  simp only [firstFlags, List.map_cons, lsum_cons, List.map_map]
  unfold fracPart
  simp only [↓reduceIte, Function.comp_def, Bool.false_eq_true]
  rw [fracAdd_eq, fracAdd_eq, simplePart_chunks]
  have hsp : simplePart klog (dotp m) d
      = simplePart klog (dotp m) (d.take n) + simplePart klog (dotp m) (chunk n (d.drop n)).flatten := by
    rw [chunk_flatten n hn]
    conv_lhs => rw [← List.take_append_drop n d]
    unfold simplePart
    simp only [List.map_append, lsum_append, weights_append]
    ring
  rw [hsp]
  ring

/-- the excluded branch: with no data event at all the batched paths never add the constraint terms
(`idx == 0` never happens) while `nll` does — they report 0 and the sum of the constraints respectively. -/
theorem constr_frac_batch_empty (n : ℕ) (m : List (ℝ × ℝ)) (fr : List (List (ℝ × ℝ) × ℝ × ℝ)) :
    constrFracNllBatch n [] m fr = 0 := by
  unfold constrFracNllBatch
  simp only [chunk_nil, firstFlags, List.map_nil, lsum_nil]

example : ([(1, 2)] : List (ℝ × ℝ)) ≠ [] := by simp

/-- ★ `cfit_constr_frac`: the cfit mixture with `∫s = Σ v·eff·A`, `∫b = Σ v·bg`, plus
`Σ_c ½((I_c/∫s − μ_c)/σ_c)²` where — as in the code — `I_c = Σ v·A_c` carries NO efficiency factor. -/
theorem cfit_constr_frac_formula (fb : ℝ) (d m : List (ℝ × ℝ × ℝ)) (fr : List (List (ℝ × ℝ) × ℝ × ℝ)) :
    cfitConstrFracNll fb d m fr =
      -(lsum (d.map fun p => p.1 * Real.log ((1 - fb) * p.2.1 / dotp (sigEv m) + fb * p.2.2 / dotp (bgEv m))))
        + lsum (fr.map fun c => (1 / 2) * ((dotp c.1 / dotp (sigEv m) - c.2.1) / c.2.2) ^ 2) := by
  unfold cfitConstrFracNll cfitFracPart
  rw [if_pos rfl, fracAdd_eq]
  unfold fracInts simpleCfitPart klog cfitProb
  rw [List.map_map]
  congr 1
  apply lsum_map_congr
  intro c _
  simp only [Function.comp_apply, fracTerm, NLLR.sq]
  ring

/-! ## (2) legacy `inject_mc` -/

/-- ★ `Model_new` (`sum_gradient_new`): for every partition of data and MC into batches the value is
`−Σ Wᵢ · c((fᵢ/I + ω)/(1+ω))`, `I = Σ vⱼ gⱼ`, `ω = w_inmc`, `c = clip_log` — formula and batch invariance at once. -/
theorem inject_mc_formula (wmc : ℝ) (bs mbs : List (List (ℝ × ℝ))) :
    injNllGrad wmc bs mbs =
      -(lsum (bs.flatten.map fun p => p.1 * clipValue ((p.2 / dotp mbs.flatten + wmc) / (1 + wmc)))) := by
  unfold injNllGrad
  have hI : lsum (mbs.map dotp) = dotp mbs.flatten := by
    unfold dotp; exact lsum_flatten (fun p => p.1 * p.2) mbs
  rw [hI]
  unfold injPart
  rw [lsum_flatten (fun p : ℝ × ℝ => p.1 * clipLog ((p.2 / dotp mbs.flatten + wmc) / (1 + wmc))) bs]
  congr 1
  apply lsum_map_congr
  intro p _
  rw [clipLog_eq_clipValue]

/-- the weights `FCN.__init__` builds for `Model_new`: data weight 1 each (the sample's own weights are not read),
background `-w_bkg`, injected MC `w_inmc·n_data/n_inmc`; total before α:
`n_data − n_bg·w_bkg + n_inmc·(w_inmc·n_data/n_inmc)`. -/
theorem inject_mc_weight_total (nd nb ni : ℕ) (wbkg wmc : ℝ) :
    lsum (List.replicate nd (1.0 : ℝ) ++ bgWeights wbkg nb ++ List.replicate ni (wmc * kofNat nd / kofNat ni))
      = nd - nb * wbkg + ni * (wmc * nd / ni) := by
  rw [lsum_append, lsum_append, lsum_replicate, lsum_replicate]
  unfold bgWeights kofNat
  rw [lsum_replicate]
  norm_num
  ring

/-! ## (3) Gaussian constraints are an additive term of what `FCN` / `CombineFCN` report -/

/-- ★ reported NLL = model NLL + `Σ (θ−μ)²/(2σ²)`: for `FCN.__call__`, `nll_grad()[0]`, `nll_grad_hessian()[0]`,
with or without `resolution_size`, and for `CombineFCN`. -/
theorem gauss_additive (ext : Bool) (r n : ℕ) (w bgw f v g : List ℝ) (cs : List (ℝ × ℝ × ℝ)) :
    let G := lsum (cs.map fun c => (c.1 - c.2.1) ^ 2 / (2 * c.2.2 ^ 2))
    fcnCall ext w bgw f v g cs = fcnCall ext w bgw f v g [] + G
      ∧ fcnNllGrad ext n w bgw f v g cs = fcnNllGrad ext n w bgw f v g [] + G
      ∧ fcnNllGradHessian ext n w bgw f v g cs = fcnNllGradHessian ext n w bgw f v g [] + G
      ∧ fcnCallRes ext r w bgw f v g cs = fcnCallRes ext r w bgw f v g [] + G
      ∧ fcnNllGradRes ext r n w bgw f v g cs = fcnNllGradRes ext r n w bgw f v g [] + G
      ∧ fcnNllGradHessianRes ext r n w bgw f v g cs = fcnNllGradHessianRes ext r n w bgw f v g [] + G
      ∧ ∀ parts : List ℝ, combineFcn parts (gaussConstr cs) = combineFcn parts 0 + G := by
  intro G
  have hG : gaussConstr cs = G := C06.gauss_terms cs
  have h0 : gaussConstr ([] : List (ℝ × ℝ × ℝ)) = 0 := rfl
  unfold fcnCall fcnNllGrad fcnNllGradHessian fcnCallRes fcnNllGradRes fcnNllGradHessianRes combineFcn
  rw [hG, h0]
  refine ⟨by ring, by ring, by ring, by ring, by ring, by ring, fun parts => by ring⟩

/-- ★ simultaneous fit with a configured constraint (ConfigLoader gives the same `gauss_constr` to every sub-FCN
and to the `CombineFCN`): for any number of data sets, every batch size, extended or not, the three values
`CombineFCN.__call__`, `nll_grad()[0]`, `nll_grad_hessian()[0]` are the same number, and it is
`Σ_k (NLL of data set k without constraint) + Σ_c (θ_c−μ_c)²/(2σ_c²)` — the constraint term exactly ONCE; summing
what the sub-FCNs themselves report (`FCN.__call__`, each with its own copy of the term) would count it
`N` more times. -/
theorem combine_gauss_once (n : ℕ) (hn : 0 < n) (ps : List (Bool × List ℝ × List ℝ × List ℝ × List ℝ × List ℝ))
    (cs : List (ℝ × ℝ × ℝ))
    (hp : ∀ p ∈ ps, p.2.2.2.1.length = (p.2.1 ++ p.2.2.1).length ∧ p.2.2.2.2.2.length = p.2.2.2.2.1.length
      ∧ lsum (p.2.1 ++ p.2.2.1) ≠ 0 ∧ lsum p.2.2.2.2.1 ≠ 0) :
    let G := lsum (cs.map fun c => (c.1 - c.2.1) ^ 2 / (2 * c.2.2 ^ 2))
    combineCall ps cs = lsum (ps.map fun p => fcnCall p.1 p.2.1 p.2.2.1 p.2.2.2.1 p.2.2.2.2.1 p.2.2.2.2.2 []) + G
      ∧ combineNllGrad n ps cs = combineCall ps cs
      ∧ combineNllGradHessian n ps cs = combineCall ps cs
      ∧ lsum (ps.map fun p => fcnCall p.1 p.2.1 p.2.2.1 p.2.2.2.1 p.2.2.2.2.1 p.2.2.2.2.2 cs)
          = combineCall ps cs + ((ps.length : ℝ) - 1) * G := by
  intro G
  have hG : gaussConstr cs = G := C06.gauss_terms cs
  have e1 : (ps.map fun p => fcnNllGrad p.1 n p.2.1 p.2.2.1 p.2.2.2.1 p.2.2.2.2.1 p.2.2.2.2.2 [])
      = ps.map fun p => fcnCall p.1 p.2.1 p.2.2.1 p.2.2.2.1 p.2.2.2.2.1 p.2.2.2.2.2 [] := by
    apply List.map_congr_left
    intro p hpm
    obtain ⟨h1, h2, h3, h4⟩ := hp p hpm
    exact (C06.fcn_value_paths_agree p.1 n hn _ _ _ _ _ [] h1 h2 h3 h4).1
  have e2 : (ps.map fun p => fcnNllGradHessian p.1 n p.2.1 p.2.2.1 p.2.2.2.1 p.2.2.2.2.1 p.2.2.2.2.2 [])
      = ps.map fun p => fcnCall p.1 p.2.1 p.2.2.1 p.2.2.2.1 p.2.2.2.2.1 p.2.2.2.2.2 [] := by
    apply List.map_congr_left
    intro p hpm
    obtain ⟨h1, h2, h3, h4⟩ := hp p hpm
    exact (C06.fcn_value_paths_agree p.1 n hn _ _ _ _ _ [] h1 h2 h3 h4).2
  have e3 : lsum (ps.map fun p => fcnCall p.1 p.2.1 p.2.2.1 p.2.2.2.1 p.2.2.2.2.1 p.2.2.2.2.2 cs)
      = lsum (ps.map fun p => fcnCall p.1 p.2.1 p.2.2.1 p.2.2.2.1 p.2.2.2.2.1 p.2.2.2.2.2 []) + (ps.length : ℝ) * G := by
    clear hp e1 e2
    induction ps with
    | nil => simp
    | cons p ps ih =>
      simp only [List.map_cons, lsum_cons, List.length_cons, Nat.cast_add, Nat.cast_one]
      rw [ih]
      have := (gauss_additive p.1 1 1 p.2.1 p.2.2.1 p.2.2.2.1 p.2.2.2.2.1 p.2.2.2.2.2 cs).1
      rw [this]
      ring
  unfold combineNllGrad combineNllGradHessian combineCall
  rw [e1, e2, e3]
  unfold combineFcn
  rw [hG]
  refine ⟨rfl, rfl, rfl, by ring⟩

-- non-vacuity: two data sets (one with a background event), one constraint two sigma away
example : ∀ p ∈ ([(false, [1, 1], [-0.5], [3, 2, 1], [1, 1], [2, 2]), (true, [2], [], [3], [1], [1])] :
    List (Bool × List ℝ × List ℝ × List ℝ × List ℝ × List ℝ)),
    p.2.2.2.1.length = (p.2.1 ++ p.2.2.1).length ∧ p.2.2.2.2.2.length = p.2.2.2.2.1.length
      ∧ lsum (p.2.1 ++ p.2.2.1) ≠ 0 ∧ lsum p.2.2.2.2.1 ≠ 0 := by
  intro p hp
  simp only [List.mem_cons, List.not_mem_nil, or_false] at hp
  rcases hp with h | h <;> subst h <;> refine ⟨rfl, rfl, by norm_num [lsum], by norm_num [lsum]⟩

example : lsum (([((1.04 : ℝ), (1 : ℝ), (0.02 : ℝ))] : List (ℝ × ℝ × ℝ)).map fun c => (c.1 - c.2.1) ^ 2 / (2 * c.2.2 ^ 2)) = 2 := by
  norm_num [lsum]

end TfPwaV.C06b
