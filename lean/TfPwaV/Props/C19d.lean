import TfPwaV.Proofs.ConfigRT
/-!
# C19 (continued) — export → import (`DecayGroup.as_config` then `ConfigLoader`) for EVERY card

`Card.roundTrip c = (ctx.asConfig c.top chains).expand` when `c.expand = .ok ctx chains`.
`export_import`: for every card that loads (no decay of a produced chain carrying a user `ls_list`, which is not
part of the export) the exported card loads again, with the same SET of chains, the same J / P / C / width
presence of every particle of the chains, the exported `p_break` / `c_break` of every decay, and the same (l,s)
list of every decay that has no `l_list`.
`export_import_order_refuted`: the ORDER of the chain list is not preserved in general (the decays of a mother are
re-registered in the order of their first appearance in the surviving chains), so only the set statement can hold.
-/
namespace TfPwaV.C19
open TfPwaV.Config

/-- names that occur in the exported card -/
def exportNames (top : Name) (chains : List Chain) : List Name := top :: (chains.flatMap chainNames)

theorem mem_exportNames {top : Name} {chains : List Chain} {n : Name} (h : n ∈ exportNames top chains) :
    n = top ∨ ∃ ch ∈ chains, ∃ d ∈ ch, n = d.core ∨ n = d.o1 ∨ n = d.o2 := by
  unfold exportNames at h
  rcases List.mem_cons.1 h with h | h
  · exact Or.inl h
  · right
    rw [List.mem_flatMap] at h
    obtain ⟨ch, hch, hn⟩ := h
    unfold chainNames at hn
    rw [List.mem_flatMap] at hn
    obtain ⟨d, hd, hn⟩ := hn
    simp only [List.mem_cons, List.not_mem_nil, or_false] at hn
    exact ⟨ch, hch, d, hd, hn⟩

/-- Export → import, for every card: the exported card loads; it has the same chain SET, the same quantum numbers
and width presence for every particle named in the export, the exported `p_break` / `c_break` on every decay, and
the same (l,s) list on every decay without `l_list`.
Hypothesis `hls`: no decay of a produced chain has a user-given `ls_list` (`ls_list` / `l_list` are constructor
arguments of `HelicityDecay` and are not exported; a verbatim `ls_list` may keep a chain the selection rule drops). -/
theorem export_import (c : Card) (ctx : Ctx) (chains : List Chain) (h : c.expand = .ok ctx chains)
    (hls : ∀ ch ∈ chains, ∀ d ∈ ch, (ctx.optOf d).lsList = none) :
    ∃ ctx' chains', c.roundTrip = .ok ctx' chains' ∧
      (∀ ch, ch ∈ chains' ↔ ch ∈ chains) ∧
      (∀ n ∈ exportNames c.top chains, qnOfName ctx'.props n = qnOfName ctx.props n ∧
          hasWidth ((getKV ctx'.props n).getD []) = hasWidth ((getKV ctx.props n).getD [])) ∧
      (∀ ch ∈ chains, ∀ d ∈ ch, (ctx'.optOf d).pBreak = some ((ctx.optOf d).pBreak.getD false) ∧
          (ctx'.optOf d).cBreak = some ((ctx.optOf d).cBreak.getD true)) ∧
      (∀ ch ∈ chains, ∀ d ∈ ch, (ctx.optOf d).lList = none → ctx'.ls d = ctx.ls d) := by
  obtain ⟨ctx', chains', hexp, hset, hprops, hopt⟩ := rt_core c ctx chains h hls
  obtain ⟨_, _, _, _, _, hne⟩ := expand_ok h
  obtain ⟨ch0, hch0⟩ : ∃ ch0, ch0 ∈ chains := by
    cases chains with
    | nil => exact absurd rfl hne
    | cons a _ => exact ⟨a, by simp⟩
  have hqn : ∀ n, getKV ctx'.props n = some (exportDict ctx.props n) →
      qnOfName ctx'.props n = qnOfName ctx.props n ∧
        hasWidth ((getKV ctx'.props n).getD []) = hasWidth ((getKV ctx.props n).getD []) := by
    intro n hn
    unfold qnOfName
    rw [hn]
    exact export_import_partial_qn ctx.props n
  refine ⟨ctx', chains', ?_, hset, ?_, ?_, ?_⟩
  · unfold Card.roundTrip
    rw [h]
    exact hexp
  · intro n hn
    apply hqn
    rcases mem_exportNames hn with hn | ⟨ch, hch, d, hd, hn⟩
    · -- `$top`: the root of any chain
      obtain ⟨_, cand, hcand, _, hchains, _⟩ := expand_ok h
      cases hd0 : ch0 with
      | nil =>
        -- a produced chain is never empty
        exfalso
        unfold candidates at hcand
        cases hcd : chainDecay (regsOf ctx) (recursionBudget (regsOf ctx)) c.top with
        | none => rw [hcd] at hcand; simp at hcand
        | some cs =>
          rw [hcd] at hcand
          simp only [Option.map_some, Option.some.injEq] at hcand
          have : ch0 ∈ cs := by
            rw [hchains, ← hcand] at hch0
            exact (List.mem_filter.1 (List.mem_filter.1 hch0).1).1
          obtain ⟨e, l, r, _, _, hc⟩ := mem_chainDecay_tree hcd this
          rw [hd0] at hc
          simp [DTree.chain] at hc
      | cons d0 _ =>
        exact hprops ch0 hch0 d0 (by rw [hd0]; simp) n (Or.inl hn)
    · exact hprops ch hch d hd n (Or.inr hn)
  · intro ch hch d hd
    rw [hopt ch hch d hd]
    exact ⟨rfl, rfl⟩
  · intro ch hch d hd hl
    have q := fun n hn => (hqn n (hprops ch hch d hd n hn)).1
    unfold Ctx.ls
    rw [q _ (Or.inr (Or.inl rfl)), q _ (Or.inr (Or.inr (Or.inl rfl))), q _ (Or.inr (Or.inr (Or.inr rfl))),
      hopt ch hch d hd]
    exact export_import_partial_ls _ _ _ _ (hls ch hch d hd) hl

/-- corollary: the chain set alone -/
theorem export_import_chain_set (c : Card) (ctx : Ctx) (chains : List Chain) (h : c.expand = .ok ctx chains)
    (hls : ∀ ch ∈ chains, ∀ d ∈ ch, (ctx.optOf d).lsList = none) :
    ∃ ctx' chains', c.roundTrip = .ok ctx' chains' ∧ ∀ ch, ch ∈ chains' ↔ ch ∈ chains := by
  obtain ⟨ctx', chains', h1, h2, _⟩ := export_import c ctx chains h hls
  exact ⟨ctx', chains', h1, h2⟩

/-- corollary: a card that loads (without `ls_list` on produced chains) never fails to load after export -/
theorem export_import_loads (c : Card) (ctx : Ctx) (chains : List Chain) (h : c.expand = .ok ctx chains)
    (hls : ∀ ch ∈ chains, ∀ d ∈ ch, (ctx.optOf d).lsList = none) : ∀ w, c.roundTrip ≠ .raise w := by
  obtain ⟨ctx', chains', h1, _⟩ := export_import c ctx chains h hls
  intro w hw
  rw [h1] at hw
  exact Outcome.noConfusion hw

/-! ## non-vacuity: `exCard2` (C19c) satisfies the hypotheses -/

def noLsList : Outcome → Bool
  | .ok ctx chains => chains.all fun ch => ch.all fun d => (ctx.optOf d).lsList == none
  | .raise _ => false

theorem exCard2_noLsList : noLsList exCard2.expand = true := by decide +kernel

example : ∃ ctx chains, exCard2.expand = .ok ctx chains ∧
    ∀ ch ∈ chains, ∀ d ∈ ch, (ctx.optOf d).lsList = none := by
  have hk := exCard2_noLsList
  cases h : exCard2.expand with
  | raise w => rw [h] at hk; simp [noLsList] at hk
  | ok ctx chains =>
    rw [h] at hk
    refine ⟨ctx, chains, rfl, ?_⟩
    intro ch hch d hd
    simp only [noLsList, List.all_eq_true, beq_iff_eq] at hk
    exact hk ch hch d hd

/-! ## the ORDER of the chain list is not preserved -/

def pbOpt : DItem := .opt { pBreak := some true }

/-- `x` has the decays `B C` (first) and `Z C`; the first chain that survives the final-state filter uses `x → Z C`,
so the exported card lists `x → Z C` first and the two chains through `V` change places on re-import. -/
def orderCard : Card :=
  { top := "A", topDict := none, finals := ["B", "C", "D", "E", "F"], finalsDict := none
    includes := [], particle := []
    decay := [("A", .nested [[.name "x", .name "Q1", pbOpt], [.name "x", .name "V", pbOpt]]),
      ("x", .nested [[.name "B", .name "C", pbOpt], [.name "Z", .name "C", pbOpt]]),
      ("Z", .flat [.name "B", .name "E", pbOpt]),
      ("Q1", .flat [.name "D", .name "F", pbOpt]),
      ("V", .nested [[.name "Q2", .name "E", pbOpt], [.name "D", .name "F", pbOpt]]),
      ("Q2", .flat [.name "D", .name "F", pbOpt])] }

def chainsOf : Outcome → List String
  | .ok _ ch => ch.map showChain
  | .raise w => ["raise:" ++ w]

/-- Refutation of order preservation: on `orderCard` the round trip yields the same chains in a different order. -/
theorem export_import_order_refuted :
    chainsOf orderCard.expand = ["[A->x+Q1, x->Z+C, Z->B+E, Q1->D+F]", "[A->x+V, x->B+C, V->Q2+E, Q2->D+F]",
      "[A->x+V, x->Z+C, Z->B+E, V->D+F]"] ∧
    chainsOf orderCard.roundTrip ≠ chainsOf orderCard.expand ∧
    (chainsOf orderCard.roundTrip).isPerm (chainsOf orderCard.expand) = true := by
  decide +kernel

/-- `orderCard` is inside the scope of `export_import` (it loads, no `ls_list`) -/
example : noLsList orderCard.expand = true := by decide +kernel

end TfPwaV.C19
