import TfPwaV.Proofs.Bins
/-!
# C20 (part 3) — adaptive bins partition their range; weighted histograms conserve Σw and Σw²

Theorems about `TfPwaV.Bins` (model of `tf_pwa/adaptive_bins.py: AdaptiveBound`) and `TfPwaV.Hist` (model of the
weighted histogram behind `Hist1D.histogram`), both polymorphic: the statements hold for values in ANY linear order
(ℝ, ℚ, the doubles embedded in ℚ, …) and weights in ANY commutative (semi)ring.  The models are executed at `Rat`
on the exact rational values of the doubles of every run and compared with the real functions.
-/
namespace TfPwaV.C20c
open TfPwaV.Bins TfPwaV.Hist

section bins
variable {α : Type} [LinearOrder α]

/-- `get_bool_mask` / `multi_split_bound` use the half-open comparison `lb ≤ v < rb`. -/
theorem mask_half_open (v lb rb : α) : inIv v (lb, rb) = true ↔ lb ≤ v ∧ v < rb := inIv_iff v (lb, rb)

/-- `single_split_bound` with `n` requested bins returns `n` intervals (`n-1` cut points). -/
theorem chain_length (lb rb : α) (cs : List α) : (chain lb cs rb).length = cs.length + 1 := by
  induction cs generalizing lb with
  | nil => rfl
  | cons c cs ih => simp [chain, ih]

/-- ★ For cut points `lb ≤ c₁ ≤ … ≤ c_{k-1} ≤ rb` (any `k`), every value of `[lb, rb)` lies in exactly ONE of the
half-open bins `[lb,c₁), [c₁,c₂), …, [c_{k-1},rb)`. -/
theorem bins_partition (lb rb : α) (cs : List α) (v : α) (hs : sortedChain lb cs rb = true)
    (hv : lb ≤ v ∧ v < rb) : ((chain lb cs rb).filter (inIv v)).length = 1 := by
  have := cnt_chain v cs rb lb hs
  rw [if_pos ((inIv_iff v (lb, rb)).mpr hv)] at this
  exact this

/-- … and a value outside `[lb, rb)` lies in none. -/
theorem bins_outside (lb rb : α) (cs : List α) (v : α) (hs : sortedChain lb cs rb = true)
    (hv : ¬ (lb ≤ v ∧ v < rb)) : ((chain lb cs rb).filter (inIv v)).length = 0 := by
  have := cnt_chain v cs rb lb hs
  rw [if_neg (fun h => hv ((inIv_iff v (lb, rb)).mp h))] at this
  exact this

/-- ★ `multi_split_bound`: splitting a box successively along dimensions `0, 1, …` (each current sub-box with its own
monotone cut chain) keeps every point of the box in exactly one sub-box and every other point in none. -/
theorem multi_split_partition (D : Nat) (b : Box α) (spec : List (List (List α))) (p : List α)
    (hD : D ≤ p.length) (hv : validGo D 0 [b] spec = true) :
    memberCount p (multiSplit b spec) = if inBox p b then 1 else 0 := by
  unfold multiSplit
  rw [memberCount_multiGo p D hD spec 0 [b] hv, memberCount_single]

/-- ★ `loop_split_bound` (what `AdaptiveBound.get_bounds` returns): nested splitting to any depth, with monotone cut
chains everywhere, puts every point of the base box in exactly ONE bin and every point outside it in none. -/
theorem nested_partition (D : Nat) (base : Box α) (rounds : List (List (List (List (List α))))) (p : List α)
    (hD : D ≤ p.length) (hv : validLoop D [base] rounds = true) :
    memberCount p (loopSplit base rounds) = if inBox p base then 1 else 0 := by
  unfold loopSplit
  rw [memberCount_loop p D hD rounds [base] hv, memberCount_single]

-- non-vacuity: a monotone chain with a repeated cut point, and a value in range
example : sortedChain (0 : Nat) [2, 2, 5] 9 = true ∧ ((chain (0 : Nat) [2, 2, 5] 9).filter (inIv 2)).length = 1 := by
  decide
-- a two-dimensional nested split (bins = [[2, 2]]): valid, and a point of the base box is in exactly one of 4 boxes
example : validLoop 2 [[((0 : Nat), 10), (0, 10)]] [[[[[5]], [[3], [7]]]]] = true ∧
    (loopSplit [((0 : Nat), 10), (0, 10)] [[[[[5]], [[3], [7]]]]]).length = 4 ∧
    memberCount [5, 6] (loopSplit [((0 : Nat), 10), (0, 10)] [[[[[5]], [[3], [7]]]]]) = 1 := by
  decide
/-- the hypothesis cannot be dropped: with a non-monotone chain a value can lie in two bins -/
example : sortedChain (0 : Nat) [6, 4] 9 = false ∧ ((chain (0 : Nat) [6, 4] 9).filter (inIv 5)).length = 2 := by
  decide

end bins

section hist
variable {α : Type} [LinearOrder α] {β : Type}

/-- conservation for any per-entry quantity `f w` -/
theorem hist_conserves_f [AddCommMonoid β] [Mul β] (edges : List α) (f : β → β) (evs : List (α × β)) :
    ((List.range (nBins edges)).map (binSum edges f evs)).sum =
      ((evs.filter (inRange edges)).map fun e => f e.2).sum := by
  induction evs with
  | nil =>
    have : (binSum edges f ([] : List (α × β))) = fun _ => (0 : β) := by
      funext i; simp [binSum]
    rw [this, sum_zero_range]; simp
  | cons e es ih =>
    have : (binSum edges f (e :: es)) = fun i => (if binOf e.1 edges 0 = some i then f e.2 else 0) + binSum edges f es i := by
      funext i; exact binSum_cons edges f e es i
    rw [this, sum_map_add', ih, List.filter_cons]
    cases hb : binOf e.1 edges 0 with
    | none =>
      have h0 : ((List.range (nBins edges)).map fun i => if (none : Option Nat) = some i then f e.2 else 0).sum = 0 := by
        simp [sum_zero_range]
      simp [inRange, hb, h0]
    | some j =>
      have hj := (binOf_bounds e.1 edges 0 j hb).2
      rw [sum_ite_range j (f e.2) (nBins edges)]
      have : j < nBins edges := by unfold nBins; omega
      simp [inRange, hb, this]

/-- ★ `Σ bins(count) = Σ in-range weights`, for every edge list, every entry list, every weight list. -/
theorem hist_conserves_weights [CommSemiring β] (edges : List α) (evs : List (α × β)) :
    (counts edges evs).sum = ((evs.filter (inRange edges)).map fun e => e.2).sum :=
  hist_conserves_f edges (fun w => w) evs

/-- ★ `Σ bins(error²) = Σ in-range weights²` (before the `mask_error` substitution, which only touches bins without
entries, whose `Σw²` is 0 — see `empty_bin_zero`). -/
theorem hist_conserves_weights2 [CommSemiring β] (edges : List α) (evs : List (α × β)) :
    (sumW2 edges evs).sum = ((evs.filter (inRange edges)).map fun e => e.2 * e.2).sum :=
  hist_conserves_f edges (fun w => w * w) evs

/-- a bin without entries has `Σw = 0` and `Σw² = 0`: exactly the bins whose error is replaced by `mask_error` -/
theorem empty_bin_zero [CommSemiring β] (edges : List α) (f : β → β) (evs : List (α × β)) (i : Nat)
    (h : binN edges evs i = 0) : binSum edges f evs i = 0 := by
  unfold binN at h
  unfold binSum
  rw [List.length_eq_zero_iff.mp h]
  simp

/-- every entry is counted in at most one bin, and that bin exists -/
theorem bin_index_in_range (edges : List α) (v : α) (j : Nat) (h : binOf v edges 0 = some j) : j < nBins edges := by
  have := (binOf_bounds v edges 0 j h).2
  unfold nBins; omega

-- non-vacuity / convention check on a concrete histogram: edges 0,1,2,3; the value 3 is in the (closed) last bin,
-- 1 is in the second bin (half-open), -1 and 4 are out of range
example : counts [(0 : Nat), 1, 2, 3] [(3, (5 : Nat)), (1, 7), (0, 1), (4, 100)] = [1, 7, 5] := by decide

end hist

end TfPwaV.C20c
