import TfPwaV.Model.ConfigC
import TfPwaV.Props.C19c
/-!
# C19 (continued) — the constraint sets: card + `constrains` ↦ (trainable, fixed, bounds, ties, gaussian constraints)

Theorems about `TfPwaV.ConfigC` (model of `ConfigLoader.add_constraints`, tied to the implementation by the
correspondence `C19k cons` in harness/c19.py: ordered `vm.trainable_vars`, `bound_dic`, `vm.same_list`,
`gauss_constr_dic`, assigned values, on every generated card).  All statements are for every state / every list.
-/
namespace TfPwaV.C19
open TfPwaV.Config TfPwaV.ConfigC

/-! ## every `fix_var` / `free_var` entry names an existing parameter, or the loader raises -/

theorem setFix_ok {s s' : VM} {n : String} {v : Option Num} {u : Bool} (h : s.setFix n v u = .ok s') :
    n ∈ s.vars ∧ s'.vars = s.vars ∧ s'.bound = s.bound ∧ s'.same = s.same ∧ s'.gauss = s.gauss := by
  unfold VM.setFix at h
  split at h
  · exact absurd h (by simp)
  · rename_i hc
    simp only [Except.ok.injEq] at h
    subst h
    refine ⟨by simpa using hc, rfl, rfl, rfl, rfl⟩

/-- the excluded branch: an unknown name is a `KeyError`, whatever else the card says -/
theorem setFix_unknown (s : VM) (n : String) (v : Option Num) (u : Bool) (h : n ∉ s.vars) :
    s.setFix n v u = .error "KeyError" := by
  simp [VM.setFix, h]

theorem foldlM_setFix_ok {α : Type} (name : α → String) (val : α → Option Num) (u : Bool) (l : List α) :
    ∀ (s s' : VM), l.foldlM (fun (s : VM) a => s.setFix (name a) (val a) u) s = .ok s' →
      (∀ a ∈ l, name a ∈ s.vars) ∧ s'.vars = s.vars := by
  induction l with
  | nil =>
    intro s s' h
    simp only [List.foldlM_nil, pure, Except.pure, Except.ok.injEq] at h
    subst h
    exact ⟨by simp, rfl⟩
  | cons a as ih =>
    intro s s' h
    rw [List.foldlM_cons] at h
    cases h1 : s.setFix (name a) (val a) u with
    | error e => rw [h1] at h; exact absurd h (by simp [bind, Except.bind])
    | ok s1 =>
      rw [h1] at h
      simp only [bind, Except.bind] at h
      obtain ⟨hm, hv, _⟩ := setFix_ok h1
      obtain ⟨h2, h3⟩ := ih s1 s' h
      refine ⟨?_, by rw [h3, hv]⟩
      intro b hb
      rcases List.mem_cons.1 hb with rfl | hb
      · exact hm
      · rw [← hv]; exact h2 b hb

/-- `fix_var`: the section is accepted only if every key is an existing parameter -/
theorem fixVar_names_exist (s s' : VM) (l : List (String × Num)) (h : fixVarStage s l = .ok s') :
    (∀ kv ∈ l, kv.1 ∈ s.vars) ∧ s'.vars = s.vars :=
  foldlM_setFix_ok (fun kv : String × Num => kv.1) (fun kv => if kv.2 == "None" then none else some kv.2) false l s s' h

/-- `free_var`: the same -/
theorem freeVar_names_exist (s s' : VM) (l : List String) (h : freeVarStage s l = .ok s') :
    (∀ k ∈ l, k ∈ s.vars) ∧ s'.vars = s.vars :=
  foldlM_setFix_ok (fun k : String => k) (fun _ => none) true l s s' h

/-- … and the error branch: a `fix_var` section containing an unknown name is rejected -/
theorem fixVar_unknown_rejected (s : VM) (l : List (String × Num)) (kv : String × Num) (hk : kv ∈ l) (hn : kv.1 ∉ s.vars) :
    ∀ s', fixVarStage s l ≠ .ok s' := by
  intro s' h
  exact hn ((fixVar_names_exist s s' l h).1 kv hk)

theorem freeVar_unknown_rejected (s : VM) (l : List String) (k : String) (hk : k ∈ l) (hn : k ∉ s.vars) :
    ∀ s', freeVarStage s l ≠ .ok s' := by
  intro s' h
  exact hn ((freeVar_names_exist s s' l h).1 k hk)

example : ∃ s s', fixVarStage s [("a", "1.0")] = .ok s' ∧ s.train = ["a", "b"] ∧ s'.train = ["b"] :=
  ⟨⟨["a", "b"], ["a", "b"], [], [], [], [], []⟩, _, rfl, rfl, rfl⟩

/-- `var_range`, `gauss_constr`: the name is NOT looked up — whatever the state, an arbitrary name is recorded
(the clause "every constraint names an existing parameter or the loader raises" FAILS for these sections, and for
`var_equal`, in the loader as it is; shown on the implementation by harness `unknown_name_demo`). -/
theorem unchecked_sections_accept_unknown_names (s : VM) (n : String) (lo hi : Num) :
    getKV (varRangeStage s [(n, lo, hi)]).bound n = some (lo, hi) ∧
    getKV (gaussStage s [(n, lo, hi)]).gauss n = some (lo, hi) ∧
    (varRangeStage s [(n, lo, hi)]).vars = s.vars ∧ (gaussStage s [(n, lo, hi)]).vars = s.vars := by
  refine ⟨?_, ?_, rfl, rfl⟩
  · simp [varRangeStage, getKV_setKV_gen]
  · simp [gaussStage, getKV_setKV_gen]

/-- `var_equal` with a name that does not exist is accepted and recorded in `same_list` -/
theorem var_equal_accepts_unknown_name :
    ((varEqualStage ⟨["a", "b"], ["a", "b"], [], [], [], [], []⟩ [["no_such", "a", "b"]]).map (fun s => (s.same, s.train))).toOption =
      some ([["no_such", "a", "b"]], ["a"]) := by
  decide +kernel

/-! ## the reference couplings: exactly one per decay, exactly one chain coupling -/

theorem tagged_succ (head : String) (n : Nat) (fix0 : Bool) :
    tagged head (n + 1) fix0 =
      [(head ++ "_" ++ toString 0 ++ "r", !fix0), (head ++ "_" ++ toString 0 ++ "i", !fix0)] ++
      ((List.range n).flatMap fun i =>
        [(head ++ "_" ++ toString (i + 1) ++ "r", true), (head ++ "_" ++ toString (i + 1) ++ "i", true)]) := by
  unfold tagged
  rw [List.range_succ_eq_map, List.flatMap_cons, List.flatMap_map]
  simp

/-- Per decay with `n+1` couplings the loader fixes EXACTLY the component 0 (real and imaginary part): the fixed
names at creation are `head_0r`, `head_0i` and nothing else; all `2n` others are trainable. -/
theorem one_reference_coupling_per_decay (head : String) (n : Nat) :
    ((tagged head (n + 1) true).filter fun x => !x.2) =
      [(head ++ "_" ++ toString 0 ++ "r", false), (head ++ "_" ++ toString 0 ++ "i", false)] ∧
    ((tagged head (n + 1) true).filter fun x => x.2).length = 2 * n := by
  rw [tagged_succ]
  have h1 : ∀ l : List Nat, ((l.flatMap fun i =>
      [(head ++ "_" ++ toString (i + 1) ++ "r", true), (head ++ "_" ++ toString (i + 1) ++ "i", true)]).filter
        fun x : String × Bool => !x.2) = [] := by
    intro l
    induction l with
    | nil => rfl
    | cons a as ih => simp [List.flatMap_cons, List.filter_append, ih]
  have h2 : ∀ l : List Nat, ((l.flatMap fun i =>
      [(head ++ "_" ++ toString (i + 1) ++ "r", true), (head ++ "_" ++ toString (i + 1) ++ "i", true)]).filter
        fun x : String × Bool => x.2).length = 2 * l.length := by
    intro l
    induction l with
    | nil => rfl
    | cons a as ih =>
      rw [List.flatMap_cons, List.filter_append, List.length_append, ih]
      simp [List.filter]
      omega
  refine ⟨?_, ?_⟩
  · rw [List.filter_append, h1]; simp
  · rw [List.filter_append, List.length_append, h2]; simp

/-- the chain couplings `…_total_0r/_0i` are created trainable (no reference among them before `add_decay_constraints`) -/
theorem total_created_free (head : String) : (tagged head 1 false).map (·.2) = [true, true] := by
  simp [tagged]

/-- `add_decay_constraints` fixes EXACTLY the coupling of chain `fix_chain_idx` (both parts) and nothing else; an
index outside the chain list is an error. -/
theorem fix_total_exactly_one (s s' : VM) (chains : List Chain) (k : Constr) (h : decayStage s chains k = .ok s') :
    ∃ c, chains[k.fixIdx]? = some c ∧
      s'.train = (s.train.erase (chainHead c ++ "_total_0r")).erase (chainHead c ++ "_total_0i") ∧ s'.vars = s.vars := by
  unfold decayStage at h
  cases hc : chains[k.fixIdx]? with
  | none => rw [hc] at h; exact absurd h (by simp)
  | some c =>
    rw [hc] at h
    simp only at h
    cases h1 : s.setFix (chainHead c ++ "_total_0r") (some k.fixVal) false with
    | error e => rw [h1] at h; exact absurd h (by simp [bind, Except.bind])
    | ok s1 =>
      rw [h1] at h
      simp only [bind, Except.bind] at h
      refine ⟨c, rfl, ?_, ?_⟩
      · unfold VM.setFix at h1 h
        split at h1
        · exact absurd h1 (by simp)
        · split at h
          · exact absurd h (by simp)
          · simp only [Except.ok.injEq] at h1 h
            subst h1; subst h
            simp
      · rw [(setFix_ok h).2.1, (setFix_ok h1).2.1]

theorem fix_total_bad_index (s : VM) (chains : List Chain) (k : Constr) (h : chains.length ≤ k.fixIdx) :
    decayStage s chains k = .error "IndexError" := by
  unfold decayStage
  rw [List.getElem?_eq_none h]

/-! ## key order of the `fix_var` dict is irrelevant for the trainable list -/

theorem fixVar_train (l : List (String × Num)) : ∀ (s s' : VM), fixVarStage s l = .ok s' →
    s'.train = (l.map (·.1)).foldl List.erase s.train := by
  unfold fixVarStage
  induction l with
  | nil =>
    intro s s' h
    simp only [List.foldlM_nil, pure, Except.pure, Except.ok.injEq] at h
    subst h; rfl
  | cons a as ih =>
    intro s s' h
    rw [List.foldlM_cons] at h
    cases h1 : s.setFix a.1 (if a.2 == "None" then none else some a.2) false with
    | error e => rw [h1] at h; exact absurd h (by simp [bind, Except.bind])
    | ok s1 =>
      rw [h1] at h
      simp only [bind, Except.bind] at h
      rw [ih s1 s' h]
      have : s1.train = s.train.erase a.1 := by
        unfold VM.setFix at h1
        split at h1
        · exact absurd h1 (by simp)
        · simp only [Except.ok.injEq] at h1
          subst h1; simp
      simp [this]

theorem foldl_erase_perm {a b : List String} (h : a.Perm b) : ∀ l : List String, a.foldl List.erase l = b.foldl List.erase l := by
  induction h with
  | nil => intro l; rfl
  | cons x _ ih => intro l; simp only [List.foldl_cons]; exact ih _
  | swap x y t => intro l; simp only [List.foldl_cons]; rw [List.erase_comm]
  | trans _ _ ih1 ih2 => intro l; rw [ih1, ih2]

/-- Dict key order of `fix_var`: any permutation of the entries that the loader accepts yields the same ORDERED
`trainable_vars` (and the same variable set). -/
theorem fixVar_order_irrelevant (s a b : VM) (l l' : List (String × Num)) (hp : l.Perm l')
    (h1 : fixVarStage s l = .ok a) (h2 : fixVarStage s l' = .ok b) : a.train = b.train ∧ a.vars = b.vars := by
  refine ⟨?_, ?_⟩
  · rw [fixVar_train l s a h1, fixVar_train l' s b h2]
    exact foldl_erase_perm (hp.map _) _
  · rw [(fixVar_names_exist s a l h1).2, (fixVar_names_exist s b l' h2).2]

/-- documented exception: the order of `free_var` IS visible — freed parameters are appended to `trainable_vars`
in the order of the list (the optimiser's coordinates are permuted, the set is the same). -/
theorem freeVar_order_visible :
    ((freeVarStage ⟨["a", "b", "c"], ["c"], [], [], [], [], []⟩ ["a", "b"]).map (·.train)).toOption = some ["c", "a", "b"] ∧
    ((freeVarStage ⟨["a", "b", "c"], ["c"], [], [], [], [], []⟩ ["b", "a"]).map (·.train)).toOption = some ["c", "b", "a"] := by
  decide +kernel

/-! ## aliases of the constraint keys: `m_/mass_`, `g_/width_`, `m0/mass`, `g0/width` -/

/-- kernel-evaluated instances of the prefix map (the general statement needs string-prefix algebra and is
validated on the implementation by the respelled variants of every generated card) -/
theorem paramsDic_alias_instances :
    paramsDic [("m0", .other "2.6"), ("m_min", .other "2.5"), ("g_max", .other "0.1"), ("g0_free", .other "True"), ("m0_range", .other "[1,2]")] =
      paramsDic [("mass", .other "2.6"), ("mass_min", .other "2.5"), ("width_max", .other "0.1"), ("width_free", .other "True"), ("mass_range", .other "[1,2]")] ∧
    paramsDic [("J", .spin 2), ("model", .other "BW"), ("float", .other "mg")] = [] := by
  decide +kernel

end TfPwaV.C19
