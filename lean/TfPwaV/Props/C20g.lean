import TfPwaV.Gen.HistOpsR
import Mathlib.Tactic.Linarith
import Mathlib.Tactic.FieldSimp
import Mathlib.Tactic.Ring
import Mathlib.Tactic.Positivity
/-!
# C20 (part 7) — whole-histogram helpers of `Hist1D`: `scale_to`, `chi2`, `get_count`, `get_bin_weight`

Theorems about `TfPwaV.HistOpsR` (ℝ-instance of `templates/HistOps.lean.in`; the Float instance is compared with
`Hist1D.scale_to / chi2 / ndf / get_count / get_bin_weight` on dyadic data on every run).  All statements hold for
every bin content / error / edge list.
-/
open TfPwaV.ScalarR
namespace TfPwaV.C20g
open TfPwaV.HistOpsR

theorem ksum_map_mul (c : ℝ) : ∀ xs : List ℝ, ksum (xs.map (· * c)) = ksum xs * c
  | [] => by simp [ksum]
  | x :: xs => by simp only [List.map_cons, ksum, ksum_map_mul c xs]; ring

/-- `scale_to` multiplies every bin content and every bin error by the same factor (so it is `Hist1D.__mul__` by
`scale`, theorem `C20b.hist_smul`), and leaves the binning alone. -/
theorem hist_scale_to_is_smul (self other : H) :
    (scaleTo self other).count = self.count.map (· * scaleFactor self other) ∧
    (scaleTo self other).error = self.error.map (· * scaleFactor self other) ∧
    (scaleTo self other).edges = self.edges := ⟨rfl, rfl, rfl⟩

/-- ★ `hist_scale_to_conserves`: after `self.scale_to(other)` the area `Σcount × mean bin width` of `self` equals
that of `other` (guards of the code's two divisions as hypotheses: `Σ self.count ≠ 0`, mean bin width `≠ 0`). -/
theorem hist_scale_to_conserves (self other : H) (hc : getCount self ≠ 0) (hw : mean (widths self.edges) ≠ 0) :
    getCount (scaleTo self other) * mean (widths self.edges) = getCount other * mean (widths other.edges) := by
  simp only [getCount, scaleTo, scaleFactor, ksum_map_mul] at *
  field_simp

/-- … in particular with equal mean bin widths (same binning) the total content becomes that of `other` -/
theorem hist_scale_to_total (self other : H) (hc : getCount self ≠ 0) (hw : mean (widths self.edges) ≠ 0)
    (hsame : mean (widths other.edges) = mean (widths self.edges)) :
    getCount (scaleTo self other) = getCount other := by
  have h := hist_scale_to_conserves self other hc hw
  rw [hsame] at h
  exact mul_right_cancel₀ hw h

/-- the bin widths telescope: `Σ bin_width = binning[-1] - binning[0]` -/
theorem hist_widths_telescope : ∀ (a : ℝ) (rest : List ℝ), ksum (widths (a :: rest)) = (a :: rest).getLastD 0 - a
  | a, [] => by simp [widths, ksum]
  | a, b :: rest => by
    have ih := hist_widths_telescope b rest
    simp only [widths, ksum, ih]
    simp only [List.getLastD_cons]
    ring

theorem widths_length : ∀ (edges : List ℝ), (widths edges).length = edges.length - 1
  | [] => rfl
  | [_] => rfl
  | a :: b :: rest => by
    have := widths_length (b :: rest)
    simp only [widths, List.length_cons] at this ⊢
    omega

/-- ★ `get_bin_weight` is the mean of `bin_width` (every edge list) -/
theorem hist_bin_weight_is_mean_width (a : ℝ) (rest : List ℝ) :
    binWeight (a :: rest) = mean (widths (a :: rest)) := by
  unfold binWeight mean
  rw [hist_widths_telescope, widths_length]
  simp

/-- `chi2 ≥ 0` -/
theorem hist_chi2_nonneg : ∀ (cs es : List ℝ) (fs : List Bool), 0 ≤ chi2 cs es fs
  | [], _, _ => by simp [chi2]
  | _ :: _, [], _ => by simp [chi2]
  | _ :: _, _ :: _, [] => by simp [chi2]
  | c :: cs, e :: es, f :: fs => by
    have ih := hist_chi2_nonneg cs es fs
    unfold chi2
    split
    · exact ih
    · have := mul_self_nonneg (c / e)
      linarith

/-- ★ `hist_chi2_scale_invariant`: `chi2` (the sum of squared pulls) is unchanged by `scale_to` / `* c` with a
non-zero factor: contents and errors scale together. -/
theorem hist_chi2_scale_invariant (c : ℝ) (hc : c ≠ 0) : ∀ (cs es : List ℝ) (fs : List Bool),
    chi2 (cs.map (· * c)) (es.map (· * c)) fs = chi2 cs es fs
  | [], _, _ => by simp [chi2]
  | _ :: _, [], _ => by simp [chi2]
  | _ :: _, _ :: _, [] => by simp [chi2]
  | x :: cs, e :: es, f :: fs => by
    have ih := hist_chi2_scale_invariant c hc cs es fs
    simp only [List.map_cons, chi2, ih, mul_div_mul_right _ _ hc]

/-- `ndf` counts the bins that enter `chi2` -/
theorem hist_ndf_counts (fs : List Bool) : ndf fs = fs.countP (fun f => !f) := by
  induction fs with
  | nil => rfl
  | cons f fs ih => cases f <;> simp [ndf, ih, Nat.add_comm]

/-- `chi2` of a histogram whose bins all have infinite error is 0 with `ndf = 0` -/
theorem hist_chi2_all_masked : ∀ (cs es : List ℝ) (n : Nat), cs.length = n → es.length = n →
    chi2 cs es (List.replicate n true) = 0 ∧ ndf (List.replicate n true) = 0
  | _, _, 0, _, _ => by simp [chi2, ndf]
  | [], _, n + 1, h, _ => by simp at h
  | _ :: _, [], n + 1, _, h => by simp at h
  | c :: cs, e :: es, n + 1, h1, h2 => by
    have ih := hist_chi2_all_masked cs es n (by simpa using h1) (by simpa using h2)
    simp only [List.replicate_succ, chi2, ndf, if_true, ih]
    simp

end TfPwaV.C20g
