import TfPwaV.Proofs.ErrCtx
import TfPwaV.Props.C09
/-!
# C09b — the numeric Hessian of `cal_hesse_correct` and the positive-definite branch of the Hesse errors

Theorems over ℝ about `TfPwaV.ErrCtxR`, the ℝ-instance of `templates/ErrCtx.lean.in` (the same text runs at Float
against `tf_pwa.applications.cal_hesse_correct / force_pos_def / force_pos_def_minuit2 / cal_hesse_error`).

* the second differences of `cal_hesse_correct` are EXACT on a quadratic NLL `c + b·x + x·A·x/2`, in every
  dimension, at every point, in every direction and for every step `ε ≠ 0`, and the value they return is THE second
  derivative (`HasDerivAt` twice); on quartics the remainder is the explicit term `10 p₄ ε²` / `(q₃₁+q₁₃) ε²`;
* the in-place updates of `x[i]`, `x[j]` put the coordinates back;
* the text before fix f92d030 is refuted;
* where the Hessian is positive definite, `force_pos_def`, `force_pos_def_minuit2` and `cal_hesse_error` return
  an inverse of `H` unchanged (`numpy.linalg.eig / inv / pinv` are parameters with their contracts as hypotheses), that
  inverse is unique, and the reported errors are the plain roots of its diagonal.
-/
open TfPwaV.ScalarR
namespace TfPwaV.C09b
open TfPwaV.ErrPropR TfPwaV.ErrCtxR

/-! ## `cal_hesse_correct`: second differences -/

/-- Diagonal branch, any direction: along the line `x + (s - s₀) u` (the code: `u = e_i`, `s₀ = x[i]`) the
5-point second difference of a quadratic NLL is `u·A·u` exactly, for every `n`, `x`, `u`, `s₀` and every step
`ε ≠ 0`; and the coordinate is put back. -/
theorem second_difference_exact_on_quadratic {n : Nat} (c : ℝ) (b : Fin n → ℝ) (A : Fin n → Fin n → ℝ)
    (x u : Fin n → ℝ) (s0 eps : ℝ) (heps : eps ≠ 0) :
    (diag5 (fun s => quadNLL c b A (fun k => x k + (s - s0) * u k)) s0 eps).1 = bil A u u
    ∧ (diag5 (fun s => quadNLL c b A (fun k => x k + (s - s0) * u k)) s0 eps).2 = s0 := by
  have h := diag5_quartic (fun s => quadNLL c b A (fun k => x k + (s - s0) * u k)) s0 eps
    (quadNLL c b A x) (quadGrad b A x u) (bil A u u / 2) 0 0 heps (by
      intro t
      have e : (fun k => x k + (s0 + t - s0) * u k) = fun k => x k + t * u k + 0 * u k := by
        funext k; ring
      simp only [e]
      rw [quadNLL_plane]
      ring)
  refine ⟨?_, h.2⟩
  rw [h.1]; ring

/-- Off-diagonal branch, any pair of directions: the 4-point mixed difference of a quadratic NLL is the
symmetrised bilinear form `(u·A·v + v·A·u)/2` exactly; both coordinates are put back. -/
theorem mixed_difference_exact_on_quadratic {n : Nat} (c : ℝ) (b : Fin n → ℝ) (A : Fin n → Fin n → ℝ)
    (x u v : Fin n → ℝ) (s0 t0 eps : ℝ) (heps : eps ≠ 0) :
    let f := fun s t => quadNLL c b A (fun k => x k + (s - s0) * u k + (t - t0) * v k)
    (offdiag4 f s0 t0 eps).1 = (bil A u v + bil A v u) / 2
    ∧ (offdiag4 f s0 t0 eps).2.1 = s0 ∧ (offdiag4 f s0 t0 eps).2.2 = t0 := by
  intro f
  have h := offdiag4_quartic f s0 t0 eps
    (fun a d => match a, d with
      | 0, 0 => quadNLL c b A x
      | 1, 0 => quadGrad b A x u
      | 0, 1 => quadGrad b A x v
      | 2, 0 => bil A u u / 2
      | 1, 1 => (bil A u v + bil A v u) / 2
      | 0, 2 => bil A v v / 2
      | _, _ => 0) heps (by
      intro s t
      have e : (fun k => x k + (s0 + s - s0) * u k + (t0 + t - t0) * v k)
          = fun k => x k + s * u k + t * v k := by
        funext k; ring
      simp only [f, e]
      rw [quadNLL_plane]
      ring)
  refine ⟨?_, h.2⟩
  rw [h.1]; simp

/-- The value the second differences return is THE second derivative of the quadratic NLL: with
`φ(s, t) = NLL(x + s u + t v)`, `∂φ/∂s = D(s, t)`, `∂D/∂s = u·A·u` and `∂D/∂t = (u·A·v + v·A·u)/2`, at every
`(s, t)`. -/
theorem quadNLL_second_derivative {n : Nat} (c : ℝ) (b : Fin n → ℝ) (A : Fin n → Fin n → ℝ) (x u v : Fin n → ℝ) :
    ∃ D : ℝ → ℝ → ℝ,
      (∀ s t, HasDerivAt (fun s' => quadNLL c b A (fun k => x k + s' * u k + t * v k)) (D s t) s)
      ∧ (∀ s t, HasDerivAt (fun s' => D s' t) (bil A u u) s)
      ∧ (∀ s t, HasDerivAt (fun t' => D s t') ((bil A u v + bil A v u) / 2) t) := by
  refine ⟨fun s t => quadGrad b A x u + bil A u u * s + (bil A u v + bil A v u) / 2 * t, ?_, ?_, ?_⟩
  · intro s t
    have e : (fun s' => quadNLL c b A (fun k => x k + s' * u k + t * v k))
        = fun s' => quadNLL c b A x + quadGrad b A x u * s' + quadGrad b A x v * t
          + bil A u u / 2 * s' ^ 2 + (bil A u v + bil A v u) / 2 * (s' * t) + bil A v v / 2 * t ^ 2 := by
      funext s'; exact quadNLL_plane c b A x u v s' t
    rw [e]
    have h1 : HasDerivAt (fun s' : ℝ => quadGrad b A x u * s') (quadGrad b A x u) s := by
      simpa using (hasDerivAt_id' s).const_mul (quadGrad b A x u)
    have h2 : HasDerivAt (fun s' : ℝ => bil A u u / 2 * s' ^ 2) (bil A u u / 2 * (2 * s)) s := by
      have := ((hasDerivAt_id' s).pow 2).const_mul (bil A u u / 2)
      simpa using this
    have h3 : HasDerivAt (fun s' : ℝ => (bil A u v + bil A v u) / 2 * (s' * t))
        ((bil A u v + bil A v u) / 2 * t) s := by
      have := ((hasDerivAt_id' s).mul_const t).const_mul ((bil A u v + bil A v u) / 2)
      simpa using this
    exact ((((((hasDerivAt_const s (quadNLL c b A x)).add h1).add_const _).add h2).add h3).add_const _).congr_deriv
      (by ring)
  · intro s t
    have h1 : HasDerivAt (fun s' : ℝ => bil A u u * s') (bil A u u) s := by
      simpa using (hasDerivAt_id' s).const_mul (bil A u u)
    exact (((hasDerivAt_const s (quadGrad b A x u)).add h1).add_const _).congr_deriv (by ring)
  · intro s t
    have h1 : HasDerivAt (fun t' : ℝ => (bil A u v + bil A v u) / 2 * t') ((bil A u v + bil A v u) / 2) t := by
      simpa using (hasDerivAt_id' t).const_mul ((bil A u v + bil A v u) / 2)
    exact ((hasDerivAt_const t (quadGrad b A x u + bil A u u * s)).add h1).congr_deriv (by ring)

/-- The code's diagonal entry: `fcn` with `x[i]` overwritten, base `x[i]`: `h[i, i] = A i i`. -/
theorem hesse_correct_diag_quadratic {n : Nat} (c : ℝ) (b : Fin n → ℝ) (A : Fin n → Fin n → ℝ)
    (x : Fin n → ℝ) (i : Fin n) (eps : ℝ) (heps : eps ≠ 0) :
    (diag5 (fun s => quadNLL c b A (Function.update x i s)) (x i) eps).1 = A i i
    ∧ (diag5 (fun s => quadNLL c b A (Function.update x i s)) (x i) eps).2 = x i := by
  have h := diag5_quartic (fun s => quadNLL c b A (Function.update x i s)) (x i) eps
    (quadNLL c b A x) (quadGrad b A x (unitVec i)) (bil A (unitVec i) (unitVec i) / 2) 0 0 heps (by
      intro t
      simp only [update_eq_shift]
      rw [quadNLL_plane]
      ring)
  refine ⟨?_, h.2⟩
  rw [h.1, bil_unit]; ring

/-- The code's off-diagonal entry (`i ≠ j`): `h[i, j] = h[j, i] = (A i j + A j i)/2`, which is `A i j` for a
symmetric `A` — the Hessian of `c + b·x + x·A·x/2`. -/
theorem hesse_correct_offdiag_quadratic {n : Nat} (c : ℝ) (b : Fin n → ℝ) (A : Fin n → Fin n → ℝ)
    (x : Fin n → ℝ) (i j : Fin n) (hij : i ≠ j) (eps : ℝ) (heps : eps ≠ 0) :
    let f := fun s t => quadNLL c b A (Function.update (Function.update x i s) j t)
    (offdiag4 f (x i) (x j) eps).1 = (A i j + A j i) / 2
    ∧ (offdiag4 f (x i) (x j) eps).2.1 = x i ∧ (offdiag4 f (x i) (x j) eps).2.2 = x j := by
  intro f
  have h := offdiag4_quartic f (x i) (x j) eps
    (fun a d => match a, d with
      | 0, 0 => quadNLL c b A x
      | 1, 0 => quadGrad b A x (unitVec i)
      | 0, 1 => quadGrad b A x (unitVec j)
      | 2, 0 => bil A (unitVec i) (unitVec i) / 2
      | 1, 1 => (bil A (unitVec i) (unitVec j) + bil A (unitVec j) (unitVec i)) / 2
      | 0, 2 => bil A (unitVec j) (unitVec j) / 2
      | _, _ => 0) heps (by
      intro s t
      simp only [f, update2_eq_shift x i j hij]
      rw [quadNLL_plane]
      ring)
  refine ⟨?_, h.2⟩
  rw [h.1]; simp [bil_unit]

/-- One pass of the loop body of `cal_hesse_correct` at `j = i` on the list-shaped state, for the quadratic NLL:
`h[i][i] := A i i`, the parameter vector is unchanged. -/
theorem hcStep_diag_quadratic {n : Nat} (c : ℝ) (b : Fin n → ℝ) (A : Fin n → Fin n → ℝ) (X : Fin n → ℝ)
    (h : List (List ℝ)) (idxs : List Nat) (i : Fin n) (eps : ℝ) (heps : eps ≠ 0) :
    hcStep diag5 (synthNLL c (List.ofFn b) (List.ofFn fun k => List.ofFn (A k)) []) eps idxs i (h, List.ofFn X) i
      = (mset h i i (A i i), List.ofFn X) := by
  have hf : (fun s => synthNLL c (List.ofFn b) (List.ofFn fun k => List.ofFn (A k)) [] ((List.ofFn X).set i s))
      = fun s => quadNLL c b A (Function.update X i s) := by
    funext s; rw [set_ofFn, synthNLL_ofFn]
  have hq := hesse_correct_diag_quadratic c b A X i eps heps
  simp only [hcStep, Nat.lt_irrefl, decide_false, Bool.and_false, Bool.false_eq_true, if_false, if_true, getD_ofFn, hf,
    hq.1, hq.2]
  rw [set_ofFn, Function.update_eq_self]

theorem hcStep_offdiag_quadratic {n : Nat} (c : ℝ) (b : Fin n → ℝ) (A : Fin n → Fin n → ℝ) (X : Fin n → ℝ)
    (h : List (List ℝ)) (idxs : List Nat) (i j : Fin n) (hij : i ≠ j)
    (hskip : ¬ (idxs.contains (j : Nat) = true ∧ (j : Nat) < i)) (eps : ℝ) (heps : eps ≠ 0) :
    hcStep diag5 (synthNLL c (List.ofFn b) (List.ofFn fun k => List.ofFn (A k)) []) eps idxs i (h, List.ofFn X) j
      = (mset (mset h i j ((A i j + A j i) / 2)) j i ((A i j + A j i) / 2), List.ofFn X) := by
  have hf : (fun s t => synthNLL c (List.ofFn b) (List.ofFn fun k => List.ofFn (A k)) []
        (((List.ofFn X).set i s).set j t))
      = fun s t => quadNLL c b A (Function.update (Function.update X i s) j t) := by
    funext s t; rw [set_ofFn, set_ofFn, synthNLL_ofFn]
  have hq := hesse_correct_offdiag_quadratic c b A X i j hij eps heps
  simp only at hq
  have hne : ¬ ((i : Nat) = (j : Nat)) := fun h' => hij (Fin.ext h')
  have hc : (idxs.contains (j : Nat) && decide ((j : Nat) < i)) = false := by
    by_contra hcon
    simp only [Bool.not_eq_false, Bool.and_eq_true, decide_eq_true_eq] at hcon
    exact hskip hcon
  simp only [hcStep, hc, Bool.false_eq_true, if_false, hne, getD_ofFn, hf, hq.1, hq.2.1, hq.2.2]
  rw [set_ofFn, Function.update_eq_self, set_ofFn, Function.update_eq_self]

example : ∃ (A : Fin 2 → Fin 2 → ℝ) (i j : Fin 2), i ≠ j ∧ A i j = A j i ∧ A i j ≠ 0 :=
  ⟨fun _ _ => 3, 0, 1, by decide, rfl, by norm_num⟩

/-- Beyond quadratics the formulas are NOT exact; the remainder is explicit: on a quartic in the offset the
diagonal branch returns `f''(x) + 10 p₄ ε²` (`f''(x) = 2 p₂`, exact on cubics), the off-diagonal branch
`∂²f/∂x∂y + (q₃₁ + q₁₃) ε²`. -/
theorem second_difference_remainder (g : ℝ → ℝ) (x eps p0 p1 p2 p3 p4 : ℝ) (heps : eps ≠ 0)
    (hg : ∀ t, g (x + t) = p0 + p1 * t + p2 * t ^ 2 + p3 * t ^ 3 + p4 * t ^ 4) :
    (diag5 g x eps).1 - 2 * p2 = 10 * p4 * eps ^ 2 := by
  rw [(diag5_quartic g x eps p0 p1 p2 p3 p4 heps hg).1]; ring

/-- The diagonal branch before fix f92d030 (`nll_mp` used twice) is wrong on every quadratic with a non-zero
gradient: it returns `f'' + 2 f'/(3ε)`. Witness `f(t) = t` at 0 with `ε = 1`: true `f'' = 0`, returned `2/3`. -/
theorem diag5Legacy_violates :
    (diag5Legacy (fun t => t) 0 1).1 = 2 / 3 ∧ (diag5 (fun t => t) 0 1).1 = 0 := by
  constructor <;> norm_num [diag5Legacy, diag5]

/-! ## The positive-definite branch: `force_pos_def`, `force_pos_def_minuit2`, `cal_hesse_error` -/

/-- `pd_unchanged`: for a positive-definite `H`, `force_pos_def(h)` takes the first `return` and hands back
`np.linalg.pinv(h)` untouched — for EVERY list `e` that satisfies the contract of `numpy.linalg.eig` (each entry
is an eigenvalue of `H`: it has a non-zero eigenvector), whatever the two repair paths would do. -/
theorem force_pos_def_pd_unchanged {n : Nat} (H : Fin n → Fin n → ℝ)
    (hpd : ∀ x : Fin n → ℝ, x ≠ 0 → 0 < bil H x x)
    (e : List ℝ) (hne : e ≠ [])
    (heig : ∀ y ∈ e, ∃ v : Fin n → ℝ, v ≠ 0 ∧ ∀ i, ∑ j, H i j * v j = y * v i)
    (pinvH : List (List ℝ)) (rebuildInv : List ℝ → List (List ℝ)) :
    forcePosDef e pinvH rebuildInv = pinvH ∧ forcePosDefBranch e = 0 := by
  have hpos : 0 < lmin e := lmin_pos e hne fun y hy => by
    obtain ⟨v, hv, hev⟩ := heig y hy
    exact eig_pos_of_pd H hpd y v hv hev
  constructor
  · simp only [forcePosDef, gt_iff_lt, hpos, if_true]
  · simp only [forcePosDefBranch, gt_iff_lt, hpos, if_true]

example : ∃ (H : Fin 1 → Fin 1 → ℝ) (e : List ℝ), e ≠ [] ∧
    ∀ y ∈ e, ∃ v : Fin 1 → ℝ, v ≠ 0 ∧ ∀ i, ∑ j, H i j * v j = y * v i :=
  ⟨fun _ _ => 2, [2], by simp, by
    intro y hy
    refine ⟨fun _ => 1, ?_, ?_⟩
    · intro h; have := congrFun h 0; simp at this
    · intro i; simp at hy; simp [hy]⟩

/-- `force_pos_def_minuit2` leaves a matrix with positive diagonal (in particular a positive-definite one)
untouched. -/
theorem minuit2_diag_pos_unchanged (V : List (List ℝ)) (h : 0 < lmin (diagOf V)) : minuit2 V = V := by
  simp only [minuit2, gt_iff_lt, h, if_true]

/-- … and a positive-definite matrix has a positive diagonal, so the hypothesis above holds for it. -/
theorem pd_diag_pos {n : Nat} (V : Fin (n + 1) → Fin (n + 1) → ℝ)
    (hpd : ∀ x : Fin (n + 1) → ℝ, x ≠ 0 → 0 < bil V x x) :
    0 < lmin (diagOf (List.ofFn fun i => List.ofFn (V i))) := by
  rw [diagOf_ofFn]
  apply lmin_pos
  · simp
  · intro y hy
    obtain ⟨k, hk⟩ := (List.mem_ofFn' _ _).mp hy
    have hk' : V k k = y := hk
    rw [← hk', ← bil_unit V k k]
    apply hpd
    intro h
    have := congrFun h k
    simp [unitVec] at this

/-- A positive-definite `H` has at most one right inverse: whatever `inv` / `pinv` return, if it satisfies
`H·X = 1` it is THE inverse. -/
theorem pd_inverse_is_unique {n : Nat} (H X Y : Fin n → Fin n → ℝ)
    (hpd : ∀ x : Fin n → ℝ, x ≠ 0 → 0 < bil H x x)
    (hX : ∀ i k, ∑ j, H i j * X j k = if i = k then 1 else 0)
    (hY : ∀ i k, ∑ j, H i j * Y j k = if i = k then 1 else 0) : X = Y :=
  pd_inverse_unique H X Y hpd hX hY

/-- `check_positive_definite(inv_he)` succeeds when `H` is positive definite: every eigenvalue of the inverse
is positive (contract of `numpy.linalg.eig` on the list `eV`). -/
theorem check_positive_definite_inverse_pd {n : Nat} (H V : Fin n → Fin n → ℝ)
    (hpd : ∀ x : Fin n → ℝ, x ≠ 0 → 0 < bil H x x)
    (hinv : ∀ i k, ∑ j, H i j * V j k = if i = k then 1 else 0)
    (eV : List ℝ) (heig : ∀ y ∈ eV, ∃ v : Fin n → ℝ, v ≠ 0 ∧ ∀ i, ∑ j, V i j * v j = y * v i) :
    allPos eV = true := by
  simp only [allPos, List.all_eq_true, decide_eq_true_eq]
  intro y hy
  obtain ⟨v, hv, hev⟩ := heig y hy
  -- v = H (V v) = y · H v, hence |v|² = y · v·H·v
  have hHv : ∀ i, v i = y * ∑ j, H i j * v j := by
    intro i
    have h1 : ∑ j, H i j * (∑ k, V j k * v k) = v i := by
      have : ∑ j, H i j * (∑ k, V j k * v k) = ∑ k, (∑ j, H i j * V j k) * v k := by
        simp only [Finset.mul_sum, Finset.sum_mul]
        rw [Finset.sum_comm]
        refine Finset.sum_congr rfl fun k _ => Finset.sum_congr rfl fun j _ => ?_
        ring
      rw [this]
      simp only [hinv, ite_mul, one_mul, zero_mul, Finset.sum_ite_eq, Finset.mem_univ, if_true]
    rw [← h1, Finset.mul_sum]
    refine Finset.sum_congr rfl fun j _ => ?_
    rw [hev j]; ring
  have hq := hpd v hv
  have hsq : ∑ i, v i * v i = y * bil H v v := by
    unfold bil
    rw [Finset.mul_sum]
    refine Finset.sum_congr rfl fun i _ => ?_
    have : ∑ l, v i * H i l * v l = v i * ∑ l, H i l * v l := by
      rw [Finset.mul_sum]; refine Finset.sum_congr rfl fun l _ => ?_; ring
    rw [this, show y * (v i * ∑ l, H i l * v l) = v i * (y * ∑ l, H i l * v l) by ring, ← hHv i]
  obtain ⟨k, hk⟩ : ∃ k, v k ≠ 0 := Function.ne_iff.mp hv
  have h3 : 0 < ∑ i, v i * v i :=
    lt_of_lt_of_le (mul_self_pos.mpr hk)
      (Finset.single_le_sum (f := fun i => v i * v i) (fun i _ => mul_self_nonneg (v i)) (Finset.mem_univ k))
  by_contra hy0
  have : y * bil H v v ≤ 0 := mul_nonpos_of_nonpos_of_nonneg (not_lt.mp hy0) hq.le
  linarith

/-- `cal_hesse_error` where the Hessian is positive definite: for every setting of `check_posi_def` /
`force_pos`, every eigenvalue list and every repair function, the returned matrix is THE inverse `V` of `H`
(contracts: `inv` and `pinv` return right inverses; `eig(h)` returns eigenvalues), the returned errors are
`sqrt(V_kk)`, and `V_kk > 0`. -/
theorem cal_hesse_error_pd {n : Nat} (H V P : Fin n → Fin n → ℝ)
    (hpd : ∀ x : Fin n → ℝ, x ≠ 0 → 0 < bil H x x)
    (hinv : ∀ i k, ∑ j, H i j * V j k = if i = k then 1 else 0)
    (hpinv : ∀ i k, ∑ j, H i j * P j k = if i = k then 1 else 0)
    (eH eV : List ℝ) (hne : eH ≠ [])
    (heigH : ∀ y ∈ eH, ∃ v : Fin n → ℝ, v ≠ 0 ∧ ∀ i, ∑ j, H i j * v j = y * v i)
    (rebuildInv : List ℝ → List (List ℝ)) (checkPosi forcePos : Bool) :
    let r := calHesseError checkPosi forcePos (List.ofFn fun i => List.ofFn (V i)) eV
      (forcePosDef eH (List.ofFn fun i => List.ofFn (P i)) rebuildInv) (List.ofFn fun i => List.ofFn (P i))
    r.2 = (List.ofFn fun i => List.ofFn (V i))
    ∧ r.1 = List.ofFn (fun k => Real.sqrt (V k k)) ∧ ∀ k, 0 < V k k := by
  intro r
  have hPV : P = V := pd_inverse_unique H P V hpd hpinv hinv
  have hf := (force_pos_def_pd_unchanged H hpd eH hne heigH (List.ofFn fun i => List.ofFn (P i)) rebuildInv).1
  have hpos : ∀ k, 0 < V k k :=
    TfPwaV.C09.diag_inv_pos H V (fun x hx => by simpa [bil] using hpd x hx) hinv
  have h2 : r.2 = (List.ofFn fun i => List.ofFn (V i)) := by
    simp only [r, calHesseError, hf]
    rw [hPV]
    split_ifs <;> rfl
  refine ⟨h2, ?_, hpos⟩
  have h1 : r.1 = hesseError (diagOf r.2) := rfl
  rw [h1, h2, diagOf_ofFn, hesseError_ofFn]
  congr 1; funext k
  rw [abs_of_pos (hpos k)]

end TfPwaV.C09b
