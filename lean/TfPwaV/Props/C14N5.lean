import TfPwaV.Props.C14N5a
import TfPwaV.Props.C14N5b
import TfPwaV.Props.C14N5c
/-! C14, n = 5: the chain-level statement of `enum_le4_partial` for five final particles, assembled from the three
kernel evaluations (split so that each stays far below 3 min / 6 GB). -/
namespace TfPwaV.C14
open TfPwaV.Topology

/-- ◐ n = 5 instance of the FULL statement documented at `enum_le4_partial` (labelling top = 0, finals = 1..5). -/
theorem enum_5_partial :
    ∃ cs, fromParticles natMk 0 (finalsN 5) = some cs ∧ cs.length = 105
      ∧ (∀ c ∈ cs, isBinaryTree 0 (finalsN 5) c = true)
      ∧ (cs.map (topologyId (fun x : Nat => x))).Nodup
      ∧ (∀ c ∈ cs, roundTrip c = true) := by
  have h1 := enumTrees_5_partial
  have h2 := enumDistinct_5_partial
  have h3 := enumRoundTrip_5_partial
  unfold enumTreesOK at h1
  unfold enumDistinctOK at h2
  unfold enumRoundTripOK at h3
  cases hfp : fromParticles natMk 0 (finalsN 5) with
  | none => rw [hfp] at h1; simp at h1
  | some cs =>
    rw [hfp] at h1 h2 h3
    simp only [List.all_eq_true] at h1 h3
    refine ⟨cs, rfl, ?_, h1, allDistinct_nodup _ h2, h3⟩
    have := fromParticles_count natMk 0 (finalsN 5) cs hfp
    simpa [finalsN, dfact] using this

end TfPwaV.C14
