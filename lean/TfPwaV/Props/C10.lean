import TfPwaV.Proofs.Phsp
/-!
# C10 — phase-space events are physical, exactly counted and Lorentz-invariant flat  (weights, counting)

Theorems over ℝ about `TfPwaV.PhspR`, the ℝ-instance of `templates/Phsp.lean.in` (the *same text* is instantiated
at Float and compared with `tf_pwa.phasespace` on the same uniform numbers on every run).
`r32 = id` selects the model in which `get_p` is evaluated in double precision for Python-float arguments.
The on-shell / momentum-sum theorems are in `Props/C10b.lean`.
-/
open TfPwaV.ScalarR
namespace TfPwaV.C10
open TfPwaV.PhspR

/-- `get_p(M, a, b)` is increasing in `M` for `M ≥ a + b ≥ 0` (all real arguments). -/
theorem q_monotone_M (M1 M2 a b : ℝ) (ha : 0 ≤ a) (hb : 0 ≤ b) (h : a + b ≤ M1) (h12 : M1 ≤ M2) :
    getP M1 a b ≤ getP M2 a b := getP_mono_M ha hb h h12

/-- `get_p(M, a, b)` is decreasing in `a` as long as `a + b ≤ M`. -/
theorem q_monotone_a (M a1 a2 b : ℝ) (ha : 0 ≤ a1) (h12 : a1 ≤ a2) (hb : 0 ≤ b) (h : a2 + b ≤ M) :
    getP M a2 b ≤ getP M a1 b := getP_anti_a ha h12 hb h

example : (0:ℝ) ≤ 0.1 ∧ (0:ℝ) ≤ 0.2 ∧ (0.1:ℝ) + 0.2 ≤ 0.5 ∧ (0.5:ℝ) ≤ 1 := by norm_num

/-- The clamp branch: below threshold (`|a-b| ≤ M ≤ a+b`) `get_p` returns 0. -/
theorem q_clamped (M a b : ℝ) (h1 : (a - b) * (a - b) ≤ M * M) (h2 : M * M ≤ (a + b) * (a + b)) :
    getP M a b = 0 := by
  have : p2Of M a b ≤ 0 := by
    unfold p2Of
    exact mul_nonpos_of_nonpos_of_nonneg (by linarith) (by linarith)
  unfold getP clamp0
  rw [if_pos this]
  simp [ksqrt]

/-- **The acceptance weight never exceeds one** (and is never negative): for every number of bodies, all
non-negative daughter masses, every parent mass with positive Q value, and every mass point in the domain
`generate_mass` can produce (`M_i + r_{i+1} ≤ M_{i+1} ≤ b_i`), with or without the importance factor. -/
theorem weight_le_one (m0 : ℝ) (mass ms : List ℝ) (imp : Bool) (hpos : ∀ m ∈ mass, 0 ≤ m)
    (hQ : 0 < teCm m0 mass) (hdom : InDomain m0 mass ms) :
    0 ≤ getWeight id m0 mass imp ms ∧ getWeight id m0 mass imp ms ≤ 1 := by
  unfold InDomain at hdom
  cases h : mass.reverse with
  | nil => rw [h] at hdom; simp [InDomainAux] at hdom
  | cons r0 t =>
    cases t with
    | nil => rw [h] at hdom; simp [InDomainAux] at hdom
    | cons r1 rest =>
      rw [h] at hdom
      simp only [List.drop_succ_cons, List.drop_zero, List.headD_cons] at hdom
      obtain ⟨hsum, hposeq⟩ := reverse_facts h
      have hp : ∀ m ∈ r0 :: r1 :: rest, 0 ≤ m := by rw [← hposeq]; exact hpos
      have hr0 : 0 ≤ r0 := hp r0 (by simp)
      have hr1 : 0 ≤ r1 := hp r1 (by simp)
      have hrest : ∀ x ∈ rest, 0 ≤ x := fun x hx => hp x (by simp [hx])
      have hT : teCm m0 mass = m0 - (r0 + r1 + rest.sum) := by rw [teCm_eq, hsum]
      have hsm : sm0 mass = rest.sum := by
        unfold sm0; rw [h, sumMass_eq, hsum]; simp only [List.drop_succ_cons, List.drop_zero, List.headD_cons]; ring
      obtain ⟨hq0, hq1⟩ := prod_le_wtMaxAux m0 rest r0 r1 r0 true ms (teCm m0 mass + r0) 0 (sm0 mass)
        hr0 hr1 hrest (le_refl 0) (by linarith) (by rw [hsm, hT]; ring) hsm (by rw [hsm]; linarith) hdom
      have hret0 : 0 ≤ prodL (qListAux id m0 r0 true ms (r1 :: rest)) / wtMaxAux id (r0 :: r1 :: rest) (teCm m0 mass + r0) 0 1 :=
        div_nonneg hq0 (le_trans hq0 hq1)
      have hret1 : prodL (qListAux id m0 r0 true ms (r1 :: rest)) / wtMaxAux id (r0 :: r1 :: rest) (teCm m0 mass + r0) 0 1 ≤ 1 :=
        div_le_one_of_le₀ hq1 (le_trans hq0 hq1)
      obtain ⟨hi0, hi1⟩ := importancesAux_range m0 (r1 :: rest) ms true r0 r0 (sm0 mass) 1 (le_refl _) hdom zero_le_one (le_refl _)
      unfold getWeight wtMax massImportances massRange
      simp only [h, List.drop_succ_cons, List.drop_zero, List.headD_cons]
      cases imp with
      | false => simp only [Bool.false_eq_true, if_false]; exact ⟨hret0, hret1⟩
      | true =>
        simp only [if_true]
        refine ⟨mul_nonneg hi0 hret0, ?_⟩
        calc _ ≤ 1 * 1 := mul_le_mul hi1 hret1 hret0 zero_le_one
          _ = 1 := one_mul 1

/-- … in particular for everything `generate_mass` returns when fed uniform numbers in [0,1]. -/
theorem weight_le_one_generated (m0 : ℝ) (mass us : List ℝ) (imp : Bool) (hpos : ∀ m ∈ mass, 0 ≤ m)
    (hQ : 0 < teCm m0 mass) (hu : ∀ u ∈ us, 0 ≤ u ∧ u ≤ 1) (hlen : us.length + 2 = mass.length) :
    0 ≤ getWeight id m0 mass imp (generateMass m0 mass us) ∧
      getWeight id m0 mass imp (generateMass m0 mass us) ≤ 1 := by
  apply weight_le_one m0 mass _ imp hpos hQ
  unfold InDomain generateMass
  cases h : mass.reverse with
  | nil =>
    have : mass.length = 0 := by rw [← List.length_reverse, h]; rfl
    omega
  | cons r0 t =>
    cases t with
    | nil =>
      have : mass.length = 1 := by rw [← List.length_reverse, h]; rfl
      omega
    | cons r1 rest =>
      simp only [List.drop_succ_cons, List.drop_zero, List.headD_cons]
      obtain ⟨hsum, _⟩ := reverse_facts h
      have hlen' : us.length = rest.length := by
        have : mass.length = rest.length + 2 := by rw [← List.length_reverse, h]; simp
        omega
      apply generateMassAux_inDomain m0 rest r1 us r0 (sm0 mass) hu hlen'
      have hsm : sm0 mass = rest.sum := by
        unfold sm0; rw [h, sumMass_eq, hsum]; simp only [List.drop_succ_cons, List.drop_zero, List.headD_cons]; ring
      rw [hsm]
      rw [teCm_eq, hsum] at hQ
      linarith

-- non-vacuity: a 4-body decay 1.0 → 0.1 0.2 0 0.3 with uniform numbers 0.25, 0.5
example : (∀ m ∈ ([0.1, 0.2, 0, 0.3] : List ℝ), 0 ≤ m) ∧ 0 < teCm 1.0 [0.1, 0.2, 0, 0.3] ∧
    (∀ u ∈ ([0.25, 0.5] : List ℝ), 0 ≤ u ∧ u ≤ 1) ∧ ([0.25, 0.5] : List ℝ).length + 2 = ([0.1, 0.2, 0, 0.3] : List ℝ).length := by
  refine ⟨?_, ?_, ?_, rfl⟩
  · intro m hm; simp at hm; rcases hm with h | h | h | h <;> rw [h] <;> norm_num
  · simp [teCm]; norm_num
  · intro u hu; simp at hu; rcases hu with h | h <;> rw [h] <;> norm_num

/-- The bound `weight ≤ 1` is FALSE on the bare box `get_mass_range()` (the hypothesis `InDomain` of `weight_le_one`
cannot be weakened to it): four massless daughters of a parent of mass 1, mass point `(0.9, 0.01)` — inside the
box `[0,1]²` but with `M₂ < M₁`, which `generate_mass` never produces; `get_p` has no clamp below `|a-b|` — has
weight `≈ 7.29`.  Only `cal_max_weight()` evaluates weights there. -/
theorem weight_exceeds_one_off_domain :
    massRange 1 [0, 0, 0, 0] = [(0, 1), (0, 1)] ∧ 7 < getWeight id 1 [0, 0, 0, 0] true [9 / 10, 1 / 100] := by
  constructor
  · simp [massRange, massRangeAux, sm0, sumMass]
  · simp only [getWeight, wtMax, wtMaxAux, massImportances, massRange, massRangeAux, importancesAux, qListAux, sm0, sumMass, teCm,
      List.reverse_cons, List.reverse_nil, List.nil_append, List.cons_append, List.headD_cons, List.drop_succ_cons, List.drop_zero,
      List.foldl_cons, List.foldl_nil, getPpy_id, getPm_id, prodL, if_true, Bool.false_eq_true, if_false, getP_massless]
    norm_num [abs_of_nonneg, abs_of_neg]

/-- `cal_max_weight()` (optional; `scipy.optimize.minimize` is a parameter of the model, `xopt` the point it
returns): the weight afterwards is the old weight divided by `1.001 · weight(xopt)` — all inputs. -/
theorem calmax_rescales (r32 : ℝ → ℝ) (m0 : ℝ) (mass : List ℝ) (imp : Bool) (xopt ms : List ℝ) :
    getWeightCal r32 m0 mass imp xopt ms
      = getWeight r32 m0 mass imp ms / (getWeight r32 m0 mass true xopt * 1.001) :=
  getWeightCal_eq r32 m0 mass imp xopt ms

/-- … hence after `cal_max_weight()` the acceptance weight of a mass point is `≤ 1` **iff** the optimiser's point
is within 0.1 % of that point's weight: the bound then rests entirely on `scipy.optimize.minimize` having found the
global maximum (NOT verified; the search shows on the implementation that it often has not). -/
theorem calmax_weight_le_one_iff (m0 : ℝ) (mass : List ℝ) (imp : Bool) (xopt ms : List ℝ)
    (h : 0 < getWeight id m0 mass true xopt) :
    getWeightCal id m0 mass imp xopt ms ≤ 1 ↔
      getWeight id m0 mass imp ms ≤ 1.001 * getWeight id m0 mass true xopt := by
  rw [getWeightCal_eq, div_le_one (by positivity), mul_comm]

/-- With a non-optimal `xopt` the weight after `cal_max_weight()` exceeds one: three massless daughters of a parent
of mass 1, optimiser point `M₁ = 0.1`, mass point `M₁ = 0.5` (both inside the generated domain): weight `> 3`. -/
theorem calmax_weight_exceeds_one_example :
    0 < getWeight id 1 [0, 0, 0] true [1 / 10] ∧ 3 < getWeightCal id 1 [0, 0, 0] true [1 / 10] [1 / 2] := by
  constructor
  · simp only [getWeight, wtMax, wtMaxAux, massImportances, massRange, massRangeAux, importancesAux, qListAux, sm0, sumMass, teCm,
      List.reverse_cons, List.reverse_nil, List.nil_append, List.cons_append, List.headD_cons, List.drop_succ_cons, List.drop_zero,
      List.foldl_cons, List.foldl_nil, getPpy_id, getPm_id, prodL, if_true, Bool.false_eq_true, if_false, getP_massless]
    norm_num [abs_of_nonneg, abs_of_neg]
  · rw [getWeightCal_eq]
    simp only [getWeight, wtMax, wtMaxAux, massImportances, massRange, massRangeAux, importancesAux, qListAux, sm0, sumMass, teCm,
      List.reverse_cons, List.reverse_nil, List.nil_append, List.cons_append, List.headD_cons, List.drop_succ_cons, List.drop_zero,
      List.foldl_cons, List.foldl_nil, getPpy_id, getPm_id, prodL, if_true, Bool.false_eq_true, if_false, getP_massless]
    norm_num [abs_of_nonneg, abs_of_neg]

/-- **Flat density**: proposal density of the mass vector (`generate_mass`: each `M_{i+1}` uniform on
`[M_i + r_{i+1}, b_i]`) × acceptance weight (with the importance factor) `= C · Π qᵢ` with
`C = 1 / (Q^{n-2} · wtMax)` independent of the mass point — the accepted masses follow the recursive
phase-space spectrum.  Every `n`, every mass point with non-degenerate proposal intervals. -/
theorem flat_density (m0 : ℝ) (mass ms : List ℝ) (hQ : teCm m0 mass ≠ 0) (hlen : ms.length + 2 = mass.length)
    (hok : PropOK m0 mass ms) :
    proposal m0 mass ms * getWeight id m0 mass true ms =
      (1 / (teCm m0 mass ^ ms.length * wtMax id m0 mass)) *
        prodL (qListAux id m0 (mass.reverse.headD 0) true ms (mass.reverse.drop 1)) := by
  unfold PropOK at hok
  unfold proposal getWeight massImportances massRange
  cases h : mass.reverse with
  | nil =>
    have : mass.length = 0 := by rw [← List.length_reverse, h]; rfl
    omega
  | cons r0 t =>
    cases t with
    | nil =>
      have : mass.length = 1 := by rw [← List.length_reverse, h]; rfl
      omega
    | cons r1 rest =>
      rw [h] at hok
      simp only [List.drop_succ_cons, List.drop_zero, List.headD_cons, if_true] at hok ⊢
      obtain ⟨hsum, _⟩ := reverse_facts h
      have hsm : sm0 mass = rest.sum := by
        unfold sm0; rw [h, sumMass_eq, hsum]; simp only [List.drop_succ_cons, List.drop_zero, List.headD_cons]; ring
      have hT : m0 - sm0 mass - (r0 + r1) = teCm m0 mass := by rw [teCm_eq, hsum, hsm]; ring
      have hml : mass.length = rest.length + 2 := by rw [← List.length_reverse, h]; simp
      cases ms with
      | nil =>
        cases rest with
        | nil => simp [importancesAux, proposalAux]; ring
        | cons r2 rest' => simp at hml hlen; omega
      | cons m ms' =>
        cases rest with
        | nil => simp at hml hlen; omega
        | cons r2 rest' =>
          simp only [PropOKAux] at hok
          obtain ⟨_, hok'⟩ := hok
          simp only [massRangeAux, importancesAux, proposalAux, if_true]
          have key := imp_times_proposal m0 (teCm m0 mass) hQ rest' r2 ms' m (r0 + r1) (sm0 mass - r2) 1
            (by simp at hlen hml; omega) (by linarith) hok'
          rw [hT]
          set W := wtMax id m0 mass
          set P := prodL (qListAux id m0 r0 true (m :: ms') (r1 :: r2 :: rest'))
          have : 1 / teCm m0 mass * proposalAux m0 (r2 :: rest') ms' m (sm0 mass - r2) *
              (importancesAux m0 (r2 :: rest') ms' (massRangeAux m0 (r2 :: rest') (r0 + r1) (sm0 mass - r2)) false m (sm0 mass - r2) 1 * (P / W))
              = 1 / teCm m0 mass * (importancesAux m0 (r2 :: rest') ms' (massRangeAux m0 (r2 :: rest') (r0 + r1) (sm0 mass - r2)) false m (sm0 mass - r2) 1
                  * proposalAux m0 (r2 :: rest') ms' m (sm0 mass - r2)) * (P / W) := by ring
          rw [this, key]
          simp only [List.length_cons, pow_succ]
          field_simp

-- non-vacuity of `flat_density`: 1.0 → 0.1 0.2 0 0.3 at the mass point (0.4, 0.7)
example : teCm 1.0 [0.1, 0.2, 0, 0.3] ≠ 0 ∧ PropOK 1.0 [0.1, 0.2, 0, 0.3] [0.4, 0.7] := by
  constructor
  · simp [teCm]; norm_num
  · simp [PropOK, PropOKAux, sm0, sumMass]; norm_num

/-- **Exact count**: whenever `generate(N)` returns (the refill loop exits and the supplied draws suffice), it
returns exactly `N` events — for every rounding mode `r32`, every refill guess formula, every stream of draws. -/
theorem exact_count (r32 : ℝ → ℝ) (guess : Nat → Nat → Nat → Nat) (m0 : ℝ) (mass : List ℝ) (imp : Bool) (N : Nat)
    (ds ds' : List (List ℝ)) (ev : List (List TfPwaV.KinR.V4)) (nTotal : Nat)
    (h : generate r32 m0 mass guess imp N ds = some (ev, nTotal, ds')) : ev.length = N := by
  unfold generate at h
  split at h
  · cases hm : momentaB r32 m0 mass (List.replicate N []) ds with
    | none => rw [hm] at h; simp at h
    | some q =>
      obtain ⟨ev1, ds1⟩ := q
      rw [hm] at h
      simp only [Option.some.injEq, Prod.mk.injEq] at h
      obtain ⟨h1, _⟩ := h
      subst h1
      rw [momentaB_length hm]; simp
  · cases hb : batch r32 m0 mass imp N ds with
    | none => rw [hb] at h; simp at h
    | some q =>
      obtain ⟨acc, ds1⟩ := q
      rw [hb] at h
      simp only at h
      cases hr : refill r32 m0 mass guess N ds1.length acc acc.length N ds1 with
      | none => rw [hr] at h; simp at h
      | some q2 =>
        obtain ⟨acc2, nT, ds2⟩ := q2
        rw [hr] at h
        simp only at h
        cases hm : momentaB r32 m0 mass (acc2.take N) ds2 with
        | none => rw [hm] at h; simp at h
        | some q3 =>
          obtain ⟨ev1, ds3⟩ := q3
          rw [hm] at h
          simp only [Option.some.injEq, Prod.mk.injEq] at h
          obtain ⟨h1, _⟩ := h
          subst h1
          rw [momentaB_length hm, List.length_take]
          have := refill_length _ _ _ _ _ _ _ _ hr rfl
          omega

-- non-vacuity of `exact_count`: a two-body decay with one event and the two draws (cos θ, φ) it needs returns
example : ∃ ev nT ds', generate id 1 [0.3, 0.2] (fun _ _ _ => 1) true 1 [[0.5], [0.5]] = some (ev, nT, ds') := by
  simp [generate, momentaB, drawMany, draw]

/-- The refill loop only ever adds accepted points and never returns with fewer than `N`. -/
theorem refill_enough (r32 : ℝ → ℝ) (guess : Nat → Nat → Nat → Nat) (m0 : ℝ) (mass : List ℝ) (N fuel : Nat)
    (acc acc' : List (List ℝ)) (nTotal nT : Nat) (ds ds' : List (List ℝ))
    (h : refill r32 m0 mass guess N fuel acc acc.length nTotal ds = some (acc', nT, ds')) : N ≤ acc'.length :=
  refill_length _ _ _ _ _ _ _ _ h rfl

end TfPwaV.C10
