import TfPwaV.Props.C19
/-!
# C19 (continued) — key order of the particle section, aliases together with `$include`, the scope guard

All statements are about `Card.expand` of `TfPwaV.Model.Config`; `view` (from `Props/C19`) is what is observable of
a load: the ORDERED chain list, the (l,s) lists and the ORDERED parameter-name list, or the error kind.
Equality of `view` therefore implies equality of the chain set and of the parameter-name set.
-/
namespace TfPwaV.C19
open TfPwaV.Config

/-! ## the loader reads particle dicts only through `qnOf` and `hasWidth` -/

/-- two property tables the loader cannot tell apart -/
def PropsAgree (p p' : List (Name × PDict)) : Prop :=
  ∀ n, qnOf ((getKV p n).getD []) = qnOf ((getKV p' n).getD []) ∧
       hasWidth ((getKV p n).getD []) = hasWidth ((getKV p' n).getD [])

theorem ls_congr {p p' : List (Name × PDict)} (h : PropsAgree p p') (regs : List (BDecay × DOpt)) :
    (Ctx.mk p' regs).ls = (Ctx.mk p regs).ls := by
  funext d
  unfold Ctx.ls qnOfName Ctx.optOf
  simp only [(h _).1]

theorem paramNames_congr {p p' : List (Name × PDict)} (h : PropsAgree p p') (regs : List (BDecay × DOpt)) :
    (Ctx.mk p' regs).paramNames = (Ctx.mk p regs).paramNames := by
  funext chains
  unfold Ctx.paramNames
  have hl := ls_congr h regs
  have hw : ∀ n, hasWidth ((getKV p' n).getD []) = hasWidth ((getKV p n).getD []) := fun n => ((h n).2).symm
  simp only [hw, hl]

/-- Congruence of the whole loader: same `$top`, `$finals`, same registered decays and indistinguishable property
tables give the same observable outcome. -/
theorem expand_congr (c c' : Card) (htop : c'.top = c.top) (hfin : c'.finals = c.finals)
    (hctx : (c.context = none ∧ c'.context = none) ∨
      ∃ p p' regs, c.context = some ⟨p, regs⟩ ∧ c'.context = some ⟨p', regs⟩ ∧ PropsAgree p p') :
    view c'.expand = view c.expand := by
  unfold Card.expand
  rcases hctx with ⟨h1, h2⟩ | ⟨p, p', regs, h1, h2, hp⟩
  · rw [h1, h2]
  · rw [h1, h2, htop, hfin]
    simp only
    cases candidates (regs.map (·.1)) c.top c.finals with
    | none => rfl
    | some cand =>
      have hl := ls_congr hp regs
      have hs : (Ctx.mk p' regs).survives = (Ctx.mk p regs).survives := by
        funext ch; unfold Ctx.survives; rw [hl]
      have hn := paramNames_congr hp regs
      simp only [hs]
      by_cases h3 : (!cand.all simpleChain) = true
      · simp only [h3, if_true]
      · by_cases h4 : (cand.filter (Ctx.mk p regs).survives).isEmpty = true
        · simp only [h3, h4, if_true]
        · simp [h3, h4, view, hl, hn]

/-! ## generic dict lemmas -/

theorem getKV_setKV_gen {β : Type} (a : List (String × β)) (k' k : String) (v' : β) :
    getKV (setKV a k' v') k = if k' = k then some v' else getKV a k := by
  induction a with
  | nil => simp [setKV, getKV]
  | cons y ys ih =>
    simp only [setKV]
    split
    · rename_i hy
      simp only [getKV]
      by_cases hk : k' = k
      · simp [hy, hk]
      · have : ¬ y.1 = k := by rw [hy]; exact hk
        simp [this, hk]
    · rename_i hy1
      simp only [getKV]
      split
      · rename_i hy2
        have : ¬ k' = k := by intro e; apply hy1; rw [hy2, e]
        simp [this]
      · exact ih

theorem getKV_updKV_congr {β : Type} (a a' b : List (String × β)) (h : ∀ n, getKV a n = getKV a' n) :
    ∀ n, getKV (updKV a b) n = getKV (updKV a' b) n := by
  unfold updKV
  induction b generalizing a a' with
  | nil => exact h
  | cons x xs ih =>
    simp only [List.foldl_cons]
    apply ih
    intro n
    rw [getKV_setKV_gen, getKV_setKV_gen, h n]

/-! ## (1) the order of the keys of the particle section is irrelevant -/

theorem particleMap_keys_sublist (d : List PEntry) : ((particleMap d).map (·.1)).Sublist (d.map PEntry.key) := by
  unfold particleMap
  induction d with
  | nil => exact List.Sublist.slnil
  | cons x xs ih =>
    cases x with
    | cands n l => simpa [List.filterMap_cons, PEntry.key] using ih.cons_cons n
    | props n p => simpa [List.filterMap_cons, PEntry.key] using ih.cons n

theorem particleProp_keys_sublist (d : List PEntry) : ((particleProp d).map (·.1)).Sublist (d.map PEntry.key) := by
  unfold particleProp
  induction d with
  | nil => exact List.Sublist.slnil
  | cons x xs ih =>
    cases x with
    | cands n l => simpa [List.filterMap_cons, PEntry.key] using ih.cons n
    | props n p => simpa [List.filterMap_cons, PEntry.key] using ih.cons_cons n

theorem registerAll_congr (pm pm' : List (Name × List Name)) (decs : List DecEntry)
    (h : ∀ n, getKV pm n = getKV pm' n) : registerAll pm decs = registerAll pm' decs := by
  have hi : instances pm = instances pm' := by
    funext e
    unfold instances wrap
    simp only [h]
  unfold registerAll
  rw [hi]

/-- Key order of the `particle` section.  For every card without `$include` whose particle section has distinct
keys (any Python dict), every permutation of the entries of the particle section gives the same outcome: the same
ORDERED chain list, the same (l,s) lists, the same ORDERED parameter names (a fortiori the same sets).  The order
of the chain list is therefore a function of the decay section and of the candidate lists alone: it is
`(chain_decay top).filter …`, i.e. decays of a mother in the order `for dec in decay-section: for core-candidate:
for out-candidates (first daughter slowest)`, the first of two equal declarations keeping its place, and the chains of
one decay in the order `for chains of daughter 1: for chains of daughter 2` (`registerAll`, `combine_eq`). -/
theorem particle_order_irrelevant (c : Card) (q : List PEntry) (hinc : c.includes = [])
    (hp : q.Perm c.particle) (hn : (c.particle.map PEntry.key).Nodup) :
    view ({ c with particle := q } : Card).expand = view c.expand := by
  have hn' : (q.map PEntry.key).Nodup := (hp.map PEntry.key).nodup_iff.2 hn
  have hpm : ∀ n, getKV (particleMap c.particle) n = getKV (particleMap q) n := by
    intro n
    apply getKV_perm
    · unfold particleMap; exact (hp.symm.filterMap _)
    · exact (particleMap_keys_sublist c.particle).nodup hn
  have hpp : ∀ n, getKV (particleProp c.particle) n = getKV (particleProp q) n := by
    intro n
    apply getKV_perm
    · unfold particleProp; exact (hp.symm.filterMap _)
    · exact (particleProp_keys_sublist c.particle).nodup hn
  refine expand_congr c { c with particle := q } rfl rfl ?_
  unfold Card.context
  simp only [hinc, mergeIncludes, List.foldlM_nil, Option.pure_def]
  cases decayItem c.decay with
  | none => left; exact ⟨rfl, rfl⟩
  | some decs =>
    right
    refine ⟨c.props c.particle, c.props q, registerAll (particleMap c.particle) decs, rfl, ?_, ?_⟩
    · simp only [Option.bind_eq_bind, Option.bind_some]
      rw [registerAll_congr _ _ decs hpm]
      rfl
    · intro n
      have hg : getKV (c.props c.particle) n = getKV (c.props q) n := by
        unfold Card.props
        cases c.topDict with
        | none =>
          cases c.finalsDict with
          | none => exact hpp n
          | some fd => exact getKV_updKV_congr _ _ fd hpp n
        | some td =>
          have h1 : ∀ m, getKV (setKV (particleProp c.particle) c.top td) m = getKV (setKV (particleProp q) c.top td) m := by
            intro m; rw [getKV_setKV_gen, getKV_setKV_gen, hpp m]
          cases c.finalsDict with
          | none => exact h1 n
          | some fd => exact getKV_updKV_congr _ _ fd h1 n
      rw [hg]
      exact ⟨rfl, rfl⟩

example : ∃ q, q.Perm exCard.particle ∧ q ≠ exCard.particle ∧ (exCard.particle.map PEntry.key).Nodup :=
  ⟨exCard.particle.reverse, List.reverse_perm _, by decide +kernel, by decide +kernel⟩

/-! ## (3) the scope guard: the model declines exactly on chains with a repeated name -/

/-- The model answers `unsupported` exactly when the card is well-formed, acyclic, and some candidate chain (a tree
from `$top` to `$finals`) contains a particle name twice as mother or twice as daughter — the only situation in
which the loader's `name:id` counters produce an id other than 0.  Everywhere else the model commits to an answer. -/
theorem unsupported_iff (c : Card) :
    c.expand = .raise "unsupported" ↔
      ∃ ctx cand, c.context = some ctx ∧ candidates (regsOf ctx) c.top c.finals = some cand ∧
        ∃ ch ∈ cand, ¬ ((chainCores ch).Nodup ∧ (chainOuts ch).Nodup) := by
  unfold Card.expand regsOf
  cases c.context with
  | none =>
    constructor
    · intro h; simp only [Outcome.raise.injEq] at h; exact absurd h (by decide)
    · rintro ⟨_, _, h, _⟩; simp at h
  | some ctx =>
    cases hd : candidates (ctx.regs.map (·.1)) c.top c.finals with
    | none =>
      simp only [hd]
      constructor
      · intro h; simp only [Outcome.raise.injEq] at h; exact absurd h (by decide)
      · rintro ⟨ctx', cand, h, h2, _⟩
        simp only [Option.some.injEq] at h
        subst h; rw [hd] at h2; simp at h2
    | some cand =>
      have key : (!cand.all simpleChain) = true ↔ ∃ ch ∈ cand, ¬ ((chainCores ch).Nodup ∧ (chainOuts ch).Nodup) := by
        simp [simpleChain]
      simp only [hd]
      by_cases h : (!cand.all simpleChain) = true
      · rw [if_pos h]
        constructor
        · intro _; exact ⟨ctx, cand, rfl, hd, key.1 h⟩
        · intro _; rfl
      · rw [if_neg h]
        constructor
        · intro hw
          exfalso
          split at hw
          · simp only [Outcome.raise.injEq] at hw; exact absurd hw (by decide)
          · simp at hw
        · rintro ⟨ctx', cand', h1, h2, hx⟩
          simp only [Option.some.injEq] at h1
          subst h1
          rw [hd] at h2
          simp only [Option.some.injEq] at h2
          subst h2
          exact absurd (key.2 hx) h

end TfPwaV.C19
