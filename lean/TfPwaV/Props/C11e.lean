import TfPwaV.Proofs.CascadeL
/-!
# C11 (helicity-angle clause, BOOKKEEPING) — the `DecayChain` bookkeeping of `HelicityAngle` around the cascade model

Model: `Model/ChainL.lean` (scalar-free: a chain is the LIST of its decays in listing order, `depth_first()`,
`node_map`) and `templates/CascadeL.lean.in` (ℝ instance `TfPwaV.CascadeLR`; the Float instance of the same text is compared
on every run with the real `HelicityAngle` on all 3–5-body topologies in seeded listing orders):
`build_data` files the POSITIONAL `costheta[j]`, `phi[j]` under the j-th LISTED decay, `create_rotate_p_decay` walks the
chain depth-first, `find_variable` returns positional lists over the listing again; `get_mass_range`, `mass_linspace`,
`get_all_mass`, `eval_phsp_factor` / `get_phsp_factor`.

1. `cascade_roundtrip_listed`, `cascade_roundtrip_any_listing`: the round trip of `Props/C11d.lean` for ANY listing order.
2. `mass_range_sound_complete`, `mass_linspace_inside`.
3. `phsp_factor_perm`, `phsp_factor_seq_eq_c10`, `get_phsp_factor_eq_c10_weight`: tie to the weight model of C10
   (`templates/Phsp.lean.in`).
-/
open TfPwaV.ScalarR
namespace TfPwaV.C11
open TfPwaV.KinR TfPwaV.CascadeR TfPwaV.CascadeLR TfPwaV.ChainL

/-! ## 1. listing order -/

/-- **Cascade round trip in any listing order** (list level).  For EVERY list of decays `ch` (any order, any numbering),
every top particle, all masses and all positional lists `costheta`, `phi` of the right length: if `depth_first()` from the
top reaches every listed decay (true for every listing of a decay tree, see `cascade_roundtrip_any_listing`), and the tree
that `create_rotate_p_decay` then works on satisfies the hypotheses of `cascade_roundtrip` (thresholds, the code's
ε-guards, open angle ranges), then `find_variable(cal_angle(build_data(ms, costheta, phi)))` returns
the mass of every particle, and `costheta`, `phi` AS LISTS — the j-th entry comes back at position j. -/
theorem cascade_roundtrip_listed (ch : List Dec) (top : Nat) (mass : Nat → ℝ) (cs phis : List ℝ)
    (hc : cs.length = ch.length) (hp : phis.length = ch.length)
    (hreach : ∀ j, j < ch.length → j ∈ (depthFirstTop ch top).idxs)
    (hB : RegB (assemble ch top mass cs phis)) (hA : RegA 1 (assemble ch top mass cs phis))
    (hd : Decays (assemble ch top mass cs phis)) :
    roundL ch top mass cs phis = ((depthFirstTop ch top).ids.map (fun i => (i, mass i)), cs, phis) := by
  unfold roundL
  rw [cascade_roundtrip _ hB hA hd]
  unfold findVariableL assemble
  simp only [anglesOf_toD, massesOf_toD]
  have key : ∀ j ∈ List.range ch.length,
      ((List.map (fun j => (j, cs.getD j 0, phis.getD j 0)) (depthFirstTop ch top).idxs).lookup j).getD (0, 0)
        = (cs.getD j 0, phis.getD j 0) := by
    intro j hj
    rw [lookup_map_self (fun j => (cs.getD j 0, phis.getD j 0)) _ j (hreach j (List.mem_range.mp hj))]
    rfl
  refine Prod.ext rfl (Prod.ext ?_ ?_)
  · show List.map _ _ = cs
    rw [List.map_congr_left (fun j hj => by rw [key j hj])]
    exact range_map_getD cs _ hc
  · show List.map _ _ = phis
    rw [List.map_congr_left (fun j hj => by rw [key j hj])]
    exact range_map_getD phis _ hp

/-- **Cascade round trip for every decay tree in EVERY listing order of its decays.**  `t` is any labelled binary decay
tree with pairwise different particle names, `ch` ANY permutation of its decays (depth-first pre-order is just one of them).
Then (a) `depth_first()` walks exactly `t`, each decay tagged with its position in `ch`; (b) under the hypotheses of
`cascade_roundtrip` for the tree in which the decay listed at position j carries `costheta[j]`, `phi[j]`, the round trip
`find_variable ∘ cal_angle ∘ build_data` returns all masses and the two positional lists unchanged. -/
theorem cascade_roundtrip_any_listing (t : LTree) (hnames : (t.cores ++ t.leafIds).Nodup)
    (ch : List Dec) (hperm : ch.Perm t.decs) (mass : Nat → ℝ) (cs phis : List ℝ)
    (hc : cs.length = ch.length) (hp : phis.length = ch.length)
    (hB : RegB (toD mass cs phis (t.tag ch))) (hA : RegA 1 (toD mass cs phis (t.tag ch)))
    (hd : Decays (toD mass cs phis (t.tag ch))) :
    depthFirstTop ch t.id = t.tag ch ∧
    roundL ch t.id mass cs phis = (t.ids.map (fun i => (i, mass i)), cs, phis) := by
  obtain ⟨hwalk, hreach⟩ := depthFirstTop_perm t hnames ch hperm
  refine ⟨hwalk, ?_⟩
  have := cascade_roundtrip_listed ch t.id mass cs phis hc hp (by rw [hwalk]; exact hreach)
    (by unfold assemble; rw [hwalk]; exact hB) (by unfold assemble; rw [hwalk]; exact hA)
    (by unfold assemble; rw [hwalk]; exact hd)
  rw [this, hwalk, LTree.ids_tag]

/-- `build_data` returns one momentum per final particle, keyed in depth-first order of the finals (all chains, all inputs). -/
theorem build_data_keys (ch : List Dec) (top : Nat) (mass : Nat → ℝ) (cs phis : List ℝ) :
    (buildDataL ch top mass cs phis).map (·.1) =
      ((depthFirstTop ch top).leafIds.zip (buildData (assemble ch top mass cs phis)).leaves).map (·.1) := rfl

/-! non-vacuity: the branching 4-body cascade of `Props/C11d.lean`, `A(0) → R1(1) + R2(2)`, `R1 → 3 + 4`, `R2 → 5 + 6`,
LISTED BOTTOM-UP `[R2→5+6, R1→3+4, A→R1+R2]` (not depth-first), `phi = [1, 1.5, 0.5]` positional -/

example :
    let t : LTree := .node 0 (.node 1 (.leaf 3) (.leaf 4)) (.node 2 (.leaf 5) (.leaf 6))
    let ch : List Dec := [⟨2, 5, 6⟩, ⟨1, 3, 4⟩, ⟨0, 1, 2⟩]
    let mass : Nat → ℝ := fun i => if i = 0 then 4 else if i ≤ 2 then 1 else 0
    (t.cores ++ t.leafIds).Nodup ∧ ch.Perm t.decs ∧
    toD mass [0, 0, 0] [1, 1.5, 0.5] (t.tag ch) =
      .node 4 0 0.5 (.node 1 0 1.5 (.leaf 0) (.leaf 0)) (.node 1 0 1 (.leaf 0) (.leaf 0)) ∧
    RegB (toD mass [0, 0, 0] [1, 1.5, 0.5] (t.tag ch)) ∧ RegA 1 (toD mass [0, 0, 0] [1, 1.5, 0.5] (t.tag ch)) ∧
    Decays (toD mass [0, 0, 0] [1, 1.5, 0.5] (t.tag ch)) := by
  intro t ch mass
  have hT : toD mass [0, 0, 0] [1, 1.5, 0.5] (t.tag ch) =
      .node 4 0 0.5 (.node 1 0 1.5 (.leaf 0) (.leaf 0)) (.node 1 0 1 (.leaf 0) (.leaf 0)) := by
    have : t.tag ch = .node 0 2 (.node 1 1 (.leaf 3) (.leaf 4)) (.node 2 0 (.leaf 5) (.leaf 6)) := by rfl
    rw [this]
    simp [toD, mass]
  have e : eps = 1.0e-14 := rfl
  have hpi := Real.two_le_pi
  have h4 := ex_P4
  have h4' := ex_P4_ge
  refine ⟨by decide, by decide, hT, ?_, ?_, ?_⟩
  · rw [hT]
    simp only [RegB, DTree.mass, Decays, VelGuard, ex_P1, h4]
    rw [e]; norm_num
  · rw [hT]
    simp only [RegA, DTree.mass, ex_P1]
    rw [e]
    norm_num
    (repeat' apply And.intro) <;> linarith
  · rw [hT]; trivial

/-! ## 2. `get_mass_range`, `mass_linspace` -/

/-- **`get_mass_range` is sound and complete**, for every listing of every decay tree (`TreeLike`: each particle decays at
most once and is produced at most once; any listing order) in which every decay touches an intermediate particle
(true for every chain with ≥ 3 final particles) and for ALL masses: the mass assignment is kinematically allowed
(every decay at or above threshold) IFF every intermediate mass lies in the range that `get_mass_range` computes from
the other masses, `[Σ masses of its daughters, mass of its mother − mass of its sibling]`. -/
theorem mass_range_sound_complete (ch : List Dec) (mass : Nat → ℝ) (h : TreeLike ch)
    (hconn : ∀ d ∈ ch, Inner ch d.core ∨ Inner ch d.o1 ∨ Inner ch d.o2) :
    Allowed ch mass ↔ InRanges ch mass := by
  constructor
  · intro hall p ⟨⟨dc, hdc, hcp⟩, ⟨dm, hdo, hop⟩⟩
    refine ⟨0 + mass dc.o1 + mass dc.o2, mass dm.core - sibSum mass p dm, ?_, ?_, ?_⟩
    · refine Prod.ext ?_ ?_
      · rw [← hcp]; exact massRange_lo ch mass h dc hdc
      · exact massRange_hi ch mass h dm hdo p hop
    · have := hall dc hdc; rw [hcp] at this; linarith
    · have hd := hall dm hdo
      have hne := h.outs_ne dm hdo
      rcases hop with h1 | h2
      · subst h1; rw [sibSum_o1 mass dm hne]; linarith
      · subst h2; rw [sibSum_o2 mass dm hne]; linarith
  · intro hin d hd
    have hne := h.outs_ne d hd
    rcases hconn d hd with hI | hI | hI
    · obtain ⟨lo, hi, hr, hlo, _⟩ := hin _ hI
      have := massRange_lo ch mass h d hd
      rw [hr] at this
      have : lo = 0 + mass d.o1 + mass d.o2 := Option.some.inj this
      linarith
    · obtain ⟨lo, hi, hr, _, hhi⟩ := hin _ hI
      have := massRange_hi ch mass h d hd d.o1 (Or.inl rfl)
      rw [hr, sibSum_o1 mass d hne] at this
      have : hi = mass d.core - (0 + mass d.o2) := Option.some.inj this
      linarith
    · obtain ⟨lo, hi, hr, _, hhi⟩ := hin _ hI
      have := massRange_hi ch mass h d hd d.o2 (Or.inr rfl)
      rw [hr, sibSum_o2 mass d hne] at this
      have : hi = mass d.core - (0 + mass d.o1) := Option.some.inj this
      linarith

/-- The values of `get_mass_range(name)` for an intermediate particle, in closed form, in any listing order:
`(m(outs[0]) + m(outs[1]) of ITS decay, m(mother) − m(sibling))`. -/
theorem mass_range_value (ch : List Dec) (mass : Nat → ℝ) (h : TreeLike ch) (dc dm : Dec) (hdc : dc ∈ ch) (hdm : dm ∈ ch)
    (hp : IsOut dm dc.core) :
    massRange ch mass dc.core = (some (0 + mass dc.o1 + mass dc.o2), some (mass dm.core - sibSum mass dc.core dm)) :=
  Prod.ext (massRange_lo ch mass h dc hdc) (massRange_hi ch mass h dm hdm _ hp)

/-- A particle that does not decay in the chain has no lower bound, the top particle no upper bound (`None` in Python):
`mass_linspace` of such a particle raises `TypeError` (`None + 1e-10`). -/
theorem mass_range_none (ch : List Dec) (mass : Nat → ℝ) (p : Nat) :
    ((∀ d ∈ ch, d.core ≠ p) → (massRange ch mass p).1 = none) ∧
    ((∀ d ∈ ch, ¬ IsOut d p) → (massRange ch mass p).2 = none) := by
  constructor
  · intro hno
    unfold massRange
    show List.foldl (loStep mass p) none ch = none
    induction ch with
    | nil => rfl
    | cons e es ih =>
      simp only [List.foldl_cons, loStep, if_neg (hno e (List.mem_cons_self ..))]
      exact ih (fun d hd => hno d (List.mem_cons_of_mem _ hd))
  · intro hno
    unfold massRange
    show List.foldl (hiStep mass p) none ch = none
    induction ch with
    | nil => rfl
    | cons e es ih =>
      have : ¬ (e.o1 = p ∨ e.o2 = p) := hno e (List.mem_cons_self ..)
      simp only [List.foldl_cons, hiStep, if_neg this]
      exact ih (fun d hd => hno d (List.mem_cons_of_mem _ hd))

/-- **`mass_linspace(name, N)`** returns `N` points, all STRICTLY inside the mass range (so every point is kinematically
allowed with a positive break-up momentum on both sides), whenever the range is wider than `2e-10`. -/
theorem mass_linspace_inside (ch : List Dec) (mass : Nat → ℝ) (name N : Nat) (lo hi : ℝ)
    (hr : massRange ch mass name = (some lo, some hi)) (hw : lo + 2.0e-10 ≤ hi) :
    ∃ l, massLinspace ch mass name N = some l ∧ l.length = N ∧ ∀ x ∈ l, lo < x ∧ x < hi := by
  refine ⟨linspace (lo + 1.0e-10) (hi - 1.0e-10) N, ?_, linspace_length _ _ _, ?_⟩
  · unfold massLinspace; rw [hr]
  · intro x hx
    have := linspace_bounds (lo + 1.0e-10) (hi - 1.0e-10) N (by norm_num at hw ⊢; linarith) x hx
    constructor
    · have : lo + 1.0e-10 ≤ x := this.1
      norm_num at this ⊢; linarith
    · have : x ≤ hi - 1.0e-10 := this.2
      norm_num at this ⊢; linarith

/-! non-vacuity: `[R→B+C, A→R+D]` (bottom-up listing), A=0 R=1 D=2 B=3 C=4 -/
example : TreeLike [⟨1, 3, 4⟩, ⟨0, 1, 2⟩] ∧
    (∀ d ∈ ([⟨1, 3, 4⟩, ⟨0, 1, 2⟩] : List Dec), Inner [⟨1, 3, 4⟩, ⟨0, 1, 2⟩] d.core ∨ Inner [⟨1, 3, 4⟩, ⟨0, 1, 2⟩] d.o1 ∨
      Inner [⟨1, 3, 4⟩, ⟨0, 1, 2⟩] d.o2) := by
  refine ⟨⟨?_, ?_, ?_⟩, ?_⟩
  · intro d hd d' hd' h
    simp only [List.mem_cons, List.not_mem_nil, or_false] at hd hd'
    rcases hd with rfl | rfl <;> rcases hd' with rfl | rfl <;> simp_all
  · intro d hd d' hd' p h1 h2
    simp only [List.mem_cons, List.not_mem_nil, or_false] at hd hd'
    rcases hd with rfl | rfl <;> rcases hd' with rfl | rfl <;> simp_all [IsOut] <;> omega
  · intro d hd
    simp only [List.mem_cons, List.not_mem_nil, or_false] at hd
    rcases hd with rfl | rfl <;> simp
  · intro d hd
    simp only [List.mem_cons, List.not_mem_nil, or_false] at hd
    rcases hd with rfl | rfl
    · left; exact ⟨⟨_, List.mem_cons_self .., rfl⟩, ⟨⟨0, 1, 2⟩, by simp, Or.inl rfl⟩⟩
    · right; left; exact ⟨⟨⟨1, 3, 4⟩, by simp, rfl⟩, ⟨⟨0, 1, 2⟩, by simp, Or.inl rfl⟩⟩

/-! ## 3. `get_phsp_factor` -/

/-- `eval_phsp_factor` does not depend on the listing order (all chains, all masses, every permutation). -/
theorem phsp_factor_perm (ch ch' : List Dec) (mass : Nat → ℝ) (h : ch.Perm ch') :
    evalPhspFactor ch mass = evalPhspFactor ch' mass := by
  rw [evalPhspFactor_eq_prod, evalPhspFactor_eq_prod]
  exact (h.map _).prod_eq

/-- `get_relative_p` (amp/core.py, used by `HelicityAngle`) and `get_p` (phasespace.py, C10) are the same function wherever
the mother is not lighter than `|m1 − m2|` — above AND below threshold (both clamp to 0 there). -/
theorem get_relative_p_eq_get_p (M a b : ℝ) (ha : 0 ≤ a) (hb : 0 ≤ b) (hM : |a - b| ≤ M) :
    relP M a b = TfPwaV.PhspR.getP M a b := relP_eq_getP M a b ha hb hM

/-- The break-up momenta of the SEQUENTIAL cascade are, factor by factor, the list `R` of `PhaseSpaceGenerator.get_weight`
(`qListAux` of `templates/Phsp.lean.in` on a tree with the `get_p` fix, `r32 = id`), for every number of bodies. -/
theorem phsp_factor_seq_eq_c10 (m0 mp : ℝ) (ms rs : List ℝ) (py : Bool) (hok : SeqOK (seqTriples mp ms rs m0)) :
    (seqTriples mp ms rs m0).map (fun t => relP t.1 t.2.1 t.2.2) = TfPwaV.PhspR.qListAux id m0 mp py ms rs :=
  seq_relP_eq_qList m0 ms rs mp py hok

/-- **`get_phsp_factor` = the C10 weight.**  For every chain `ch`, in any listing order, whose decays have the mass triples of
the sequential cascade generated by `PhaseSpaceGenerator(m0, fm)` at intermediate masses `ms`:
`eval_phsp_factor(masses) = get_weight(ms, importances=False) · m_wtMax`. -/
theorem get_phsp_factor_eq_c10_weight (ch : List Dec) (mass : Nat → ℝ) (m0 : ℝ) (fm ms : List ℝ)
    (hperm : (ch.map (triple mass)).Perm (seqTriples (fm.reverse.headD 0) ms (fm.reverse.drop 1) m0))
    (hok : SeqOK (seqTriples (fm.reverse.headD 0) ms (fm.reverse.drop 1) m0))
    (hw : TfPwaV.PhspR.wtMax id m0 fm ≠ 0) :
    evalPhspFactor ch mass = TfPwaV.PhspR.getWeight id m0 fm false ms * TfPwaV.PhspR.wtMax id m0 fm := by
  have h1 : ch.map (relP3 mass) = (ch.map (triple mass)).map (fun t => relP t.1 t.2.1 t.2.2) := by
    rw [List.map_map]; rfl
  rw [evalPhspFactor_eq_prod, h1, (hperm.map _).prod_eq, phsp_factor_seq_eq_c10 m0 _ ms _ true hok]
  unfold TfPwaV.PhspR.getWeight
  simp only [Bool.false_eq_true, if_false]
  rw [div_mul_cancel₀ _ hw, TfPwaV.PhspR.prodL, List.prod_eq_foldl]

/-- `get_phsp_factor(name, m)` is `eval_phsp_factor` at the nominal masses with `name` replaced (definition of `get_all_mass`),
hence also listing-order independent. -/
theorem get_phsp_factor_perm (ch ch' : List Dec) (nominal : Nat → ℝ) (name : Nat) (m : ℝ) (h : ch.Perm ch') :
    getPhspFactor ch nominal name m = getPhspFactor ch' nominal name m :=
  phsp_factor_perm ch ch' _ h

/-! non-vacuity: 3-body `PhaseSpaceGenerator(3, [0, 0, 0])`, `ms = [1]`: triples `(1,0,0)`, `(3,1,0)`;
chain `[A→S+F2, S→F0+F1]` listed top-down, numbering A=0 S=1 -/
example : SeqOK (seqTriples 0 [1] [0, 0] 3) := by
  intro t ht
  simp only [seqTriples, List.mem_cons, List.not_mem_nil, or_false] at ht
  rcases ht with rfl | rfl <;> norm_num

end TfPwaV.C11
