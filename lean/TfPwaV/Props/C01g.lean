import TfPwaV.Proofs.LorentzSL
import TfPwaV.Props.C01b
/-!
# C01 (boost clause) — the Wigner rotation of the parent rest frame, proved on the model of `cal_angle`

`Props/C01.lean` proves frame independence of the density from the kinematic HYPOTHESIS `hD`/`hB` of
`density_boost_invariant_partial` ("under a common Lorentz transformation the top-vertex factor of every chain changes by one
common unitary, the rest by one common unitary on the final-state indices").  Here the boost part of that hypothesis is replaced
by theorems about the model of `cal_angle` (`templates/Cascade.lean.in`: `infer_momentum`, `add_mass`, `cal_chain_boost`,
`cal_helicity_angle`; `templates/Kin.lean.in`: `LorentzVector.boost / rest_vector` with the code's ε-guard;
`templates/SL2C.lean.in` + `templates/LorentzSL.lean.in`: the `SU2M` matrices acting on four-vectors).

A common Lorentz transformation `Λ` of the event is ANY element `A` of SL(2,ℂ) (`det A = 1`; boosts and rotations are products
of the code's `Boost_z / Rotation_z / Rotation_y`) acting by `herm (lor A p) = A · herm p · A†`.

1. `wigner_rotation` (general `A`, moving or resting parent) and `wigner_rotation_at_rest`: the parent-rest-frame momenta the
   code computes from the transformed event, `rest_vector(ΛP, Λp)`, equal `R · rest_vector(P, p)` for ONE rotation `R` of
   three-space (`IsRot`), the image `rotOf W` of the SU(2) element `W = wignerM A P = restM(ΛP) · A · restM(P)⁻¹`
   (`rest_stabiliser`), the same for every `p`.  `restM P = r⁻¹ · Boost_z(omega(P)) · r` is the matrix
   `aligned_angle_ref_rule2` builds; `rest_vector_is_restM` proves that it IS `LorentzVector.rest_vector(P, ·)`.
2. `rest_frames_rotate`: hence for EVERY binary decay tree the whole tree of nested rest-frame momenta that `cal_chain_boost`
   computes from the transformed event is the `R`-rotated tree of the event (the deeper `rest_vector` boosts commute with the
   rotation), with the same masses.  `below_top_invariant_boost`: every mass, every polar angle below the top vertex and every
   azimuth two or more levels below the top is unchanged by `Λ`, for ARBITRARY base axes before and after (the code's defaults:
   `base_x = (1,0,0)`, `base_z = (0,0,1)` with `random_z = False` or a parent slower than `1e-5`, else `base_z` = the laboratory
   three-momentum of the top particle — `ConfigLoader` default `random_z = True`, `center_mass = False`);
   `rapidities_boost_invariant`: every rapidity fed to `Boost_z_from_p`; `lorentz_invariants_sl2c`: the mass of every
   subsystem; `top_vertex_boost`: the top-vertex angles of the transformed event are the angles of `R · n̂`;
   `corotating_axes_invariant_boost` / `boost_is_axes_change`: the COMPLETE angle tree computed from the transformed event with
   base axes `(z', x')` is the angle tree computed from the event itself with base axes `(R⁻¹ z', R⁻¹ x')`.
3. `density_boost_invariant_partial`: any function `F` of the per-chain data `cal_angle` derives (angle tree with all masses,
   rapidities — everything the amplitude and the rule-1 alignment matrices are computed from) takes the same value on the
   transformed event as on the event, for all chains at once, PROVIDED `F` does not depend on the choice of the base axes for a
   FIXED event (`AxesIndependent`).  The hypotheses are about momenta only (massive top with positive energy,
   the code's ε-guards, regular `cross_unit` branch) plus this named one.  `AxesIndependent` is pure rotation-group
   bookkeeping at the top vertex of one event (no boost, no nested frame left in it): it is what `C01b.density_rot_fixed_axes_partial`
   derives from its two named links (the top angles compose with one SU(2) element; the next-level azimuths absorb the third
   Euler angle) together with the statement that the alignment element of every chain is then multiplied by one common SU(2)
   element.  It is validated on the implementation (rotations with fixed laboratory axes in harness/c01.py).
-/
open TfPwaV.ScalarR
namespace TfPwaV.C01g
open TfPwaV.SU2R TfPwaV.AlignR TfPwaV.KinR TfPwaV.AngleR TfPwaV.SL2CR TfPwaV.LorentzSLR TfPwaV.CascadeR TfPwaV.FrameRot
open TfPwaV.C12 TfPwaV.C01

/-! ## (1) the Wigner rotation -/

/-- **`rest_vector(P, ·)` is an element of SL(2,ℂ)**: for a massive parent on the regular branch of `LorentzVector.boost`
(`|β|² > 1e-14`) or exactly at rest, and EVERY four-vector `q`, the code's vector boost equals the action of
`restM P = r⁻¹ · Boost_z(omega(P)) · r` (determinant one, maps `P` to `m·1`). -/
theorem rest_vector_is_restM (P : V4) (hP : Massive P) (hg : GuardOK P) (q : V4) :
    V4.restVector P q = lor (restM P) q ∧ (restM P).det = Cx.one ∧
      act (restM P) (herm P) = scalarM (Real.sqrt P.m2) :=
  ⟨restVector_eq_lor P hP hg q, restM_det P, restM_to_rest P hP⟩

/-- **every element of SL(2,ℂ) is an orthochronous Lorentz transformation**: the image of a time-like momentum of positive energy
is time-like with positive energy and has the same Minkowski square (so the transformed event is physical and the hypotheses
below need to be stated for the event only). -/
theorem lorentz_orthochronous (A : M2) (hA : A.det = Cx.one) (P : V4) (hP : Massive P) :
    Massive (lor A P) ∧ (lor A P).m2 = P.m2 :=
  ⟨massive_lor A hA P hP (lor_pos A hA P hP), lor_m2 A hA P⟩

/-- **`wigner_rotation`** — for every `A ∈ SL(2,ℂ)` (the common Lorentz transformation `Λ = lor A`), every massive parent
momentum `P` of positive energy (its image then has positive energy too, `lor_pos`: `Λ` is orthochronous), both on the code's
regular boost branch (or exactly at rest):
`W = restM(ΛP)·A·restM(P)⁻¹` is in SU(2), `R = rotOf W` is a proper rotation of three-space, and for EVERY four-vector `p`
`rest_vector(ΛP, Λp) = R · rest_vector(P, p)` — one `R` for all `p`. -/
theorem wigner_rotation (A : M2) (hA : A.det = Cx.one) (P : V4) (hP : Massive P)
    (hg : GuardOK P) (hg' : GuardOK (lor A P)) :
    IsSU2 (wignerM A P) ∧ IsRot (rotOf (wignerM A P)) ∧
      ∀ p : V4, V4.restVector (lor A P) (lor A p) = spatial (rotOf (wignerM A P)) (V4.restVector P p) := by
  have hP' := lor_pos A hA P hP
  have hW := wignerM_isSU2 A hA P hP hP'
  refine ⟨hW, rotOf_isRot _ hW, fun p => ?_⟩
  rw [restVector_eq_lor (lor A P) (massive_lor A hA P hP hP') hg', restVector_eq_lor P hP hg, ← lor_su2_eq_spatial _ hW,
    ← lor_mul, ← lor_mul, wignerM_mul_restM]

/-- **the parent already at rest** (`P = (m, 0, 0, 0)`, e.g. events generated in the centre-of-mass frame): `rest_vector(P, ·)`
is the identity, `W = restM(ΛP)·A`, and `rest_vector(ΛP, Λp) = R · p`. -/
theorem wigner_rotation_at_rest (A : M2) (hA : A.det = Cx.one) (m : ℝ) (hm : 0 < m)
    (hg' : GuardOK (lor A ⟨m, 0, 0, 0⟩)) :
    wignerM A ⟨m, 0, 0, 0⟩ = (restM (lor A ⟨m, 0, 0, 0⟩)).mul A ∧ IsSU2 (wignerM A ⟨m, 0, 0, 0⟩) ∧
      IsRot (rotOf (wignerM A ⟨m, 0, 0, 0⟩)) ∧
      ∀ p : V4, V4.restVector (lor A ⟨m, 0, 0, 0⟩) (lor A p) = spatial (rotOf (wignerM A ⟨m, 0, 0, 0⟩)) p := by
  have hP : Massive ⟨m, 0, 0, 0⟩ := ⟨hm, by simp only [V4.vect, V3.norm2]; nlinarith⟩
  have hg : GuardOK ⟨m, 0, 0, 0⟩ := Or.inr rfl
  obtain ⟨h1, h2, h3⟩ := wigner_rotation A hA _ hP hg hg'
  have hid : ∀ q : V4, lor (restM ⟨m, 0, 0, 0⟩) q = q := by
    intro q
    have e1 := restVector_eq_lor_rest ⟨m, 0, 0, 0⟩ rfl q
    have e2 : V4.restVector ⟨m, 0, 0, 0⟩ q = q := by
      unfold V4.restVector
      have : (V4.boostVector ⟨m, 0, 0, 0⟩).neg = ⟨0, 0, 0⟩ := by simp [V4.boostVector, V3.neg]
      rw [this, TfPwaV.C11.boost_zero]
    rw [← e1, e2]
  refine ⟨?_, h1, h2, fun p => ?_⟩
  · have h1' : restM ⟨m, 0, 0, 0⟩ = M2.one := by
      have hw : omegaP ⟨m, 0, 0, 0⟩ = 0 := by
        unfold omegaP gammaP kacosh ksqrt
        simp [V4.boostVector, V3.norm2]
      simp only [restM, rule2R, hw, boostZ_zero, M2.mul_one]
      exact (su2_inv _ (TfPwaV.C02.det_stepR _ _)).1
    unfold wignerM
    rw [h1']
    have : (M2.one : M2).inv = M2.one := by ext <;> simp [M2.inv, M2.one, Cx.neg, Cx.zero]
    rw [this, M2.mul_one]
  · rw [h3 p, restVector_eq_lor_rest ⟨m, 0, 0, 0⟩ rfl p, hid]

-- non-vacuity: a boost along z followed by rotations is an element of SL(2,ℂ); (5,0,0,3) is massive and moving
example (a b w : ℝ) : ((rotZ a).mul ((rotY b).mul (boostZ w))).det = Cx.one :=
  det_mul_one _ _ (det_rotZ a) (det_mul_one _ _ (det_rotY b) (det_boostZ w))

example : Massive ⟨5, 0, 0, 3⟩ ∧ GuardOK ⟨5, 0, 0, 3⟩ := by
  refine ⟨⟨by norm_num, by simp only [V4.vect, V3.norm2]; norm_num⟩, Or.inl ?_⟩
  simp only [V4.boostVector, V3.norm2]
  unfold eps
  norm_num

/-! ## (2) the nested rest frames rotate; everything below the top vertex is invariant -/

/-- **every invariant mass is invariant under every Lorentz transformation** (any `A ∈ SL(2,ℂ)`, any list of four-momenta =
any subsystem of the final state); no guard: `Λ` is exact, unlike the code's own boost (`C01.lorentz_invariants_boost`). -/
theorem lorentz_invariants_sl2c (A : M2) (hA : A.det = Cx.one) (ps : List V4) :
    (C01.total (ps.map (lor A))).mass = (C01.total ps).mass := by
  have h0 : lor A ⟨0, 0, 0, 0⟩ = ⟨0, 0, 0, 0⟩ := by
    ext <;> simp [lor, unherm, act, herm, dagger, M2.mul, Cx.mul, Cx.add, Cx.conj]
  have htot : ∀ qs : List V4, lor A (C01.total qs) = C01.total (qs.map (lor A)) := by
    intro qs
    induction qs with
    | nil => simpa [C01.total] using h0
    | cons q qs ih => simp only [C01.total, List.map_cons, lor_add, ih]
  rw [← htot, lor_mass A hA]

/-- **`rest_frames_rotate`** — for every binary decay tree of final momenta `t` (total momentum `P = t.total`, massive, on the
code's boost branch before and after): the tree of rest-frame momenta `cal_chain_boost` computes from the transformed event is
the tree of the event with every stored momentum rotated by the ONE Wigner rotation `R = rotOf (wignerM A P)`; all masses equal. -/
theorem rest_frames_rotate (A : M2) (hA : A.det = Cx.one) (t : MTree) (hP : Massive t.total)
    (hg : GuardOK t.total) (hg' : GuardOK (lor A t.total)) :
    calChainBoost (t.map (lor A)) = RTree.mapR (spatial (rotOf (wignerM A t.total))) (calChainBoost t) := by
  obtain ⟨_, hR, hw⟩ := wigner_rotation A hA t.total hP hg hg'
  unfold CascadeR.calChainBoost
  simp only [infer_map_add (lor A) (lor_add A), mapP_p, TfPwaV.C11.infer_p]
  exact chainBoost_intertwine hR (lor A) (lor_mass A hA) _ _ _ hw

/-- **`below_top_invariant_boost`** — `C01.below_top_invariant` for ANY Lorentz transformation: with arbitrary base axes
`(z0, x0)` before and `(z0', x0')` after, the mass of the parent and — up to the two azimuths of each daughter's own vertex —
the complete angle trees of both daughters (all masses, all polar angles, all deeper azimuths) are unchanged. -/
theorem below_top_invariant_boost (A : M2) (hA : A.det = Cx.one) (t : MTree) (hP : Massive t.total)
    (hg : GuardOK t.total) (hg' : GuardOK (lor A t.total)) (z0 x0 z0' x0' : V3)
    (hr : RegBelow (calChainBoost t) z0 x0) :
    aMass (helicityAngle (calChainBoost (t.map (lor A))) z0' x0') = aMass (helicityAngle (calChainBoost t) z0 x0) ∧
    forgetAlpha (aSub1 (helicityAngle (calChainBoost (t.map (lor A))) z0' x0')) =
      forgetAlpha (aSub1 (helicityAngle (calChainBoost t) z0 x0)) ∧
    forgetAlpha (aSub2 (helicityAngle (calChainBoost (t.map (lor A))) z0' x0')) =
      forgetAlpha (aSub2 (helicityAngle (calChainBoost t) z0 x0)) := by
  have h := (wigner_rotation A hA t.total hP hg hg').2.1
  rw [rest_frames_rotate A hA t hP hg hg']
  cases hc : calChainBoost t with
  | leaf m => exact ⟨rfl, rfl, rfl⟩
  | node m r1 r2 d1 d2 =>
    rw [hc] at hr
    obtain ⟨h1, h2⟩ := hr
    simp only [RTree.mapR, CascadeR.helicityAngle, aMass, aSub1, aSub2, spatial_vect]
    exact ⟨trivial, h.helicityAngle_z d1 _ _ _ h1, h.helicityAngle_z d2 _ _ _ h2⟩

/-- every rapidity `LorentzVector.omega(rest_p)` fed to `Boost_z_from_p` (all vertices) is unchanged by `Λ` -/
theorem rapidities_boost_invariant (A : M2) (hA : A.det = Cx.one) (t : MTree) (hP : Massive t.total)
    (hg : GuardOK t.total) (hg' : GuardOK (lor A t.total)) :
    rapidities (calChainBoost (t.map (lor A))) = rapidities (calChainBoost t) := by
  rw [rest_frames_rotate A hA t hP hg hg']
  exact rapidities_mapR (wigner_rotation A hA t.total hP hg hg').2.1 _

/-- **the top vertex**: the angles `cal_helicity_angle` computes at the top vertex of the transformed event with base axes
`(z', x')` are `angle_zx_z_getx(z', x', R · n_j)` for the rest-frame momenta `n_j` of the event — the polar angles of `R·n̂`. -/
theorem top_vertex_boost (A : M2) (hA : A.det = Cx.one) (t : MTree) (hP : Massive t.total)
    (hg : GuardOK t.total) (hg' : GuardOK (lor A t.total)) (z' x' : V3)
    (m : ℝ) (r1 r2 : V4) (d1 d2 : RTree) (hc : calChainBoost t = .node m r1 r2 d1 d2) :
    ∃ e1 e2, helicityAngle (calChainBoost (t.map (lor A))) z' x' =
      .node m (shiftAlpha (angleZxZGetx z' x' (rotOf (wignerM A t.total) r1.vect)).alpha (-kpi))
        (angleZxZGetx z' x' (rotOf (wignerM A t.total) r1.vect)).beta
        (shiftAlpha (angleZxZGetx z' x' (rotOf (wignerM A t.total) r2.vect)).alpha (-kpi - kpi))
        (angleZxZGetx z' x' (rotOf (wignerM A t.total) r2.vect)).beta e1 e2 := by
  rw [rest_frames_rotate A hA t hP hg hg', hc]
  simp only [RTree.mapR, CascadeR.helicityAngle, spatial_vect]
  exact ⟨_, _, rfl⟩

/-- **co-rotating base axes**: computed with base axes `(R z0, R x0)`, the complete angle tree of the transformed event (top
vertex included) is the angle tree of the event with base axes `(z0, x0)`. -/
theorem corotating_axes_invariant_boost (A : M2) (hA : A.det = Cx.one) (t : MTree) (hP : Massive t.total)
    (hg : GuardOK t.total) (hg' : GuardOK (lor A t.total)) (z0 x0 : V3)
    (hr : Reg (calChainBoost t) z0 x0) :
    helicityAngle (calChainBoost (t.map (lor A))) (rotOf (wignerM A t.total) z0) (rotOf (wignerM A t.total) x0) =
      helicityAngle (calChainBoost t) z0 x0 := by
  rw [rest_frames_rotate A hA t hP hg hg']
  exact (wigner_rotation A hA t.total hP hg hg').2.1.helicityAngle _ _ _ hr

/-- the regular branch of `cross_unit` is rotation covariant along the whole tree -/
theorem reg_mapR {R : V3 → V3} (h : IsRot R) : ∀ (t : RTree) (z x : V3), Reg t z x →
    Reg (RTree.mapR (spatial R) t) (R z) (R x)
  | .leaf _, _, _, _ => trivial
  | .node m r1 r2 d1 d2, z, x, hr => by
    obtain ⟨⟨g1, g2⟩, hz1, hz2, hd1, hd2⟩ := hr
    have hZ : ∀ w : V3, ZReg z w → ZReg (R z) (R w) := by
      intro w ⟨a1, a2, a3⟩
      refine ⟨h.creg a1, ?_, ?_⟩
      · rw [h.crossUnit a1]; exact h.creg a2
      · rw [h.crossUnit a1, h.unit]; exact h.creg a3
    simp only [RTree.mapR, Reg, spatial_vect]
    refine ⟨⟨h.creg g1, ?_⟩, hZ _ hz1, hZ _ hz2, ?_, ?_⟩
    · rw [h.crossUnit g1]; exact h.creg g2
    · rw [(h.getx_z x (R x) hz1).2]; exact reg_mapR h d1 _ _ hd1
    · rw [(h.getx_z x (R x) hz2).2]; exact reg_mapR h d2 _ _ hd2

/-- **a Lorentz transformation of the event is a change of the base axes**: the complete angle tree that
`cal_helicity_angle ∘ cal_chain_boost` computes from the transformed event with base axes `(z', x')` (regular `cross_unit`
branch there) equals the angle tree computed from the event ITSELF with the base axes `(R⁻¹ z', R⁻¹ x')`, which are regular
for it. -/
theorem boost_is_axes_change (A : M2) (hA : A.det = Cx.one) (t : MTree) (hP : Massive t.total)
    (hg : GuardOK t.total) (hg' : GuardOK (lor A t.total)) (z' x' : V3)
    (hr : Reg (calChainBoost (t.map (lor A))) z' x') :
    helicityAngle (calChainBoost (t.map (lor A))) z' x' =
      helicityAngle (calChainBoost t) (rotOf (wignerM A t.total).inv z') (rotOf (wignerM A t.total).inv x') ∧
    Reg (calChainBoost t) (rotOf (wignerM A t.total).inv z') (rotOf (wignerM A t.total).inv x') := by
  obtain ⟨hW, _, _⟩ := wigner_rotation A hA t.total hP hg hg'
  have hI : IsRot (rotOf (wignerM A t.total).inv) := rotOf_isRot _ (isSU2_inv _ hW)
  have hback : RTree.mapR (spatial (rotOf (wignerM A t.total).inv)) (calChainBoost (t.map (lor A))) = calChainBoost t := by
    rw [rest_frames_rotate A hA t hP hg hg', mapR_mapR]
    apply mapR_id
    intro q
    apply v4_eq
    · rfl
    · rw [spatial_vect, spatial_vect, rotOf_inv_rotOf _ hW]
  constructor
  · rw [← hI.helicityAngle _ _ _ hr, hback]
  · have := reg_mapR hI _ _ _ hr
    rwa [hback] at this

/-! ## (3) the density -/

/-- what `cal_angle` derives for one decay chain from the final momenta and the base axes: the angle tree (all masses, all
helicity angles) and the rapidities of all rest-frame momenta — the inputs of the amplitude tensor and of the rule-1
alignment matrices `b_matrix`, `r_matrix` -/
noncomputable def chainData (t : MTree) (z x : V3) : ATree × List ℝ :=
  (helicityAngle (calChainBoost t) z x, rapidities (calChainBoost t))

/-- **THE REMAINING HYPOTHESIS, by name.**  `F` (the helicity-summed density as a function of the per-chain data) does not
depend on the choice of the base axes for the FIXED event `ts` (whenever both choices are on the regular `cross_unit` branch).
No Lorentz transformation, no nested frame occurs in it: by `C01.below_top_invariant` only the top-vertex angles, the azimuths
one level below and (through them) the alignment angles differ between the two sides. -/
def AxesIndependent {κ : Type} (F : (κ → ATree × List ℝ) → ℝ) (ts : κ → MTree) : Prop :=
  ∀ z x z' x' : V3, (∀ k, Reg (calChainBoost (ts k)) z x) → (∀ k, Reg (calChainBoost (ts k)) z' x') →
    F (fun k => chainData (ts k) z x) = F (fun k => chainData (ts k) z' x')

/-- FULL: for every decay structure, every physical event and every Lorentz transformation `Λ` the density computed by
`cal_angle` → `sum_amp` from `Λp` equals the one computed from `p`.

Proved part (`density_boost_invariant_partial`, replaces the kinematic hypotheses `hD`/`hB` of
`C01.density_boost_invariant_partial` for the boost content): any number of chains `κ` (binary decay trees `ts k` over the
same final state, total momentum `P`), any `A ∈ SL(2,ℂ)`, arbitrary base axes `(z, x)` for the event and `(z', x')` for the
transformed event (laboratory-fixed or tied to the parent direction), any function `F` of the per-chain data.  Hypotheses
about MOMENTA: the top momentum is massive with positive energy, the code's boost guard (`|β|² > 1e-14` or
exactly at rest) before and after, the regular `cross_unit` branch for both events.  Missing, named: `AxesIndependent F ts`. -/
theorem density_boost_invariant_partial {κ : Type} (F : (κ → ATree × List ℝ) → ℝ) (ts : κ → MTree) (P : V4)
    (hsame : ∀ k, (ts k).total = P) (A : M2) (hA : A.det = Cx.one) (hP : Massive P)
    (hg : GuardOK P) (hg' : GuardOK (lor A P)) (z x z' x' : V3)
    (hreg : ∀ k, Reg (calChainBoost (ts k)) z x) (hreg' : ∀ k, Reg (calChainBoost ((ts k).map (lor A))) z' x')
    (hF : AxesIndependent F ts) :
    F (fun k => chainData ((ts k).map (lor A)) z' x') = F (fun k => chainData (ts k) z x) := by
  have key : ∀ k, chainData ((ts k).map (lor A)) z' x' =
      chainData (ts k) (rotOf (wignerM A P).inv z') (rotOf (wignerM A P).inv x') ∧
      Reg (calChainBoost (ts k)) (rotOf (wignerM A P).inv z') (rotOf (wignerM A P).inv x') := by
    intro k
    have e := hsame k
    subst e
    obtain ⟨h1, h2⟩ := boost_is_axes_change A hA (ts k) hP hg hg' z' x' (hreg' k)
    refine ⟨?_, h2⟩
    unfold chainData
    rw [h1, rapidities_boost_invariant A hA (ts k) hP hg hg']
  have e : (fun k => chainData ((ts k).map (lor A)) z' x') =
      (fun k => chainData (ts k) (rotOf (wignerM A P).inv z') (rotOf (wignerM A P).inv x')) :=
    funext fun k => (key k).1
  rw [e]
  exact hF _ _ _ _ (fun k => (key k).2) hreg

-- non-vacuity of `AxesIndependent`: every function of the masses and rapidities alone satisfies it
example {κ : Type} (G : (κ → List ℝ) → ℝ) (ts : κ → MTree) : AxesIndependent (fun d => G (fun k => (d k).2)) ts := by
  intro z x z' x' _ _
  rfl

end TfPwaV.C01g
