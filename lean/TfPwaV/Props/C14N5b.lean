import TfPwaV.Props.C14
/-! C14, n = 5 (105 chains), part b: kernel evaluation — the 105 `topology_id`s are pairwise different. -/
namespace TfPwaV.C14
open TfPwaV.Topology

theorem enumDistinct_5_partial : enumDistinctOK 5 = true := by decide +kernel

end TfPwaV.C14
