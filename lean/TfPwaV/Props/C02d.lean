import TfPwaV.Proofs.SL2C
import TfPwaV.Props.C02c
/-!
# C02 (kinematic clause) — the alignment elements ARE rotations: `IsSU2 G` discharged by the spinor map

`Props/C02c.lean` proves `convention_invariant` under the kinematic hypotheses `IsSU2 G`, `IsSU2 R_k` ("the boosts
accumulated along two decay chains of one event cancel to a pure Wigner rotation").  Here that hypothesis is reduced to
the statement that each chain's route matrix `b_matrix[f] · r_matrix[f]` was built from the momentum it is applied to.

Model: `templates/SL2C.lean.in` (ℝ instance `TfPwaV.SL2CR`; the Float instance of the same text is run on the matrices
the real `cal_angle` builds, see `harness/c02.py::kinematic_routes`).  A four-vector is the Hermitian matrix
`herm p = [[E+pz, −px−i·py], [−px+i·py, E−pz]]`, a matrix acts by `act A X = A X A†`.

1. `boostZ_acts`, `rotZ_acts`, `rotY_acts`: what `SU2M.Boost_z(ω)`, `Rotation_z(α)`, `Rotation_y(β)` do to a four-vector,
   for ALL `ω, α, β, p`; `boost_sign_tie` identifies the first with the code's own vector boost
   `LorentzVector.rest_vector` (sign of the rapidity), `omega_of_momentum` identifies `LorentzVector.omega`;
   `vertex_is_rest_vector`: for ANY four-vector `q` in the mother's helicity frame one vertex acts as the code's
   `rest_vector(p_daughter, q)` followed by the rotation onto the daughter's axes (`restVector_vertexRot`: `rest_vector`
   commutes with that rotation); `standard_vertex_to_rest`: a vertex built from `atan2(py,px)`, `acos(pz/|p|)`, `acosh(gamma(p))` maps `herm p` to `m·1`.
2. `rest_stabiliser`: `det A = 1`, `A (m·1) A† = m·1`, `m ≠ 0`  ⇒  `IsSU2 A`.
3. `two_routes_rotation`: two determinant-one matrices that bring the same momentum to rest differ by a rotation.
4. `route_matches_code`, `route_acts`: the code's accumulation `r_matrix[j] = r · b_matrix[core] · r_matrix[core]`,
   `b_matrix[j]` is the product of the per-vertex matrices `Boost_z(ω_i)·Rotation_y(β_i)·Rotation_z(α_i)`, and acts on
   four-vectors as the composition of the per-vertex Lorentz transformations — every depth, all angles and rapidities.
5. `convention_invariant_routes`, `convention_invariant_rule2_routes`: `convention_invariant` WITHOUT `IsSU2`.

What is still a hypothesis, by name: `RouteToRest` — the Lorentz transformation composed from the `(α_i, β_i, ω_i)` the
code fed to its matrices brings the final particle's momentum to rest.  By `routeToRest_of_lastVertex` and
`helicity_vertex_to_rest` this is implied by `LastVertexTracks`: the angles and the rapidity of the LAST vertex are those
of the momentum the earlier vertices produce — i.e. that the helicity-frame momentum `cal_chain_boost` /
`cal_helicity_angle` compute by nested `rest_vector` boosts and axis bookkeeping (C11d `cascade_boost_undo`,
`cascade_angles`) is the image under the route of the top-frame momentum.  `vertex_is_rest_vector` proves one level of it (matrix = `rest_vector`
then rotation of coordinates); what is left is that the code keeps the un-rotated coordinates together with the axes
`set_x`, `set_z` instead of rotating (frame bookkeeping over the levels).  That link is validated on the implementation.

UPDATE (round 4): the hypothesis is DISCHARGED in `Props/C02e.lean` — `route_to_rest_of_cascade` proves `RouteToRest` for
every decay path of every binary tree from the cascade model (`templates/Cascade.lean.in`, `templates/RouteRest.lean.in`)
under the code's own guards, and the theorems of section (5) are restated there with hypotheses on the event only.
-/
open TfPwaV.ScalarR
open Matrix
namespace TfPwaV.C02
open TfPwaV.SU2R TfPwaV.AlignR TfPwaV.KinR TfPwaV.SL2CR TfPwaV.C12 TfPwaV.UnitaryMix

/-! ### (1) the generators act as the code's vector operations -/

/-- `SU2M.Boost_z(ω)`: `E ↦ E cosh ω − pz sinh ω`, `pz ↦ pz cosh ω − E sinh ω` — all `ω`, all four-vectors -/
theorem boostZ_acts (ω : ℝ) (p : V4) :
    act (boostZ ω) (herm p) =
      herm ⟨Real.cosh ω * p.t - Real.sinh ω * p.z, p.x, p.y, Real.cosh ω * p.z - Real.sinh ω * p.t⟩ := by
  rw [SL2CR.boostZ_acts]; simp only [boostZv, kcosh_eq, ksinh_eq]

/-- `SU2M.Rotation_z(α)`: the azimuth of the three-momentum is LOWERED by `α` -/
theorem rotZ_acts (α : ℝ) (p : V4) :
    act (rotZ α) (herm p) =
      herm ⟨p.t, Real.cos α * p.x + Real.sin α * p.y, Real.cos α * p.y - Real.sin α * p.x, p.z⟩ :=
  SL2CR.rotZ_acts α p

/-- `SU2M.Rotation_y(β)`: the polar angle (in the x–z plane) is LOWERED by `β` -/
theorem rotY_acts (β : ℝ) (p : V4) :
    act (rotY β) (herm p) =
      herm ⟨p.t, Real.cos β * p.x - Real.sin β * p.z, p.y, Real.cos β * p.z + Real.sin β * p.x⟩ :=
  SL2CR.rotY_acts β p

/-- the map `p ↦ herm p` is faithful and `det (herm p) = m²` -/
theorem herm_faithful (p q : V4) : herm p = herm q ↔ p = q := ⟨herm_inj, fun h => by rw [h]⟩

theorem herm_det_mass (p : V4) : (herm p).det = ⟨p.m2, 0⟩ := herm_det p

/-- **sign of the rapidity**: on four-vectors `Boost_z(ω)` IS the code's `LorentzVector.rest_vector(p_j, ·)` for a
momentum `p_j = m(cosh ω, 0, 0, sinh ω)` along `+z` (regular branch `tanh² ω > 1e-14` of `LorentzVector.boost`) -/
theorem boost_sign_tie (m ω : ℝ) (hm : 0 < m) (hreg : eps < Real.tanh ω ^ 2) (q : V4) :
    act (boostZ ω) (herm q) = herm (V4.restVector ⟨m * Real.cosh ω, 0, 0, m * Real.sinh ω⟩ q) := by
  rw [boostZv_eq_restVector m ω hm hreg, SL2CR.boostZ_acts]

example : eps < Real.tanh 1 ^ 2 := by
  have h1 : (1 : ℝ) / 2 ≤ Real.tanh 1 := by
    rw [Real.tanh_eq_sinh_div_cosh, le_div_iff₀ (Real.cosh_pos 1), Real.sinh_eq, Real.cosh_eq]
    have := Real.add_one_le_exp (1 : ℝ)
    have h2 : Real.exp (-1) * Real.exp 1 = 1 := by rw [← Real.exp_add]; simp
    have h3 := Real.exp_pos (-1 : ℝ)
    nlinarith
  have : eps = 1.0e-14 := rfl
  rw [this]
  nlinarith

/-- **the rapidity the code feeds to `Boost_z`**: `ω = acosh(LorentzVector.gamma(p))` has `m cosh ω = E`,
`m sinh ω = |p⃗|` for every time-like momentum of positive energy -/
theorem omega_of_momentum (q : V4) (ht : 0 < q.t) (hq : q.vect.norm2 < q.t ^ 2) :
    Real.sqrt q.m2 * Real.cosh (omegaP q) = q.t ∧
      Real.sqrt q.m2 * Real.sinh (omegaP q) = Real.sqrt q.vect.norm2 :=
  omegaP_spec q ht hq

/-- a momentum whose direction has polar angle `β` and azimuth `α` IS `polar m α β ω` with the code's `ω` -/
theorem polar_of_momentum (q : V4) (ht : 0 < q.t) (hq : q.vect.norm2 < q.t ^ 2) (α β : ℝ)
    (hx : q.x = Real.sqrt q.vect.norm2 * (Real.sin β * Real.cos α))
    (hy : q.y = Real.sqrt q.vect.norm2 * (Real.sin β * Real.sin α))
    (hz : q.z = Real.sqrt q.vect.norm2 * Real.cos β) :
    q = polar (Real.sqrt q.m2) α β (omegaP q) := by
  obtain ⟨h1, h2⟩ := omegaP_spec q ht hq
  ext <;> simp only [polar]
  · exact h1.symm
  · rw [h2]; exact hx
  · rw [h2]; exact hy
  · rw [h2]; exact hz

/-- **one helicity vertex brings its own daughter to rest**: rotate by the helicity angles of the momentum, boost
along `z` by its rapidity — `Boost_z(ω)·Rotation_y(β)·Rotation_z(α)` maps `herm q` to `m·1` -/
theorem helicity_vertex_to_rest (s : Step) (m : ℝ) :
    act (stepM s) (herm (polar m s.alpha s.beta s.omega)) = scalarM m := by
  rw [stepM_acts, stepL_polar, scalarM_eq_herm]

/-- the polar angles in the STANDARD frame as the code's primitives compute them (`acos` of the direction cosine,
`atan2(y, x)`), with the code's rapidity, reproduce the momentum -/
theorem polar_of_standard_angles (q : V4) (ht : 0 < q.t) (hq : q.vect.norm2 < q.t ^ 2)
    (hxy : 0 < q.x * q.x + q.y * q.y) :
    q = polar (Real.sqrt q.m2) (katan2 q.y q.x) (kacos (q.z / Real.sqrt q.vect.norm2)) (omegaP q) := by
  obtain ⟨t, x, y, z⟩ := q
  simp only [V4.vect, V3.norm2] at *
  have hn : 0 < x * x + y * y + z * z := by nlinarith [mul_self_nonneg z]
  set n := Real.sqrt (x * x + y * y + z * z) with hn_def
  have hnpos : 0 < n := Real.sqrt_pos.mpr hn
  have hnn : n * n = x * x + y * y + z * z := Real.mul_self_sqrt hn.le
  set ρ := Real.sqrt (x * x + y * y) with hρ_def
  have hρpos : 0 < ρ := Real.sqrt_pos.mpr hxy
  have hρρ : ρ * ρ = x * x + y * y := Real.mul_self_sqrt hxy.le
  -- sin β = ρ / n
  have hsin : Real.sin (Real.arccos (z / n)) = ρ / n := by
    rw [Real.sin_arccos]
    have : 1 - (z / n) ^ 2 = (ρ / n) ^ 2 := by field_simp; nlinarith
    rw [this, Real.sqrt_sq (by positivity)]
  have hzle : -1 ≤ z / n ∧ z / n ≤ 1 := by
    constructor
    · rw [le_div_iff₀ hnpos]; nlinarith [mul_self_nonneg (z + n)]
    · rw [div_le_iff₀ hnpos]; nlinarith [mul_self_nonneg (z - n)]
  have hcos : Real.cos (Real.arccos (z / n)) = z / n := Real.cos_arccos hzle.1 hzle.2
  -- azimuth
  have hz0 : (⟨x, y⟩ : ℂ) ≠ 0 := by
    intro h
    have h1 := congrArg Complex.re h
    have h2 := congrArg Complex.im h
    simp at h1 h2
    subst h1 h2
    simp at hxy
  have habs : ‖(⟨x, y⟩ : ℂ)‖ = ρ := by
    rw [Complex.norm_def, Complex.normSq_mk]
  have hca : Real.cos (Complex.arg ⟨x, y⟩) = x / ρ := by rw [Complex.cos_arg hz0, habs]
  have hsa : Real.sin (Complex.arg ⟨x, y⟩) = y / ρ := by rw [Complex.sin_arg, habs]
  apply polar_of_momentum ⟨t, x, y, z⟩ ht hq
  · simp only [V4.vect, V3.norm2, katan2, kacos, ← hn_def, hsin, hca]; field_simp
  · simp only [V4.vect, V3.norm2, katan2, kacos, ← hn_def, hsin, hsa]; field_simp
  · simp only [V4.vect, V3.norm2, kacos, ← hn_def, hcos]; field_simp

/-- **a helicity vertex built from a momentum brings that momentum to rest** — no polar-form hypothesis left: for every
time-like momentum of positive energy off the z axis, `Boost_z(ω)·Rotation_y(β)·Rotation_z(α)` with
`α = atan2(py, px)`, `β = acos(pz/|p⃗|)`, `ω = acosh(LorentzVector.gamma(p))` maps `herm p` to `m·1` -/
theorem standard_vertex_to_rest (q : V4) (ht : 0 < q.t) (hq : q.vect.norm2 < q.t ^ 2)
    (hxy : 0 < q.x * q.x + q.y * q.y) :
    act (stepM ⟨katan2 q.y q.x, kacos (q.z / Real.sqrt q.vect.norm2), omegaP q⟩) (herm q) =
      scalarM (Real.sqrt q.m2) := by
  have h := helicity_vertex_to_rest ⟨katan2 q.y q.x, kacos (q.z / Real.sqrt q.vect.norm2), omegaP q⟩ (Real.sqrt q.m2)
  simp only at h
  rw [← polar_of_standard_angles q ht hq hxy] at h
  exact h

example : (0 : ℝ) < (⟨2, 1, 0, 0⟩ : V4).t ∧ (⟨2, 1, 0, 0⟩ : V4).vect.norm2 < (⟨2, 1, 0, 0⟩ : V4).t ^ 2 ∧
    (0 : ℝ) < (⟨2, 1, 0, 0⟩ : V4).x * (⟨2, 1, 0, 0⟩ : V4).x + (⟨2, 1, 0, 0⟩ : V4).y * (⟨2, 1, 0, 0⟩ : V4).y := by
  simp only [V4.vect, V3.norm2]; norm_num

/-! ### (1b) one vertex is the code's `rest_vector` read in the daughter's axes -/

/-- the rotation part of a vertex on four-vectors -/
noncomputable def vertexRot (α β : ℝ) (p : V4) : V4 := rotYv β (rotZv α p)

/-- `LorentzVector.boost` depends on its arguments through `|v|²`, `v·p⃗`, `E` only -/
theorem boost_form (p : V4) (v : V3) :
    p.boost v = ⟨gammaOf v.norm2 * (p.t + v.dot p.vect),
      p.x + (gamma2Of v.norm2 * v.dot p.vect + gammaOf v.norm2 * p.t) * v.x,
      p.y + (gamma2Of v.norm2 * v.dot p.vect + gammaOf v.norm2 * p.t) * v.y,
      p.z + (gamma2Of v.norm2 * v.dot p.vect + gammaOf v.norm2 * p.t) * v.z⟩ := by
  ext <;> simp only [V4.boost] <;> ring

/-- **`rest_vector` commutes with the rotation of a vertex** (all angles, all momenta; no guard needed) -/
theorem restVector_vertexRot (α β : ℝ) (a b : V4) :
    V4.restVector (vertexRot α β a) (vertexRot α β b) = vertexRot α β (V4.restVector a b) := by
  have h1 := Real.sin_sq_add_cos_sq α
  have h2 := Real.sin_sq_add_cos_sq β
  obtain ⟨at_, ax, ay, az⟩ := a
  obtain ⟨bt, bx, by_, bz⟩ := b
  unfold V4.restVector
  rw [boost_form, boost_form]
  have hn : ((V4.boostVector (vertexRot α β ⟨at_, ax, ay, az⟩)).neg).norm2 =
      ((V4.boostVector ⟨at_, ax, ay, az⟩).neg).norm2 := by
    simp only [vertexRot, rotYv, rotZv, V4.boostVector, V3.neg, V3.norm2, kcos, ksin]
    by_cases h0 : at_ = 0
    · subst h0; simp
    · field_simp
      grind
  have hd : ((V4.boostVector (vertexRot α β ⟨at_, ax, ay, az⟩)).neg).dot (vertexRot α β ⟨bt, bx, by_, bz⟩).vect =
      ((V4.boostVector ⟨at_, ax, ay, az⟩).neg).dot (V4.vect ⟨bt, bx, by_, bz⟩) := by
    simp only [vertexRot, rotYv, rotZv, V4.boostVector, V3.neg, V3.dot, V4.vect, kcos, ksin]
    by_cases h0 : at_ = 0
    · subst h0; simp
    · field_simp
      grind
  rw [hn, hd]
  have ht : (vertexRot α β ⟨bt, bx, by_, bz⟩).t = bt := rfl
  rw [ht]
  generalize gammaOf _ = g
  generalize gamma2Of _ = g2
  generalize V3.dot _ _ = d
  ext <;> simp only [vertexRot, rotYv, rotZv, V4.boostVector, V3.neg, kcos, ksin] <;> ring

/-- **one vertex = the code's `rest_vector`, read in the daughter's helicity axes**: for the daughter momentum
`p_j = polar m α β ω` in its mother's helicity frame (regular branch of `LorentzVector.boost`) and ANY four-vector `q`
there, `Boost_z(ω)·Rotation_y(β)·Rotation_z(α)` acts as `rest_vector(p_j, q)` followed by the rotation onto the daughter's axes -/
theorem vertex_is_rest_vector (m α β ω : ℝ) (hm : 0 < m) (hreg : eps < Real.tanh ω ^ 2) (q : V4) :
    act (stepM ⟨α, β, ω⟩) (herm q) = herm (vertexRot α β (V4.restVector (polar m α β ω) q)) := by
  rw [stepM_acts, ← restVector_vertexRot]
  have hp : vertexRot α β (polar m α β ω) = ⟨m * Real.cosh ω, 0, 0, m * Real.sinh ω⟩ := by
    have h1 := Real.sin_sq_add_cos_sq α
    have h2 := Real.sin_sq_add_cos_sq β
    ext <;> simp only [vertexRot, rotYv, rotZv, polar, kcos, ksin]
    · linear_combination (m * Real.sinh ω * Real.sin β * Real.cos β) * h1
    · ring
    · linear_combination (m * Real.sinh ω * Real.sin β ^ 2) * h1 + (m * Real.sinh ω) * h2
  rw [hp, boostZv_eq_restVector m ω hm hreg]
  rfl

/-! ### (2) the stabiliser of a momentum at rest is SU(2) -/

/-- **`rest_stabiliser`** — every `A ∈ SL(2,ℂ)` that maps a massive particle at rest to itself is a rotation -/
theorem rest_stabiliser (a : M2) (hd : a.det = Cx.one) (m : ℝ) (hm : m ≠ 0)
    (h : act a (scalarM m) = scalarM m) : IsSU2 a :=
  isSU2_of_dagger_eq_inv a hd (dagger_eq_inv a hd (act_scalarM_eq a m hm h))

/-- … and conversely every rotation does -/
theorem rotation_fixes_rest (a : M2) (h : IsSU2 a) (m : ℝ) : act a (scalarM m) = scalarM m :=
  act_scalarM_of_isSU2 a h m

/-- the hypothesis `m ≠ 0` cannot be dropped: `Boost_z(ω)` fixes the light-like `herm (1,0,0,1)·0 = 0` but is no
rotation for `ω ≠ 0` (own statement of the excluded case) -/
theorem rest_stabiliser_massless_fails (ω : ℝ) (hω : ω ≠ 0) :
    act (boostZ ω) (scalarM 0) = scalarM 0 ∧ ¬ IsSU2 (boostZ ω) := by
  constructor
  · ext <;> simp [act, scalarM, M2.mul, Cx.mul, Cx.add, Cx.zero, dagger, Cx.conj]
  · rintro ⟨h11, -, -⟩
    have h := congrArg Cx.re h11
    have he : Real.exp (ω / 2) ≠ 0 := Real.exp_ne_zero _
    simp only [boostZ, kexp, Cx.inv, Cx.conj, Cx.normSq] at h
    have h2 : Real.exp (ω / 2) * Real.exp (ω / 2) = 1 := by
      field_simp at h
      nlinarith
    have h3 : Real.exp ω = 1 := by
      rw [← h2, ← Real.exp_add]; congr 1; ring
    exact hω (by simpa using (Real.exp_eq_one_iff ω).mp h3)

/-! ### (3) two routes to rest differ by a rotation -/

/-- **`two_routes_rotation`** — if `A` and `B` (determinant one) map the same Hermitian matrix `X` to `m·1`, `m ≠ 0`,
then `B A⁻¹ ∈ SU(2)`.  (`X = herm p` for the lab momentum `p` of the particle; `A`, `B` the route matrices of two
decay chains.) -/
theorem two_routes_rotation (a b : M2) (ha : a.det = Cx.one) (hb : b.det = Cx.one) (x : M2) (m : ℝ) (hm : m ≠ 0)
    (h1 : act a x = scalarM m) (h2 : act b x = scalarM m) : IsSU2 (b.mul a.inv) := by
  have hx : act a.inv (scalarM m) = x := by rw [← h1]; exact act_inv_act a x ha
  refine rest_stabiliser _ (det_mul_one _ _ hb ?_) m hm ?_
  · rw [M2.det_inv]; exact ha
  · rw [act_mul, hx, h2]

/-! ### (4) routes: the code's accumulation along a decay path -/

/-- a decay path from the top particle down to a final particle: first vertex, further vertices -/
abbrev Route := Step × List Step

def Route.list (r : Route) : List Step := r.1 :: r.2
/-- `b_matrix[f]` of the chain -/
noncomputable def Route.b (r : Route) : M2 := bOfRoute r.1 r.2
/-- `r_matrix[f]` of the chain, accumulated as `cal_helicity_angle` does (`Align.pathR`) -/
noncomputable def Route.r (r : Route) : M2 := rOfRoute r.1 r.2

/-- **`route_matches_code`** — `b_matrix[f] · r_matrix[f]`, with `r_matrix` accumulated as
`r · b_matrix[core] · r_matrix[core]` from the top down, is the ordered product of the per-vertex matrices
`Boost_z(ω_i)·Rotation_y(β_i)·Rotation_z(α_i)`; decay paths of ANY depth -/
theorem route_matches_code (r : Route) : r.b.mul r.r = routeM r.list := by
  obtain ⟨s0, ss⟩ := r
  unfold Route.b Route.r Route.list bOfRoute rOfRoute pathR routeM
  rw [code_route_aux, List.foldl_cons, M2.mul_one]
  rfl

/-- **`route_acts`** — the route matrix acts on four-vectors as the composition of the per-vertex Lorentz
transformations (azimuth −α, polar angle −β, boost −tanh ω along z), every depth, all angles and rapidities -/
theorem route_acts (ss : List Step) (p : V4) : act (routeM ss) (herm p) = herm (routeL ss p) :=
  route_acts_aux ss M2.one p p (act_one _)

theorem det_routeM (ss : List Step) : (routeM ss).det = Cx.one :=
  det_route_aux ss M2.one M2.det_one

theorem det_route_b (r : Route) : r.b.det = Cx.one := det_boostZ _

theorem det_route_r (r : Route) : r.r.det = Cx.one := by
  obtain ⟨s0, ss⟩ := r
  unfold Route.r rOfRoute
  apply det_pathR
  generalize s0.omega = w
  induction ss generalizing w with
  | nil => intro l hl; simp [levelsOf] at hl
  | cons s ss ih =>
    intro l hl
    simp only [levelsOf, List.mem_cons] at hl
    rcases hl with rfl | hl
    · exact det_boostZ _
    · exact ih _ l hl

/-- **KINEMATIC HYPOTHESIS, by name.**  The Lorentz transformation composed from the angles and rapidities the code
fed to its matrices along the route brings the momentum `q` of the final particle (mass `m`, coordinates in the frame
of the top particle that all chains share) to rest. -/
def RouteToRest (r : Route) (q : V4) (m : ℝ) : Prop := routeL r.list q = ⟨m, 0, 0, 0⟩

/-- the smaller hypothesis it follows from: the LAST vertex `s` was computed from the momentum the earlier vertices
`ss` produce — its `(alpha, beta)` are the direction and its `omega` the rapidity of `routeL ss q` -/
def LastVertexTracks (ss : List Step) (s : Step) (q : V4) (m : ℝ) : Prop :=
  routeL ss q = polar m s.alpha s.beta s.omega

theorem routeL_to_rest_of_lastVertex (ss : List Step) (s : Step) (q : V4) (m : ℝ)
    (h : LastVertexTracks ss s q m) : routeL (ss ++ [s]) q = ⟨m, 0, 0, 0⟩ := by
  unfold routeL at *
  rw [List.foldl_append, List.foldl_cons, List.foldl_nil]
  unfold LastVertexTracks routeL at h
  rw [h, stepL_polar]

/-- a one-vertex route (a final particle produced by the top particle) needs no more than the polar form of `q` -/
theorem routeToRest_single (s : Step) (m : ℝ) : RouteToRest (s, []) (polar m s.alpha s.beta s.omega) m := by
  unfold RouteToRest Route.list routeL
  rw [List.foldl_cons, List.foldl_nil, stepL_polar]

/-- a route of depth ≥ 2 tracks the momentum if its last vertex does -/
theorem routeToRest_of_lastVertex (s0 : Step) (ss : List Step) (s : Step) (q : V4) (m : ℝ)
    (h : LastVertexTracks (s0 :: ss) s q m) : RouteToRest (s0, ss ++ [s]) q m := by
  unfold RouteToRest Route.list
  rw [← List.cons_append]
  exact routeL_to_rest_of_lastVertex _ s q m h

/-- a route that tracks the momentum maps it to `m·1` -/
theorem route_to_rest (r : Route) (q : V4) (m : ℝ) (h : RouteToRest r q m) :
    act (r.b.mul r.r) (herm q) = scalarM m := by
  rw [route_matches_code, route_acts, h, scalarM_eq_herm]

/-! ### `IsSU2 G` discharged -/

/-- **the change-of-reference element of two chains is a rotation** -/
theorem changeRef_isSU2 (q : V4) (m : ℝ) (hm : m ≠ 0) (ρ ρ' : Route) (h : RouteToRest ρ q m)
    (h' : RouteToRest ρ' q m) : IsSU2 (changeRef ρ.b ρ.r ρ'.b ρ'.r) :=
  two_routes_rotation _ _ (det_mul_one _ _ (det_route_b ρ) (det_route_r ρ))
    (det_mul_one _ _ (det_route_b ρ') (det_route_r ρ')) (herm q) m hm (route_to_rest ρ q m h) (route_to_rest ρ' q m h')

/-- **every alignment element handed to `get_euler_angle` is a rotation** -/
theorem alignR_isSU2 (q : V4) (m : ℝ) (hm : m ≠ 0) (ρ k : Route) (h : RouteToRest ρ q m) (hk : RouteToRest k q m) :
    IsSU2 (alignR ρ.b ρ.r k.r k.b) := by
  rw [← changeRef_eq_align]
  exact changeRef_isSU2 q m hm k ρ hk h

/-- **`convention_invariant` without `IsSU2`** — final particle of any spin `2j = N ≤ 8`, arbitrary spectator indices,
any number of chains, any chain amplitudes; references = the routes `ρ`, `ρ'` of two chains; every matrix is the one the
code builds (`Route.b`, `Route.r`).  Hypotheses: `m ≠ 0` and the named kinematic one, `RouteToRest`, for the two
references and for every chain. -/
theorem convention_invariant_routes {ι' κ : Type} [Fintype ι'] [DecidableEq ι'] [Fintype κ] (N : ℕ) (hN : N ≤ 8)
    (q : V4) (m : ℝ) (hm : m ≠ 0) (ρ ρ' : Route) (route : κ → Route)
    (hρ : RouteToRest ρ q m) (hρ' : RouteToRest ρ' q m) (hk : ∀ k, RouteToRest (route k) q m)
    (A : κ → ι' × Fin (N + 1) → ℂ) :
    density (fun k => alignOp N (alignR ρ'.b ρ'.r (route k).r (route k).b) *ᵥ A k) =
      density (fun k => alignOp N (alignR ρ.b ρ.r (route k).r (route k).b) *ᵥ A k) :=
  convention_invariant N hN _ _ _ _ (det_route_b ρ) (det_route_r ρ) (changeRef_isSU2 q m hm ρ ρ' hρ hρ')
    (fun k => (route k).r) (fun k => (route k).b) (fun k => alignR_isSU2 q m hm ρ (route k) hρ (hk k)) A

/-- **two aligned final particles** (momenta `q₁`, `q₂`, masses `m₁`, `m₂`), each with its own pair of reference
chains, without `IsSU2` -/
theorem convention_invariant_two_routes {ι' κ : Type} [Fintype ι'] [DecidableEq ι'] [Fintype κ] (N₁ N₂ : ℕ)
    (hN₁ : N₁ ≤ 8) (hN₂ : N₂ ≤ 8) (q₁ q₂ : V4) (m₁ m₂ : ℝ) (hm₁ : m₁ ≠ 0) (hm₂ : m₂ ≠ 0)
    (ρ₁ ρ₁' ρ₂ ρ₂' : Route) (route₁ route₂ : κ → Route)
    (h1 : RouteToRest ρ₁ q₁ m₁) (h1' : RouteToRest ρ₁' q₁ m₁) (hk1 : ∀ k, RouteToRest (route₁ k) q₁ m₁)
    (h2 : RouteToRest ρ₂ q₂ m₂) (h2' : RouteToRest ρ₂' q₂ m₂) (hk2 : ∀ k, RouteToRest (route₂ k) q₂ m₂)
    (A : κ → (ι' × Fin (N₁ + 1)) × Fin (N₂ + 1) → ℂ) :
    density (fun k => alignOp N₂ (alignR ρ₂'.b ρ₂'.r (route₂ k).r (route₂ k).b) *ᵥ
        (alignOp1 N₁ N₂ (alignR ρ₁'.b ρ₁'.r (route₁ k).r (route₁ k).b) *ᵥ A k)) =
      density (fun k => alignOp N₂ (alignR ρ₂.b ρ₂.r (route₂ k).r (route₂ k).b) *ᵥ
        (alignOp1 N₁ N₂ (alignR ρ₁.b ρ₁.r (route₁ k).r (route₁ k).b) *ᵥ A k)) :=
  convention_invariant_two N₁ N₂ hN₁ hN₂ _ _ _ _ _ _ _ _ (det_route_b ρ₁) (det_route_r ρ₁) (det_route_b ρ₂)
    (det_route_r ρ₂) (changeRef_isSU2 q₁ m₁ hm₁ ρ₁ ρ₁' h1 h1') (changeRef_isSU2 q₂ m₂ hm₂ ρ₂ ρ₂' h2 h2')
    (fun k => (route₁ k).r) (fun k => (route₁ k).b) (fun k => (route₂ k).r) (fun k => (route₂ k).b)
    (fun k => alignR_isSU2 q₁ m₁ hm₁ ρ₁ (route₁ k) h1 (hk1 k))
    (fun k => alignR_isSU2 q₂ m₂ hm₂ ρ₂ (route₂ k) h2 (hk2 k)) A

/-- chain order and reference together (what reordering the configuration does), without `IsSU2` -/
theorem order_and_reference_invariant_routes {ι' κ : Type} [Fintype ι'] [DecidableEq ι'] [Fintype κ]
    (σ : Equiv.Perm κ) (N : ℕ) (hN : N ≤ 8) (q : V4) (m : ℝ) (hm : m ≠ 0) (ρ ρ' : Route) (route : κ → Route)
    (hρ : RouteToRest ρ q m) (hρ' : RouteToRest ρ' q m) (hk : ∀ k, RouteToRest (route k) q m)
    (A : κ → ι' × Fin (N + 1) → ℂ) :
    density (fun k => alignOp N (alignR ρ'.b ρ'.r (route (σ k)).r (route (σ k)).b) *ᵥ A (σ k)) =
      density (fun k => alignOp N (alignR ρ.b ρ.r (route k).r (route k).b) *ᵥ A k) :=
  order_and_reference_invariant σ N hN _ _ _ _ (det_route_b ρ) (det_route_r ρ) (changeRef_isSU2 q m hm ρ ρ' hρ hρ')
    (fun k => (route k).r) (fun k => (route k).b) (fun k => alignR_isSU2 q m hm ρ (route k) hρ (hk k)) A

/-! ### rule 2 (`align_ref = "center_mass"`): the reference `(1, r⁻¹ · Boost_z(ω) · r)` -/

/-- the rule-2 reference maps the momentum it was built from to rest: `r` turns it onto `+z`, `Boost_z(ω)` stops it,
`r⁻¹` is a rotation and leaves `m·1` alone -/
theorem rule2_to_rest (m α β ω : ℝ) :
    act (M2.one.mul (rule2R α β ω)) (herm (polar m α β ω)) = scalarM m := by
  have hr : act (stepR α β) (scalarM m) = scalarM m := by
    rw [scalarM_eq_herm, stepR_acts]
    congr 1
    ext <;> simp [rotYv, rotZv]
  rw [M2.one_mul]
  unfold rule2R
  rw [act_mul, act_mul, ← act_mul (boostZ ω)]
  have := helicity_vertex_to_rest ⟨α, β, ω⟩ m
  unfold stepM at this
  simp only at this
  rw [this]
  conv_lhs => rw [← hr]
  exact act_inv_act _ _ (det_stepR α β)

/-- rule 1 → rule 2 without `IsSU2`: `q = polar m α β ω` is the momentum of the final particle in the frame of the top
particle, `(α, β, ω)` the angles and rapidity `aligned_angle_ref_rule2` computes from it -/
theorem convention_invariant_rule2_routes {ι' κ : Type} [Fintype ι'] [DecidableEq ι'] [Fintype κ] (N : ℕ)
    (hN : N ≤ 8) (m α β ω : ℝ) (hm : m ≠ 0) (ρ : Route) (route : κ → Route)
    (hρ : RouteToRest ρ (polar m α β ω) m) (hk : ∀ k, RouteToRest (route k) (polar m α β ω) m)
    (A : κ → ι' × Fin (N + 1) → ℂ) :
    density (fun k => alignOp N (alignR M2.one (rule2R α β ω) (route k).r (route k).b) *ᵥ A k) =
      density (fun k => alignOp N (alignR ρ.b ρ.r (route k).r (route k).b) *ᵥ A k) := by
  refine convention_invariant N hN _ _ _ _ (det_route_b ρ) (det_route_r ρ) ?_
    (fun k => (route k).r) (fun k => (route k).b)
    (fun k => alignR_isSU2 _ m hm ρ (route k) hρ (hk k)) A
  exact two_routes_rotation _ _ (det_mul_one _ _ (det_route_b ρ) (det_route_r ρ))
    (det_mul_one _ _ M2.det_one (det_rule2R α β ω)) (herm (polar m α β ω)) m hm (route_to_rest ρ _ m hρ)
    (rule2_to_rest m α β ω)

/-! ### non-vacuity: two different routes that both track the momentum `polar m α β ω` — the one-vertex route
`(α, β, ω)` and the two-vertex route "turn onto `+z` and boost by `ω₁`, then boost by the remaining `ω − ω₁`" -/

example (m α β ω ω₁ : ℝ) :
    RouteToRest (⟨α, β, ω⟩, []) (polar m α β ω) m ∧
      RouteToRest (⟨α, β, ω₁⟩, [⟨0, 0, ω - ω₁⟩]) (polar m α β ω) m := by
  refine ⟨routeToRest_single ⟨α, β, ω⟩ m, ?_⟩
  have h1 := Real.sin_sq_add_cos_sq α
  have h2 := Real.sin_sq_add_cos_sq β
  have hc : Real.cosh (ω - ω₁) = Real.cosh ω * Real.cosh ω₁ - Real.sinh ω * Real.sinh ω₁ := Real.cosh_sub ω ω₁
  have hs : Real.sinh (ω - ω₁) = Real.sinh ω * Real.cosh ω₁ - Real.cosh ω * Real.sinh ω₁ := Real.sinh_sub ω ω₁
  have h3 := Real.cosh_sq ω
  have h4 := Real.cosh_sq ω₁
  unfold RouteToRest Route.list routeL
  simp only [List.foldl_cons, List.foldl_nil]
  ext <;> simp only [stepL, boostZv, rotYv, rotZv, polar, kcos, ksin, kcosh_eq, ksinh_eq, hc, hs, Real.cos_zero,
    Real.sin_zero]
  · linear_combination (-(m * Real.sinh ω * Real.sin β ^ 2 * (Real.sinh ω * Real.cosh ω₁ ^ 2 -
        Real.sinh ω * Real.sinh ω₁ ^ 2))) * h1 - m * Real.sinh ω ^ 2 * (Real.cosh ω₁ ^ 2 - Real.sinh ω₁ ^ 2) * h2 +
      m * (Real.cosh ω₁ ^ 2 - Real.sinh ω₁ ^ 2) * h3 + m * h4
  · linear_combination (m * Real.sinh ω * Real.sin β * Real.cos β) * h1
  · ring
  · linear_combination (m * Real.sinh ω * Real.cosh ω * Real.sin β ^ 2 * (Real.cosh ω₁ ^ 2 - Real.sinh ω₁ ^ 2)) * h1 +
      m * Real.sinh ω * Real.cosh ω * (Real.cosh ω₁ ^ 2 - Real.sinh ω₁ ^ 2) * h2

/-- non-vacuity of `two_routes_rotation` / `rest_stabiliser`: a helicity vertex and the rule-2 reference built from the
same momentum are two different determinant-one matrices that map it to `m·1` -/
example (m α β ω : ℝ) :
    act (stepM ⟨α, β, ω⟩) (herm (polar m α β ω)) = scalarM m ∧
      act (M2.one.mul (rule2R α β ω)) (herm (polar m α β ω)) = scalarM m :=
  ⟨helicity_vertex_to_rest ⟨α, β, ω⟩ m, rule2_to_rest m α β ω⟩

end TfPwaV.C02
