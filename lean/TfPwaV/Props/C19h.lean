import TfPwaV.Proofs.ConfigH
import TfPwaV.Props.C19g
/-!
# C19h — what part g left outside: LS-decay particles, shared heads, the string rendering of names, `coef_head` on
several chains, export → load with decay-entry parameters, `decay_d`

Theorems about the model `TfPwaV.ConfigE` (tied to `ConfigLoader(dict)` by harness/c19_epar.py: exact comparison of
chains, (l,s) lists, exported option dicts, the (l,s) lists after export → load, the `get_params()` name list, the
`vm.same_list` partition, 17 attributes + `d` of every decay object and the keys of `vm.pre_trans`).
"For every card" = every value of `CardE`.
-/
namespace TfPwaV.C19h
open TfPwaV.Config TfPwaV.ConfigD TfPwaV.ConfigE

/-! ## reading the outcome -/

theorem expandE_ok {c : CardE} {x : CtxD} {cand chains : List Chain} (h : c.expand = .ok x cand chains) :
    c.context = some x ∧ candidates x.regs c.d.base.top c.d.base.finals = some cand ∧
      cand.all simpleChain = true ∧ (cand.flatMap id).any (decayUnsupported x) = false ∧ firstError x cand = none ∧
      c.structError x.props = none ∧ chains = cand.filter x.toCtx.survives ∧ chains ≠ [] := by
  unfold CardE.expand at h
  split at h
  · simp at h
  · rename_i x' hc
    split at h
    · simp at h
    · rename_i cand' hcand
      split at h
      · simp at h
      · rename_i hs
        split at h
        · simp at h
        · rename_i hu
          split at h
          · simp at h
          · rename_i hfe
            split at h
            · simp at h
            · rename_i hne
              split at h
              · simp at h
              · rename_i hse
                simp only [OutcomeE.ok.injEq] at h
                obtain ⟨rfl, rfl, rfl⟩ := h
                refine ⟨hc, hcand, by simpa using hs, by simpa using hu, hfe, hse, rfl, ?_⟩
                intro h0; rw [h0] at hne; simp at hne

/-! ## (1) keywords of decays of LS particles -/

/-- `get_decay(core, outs, **params)` with the keywords that the particle CLASS of the mother injects: entry >
`decay_params` as the class leaves it > `production_params` of the second daughter > of the first. -/
theorem kwargs_precedence_E (props : List (Name × PDict)) (d : BDecay) (e : DDict) (k : String) :
    getKV (effKwargsE props d e) k =
      (lastKV e k).orElse fun _ => (lastKV (decayParamsOfE props d.core) k).orElse fun _ =>
        (lastKV (partDict props d.o2 "production_params") k).orElse fun _ =>
          lastKV (partDict props d.o1 "production_params") k := by
  unfold effKwargsE
  rw [getKV_updKV, getKV_updKV, getKV_updKV, getKV_updKV]
  cases lastKV e k <;> cases lastKV (decayParamsOfE props d.core) k <;>
    cases lastKV (partDict props d.o2 "production_params") k <;>
    cases lastKV (partDict props d.o1 "production_params") k <;> simp [getKV]

theorem getKV_eq_lastKV_of_updKV_nil {β : Type} (b : List (String × β)) (k : String) :
    getKV (updKV [] b) k = lastKV b k := by
  rw [getKV_updKV]; cases lastKV b k <;> simp [getKV]

/-- what the particle class writes into `decay_params` for the key `model` -/
theorem ls_particle_injects_model (props : List (Name × PDict)) (n : Name)
    (hm : modelOf ((getKV props n).getD []) = "BWR_LS" ∨ lsShapes.contains (modelOf ((getKV props n).getD [])) = true) :
    getKV (decayParamsOfE props n) "model" =
      (lastKV (partDict props n "decay_params") "model").orElse fun _ => some (.str "LS-decay") := by
  unfold decayParamsOfE
  rcases hm with hm | hm
  · simp only [hm, beq_self_eq_true, if_true]
    rw [getKV_updKV]
    cases lastKV (partDict props n "decay_params") "model" <;> simp [getKV]
  · by_cases hb : (modelOf ((getKV props n).getD []) == "BWR_LS") = true
    · simp only [hb, if_true]
      rw [getKV_updKV]
      cases lastKV (partDict props n "decay_params") "model" <;> simp [getKV]
    · simp only [hb, hm, if_true, Bool.false_eq_true, if_false]
      rw [getKV_updKV]
      cases lastKV (partDict props n "decay_params") "model" <;> simp [getKV]

theorem decayParamsOfE_keys_nodup (props : List (Name × PDict)) (n : Name)
    (hm : modelOf ((getKV props n).getD []) = "BWR_LS" ∨ lsShapes.contains (modelOf ((getKV props n).getD [])) = true) :
    ((decayParamsOfE props n).map (·.1)).Nodup := by
  unfold decayParamsOfE
  simp only
  split
  · exact updKV_nodup _ _ (by simp)
  · rename_i hb
    rcases hm with hm | hm
    · rw [hm] at hb; simp at hb
    · rw [if_pos hm]
      exact updKV_nodup _ _ (by decide)

/-- Every decay of a `BWR_LS` / `BWR_LS2` / `MultiBW(R)` particle is built by the class `ParticleDecayLS`, unless the
decay entry or the particle's own `decay_params` name another model. -/
theorem ls_particle_decay_class (props : List (Name × PDict)) (d : BDecay) (e : DDict)
    (hm : modelOf ((getKV props d.core).getD []) = "BWR_LS" ∨ lsShapes.contains (modelOf ((getKV props d.core).getD [])) = true)
    (he : lastKV e "model" = none) (hp : lastKV (partDict props d.core "decay_params") "model" = none) :
    classOfE (effKwargsE props d e) = .lsDecay := by
  have h1 : getKV (effKwargsE props d e) "model" = some (.str "LS-decay") := by
    rw [kwargs_precedence_E, he]
    have h2 := ls_particle_injects_model props d.core hm
    rw [hp] at h2
    have h3 : lastKV (decayParamsOfE props d.core) "model" = some (.str "LS-decay") := by
      rw [lastKV_eq_getKV _ _ (decayParamsOfE_keys_nodup props d.core hm), h2]; rfl
    simp [h3]
  unfold classOfE
  rw [h1]
  decide

/-! ## (3a) the string rendering of variable names is injective -/

/-- `names_injective`, couplings and chain totals: the name `<base>_<k><part>` of a component of a shaped complex variable
(`<head>_g_ls_<k>r/i`, `<chain head>_total_0r/i`, `<R>_coeff_<a>_<b>r/i`) determines the variable, the index and the
part — for ARBITRARY base strings (user `params_head` included), because the decimal index contains no `_`. -/
theorem names_injective (b1 b2 : String) (k1 k2 : Nat) (p1 p2 : Char)
    (h : b1 ++ "_" ++ toString k1 ++ String.singleton p1 = b2 ++ "_" ++ toString k2 ++ String.singleton p2) :
    b1 = b2 ∧ k1 = k2 ∧ p1 = p2 := by
  obtain ⟨e1, e2⟩ := append_single_inj h
  obtain ⟨e3, e4⟩ := indexed_inj e1
  exact ⟨e3, e4, e2⟩

/-- … in the form the loader writes them: decay head, `_g_ls_`, index, `r` / `i` -/
theorem gls_name_injective (h1 h2 : String) (k1 k2 : Nat) (p1 p2 : Char)
    (h : h1 ++ "_g_ls" ++ "_" ++ toString k1 ++ String.singleton p1 = h2 ++ "_g_ls" ++ "_" ++ toString k2 ++ String.singleton p2) :
    h1 = h2 ∧ k1 = k2 ∧ p1 = p2 := by
  obtain ⟨e1, e2, e3⟩ := names_injective _ _ _ _ _ _ h
  have := congrArg String.toList e1
  rw [String.toList_append, String.toList_append] at this
  exact ⟨String.toList_inj.1 (List.append_cancel_right this), e2, e3⟩

/-- real shaped variables (`g_ls` with `same_phase`, `<R>_g_<i>`, `<R>_com_mass_<i>`) -/
theorem real_name_injective (b1 b2 : String) (k1 k2 : Nat) (h : b1 ++ "_" ++ toString k1 = b2 ++ "_" ++ toString k2) :
    b1 = b2 ∧ k1 = k2 := indexed_inj h

/-- a real component never has the name of a complex component (last character: digit vs `r` / `i`) -/
theorem real_ne_complex (b1 b2 : String) (k1 k2 : Nat) (p : Char) (hp : p.isDigit = false) :
    b1 ++ "_" ++ toString k1 ≠ b2 ++ "_" ++ toString k2 ++ String.singleton p := by
  intro h
  obtain ⟨c, hc, hd⟩ := indexed_last_isDigit b1 k1
  rw [h, String.toList_append] at hc
  have : (String.singleton p).toList = [p] := by simp
  rw [this, List.getLast?_append] at hc
  simp at hc
  rw [← hc, hp] at hd
  cases hd

/-- scalar variables of a particle (`<R>_mass`, `<R>_width`, `<R>_a`, `<R>_theta0`, `<R>_beta1r`, …): for suffixes
without `_` the name determines the particle and the suffix, whatever the particle is called -/
theorem particle_name_injective (n1 n2 s1 s2 : String) (h1 : '_' ∉ s1.toList) (h2 : '_' ∉ s2.toList)
    (h : n1 ++ "_" ++ s1 = n2 ++ "_" ++ s2) : n1 = n2 ∧ s1 = s2 := by
  have hl := congrArg String.toList h
  simp only [String.toList_append] at hl
  have e : "_".toList = ['_'] := by decide
  rw [e] at hl
  simp only [List.append_assoc, List.singleton_append] at hl
  obtain ⟨a, b⟩ := split_last '_' _ _ _ _ h1 h2 hl
  exact ⟨String.toList_inj.1 a, String.toList_inj.1 b⟩

/-- the loader's own name grammar for a decay head: `<core>-><o1>.<o2>` (`get_name` turns `+` into `.`) -/
def NameOK (n : String) : Prop := '>' ∉ n.toList ∧ '.' ∉ n.toList

/-- default decay heads determine the decay: particle names that contain neither `>` nor `.` -/
theorem decayHead_injective (d1 d2 : BDecay) (hc1 : NameOK d1.core) (hc2 : NameOK d2.core) (ho1 : NameOK d1.o1) (ho2 : NameOK d2.o1)
    (h : decayHead d1 = decayHead d2) : d1 = d2 := by
  unfold decayHead at h
  have hl := congrArg String.toList h
  simp only [String.toList_append] at hl
  have e1 : "->".toList = ['-', '>'] := by decide
  have e2 : ".".toList = ['.'] := by decide
  rw [e1, e2] at hl
  have hl' : (d1.core.toList ++ ['-']) ++ '>' :: (d1.o1.toList ++ '.' :: d1.o2.toList) =
      (d2.core.toList ++ ['-']) ++ '>' :: (d2.o1.toList ++ '.' :: d2.o2.toList) := by
    simpa [List.append_assoc] using hl
  have n1 : '>' ∉ d1.core.toList ++ ['-'] := by
    intro hm; rcases List.mem_append.1 hm with hm | hm
    · exact hc1.1 hm
    · simp at hm
  have n2 : '>' ∉ d2.core.toList ++ ['-'] := by
    intro hm; rcases List.mem_append.1 hm with hm | hm
    · exact hc2.1 hm
    · simp at hm
  obtain ⟨a, b⟩ := split_first '>' _ _ _ _ n1 n2 hl'
  obtain ⟨c, e⟩ := split_first '.' _ _ _ _ ho1.2 ho2.2 b
  have a' := List.append_cancel_right a
  cases d1; cases d2
  simp only [BDecay.mk.injEq]
  exact ⟨String.toList_inj.1 a', String.toList_inj.1 c, String.toList_inj.1 e⟩

-- non-vacuity: the names of the generated grammar (`R_BC`, `NR(1)S`, `X3`) satisfy `NameOK`
example : NameOK "NR(1)S" ∧ NameOK "R_BC" := by
  refine ⟨⟨?_, ?_⟩, ⟨?_, ?_⟩⟩ <;> decide
-- … and a name with a dot does alias: A -> "B.C" D and A -> B "C.D" have ONE head
example : decayHead ⟨"A", "B.C", "D"⟩ = decayHead ⟨"A", "B", "C.D"⟩ := by decide

/-! ## (3b) no name is listed twice, with shared heads -/

/-- the variables whose components are indexed: `g_ls`, chain totals, `com_mass`, … -/
def Shaped (v : Var) : Prop := ∃ n, v.comps = complexNames v.base n ∨ v.comps = realNames v.base n

theorem mem_complexNames {b : String} {m : Nat} {n : String} (h : n ∈ complexNames b m) :
    ∃ i, i < m ∧ (n = b ++ "_" ++ toString i ++ String.singleton 'r' ∨ n = b ++ "_" ++ toString i ++ String.singleton 'i') := by
  unfold complexNames at h
  obtain ⟨i, hi, hn⟩ := List.mem_flatMap.1 h
  refine ⟨i, List.mem_range.1 hi, ?_⟩
  simp only [List.mem_cons, List.not_mem_nil, or_false] at hn
  rcases hn with hn | hn
  · exact Or.inl hn
  · exact Or.inr hn

theorem mem_realNames {b : String} {m : Nat} {n : String} (h : n ∈ realNames b m) : ∃ i, i < m ∧ n = b ++ "_" ++ toString i := by
  unfold realNames at h
  obtain ⟨i, hi, hn⟩ := List.mem_map.1 h
  exact ⟨i, List.mem_range.1 hi, hn.symm⟩

/-- a component name determines the base of its (shaped) variable -/
theorem shaped_base_of_comp (v w : Var) (hv : Shaped v) (hw : Shaped w) (n : String) (h1 : n ∈ v.comps) (h2 : n ∈ w.comps) :
    v.base = w.base := by
  have hr : ('r').isDigit = false := by decide
  have hi : ('i').isDigit = false := by decide
  obtain ⟨m1, hv⟩ := hv
  obtain ⟨m2, hw⟩ := hw
  rcases hv with hv | hv <;> rcases hw with hw | hw <;> rw [hv] at h1 <;> rw [hw] at h2
  · obtain ⟨i, _, e1⟩ := mem_complexNames h1
    obtain ⟨j, _, e2⟩ := mem_complexNames h2
    rcases e1 with e1 | e1 <;> rcases e2 with e2 | e2 <;> exact (names_injective _ _ _ _ _ _ (e1.symm.trans e2)).1
  · obtain ⟨i, _, e1⟩ := mem_complexNames h1
    obtain ⟨j, _, e2⟩ := mem_realNames h2
    rcases e1 with e1 | e1
    · exact absurd (e2.symm.trans e1) (real_ne_complex _ _ _ _ _ hr)
    · exact absurd (e2.symm.trans e1) (real_ne_complex _ _ _ _ _ hi)
  · obtain ⟨i, _, e1⟩ := mem_realNames h1
    obtain ⟨j, _, e2⟩ := mem_complexNames h2
    rcases e2 with e2 | e2
    · exact absurd (e1.symm.trans e2) (real_ne_complex _ _ _ _ _ hr)
    · exact absurd (e1.symm.trans e2) (real_ne_complex _ _ _ _ _ hi)
  · obtain ⟨i, _, e1⟩ := mem_realNames h1
    obtain ⟨j, _, e2⟩ := mem_realNames h2
    exact (real_name_injective _ _ _ _ (e1.symm.trans e2)).1

theorem realNames_nodup (b : String) (m : Nat) : (realNames b m).Nodup := by
  induction m with
  | zero => simp [realNames]
  | succ k ih =>
    have e : realNames b (k + 1) = realNames b k ++ [b ++ "_" ++ toString k] := by
      unfold realNames
      rw [List.range_succ, List.map_append]; simp
    rw [e, List.nodup_append]
    refine ⟨ih, by simp, ?_⟩
    intro x hx y hy hxy
    obtain ⟨i, hi, e1⟩ := mem_realNames hx
    simp only [List.mem_cons, List.not_mem_nil, or_false] at hy
    have := (real_name_injective _ _ _ _ ((e1.symm.trans hxy).trans hy)).2
    omega

theorem complexNames_nodup (b : String) (m : Nat) : (complexNames b m).Nodup := by
  induction m with
  | zero => simp [complexNames]
  | succ k ih =>
    have e : complexNames b (k + 1) = complexNames b k ++ [b ++ "_" ++ toString k ++ "r", b ++ "_" ++ toString k ++ "i"] := by
      unfold complexNames
      rw [List.range_succ, List.flatMap_append]; simp
    rw [e, List.nodup_append]
    refine ⟨ih, ?_, ?_⟩
    · simp only [List.nodup_cons, List.mem_singleton, List.not_mem_nil, not_false_eq_true, List.nodup_nil, and_true]
      intro h
      have := (names_injective b b k k 'r' 'i' h).2.2
      cases this
    · intro x hx y hy
      obtain ⟨i, hi, e1⟩ := mem_complexNames hx
      simp only [List.mem_cons, List.not_mem_nil, or_false] at hy
      intro hxy
      have hy' : y = b ++ "_" ++ toString k ++ String.singleton 'r' ∨ y = b ++ "_" ++ toString k ++ String.singleton 'i' := hy
      rcases e1 with e1 | e1 <;> rcases hy' with hy' | hy' <;>
        · have := (names_injective _ _ _ _ _ _ ((e1.symm.trans hxy).trans hy')).2.1
          omega

theorem shaped_comps_nodup (v : Var) (h : Shaped v) : v.comps.Nodup := by
  obtain ⟨m, h | h⟩ := h <;> rw [h]
  · exact complexNames_nodup _ _
  · exact realNames_nodup _ _

theorem shaped_names_nodup_of_bases (vs : List Var) (hb : (vs.map (·.base)).Nodup) (hs : ∀ v ∈ vs, Shaped v) :
    (vs.flatMap (·.comps)).Nodup := by
  induction vs with
  | nil => simp
  | cons v r ih =>
    rw [List.flatMap_cons, List.nodup_append]
    simp only [List.map_cons, List.nodup_cons] at hb
    refine ⟨shaped_comps_nodup v (hs v (List.mem_cons_self ..)), ih hb.2 (fun w hw => hs w (List.mem_cons_of_mem _ hw)), ?_⟩
    intro a ha b hbm hab
    obtain ⟨w, hw, hbw⟩ := List.mem_flatMap.1 hbm
    subst hab
    have := shaped_base_of_comp v w (hs v (List.mem_cons_self ..)) (hs w (List.mem_cons_of_mem _ hw)) a ha hbw
    exact hb.1 (this ▸ List.mem_map.2 ⟨w, hw, rfl⟩)

/-- `names_deterministic`, the part that was `_partial`: after ANY sequence of creations of indexed variables — two
decay objects may share a `params_head`, two chains may have the same concatenated head — the resulting name list has
no repetition: the later `Variable` replaced the earlier one (`addVar`), and different bases never render to the same
component name (`names_injective`, `real_ne_complex`). -/
theorem coupling_names_nodup (vs : List Var) (hs : ∀ v ∈ vs, Shaped v) : ((varState vs).flatMap (·.comps)).Nodup := by
  obtain ⟨h1, h2⟩ := foldl_addVar_inv vs [] (by simp)
  refine shaped_names_nodup_of_bases _ h1 (fun v hv => ?_)
  rcases h2 v hv with h | h
  · simp at h
  · exact hs v h

theorem totalVar_shaped (x : CtxD) (c : Chain) : Shaped (totalVar x c) := ⟨1, Or.inl rfl⟩

theorem glsVar_shaped (x : CtxD) (d : BDecay) : Shaped (glsVar x d) := by
  unfold glsVar
  simp only
  split
  · exact ⟨_, Or.inr rfl⟩
  · exact ⟨_, Or.inl rfl⟩

-- non-vacuity / the overwrite at work: two decay objects with head `HH`, the second with one coupling only
example : (varState [⟨"HH_g_ls", complexNames "HH_g_ls" 2, []⟩, ⟨"T_total", complexNames "T_total" 1, []⟩,
    ⟨"HH_g_ls", complexNames "HH_g_ls" 1, []⟩]).flatMap (·.comps) = ["T_total_0r", "T_total_0i", "HH_g_ls_0r", "HH_g_ls_0i"] := by
  decide

/-! ## (1b) the cut of part E -/

/-- `restricted_cut_sound_complete` for the cards of part E (LS-decay classes, any keyword): a candidate chain is kept
iff every decay keeps a coupling under its EFFECTIVE keywords (those the particle classes inject included). -/
theorem restricted_cut_sound_complete_E (c : CardE) (x : CtxD) (cand chains : List Chain) (h : c.expand = .ok x cand chains) :
    candidates x.regs c.d.base.top c.d.base.finals = some cand ∧
      ∀ ch, ch ∈ chains ↔ ch ∈ cand ∧ ∀ d ∈ ch, ∃ l s2, C19g.Coupling x d l s2 := by
  obtain ⟨_, hcand, _, _, _, _, rfl, _⟩ := expandE_ok h
  refine ⟨hcand, ?_⟩
  intro ch
  rw [List.mem_filter]
  unfold Ctx.survives
  simp only [List.all_eq_true, Bool.not_eq_true', List.isEmpty_eq_false_iff]
  constructor
  · rintro ⟨h1, h2⟩
    refine ⟨h1, fun d hd => ?_⟩
    obtain ⟨⟨l, s2⟩, hm⟩ := List.exists_mem_of_ne_nil _ (h2 d hd)
    exact ⟨l, s2, (C19g.ls_iff_coupling x d l s2).1 hm⟩
  · rintro ⟨h1, h2⟩
    refine ⟨h1, fun d hd => ?_⟩
    obtain ⟨l, s2, hc⟩ := h2 d hd
    exact List.ne_nil_of_mem ((C19g.ls_iff_coupling x d l s2).2 hc)

/-- no decay of a loaded card is of an unregistered or unmodelled class, and no particle constructor raised -/
theorem loaded_classes_E (c : CardE) (x : CtxD) (cand chains : List Chain) (h : c.expand = .ok x cand chains) :
    ∀ ch ∈ cand, ∀ d ∈ ch, classOfE (x.kwOf d) = .helicity ∨ classOfE (x.kwOf d) = .lsDecay := by
  obtain ⟨_, _, _, hu, hfe, _, _, _⟩ := expandE_ok h
  intro ch hch d hd
  have hmem : d ∈ cand.flatMap id := List.mem_flatMap.2 ⟨ch, hch, hd⟩
  have h1 := (List.any_eq_false.1 hu) d hmem
  have h2 : classOfE (x.kwOf d) ≠ .unknown := by
    intro hk
    unfold firstError at hfe
    have := (List.findSome?_eq_none_iff.1 hfe) d hmem
    rw [hk] at this
    cases h3 : particleError (pdOf x d.core) <;> cases h4 : particleError (pdOf x d.o1) <;>
      cases h5 : particleError (pdOf x d.o2) <;> simp [h3, h4, h5] at this
  cases hcl : classOfE (x.kwOf d) with
  | helicity => exact Or.inl rfl
  | lsDecay => exact Or.inr rfl
  | other => unfold decayUnsupported at h1; rw [hcl] at h1; simp at h1
  | unknown => exact absurd hcl h2

/-! ## (2) `coef_head`: the ties are EXACTLY the declared ones -/

theorem coefRun_ties_iff (x : CtxD) (plan : List (Chain × Name)) (st0 stf : CoefStE) (h : coefRun x plan st0 = .ok stf)
    (p : String × String) :
    p ∈ stf.ties ↔ p ∈ st0.ties ∨ ∃ pre a post st, plan = pre ++ a :: post ∧ coefRun x pre st0 = .ok st ∧ p ∈ visitTies x a.1 st a.2 := by
  induction plan generalizing st0 with
  | nil =>
    rw [coefRun_nil] at h
    simp only [Except.ok.injEq] at h
    subst h
    constructor
    · exact Or.inl
    · rintro (h | ⟨pre, a, post, _, hp, _⟩)
      · exact h
      · simp at hp
  | cons a r ih =>
    rw [coefRun_cons] at h
    cases hs : coefStepE x a.1 st0 a.2 with
    | error e => rw [hs] at h; simp [Except.bind] at h
    | ok st1 =>
      rw [hs] at h
      simp only [Except.bind] at h
      have ht := coefStepE_ties x a.1 st0 st1 a.2 hs
      rw [ih st1 h, ht, List.mem_append]
      constructor
      · rintro ((h1 | h1) | ⟨pre, b, post, st, hp, hr, hm⟩)
        · exact Or.inl h1
        · exact Or.inr ⟨[], a, r, st0, rfl, coefRun_nil x st0, h1⟩
        · refine Or.inr ⟨a :: pre, b, post, st, by rw [hp]; rfl, ?_, hm⟩
          rw [coefRun_cons, hs]; exact hr
      · rintro (h1 | ⟨pre, b, post, st, hp, hr, hm⟩)
        · exact Or.inl (Or.inl h1)
        · cases pre with
          | nil =>
            simp only [List.nil_append, List.cons.injEq] at hp
            obtain ⟨rfl, rfl⟩ := hp
            rw [coefRun_nil] at hr
            simp only [Except.ok.injEq] at hr
            subst hr
            exact Or.inl (Or.inr hm)
          | cons b' pre' =>
            simp only [List.cons_append, List.cons.injEq] at hp
            obtain ⟨rfl, rfl⟩ := hp
            rw [coefRun_cons, hs] at hr
            exact Or.inr ⟨pre', b, post, st, rfl, hr, hm⟩

/-- `coef_ties_declared` with its converse: a pair of variables is tied by `add_particle_constraints` IFF some visit
(chain, particle `i`) of the loader's plan declares it, where the declaration is read in the state the EARLIER visits
left: the head in force (the card's `coef_head`, or `i` itself once the loader has rewritten it) was met in some chain
`dh`, and the pair is the two chain totals or the k-th coupling of position-matched decays `i` takes part in
(`mem_visitTies`).  A head that appears only in a later chain declares nothing (and triggers the rewriting). -/
theorem coef_ties_declared_iff (x : CtxD) (chains : List Chain) (ties : List (String × String))
    (h : coefTiesE x chains = .ok ties) (p : String × String) :
    p ∈ ties ↔ ∃ pre a post st, coefPlan chains = pre ++ a :: post ∧ coefRun x pre {} = .ok st ∧ p ∈ visitTies x a.1 st a.2 := by
  unfold coefTiesE at h
  cases hf : coefRun x (coefPlan chains) {} with
  | error e => rw [hf] at h; simp [Except.map] at h
  | ok stf =>
    rw [hf] at h
    simp only [Except.map, Except.ok.injEq] at h
    subst h
    rw [coefRun_ties_iff x _ _ _ hf p]
    constructor
    · rintro (h | h)
      · simp at h
      · exact h
    · exact Or.inr

theorem mem_pairTies (x : CtxD) (i : Name) (jh : BDecay × BDecay) (p : String × String) :
    p ∈ pairTies x i jh ↔ (i == jh.1.o1 || i == jh.1.o2 || i == jh.1.core) = true ∧
      ∃ k, k < (x.ls jh.1).length ∧ p = (x.headOf jh.2 ++ "_g_ls_" ++ toString k, x.headOf jh.1 ++ "_g_ls_" ++ toString k) := by
  unfold pairTies
  by_cases hinv : (i == jh.1.o1 || i == jh.1.o2 || i == jh.1.core) = true
  · rw [if_pos hinv, List.mem_map]
    constructor
    · rintro ⟨k, hk, rfl⟩; exact ⟨hinv, k, List.mem_range.1 hk, rfl⟩
    · rintro ⟨_, k, hk, rfl⟩; exact ⟨k, List.mem_range.2 hk, rfl⟩
  · rw [if_neg hinv]
    constructor
    · intro h; cases h
    · rintro ⟨h, _⟩; exact absurd h hinv

/-- what one visit declares -/
theorem mem_visitTies (x : CtxD) (chain : Chain) (st : CoefStE) (i : Name) (p : String × String) :
    p ∈ visitTies x chain st i ↔ ∃ pc h dh, getKV x.props i = some pc ∧ headInForce st i pc = some h ∧
      getKV (setKV st.resDec i chain) h = some dh ∧
      (p = (x.chainHead dh ++ "_total_0r", x.chainHead chain ++ "_total_0r") ∨
        ∃ jh ∈ chain.zip dh, (i == jh.1.o1 || i == jh.1.o2 || i == jh.1.core) = true ∧
          ∃ k, k < (x.ls jh.1).length ∧ p = (x.headOf jh.2 ++ "_g_ls_" ++ toString k, x.headOf jh.1 ++ "_g_ls_" ++ toString k)) := by
  unfold visitTies
  cases hp : getKV x.props i with
  | none => simp
  | some pc =>
    simp only
    cases hh : headInForce st i pc with
    | none =>
      constructor
      · intro h; cases h
      · rintro ⟨pc', h', dh', e1, e2, _⟩
        cases e1; rw [hh] at e2; cases e2
    | some hd =>
      simp only
      cases hr : getKV (setKV st.resDec i chain) hd with
      | none =>
        constructor
        · intro h; cases h
        · rintro ⟨pc', h', dh', e1, e2, e3, _⟩
          cases e1; rw [hh] at e2; cases e2; rw [hr] at e3; cases e3
      | some dh =>
        simp only [List.mem_append, List.mem_flatMap, List.mem_singleton]
        constructor
        · rintro (⟨jh, hjh, hm⟩ | ht)
          · exact ⟨pc, hd, dh, rfl, hh, hr, Or.inr ⟨jh, hjh, (mem_pairTies x i jh p).1 hm⟩⟩
          · exact ⟨pc, hd, dh, rfl, hh, hr, Or.inl ht⟩
        · rintro ⟨pc', h', dh', e1, e2, e3, hcase⟩
          cases e1; rw [hh] at e2; cases e2; rw [hr] at e3; cases e3
          rcases hcase with ht | ⟨jh, hjh, hm⟩
          · exact Or.inr ht
          · exact Or.inl ⟨jh, hjh, (mem_pairTies x i jh p).2 hm⟩

/-- the rewriting: a visit whose head in force was not met yet makes the particle its own head from then on -/
theorem coef_head_rewritten (x : CtxD) (chain : Chain) (st st' : CoefStE) (i : Name) (pc : PDict) (hd : Name)
    (hp : getKV x.props i = some pc) (hh : headInForce st i pc = some hd) (hr : getKV (setKV st.resDec i chain) hd = none)
    (h : coefStepE x chain st i = .ok st') : headInForce st' i pc = some i ∧ st'.ties = st.ties := by
  unfold coefStepE at h
  rw [hp] at h
  simp only at h
  rw [hh] at h
  simp only at h
  rw [hr] at h
  simp only [Except.ok.injEq] at h
  subst h
  refine ⟨?_, rfl⟩
  unfold headInForce
  simp only
  rw [getKV_setKV']
  simp

/-! ## (2b) export → load with decay-entry parameters -/

/-- keywords that reach a decay from the particle dicts alone (what is left of them after `as_config()` → load: the
exported particle dict keeps `decay_params` / `production_params` in `_kwargs` but has lost `model`) -/
def particleLevel (props : List (Name × PDict)) (d : BDecay) : DDict :=
  updKV (updKV (updKV [] (partDict props d.o1 "production_params")) (partDict props d.o2 "production_params"))
    (partDict props d.core "decay_params")

theorem reloadKwargs_eq (props : List (Name × PDict)) (d : BDecay) (kw : DDict) :
    reloadKwargs props d kw = updKV (particleLevel props d) (exportOpts kw) := rfl

theorem not_mem_restKwargs (kw : DDict) (k : String) (hk : (helicityNamed.contains k || baseNamed.contains k) = true) :
    k ∉ (restKwargs kw).map (·.1) := by
  intro h
  obtain ⟨kv, hkv, rfl⟩ := List.mem_map.1 h
  unfold restKwargs at hkv
  have := (List.mem_filter.1 hkv).2
  rw [hk] at this
  cases this

/-- `BaseDecay.as_config` does not export what `HelicityDecay.__init__` names: a user `l_list` / `ls_list` /
`params_head` of a decay ENTRY is lost by export → load -/
theorem export_drops_named (kw : DDict) (k : String) (hk : helicityNamed.contains k = true) : lastKV (exportOpts kw) k = none := by
  apply lastKV_none_of_not_mem
  unfold exportOpts
  rw [List.map_append]
  intro h
  rcases List.mem_append.1 h with h | h
  · simp only [List.map_cons, List.map_nil, List.mem_cons, List.not_mem_nil, or_false] at h
    rcases h with rfl | rfl | rfl <;> revert hk <;> decide
  · exact not_mem_restKwargs kw k (by rw [hk]; rfl) h

theorem lastKV_export_fixed (_kw : DDict) (k : String) (v : DV) (rest : DDict) (hk : k ∉ rest.map (·.1)) :
    lastKV ((k, v) :: rest) k = some v := by
  rw [lastKV_cons, lastKV_none_of_not_mem rest k hk]; simp

/-- `export_import` for decay-entry parameters, at the level of ONE decay object with effective keywords `kw`: after
`as_config()` → load its `p_break` / `c_break` are what they were, its `l_list` / `ls_list` are those of the PARTICLE
level only (`decay_params` / `production_params`), whatever the decay entry said. -/
theorem export_import_opts (props : List (Name × PDict)) (d : BDecay) (kw : DDict) :
    (readOpt (reloadKwargs props d kw)).lList = (readOpt (particleLevel props d)).lList ∧
    (readOpt (reloadKwargs props d kw)).lsList = (readOpt (particleLevel props d)).lsList ∧
    (readOpt (reloadKwargs props d kw)).pBreak.getD false = (readOpt kw).pBreak.getD false ∧
    (readOpt (reloadKwargs props d kw)).cBreak.getD true = (readOpt kw).cBreak.getD true := by
  have hl : getKV (reloadKwargs props d kw) "l_list" = getKV (particleLevel props d) "l_list" := by
    rw [reloadKwargs_eq, getKV_updKV, export_drops_named kw "l_list" (by decide)]; rfl
  have hls : getKV (reloadKwargs props d kw) "ls_list" = getKV (particleLevel props d) "ls_list" := by
    rw [reloadKwargs_eq, getKV_updKV, export_drops_named kw "ls_list" (by decide)]; rfl
  have hpb : getKV (reloadKwargs props d kw) "p_break" = some ((getKV kw "p_break").getD (.bool false)) := by
    rw [reloadKwargs_eq, getKV_updKV]
    unfold exportOpts
    rw [List.cons_append, lastKV_export_fixed kw]
    · rfl
    · intro h
      simp only [List.cons_append, List.nil_append, List.map_cons, List.mem_cons] at h
      rcases h with h | h | h
      · revert h; decide
      · revert h; decide
      · exact not_mem_restKwargs kw "p_break" (by decide) h
  have hcb : getKV (reloadKwargs props d kw) "c_break" = some ((getKV kw "c_break").getD (.bool true)) := by
    rw [reloadKwargs_eq, getKV_updKV]
    unfold exportOpts
    rw [List.cons_append, lastKV_cons, List.cons_append, lastKV_export_fixed kw]
    · rfl
    · intro h
      simp only [List.map_append, List.mem_append, List.map_cons, List.map_nil, List.mem_cons, List.not_mem_nil, or_false] at h
      rcases h with h | h
      · revert h; decide
      · exact not_mem_restKwargs kw "c_break" (by decide) h
  refine ⟨?_, ?_, ?_, ?_⟩
  · unfold readOpt; simp only [hl]
  · unfold readOpt; simp only [hls]
  · unfold readOpt; simp only [hpb]
    cases h : getKV kw "p_break" with
    | none => rfl
    | some v => cases v <;> rfl
  · unfold readOpt; simp only [hcb]
    cases h : getKV kw "c_break" with
    | none => rfl
    | some v => cases v <;> rfl

/-- … hence: a decay without a verbatim `ls_list`, whose particles restrict nothing, has after export → load a list
that CONTAINS its list before (an `l_list` of the entry is forgotten, the selection rule is the same) -/
theorem export_import_ls_superset (x : CtxD) (d : BDecay) (hls : (readOpt (x.kwOf d)).lsList = none)
    (hp1 : (readOpt (particleLevel x.props d)).lList = none) (hp2 : (readOpt (particleLevel x.props d)).lsList = none) :
    ∀ p ∈ x.ls d, p ∈ reloadLs x d := by
  obtain ⟨e1, e2, e3, e4⟩ := export_import_opts x.props d (x.kwOf d)
  intro p hp
  unfold reloadLs lsOf
  rw [e2, hp2, e1, hp1, e3, e4]
  simp only
  unfold CtxD.ls Ctx.ls at hp
  rw [C19g.optOf_toCtx] at hp
  unfold lsOf at hp
  rw [hls] at hp
  simp only at hp
  cases hl : (readOpt (x.kwOf d)).lList with
  | none => rw [hl] at hp; exact hp
  | some ll =>
    rw [hl] at hp
    simp only at hp
    unfold LS.filterL at hp
    exact (List.mem_filter.1 hp).1

/-- … and the chain that survived the first load survives the reload -/
theorem export_import_chain_survives (x : CtxD) (ch : Chain) (hs : x.toCtx.survives ch = true)
    (h : ∀ d ∈ ch, (readOpt (x.kwOf d)).lsList = none ∧ (readOpt (particleLevel x.props d)).lList = none ∧
      (readOpt (particleLevel x.props d)).lsList = none) : ∀ d ∈ ch, reloadLs x d ≠ [] := by
  intro d hd
  unfold Ctx.survives at hs
  have := (List.all_eq_true.1 hs) d hd
  simp only [Bool.not_eq_true', List.isEmpty_eq_false_iff] at this
  obtain ⟨p, hp⟩ := List.exists_mem_of_ne_nil _ this
  obtain ⟨h1, h2, h3⟩ := h d hd
  exact List.ne_nil_of_mem (export_import_ls_superset x d h1 h2 h3 p hp)

/-! ## (2c) `decay_d` -/

theorem setD_keys (st : List (BDecay × String)) (d : BDecay) (v : String) (j : BDecay)
    (h : ∀ r ∈ st, r.1.same j = false) (hd : d.same j = false) : ∀ r ∈ setD st d v, r.1.same j = false := by
  induction st with
  | nil => intro r hr; simp only [setD, List.mem_singleton] at hr; rw [hr]; exact hd
  | cons y ys ih =>
    intro r hr
    simp only [setD] at hr
    split at hr
    · rcases List.mem_cons.1 hr with hr | hr
      · rw [hr]; exact h y (List.mem_cons_self ..)
      · exact h r (List.mem_cons_of_mem _ hr)
    · rcases List.mem_cons.1 hr with hr | hr
      · rw [hr]; exact h y (List.mem_cons_self ..)
      · exact ih (fun r hr => h r (List.mem_cons_of_mem _ hr)) r hr

/-- `decay_d: {name: d}` AS WRITTEN (`for d, j in zip(decay_d, chain)`): a decay that `zip` never pairs with a key —
every decay at a position ≥ the number of keys — keeps `d = 3.0`, although its mother may be named in the dict. -/
theorem decay_d_dict_truncated (kv : List (String × String)) (chains : List Chain) (j : BDecay)
    (h : ∀ c ∈ chains, ∀ kj ∈ kv.zip c, kj.2.same j = false) : dOf (applyD (.dict kv) chains) j = "3.0" := by
  have inv : ∀ (cs : List Chain) (st : List (BDecay × String)), (∀ c ∈ cs, ∀ kj ∈ kv.zip c, kj.2.same j = false) →
      (∀ r ∈ st, r.1.same j = false) →
      ∀ r ∈ cs.foldl (fun st c => (kv.zip c).foldl (fun st kj =>
        match getKV kv kj.2.core with
        | some v => setD st kj.2 v
        | none => st) st) st, r.1.same j = false := by
    intro cs
    induction cs with
    | nil => intro st _ hst; exact hst
    | cons c r ih =>
      intro st hcs hst
      simp only [List.foldl_cons]
      apply ih _ (fun c' hc' => hcs c' (List.mem_cons_of_mem _ hc'))
      have hz := hcs c (List.mem_cons_self ..)
      generalize kv.zip c = z at hz
      induction z generalizing st with
      | nil => exact hst
      | cons kj zs ihz =>
        simp only [List.foldl_cons]
        apply ihz _ _ (fun kj' hkj' => hz kj' (List.mem_cons_of_mem _ hkj'))
        cases hg : getKV kv kj.2.core with
        | none => exact hst
        | some v => exact setD_keys st kj.2 v j hst (hz kj (List.mem_cons_self ..))
  unfold applyD dOf
  simp only
  have := inv chains [] h (by simp)
  cases hf : List.find? (fun r => r.1.same j) (chains.foldl (fun st c => (kv.zip c).foldl (fun st kj =>
        match getKV kv kj.2.core with
        | some v => setD st kj.2 v
        | none => st) st) []) with
  | none => rfl
  | some r =>
    have h1 := List.find?_some hf
    have h2 := this r (List.mem_of_find?_eq_some hf)
    rw [h2] at h1
    cases h1

-- the listed finding as an instance: `decay_d: {R: 4.5}` on [A->R+D, R->B+C] leaves R->B+C at 3.0 …
example : dOf (applyD (.dict [("R", "4.5")]) [[⟨"A", "R", "D"⟩, ⟨"R", "B", "C"⟩]]) ⟨"R", "B", "C"⟩ = "3.0" := by decide
-- … the loop of fixes/C19-fix_decay_d_dict.diff sets it, and two keys happen to reach position 1
example : dOf (applyD (.dictAll [("R", "4.5")]) [[⟨"A", "R", "D"⟩, ⟨"R", "B", "C"⟩]]) ⟨"R", "B", "C"⟩ = "4.5" := by decide
example : dOf (applyD (.dict [("R", "4.5"), ("S", "5.5")]) [[⟨"A", "R", "D"⟩, ⟨"R", "B", "C"⟩]]) ⟨"R", "B", "C"⟩ = "4.5" := by decide

/-! ## non-vacuity: a card of part E that loads — `R` is a `BWR_LS` particle (its decay becomes `ParticleDecayLS` with
tied moduli), `S` names `R` as `coef_head`, both `A` decays share the head `HH`, the entry `l_list` of `R -> B C` and `S -> B C` is
dropped by the export (hypotheses `c.expand = .ok …`, `coefTiesE … = .ok …`, the `lsList = none` premises) -/

def exCardE : CardE :=
  { d := { base := { top := "A", topDict := some [("J", .spin 2), ("P", .int (-1))],
                     finals := ["B", "C", "D"],
                     finalsDict := some [("B", [("J", .spin 2), ("P", .int (-1))]), ("C", [("J", .spin 0), ("P", .int (-1))]),
                                         ("D", [("J", .spin 0), ("P", .int (-1))])],
                     includes := [], decay := [],
                     particle := [.props "R" [("J", .spin 2), ("P", .int 1), ("mass", .other "2.6"), ("width", .other "0.05"),
                                              ("model", .other "BWR_LS")],
                                  .props "S" [("J", .spin 2), ("P", .int 1), ("mass", .other "2.7"), ("coef_head", .other "R")]] }
           decay := [("A", .nested [[.name "R", .name "D", .opt [("params_head", .str "HH")]],
                                    [.name "S", .name "D", .opt [("params_head", .str "HH")]]]),
                     ("R", .flat [.name "B", .name "C", .opt [("l_list", .nats [2])]]),
                     ("S", .flat [.name "B", .name "C", .opt [("l_list", .nats [0])]])] }
    decayD := .dict [("R", "4.5")] }

def viewE (c : CardE) : Option (List String × List String × List (String × String) × List String × List (List (List (Nat × Nat)))) :=
  match c.expand with
  | .raise _ => none
  | .ok x cand chains =>
    match amplitude c x cand chains with
    | .error _ => none
    | .ok a => some (chains.map showChain, a.names, a.ties, chains.flatMap (fun ch => ch.map (dOf a.dvals)),
                     chains.map fun ch => ch.map (reloadLs x))

theorem exCardE_loads : (viewE exCardE == some (["[A->R+D, R->B+C]", "[A->S+D, S->B+C]"],
    ["R_mass", "R_width", "S_mass", "HHR->B.C_total_0r", "HHR->B.C_total_0i", "R->B.C_g_ls_0r", "R->B.C_g_ls_0i",
     "HHS->B.C_total_0r", "HHS->B.C_total_0i", "HH_g_ls_0r", "HH_g_ls_0i", "HH_g_ls_1r", "HH_g_ls_1i", "S->B.C_g_ls_0r",
     "S->B.C_g_ls_0i"],
    [("HH_g_ls_0", "HH_g_ls_0"), ("HH_g_ls_1", "HH_g_ls_1"), ("R->B.C_g_ls_0", "S->B.C_g_ls_0"),
     ("HHR->B.C_total_0r", "HHS->B.C_total_0r")],
    ["3.0", "3.0", "3.0", "3.0"],
    [[[(0, 2), (2, 2)], [(0, 2), (2, 2)]], [[(0, 2), (2, 2)], [(0, 2), (2, 2)]]])) = true := by decide +kernel

def loadsE (c : CardE) : Bool :=
  match c.expand with
  | .raise _ => false
  | .ok x _ chains => match coefTiesE x chains with | .ok _ => true | .error _ => false

theorem exCardE_ok : loadsE exCardE = true := by decide +kernel

example : ∃ x cand chains, exCardE.expand = .ok x cand chains ∧ ∃ ties, coefTiesE x chains = .ok ties := by
  have hl := exCardE_ok
  unfold loadsE at hl
  cases h : exCardE.expand with
  | raise w => rw [h] at hl; cases hl
  | ok x cand chains =>
    rw [h] at hl
    simp only at hl
    cases hc : coefTiesE x chains with
    | ok t => exact ⟨x, cand, chains, rfl, t, hc⟩
    | error e => rw [hc] at hl; cases hl

-- premises of `export_import_ls_superset` on this card, and the list that GROWS: `S -> B C` was loaded with the entry's
-- `l_list: [0]` (one coupling), the export does not carry it, the reloaded decay has both couplings
def reloadView (c : CardE) : Option (List (List (Nat × Nat) × List (Nat × Nat) × Bool)) :=
  match c.expand with
  | .raise _ => none
  | .ok x _ chains => some ((chains.flatMap id).map fun d => (x.ls d, reloadLs x d,
      (readOpt (x.kwOf d)).lsList == none && (readOpt (particleLevel x.props d)).lList == none &&
        (readOpt (particleLevel x.props d)).lsList == none))

theorem exCardE_reload : (reloadView exCardE == some [([(0, 2), (2, 2)], [(0, 2), (2, 2)], true), ([(2, 2)], [(0, 2), (2, 2)], true),
    ([(0, 2), (2, 2)], [(0, 2), (2, 2)], true), ([(0, 2)], [(0, 2), (2, 2)], true)]) = true := by decide +kernel

-- a VERBATIM user `ls_list` is not preserved either: (5, 1) is kept by the first load and is gone after export → load
example : (readOpt [("ls_list", DV.pairs [(5, 2)])]).lsList = some [(5, 2)] ∧
    (readOpt (reloadKwargs [] ⟨"A", "R", "D"⟩ [("ls_list", DV.pairs [(5, 2)])])).lsList = none := by decide

-- the SECOND pass (`decay_struct`): the slot `R_BD` has an empty candidate list, so the first pass never builds
-- `A -> R_BD C`; the second pass treats `R_BD` as a particle and constructs the entry with `model: null` → KeyError.
-- Part g's model (no second pass) loads the same card.
def exStructCard : CardD :=
  { base := { top := "A", topDict := some [("J", .spin 2), ("P", .int (-1))],
              finals := ["B", "C", "D"],
              finalsDict := some [("B", [("J", .spin 2), ("P", .int (-1))]), ("C", [("J", .spin 0), ("P", .int (-1))]),
                                  ("D", [("J", .spin 0), ("P", .int (-1))])],
              includes := [], decay := [],
              particle := [.props "R" [("J", .spin 2), ("P", .int 1), ("mass", .other "2.6")], .cands "R_BD" []] }
    decay := [("A", .nested [[.name "R", .name "D"], [.name "R_BD", .name "C", .opt [("model", .none)]]]),
              ("R", .flat [.name "B", .name "C"]), ("R_BD", .flat [.name "B", .name "D"])] }

theorem second_pass_keyerror :
    ((match (⟨exStructCard, .absent, [], []⟩ : CardE).expand with | .raise w => w | .ok _ _ _ => "ok") == "KeyError" &&
     (match exStructCard.expand with | .raise w => w | .ok _ ch => toString ch.length) == "1") = true := by decide +kernel

-- the class injection on this card: the decay of the BWR_LS particle R is an LS decay
example : classOfE (effKwargsE [("R", [("model", .other "BWR_LS")])] ⟨"R", "B", "C"⟩ [("l_list", .nats [2])]) = .lsDecay := by decide

end TfPwaV.C19h

