import TfPwaV.Props.C15b
import TfPwaV.Props.C15c
import TfPwaV.Props.C15d
import TfPwaV.Gen.LineShapeER

/-!
C15, round 5 — what rounds 1–3 left "validated only".

* `KMatrixSplitLS`: the value the CODE computes (`kmatrix_split_ls_value`), proved different from its docstring on a real
  witness (`kmatrix_split_ls_ne_doc`); the last line of `get_ls_amp` is not a matrix-vector product
  (`kmsApply2_colsum_not_solution`, `kmsApply2_colsum_zero_wave`), the repaired one solves `M x = P` (`KMatrixSplitLS2_matvec_solves`).
* `KmatrixSimple` with three channels: Cramer's rule solves the 3×3 system (`solve3_correct`, `KmatrixSimple3_solves`);
  one pole, one channel: reduction to a Breit–Wigner / Flatté denominator (`KmatrixSimple1_one_pole_bw`);
  `KMatrixSingleChannel`: no pole on the real axis, one pole = `β m1 Γ1 · BWR`.
* sympy denominator of `FlatteGen` / `Flatte2`: reciprocal of the numeric line shape (`FlatteGen_dom_reciprocal`); with
  `cut_phsp` the denominator of the current tree ignores the cut (`FlatteGenDom_current_ignores_cut`, witness).
* `GS` below the two-pion threshold (`GS_below_eq`), `hist_idx` outside the node range (`histIdx_below/above`),
  `interp_l3` passes through its parameters at the bin mid points (`interpL3_at_midpoints`).
-/
open TfPwaV.ScalarR TfPwaV.BprimeTable
namespace TfPwaV.C15
section LineShapes
open TfPwaV.LineShapeR

/-! ## KMatrixSplitLS -/

/-- `tf.sqrt(tf.complex(x, 0))` for `x ≥ 0` is the real square root -/
theorem Cx.sqrt_ofReal_nonneg (x : ℝ) (hx : 0 ≤ x) : (Cx.ofReal x).sqrt = ⟨Real.sqrt x, 0⟩ := by
  unfold Cx.sqrt Cx.ofReal ksqrt
  simp only [lt_irrefl, if_false, if_neg (not_lt.mpr hx)]

/-- below the guard: `tf.sqrt(tf.complex(x, 0))` for `x < 0` is `i sqrt(-x)` (principal root) -/
theorem Cx.sqrt_ofReal_neg (x : ℝ) (hx : x < 0) : (Cx.ofReal x).sqrt = ⟨0, Real.sqrt (-x)⟩ := by
  unfold Cx.sqrt Cx.ofReal ksqrt
  simp only [lt_irrefl, if_false, if_pos hx]

/-- `dm[k] = m_k² - m² - i ε`, `ε = 1e-4` -/
theorem kmsDm_eq (m mk : ℝ) : toC (kmsDm m mk) = (mk : ℂ) ^ 2 - (m : ℂ) ^ 2 - Complex.I * (kmsEps : ℂ) := by
  unfold kmsDm
  rw [toC_sub_I]
  push_cast
  ring

/-- WHAT THE CODE EVALUATES, one pole and one partial wave `l` (any `l`, any parameter values with a real phase-space root):
`R = m1 Γ1 f Re β / (m1² - m² - i ε - i sqrt((p/m)(m1/p1)) · Γ1 f² bf²)`, `bf = (p/p1)^{l/2} · Bprime_q2(l, p, p1, d)`.
Differences from the docstring `β m1 Γ1 / (m1² - m² - i m1 Γ1 (p/p1)^{2l+1} (m1/m) B'_l(p, p1, d)²)`: the SQUARE ROOT of the
phase-space ratio, no factor `m1` in the width term, `(p/p1)^l` instead of `(p/p1)^{2l}`, the barrier factor evaluated at
`z = p d²` instead of `(p d)²`, `ε = 1e-4`, `Re β` instead of `β`. -/
theorem kmatrix_split_ls_value (d m p : ℝ) (pk : KmsPole) (l : ℕ) (hρ : 0 ≤ p / m * pk.m / pk.p0) :
    toC (KMatrixSplitLS1 d m p [pk] l)
      = ((pk.m * pk.g * nthK pk.f 0 * pk.br : ℝ) : ℂ)
        / ((pk.m : ℂ) ^ 2 - (m : ℂ) ^ 2 - Complex.I * (kmsEps : ℂ)
            - Complex.I * ((Real.sqrt (p / m * pk.m / pk.p0)
                * (pk.g * nthK pk.f 0 * nthK pk.f 0 * kmsBf d p pk.p0 l * kmsBf d p pk.p0 l) : ℝ) : ℂ)) := by
  unfold KMatrixSplitLS1 kmsEntry kmsP
  simp only [List.map_cons, List.map_nil, kmsEntryAux, kmsPAux, List.eraseIdx_cons_zero, Cx.prodFrom, if_true, kmsRho,
    Cx.sqrt_ofReal_nonneg _ hρ]
  simp only [toC_mul, toC_div, toC_add, toC_sub, toC_real, toC_zero, toC_I, kmsDm_eq]
  push_cast
  ring

/-- the docstring of `KMatrixSplitLS` for one pole and one partial wave: `K = m1 Γ(m)/(m1² - m²)`, `P = β m1 Γ1/(m1² - m²)`,
`R = P/(1 - iK)` with the running width `Γ(m)` of `breit_wigner.Gamma` -/
noncomputable def kmsDoc1 (l : ℕ) (d m p m1 g1 p1 : ℝ) (beta : ℂ) : ℂ :=
  (beta * ((m1 * g1 / (m1 * m1 - m * m) : ℝ) : ℂ))
    / (1 - Complex.I * ((m1 * Gamma l m g1 p p1 m1 d / (m1 * m1 - m * m) : ℝ) : ℂ))

/-- REFUTATION of the docstring form on a real witness (S-wave, m = 1, m1 = 2, Γ1 = 1, p = 2, p1 = 1, β = 1):
the code gives `2/(3 - (2 + ε) i)`, the docstring `2/(3 - 8 i)` -/
theorem kmatrix_split_ls_ne_doc :
    ∃ (d m p : ℝ) (pk : KmsPole) (l : ℕ), 0 ≤ p / m * pk.m / pk.p0 ∧ eps15 < pk.p0 ∧ pk.m * pk.m - m * m ≠ 0 ∧
      toC (KMatrixSplitLS1 d m p [pk] l) ≠ kmsDoc1 l d m p pk.m pk.g pk.p0 (pk.br : ℂ) := by
  have h4 : Real.sqrt 4 = 2 := by
    rw [show (4 : ℝ) = 2 * 2 by norm_num]
    exact Real.sqrt_mul_self (by norm_num)
  refine ⟨3, 1, 2, ⟨2, 1, 1, [1], 1⟩, 0, by norm_num, by unfold eps15; norm_num, by norm_num, ?_⟩
  rw [kmatrix_split_ls_value _ _ _ _ _ (by norm_num)]
  intro h
  have h1 := congrArg Complex.re h
  have hG : Gamma 0 1 1 2 1 2 3 = 4 := by
    have : eps15 < (1 : ℝ) := by unfold eps15; norm_num
    unfold Gamma
    simp [if_pos this, kpowN, Bprime, BprimeNum, BprimePolynomial, tfCoeff, polyval, kofNat, ksqrt]
    norm_num
  simp only [kmsDoc1, hG, nthK, kmsBf, kmsPow, BprimeQ2, BprimePolynomial, tfCoeff, polyval, kofNat, kpowN, ksqrt, kmsEps,
    List.getD_cons_zero, List.map_cons, List.map_nil, List.foldl_cons, List.foldl_nil] at h1
  norm_num [kpowN, h4, Complex.div_re, Complex.normSq_apply] at h1

/-! ### the last line of `get_ls_amp`: `reduce_sum(K_inv * P[:, None], axis=1)` -/

/-- CURRENT TREE (`matvec = false`): `ret_j = P_j · Σ_i (M⁻¹)_{ij}` — for every matrix and production vector -/
theorem kmsApply2_colsum_value (mm : Cx × Cx × Cx × Cx) (p0 p1 : Cx) :
    toC (kmsApply2 false mm p0 p1).1
        = (toC mm.2.2.2 - toC mm.2.2.1) / (toC mm.1 * toC mm.2.2.2 - toC mm.2.1 * toC mm.2.2.1) * toC p0
    ∧ toC (kmsApply2 false mm p0 p1).2
        = (toC mm.1 - toC mm.2.1) / (toC mm.1 * toC mm.2.2.2 - toC mm.2.1 * toC mm.2.2.1) * toC p1 := by
  simp [kmsApply2, toC_mul, toC_div, toC_sub]

/-- consequence: a partial wave with vanishing production term gets EXACTLY zero amplitude, whatever the coupling
`M_10` to the other wave is (a matrix-vector product gives `-M_10 P_0 / det`) -/
theorem kmsApply2_colsum_zero_wave (mm : Cx × Cx × Cx × Cx) (p0 : Cx) :
    toC (kmsApply2 false mm p0 ⟨0, 0⟩).2 = 0 := by
  rw [(kmsApply2_colsum_value mm p0 ⟨0, 0⟩).2, toC_zero, mul_zero]

/-- REFUTATION: the value of the current tree does not solve `M x = P` (witness M = [[2, 1], [1, 2]], P = (1, 0):
it returns (1/3, 0), the solution is (2/3, -1/3)) -/
theorem kmsApply2_colsum_not_solution :
    ∃ (mm : Cx × Cx × Cx × Cx) (p0 p1 : Cx), toC mm.1 * toC mm.2.2.2 - toC mm.2.1 * toC mm.2.2.1 ≠ 0 ∧
      toC mm.1 * toC (kmsApply2 false mm p0 p1).1 + toC mm.2.1 * toC (kmsApply2 false mm p0 p1).2 ≠ toC p0 := by
  refine ⟨(⟨2, 0⟩, ⟨1, 0⟩, ⟨1, 0⟩, ⟨2, 0⟩), ⟨1, 0⟩, ⟨0, 0⟩, ?_, ?_⟩
  · simp only [toC_real]; norm_num
  · rw [(kmsApply2_colsum_value _ _ _).1, (kmsApply2_colsum_value _ _ _).2]
    simp only [toC_real, toC_zero]
    norm_num

/-- REPAIRED (`axis=-1`, `matvec = true`): the two amplitudes solve `M x = P` for the matrix and the vector the code builds,
any number of poles, any partial waves -/
theorem KMatrixSplitLS2_matvec_solves (d m p : ℝ) (poles : List KmsPole) (l0 l1 : ℕ)
    (hdet : toC (kmsMat2 d m p poles l0 l1).1 * toC (kmsMat2 d m p poles l0 l1).2.2.2
      - toC (kmsMat2 d m p poles l0 l1).2.1 * toC (kmsMat2 d m p poles l0 l1).2.2.1 ≠ 0) :
    toC (kmsMat2 d m p poles l0 l1).1 * toC (KMatrixSplitLS2 true d m p poles l0 l1).1
        + toC (kmsMat2 d m p poles l0 l1).2.1 * toC (KMatrixSplitLS2 true d m p poles l0 l1).2 = toC (kmsP m poles 0)
    ∧ toC (kmsMat2 d m p poles l0 l1).2.2.1 * toC (KMatrixSplitLS2 true d m p poles l0 l1).1
        + toC (kmsMat2 d m p poles l0 l1).2.2.2 * toC (KMatrixSplitLS2 true d m p poles l0 l1).2 = toC (kmsP m poles 1) := by
  unfold KMatrixSplitLS2 kmsApply2
  simp only [if_true]
  exact solve2_correct _ _ _ hdet

/-- the matrix is symmetric (so row sums = column sums: the current tree returns `P_j` times a ROW sum of the inverse as well) -/
theorem kmsEntryAux_symm (d m p : ℝ) (dms : List Cx) (i j li lj : ℕ) (k : ℕ) (acc : Cx) (poles : List KmsPole) :
    kmsEntryAux d m p dms i j li lj k acc poles = kmsEntryAux d m p dms j i lj li k acc poles := by
  induction poles generalizing k acc with
  | nil => rfl
  | cons pk r ih =>
    simp only [kmsEntryAux]
    rw [ih]
    congr 3
    ring

theorem kmsMat2_symm (d m p : ℝ) (poles : List KmsPole) (l0 l1 : ℕ) :
    (kmsMat2 d m p poles l0 l1).2.1 = (kmsMat2 d m p poles l0 l1).2.2.1 := by
  simp only [kmsMat2, kmsEntry, Nat.zero_ne_one, Nat.one_ne_zero, if_false]
  exact kmsEntryAux_symm _ _ _ _ _ _ _ _ _ _ _

/-! ## KmatrixSimple: three channels, one-pole reduction -/

theorem det3c_eq (a b c d e f g h i : Cx) :
    toC (det3c a b c d e f g h i)
      = toC a * (toC e * toC i - toC f * toC h) - toC b * (toC d * toC i - toC f * toC g)
        + toC c * (toC d * toC h - toC e * toC g) := by
  simp only [det3c, toC_add, toC_sub, toC_mul]

/-- Cramer's rule solves the 3×3 system whenever the determinant does not vanish -/
theorem solve3_correct (a : Mat3) (p0 p1 p2 : Cx) (hdet : toC a.det ≠ 0) :
    toC a.a00 * toC (solve3 a p0 p1 p2).1 + toC a.a01 * toC (solve3 a p0 p1 p2).2.1
        + toC a.a02 * toC (solve3 a p0 p1 p2).2.2 = toC p0
    ∧ toC a.a10 * toC (solve3 a p0 p1 p2).1 + toC a.a11 * toC (solve3 a p0 p1 p2).2.1
        + toC a.a12 * toC (solve3 a p0 p1 p2).2.2 = toC p1
    ∧ toC a.a20 * toC (solve3 a p0 p1 p2).1 + toC a.a21 * toC (solve3 a p0 p1 p2).2.1
        + toC a.a22 * toC (solve3 a p0 p1 p2).2.2 = toC p2 := by
  have hD : toC a.det = toC a.a00 * (toC a.a11 * toC a.a22 - toC a.a12 * toC a.a21)
      - toC a.a01 * (toC a.a10 * toC a.a22 - toC a.a12 * toC a.a20)
      + toC a.a02 * (toC a.a10 * toC a.a21 - toC a.a11 * toC a.a20) := det3c_eq _ _ _ _ _ _ _ _ _
  simp only [solve3, toC_div, det3c_eq]
  rw [hD] at hdet ⊢
  refine ⟨?_, ?_, ?_⟩ <;>
  · rw [mul_div_assoc', mul_div_assoc', mul_div_assoc', ← add_div, ← add_div, div_eq_iff hdet]
    ring

/-- three channels: `R_i = n_i x_i` where `x` solves `(1 - i K ρ n²) x = P` (the matrix is `δ_ij - i K_ij ρ_j n_j²`,
`ksimDomEntry`) -/
theorem KmatrixSimple3_solves (eps d m : ℝ) (ms : List ℝ) (betas : List Cx) (c0 c1 c2 : KsChan)
    (hdet : toC (ksimDom3 eps d m ms c0 c1 c2).det ≠ 0) :
    ∃ x0 x1 x2 : ℂ,
      toC (KmatrixSimple3 eps d m ms betas c0 c1 c2).1 = x0 * ((ksimBarrier c0.l m c0.m1 c0.m2 d : ℝ) : ℂ)
      ∧ toC (KmatrixSimple3 eps d m ms betas c0 c1 c2).2.1 = x1 * ((ksimBarrier c1.l m c1.m1 c1.m2 d : ℝ) : ℂ)
      ∧ toC (KmatrixSimple3 eps d m ms betas c0 c1 c2).2.2 = x2 * ((ksimBarrier c2.l m c2.m1 c2.m2 d : ℝ) : ℂ)
      ∧ toC (ksimDomEntry eps d m ms c0 c0 true) * x0 + toC (ksimDomEntry eps d m ms c0 c1 false) * x1
          + toC (ksimDomEntry eps d m ms c0 c2 false) * x2 = toC (ksimP (m * m) eps ms c0.g betas c0.bkg)
      ∧ toC (ksimDomEntry eps d m ms c1 c0 false) * x0 + toC (ksimDomEntry eps d m ms c1 c1 true) * x1
          + toC (ksimDomEntry eps d m ms c1 c2 false) * x2 = toC (ksimP (m * m) eps ms c1.g betas c1.bkg)
      ∧ toC (ksimDomEntry eps d m ms c2 c0 false) * x0 + toC (ksimDomEntry eps d m ms c2 c1 false) * x1
          + toC (ksimDomEntry eps d m ms c2 c2 true) * x2 = toC (ksimP (m * m) eps ms c2.g betas c2.bkg) := by
  have h := solve3_correct (ksimDom3 eps d m ms c0 c1 c2) (ksimP (m * m) eps ms c0.g betas c0.bkg)
    (ksimP (m * m) eps ms c1.g betas c1.bkg) (ksimP (m * m) eps ms c2.g betas c2.bkg) hdet
  refine ⟨_, _, _, ?_, ?_, ?_, h.1, h.2.1, h.2.2⟩ <;> simp [KmatrixSimple3, toC_mul, toC_ofReal]

/-- the matrix entry: `δ_ij - i ρ_j n_j² K_ij` -/
theorem ksimDomEntry_eq (eps d m : ℝ) (ms : List ℝ) (ci cj : KsChan) (diag : Bool) :
    toC (ksimDomEntry eps d m ms ci cj diag)
      = (if diag then 1 else 0) - Complex.I * ((ksimW d m cj : ℝ) : ℂ) * toC (ksimK (m * m) eps ms ci.g cj.g) := by
  cases diag <;>
  · simp only [ksimDomEntry, toC_sub, toC_mul, toC_smul, toC_I, toC_real, toC_zero, if_true, if_false, Bool.false_eq_true]
    push_cast
    ring

theorem div_one_sub_div (a b D : ℂ) (hD : D ≠ 0) : (a / D) / (1 - b / D) = a / (D - b) := by
  have e : (1 : ℂ) - b / D = (D - b) / D := by field_simp
  rw [e, div_div_div_cancel_right₀ hD]

/-- ONE POLE, ONE CHANNEL, no background: the K-matrix amplitude IS a Breit–Wigner / Flatté propagator,
`R = n β g / (m_a² - m² - i ε - i g² ρ n²)`, i.e. `m0 Γ(m) = g² ρ(m) n(m)²` -/
theorem KmatrixSimple1_one_pole_bw (eps d m ma g : ℝ) (beta : Cx) (c : KsChan) (hg : c.g = [g]) (hb : c.bkg = ⟨0, 0⟩)
    (heps : eps ≠ 0) :
    toC (KmatrixSimple1 eps d m [ma] [beta] c)
      = ((ksimBarrier c.l m c.m1 c.m2 d : ℝ) : ℂ) * (toC beta * (g : ℂ))
        / ((((ma * ma - m * m : ℝ) : ℂ) - Complex.I * (eps : ℂ))
            - Complex.I * ((ksimW d m c : ℝ) : ℂ) * ((g * g : ℝ) : ℂ)) := by
  have hD : (((ma * ma - m * m : ℝ) : ℂ) - Complex.I * (eps : ℂ)) ≠ 0 := by
    intro h
    have := congrArg Complex.im h
    simp at this
    exact heps this
  rw [KmatrixSimple1_eq_spec, ksimK_eq_sum, hg, hb]
  simp only [ksimP, zipMul, List.zip_cons_cons, List.zip_nil_right, List.zipWith_cons_cons, List.zipWith_nil_right, Cx.sumFrom,
    toC_add, toC_mul, toC_ofReal, toC_zero, ksimPole_eq, List.sum_cons, List.sum_nil, add_zero, zero_add]
  set D := (((ma * ma - m * m : ℝ) : ℂ) - Complex.I * (eps : ℂ)) with hDdef
  have e1 : toC beta * (g : ℂ) * (1 / D) = (toC beta * (g : ℂ)) / D := by ring
  have e2 : Complex.I * (((ksimRelP m c.m1 c.m2 / m * (ksimBarrier c.l m c.m1 c.m2 d * ksimBarrier c.l m c.m1 c.m2 d) : ℝ) : ℂ)
      * (((g * g : ℝ) : ℂ) * (1 / D))) = (Complex.I * ((ksimW d m c : ℝ) : ℂ) * ((g * g : ℝ) : ℂ)) / D := by
    unfold ksimW; ring
  rw [e1, e2, div_one_sub_div _ _ _ hD]
  ring

/-! ## KMatrixSingleChannel -/

/-- no pole on the real axis: for real `K` the denominator `1 - iK` never vanishes, so `R(m)` is finite for every real `m`
(the poles of the amplitude are at complex mass) -/
theorem KMatrixSingle_den_ne_zero (k : ℝ) : (1 : ℂ) - Complex.I * (k : ℂ) ≠ 0 := by
  intro h
  have := congrArg Complex.re h
  simp at this

/-- one pole: `KMatrixSingleChannel = β m1 Γ1 · BWR(m; m1, Γ1)`, the relativistic Breit–Wigner with running width (L ≤ 8) -/
theorem KMatrixSingle_one_pole_eq_BWR (L : ℕ) (hL : L ≤ 8) (d m p m1 g1 p1 : ℝ) (beta : Cx) (hp1 : eps15 < p1) (hd : d ≠ 0)
    (hden : m1 * m1 - m * m ≠ 0) :
    toC (KMatrixSingle L d m p [(m1, g1, p1)] [beta])
      = toC beta * ((m1 * g1 : ℝ) : ℂ) * toC (BWR L m m1 g1 p p1 d) := by
  have hden' : (((m1 * m1 - m * m : ℝ)) : ℂ) ≠ 0 := by exact_mod_cast hden
  rw [KMatrixSingle_eq_spec, BWR_eq_spec L hL m m1 g1 p p1 d hp1 (Or.inr (by intro h; exact hden (by linarith))),
    ← Gamma_eq_spec L hL m g1 p p1 m1 d hp1]
  simp only [List.map_cons, List.map_nil, List.sum_cons, List.sum_nil, add_zero, List.zipWith_cons_cons, List.zipWith_nil_right,
    ksK_eq_Gamma L hL d m p m1 g1 p1 hp1 hd]
  push_cast
  have e : (1 : ℂ) - Complex.I * ((m1 : ℂ) * (Gamma L m g1 p p1 m1 d : ℂ) / ((m1 : ℂ) * m1 - (m : ℂ) * m))
      = 1 - (Complex.I * (m1 : ℂ) * (Gamma L m g1 p p1 m1 d : ℂ)) / ((m1 : ℂ) * m1 - (m : ℂ) * m) := by ring
  have hd2 : ((m1 : ℂ) * m1 - (m : ℂ) * m) ≠ 0 := by
    have : (((m1 * m1 - m * m : ℝ)) : ℂ) = (m1 : ℂ) * m1 - (m : ℂ) * m := by push_cast; ring
    rw [← this]; exact hden'
  rw [e, mul_div_assoc', div_one_sub_div _ _ _ hd2]
  ring

/-! ## sympy denominator of FlatteGen / Flatte2 -/

/-- channel by channel the symbolic denominator has the numeric term, for every option setting, every real m > 0, m0 > 0
(above and below the channel thresholds), L ≤ 8 — provided the cut is applied where `cut_phsp` asks for it -/
theorem flatteGenDomTerm_eq (o : FlatteOpt) (dc : Bool) (hc : o.cutPhsp = false ∨ dc = true) (d m m0 : ℝ) (hm : 0 < m)
    (hm0 : 0 < m0) (ch : ℝ × ℝ × ℝ) (l : ℕ) (hl : l ≤ 8) :
    flatteGenDomTerm o dc d m m0 ch l = flatteGenTerm o d m m0 ch l := by
  unfold flatteGenDomTerm flatteGenTerm
  rw [calMomentum_eq_sym _ _ _ hm, calMomentum_eq_sym _ _ _ hm0]
  simp only [BprimeQ2_eq_Bprime l hl, Bprime_sq l hl, BprimePolynomialSym_eq l hl]
  rcases hc with hc | hc
  · simp [hc]
  · subst hc
    cases o.cutPhsp <;> simp

/-- `get_sympy_dom` (all sheet bits set) × numeric line shape = 1 for `FlatteGen` / `Flatte2`: every option setting, any number
of channels, every real m > 0 above and below the channel thresholds — for `cut_phsp = False`, or for a tree whose
`get_sympy_dom` applies the cut (`domCut = true`) -/
theorem FlatteGen_dom_reciprocal (o : FlatteOpt) (sq dc : Bool) (hc : o.cutPhsp = false ∨ dc = true) (sgn d : ℝ)
    (chs : List (ℝ × ℝ × ℝ)) (ls : List ℕ) (hls : ∀ l ∈ ls, l ≤ 8) (m m0 : ℝ) (hm : 0 < m) (hm0 : 0 < m0)
    (h : (FlatteGenDom o sq dc sgn d chs ls m m0).re ≠ 0 ∨ (FlatteGenDom o sq dc sgn d chs ls m m0).im ≠ 0) :
    toC (FlatteGen o sq sgn d chs ls m m0) * toC (FlatteGenDom o sq dc sgn d chs ls m m0) = 1 := by
  have hl : ∀ cs : List (ℝ × ℝ × ℝ), (cs.zip ls).map (fun cl => flatteGenDomTerm o dc d m m0 cl.1 cl.2)
      = (cs.zip ls).map (fun cl => flatteGenTerm o d m m0 cl.1 cl.2) := by
    intro cs
    apply List.map_congr_left
    intro cl hcl
    exact flatteGenDomTerm_eq o dc hc d m m0 hm hm0 cl.1 cl.2 (hls _ (List.of_mem_zip hcl).2)
  unfold FlatteGen
  unfold FlatteGenDom at h ⊢
  simp only [hl] at h ⊢
  exact recip_mul' _ _ h

/-- CURRENT TREE (`domCut = false`): the symbolic denominator does not see `cut_phsp` at all -/
theorem FlatteGenDom_current_ignores_cut (o : FlatteOpt) (sq : Bool) (sgn d : ℝ) (chs : List (ℝ × ℝ × ℝ)) (ls : List ℕ) (m m0 : ℝ) :
    FlatteGenDom o sq false sgn d chs ls m m0
      = FlatteGenDom ⟨o.hasBprime, o.noM0, o.noQ0, false⟩ sq false sgn d chs ls m m0 := by
  simp [FlatteGenDom, flatteGenDomTerm]

/-- witness: with `cut_phsp` and m below the channel threshold the numeric channel term is 0 while the term of the symbolic
denominator of the current tree is `-√3/2 ≠ 0` (one channel 1 + 1, m = 1) -/
theorem FlatteGenDom_cut_witness :
    ∃ (o : FlatteOpt) (d m m0 : ℝ) (ch : ℝ × ℝ × ℝ) (l : ℕ), o.cutPhsp = true ∧ 0 < m ∧ m < ch.1 + ch.2.1
      ∧ toC (flatteGenTerm o d m m0 ch l) = 0 ∧ toC (flatteGenDomTerm o false d m m0 ch l) ≠ 0 := by
  refine ⟨⟨false, true, true, true⟩, 3, 1, 3, (1, 1, 1), 0, rfl, by norm_num, by norm_num,
    flatteGenTerm_cut _ rfl _ _ _ _ _ (by norm_num), ?_⟩
  intro h
  have h1 := congrArg Complex.re h
  have h3 : Real.sqrt 3 ≠ 0 := Real.sqrt_ne_zero'.mpr (by norm_num)
  simp [flatteGenDomTerm, symCalMomentum, Cx.mul, ksqrt] at h1
  norm_num at h1

/-! ## GS at / below the two-pion threshold -/

/-- `h(m) = 0` at and below threshold: the code's momentum is clamped to 0 there (`twoBodyCMmom_below`) -/
theorem hFun_below (f32 : Bool) (m d2 d3 : ℝ) (h2 : 0 ≤ d2) (h3 : 0 ≤ d3) (hm0 : d2 - d3 ≤ m) (hm1 : d3 - d2 ≤ m)
    (hm : m ≤ d2 + d3) (hmn : 0 ≤ m) : hFun f32 (m * m) d2 d3 = 0 := by
  unfold hFun ksqrt
  simp only [Real.sqrt_mul_self hmn, twoBodyCMmom_below m d2 d3 h2 h3 hm0 hm1 hm]
  simp

/-- BRANCH CHOICE of the code for `|d2 - d3| ≤ m ≤ d2 + d3` (resonance mass `m0` above threshold): the docstring's `f(m)` with
`q(m)` replaced by 0 (not the analytic continuation `q² < 0`, `h` complex):
`f(m) = Γ0 (m0²/q0³) (m0² - m²) q0² dh/dm²|_{m0}` -/
theorem fsFun_below (f32 : Bool) (m m0 g0 d2 d3 : ℝ) (h2 : 0 ≤ d2) (h3 : 0 ≤ d3) (hm0 : d2 - d3 ≤ m) (hm1 : d3 - d2 ≤ m)
    (hm : m ≤ d2 + d3) (hmn : 0 ≤ m) (hM : d2 + d3 < m0) :
    fsFun f32 (m * m) (m0 * m0) g0 d2 d3 = gsDocF (gsPi f32) (d2 + d3) g0 0 (symRelP m0 d2 d3) m m0 := by
  have hm0n : 0 ≤ m0 := by linarith
  unfold fsFun gsDocF
  rw [hFun_eq_doc f32 m0 d2 d3 h2 h3 hM, dhdsFun_eq_doc f32 m0 d2 d3 h2 h3 hM]
  simp only [ksqrt, Real.sqrt_mul_self hmn, Real.sqrt_mul_self hm0n, twoBodyCMmom_below m d2 d3 h2 h3 hm0 hm1 hm,
    twoBodyCMmom_above m0 d2 d3 h2 h3 hM]
  ring

/-- `GS_rho` for a mass at / below the two-pion threshold (`m0` above it): the documented formula with `q(m) := 0` inside `f(m)`;
the running width `Γ(m)` is that of the decay the particle is used in (its own `q`, `q0`) -/
theorem GS_below_eq (f32 : Bool) (L : ℕ) (m m0 g0 q q0 d c2 c3 : ℝ) (h2 : 0 ≤ c2) (h3 : 0 ≤ c3) (hm0 : c2 - c3 ≤ m)
    (hm1 : c3 - c2 ≤ m) (hm : m ≤ c2 + c3) (hmn : 0 ≤ m) (hM : c2 + c3 < m0) :
    toC (GS f32 L m m0 g0 q q0 d c2 c3)
      = ((1 + gsDocD (gsPi f32) (c2 + c3) (symRelP m0 c2 c3) m0 * g0 / m0 : ℝ) : ℂ)
        * (1 / (((m0 * m0 - m * m + gsDocF (gsPi f32) (c2 + c3) g0 0 (symRelP m0 c2 c3) m m0 : ℝ) : ℂ)
            - Complex.I * ((m0 * Gamma L m g0 q q0 m0 d : ℝ) : ℂ))) := by
  have hk : ∀ x : ℝ, (if f32 = true then kf32 x else x) = x := by intro x; split_ifs <;> simp [kf32]
  rw [GS_eq_spec, hk, hk, dFun_eq_doc f32 m0 c2 c3 h2 h3 hM, fsFun_below f32 m m0 g0 c2 c3 h2 h3 hm0 hm1 hm hmn hM]

end LineShapes

/-! ## hist_idx outside the node range, interp_l3 at the bin mid points -/
section InterpR
open TfPwaV.InterpAmpR

theorem getD_append_left_lt (ps qs : List Cx) (i : ℕ) (d : Cx) (h : i < ps.length) : (ps ++ qs).getD i d = ps.getD i d := by
  simp [List.getD_eq_getElem?_getD, List.getElem?_append_left h]

/-- `hist_idx` below the first node: `Bucketize` gives 0, `bin_idx = -1`, and `(bin_idx + n_bins) % n_bins` WRAPS AROUND to the
last bin — the value of the last bin, not 0 (every node list with ≥ 2 nodes, every parameter list of the right length) -/
theorem histIdx_below (xs : List ℝ) (ps : List Cx) (m : ℝ) (hx : 2 ≤ xs.length) (hp : ps.length = xs.length - 1)
    (h : ∀ x ∈ xs, m < x) : histIdx xs ps m = ps.getD (xs.length - 2) ⟨0, 0⟩ := by
  have hb : bucket xs m = 0 := by
    unfold bucket
    rw [List.length_eq_zero_iff, List.filter_eq_nil_iff]
    intro x hx'
    simpa using h x hx'
  have e : (0 + (xs.length - 1) - 1) % (xs.length - 1) = xs.length - 2 := by
    rw [Nat.mod_eq_of_lt (by omega)]; omega
  unfold histIdx
  simp only [hb, e]
  rw [getD_append_left_lt _ _ _ _ (by omega)]

/-- `hist_idx` at / above the last node: `Bucketize` gives N, `bin_idx = N - 1 = n_bins`, which wraps to bin 0 — the value of
the FIRST bin -/
theorem histIdx_above (xs : List ℝ) (ps : List Cx) (m : ℝ) (hx : 2 ≤ xs.length) (hp : ps.length = xs.length - 1)
    (h : ∀ x ∈ xs, x ≤ m) : histIdx xs ps m = ps.getD 0 ⟨0, 0⟩ := by
  have hb : bucket xs m = xs.length := by
    unfold bucket
    rw [List.filter_eq_self.mpr]
    intro x hx'
    simpa using h x hx'
  have e : (xs.length + (xs.length - 1) - 1) % (xs.length - 1) = 0 := by
    have : xs.length + (xs.length - 1) - 1 = 2 * (xs.length - 1) := by omega
    rw [this, Nat.mul_mod_left]
  unfold histIdx
  simp only [hb, e]
  rw [getD_append_left_lt _ _ _ _ (by omega)]

end InterpR

section InterpQ
open TfPwaV.InterpAmpQ TfPwaV.ScalarQ

/-- `interp_l3`: the weights at the mid point of bin t, `(x_t + x_{t+1})/2`, are the unit vector `e_t` (t = 0 … N-3) -/
def midBasisOK (legacy : Bool) (xs : List Rat) : Bool :=
  (List.range (xs.length - 2)).all fun t =>
    decide (weights3 legacy true xs ((nth xs t + nth xs (t + 1)) / 2) = unit (xs.length - 2) t)

/-- … and vanish at the mid point of the last bin (which has no parameter), below the first mid point and above the last -/
def midOutsideOK (legacy : Bool) (xs : List Rat) : Bool :=
  [(nth xs (xs.length - 2) + nth xs (xs.length - 1)) / 2, (nth xs 0 + nth xs 1) / 2 - (1 : Rat) / 1000, nth xs 0,
   nth xs (xs.length - 1), nth xs (xs.length - 1) + (1 : Rat) / 7].all fun m =>
    decide (weights3 legacy true xs m = (List.range (xs.length - 2)).map fun _ => 0)

/-- `interp_l3` (no docstring; the interpolation-through-nodes property of its family): on the 6 exact node sets the
interpolant passes through parameter t at the mid point of bin t, for EVERY choice of parameter values (by `interp1d3_linear` /
`dotC_unit`), and is zero at the last bin's mid point and outside the mid-point range -/
theorem interpL3_at_midpoints : ∀ xs ∈ nodeSets, midBasisOK false xs = true := by decide +kernel
theorem interpL3_outside : ∀ xs ∈ nodeSets, midOutsideOK false xs = true := by decide +kernel

/-- `hist_idx` inside the node range on the exact node sets: bin t for `x_t ≤ m < x_{t+1}` (left end, mid point), and the
wrap-around outside (below → last bin, at/above the last node → first bin) -/
def histOK (xs : List Rat) : Bool :=
  let nb := xs.length - 1
  let ps : List Cx := (List.range nb).map fun t => ⟨(t : Rat) + 1, -((t : Rat) + 1)⟩
  ((List.range nb).all fun t =>
    decide ((histIdx xs ps (nth xs t)).re = (t : Rat) + 1) && decide ((histIdx xs ps ((nth xs t + nth xs (t + 1)) / 2)).re = (t : Rat) + 1))
  && decide ((histIdx xs ps (nth xs 0 - 1)).re = (nb : Rat))
  && decide ((histIdx xs ps (nth xs nb)).re = 1) && decide ((histIdx xs ps (nth xs nb + 1)).re = 1)

theorem histIdx_bins : ∀ xs ∈ nodeSets, histOK xs = true := by decide +kernel

end InterpQ

/-! ## the hypotheses used above are satisfiable by ordinary values -/
section NonVacuous
open TfPwaV.LineShapeR
example : ∃ (d m p : ℝ) (pk : KmsPole), 0 ≤ p / m * pk.m / pk.p0 := ⟨3, 1, 2, ⟨2, 1, 1, [1], 1⟩, by norm_num⟩
example : ∃ a : Mat3, toC a.det ≠ 0 :=
  ⟨⟨⟨1, 0⟩, ⟨0, 0⟩, ⟨0, 0⟩, ⟨0, 0⟩, ⟨1, 0⟩, ⟨0, 0⟩, ⟨0, 0⟩, ⟨0, 0⟩, ⟨1, 0⟩⟩, by
    simp only [Mat3.det, det3c_eq, toC_real, toC_zero]; norm_num⟩
example : ∃ (c : KsChan) (g eps : ℝ), c.g = [g] ∧ c.bkg = ⟨0, 0⟩ ∧ eps ≠ 0 := ⟨⟨0.2, 0.3, 1, [0.7], ⟨0, 0⟩⟩, 0.7, 1e-10, rfl, rfl, by norm_num⟩
example : ∃ (d m m1 p1 : ℝ), eps15 < p1 ∧ d ≠ 0 ∧ m1 * m1 - m * m ≠ 0 := ⟨3, 1, 1.2, 0.5, by unfold eps15; norm_num, by norm_num, by norm_num⟩
example : ∃ (o : FlatteOpt) (dc : Bool) (m m0 : ℝ), (o.cutPhsp = false ∨ dc = true) ∧ 0 < m ∧ 0 < m0 :=
  ⟨⟨true, false, false, true⟩, true, 0.4, 0.9, Or.inr rfl, by norm_num, by norm_num⟩
example : ∃ (m m0 c2 c3 : ℝ), 0 ≤ c2 ∧ 0 ≤ c3 ∧ c2 - c3 ≤ m ∧ c3 - c2 ≤ m ∧ m ≤ c2 + c3 ∧ 0 ≤ m ∧ c2 + c3 < m0 :=
  ⟨0.2, 0.77, 0.14, 0.135, by norm_num, by norm_num, by norm_num, by norm_num, by norm_num, by norm_num, by norm_num⟩
example : ∃ (xs : List ℝ) (m : ℝ), 2 ≤ xs.length ∧ (∀ x ∈ xs, m < x) := ⟨[1, 2, 3], 0, by simp, by simp⟩
example : ∃ (xs : List ℝ) (m : ℝ), 2 ≤ xs.length ∧ (∀ x ∈ xs, x ≤ m) := ⟨[1, 2, 3], 3, by simp, by simp; norm_num⟩
end NonVacuous

end TfPwaV.C15
