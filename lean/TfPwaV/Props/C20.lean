import TfPwaV.Proofs.Sampler
/-!
# C20 (part 1) — acceptance–rejection control: `multi_sampling`, `single_sampling2`, `GenTest`

Theorems about `TfPwaV.SamplerR`, the ℝ-instance of `templates/Sampler.lean.in`; the Float instance of the
*same text* is executed bit-for-bit against the real functions on recorded random streams on every run.
All statements quantify over every request size `N`, every `max_N`, every proposal/weight/uniform stream
`gen` (a function of the iteration number and of the requested size), every initial bound and every number of
loop iterations (`fuel`): "in every reachable state".
-/
open TfPwaV.ScalarR
namespace TfPwaV.C20
open TfPwaV.SamplerR

/-- ★ In every reachable state of `multi_sampling`, every retained event has a weight not above the bound it was
accepted with (induction over batches; thinning only removes events). -/
theorem accepted_le_bound (N maxN : Nat) (gen : Nat → Nat → Batch) (m0 : Option ℝ) (hw : NonnegWeights gen)
    (fuel : Nat) : ∀ e ∈ (run N maxN gen fuel 0 (init m0)).all, e.w ≤ e.bound := by
  refine run_induct N maxN gen (fun s => ∀ e ∈ s.all, e.w ≤ e.bound) ?_ fuel 0 (init m0) ?_
  · intro k s ih e he
    rcases mem_step_all _ _ _ _ _ _ he with h | h
    · exact ih e h
    · obtain ⟨h1, h2, _⟩ := mem_acceptList _ _ _ _ _ _ h
      rw [h2]
      exact le_acceptBound _ _ (hw k _) _ h1
  · intro e he; simp [init] at he

/-- ★ Started without a supplied bound (`max_weight=None`, the `generate_toy` path), in every reachable state
every retained event satisfies `w ≤ (bound it was accepted with) ≤ max_weight` (the running bookkeeping value,
also after thinning steps).  With a supplied bound that is too small the second inequality can fail for the
first batch: `multi_sampling` does not update `max_weight` when `all_data` is still empty. -/
theorem bound_le_max_weight (N maxN : Nat) (gen : Nat → Nat → Batch) (hw : NonnegWeights gen) (fuel : Nat)
    (m : ℝ) (hm : (run N maxN gen fuel 0 (init none)).maxW = some m) :
    ∀ e ∈ (run N maxN gen fuel 0 (init none)).all, e.w ≤ e.bound ∧ e.bound ≤ m := by
  have hB : Book (run N maxN gen fuel 0 (init none)) := by
    refine run_induct N maxN gen Book ?_ fuel 0 (init none) ?_
    · intro k s h; exact book_step _ _ _ _ _ (hw k _) h
    · left; simp [init]
  intro e he
  refine ⟨accepted_le_bound N maxN gen none hw fuel e he, ?_⟩
  rcases hB with ⟨h1, _, _⟩ | ⟨_, m', h2, h3⟩
  · rw [h1] at hm; cases hm
  · rw [h2] at hm; cases hm; exact h3 e he

/-- ★ `N_gen` equals the number of retained events in every reachable state (in particular after a thinning step,
where the code calls `set_gen`). -/
theorem n_gen_counts_retained (N maxN : Nat) (gen : Nat → Nat → Batch) (m0 : Option ℝ) (hx : ExactBatches gen)
    (fuel : Nat) : (run N maxN gen fuel 0 (init m0)).nGen = (run N maxN gen fuel 0 (init m0)).all.length :=
  (counters_run N maxN gen m0 hx fuel).1

/-- ★ With `force`, if the loop exits the result has exactly `N` events. -/
theorem exact_count_force (N maxN : Nat) (gen : Nat → Nat → Batch) (m0 : Option ℝ) (hx : ExactBatches gen)
    (fuel : Nat) (hexit : exited N (run N maxN gen fuel 0 (init m0))) :
    (finish true N (run N maxN gen fuel 0 (init m0))).length = N := by
  have h := (counters_run N maxN gen m0 hx fuel).1
  unfold exited at hexit
  simp only [finish, if_true, List.length_take]
  omega

/-- Without `force`, if the loop exits the result has at least `N` events. -/
theorem count_no_force (N maxN : Nat) (gen : Nat → Nat → Batch) (m0 : Option ℝ) (hx : ExactBatches gen)
    (fuel : Nat) (hexit : exited N (run N maxN gen fuel 0 (init m0))) :
    N ≤ (finish false N (run N maxN gen fuel 0 (init m0))).length := by
  have h := (counters_run N maxN gen m0 hx fuel).1
  unfold exited at hexit
  simp only [finish, Bool.false_eq_true, if_false]
  omega

/-- ★ While `N_gen < N`, the next request is at least 1 (for `max_N ≥ 1`), in every reachable state: the loop never
asks `phsp` for an empty batch (`tf.reduce_max` of an empty tensor would be −∞). -/
theorem requests_positive (N maxN : Nat) (gen : Nat → Nat → Batch) (m0 : Option ℝ) (hx : ExactBatches gen)
    (hmax : 1 ≤ maxN) (fuel : Nat) (hlt : (run N maxN gen fuel 0 (init m0)).nGen < N) :
    1 ≤ request N maxN (run N maxN gen fuel 0 (init m0)) := by
  obtain ⟨_, _, h3, h4⟩ := counters_run N maxN gen m0 hx fuel
  generalize run N maxN gen fuel 0 (init m0) = s at *
  unfold request
  refine le_min ?_ hmax
  unfold kfloorNat
  apply Nat.le_floor
  have h1 : (1 : ℝ) ≤ kofNat (N - s.nGen) := by
    unfold kofNat; exact_mod_cast (by omega : 1 ≤ N - s.nGen)
  have h2 : (1 : ℝ) ≤ kofNat (N - s.nGen) / s.eff := by
    rw [le_div_iff₀ h3]; linarith
  have := c11_ge
  push_cast
  nlinarith

-- non-vacuity: constant weights 1, uniforms 0 — hypotheses hold, the loop exits after one batch with events retained
example : NonnegWeights (fun _ n => ⟨List.replicate n 1, List.replicate n 0, []⟩) ∧
    ExactBatches (fun _ n => ⟨List.replicate n 1, List.replicate n 0, []⟩) := by
  constructor
  · intro k n w hw; simp only [List.mem_replicate] at hw; rw [hw.2]; norm_num
  · intro k n; simp

end TfPwaV.C20
