import TfPwaV.Proofs.FitZ
import TfPwaV.Proofs.FitR
import TfPwaV.Props.C08
/-!
# C08c — the three repairs of `standard_complex` / `set_bound`

`fix_C08_standard_complex_free_only.diff` (`Vars.Cfg.stdFree`), `fix_C08_standard_complex_bounded.diff` (`Fit.Fix.stdBounded`,
the `bounded` argument of `Vars.standardComplex`), `fix_C08_set_bound_free_name.diff` (`Vars.Cfg.boundHead`,
`Vars.boundName` / `routeBounds`, `Fit.fitBounds` / `regBounds`).  Flag `false` = the statements of the tree as it is (the
refutations are `C08.standard_complex_moves_fixed_polar`, `C08.standard_complex_ignores_removed_bounds` and
`follower_bound_unrouted_is_dead` below), `true` = after the patch; the harness observes every flag on the real code.

All theorems are about `TfPwaV.Fit.fit` — `fit_scipy` including its new first statement
`bounds_dict = {vm.bound_name(k): v}` — for EVERY value arithmetic, every state with the C16 invariant, every bound
dict, every oracle (any evaluations, any answer).
-/
open TfPwaV.Vars TfPwaV.Fit

namespace TfPwaV.C08c

variable {V : Type}

/-! ## (a) fixed parameters are unchanged — polar components included -/

/-- **`fixed_untouched_by_fit`, BFGS / CG / Nelder-Mead / test** (tree after `fix_C08_standard_complex_free_only.diff`):
for every answer of the minimiser, every name bound to an object without a free name — the `r` / `i` part of a polar
complex parameter included, whatever `standard_complex=` says — reads after the fit what it read before. -/
theorem fixed_untouched_by_fit_quasi (A : Arith V) (cfg : Cfg) (fx : Fix) (stdc : Bool) (s : State V)
    (bounds : Dict (Option V × Option V)) (o : Oracle V) (hi : Inv s) (hm : s.mask = [])
    (hx : o.x.length = s.trainable.length) (hab : o.abort = false) (hh : o.hasHessInv = true ∨ fx.hessOpt = true)
    (hsf : cfg.stdFree = true) :
    ∀ n c, cellOf s n = some c → FixedCell s c → readN (fit A cfg fx .quasi stdc s bounds o).1 n = readN s n := by
  intro n c hn hf
  unfold fit
  generalize regBounds cfg s bounds = breg
  generalize stdBoundedNames cfg fx s bounds = bd
  obtain ⟨h1, h2, h3, h4, h5, h6⟩ := transWrite_facts A cfg s breg o.evals o.x hi hm hx
  have hcond : (!o.hasHessInv && !fx.hessOpt) = false := by rcases hh with h | h <;> simp [h]
  simp only [fitCore, afterEvals, hab, hcond, evalOps, Bool.false_eq_true, if_false]
  generalize hs2 : (step A cfg (run A cfg (setBound s breg) (List.map Eval.op o.evals)) (Op.setTransVar o.x)).1 = s2 at *
  have hst : HF c s (step A cfg s2 .removeBound).1 := HF.trans (h5 c hf) ⟨rfl, rfl⟩
  have hfin : HF c (step A cfg s2 .removeBound).1 (finish A cfg stdc (step A cfg s2 .removeBound).1 o bd).1 := by
    cases stdc
    · exact HF.refl c _
    · exact HF_standardComplex_free A cfg hsf c _ bd (FixedCell.of_HF hst hf)
  exact (HF.trans hst hfin).read_eq n hn

/-- **`fixed_untouched_by_fit`, L-BFGS-B** (after `fix_fit_lbfgsb_set_all.diff` and `fix_C08_standard_complex_free_only.diff`) -/
theorem fixed_untouched_by_fit_lbfgsb (A : Arith V) (cfg : Cfg) (fx : Fix) (stdc : Bool) (s : State V)
    (bounds : Dict (Option V × Option V)) (o : Oracle V) (hi : Inv s) (hm : s.mask = [])
    (hab : o.abort = false) (hf : fx.lbfgsb = true) (hsf : cfg.stdFree = true) :
    ∀ n c, cellOf s n = some c → FixedCell s c → readN (fit A cfg fx .lbfgsb stdc s bounds o).1 n = readN s n := by
  intro n c hn hfc
  unfold fit
  generalize regBounds cfg s bounds = breg
  generalize stdBoundedNames cfg fx s bounds = bd
  obtain ⟨h1, h2, h3, h4, h5, h6⟩ := rawWrite_facts A cfg s o.evals o.x hi hm
  simp only [fitCore, afterEvals, hab, hf, evalOps, Bool.false_eq_true, if_false, Bool.not_true]
  generalize hs2 : (step A cfg (run A cfg s (List.map Eval.op o.evals)) (Op.setAllList o.x false)).1 = s2 at *
  have hst : HF c s s2 := h5 c hfc
  have hfin : HF c s2 (finish A cfg stdc s2 o bd).1 := by
    cases stdc
    · exact HF.refl c _
    · exact HF_standardComplex_free A cfg hsf c _ bd (FixedCell.of_HF hst hfc)
  exact (HF.trans hst hfin).read_eq n hn

/-- the remaining branches never call `standard_complex`: Newton-CG / trust-* (any variant of the tree) -/
theorem fixed_untouched_by_fit_newton (A : Arith V) (cfg : Cfg) (fx : Fix) (stdc : Bool) (s : State V)
    (bounds : Dict (Option V × Option V)) (o : Oracle V) (hi : Inv s) (hm : s.mask = [])
    (hx : o.x.length = s.trainable.length) :
    ∀ n c, cellOf s n = some c → FixedCell s c → readN (fit A cfg fx .newton stdc s bounds o).1 n = readN s n := by
  intro n c hn hf
  obtain ⟨r, _, hmch, _⟩ := C08.result_matches_state_newton A cfg fx stdc s (regBounds cfg s bounds)
    (stdBoundedNames cfg fx s bounds) o hi hm hx
  exact hmch.fixed n c hn hf (fun e => by simp at e)

/-- … and iminuit (any variant of the tree) -/
theorem fixed_untouched_by_fit_minuit (A : Arith V) (cfg : Cfg) (fx : Fix) (stdc : Bool) (s : State V)
    (bounds : Dict (Option V × Option V)) (o : Oracle V) (hi : Inv s) (hm : s.mask = []) :
    ∀ n c, cellOf s n = some c → FixedCell s c → readN (fit A cfg fx .minuit stdc s bounds o).1 n = readN s n :=
  (C08.minuit_partial A cfg fx stdc s (regBounds cfg s bounds) (stdBoundedNames cfg fx s bounds) o hi hm).2.2.2.2.2.2

/-- the witness of the finding (`C08.standard_complex_moves_fixed_polar`: `w = (-1, 4)` fixed, the unchanged tree returns
`(1, 1)`) on the repaired variant: the fixed `w` keeps `(-1, 4)`, the free `z` is still standardised -/
theorem fixed_polar_kept_after_repair :
    let o : Oracle Int := ⟨[], false, [5, -2, 1], 0, true, true⟩
    let r := fit arithZ ⟨true, true, true, false⟩ ⟨false, false, false, false, false, false⟩ .quasi true C08.polarDemo [] o
    readN r.1 "wr" = some (-1) ∧ readN r.1 "wi" = some 4 ∧ readN r.1 "zr" = some 2 ∧ readN r.1 "zi" = some (-2) := by
  decide +kernel

/-! ## (b) bounded parameters lie inside their bounds — `standard_complex` included -/

/-- **the returned state holds `x2y(answer)` for every free parameter whose object `standard_complex(bounded)` must skip**
(`Guarded`: every complex parameter with a part on that object has a part in a tie group or a part named in `bounded`;
in particular every parameter that is not a part of a complex one) — BFGS / CG / Nelder-Mead / test, any variant. -/
theorem answer_kept_if_guarded (A : Arith V) (cfg : Cfg) (fx : Fix) (stdc : Bool) (s : State V)
    (bounds : Dict (Option V × Option V)) (o : Oracle V) (hi : Inv s) (hm : s.mask = [])
    (hx : o.x.length = s.trainable.length) (hab : o.abort = false) (hh : o.hasHessInv = true ∨ fx.hessOpt = true)
    (p : Name × V) (hp : p ∈ s.trainable.zip o.x) (c : Nat) (hc : cellOf s p.1 = some c)
    (hg : stdc = true → Guarded s (stdBoundedNames cfg fx s bounds) c) :
    readN (fit A cfg fx .quasi stdc s bounds o).1 p.1 = some (yOf A (setBound s (regBounds cfg s bounds)).bnd p.1 p.2) := by
  unfold fit
  revert hg
  generalize regBounds cfg s bounds = breg
  generalize stdBoundedNames cfg fx s bounds = bd
  intro hg
  obtain ⟨h1, h2, h3, h4, h5, h6⟩ := transWrite_facts A cfg s breg o.evals o.x hi hm hx
  have hcond : (!o.hasHessInv && !fx.hessOpt) = false := by rcases hh with h | h <;> simp [h]
  simp only [fitCore, afterEvals, hab, hcond, evalOps, Bool.false_eq_true, if_false]
  generalize hs2 : (step A cfg (run A cfg (setBound s breg) (List.map Eval.op o.evals)) (Op.setTransVar o.x)).1 = s2 at *
  have hsk : (step A cfg s2 .removeBound).1.skel = s.skel := h1
  have hfin : HF c (step A cfg s2 .removeBound).1 (finish A cfg stdc (step A cfg s2 .removeBound).1 o bd).1 := by
    cases stdc
    · exact HF.refl c _
    · apply HF_standardComplex_guarded
      intro k hk hcell
      have hk' : k ∈ dkeys s.cplx := by
        have : (step A cfg s2 .removeBound).1.cplx = s.cplx := h3
        rw [this] at hk; exact hk
      have := hg rfl k hk' (by rw [cellOf_of_skel hsk, cellOf_of_skel hsk] at hcell; exact hcell)
      rw [((skel_eq_iff _ _).1 hsk).2.2.1]
      exact this
  rw [hfin.read_eq p.1 (by rw [cellOf_of_skel hsk]; exact hc)]
  have : readN (step A cfg s2 .removeBound).1 p.1 = readN s2 p.1 := rfl
  rw [this]
  exact h6 p hp

/-- **`bounded_inside_after_standardisation`** (ℝ, the library's bound transforms): in the state `fit_scipy` returns —
AFTER `remove_bound` and `standard_complex(bounded)` — every free parameter with a registered bound `(lo, hi)` whose
object is `Guarded` holds a value inside `[lo, hi]`, for EVERY answer of the minimiser.  After
`fix_C08_standard_complex_bounded.diff` a bounded part of a polar complex parameter is `Guarded` by its own name
(`guarded_of_bounded_part`); on the unchanged tree it is not (`C08.standard_complex_ignores_removed_bounds`). -/
theorem bounded_inside_after_standardisation (A : Arith ℝ) (hA : A.x2y = BoundR.x2y) (cfg : Cfg) (fx : Fix) (stdc : Bool)
    (s : State ℝ) (bounds : Dict (Option ℝ × Option ℝ)) (o : Oracle ℝ) (hi : Inv s) (hm : s.mask = [])
    (hx : o.x.length = s.trainable.length) (hab : o.abort = false) (hh : o.hasHessInv = true ∨ fx.hessOpt = true)
    (p : Name × ℝ) (hp : p ∈ s.trainable.zip o.x) (c : Nat) (hc : cellOf s p.1 = some c)
    (hg : stdc = true → Guarded s (stdBoundedNames cfg fx s bounds) c)
    (lo hi' : Option ℝ) (hb : dget (setBound s (regBounds cfg s bounds)).bnd p.1 = some (lo, hi'))
    (hle : ∀ a b, lo = some a → hi' = some b → a ≤ b) :
    ∃ v, readN (fit A cfg fx .quasi stdc s bounds o).1 p.1 = some v ∧ (∀ a, lo = some a → a ≤ v) ∧ (∀ b, hi' = some b → v ≤ b) :=
  ⟨_, answer_kept_if_guarded A cfg fx stdc s bounds o hi hm hx hab hh p hp c hc hg,
    yOf_inside A hA _ p.1 lo hi' hb hle p.2⟩

/-- after `fix_C08_standard_complex_bounded.diff`: a part `k+"r"` / `k+"i"` named in `bounds_dict` guards its object,
provided no OTHER complex parameter has an untied part on the same object -/
theorem guarded_of_bounded_part (cfg : Cfg) (fx : Fix) (hf : fx.stdBounded = true) (s : State V)
    (bounds : Dict (Option V × Option V)) (c : Nat) (k0 : Name)
    (hn : (k0 ++ "r") ∈ dkeys (fitBounds cfg s bounds) ∨ (k0 ++ "i") ∈ dkeys (fitBounds cfg s bounds))
    (hother : ∀ k ∈ dkeys s.cplx, k ≠ k0 → (cellOf s (k ++ "r") = some c ∨ cellOf s (k ++ "i") = some c) →
      s.same.any (fun g => g.contains (k ++ "r") || g.contains (k ++ "i")) = true) :
    Guarded s (stdBoundedNames cfg fx s bounds) c := by
  intro k hk hcell
  by_cases hkk : k = k0
  · subst hkk
    right
    unfold stdBoundedNames
    simp only [hf, if_true]
    exact hn
  · exact Or.inl (hother k hk hkk hcell)

/-- the witness of the finding (`C08.standard_complex_ignores_removed_bounds`: the bounded phase `zi` answers `x2y(1) = 101`,
the unchanged tree returns the wrapped `95`) on the repaired variant: `zi = 101`, and `bnd_dic` is empty again -/
theorem bounded_phase_kept_after_repair :
    let o : Oracle Int := ⟨[], false, [5, 2, 1], 0, true, true⟩
    let b : Dict (Option Int × Option Int) := [("zi", (some 100, some 200))]
    let r := fit arithZ ⟨true, true, false, false⟩ ⟨false, false, false, false, false, true⟩ .quasi true C08.polarDemo b o
    readN r.1 "zi" = some 101 ∧ readN r.1 "zr" = some 2 ∧ r.1.bnd = [] := by
  decide +kernel

/-! ## (c) a bound named on a tie follower is applied -/

/-- **`follower_bound_applied`** (tree after `fix_C08_set_bound_free_name.diff`; BFGS-family and Newton-family branches):
let `n` be ANY name of `bounds_dict`, `h = bound_name(n)` its tie group's first entry (`n` itself outside every group),
`h` the i-th free name and `n` on the same object as `h` (C16: `tied_read_equal` / `InvT.tied`).  Then a transform IS
registered under `h` while the minimiser runs, and in the returned state `n` reads that transform of the answer `x[i]` —
so it lies inside the registered range (`bounded_inside`).  `hidem`: `bound_name(h) = h` (the tie groups are disjoint,
C16 `InvT.disj`; `fit_scipy` and `set_bound` both route). -/
theorem follower_bound_applied (A : Arith V) (cfg : Cfg) (fx : Fix) (s : State V)
    (bounds : Dict (Option V × Option V)) (o : Oracle V) (hi : Inv s) (hm : s.mask = [])
    (hx : o.x.length = s.trainable.length) (hbh : cfg.boundHead = true)
    (n : Name) (hn : n ∈ dkeys bounds) (hidem : boundName s (boundName s n) = boundName s n)
    (x : V) (hp : (boundName s n, x) ∈ s.trainable.zip o.x) (htied : cellOf s n = cellOf s (boundName s n))
    (c : Nat) (hc : cellOf s (boundName s n) = some c) :
    let breg := (setBound s (regBounds cfg s bounds)).bnd
    dhas breg (boundName s n) = true ∧
    readN (fit A cfg fx .newton true s bounds o).1 n = some (yOf A breg (boundName s n) x) ∧
    (o.abort = false → (o.hasHessInv = true ∨ fx.hessOpt = true) → NotCplxPart s c →
      readN (fit A cfg fx .quasi true s bounds o).1 n = some (yOf A breg (boundName s n) x)) := by
  intro breg
  refine ⟨?_, ?_, ?_⟩
  · have h1 := routeBounds_keys cfg hbh s bounds n hn
    have h2 := setBound_routed_dhas cfg hbh s (routeBounds cfg s bounds) (boundName s n) h1
    rw [hidem] at h2
    exact h2
  · obtain ⟨r, _, hmch, _⟩ := C08.result_matches_state_newton A cfg fx true s (regBounds cfg s bounds)
      (stdBoundedNames cfg fx s bounds) o hi hm hx
    have ht := hmch.tied n (boundName s n) htied
    have ha := hmch.answer (boundName s n, x) hp c hc (fun e => by simp at e)
    show readN (fitCore A cfg fx .newton true s (regBounds cfg s bounds) (stdBoundedNames cfg fx s bounds) o).1 n = _
    rw [ht]; exact ha
  · intro hab hh hnc
    obtain ⟨r, _, hmch, _⟩ := C08.result_matches_state_quasi A cfg fx true s (regBounds cfg s bounds)
      (stdBoundedNames cfg fx s bounds) o hi hm hx hab hh
    have ht := hmch.tied n (boundName s n) htied
    have ha := hmch.answer (boundName s n, x) hp c hc (fun _ => hnc)
    show readN (fitCore A cfg fx .quasi true s (regBounds cfg s bounds) (stdBoundedNames cfg fx s bounds) o).1 n = _
    rw [ht]; exact ha

/-- `follower_bound_applied` with its two bookkeeping hypotheses discharged from the C16 tie invariant
(`InvT.disj`: pairwise disjoint groups; `InvT.tied`: the members of a group of real names are on one object — proved by
`C16c.tied_stays_tied_partial` for every well-phased, well-named, well-separated history): for EVERY member `n` of a tie
group `g` of real names that `bounds_dict` names. -/
theorem follower_bound_applied_tied (A : Arith V) (cfg : Cfg) (fx : Fix) (s : State V)
    (bounds : Dict (Option V × Option V)) (o : Oracle V) (hi : Inv s) (hm : s.mask = [])
    (hx : o.x.length = s.trainable.length) (hbh : cfg.boundHead = true)
    (hd : s.same.Pairwise GDisj) (g : List Name) (hg : g ∈ s.same) (htr : TiedReal s g)
    (n : Name) (hng : n ∈ g) (hn : n ∈ dkeys bounds)
    (x : V) (hp : (boundName s n, x) ∈ s.trainable.zip o.x) (c : Nat) (hc : cellOf s (boundName s n) = some c) :
    let breg := (setBound s (regBounds cfg s bounds)).bnd
    boundName s n ∈ g ∧ dhas breg (boundName s n) = true ∧
    readN (fit A cfg fx .newton true s bounds o).1 n = some (yOf A breg (boundName s n) x) ∧
    (o.abort = false → (o.hasHessInv = true ∨ fx.hessOpt = true) → NotCplxPart s c →
      readN (fit A cfg fx .quasi true s bounds o).1 n = some (yOf A breg (boundName s n) x)) :=
  ⟨boundName_mem_group s hd n g hg hng,
   follower_bound_applied A cfg fx s bounds o hi hm hx hbh n hn (boundName_idem_of_disj s hd n) x hp
    (htr n hng _ (boundName_mem_group s hd n g hg hng)) c hc⟩

-- non-vacuity: `C08.demo` has the one group `["c", "d"]`, both names on object 2
example : C08.demo.same = [["c", "d"]] ∧ TiedReal C08.demo ["c", "d"] ∧ C08.demo.same.Pairwise GDisj := by
  refine ⟨by decide +kernel, ?_, ?_⟩
  · intro a ha b hb
    simp only [List.mem_cons, List.not_mem_nil, or_false] at ha hb
    rcases ha with rfl | rfl <;> rcases hb with rfl | rfl <;> decide +kernel
  · have : C08.demo.same = [["c", "d"]] := by decide +kernel
    rw [this]; simp

/-- **Unchanged tree: the follower's bound is registered under the follower's own name, which is never looked up** —
`C08.demo` ties `c`, `d` (free name `c`); the bound on `d` is `(0, 500)`, `x2y` adds 100.  As-is: `d` holds the raw
answer 6; repaired: the transform is registered under `c` and `d` holds 106. -/
theorem follower_bound_unrouted_is_dead :
    let o : Oracle Nat := ⟨[], false, [5, 6], 0, true, true⟩
    let b : Dict (Option Nat × Option Nat) := [("d", (some 0, some 500))]
    let asis := fit arithN ⟨true, true, false, false⟩ ⟨false, true, false, false, false, false⟩ .newton true C08.demo b o
    let mid := afterEvals arithN ⟨true, true, false, false⟩ .newton C08.demo (regBounds ⟨true, true, false, false⟩ C08.demo b) o
    let rep := fit arithN ⟨true, true, false, true⟩ ⟨false, true, false, false, false, false⟩ .newton true C08.demo b o
    let midr := afterEvals arithN ⟨true, true, false, true⟩ .newton C08.demo (regBounds ⟨true, true, false, true⟩ C08.demo b) o
    dkeys mid.bnd = ["d"] ∧ readN asis.1 "d" = some 6 ∧ readN asis.1 "c" = some 6 ∧
    dkeys midr.bnd = ["c"] ∧ readN rep.1 "d" = some 106 ∧ readN rep.1 "c" = some 106 ∧ boundName C08.demo "d" = "c" ∧
    boundName C08.demo (boundName C08.demo "d") = boundName C08.demo "d" := by
  decide +kernel

-- non-vacuity of `follower_bound_applied`: `C08.demo` (C08.lean shows `Inv demo`, no mask), `n = "d"`, `bound_name = "c"`,
-- the second free name, on the object of `d`
example : "d" ∈ dkeys ([("d", (some 0, some 500))] : Dict (Option Nat × Option Nat)) ∧
    (boundName C08.demo "d", 6) ∈ C08.demo.trainable.zip [5, 6] ∧ cellOf C08.demo "d" = cellOf C08.demo (boundName C08.demo "d") ∧
    cellOf C08.demo (boundName C08.demo "d") = some 2 := by
  decide +kernel

-- non-vacuity of `Guarded` through `guarded_of_bounded_part`: the bounded phase of `C08.polarDemo`
example : ("z" ++ "i") ∈ dkeys (fitBounds ⟨true, true, false, false⟩ C08.polarDemo ([("zi", ((some 100 : Option Int), (some 200 : Option Int)))])) ∧
    cellOf C08.polarDemo "zi" = some 2 ∧ C08.polarDemo.trainable.zip [5, 2, 1] = [("a", 5), ("zr", 2), ("zi", (1 : Int))] := by
  decide +kernel

end TfPwaV.C08c
