import TfPwaV.Props.C07
/-!
# C07 (continued) — from per-event derivative data to the NLL; sums over simultaneous fits; tied / fixed parameters

`tapeVal / tapeGrad / tapeHess` model what `sum_gradient / sum_hessian (f, data, var, weight, trans=φ)` return:
`Σ_i w_i φ(f_i)`, its gradient and Hessian by the chain rule from per-event data `∂f_i/∂θ_k`, `∂²f_i/∂θ_k∂θ_l`.
IF those per-event data are the derivatives of the per-event densities THEN the tape-level numbers are the derivatives
of the weighted sum, and (composed with `grad_is_deriv`) the returned gradient is the gradient of
`−Σ w ln f + sw·ln Σ v f`.  TensorFlow producing exactly these numbers is validated by the harness, not proved.
-/
open TfPwaV.ScalarR
namespace TfPwaV.C07
open TfPwaV.DerivR

/-! ## `clip_log` and the derivatives the tape uses for it -/

theorem epsC_pos : (0 : ℝ) < epsC := by unfold epsC; norm_num

/-- above ε `clip_log` is `log`, with derivatives `1/x`, `-1/x²`; below ε it is the quadratic continuation with
derivatives `1/ε − (x−ε)/ε²`, `−1/ε²` (the junction `x = ε` itself: C06 `clip_log_C2`). -/
theorem clipLog_hasDerivAt (x : ℝ) (hx : x ≠ epsC) :
    HasDerivAt clipLog (clipLogD x) x ∧ HasDerivAt clipLogD (clipLogD2 x) x := by
  have he := epsC_pos
  rcases lt_or_gt_of_ne hx with hlt | hgt
  · -- below ε
    have hnot : ¬ x > epsC := not_lt.mpr hlt.le
    have ev : ∀ᶠ y in nhds x, ¬ y > epsC := by
      filter_upwards [Iio_mem_nhds hlt] with y hy
      exact not_lt.mpr (le_of_lt hy)
    constructor
    · have h1 : HasDerivAt (fun y : ℝ => klog epsC + (y - epsC) / epsC - ((y - epsC) / epsC) * ((y - epsC) / epsC) / 2)
          (1 / epsC - (x - epsC) / epsC / epsC) x := by
        have hb := ((hasDerivAt_id' x).sub_const epsC).div_const epsC
        have h := (hb.const_add (klog epsC)).sub ((hb.mul hb).div_const 2)
        refine h.congr_deriv ?_
        field_simp
        ring
      have h2 : clipLog =ᶠ[nhds x] fun y : ℝ => klog epsC + (y - epsC) / epsC - ((y - epsC) / epsC) * ((y - epsC) / epsC) / 2 := by
        filter_upwards [ev] with y hy
        simp only [clipLog, if_neg hy]
      have := h1.congr_of_eventuallyEq h2
      simpa only [clipLogD, if_neg hnot] using this
    · have h1 : HasDerivAt (fun y : ℝ => 1 / epsC - (y - epsC) / epsC / epsC) (-1 / (epsC * epsC)) x := by
        have h := ((((hasDerivAt_id' x).sub_const epsC).div_const epsC).div_const epsC).const_sub (1 / epsC)
        refine h.congr_deriv ?_
        field_simp
      have h2 : clipLogD =ᶠ[nhds x] fun y : ℝ => 1 / epsC - (y - epsC) / epsC / epsC := by
        filter_upwards [ev] with y hy
        simp only [clipLogD, if_neg hy]
      have := h1.congr_of_eventuallyEq h2
      simpa only [clipLogD2, if_neg hnot] using this
  · -- above ε
    have hx0 : x ≠ 0 := (he.trans hgt).ne'
    have ev : ∀ᶠ y in nhds x, y > epsC := Ioi_mem_nhds hgt
    constructor
    · have h2 : clipLog =ᶠ[nhds x] Real.log := by
        filter_upwards [ev] with y hy
        simp only [clipLog, if_pos hy, klog]
      have := (Real.hasDerivAt_log hx0).congr_of_eventuallyEq h2
      simpa only [clipLogD, if_pos hgt, one_div] using this
    · have h1 : HasDerivAt (fun y : ℝ => 1 / y) (-1 / (x * x)) x := by
        have h := (hasDerivAt_const x (1 : ℝ)).div (hasDerivAt_id' x) hx0
        refine h.congr_deriv ?_
        field_simp
        ring
      have h2 : clipLogD =ᶠ[nhds x] fun y : ℝ => 1 / y := by
        filter_upwards [ev] with y hy
        simp only [clipLogD, if_pos hy]
      have := h1.congr_of_eventuallyEq h2
      simpa only [clipLogD2, if_pos hgt] using this

/-! ## model of the tape -/

/-- what `sum_gradient(f, data, var, weight, trans=φ)` is expected to return is the gradient of `Σ_i w_i φ(f_i)`,
provided the per-event data `df k i` are the gradients of the per-event densities. -/
theorem tape_grad_is_deriv (φ φ' : ℝ → ℝ) {m n : Nat} (w : Fin m → ℝ) (f : Fin m → ℝ → ℝ) (df : Fin n → Fin m → ℝ)
    (p : Fin n → ℝ) (t : ℝ)
    (hφ : ∀ i, HasDerivAt φ (φ' (f i t)) (f i t))
    (hf : ∀ i, HasDerivAt (f i) (∑ k, df k i * p k) t) :
    HasDerivAt (fun s => tapeVal φ (List.ofFn w) (List.ofFn fun i => f i s))
      (dot (tapeGrad φ' (List.ofFn w) (List.ofFn fun i => f i t) (ofFn2 df)) (List.ofFn p)) t := by
  rw [tapeGrad_ofFn, dot_ofFn]
  have hfun : (fun s => tapeVal φ (List.ofFn w) (List.ofFn fun i => f i s)) = fun s => ∑ i, w i * φ (f i s) := by
    funext s; rw [tapeVal_ofFn]
  rw [hfun]
  have h := HasDerivAt.fun_sum (u := Finset.univ) (fun i _ => ((hφ i).comp t (hf i)).const_mul (w i))
  refine h.congr_deriv ?_
  have e : ∀ k, (∑ i, w i * φ' (f i t) * df k i) * p k = ∑ i, w i * φ' (f i t) * df k i * p k := fun k => Finset.sum_mul _ _ _
  rw [Finset.sum_congr rfl (fun k _ => e k), Finset.sum_comm]
  apply Finset.sum_congr rfl; intro i _
  rw [Finset.mul_sum, Finset.mul_sum]
  apply Finset.sum_congr rfl; intro k _
  ring

/-- … and what `sum_hessian` is expected to return is the derivative of that gradient:
`Σ_i w_i (φ''(f_i) ∂_k f_i ∂_l f_i + φ'(f_i) ∂_k∂_l f_i)`. -/
theorem tape_hess_is_deriv (φ' φ'' : ℝ → ℝ) {m n : Nat} (w : Fin m → ℝ) (f : Fin m → ℝ → ℝ) (df : Fin n → Fin m → ℝ → ℝ)
    (d2f : Fin n → Fin n → Fin m → ℝ) (p q : Fin n → ℝ) (t : ℝ)
    (hφ' : ∀ i, HasDerivAt φ' (φ'' (f i t)) (f i t))
    (hf : ∀ i, HasDerivAt (f i) (∑ l, df l i t * p l) t)
    (hdf : ∀ k i, HasDerivAt (df k i) (∑ l, d2f k l i * p l) t) :
    HasDerivAt (fun s => dot (tapeGrad φ' (List.ofFn w) (List.ofFn fun i => f i s) (ofFn2 fun k i => df k i s)) (List.ofFn q))
      (dot (matVec (tapeHess φ' φ'' (List.ofFn w) (List.ofFn fun i => f i t) (ofFn2 fun k i => df k i t)
                      (List.ofFn fun k => List.ofFn fun l => List.ofFn (d2f k l))) (List.ofFn p)) (List.ofFn q)) t := by
  rw [tapeHess_ofFn, dot_matVec_ofFn]
  have hfun : (fun s => dot (tapeGrad φ' (List.ofFn w) (List.ofFn fun i => f i s) (ofFn2 fun k i => df k i s)) (List.ofFn q))
      = fun s => ∑ k, (∑ i, w i * φ' (f i s) * df k i s) * q k := by
    funext s; rw [tapeGrad_ofFn, dot_ofFn]
  rw [hfun]
  have hki : ∀ k i, HasDerivAt (fun s => w i * φ' (f i s) * df k i s)
      (w i * (φ'' (f i t) * ∑ l, df l i t * p l) * df k i t + w i * φ' (f i t) * ∑ l, d2f k l i * p l) t := fun k i =>
    (((hφ' i).comp t (hf i)).const_mul (w i)).mul (hdf k i)
  have h := HasDerivAt.fun_sum (u := Finset.univ)
    (fun k _ => (HasDerivAt.fun_sum (u := Finset.univ) (fun i _ => hki k i)).mul_const (q k))
  refine h.congr_deriv ?_
  apply Finset.sum_congr rfl; intro k _
  rw [Finset.sum_mul]
  have e : ∀ l, q k * ((∑ i, w i * φ'' (f i t) * df k i t * df l i t) + ∑ i, w i * φ' (f i t) * d2f k l i) * p l
      = ∑ i, (w i * φ'' (f i t) * df k i t * df l i t + w i * φ' (f i t) * d2f k l i) * p l * q k := by
    intro l
    rw [← Finset.sum_add_distrib, Finset.mul_sum, Finset.sum_mul]
    apply Finset.sum_congr rfl; intro i _; ring
  rw [Finset.sum_congr rfl (fun l _ => e l), Finset.sum_comm]
  apply Finset.sum_congr rfl; intro i _
  have e2 : ∀ l, (w i * φ'' (f i t) * df k i t * df l i t + w i * φ' (f i t) * d2f k l i) * p l * q k
      = (w i * φ'' (f i t) * df k i t * q k) * (df l i t * p l) + (w i * φ' (f i t) * q k) * (d2f k l i * p l) :=
    fun l => by ring
  rw [Finset.sum_congr rfl (fun l _ => e2 l), sum_lin2]
  ring

/-- non-vacuity of `tape_hess_is_deriv`: one event `f(s) = 1 + 2 s`, `φ' = id`. -/
example (q : Fin 1 → ℝ) (w : Fin 1 → ℝ) :=
  tape_hess_is_deriv (fun x => x) (fun _ => 1) (m := 1) (n := 1) w (fun _ s => 1 + 2 * s) (fun _ _ _ => 2) (fun _ _ _ => 0)
    (fun _ => 1) q 0
    (fun _ => hasDerivAt_id' _)
    (fun _ => by simpa using ((hasDerivAt_id' (0 : ℝ)).const_mul 2).const_add 1)
    (fun _ _ => by simpa using hasDerivAt_const (0 : ℝ) (2 : ℝ))

/-- From events to the likelihood (default / extended model): if `df`, `dg` are the gradients of the per-event
densities of the data and MC events, all data densities are off the `clip_log` junction, and the MC integral is
non-zero (normalised model), then the gradient the code assembles from the tape-level sums is the gradient of
`−Σ_i w_i clip_log f_i(θ) + sw·int_f(Σ_j v_j f(y_j; θ))`, which above ε is `−Σ w ln f + sw ln ∫`. -/
theorem nll_grad_from_events (ext : Bool) {m mc n : Nat} (w : Fin m → ℝ) (f : Fin m → ℝ → ℝ) (df : Fin n → Fin m → ℝ)
    (v : Fin mc → ℝ) (g : Fin mc → ℝ → ℝ) (dg : Fin n → Fin mc → ℝ) (p : Fin n → ℝ) (sw t : ℝ)
    (hf : ∀ i, HasDerivAt (f i) (∑ k, df k i * p k) t) (hg : ∀ j, HasDerivAt (g j) (∑ k, dg k j * p k) t)
    (hclip : ∀ i, f i t ≠ epsC)
    (h0 : ext = false → tapeVal (fun x => x) (List.ofFn v) (List.ofFn fun j => g j t) ≠ 0) :
    HasDerivAt (fun s => nllVal ext (tapeVal clipLog (List.ofFn w) (List.ofFn fun i => f i s)) sw
                           (tapeVal (fun x => x) (List.ofFn v) (List.ofFn fun j => g j s)))
      (dot (nllGrad ext (tapeGrad clipLogD (List.ofFn w) (List.ofFn fun i => f i t) (ofFn2 df))
                        (tapeGrad (fun _ => 1) (List.ofFn v) (List.ofFn fun j => g j t) (ofFn2 dg)) sw
                        (tapeVal (fun x => x) (List.ofFn v) (List.ofFn fun j => g j t))) (List.ofFn p)) t := by
  have hL := tape_grad_is_deriv clipLog clipLogD w f df p t (fun i => (clipLog_hasDerivAt _ (hclip i)).1) hf
  have hI := tape_grad_is_deriv (fun x => x) (fun _ => 1) v g dg p t (fun j => hasDerivAt_id' _) hg
  rw [tapeGrad_ofFn, dot_ofFn] at hL hI
  rw [tapeGrad_ofFn, tapeGrad_ofFn]
  exact grad_is_deriv ext _ _ _ _ p sw t hL hI h0

/-- on the physical region (all densities above ε) the differentiated value is the defining formula
`−Σ w ln f + sw·int_f(Σ v f)` -/
theorem nll_val_above_eps (ext : Bool) {m mc : Nat} (w f : Fin m → ℝ) (v g : Fin mc → ℝ) (sw : ℝ) (hf : ∀ i, f i > epsC) :
    nllVal ext (tapeVal clipLog (List.ofFn w) (List.ofFn f)) sw (tapeVal (fun x => x) (List.ofFn v) (List.ofFn g))
      = -(∑ i, w i * Real.log (f i)) + sw * intF ext (∑ j, v j * g j) := by
  rw [tapeVal_ofFn, tapeVal_ofFn]
  unfold nllVal
  congr 2
  apply Finset.sum_congr rfl; intro i _
  simp only [clipLog, if_pos (hf i), klog]

example : ∃ (f : Fin 1 → ℝ → ℝ) (df : Fin 1 → Fin 1 → ℝ) (p : Fin 1 → ℝ),
    (∀ i, HasDerivAt (f i) (∑ k, df k i * p k) 0) ∧ ∀ i, f i 0 ≠ epsC :=
  ⟨fun _ s => 1 + 2 * s, fun _ _ => 2, fun _ => 1,
    fun _ => by simpa using ((hasDerivAt_id' (0 : ℝ)).const_mul 2).const_add 1,
    fun _ => by unfold epsC; norm_num⟩

/-! ## simultaneous fits (`CombineFCN`) -/

/-- `CombineFCN.get_nll_grad`: the sum of the parts' gradients is the gradient of the sum of the parts' values. -/
theorem combine_is_deriv {m n : Nat} (N : Fin m → ℝ → ℝ) (G : Fin m → Fin n → ℝ) (p : Fin n → ℝ) (t : ℝ)
    (hN : ∀ k, HasDerivAt (N k) (∑ j, G k j * p j) t) :
    HasDerivAt (fun s => combineVal (List.ofFn fun k => N k s))
      (dot (combineVec n (List.ofFn fun k => List.ofFn (G k))) (List.ofFn p)) t := by
  rw [combineVec_ofFn, dot_ofFn]
  have h1 : (fun s => combineVal (List.ofFn fun k => N k s)) = fun s => ∑ k, N k s := by
    funext s; exact sumK_ofFn _
  rw [h1]
  refine (HasDerivAt.fun_sum (u := Finset.univ) (fun k _ => hN k)).congr_deriv ?_
  rw [Finset.sum_comm]
  apply Finset.sum_congr rfl; intro j _
  rw [Finset.sum_mul]

example :=
  combine_is_deriv (m := 2) (n := 1) (fun _ s => 2 * s) (fun _ _ => 2) (fun _ => 1) 0
    (fun _ => by simpa using (hasDerivAt_id' (0 : ℝ)).const_mul 2)

/-! ## tied and fixed parameters -/

/-- the direction in the space of ALL named parameters induced by a direction `p` of the trainable variables:
a name carried by trainable variable `k` moves with `p k`, a fixed name does not move -/
def fullDir {N n : Nat} (grp : Fin N → Option Nat) (p : Fin n → ℝ) (i : Fin N) : ℝ :=
  ∑ k : Fin n, if grp i = some k.val then p k else 0

/-- `shared_fixed`: entry `k` of the gradient with respect to the trainable variables is the SUM of the partials of
the names tied to variable `k`; fixed names do not appear: `full · fullDir p = tieGrad full · p` for every direction, so
if `full` is the gradient in the space of all names, `tieGrad` is the gradient in the space of trainable variables. -/
theorem shared_fixed {N n : Nat} (F : ℝ → ℝ) (grp : Fin N → Option Nat) (full : Fin N → ℝ) (p : Fin n → ℝ) (t : ℝ)
    (hF : HasDerivAt F (∑ i, full i * fullDir grp p i) t) :
    HasDerivAt F (dot (tieGrad n (List.ofFn grp) (List.ofFn full)) (List.ofFn p)) t := by
  rw [tieGrad_ofFn, dot_ofFn]
  refine hF.congr_deriv ?_
  unfold fullDir
  have e : ∀ i, full i * ∑ k : Fin n, (if grp i = some k.val then p k else 0)
      = ∑ k : Fin n, (if grp i = some k.val then full i else 0) * p k := by
    intro i
    rw [Finset.mul_sum]
    apply Finset.sum_congr rfl; intro k _
    split <;> simp
  rw [Finset.sum_congr rfl (fun i _ => e i), Finset.sum_comm]
  apply Finset.sum_congr rfl; intro k _
  rw [Finset.sum_mul]

example :=
  shared_fixed (N := 2) (n := 1) (fun s => 3 * s) (fun i => if i = 0 then some 0 else none) (fun _ => 3) (fun _ => 1) 0
    (by simpa [fullDir, Fin.sum_univ_succ] using (hasDerivAt_id' (0 : ℝ)).const_mul 3)

/-- concrete instance: names (a, b, c, d), b and d tied to trainable variable 1, c fixed -/
theorem shared_fixed_example (ga gb gc gd : ℝ) :
    tieGrad 2 [some 0, some 1, none, some 1] [ga, gb, gc, gd] = [ga + (0 + (0 + (0 + 0))), 0 + (gb + (0 + (gd + 0)))] := by
  simp [tieGrad, sumK, List.ofFn_succ]

end TfPwaV.C07
