import TfPwaV.Proofs.AmpMix
import TfPwaV.Props.C01d
/-!
# C01 (amplitude tensor, part 2) — unitary mixing of the FINAL-STATE helicity indices of the executable model

`Props/C01d` proves that the helicity-summed density of the executable model `templates/Amp.lean.in` (ℝ instance) is
unchanged when the top-vertex D-function of every chain is left-multiplied by one common unitary.  Here the other half:

* `model_density_final_mix`: for every list of chains, if for every final particle `p` of a list `M` the alignment
  D-function of EVERY chain is right-multiplied by ONE common unitary `V_p` (`D' = D · V_p`, the same for all chains) and
  the other alignment D-functions are unchanged, the density is unchanged.  All spins (no bound), any number of chains,
  any depth; the final index lists are the full helicity ranges `mRange (N p)`.
* `model_density_mix_all`: … together with one common unitary `U` on the top helicity index.
* `model_density_rot_invariant` (the FULL statement announced in `Props/C01d`): the hypotheses are about ANGLES — the top
  angles of every chain compose in SU(2) with one rotation `(a,b,c)` from the left, the alignment angles of every chain
  for the final particle `p ∈ M` compose with one rotation `rot p` from the right (`C01.DConj_compose` = `D_hom_su2`,
  `C01.D_conj_unitary`), all spins `2j ≤ 8`.

Structural hypothesis (`Chain.AlignedOnce`): a chain takes part in the mixing of particle `p` through exactly one
alignment D-function `D^{j*}_{λ λ'}` whose unprimed index is contracted.  This is the shape `DecayChain.get_amp` produces for
every chain whose data carry an `aligned_angle` for `p`; the reference chain of `p` (no `aligned_angle`: the code inserts no
D-function) is covered with `p ∉ M` (its index is not mixed), which is the situation under rotations and boosts, where
the alignment rotations between chains do not change at all (`M = []`).
-/
open Matrix BigOperators
open TfPwaV.ScalarR
namespace TfPwaV.C01e
open TfPwaV.AmpR TfPwaV.LineShapeR TfPwaV.SpinlessR TfPwaV.UnitaryMix TfPwaV.FrameAlg TfPwaV.Wigner

/-- the index lists of the final-state particles `ids` with doubled spins `N`: the full helicity ranges -/
def finalsOf (N : Nat → Nat) (ids : List Nat) : List (Nat × List Int) := ids.map fun p => (p, mRange (N p))

/-- **final-state mixing, abstract D-functions.**  `M`: the final particles whose helicity index is mixed, `V p` one
unitary per particle.  If for every `p ∈ M` and EVERY chain the columns of the alignment D-function of `p` are mixed by
`V p` (`D'[λ, k] = Σ_j D[λ, j] · V_p[j, k]`, every row helicity `λ`), all other alignment D-functions are unchanged, and
every chain is aligned exactly once for every `p ∈ M`, the density of the model is the same.  No bound on the spins,
any list of chains, any top-vertex D-functions, any top helicity list. -/
theorem model_density_final_mix (N : Nat → Nat) (V : ∀ p, Matrix (Fin (N p + 1)) (Fin (N p + 1)) ℂ)
    (M : List Nat) (hV : ∀ p ∈ M, star (V p) * V p = 1) (hMnd : M.Nodup)
    (ids : List Nat) (hids : ids.Nodup) (hM : ∀ p ∈ M, p ∈ ids)
    (cs : List Chain) (hstruct : ∀ p ∈ M, ∀ C ∈ cs, C.AlignedOnce p)
    (Dtop : Chain → Int → Int → Cx) (Dal' Dal : Chain → Align → Int → Int → Cx) (tops : List Int)
    (hcol : ∀ p ∈ M, ∀ C ∈ cs, ∀ A ∈ C.aligns, A.p = p → ∀ (l : Int) (k : Fin (N p + 1)),
      toC (Dal' C A l (hel2 (N p) k)) = ∑ j, toC (Dal C A l (hel2 (N p) j)) * V p j k)
    (hsame : ∀ C ∈ cs, ∀ A ∈ C.aligns, A.p ∉ M → ∀ l m, Dal' C A l m = Dal C A l m) :
    densityWith cs Dtop Dal' tops (finalsOf N ids) = densityWith cs Dtop Dal tops (finalsOf N ids) := by
  induction M generalizing Dal' with
  | nil =>
    exact densityWith_congr_Dal cs Dtop Dal' Dal tops _ (fun C hC A hA => hsame C hC A hA (by simp))
  | cons p M' ih =>
    have hpM : p ∉ M' := (List.nodup_cons.mp hMnd).1
    -- intermediate D-functions: the columns of `p` already un-mixed, the rest still primed
    let Dal1 : Chain → Align → Int → Int → Cx := fun C A => if A.p = p then Dal C A else Dal' C A
    have step1 : densityWith cs Dtop Dal' tops (finalsOf N ids) = densityWith cs Dtop Dal1 tops (finalsOf N ids) := by
      obtain ⟨l1, l2, hsplit⟩ := List.append_of_mem (hM p (List.mem_cons_self ..))
      have hp2 : p ∉ l2 := by
        rw [hsplit] at hids
        have := (List.nodup_append.mp hids).2.1
        exact (List.nodup_cons.mp this).1
      unfold finalsOf
      rw [hsplit, List.map_append, List.map_cons]
      apply densityWith_final_mix (N p) p (V p) (hV p (List.mem_cons_self ..)) cs Dtop Dal' Dal1 tops
      · simp only [List.map_map]
        intro hh
        obtain ⟨q, hq, hqp⟩ := List.mem_map.mp hh
        simp only [Function.comp] at hqp
        exact hp2 (hqp ▸ hq)
      · intro la ext k
        apply group_final_mix (N p) p (V p) cs (fun C hC => hstruct p (List.mem_cons_self ..) C hC) Dtop Dal' Dal1
        · intro C hC A hA hAp l k
          have : Dal1 C A = Dal C A := by simp only [Dal1, hAp, if_true]
          rw [this]
          exact hcol p (List.mem_cons_self ..) C hC A hA hAp l k
        · intro C hC A _ hAp l m
          simp only [Dal1, hAp, if_false]
    rw [step1]
    apply ih (fun q hq => hV q (List.mem_cons_of_mem _ hq)) (List.nodup_cons.mp hMnd).2
      (fun q hq => hM q (List.mem_cons_of_mem _ hq)) (fun q hq => hstruct q (List.mem_cons_of_mem _ hq))
    · intro q hq C hC A hA hAq l k
      have hne : ¬ A.p = p := by
        intro hh
        apply hpM
        rw [← hh, hAq]
        exact hq
      have : Dal1 C A = Dal' C A := by simp only [Dal1, hne, if_false]
      rw [this]
      exact hcol q (List.mem_cons_of_mem _ hq) C hC A hA hAq l k
    · intro C hC A hA hAM l m
      by_cases hAp : A.p = p
      · simp only [Dal1, hAp, if_true]
      · simp only [Dal1, hAp, if_false]
        apply hsame C hC A hA
        intro hh
        rcases List.mem_cons.mp hh with h1 | h1
        · exact hAp h1
        · exact hAM h1

/-- **top index and final indices together** (abstract D-functions): one common unitary `U` on the rows of the
top-vertex D-function of every chain and one common unitary `V p` on the columns of the alignment D-function of every
final particle `p ∈ M` of every chain: the helicity-summed density of the model is unchanged. -/
theorem model_density_mix_all (NT : ℕ) (U : Matrix (Fin (NT + 1)) (Fin (NT + 1)) ℂ) (hU : star U * U = 1)
    (N : Nat → Nat) (V : ∀ p, Matrix (Fin (N p + 1)) (Fin (N p + 1)) ℂ)
    (M : List Nat) (hV : ∀ p ∈ M, star (V p) * V p = 1) (hMnd : M.Nodup)
    (ids : List Nat) (hids : ids.Nodup) (hM : ∀ p ∈ M, p ∈ ids)
    (cs : List Chain) (hstruct : ∀ p ∈ M, ∀ C ∈ cs, C.AlignedOnce p)
    (Dtop' Dtop : Chain → Int → Int → Cx) (Dal' Dal : Chain → Align → Int → Int → Cx)
    (htop : ∀ C ∈ cs, ∀ (i : Fin (NT + 1)) (δ : Int),
      toC (Dtop' C (hel2 NT i) δ) = ∑ k, U i k * toC (Dtop C (hel2 NT k) δ))
    (hcol : ∀ p ∈ M, ∀ C ∈ cs, ∀ A ∈ C.aligns, A.p = p → ∀ (l : Int) (k : Fin (N p + 1)),
      toC (Dal' C A l (hel2 (N p) k)) = ∑ j, toC (Dal C A l (hel2 (N p) j)) * V p j k)
    (hsame : ∀ C ∈ cs, ∀ A ∈ C.aligns, A.p ∉ M → ∀ l m, Dal' C A l m = Dal C A l m) :
    densityWith cs Dtop' Dal' (mRange NT) (finalsOf N ids) = densityWith cs Dtop Dal (mRange NT) (finalsOf N ids) := by
  rw [C01d.model_density_top_mix NT U hU cs Dtop' Dtop Dal' (finalsOf N ids) htop]
  exact model_density_final_mix N V M hV hMnd ids hids hM cs hstruct Dtop Dal' Dal (mRange NT) hcol hsame

/-- composed alignment angles always exist: for all alignment angles and every rotation `(a,b,c)` there are angles whose
SU(2) rotation is the product (right multiplication) -/
theorem exists_composed_alignment_angles (α β γ a b c : ℝ) :
    ∃ α' β' γ' : ℝ, C01.rot3 α' β' γ' = (C01.rot3 α β γ).mul (C01.rot3 a b c) := by
  have h1 : TfPwaV.C12.IsSU2 (C01.rot3 α β γ) := by rw [C01.rot3_eq_ofEuler]; exact TfPwaV.C12.ofEuler_isSU2 _ _ _
  have h2 : TfPwaV.C12.IsSU2 (C01.rot3 a b c) := by rw [C01.rot3_eq_ofEuler]; exact TfPwaV.C12.ofEuler_isSU2 _ _ _
  have hp := C01.isSU2_mul _ _ h1 h2
  refine ⟨(TfPwaV.SU2R.eulerOf ((C01.rot3 α β γ).mul (C01.rot3 a b c))).gamma,
    (TfPwaV.SU2R.eulerOf ((C01.rot3 α β γ).mul (C01.rot3 a b c))).beta,
    (TfPwaV.SU2R.eulerOf ((C01.rot3 α β γ).mul (C01.rot3 a b c))).alpha, ?_⟩
  rw [C01.rot3_eq_ofEuler]
  exact TfPwaV.C12.euler_roundtrip _ hp

/-- **(b) in full, on the model's own D-functions and with hypotheses about ANGLES.**  For every list of chains (any
number, any depth, any couplings / line shapes / lower angles), top spin `NT/2 ≤ 4`, final spins `N p / 2 ≤ 4` for the
mixed particles: if
* the top-vertex rotation of every chain composes in SU(2) with ONE rotation `(a,b,c)` from the left
  (`rot3 ang' = rot3 (a,b,c) · rot3 ang`), and
* for every final particle `p ∈ M` the alignment rotation of every chain composes with ONE rotation `rot p` from the right
  (`rot3 al' = rot3 al · rot3 (rot p)`), the alignment angles of the other final particles being unchanged,
the helicity-summed density of the executable model (`get_D_matrix_lambda` at the top vertex and in the alignment,
`DecayChain.get_amp`, `DecayGroup.get_amp`, `sum_amp`) is unchanged.  The index lists are the full helicity ranges of the
top particle and of the final particles `ids`. -/
theorem model_density_rot_invariant (NT : ℕ) (hNT : NT ≤ 8) (a b c : ℝ)
    (N : Nat → Nat) (rot : Nat → ℝ × ℝ × ℝ) (M : List Nat) (hN : ∀ p ∈ M, N p ≤ 8) (hMnd : M.Nodup)
    (ids : List Nat) (hids : ids.Nodup) (hM : ∀ p ∈ M, p ∈ ids)
    (cs : List Chain) (hstruct : ∀ p ∈ M, ∀ C ∈ cs, C.AlignedOnce p)
    (ang' ang : Chain → ℝ × ℝ × ℝ) (al' al : Chain → Align → ℝ × ℝ × ℝ)
    (htop : ∀ C ∈ cs, C01.rot3 (ang' C).1 (ang' C).2.1 (ang' C).2.2
      = (C01.rot3 a b c).mul (C01.rot3 (ang C).1 (ang C).2.1 (ang C).2.2))
    (hal : ∀ p ∈ M, ∀ C ∈ cs, ∀ A ∈ C.aligns, A.p = p →
      C01.rot3 (al' C A).1 (al' C A).2.1 (al' C A).2.2
        = (C01.rot3 (al C A).1 (al C A).2.1 (al C A).2.2).mul (C01.rot3 (rot p).1 (rot p).2.1 (rot p).2.2))
    (hsame : ∀ C ∈ cs, ∀ A ∈ C.aligns, A.p ∉ M → al' C A = al C A) :
    densityWith cs (fun C => mkD NT (ang' C).1 (ang' C).2.1 (ang' C).2.2)
        (fun C A => mkD (N A.p) (al' C A).1 (al' C A).2.1 (al' C A).2.2) (mRange NT) (finalsOf N ids)
      = densityWith cs (fun C => mkD NT (ang C).1 (ang C).2.1 (ang C).2.2)
        (fun C A => mkD (N A.p) (al C A).1 (al C A).2.1 (al C A).2.2) (mRange NT) (finalsOf N ids) := by
  apply model_density_mix_all NT (DConj NT a b c) (C01.D_conj_unitary NT hNT a b c) N
    (fun p => DConj (N p) (rot p).1 (rot p).2.1 (rot p).2.2) M
    (fun p hp => C01.D_conj_unitary (N p) (hN p hp) _ _ _) hMnd ids hids hM cs hstruct
  · intro C hC i δ
    simp only [toC_mkD]
    split_ifs with h
    · rw [C01.DConj_compose NT hNT a b c _ _ _ _ _ _ (htop C hC), Matrix.mul_apply]
    · simp
  · intro p hp C hC A hA hAp l k
    simp only [hAp]
    exact mkD_col_mix (N p) _ _ _ _ _ _ _ _ _
      (C01.DConj_compose (N p) (hN p hp) _ _ _ _ _ _ _ _ _ (hal p hp C hC A hA hAp)) l k
  · intro C hC A hA hAM l m
    simp only [hsame C hC A hA hAM]

-- non-vacuity of the structural hypothesis and of the index hypotheses: two chains of different shape, each with exactly
-- one alignment D-function for the final particle 1 (contracted), a second final particle 2 that is not mixed
example : ∃ (cs : List Chain) (M ids : List Nat), cs.length = 2 ∧ M ≠ [] ∧ M.Nodup ∧ ids.Nodup ∧ (∀ p ∈ M, p ∈ ids) ∧
    ∀ p ∈ M, ∀ C ∈ cs, C.AlignedOnce p := by
  let v : Vertex := ⟨0, 1, 2, fun _ _ => ⟨1, 0⟩, fun _ _ => ⟨1, 0⟩⟩
  let A1 : Align := ⟨1, fun _ _ => ⟨1, 0⟩⟩
  let A2 : Align := ⟨2, fun _ _ => ⟨1, 0⟩⟩
  refine ⟨[⟨⟨1, 0⟩, [], v, [], [A1], [(1, [-1, 1])]⟩, ⟨⟨0, 1⟩, [⟨1, 1⟩], v, [v], [A2, A1], [(3, [0]), (1, [-1, 1]), (2, [-2, 0, 2])]⟩],
    [1], [1, 2], rfl, by simp, by simp, by simp, by simp, ?_⟩
  intro p hp C hC
  simp only [List.mem_singleton] at hp
  subst hp
  simp only [List.mem_cons, List.not_mem_nil, or_false] at hC
  rcases hC with rfl | rfl
  · exact ⟨by simp, [], A1, [], rfl, rfl, by simp⟩
  · exact ⟨by simp, [A2], A1, [], rfl, rfl, by simp [A2]⟩

-- non-vacuity of the angle hypotheses: composed top angles exist for every rotation (`C01.exists_composed_angles`), composed
-- alignment angles exist for every rotation and all alignment angles
example (α β γ a b c : ℝ) : ∃ α' β' γ' : ℝ, C01.rot3 α' β' γ' = (C01.rot3 α β γ).mul (C01.rot3 a b c) :=
  exists_composed_alignment_angles α β γ a b c

/-- the density of the executable model IS `densityWith` at the D-functions stored in the chains (`AmpR.density`, the
function whose Float instance is compared with `sum_amp`): replacing the stored top-vertex and alignment D-functions of every
chain gives `densityWith` at the new functions -/
theorem density_setD (cs : List Chain) (Dt : Chain → Int → Int → Cx) (Da : Chain → Align → Int → Int → Cx)
    (tops : List Int) (finals : List (Nat × List Int)) :
    density (cs.map fun C => { C with top := { C.top with D := Dt C }, aligns := C.aligns.map fun A => ⟨A.p, Da C A⟩ })
        tops finals
      = densityWith cs Dt (fun C A => Da C A) tops finals := by
  unfold AmpR.density densityWith groupAmpWith
  simp only [List.map_map]
  congr 1
  apply List.map_congr_left
  intro la _
  apply sumOverR_congr
  intro ext
  congr 2
  apply List.map_congr_left
  intro C _
  simp only [Function.comp]
  unfold Chain.ampWith
  congr 1
  congr 1
  funext h
  unfold Chain.term
  simp only [List.map_map]
  rfl

end TfPwaV.C01e
