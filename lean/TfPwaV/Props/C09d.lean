import TfPwaV.Proofs.ErrEntry
import TfPwaV.Props.C09b
import TfPwaV.Props.C09c
/-!
# C09d — the entry points that REPORT parameter uncertainties

Theorems over ℝ about `TfPwaV.ErrEntryR`, the ℝ-instance of `templates/ErrEntry.lean.in` (the same text runs at Float
against `ConfigLoader.get_params_error`, `cal_hesse_error`, `cal_hesse_correct`, `num_hess_inv_3point`,
`corr_coef_matrix` over a real `VarsManager`).  The likelihood (value / gradient / Hessian as functions of the stored
values) and numpy's `inv / pinv / eig` are arbitrary functions (`Oracle`); the bound maps are arbitrary functions.

* `errors_at_requested_point`: for every method, every oracle, every bound map, every `params` (dict or FitResult)
  the reported errors and error matrix depend on the state held on entry ONLY through `set_all(params)(state)`;
  with a `params` that assigns every stored variable they do not depend on the entry state at all;
  positive-definite case: they are `sqrt(diag(H(params)⁻¹))`;
* `three_point_is_central_second_difference`: row `i`, column `j` of the matrix `num_hess_inv_3point` inverts is the
  central difference of component `j` of the transformed gradient along coordinate `i`, the base point is put back;
  exact on quadratic likelihoods, `+ c₃ ε²` on quartic ones, within `L ε` for an `L`-Lipschitz second derivative;
* `bound_mapping`: the errors of `method="3-point"` are `|dy/dx| · σ_x` with `dy/dx` AT THE REQUESTED POINT;
* `state_after`: what each method leaves in the VarsManager;
* the text with `x0` read before `fcn(params)` (seeded change C09-04) is refuted on a witness.
-/
open TfPwaV.ScalarR
namespace TfPwaV.C09d
open TfPwaV.ErrPropR TfPwaV.ErrCtxR TfPwaV.ErrEntryR

local notation "mat " V => List.ofFn fun i => List.ofFn (V i)

/-! ## The requested point -/

/-- `errors_at_requested_point`, every method (`None`, `"correct"` with any `correct_params`, `"3-point"`,
`"hesse"` / anything else), every `force_pos`, `params` as `None` / dict / FitResult: two entry states that
`set_all(params)` maps to the same state give the same errors and the same error matrix — the state held on entry
enters only through `params` applied to it. -/
theorem errors_at_requested_point (O : Oracle) (B : List Bnd) (tr : List Nat) (m : MethodArg) (forcePos : Bool)
    (cp : Option (List Nat)) (params : ParamsArg) (st st' : List ℝ)
    (h : setParams params.unwrap st = setParams params.unwrap st') :
    (getParamsError O B tr false none m forcePos cp params st).map (·.1)
      = (getParamsError O B tr false none m forcePos cp params st').map (·.1) := by
  simp only [getParamsError]
  cases resolveMethod m cp.isSome <;> simp [entry3pt, entryCorrect, entryHesse, h]

example : setParams (ParamsArg.dict [(0, (1 : ℝ))]).unwrap [2] = setParams (ParamsArg.dict [(0, (1 : ℝ))]).unwrap [5] := by
  simp [setParams, ParamsArg.unwrap]

/-- a dict and a FitResult with the same `.params` are the same request -/
theorem fit_result_is_its_params (O : Oracle) (B : List Bnd) (tr : List Nat) (uc : Bool)
    (cached : Option (List (List ℝ))) (m : MethodArg) (forcePos : Bool) (cp : Option (List Nat))
    (p : List (Nat × ℝ)) (st : List ℝ) :
    getParamsError O B tr uc cached m forcePos cp (.fitResult p) st
      = getParamsError O B tr uc cached m forcePos cp (.dict p) st := rfl

/-- with a `params` that assigns every stored variable the result of `set_all(params)` does not depend on the
state at all … -/
theorem setParams_full (p : List (Nat × ℝ)) (st st' : List ℝ) (hlen : st.length = st'.length)
    (hcover : ∀ i, i < st.length → ∃ a ∈ p, a.1 = i) : setParams p st = setParams p st' := by
  apply List.ext_getElem?
  intro i
  rw [getElem?_setParams, getElem?_setParams]
  cases hf : p.reverse.find? (fun a => a.1 = i) with
  | some a => simp [hlen]
  | none =>
    by_cases hi : i < st.length
    · obtain ⟨a, ha, hai⟩ := hcover i hi
      have := List.find?_eq_none.mp hf a (List.mem_reverse.mpr ha)
      simp [hai] at this
    · have hi' : ¬ i < st'.length := by omega
      simp [List.getElem?_eq_none (not_lt.mp hi), List.getElem?_eq_none (not_lt.mp hi')]

/-- … so the reported errors do not depend on what the model held on entry, for every method. -/
theorem errors_independent_of_entry_state (O : Oracle) (B : List Bnd) (tr : List Nat) (m : MethodArg)
    (forcePos : Bool) (cp : Option (List Nat)) (params : ParamsArg) (st st' : List ℝ)
    (hlen : st.length = st'.length) (hcover : ∀ i, i < st.length → ∃ a ∈ params.unwrap, a.1 = i) :
    (getParamsError O B tr false none m forcePos cp params st).map (·.1)
      = (getParamsError O B tr false none m forcePos cp params st').map (·.1) :=
  errors_at_requested_point O B tr m forcePos cp params st st' (setParams_full _ st st' hlen hcover)

example : ∀ i, i < [(2 : ℝ)].length → ∃ a ∈ (ParamsArg.fitResult [(0, (1 : ℝ))]).unwrap, a.1 = i := by
  intro i hi
  have : i = 0 := by simpa using hi
  subst this
  simp [ParamsArg.unwrap]

/-- `method="hesse"` (and `method=None` with `correct_params` given): the Hessian the errors come from is the
oracle AT `set_all(params)(state)`; in the positive-definite case (contracts of `inv`, `pinv`, `eig` as
hypotheses) the errors are `sqrt(diag(H(params)⁻¹))`, for every `force_pos`. -/
theorem hesse_errors_at_requested_point_pd {n : Nat} (O : Oracle) (p : List (Nat × ℝ)) (st : List ℝ) (fp : Bool)
    (H V P : Fin n → Fin n → ℝ)
    (hpd : ∀ x : Fin n → ℝ, x ≠ 0 → 0 < bil H x x)
    (hH : O.hess (setParams p st) = mat H)
    (hV : O.inv (mat H) = mat V) (hP : O.pinv (mat H) = mat P)
    (hinv : ∀ i k, ∑ j, H i j * V j k = if i = k then 1 else 0)
    (hpinv : ∀ i k, ∑ j, H i j * P j k = if i = k then 1 else 0)
    (hne : O.eig (mat H) ≠ [])
    (heig : ∀ y ∈ O.eig (mat H), ∃ v : Fin n → ℝ, v ≠ 0 ∧ ∀ i, ∑ j, H i j * v j = y * v i) :
    (entryHesse O true fp p st).1 = (List.ofFn fun k => Real.sqrt (V k k), mat V)
    ∧ (∀ k, 0 < V k k) := by
  have h := C09b.cal_hesse_error_pd H V P hpd hinv hpinv (O.eig (mat H)) (O.eig (mat V)) hne heig
    (O.rebuild (mat H)) true fp
  simp only at h
  refine ⟨?_, h.2.2⟩
  simp only [entryHesse, hH, hV, hP]
  exact Prod.ext h.2.1 h.1

/-- `method=None` / `"correct"` with the default `correct_params`: no finite-difference entry is replaced, the
Hessian is the oracle at the requested point, `force_pos_def` hands back `pinv(h)`: errors `sqrt(diag(H(params)⁻¹))`. -/
theorem correct_errors_at_requested_point_pd {n : Nat} (O : Oracle) (tr : List Nat) (p : List (Nat × ℝ))
    (st : List ℝ) (fp : Bool) (H P : Fin n → Fin n → ℝ)
    (hpd : ∀ x : Fin n → ℝ, x ≠ 0 → 0 < bil H x x)
    (hH : O.hess (setParams p st) = mat H) (hP : O.pinv (mat H) = mat P)
    (hpinv : ∀ i k, ∑ j, H i j * P j k = if i = k then 1 else 0)
    (hne : O.eig (mat H) ≠ [])
    (heig : ∀ y ∈ O.eig (mat H), ∃ v : Fin n → ℝ, v ≠ 0 ∧ ∀ i, ∑ j, H i j * v j = y * v i) :
    (entryCorrect O tr fp [] p st).1 = (List.ofFn fun k => Real.sqrt (P k k), mat P)
    ∧ (∀ k, 0 < P k k) := by
  have hpos : ∀ k, 0 < P k k :=
    TfPwaV.C09.diag_inv_pos H P (fun x hx => by simpa [bil] using hpd x hx) hpinv
  have hf := (C09b.force_pos_def_pd_unchanged H hpd (O.eig (mat H)) hne heig (mat P) (O.rebuild (mat H))).1
  refine ⟨?_, hpos⟩
  have hinv : (if fp = true then forcePosDef (O.eig (mat H)) (O.pinv (mat H)) (O.rebuild (mat H)) else O.pinv (mat H))
      = mat P := by
    rw [hP, hf]; split_ifs <;> rfl
  simp only [entryCorrect, hesseCorrect, List.foldl_nil, hH, hinv]
  rw [diagOf_ofFn, hesseError_ofFn]
  congr 2; funext k
  rw [abs_of_pos (hpos k)]

/-- the hypotheses of the two theorems above are satisfiable together: one free variable, Hessian `2` everywhere -/
example : ∃ (O : Oracle) (H V : Fin 1 → Fin 1 → ℝ),
    (∀ x : Fin 1 → ℝ, x ≠ 0 → 0 < bil H x x) ∧ O.hess (setParams [(0, 1)] [3]) = (mat H)
    ∧ O.inv (mat H) = (mat V) ∧ O.pinv (mat H) = (mat V)
    ∧ (∀ i k, ∑ j, H i j * V j k = if i = k then 1 else 0) ∧ O.eig (mat H) ≠ []
    ∧ ∀ y ∈ O.eig (mat H), ∃ v : Fin 1 → ℝ, v ≠ 0 ∧ ∀ i, ∑ j, H i j * v j = y * v i := by
  refine ⟨⟨fun _ => 0, fun _ => [], fun _ => [[2]], fun _ => [[1 / 2]], fun _ => [[1 / 2]], fun _ => [2], fun M _ => M⟩,
    fun _ _ => 2, fun _ _ => 1 / 2, ?_, by simp, by simp, by simp, ?_, by simp, ?_⟩
  · intro x hx
    have h0 : x 0 ≠ 0 := fun h => hx (funext fun i => by rw [Fin.eq_zero i]; exact h)
    have : 0 < x 0 * x 0 := mul_self_pos.mpr h0
    simp [bil]; nlinarith
  · intro i k
    have hi := Fin.eq_zero i
    have hk := Fin.eq_zero k
    subst hi hk
    simp
  · intro y hy
    have : y = 2 := by simpa using hy
    subst this
    refine ⟨fun _ => 1, fun h => ?_, fun i => by simp⟩
    have := congrFun h 0
    simp at this

example : ∃ (H : Fin 1 → Fin 1 → ℝ), (∀ x : Fin 1 → ℝ, x ≠ 0 → 0 < bil H x x) := by
  refine ⟨fun _ _ => 2, fun x hx => ?_⟩
  have h0 : x 0 ≠ 0 := fun h => hx (funext fun i => by rw [Fin.eq_zero i]; exact h)
  have : 0 < x 0 * x 0 := mul_self_pos.mpr h0
  simp [bil]; nlinarith

/-! ## `num_hess_inv_3point` -/

/-- `three_point_is_central_second_difference`: entry `(i, j)` of the matrix that `num_hess_inv_3point` inverts is
`centralDiff` (the `(f(x+ε) − f(x−ε))/2/ε` of C09c) of component `j` of `f_g` as a function of coordinate `i`. -/
theorem three_point_is_central_second_difference (fg : List ℝ → List ℝ) (eps : ℝ) (x0 : List ℝ) (i j : Nat)
    (hi : i < x0.length) (hlen : ∀ x, (fg x).length = x0.length) :
    (((threePointHess fg eps x0).2.getD i []).getD j 0)
      = centralDiff (fun t => (fg (x0.set i t)).getD j 0) (x0.getD i 0) eps
    ∧ (threePointHess fg eps x0).1 = x0 := by
  rw [threePointHess_eq]
  refine ⟨?_, rfl⟩
  have ha := hlen (x0.set i (x0.getD i 0 + eps))
  have hb := hlen (x0.set i (x0.getD i 0 - eps))
  simp only []
  rw [getD_map_range _ _ _ _ hi, getD_zipWith_cd _ _ _ _ (by rw [ha, hb])]
  rfl

/-- exact on quadratic likelihoods, explicit remainder on quartic ones: if component `j` of the (transformed)
gradient is a cubic `c₀ + c₁ t + c₂ t² + c₃ t³` in coordinate `i`, the entry is its derivative at the base point
plus `c₃ ε²` (`c₂ = c₃ = 0`: the gradient of a quadratic likelihood, the entry IS the Hessian entry `c₁`). -/
theorem three_point_entry_on_cubic_gradient (fg : List ℝ → List ℝ) (eps : ℝ) (x0 : List ℝ) (i j : Nat)
    (hi : i < x0.length) (hlen : ∀ x, (fg x).length = x0.length) (heps : eps ≠ 0)
    (c0 c1 c2 c3 : ℝ)
    (hg : ∀ t, (fg (x0.set i t)).getD j 0 = c0 + c1 * t + c2 * t * t + c3 * t * t * t) :
    ((threePointHess fg eps x0).2.getD i []).getD j 0
      = (c1 + 2 * c2 * x0.getD i 0 + 3 * c3 * x0.getD i 0 * x0.getD i 0) + c3 * eps ^ 2 := by
  rw [(three_point_is_central_second_difference fg eps x0 i j hi hlen).1, funext hg]
  exact C09c.centralDiff_cubic c0 c1 c2 c3 _ eps heps

example : ∃ (fg : List ℝ → List ℝ) (x0 : List ℝ), (∀ x, (fg x).length = x0.length) ∧
    ∀ t, (fg (x0.set 0 t)).getD 0 0 = 0 + 2 * t + 0 * t * t + 0 * t * t * t :=
  ⟨fun x => [2 * x.getD 0 0], [1], fun _ => rfl, fun t => by simp⟩

/-- remainder bound for every differentiable gradient component whose derivative `h` (the Hessian entry as a
function of the coordinate) is `L`-Lipschitz on `[x−ε, x+ε]`: the entry is within `L ε` of `h` at the base point. -/
theorem three_point_remainder (fg : List ℝ → List ℝ) (eps : ℝ) (x0 : List ℝ) (i j : Nat)
    (hi : i < x0.length) (hlen : ∀ x, (fg x).length = x0.length) (heps : 0 < eps)
    (h : ℝ → ℝ) (L : ℝ)
    (hd : ∀ z, x0.getD i 0 - eps ≤ z → z ≤ x0.getD i 0 + eps →
      HasDerivAt (fun t => (fg (x0.set i t)).getD j 0) (h z) z)
    (hL : ∀ z, x0.getD i 0 - eps ≤ z → z ≤ x0.getD i 0 + eps → |h z - h (x0.getD i 0)| ≤ L * |z - x0.getD i 0|) :
    |((threePointHess fg eps x0).2.getD i []).getD j 0 - h (x0.getD i 0)| ≤ L * eps := by
  rw [(three_point_is_central_second_difference fg eps x0 i j hi hlen).1]
  obtain ⟨τ, h0, h1, he⟩ := C09c.centralDiff_mean_value _ h (x0.getD i 0) eps heps hd
  rw [he]
  set x := x0.getD i 0
  have b1 := hL (x + τ) (by linarith) (by linarith)
  have b2 := hL (x - τ) (by linarith) (by linarith)
  have e1 : |x + τ - x| = τ := by rw [add_sub_cancel_left, abs_of_pos h0]
  have e2 : |x - τ - x| = τ := by rw [show x - τ - x = -τ by ring, abs_neg, abs_of_pos h0]
  rw [e1] at b1; rw [e2] at b2
  have hL0 : 0 ≤ L := by
    by_contra hneg
    have : L * τ < 0 := mul_neg_of_neg_of_pos (not_le.mp hneg) h0
    linarith [abs_nonneg (h (x + τ) - h x)]
  have : (h (x + τ) + h (x - τ)) / 2 - h x = (h (x + τ) - h x) / 2 + (h (x - τ) - h x) / 2 := by ring
  rw [this]
  calc |(h (x + τ) - h x) / 2 + (h (x - τ) - h x) / 2|
      ≤ |(h (x + τ) - h x) / 2| + |(h (x - τ) - h x) / 2| := abs_add_le _ _
    _ = |h (x + τ) - h x| / 2 + |h (x - τ) - h x| / 2 := by rw [abs_div, abs_div, abs_two]
    _ ≤ L * τ := by linarith
    _ ≤ L * eps := by nlinarith

example : ∃ (fg : List ℝ → List ℝ) (x0 : List ℝ) (h : ℝ → ℝ) (L eps : ℝ), 0 < eps ∧ (∀ x, (fg x).length = x0.length) ∧
    (∀ z, x0.getD 0 0 - eps ≤ z → z ≤ x0.getD 0 0 + eps → HasDerivAt (fun t => (fg (x0.set 0 t)).getD 0 0) (h z) z) ∧
    (∀ z, x0.getD 0 0 - eps ≤ z → z ≤ x0.getD 0 0 + eps → |h z - h (x0.getD 0 0)| ≤ L * |z - x0.getD 0 0|) := by
  refine ⟨fun x => [2 * x.getD 0 0], [1], fun _ => 2, 0, 1, one_pos, fun _ => rfl, fun z _ _ => ?_, fun z _ _ => by simp⟩
  have : (fun t : ℝ => ([2 * ([(1 : ℝ)].set 0 t).getD 0 0] : List ℝ).getD 0 0) = fun t => 2 * t := by
    funext t; simp
  rw [this]
  simpa using (hasDerivAt_id' z).const_mul (2 : ℝ)

/-- `num_hess_inv_3point` as a closed expression: the matrix handed to `numpy.linalg.inv` is the central-difference
matrix of `f_g` AROUND THE FIT-SPACE IMAGE OF THE REQUESTED POINT (`x0` is read after `fcn(params)`), with every
gradient evaluated in a state whose non-trainable variables are those of `set_all(params)(state)`; `dy/dx` of the
final bound mapping is taken at the same point. -/
theorem three_point_at_requested_point (O : Oracle) (B : List Bnd) (tr : List Nat) (eps : ℝ)
    (p : List (Nat × ℝ)) (st : List ℝ) :
    let st1 := setParams p st
    let xReq := readTrX B tr st1
    (entry3pt false O B tr eps p st).1.2
      = transErrorMatrix (dydxAt B xReq)
          (O.inv ((List.range xReq.length).map fun i =>
            List.zipWith (fun a b => (a - b) / 2 / eps) (fgT O B tr st1 (xReq.set i (xReq.getD i 0 + eps)))
              (fgT O B tr st1 (xReq.set i (xReq.getD i 0 - eps))))) := by
  intro st1 xReq
  simp only [entry3pt, Bool.false_eq_true, if_false, threePointHess_eq]
  rfl

/-- `bound_mapping`: the errors `method="3-point"` reports are `|dy/dx| · sqrt|V_x,kk|` where `V_x` is what
`numpy.linalg.inv` returns for the fit-space matrix and `dy/dx` is taken at the fit-space image of the REQUESTED
point `set_all(params)(state)` (the loop puts `x0` back); the error matrix is `dy/dx V_x dy/dx`. -/
theorem bound_mapping {n : Nat} (O : Oracle) (B : List Bnd) (tr : List Nat) (eps : ℝ) (p : List (Nat × ℝ))
    (st : List ℝ) (d : Fin n → ℝ) (Vx : Fin n → Fin n → ℝ)
    (hd : dydxAt B (readTrX B tr (setParams p st)) = List.ofFn d)
    (hV : O.inv (threePointHess (fgT O B tr (setParams p st)) eps (readTrX B tr (setParams p st))).2 = mat Vx) :
    (entry3pt false O B tr eps p st).1
      = (List.ofFn fun k => |d k| * Real.sqrt |Vx k k|, List.ofFn fun i => List.ofFn fun j => d i * Vx i j * d j) := by
  have h1 : (threePointHess (fgT O B tr (setParams p st)) eps (readTrX B tr (setParams p st))).1
      = readTrX B tr (setParams p st) := by rw [threePointHess_eq]
  simp only [entry3pt, Bool.false_eq_true, if_false, h1, hd, hV, transErrorMatrix_ofFn]
  rw [diagOf_ofFn, hesseError_ofFn]
  congr 2; funext k
  rw [show d k * Vx k k * d k = (d k * d k) * Vx k k by ring, abs_mul, Real.sqrt_mul (abs_nonneg _),
    abs_mul_self, Real.sqrt_mul_self_eq_abs]

example : dydxAt [(⟨id, id, fun _ => 1⟩ : Bnd)] (readTrX [(⟨id, id, fun _ => 1⟩ : Bnd)] [0] (setParams [(0, 1)] [3]))
    = List.ofFn (fun _ : Fin 1 => (1 : ℝ)) := by
  simp [dydxAt, readTrX, readTr, setParams]

/-! ## The text with `x0` read before `fcn(params)` (seeded change C09-04) -/

/-- witness likelihood `z³/3` of one free variable: gradient `z²`, Hessian `2z`; `inv` of a 1×1 matrix -/
noncomputable def wO : Oracle :=
  ⟨fun z => z.getD 0 0 ^ 3 / 3, fun z => [z.getD 0 0 * z.getD 0 0], fun z => [[2 * z.getD 0 0]],
    fun M => [[1 / (M.getD 0 []).getD 0 0]], fun M => [[1 / (M.getD 0 []).getD 0 0]], fun _ => [], fun M _ => M⟩
def idB : Bnd := ⟨fun x => x, fun y => y, fun _ => 1⟩

/-- model holds `z = 3`, errors are requested at `params = {z: 1}`: the Hessian at the requested point is `2`
(`V = 1/2`) and the code's statement order returns exactly that; the text that reads `x0` before `fcn(params)`
returns `1/6`, the inverse Hessian AT THE ENTRY STATE. -/
theorem three_point_early_violates :
    (entry3pt false wO [idB] [0] 1 [(0, 1)] [3]).1.2 = [[1 / 2]]
    ∧ (entry3pt true wO [idB] [0] 1 [(0, 1)] [3]).1.2 = [[1 / 6]]
    ∧ wO.hess (setParams [(0, 1)] [3]) = [[2]] ∧ wO.hess [3] = [[6]] := by
  refine ⟨?_, ?_, ?_, ?_⟩ <;>
    norm_num [entry3pt, threePointHess, tpStep, fgT, wO, idB, readTrX, readTr, setParams, writeTr, dydxAt,
      transErrorMatrix, List.range_succ, List.range_zero]

/-! ## What the call leaves in the VarsManager -/

/-- `state_after`: `"3-point"` puts every stored value back (`fcn(old_params)`); `"hesse"` and `"correct"` with the
default `correct_params` leave the model AT `params` (`nll_grad_hessian(params)` installs them, nothing restores:
C17's record `paramsError`); `using_cached` with a stored matrix touches nothing (and asks no oracle). -/
theorem state_after (O : Oracle) (B : List Bnd) (tr : List Nat) (m : MethodArg) (fp : Bool)
    (params : ParamsArg) (st : List ℝ) (V : List (List ℝ)) (cp : Option (List Nat)) :
    (∃ r, getParamsError O B tr false none m fp none params st = some r ∧
      r.2 = match resolveMethod m false with
            | .threePoint => st
            | _ => setParams params.unwrap st)
    ∧ getParamsError O B tr true (some V) m fp cp params st = some ((hesseError (diagOf V), V), st)
    ∧ getParamsError O B tr true none m fp cp params st = none := by
  refine ⟨?_, rfl, rfl⟩
  simp only [getParamsError, Option.isSome]
  generalize resolveMethod m false = r
  cases r <;> simp [entry3pt, entryCorrect, entryHesse, hcLastPoint]

/-- with `correct_params` given, `"correct"` leaves the trainable variables at the last displaced point of the
finite-difference loop; the slots that are not trainable keep the values of `params`. -/
theorem state_after_correct_params (O : Oracle) (tr : List Nat) (fp : Bool) (idxs : List Nat)
    (p : List (Nat × ℝ)) (st : List ℝ) :
    (entryCorrect O tr fp idxs p st).2 = setParams p st
    ∨ ∃ x, hcLastPoint 1e-3 idxs (readTr tr (setParams p st)) = some x
        ∧ (entryCorrect O tr fp idxs p st).2 = writeTr tr x (setParams p st) := by
  simp only [entryCorrect]
  cases h : hcLastPoint 1e-3 idxs (readTr tr (setParams p st)) with
  | none => left; rfl
  | some x => right; exact ⟨x, rfl, rfl⟩

/-! ## The error dictionary and the correlation matrix -/

/-- `dict(zip(trainable_vars, hesse_error))` (what `FitResult.set_error` copies and `save_as` writes): the keys are
the trainable variables in order, entry `k` is the error of trainable variable `k`. -/
theorem error_dict_keys (tr : List Nat) (errs : List ℝ) (h : errs.length = tr.length) :
    (errDict tr errs).map (·.1) = tr ∧ (errDict tr errs).map (·.2) = errs := by
  unfold errDict
  exact ⟨List.map_fst_zip (by omega), List.map_snd_zip (by omega)⟩

example : ([0.1, 0.2] : List ℝ).length = [3, 5].length := rfl

/-- `corr_coef_matrix`: entry `(i, j)` is `V_ij / (σ_i σ_j)` with `σ = sqrt|V_kk|` (written as the code computes it,
`(1/σ_i) · V_ij · (1/σ_j)`); for a positive diagonal the diagonal of the result is 1. -/
theorem corr_coef_entries {n : Nat} (V : Fin n → Fin n → ℝ) :
    corrCoef (mat V) = List.ofFn fun i => List.ofFn fun j =>
      1 / Real.sqrt |V i i| * V i j * (1 / Real.sqrt |V j j|) := by
  unfold corrCoef
  simp only [List.length_ofFn]
  rw [diagOf_ofFn, hesseError_ofFn, List.map_ofFn, transpose_ofFn]
  have hD : diagMat (List.ofFn ((fun e => 1 / e) ∘ fun i => Real.sqrt |V i i|))
      = List.ofFn fun i : Fin n => List.ofFn fun j : Fin n => if i = j then 1 / Real.sqrt |V i i| else 0 := by
    rw [diagMat_ofFn]; rfl
  rw [hD, transpose_ofFn, matMulT_ofFn, matMulT_ofFn]
  congr 1; funext i; congr 1; funext j
  simp [Finset.sum_ite_eq, eq_comm]

theorem corr_coef_diag_one (v : ℝ) (hv : 0 < v) : 1 / Real.sqrt |v| * v * (1 / Real.sqrt |v|) = 1 := by
  rw [abs_of_pos hv]
  have hs : Real.sqrt v ≠ 0 := (Real.sqrt_pos.mpr hv).ne'
  field_simp
  exact (Real.sq_sqrt hv.le).symm

end TfPwaV.C09d
