import TfPwaV.Proofs.FitImprove
/-!
# C08b — the library's own minimiser: `fit_scipy(method="test")` → `tf_pwa.fit_improve.minimize` → `fmin_bfgs_f`

Theorems about `TfPwaV.FitImproveR` (the ℝ instance of `templates/FitImprove.lean.in`; the Float instance of the same text
is executed against the real code in every run).  Quantifiers: EVERY dimension, EVERY objective `fg` (value and gradient
as functions of the point — nothing is assumed about them, not even that the second is the gradient of the first), EVERY
line-search oracle `ls` (raised / no step / a step), EVERY `np.linalg.inv` oracle, EVERY callback, `gtol`, `M`, `maxiter`,
start point.  `Contract` is what `line_search_wolfe2` promises about an answer that carries a step: `new_fval` and `gfkp1`
are the value and the gradient at `xk + alpha pk`.  The harness checks `Contract` (and the Armijo inequalities used by
`nonmonotone_bound`) on every answer of the real line search it records.

`e.best = false`: the unchanged tree.  `e.best = true`: after `fix_fit_improve_best_point.diff`.
What does NOT hold on the unchanged tree, with kernel-checked witnesses: `s.fun ≤ f(x0)` (`fun_above_start_witness`),
`Contract` for the "not found" exit of `line_search_nonmonote` (`nonmonote_notfound_stale_witness`).
-/
open TfPwaV.ScalarR TfPwaV.FitImproveR

namespace TfPwaV.C08b

/-! ## the result describes one point -/

/-- **`result_point_consistent`**: on every exit (gtol, `re_search > 2`, maxiter; with or without the best-point patch)
`s.fun = f(s.x)` and `s.jac = ∇f(s.x)`, for every line search that keeps its contract. -/
theorem result_point_consistent (e : Env) (x0 : Vec) (mi : Option Nat) (r : Res) (hc : Contract e)
    (h : fminBfgs e x0 mi = .ok r) : r.fn = (e.fg r.x).1 ∧ r.jac = (e.fg r.x).2 := by
  obtain ⟨H, o, _, hl, rfl⟩ := fmin_ok h
  have hcons : Cons e o.s :=
    loop_inv (Cons e) (fun s => updBest_cons) (fun k s s' hp hs => succ_cons hc hp hs) _ _ _ _ (init_cons e x0 H) hl
  cases hub : useBest e o.s
  · simp only [finish, hub, Bool.false_eq_true, if_false]
    exact ⟨hcons.1, hcons.2.1⟩
  · simp only [finish, hub, if_true]
    exact ⟨hcons.2.2.1, hcons.2.2.2⟩

/-- the contract is satisfiable by a line search that does return steps (here: always the full step) -/
example (fg : Vec → K × Vec) (inv : Nat → Mat → Option Mat) (cb : Vec → Bool) (b : Bool) :
    Contract { fg := fg, ls := fun _ i => .ans (some 1) (fg (vadd i.xk (smul 1 i.pk))).1 0 (fg (vadd i.xk (smul 1 i.pk))).2 1,
               inv := inv, cb := cb, gtol := 0, M := 2, best := b } := by
  intro k inp a nf ofv g n h
  simp only [LSAns.ans.injEq, Option.some.injEq] at h
  obtain ⟨h1, h2, _, h4, _⟩ := h
  subst h1 h2 h4
  exact ⟨rfl, rfl⟩

/-! ## iterations and exits -/

/-- **`iteration_bound`**: at most `maxiter` loop bodies run (`bodies`, ghost counter), the reported `nit` is the INDEX of
the last body (`≤ maxiter - 1`, so one less than the count after a maxiter or `re_search` exit), `status ∈ {0,1,2}`,
`success ⇔ status = 0`, and `success` implies `‖jac‖∞ ≤ gtol` at the returned point. -/
theorem iteration_bound (e : Env) (x0 : Vec) (mi : Option Nat) (r : Res) (h : fminBfgs e x0 mi = .ok r) :
    r.nit ≤ mi.getD (200 * x0.length) - 1 ∧ r.bodies ≤ mi.getD (200 * x0.length) ∧
    (r.status = 0 ∨ r.status = 1 ∨ r.status = 2) ∧ (r.success = true ↔ r.status = 0) ∧
    (r.success = true → normInfLe r.jac e.gtol = true) := by
  obtain ⟨H, o, _, hl, rfl⟩ := fmin_ok h
  obtain ⟨h1, h2, _, h4⟩ := loop_exits _ _ _ _ hl
  have hst : (finish e o).status = if (useBest e o.s && o.flag == 0) = true then 1 else o.flag := rfl
  have hsu : (finish e o).success = ((finish e o).status == 0) := rfl
  refine ⟨by simpa [finish] using h1, by simpa [finish] using h2, ?_, ?_, ?_⟩
  · rw [hst]; split
    · exact Or.inr (Or.inl rfl)
    · rcases h4 with ⟨a, _⟩ | ⟨a, _⟩ | ⟨a, _⟩ <;> simp [a]
  · rw [hsu]; simp
  · intro hs
    rw [hsu] at hs
    have h0 : (finish e o).status = 0 := by simpa using hs
    rw [hst] at h0
    split at h0
    · simp at h0
    · rename_i hnb
      rcases h4 with ⟨a, _⟩ | ⟨a, _, _, hg, _⟩ | ⟨a, _⟩
      · omega
      · have hub : useBest e o.s = false := by
          cases hu : useBest e o.s
          · rfl
          · simp [hu, a] at hnb
        simp only [finish, hub, Bool.false_eq_true, if_false]
        exact hg
      · omega

/-- **`exit_bookkeeping`** (unchanged tree): which exit was taken is what `status` says, and `nit` relates to the number of
bodies run as the code's `k` does: maxiter exit → `nit = maxiter - 1` after `maxiter` bodies (`nit = 0` for `maxiter = 0`);
gtol exit → `nit` bodies ran before the test succeeded; `re_search > 2` exit → `nit + 1` bodies. -/
theorem exit_bookkeeping (e : Env) (x0 : Vec) (mi : Option Nat) (r : Res) (hb : e.best = false)
    (h : fminBfgs e x0 mi = .ok r) :
    (r.status = 2 → r.nit = mi.getD (200 * x0.length) - 1 ∧ r.bodies = mi.getD (200 * x0.length)) ∧
    (r.status = 0 → r.bodies = r.nit ∧ r.nit < mi.getD (200 * x0.length)) ∧
    (r.status = 1 → r.bodies = r.nit + 1 ∧ r.nit < mi.getD (200 * x0.length)) := by
  obtain ⟨H, o, _, hl, rfl⟩ := fmin_ok h
  obtain ⟨_, _, _, h4⟩ := loop_exits _ _ _ _ hl
  have hub : useBest e o.s = false := by simp [useBest, hb]
  have hst : (finish e o).status = o.flag := by simp [finish, hub]
  have hn : (finish e o).nit = o.nit := rfl
  have hbd : (finish e o).bodies = o.bodies := rfl
  rw [hst, hn, hbd]
  rcases h4 with ⟨a, b, c⟩ | ⟨a, b, c, _⟩ | ⟨a, b, c, _⟩
  · exact ⟨fun _ => ⟨by simpa using b, by simpa using c⟩, fun h0 => by omega, fun h0 => by omega⟩
  · exact ⟨fun h0 => by omega, fun _ => ⟨b, by simpa using c⟩, fun h0 => by omega⟩
  · exact ⟨fun h0 => by omega, fun h0 => by omega, fun _ => ⟨b, by simpa using c⟩⟩

/-! ## the non-monotone acceptance -/

/-- **`window_invariant`**: at the top of every loop body the window `f_s` is non-empty, holds at most `M` values, the
current `fk` is one of them, hence `fk ≤ f_s.get_max()` — the reference value of the non-monotone test is never below the
current value. -/
theorem window_invariant (e : Env) (hM : 1 ≤ e.M) (x0 : Vec) (H : Mat) {k : Nat} {s : St}
    (h : Reach e (init e x0 H) k s) : s.fk ∈ s.seq ∧ s.seq.length ≤ e.M ∧ s.fk ≤ lmax s.seq := by
  have hp : s.fk ∈ s.seq ∧ s.seq.length ≤ e.M := by
    refine reach_inv (fun s => s.fk ∈ s.seq ∧ s.seq.length ≤ e.M) ?_ ?_ ?_ h
    · intro s hs; rw [updBest_fk, updBest_seq]; exact hs
    · intro k s s' hs hsucc
      cases hsucc with
      | fb oo n _ h' => subst h'; exact ⟨seqAdd_last hM _ _, seqAdd_length hM _ hs.2⟩
      | acc a nf ofv g n _ _ h' => subst h'; exact ⟨seqAdd_last hM _ _, seqAdd_length hM _ hs.2⟩
    · exact ⟨seqAdd_last hM _ _, seqAdd_length hM _ (Nat.zero_le _)⟩
  exact ⟨hp.1, hp.2, le_lmax hp.1⟩

/-- **`nonmonotone_bound`**: what the code guarantees for an accepted step.  If the line search answers iteration `k` with a
step `alpha` and a value that passes EITHER test the search applies — the Wolfe phase's Armijo test against `old_fval = fk`,
or the fallback phase's test against `f_s.get_max()` — then the accepted value is at most the maximum of the last `≤ M`
values plus the Armijo term `c1·alpha·⟨gk, pk⟩`; it becomes the new `fk`.  Nothing bounds it by `fk` itself, and nothing
at all is guaranteed after `xk + dki` steps (line search raised / no step) or for the "not found" exit. -/
theorem nonmonotone_bound (e : Env) (hM : 1 ≤ e.M) (x0 : Vec) (H : Mat) {k : Nat} {s s' : St}
    (h : Reach e (init e x0 H) k s) (hb : body e k s = .cont s') (a nf ofv c1 : K) (g : Vec) (n : Nat)
    (hl : e.ls k (lsIn s) = .ans (some a) nf ofv g n)
    (harm : nf ≤ (lsIn s).oldF + c1 * a * dot (lsIn s).gfk (lsIn s).pk ∨
            nf < (lsIn s).fmax + c1 * a * dot (lsIn s).gfk (lsIn s).pk) :
    s'.fk = nf ∧ s'.fk ≤ lmax s.seq + c1 * a * dot s.gk (lsIn s).pk := by
  obtain ⟨hmem, _, hle⟩ := window_invariant e hM x0 H h
  have hfk : s'.fk = nf := by
    have hs := body_cont hb
    cases hs with
    | fb oo m hr h' =>
      rw [updBest_seq, lsIn_updBest] at hr
      rcases hr with hr | ⟨m', hr⟩ | ⟨_, _, _, _, hr⟩
      · have : s.seq ≠ [] := List.ne_nil_of_mem hmem
        cases hq : s.seq with
        | nil => exact absurd hq this
        | cons _ _ => simp [hq] at hr
      · rw [hl] at hr; simp at hr
      · rw [hl] at hr; simp at hr
    | acc a' nf' ofv' g' n' _ hl' h' =>
      rw [lsIn_updBest, hl] at hl'
      simp only [LSAns.ans.injEq, Option.some.injEq] at hl'
      subst h'
      exact hl'.2.1.symm
  refine ⟨hfk, ?_⟩
  rw [hfk]
  have e1 : (lsIn s).oldF = s.fk := rfl
  have e2 : (lsIn s).fmax = lmax s.seq := rfl
  have e3 : (lsIn s).gfk = s.gk := rfl
  rw [e1, e2, e3] at harm
  rcases harm with h1 | h1
  · linarith
  · exact le_of_lt h1

/-- **`fun_le_start_of_armijo`**: IF every line search returns a step whose value is not above the window maximum (which
the two tests give when `c1·alpha·⟨gk, pk⟩ ≤ 0`, i.e. for descent directions) — no exception, no `None`, no "not found" —
THEN no value ever stored exceeds `f(x0)` and `s.fun ≤ f(x0)`. -/
theorem fun_le_start_of_armijo (e : Env) (hM : 1 ≤ e.M) (x0 : Vec) (mi : Option Nat) (r : Res)
    (hmono : ∀ k inp, ∃ a nf ofv g n, e.ls k inp = .ans (some a) nf ofv g n ∧ nf ≤ inp.fmax)
    (h : fminBfgs e x0 mi = .ok r) : r.fn ≤ (e.fg x0).1 := by
  obtain ⟨H, o, _, hl, rfl⟩ := fmin_ok h
  have hp : (∀ v ∈ o.s.seq, v ≤ (e.fg x0).1) ∧ o.s.fk ∈ o.s.seq ∧ o.s.bf ≤ (e.fg x0).1 := by
    refine loop_inv (fun s => (∀ v ∈ s.seq, v ≤ (e.fg x0).1) ∧ s.fk ∈ s.seq ∧ s.bf ≤ (e.fg x0).1) ?_ ?_ _ _ _ _ ?_ hl
    · intro s hs
      refine ⟨by rw [updBest_seq]; exact hs.1, by rw [updBest_seq, updBest_fk]; exact hs.2.1, ?_⟩
      unfold updBest; split
      · exact hs.1 _ hs.2.1
      · exact hs.2.2
    · intro k s s' hs hsucc
      cases hsucc with
      | fb oo n hr h' =>
        exfalso
        obtain ⟨a, nf, ofv, g, m, hq, _⟩ := hmono k (lsIn s)
        rcases hr with hr | ⟨m', hr⟩ | ⟨_, _, _, _, hr⟩
        · cases hq2 : s.seq with
          | nil => rw [hq2] at hs; simp at hs
          | cons _ _ => simp [hq2] at hr
        · rw [hq] at hr; simp at hr
        · rw [hq] at hr; simp at hr
      | acc a nf ofv g n _ hl' h' =>
        subst h'
        obtain ⟨a2, nf2, ofv2, g2, m2, hq, hle⟩ := hmono k (lsIn s)
        rw [hl'] at hq
        simp only [LSAns.ans.injEq, Option.some.injEq] at hq
        have hnf : nf ≤ (e.fg x0).1 := by
          rw [hq.2.1]
          refine le_trans hle ?_
          exact hs.1 _ (lmax_mem (List.ne_nil_of_mem hs.2.1))
        refine ⟨?_, seqAdd_last hM _ _, hs.2.2⟩
        intro v hv
        rcases mem_seqAdd hv with hv | hv
        · exact hs.1 _ hv
        · rw [hv]; exact hnf
    · refine ⟨?_, seqAdd_last hM _ _, le_refl _⟩
      intro v hv
      rcases mem_seqAdd hv with hv | hv
      · simp at hv
      · rw [hv]
  cases hub : useBest e o.s
  · simp only [finish, hub, Bool.false_eq_true, if_false]
    exact hp.1 _ hp.2.1
  · simp only [finish, hub, if_true]
    exact hp.2.2

/-- the hypothesis of `fun_le_start_of_armijo` is satisfiable: a line search that returns the zero step -/
example : ∀ k (inp : LSIn), ∃ a nf ofv g n,
    (fun (_ : Nat) (i : LSIn) => LSAns.ans (some 0) i.fmax 0 i.gfk 1) k inp = .ans (some a) nf ofv g n ∧ nf ≤ inp.fmax :=
  fun _ inp => ⟨0, inp.fmax, 0, inp.gfk, 1, rfl, le_refl _⟩

/-- the objective of the witness: `f(x) = 2·⟨x, x⟩`, `∇f = 4x` -/
def witnessFg : Vec → K × Vec := fun x => (2 * dot x x, smul 4 x)

/-- the unchanged tree, one iteration, a line search that raises -/
def witnessEnv (best : Bool) : Env :=
  { fg := witnessFg, ls := fun _ _ => .exc 0, inv := fun _ m => some m, cb := fun _ => false, gtol := 0, M := 2, best := best }

/-- **`fun_above_start_witness`** (unchanged tree): `s.fun ≤ f(x0)` does NOT follow.  `f(x) = 2x²`, `x0 = 1` (`f = 2`), the
line search of the first iteration fails: the code takes the full step `x0 - H·g = -3` without looking at the value and
returns `s.fun = 18 > 2` with `status = 2` after `maxiter = 1`.  (The harness replays exactly this run on the real
`fmin_bfgs_f` and an analogous one on `fit_scipy(method="test")`.) -/
theorem fun_above_start_witness :
    (fminBfgs (witnessEnv false) [1] (some 1)).map (fun r => (r.fn, r.x, r.status)) = .ok (18, [-3], 2) ∧
    (witnessFg [1]).1 = 2 := by
  constructor <;>
    simp [fminBfgs, Except.map, finish, useBest, witnessEnv, witnessFg, loop, body, updBest, init, fallback, fbSt, lsIn, normInfLe,
      kabs, seqAdd, eye, matVec, vneg, vadd, smul, dot, dotAux, List.range, List.range.loop] <;> norm_num

/-- **`fun_le_start_fixed`** (after `fix_fit_improve_best_point.diff`): for EVERY objective, line search (contract or not),
inverse oracle and exit, the returned value is not above the value at the start point. -/
theorem fun_le_start_fixed (e : Env) (hb : e.best = true) (x0 : Vec) (mi : Option Nat) (r : Res)
    (h : fminBfgs e x0 mi = .ok r) : r.fn ≤ (e.fg x0).1 := by
  obtain ⟨H, o, _, hl, rfl⟩ := fmin_ok h
  have hp : o.s.bf ≤ (e.fg x0).1 := by
    refine loop_inv (fun s => s.bf ≤ (e.fg x0).1) ?_ ?_ _ _ _ _ (le_refl _) hl
    · intro s hs
      unfold updBest; split
      · rename_i hc
        simp only [hb, Bool.true_and, decide_eq_true_eq] at hc
        exact le_of_lt (lt_of_lt_of_le hc hs)
      · exact hs
    · intro k s s' hs hsucc
      cases hsucc with
      | fb oo n _ h' => subst h'; exact hs
      | acc a nf ofv g n _ _ h' => subst h'; exact hs
  cases hub : useBest e o.s
  · simp only [finish, hub, Bool.false_eq_true, if_false]
    have : o.s.fk ≤ o.s.bf := by simpa [useBest, hb] using hub
    exact le_trans this hp
  · simp only [finish, hub, if_true]
    exact hp

/-- the same run as the witness on the patched tree returns the start point -/
theorem fun_above_start_witness_fixed :
    (fminBfgs (witnessEnv true) [1] (some 1)).map (fun r => (r.fn, r.x, r.status)) = .ok (2, [1], 2) := by
  simp [fminBfgs, Except.map, finish, useBest, witnessEnv, witnessFg, loop, body, updBest, init, fallback, fbSt, lsIn, normInfLe,
      kabs, seqAdd, eye, matVec, vneg, vadd, smul, dot, dotAux, List.range, List.range.loop] <;> norm_num

/-! ## `Cached_FG`: the cache cannot hand out the value of another point -/

/-- **`cache_invariant`**: after ANY sequence of `fun` / `grad` / `__call__` calls the cache, if keyed on `x`, holds the value
of `x` and the gradient of `x` (raw, or with its NaN components patched by `__call__` at `x`). -/
theorem cache_invariant (raw : Raw) (sc : K) (c : Cache) (x : Vec) :
    CacheInv raw (cFun raw c x).2 ∧ CacheInv raw (cCall raw sc c x).2 ∧ (CacheInv raw c → CacheInv raw (cGrad raw c x).2) := by
  have hfun : ∀ c, CacheInv raw (cFun raw c x).2 := by
    intro c y hy
    simp only [cFun, Option.some.injEq] at hy
    subst hy
    exact ⟨rfl, Or.inl rfl⟩
  refine ⟨hfun c, ?_, ?_⟩
  · intro y hy
    have hy' : x = y := by
      have hx : (cCall raw sc c x).2.x = some x := rfl
      rw [hx] at hy; exact Option.some.inj hy
    subst hy'
    refine ⟨rfl, ?_⟩
    show (if hasNaN (raw x).2 then patch raw x (raw x).2 else (raw x).2) = (raw x).2 ∨
      (if hasNaN (raw x).2 then patch raw x (raw x).2 else (raw x).2) = patch raw x (raw x).2
    by_cases hN : hasNaN (raw x).2 = true
    · rw [if_pos hN]; exact Or.inr rfl
    · rw [if_neg hN]; exact Or.inl rfl
  · intro hinv
    have h2 : ∀ c1 : Cache, (if hasNaN c1.g then ((none : Option Vec), c1) else (some (unopt c1.g), c1)).2 = c1 := by
      intro c1; split <;> rfl
    unfold cGrad
    simp only [h2]
    split <;> split <;> first | exact hinv | exact hfun c

/-- **`call_is_function_of_point`**: what `__call__` returns depends on `x` alone, not on what was cached before. -/
theorem call_is_function_of_point (raw : Raw) (sc : K) (c : Cache) (x : Vec) : (cCall raw sc c x).1 = sem raw sc x := by
  simp only [cCall, cFun, sem]
  rfl

/-- **`cached_grad_is_grad_of_x`**: for every cache state that satisfies the invariant (every reachable one) and every point
whose gradient has no NaN component, `grad(x)` returns the gradient AT `x` — on a hit and on a miss. -/
theorem cached_grad_is_grad_of_x (raw : Raw) (c : Cache) (x : Vec) (hinv : CacheInv raw c)
    (hn : hasNaN (raw x).2 = false) : (cGrad raw c x).1 = some (unopt (raw x).2) := by
  unfold cGrad
  simp only
  cases hx : c.x with
  | none => simp [cFun, hn]
  | some cx =>
    simp only
    by_cases hv : veq x cx = true
    · have hxe := veq_eq hv
      subst hxe
      obtain ⟨_, hg⟩ := hinv x hx
      have hg' : c.g = (raw x).2 := by
        rcases hg with hg | hg
        · exact hg
        · rw [hg]; exact patchAux_noNaN raw x 0 _ hn
      simp [hv, hg', hn]
    · simp [hv, cFun, hn]

/-- the invariant holds for the fresh cache, so (by `cache_invariant`) for every reachable one -/
example (raw : Raw) : CacheInv raw Cache.init := fun _ h => by simp [Cache.init] at h

/-! ## `line_search_nonmonote` -/

/-- **`nonmonote_found`**: when the fallback search returns from inside its loop, the returned value and gradient are those
of `xk + alpha pk` (the contract holds) and the value passed the test against `old_fval` (the window maximum). -/
theorem nonmonote_found (f : Vec → K) (gr : Vec → Option Vec) (xk pk gfk : Vec) (oldF c1 : K) (rf : Bool) :
    ∀ (n : Nat) (al : K) (ph : Option K) (a : K) (p : Option K) (o : K) (g : Vec),
      nmLoop f gr xk pk gfk oldF c1 rf n al ph = .ret a p o g true →
      p = some (f (vadd xk (smul a pk))) ∧ gr (vadd xk (smul a pk)) = some g ∧
      f (vadd xk (smul a pk)) < oldF + c1 * a * dot gfk pk ∧ o = oldF := by
  intro n
  induction n with
  | zero =>
    intro al ph a p o g h
    simp only [nmLoop] at h
    split at h <;> simp at h
  | succ n ih =>
    intro al ph a p o g h
    simp only [nmLoop] at h
    split at h
    · rename_i hlt
      split at h
      · simp at h
      · rename_i g' hg
        simp only [NMOut.ret.injEq] at h
        obtain ⟨h1, h2, h3, h4, _⟩ := h
        subst h1 h3 h4
        exact ⟨h2.symm, hg, hlt, rfl⟩
    · exact ih _ _ _ _ _ _ h

/-- **`nonmonote_notfound_refreshed`** (patched tree): also the exit after `maxiter` failed tests returns the value and the
gradient of the returned step. -/
theorem nonmonote_notfound_refreshed (f : Vec → K) (gr : Vec → Option Vec) (xk pk gfk : Vec) (oldF c1 : K) :
    ∀ (n : Nat) (al : K) (ph : Option K) (a : K) (p : Option K) (o : K) (g : Vec) (fd : Bool),
      nmLoop f gr xk pk gfk oldF c1 true n al ph = .ret a p o g fd →
      p = some (f (vadd xk (smul a pk))) ∧ gr (vadd xk (smul a pk)) = some g := by
  intro n
  induction n with
  | zero =>
    intro al ph a p o g fd h
    simp only [nmLoop, if_true] at h
    split at h
    · simp at h
    · rename_i g' hg
      simp only [NMOut.ret.injEq] at h
      obtain ⟨h1, h2, _, h4, _⟩ := h
      subst h1 h4
      exact ⟨h2.symm, hg⟩
  | succ n ih =>
    intro al ph a p o g fd h
    simp only [nmLoop] at h
    split at h
    · split at h
      · simp at h
      · rename_i g' hg
        simp only [NMOut.ret.injEq] at h
        obtain ⟨h1, h2, _, h4, _⟩ := h
        subst h1 h4
        exact ⟨h2.symm, hg⟩
    · exact ih _ _ _ _ _ _ _ h

/-- **`nonmonote_notfound_stale_witness`** (unchanged tree): the "not found" exit returns the NEW `alpha = c1·alpha` with the
value of the PREVIOUS trial step.  `f(x) = x`, `xk = 0`, `pk = 1` (uphill), `c1 = 1/2`, one trial: returned `alpha = 1/2`,
`phi_star = 1`, but `f(xk + alpha pk) = 1/2` — `fmin_bfgs_f` then stores `fk = 1` for the point `1/2`. -/
theorem nonmonote_notfound_stale_witness :
    lineSearchNonmonote (fun x => x.headD 0) (fun _ => some [1]) [0] [1] [1] 0 (1 / 2) 1 false
      = .ret (1 / 2) (some 1) 0 [1] false ∧
    (fun (x : Vec) => x.headD 0) (vadd [0] (smul (1 / 2) [1])) = 1 / 2 := by
  constructor
  · simp [lineSearchNonmonote, nmLoop, pyMax1, dot, dotAux, vadd, smul]
    norm_num
  · simp [vadd, smul]

end TfPwaV.C08b
