import TfPwaV.Proofs.CgOrthoA
import TfPwaV.Proofs.CgOrthoB
import TfPwaV.Proofs.CgOrthoC
import TfPwaV.Proofs.CgOrthoD
import TfPwaV.Proofs.CgOrthoE
import TfPwaV.Proofs.CgOrthoF
import TfPwaV.Proofs.CgOrthoG
/-!
# C12 (Clebsch–Gordan clause) — exact orthonormality of the modelled coefficients

`Wigner.cgSq`/`cgRat` is Racah's closed form on doubled integers (integer and half-integer spins), compared entry by
entry with `cg_coef` (sympy path) and the bundled `cg_table.json` on every run.  With
`⟨j1 m1 j2 m2|J M⟩ = sqrt(jPart(J,M)·mPart(m1,m2))·cgRat`, the orthonormality relation
`Σ_{m1} ⟨j1 m1 j2 M-m1|J M⟩⟨j1 m1 j2 M-m1|J' M⟩ = δ_{JJ'}` is equivalent to the rational statements
`jPart(J,M)·Σ mPart·cgRat² = 1` and `Σ mPart·cgRat(J)·cgRat(J') = 0 (J ≠ J')` which `orthoCheck` evaluates exactly.
Together with the sign convention (compared on every run) this pins the Condon–Shortley values.
-/
namespace TfPwaV.C12
open TfPwaV.Wigner

/-- Exact orthonormality of the modelled Clebsch–Gordan coefficients for ALL spins `j1, j2 ≤ 4`
(doubled values 0..8, integer and half-integer), every total `J` and projection `M`. -/
theorem cg_orthonormal (j1 j2 : Nat) (h1 : j1 ≤ 8) (h2 : j2 ≤ 8) : orthoCheck j1 j2 = true := by
  have hA := ortho_block_A; have hB := ortho_block_B; have hC := ortho_block_C; have hD := ortho_block_D
  have hE := ortho_block_E; have hF := ortho_block_F; have hG := ortho_block_G
  simp only [List.all_eq_true, List.mem_range, List.mem_cons, List.mem_nil_iff, or_false] at hA hB hC hD hE hF hG
  rcases Nat.lt_or_ge j1 5 with a | a
  · rcases Nat.lt_or_ge j2 5 with b | b
    · exact hA j1 a j2 b
    · exact hB j1 a j2 (by omega)
  · have : j1 = 5 ∨ j1 = 6 ∨ j1 = 7 ∨ j1 = 8 := by omega
    rcases this with rfl | rfl | rfl | rfl
    · exact hC 5 rfl j2 (by omega)
    · exact hD 6 rfl j2 (by omega)
    · exact hE 7 rfl j2 (by omega)
    · rcases Nat.lt_or_ge j2 6 with b | b
      · exact hF 8 rfl j2 b
      · exact hG 8 rfl j2 (by omega)

end TfPwaV.C12
