import TfPwaV.Proofs.Factorise

/-!
# C05c — the factorised / cached strategies are algebraic identities of the direct multilinear amplitude

Model: `TfPwaV.Factorise` (`Model/Factorise.lean`), list algebra over any commutative ring `R` with a ring
endomorphism `conj` (complex conjugation; `id` for real data):

* `paramsVector`  = `build_params_vector` / `gls_combine` (iterated outer product, flattened row-major),
* `cachedAmp`     = `Σ_chains Σ_k pv_k · ang_k`  (`cached_amp`, `build_amp2s`, `CachedAmpAmplitudeModel.pdf`),
* `factorAmp`     = successive contraction of the leading axis (`FactorAmplitudeModel.get_amp_list`),
* `intMatrix`, `cachedInt` = `build_int_matrix`, `Σ_ab p_a conj(p_b) M_ab` (`cached_int_mc`, `ModelCachedInt`),
* `directAmp`     = `Σ_chains Π_decays (Σ_ls g_ls · part_ls)`,   `directInt` = `Σ w · A · conj A`.

A chain is a list of decays `(g, part)`: the coefficient vector (ls amplitudes, or the `total` factor as a vector of
length 1) and the angular parts, one entry per ls term.  All statements hold for ANY commutative ring, any number of
chains / decays / ls terms / events.  The model is tied to the code by exact correspondence (harness/c05_factor.py).
-/
namespace TfPwaV.C05c
open TfPwaV.Factorise

variable {R : Type} [CommRing R]

/-! ### index order of the params vector -/

/-- **`build_params_vector` flattens in row-major order**: the left fold `tmp = flatten(tmp ⊗ j)` is the right-nested
    product tensor, i.e. the combination (l_1,…,l_D) sits at position ((l_1·n_2 + l_2)·n_3 + …) — the order in which
    `split_gls` (`itertools.product`) enumerates the cached angular amplitudes.  For every non-empty factor list. -/
theorem params_vector_row_major (f : List R) (fs : List (List R)) :
    paramsVector (f :: fs) = angTensor (f :: fs) [1] :=
  angOf_eq_angTensor (f :: fs) (by simp)

/-- the flat position of the pair (i, j) in one `outer` step: the earlier factor is the slow index -/
example : outer [10, 20] [1, 2, 3] = ([10, 20, 30, 20, 40, 60] : List Int) := by decide +kernel
example : paramsVector [[1, 2], [1, 10], [1, 100]] = ([1, 100, 10, 1000, 2, 200, 20, 2000] : List Int) := by decide +kernel

/-! ### cached amplitude = direct multilinear expression -/

/-- **`cached_eq_direct`.**  For every list of chains, each a non-empty list of decays `(g, part)` whose coefficient
    and part vectors have the same number of ls terms:
    `Σ_chains Σ_k paramsVector(g)_k · ang_k = Σ_chains Π_decays (Σ_ls g_ls · part_ls)`
    where the angular cache `ang` of a chain is built from the parts in the same index order (`angOf`). -/
theorem cached_eq_direct (chains : List (List (List R × List R)))
    (h : ∀ c ∈ chains, c ≠ [] ∧ ∀ d ∈ c, d.1.length = d.2.length) :
    cachedAmp (chains.map fun c => paramsVector (c.map Prod.fst)) (chains.map fun c => angOf (c.map Prod.snd))
      = directAmp chains :=
  cachedAmp_chains chains h

/-- non-vacuity: two chains (3 decays with 2,2,1 ls terms; 1 decay with 3 ls terms) over `Int` -/
example :
    let chains : List (List (List Int × List Int)) :=
      [[([2, 3], [5, 7]), ([1, 4], [1, 2]), ([3], [1])], [([1, 1, 2], [3, 0, 1])]]
    (∀ c ∈ chains, c ≠ [] ∧ ∀ d ∈ c, d.1.length = d.2.length) ∧
    cachedAmp (chains.map fun c => paramsVector (c.map Prod.fst)) (chains.map fun c => angOf (c.map Prod.snd)) = 842 ∧
    directAmp chains = 842 := by
  decide +kernel

/-- outside the hypothesis (a coefficient vector and its part vector of different length in a later decay) the flat
    positions no longer line up and the identity fails -/
example :
    let c : List (List Int × List Int) := [([1, 2], [1, 1]), ([1, 1], [1])]
    cachedAmp [paramsVector (c.map Prod.fst)] [angOf (c.map Prod.snd)] = 2 ∧ directAmp [c] = 3 := by
  decide +kernel

/-- the excluded branch: for a chain without any factor the Python code raises (`i[0]`); the model's `handle` answers
    "raise" (`paramsVectorBatch … = none`) -/
example : paramsVectorBatch 2 ([] : List (List (List Int))) = none := by decide +kernel

/-- **The sum over inner helicities.**  In general the angular cache of a chain is not a single product but a sum
    over helicity configurations λ of product-form terms; for ANY list of such terms (same coefficient vectors `gs`,
    different parts): `pv · (Σ_λ ang_λ) = Σ_λ Π_decays (Σ_ls g_ls · part_{λ,ls})`. -/
theorem cached_eq_direct_helicity_sum (gs : List (List R)) (terms : List (List (List R × List R)))
    (h : ∀ t ∈ terms, t ≠ [] ∧ t.map Prod.fst = gs ∧ ∀ d ∈ t, d.1.length = d.2.length) :
    dot (paramsVector gs) (vsum (paramsVector gs).length (terms.map fun t => angOf (t.map Prod.snd)))
      = (terms.map fun t => prodL (t.map fun d => dot d.1 d.2)).sum :=
  cached_chain_sum gs terms h

example :
    let gs : List (List Int) := [[2, 3], [1, 4]]
    let terms : List (List (List Int × List Int)) := [[([2, 3], [5, 7]), ([1, 4], [1, 2])], [([2, 3], [1, -1]), ([1, 4], [0, 3])]]
    (∀ t ∈ terms, t ≠ [] ∧ t.map Prod.fst = gs ∧ ∀ d ∈ t, d.1.length = d.2.length) ∧
    dot (paramsVector gs) (vsum (paramsVector gs).length (terms.map fun t => angOf (t.map Prod.snd))) = 267 := by
  decide +kernel

/-! ### factorised amplitude (`base_factor`) = direct multilinear expression -/

/-- **`factor_eq_direct`.**  For every chain of decays `(g, part)` with equally long, non-empty coefficient and part
    vectors and every trailing helicity vector `hel`: contracting the leading axis of the angular tensor
    `Π_d part_d[l_d] · hel[h]` with the coefficient vectors in turn (`get_amp_list`) never raises and returns
    `(Π_decays Σ_ls g_ls · part_ls) · hel`. -/
theorem factor_eq_direct (c : List (List R × List R)) (hel : List R)
    (h : ∀ d ∈ c, d.1.length = d.2.length ∧ 0 < d.1.length) :
    factorAmp (c.map Prod.fst) (angTensor (c.map Prod.snd) hel)
      = some (smul (prodL (c.map fun d => dot d.1 d.2)) hel) :=
  factorAmp_angTensor c hel h

example :
    let c : List (List Int × List Int) := [([2, 3], [5, 7]), ([1, 4], [1, 2]), ([3], [1])]
    (∀ d ∈ c, d.1.length = d.2.length ∧ 0 < d.1.length) ∧
    factorAmp (c.map Prod.fst) (angTensor (c.map Prod.snd) [1, -2]) = some [837, -1674] := by
  decide +kernel

/-- the excluded branch: an empty coefficient vector (`total_size // 0`) or a size that is not divisible makes the
    Python reshape raise; the model declines -/
theorem factor_declines (g : List R) (gs : List (List R)) (tmp : List R)
    (h : g.length = 0 ∨ tmp.length % g.length ≠ 0) : factorAmp (g :: gs) tmp = none := by
  unfold factorAmp
  rw [if_pos h]

example : factorAmp [[1, 2]] ([1, 2, 3] : List Int) = none := by decide +kernel

/-- all chains together, helicities fixed: `Σ_chains get_amp_list = directAmp`, and the factorised and the cached
    evaluation agree -/
theorem factor_total_eq_direct (chains : List (List (List R × List R)))
    (h : ∀ c ∈ chains, c ≠ [] ∧ ∀ d ∈ c, d.1.length = d.2.length ∧ 0 < d.1.length) :
    factorAmpTotal 1 (chains.map fun c => (c.map Prod.fst, angOf (c.map Prod.snd))) = some [directAmp chains] := by
  unfold factorAmpTotal
  rw [List.mapM_map, mapM_some _ (fun c => [prodL (c.map fun d => dot d.1 d.2)])]
  · simp only [Option.map_some, directAmp]
    rw [← vsum_singletons]
    simp [List.map_map, Function.comp_def]
  · intro c hc
    obtain ⟨hne, hl⟩ := h c hc
    have := factorAmp_angTensor c [1] hl
    simp only [Function.comp_def]
    rw [angOf_eq_angTensor _ (by simpa using hne), this]
    simp [smul]

theorem factor_eq_cached (chains : List (List (List R × List R)))
    (h : ∀ c ∈ chains, c ≠ [] ∧ ∀ d ∈ c, d.1.length = d.2.length ∧ 0 < d.1.length) :
    factorAmpTotal 1 (chains.map fun c => (c.map Prod.fst, angOf (c.map Prod.snd)))
      = some [cachedAmp (chains.map fun c => paramsVector (c.map Prod.fst)) (chains.map fun c => angOf (c.map Prod.snd))] := by
  rw [factor_total_eq_direct chains h, cached_eq_direct chains (fun c hc => ⟨(h c hc).1, fun d hd => ((h c hc).2 d hd).1⟩)]

example :
    let chains : List (List (List Int × List Int)) :=
      [[([2, 3], [5, 7]), ([1, 4], [1, 2]), ([3], [1])], [([1, 1, 2], [3, 0, 1])]]
    (∀ c ∈ chains, c ≠ [] ∧ ∀ d ∈ c, d.1.length = d.2.length ∧ 0 < d.1.length) ∧
    factorAmpTotal 1 (chains.map fun c => (c.map Prod.fst, angOf (c.map Prod.snd))) = some [842] := by
  decide +kernel

/-! ### cached integral = Σ_events w |A|² — for fixed cached tensors only -/

/-- **`cached_int_eq_direct`.**  `x θ` are the cached tensors (one vector over the event × helicity slots per index
    a = (chain, ls combination): amplitude / g_ls product, which contains the line shapes), `pv θ` the coefficient
    vector, both as functions of the fit parameters `θ`.  The matrix is built ONCE at `θ0`; at any `θ` where the cached
    tensors are unchanged (`x θ = x θ0`: masses and widths fixed, only the coefficients vary),
    `Σ_ab pv_a conj(pv_b) M_ab = Σ_slots w · A · conj A` with the amplitude `A = Σ_a pv_a(θ) · x_a(θ)`.
    For every commutative ring with a ring endomorphism `conj`, any number of indices and slots. -/
theorem cached_int_eq_direct (conj : R →+* R) {Θ : Type} (pv : Θ → List R) (x : Θ → List (List R)) (w : List R)
    (θ0 θ : Θ) (hfix : x θ = x θ0) (hlen : ∀ v ∈ x θ0, v.length = w.length) :
    cachedInt conj (pv θ) (intMatrix conj w (x θ0)) = directInt conj w (lin w.length (pv θ) (x θ)) := by
  rw [hfix]
  exact cachedInt_intMatrix conj w (pv θ) (x θ0) hlen

/-- non-vacuity: coefficients vary with θ, the cached tensors do not -/
example :
    let pv : Int → List Int := fun θ => [θ, 2 * θ + 1]
    let x : Int → List (List Int) := fun _ => [[1, 2, 3], [0, -1, 4]]
    let w : List Int := [1, 2, 1]
    x 5 = x 0 ∧ (∀ v ∈ x 0, v.length = w.length) ∧
    cachedInt id (pv 5) (intMatrix id w (x 0)) = 3508 ∧ directInt id w (lin w.length (pv 5) (x 5)) = 3508 := by
  decide +kernel

/-- **without the hypothesis the identity fails**: a cached tensor that depends on the parameter (a floating mass or
    width inside the line shape) — matrix built at θ0 = 1, amplitude evaluated at θ = 2 -/
example :
    let pv : Int → List Int := fun _ => [1]
    let x : Int → List (List Int) := fun θ => [[θ]]
    cachedInt id (pv 2) (intMatrix id [1] (x 1)) = 1 ∧ directInt id [1] (lin 1 (pv 2) (x 2)) = 4 := by
  decide +kernel

/-- non-vacuity with a genuine conjugation (Gaussian integers, `GI.conjHom`), and the convention that the code and
    the model share: the ROW index a carries the un-conjugated factor, `M_ab = Σ w · x_a · conj(x_b)`
    (here M_01 = 5 - i, M_10 = 5 + i), the coefficient matrix is `p_a · conj(p_b)` -/
example :
    let w : List GI := [⟨1, 0⟩, ⟨2, 0⟩]
    let x : Int → List (List GI) := fun _ => [[⟨1, 1⟩, ⟨2, 0⟩], [⟨0, 1⟩, ⟨1, 0⟩]]
    let pv : Int → List GI := fun θ => [⟨1, θ⟩, ⟨0, 2⟩]
    x 1 = x 0 ∧ (∀ v ∈ x 0, v.length = w.length) ∧
    intMatrix GI.conjHom w (x 0) = [[⟨10, 0⟩, ⟨5, -1⟩], [⟨5, 1⟩, ⟨3, 0⟩]] ∧
    cachedInt GI.conjHom (pv 1) (intMatrix GI.conjHom w (x 0)) = ⟨48, 0⟩ ∧
    directInt GI.conjHom w (lin w.length (pv 1) (x 1)) = ⟨48, 0⟩ := by
  decide +kernel

/-- conjugating the other factor of the matrix (the transposed matrix) gives a different number for complex
    coefficients: the convention matters -/
example :
    cachedInt GI.conjHom [⟨1, 1⟩, ⟨0, 2⟩] [[⟨10, 0⟩, ⟨5, 1⟩], [⟨5, -1⟩, ⟨3, 0⟩]] = (⟨56, 0⟩ : GI) := by
  decide +kernel

/-- the amplitude vector of the cached formulation, slot by slot, is the cached amplitude `Σ_a p_a · x_a[s]` of that
    slot (the `A` in `Σ w |A|²` is the same `A` that `cachedAmp` computes) -/
theorem lin_slot_eq_cached (n s : Nat) (p : List R) (xs : List (List R)) (h : ∀ x ∈ xs, x.length = n) :
    (lin n p xs).getD s 0 = cachedAmp [p] [xs.map fun x => x.getD s 0] := by
  rw [lin_getD n s p xs h]
  simp [cachedAmp]

example : (lin 2 [2, 3] [[1, 5], [10, 7]] : List Int) = [32, 31] ∧ cachedAmp [[2, 3]] [[5, 7]] = (31 : Int) := by
  decide +kernel

/-- the code returns `tf.math.real` of the cached integral: nothing is lost, the value is self-conjugate when the
    weights are real and `conj` is an involution -/
theorem cached_int_self_conjugate (conj : R →+* R) (hinv : ∀ r, conj (conj r) = r) (w p : List R) (xs : List (List R))
    (hw : ∀ v ∈ w, conj v = v) (hlen : ∀ v ∈ xs, v.length = w.length) :
    conj (cachedInt conj p (intMatrix conj w xs)) = cachedInt conj p (intMatrix conj w xs) := by
  rw [cachedInt_intMatrix conj w p xs hlen]
  exact directInt_selfconj conj hinv w _ hw

example : (∀ r : GI, GI.conjHom (GI.conjHom r) = r) ∧ (∀ v ∈ ([⟨1, 0⟩, ⟨2, 0⟩] : List GI), GI.conjHom v = v) :=
  ⟨GI.conj_conj, by decide⟩

/-- the matrix is additive over batches of events (`build_int_matrix_batch`, `ModelCachedInt.build_cached_int` sum the
    per-batch matrices): entry-wise, for slot vectors split at the batch boundary -/
theorem int_matrix_entry_batch_additive (conj : R →+* R) (w1 w2 x1 x2 y1 y2 : List R)
    (hx : x1.length = w1.length) (hy : y1.length = w1.length) :
    wsum conj (w1 ++ w2) (x1 ++ x2) (y1 ++ y2) = wsum conj w1 x1 y1 + wsum conj w2 x2 y2 :=
  wsum_append conj w1 w2 x1 x2 y1 y2 hx hy

example : wsum id ([1, 2] ++ [3]) ([1, 1] ++ [2]) ([2, 0] ++ [5] : List Int) = 2 + 30 := by decide +kernel

end TfPwaV.C05c
