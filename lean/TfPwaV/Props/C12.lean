import TfPwaV.Proofs.Wigner
import TfPwaV.Proofs.WignerU7
import TfPwaV.Proofs.WignerU8
/-!
# C12 — Rotation-group functions (Wigner D, Clebsch–Gordan, SU(2) angles) are exact

`TfPwaV.Wigner.dR` transcribes the weight formula of `tf_pwa.dfun.small_d_weight`
(rational part; the radicand `A im · A in` is carried separately) and is compared entry by entry with
the table the real function returns on every run (harness/c12.py).  Theorems here are about that model.
-/
namespace TfPwaV.C12
open TfPwaV.Wigner

theorem unitary_check_all (N : Nat) (hN : N ≤ 8) : unitaryCheck N = true := by
  rcases Nat.lt_or_ge N 8 with h | h
  · have := unitary_check_low
    rw [List.all_eq_true] at this
    exact this N (List.mem_range.mpr h)
  · have : N = 8 := by omega
    subst this
    exact unitary_check_8

theorem unitary_lists (N im im' : Nat) (hN : N ≤ 8) (hm : im ≤ N) (hm' : im' ≤ N) :
    unitaryLHS N im im' = unitaryRHS N im im' := by
  have h1 := unitary_check_all N hN
  unfold unitaryCheck at h1
  rw [List.all_eq_true] at h1
  have h2 := h1 im (List.mem_range.mpr (by omega))
  rw [List.all_eq_true] at h2
  have h3 := h2 im' (List.mem_range.mpr (by omega))
  exact of_decide_eq_true h3

/-- The polynomial content of unitarity of `d^j`, for every `2j = N ≤ 8`, all `m, m'` and **all real**
`s, c` (homogeneous identity; no constraint `s² + c² = 1` needed):
`Σ_n A_n Z_{mn}(s,c) Z_{m'n}(s,c) = δ_{mm'} A_m (s²+c²)^N`. -/
theorem z_poly_unitary (N im im' : Nat) (hN : N ≤ 8) (hm : im ≤ N) (hm' : im' ≤ N) (s c : ℝ) :
    ((List.range (N + 1)).map fun inn =>
        ((A N inn : Nat) : ℝ) * (evalH (zPoly N im inn) s c * evalH (zPoly N im' inn) s c)).sum
      = (if im = im' then ((A N im : Nat) : ℝ) else 0) * (c ^ 2 + s ^ 2) ^ N := by
  have hl := congrArg (fun p => evalH p s c) (unitary_lists N im im' hN hm hm')
  have hne : ∀ a b, zPoly N a b ≠ [] := by
    intro a b h
    have := length_zPoly N a b
    rw [h] at this; simp at this
  unfold unitaryLHS unitaryRHS at hl
  rw [evalH_sumP] at hl
  · rw [evalH_scale, evalH_powP _ (by simp)] at hl
    simp only [List.map_map] at hl
    have e1 : evalH [1, 0, 1] s c = c ^ 2 + s ^ 2 := by
      simp [evalH]; ring
    rw [e1] at hl
    have e2 : ((fun p => evalH p s c) ∘ fun inn => scale (↑(A N inn)) (mulP (zPoly N im inn) (zPoly N im' inn)))
        = fun inn => ((A N inn : Nat) : ℝ) * (evalH (zPoly N im inn) s c * evalH (zPoly N im' inn) s c) := by
      funext inn
      simp only [Function.comp, evalH_scale, evalH_mulP _ _ (hne _ _)]
      push_cast
      ring
    rw [e2] at hl
    rw [hl]
    split <;> simp
  · intro p hp
    simp only [List.mem_map, List.mem_range] at hp
    obtain ⟨inn, _, rfl⟩ := hp
    rw [length_scale, length_mulP _ _ (hne _ _) (hne _ _), length_zPoly, length_zPoly]
    omega


/-- value of a rational homogeneous coefficient list, `Σ_l a_l s^l c^(n-l)` — the code's
`Σ_l w_l sin^l cos^(2j-l)` for the rational part of the weights -/
noncomputable def evalQ : List Rat → ℝ → ℝ → ℝ
  | [], _, _ => 0
  | a :: p, s, c => (a : ℝ) * c ^ p.length + s * evalQ p s c

theorem evalQ_map_div (p : List Int) (a : Rat) (s c : ℝ) :
    evalQ (p.map fun (z : Int) => (z : Rat) / a) s c = evalH p s c / (a : ℝ) := by
  induction p with
  | nil => simp [evalQ, evalH]
  | cons z p ih =>
    simp only [List.map_cons, evalQ, evalH, ih, List.length_map]
    push_cast
    ring

theorem dPoly_eq (N im inn : Nat) (hN : N ≤ 8) (hm : im ≤ N) (hn : inn ≤ N) :
    dPoly N im inn = (zPoly N im inn).map fun (z : Int) => (z : Rat) / ((A N im : Nat) : Rat) := by
  have h := dz_check_all
  rw [List.all_eq_true] at h
  have h1 := h N (List.mem_range.mpr (by omega))
  unfold dzCheck at h1
  rw [List.all_eq_true] at h1
  have h2 := h1 im (List.mem_range.mpr (by omega))
  rw [List.all_eq_true] at h2
  exact of_decide_eq_true (h2 inn (List.mem_range.mpr (by omega)))

theorem A_pos (N i : Nat) : 0 < A N i := by
  have hf : ∀ n, 0 < fact n := by
    intro n; induction n with
    | zero => simp [fact]
    | succ n ih => simp [fact]; exact ih
  unfold A; exact Nat.mul_pos (hf _) (hf _)

/-- `d^j_{mn}(β)` as computed by `small_d_matrix`: `sqrt(A_m A_n) · Σ_l dR_l sin^l(β/2) cos^(N-l)(β/2)` -/
noncomputable def dReal (N im inn : Nat) (β : ℝ) : ℝ :=
  Real.sqrt (((A N im * A N inn : Nat) : ℝ)) * evalQ (dPoly N im inn) (Real.sin (β / 2)) (Real.cos (β / 2))

/-- **Unitarity (orthogonality) of the small-d matrices for every spin `2j = N ≤ 8`, all `m, m'`
and all real angles β (including 0 and π).** -/
theorem d_unitary (N im im' : Nat) (hN : N ≤ 8) (hm : im ≤ N) (hm' : im' ≤ N) (β : ℝ) :
    ((List.range (N + 1)).map fun inn => dReal N im inn β * dReal N im' inn β).sum
      = if im = im' then 1 else 0 := by
  set s := Real.sin (β / 2)
  set c := Real.cos (β / 2)
  have hsc : c ^ 2 + s ^ 2 = 1 := by
    have := Real.sin_sq_add_cos_sq (β / 2)
    simp only [s, c]; linarith
  have hpoly := z_poly_unitary N im im' hN hm hm' s c
  rw [hsc, one_pow, mul_one] at hpoly
  have hAm : (0 : ℝ) < ((A N im : Nat) : ℝ) := by exact_mod_cast A_pos N im
  have hAm' : (0 : ℝ) < ((A N im' : Nat) : ℝ) := by exact_mod_cast A_pos N im'
  -- rewrite each summand
  have hterm : ∀ inn ∈ List.range (N + 1), dReal N im inn β * dReal N im' inn β =
      (Real.sqrt ((A N im : Nat) : ℝ) * Real.sqrt ((A N im' : Nat) : ℝ) / (((A N im : Nat) : ℝ) * ((A N im' : Nat) : ℝ))) *
        (((A N inn : Nat) : ℝ) * (evalH (zPoly N im inn) s c * evalH (zPoly N im' inn) s c)) := by
    intro inn hinn
    have hn : inn ≤ N := by have := List.mem_range.mp hinn; omega
    have hAn : (0 : ℝ) ≤ ((A N inn : Nat) : ℝ) := by positivity
    unfold dReal
    rw [dPoly_eq N im inn hN hm hn, dPoly_eq N im' inn hN hm' hn, evalQ_map_div, evalQ_map_div]
    push_cast
    rw [Real.sqrt_mul hAm.le, Real.sqrt_mul hAm'.le]
    have hs := Real.mul_self_sqrt hAn
    field_simp
    rw [Real.sq_sqrt hAn]
  rw [List.map_congr_left hterm]
  rw [List.sum_map_mul_left] at *
  rw [hpoly]
  split
  · rename_i h; subst h
    have := Real.mul_self_sqrt hAm.le
    field_simp
    linarith [this]
  · simp


end TfPwaV.C12
