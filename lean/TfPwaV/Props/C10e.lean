import TfPwaV.Props.C10
/-!
# C10 — the repaired `cal_max_weight()` (fix commit in /repo, see DESIGN §10.4)

The repaired routine draws a random sample of mass points, takes its best point `x0`, maximises the weight relative to it
(two searches in coordinates scaled to the mass ranges) and sets `m_wtMax *= 1.001 · max(weight(x0), weight(x*₁), weight(x*₂))`.
In the model of `templates/Phsp.lean.in` this is `calWtMax … xopt` with `xopt` the candidate attaining the maximum (the
harness passes exactly that point; the optimisers stay parameters).  What the repair guarantees WITHOUT trusting the
optimiser — and what the unrepaired single-start version did not — is that no candidate, in particular no point of the
routine's own sample, ends above the new bound:
-/
namespace TfPwaV.C10
open TfPwaV.ScalarR TfPwaV.PhspR

/-- **never below a weight that occurred**: if `xopt` is the best of a list of candidate mass points (the random sample and
the optimisers' answers), then after `cal_max_weight()` every candidate has acceptance weight `≤ 1/1.001 < 1`
(all masses, any number of bodies, any candidate list). -/
theorem calmax_best_of_candidates (m0 : ℝ) (mass : List ℝ) (cands : List (List ℝ)) (xopt : List ℝ)
    (hmax : ∀ c ∈ cands, getWeight id m0 mass true c ≤ getWeight id m0 mass true xopt)
    (hpos : 0 < getWeight id m0 mass true xopt) :
    ∀ c ∈ cands, getWeightCal id m0 mass true xopt c ≤ 1 / 1.001 ∧ getWeightCal id m0 mass true xopt c < 1 := by
  intro c hc
  have h := hmax c hc
  rw [calmax_rescales]
  have hden : 0 < getWeight id m0 mass true xopt * 1.001 := by positivity
  have h1 : getWeight id m0 mass true c / (getWeight id m0 mass true xopt * 1.001) ≤ 1 / 1.001 := by
    rw [div_le_div_iff₀ hden (by norm_num)]
    nlinarith
  exact ⟨h1, lt_of_le_of_lt h1 (by norm_num)⟩

/-- the single-start version had no such guarantee: its `xopt` is one arbitrary point, and a sampled point can end three
times above the bound (`calmax_weight_exceeds_one_example`); restated as the failure of the hypothesis `hmax` -/
theorem calmax_single_start_not_best :
    ¬ (getWeight id 1 [0, 0, 0] true [1 / 2] ≤ getWeight id 1 [0, 0, 0] true [1 / 10]) := by
  intro h
  have ⟨hpos, hbig⟩ := calmax_weight_exceeds_one_example
  have := (calmax_weight_le_one_iff 1 [0, 0, 0] true [1 / 10] [1 / 2] hpos).2 (by nlinarith)
  linarith

-- non-vacuity: the candidate list [[1/10], [1/2]] with xopt = [1/2] satisfies the hypotheses
example : ∀ c ∈ [[(1 : ℝ) / 10], [1 / 2]], getWeight id 1 [0, 0, 0] true c ≤ getWeight id 1 [0, 0, 0] true [1 / 2] := by
  intro c hc
  simp only [List.mem_cons, List.mem_nil_iff, or_false] at hc
  rcases hc with rfl | rfl
  · exact le_of_lt (not_le.mp calmax_single_start_not_best)
  · exact le_refl _

end TfPwaV.C10
