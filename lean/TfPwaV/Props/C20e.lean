import TfPwaV.Proofs.Percentile
/-!
# C20 (part 5) — `np.percentile` and the populations of adaptive bins

Theorems about `TfPwaV.PercentileR`, the ℝ-instance of `templates/Percentile.lean.in` (numpy's `'linear'` quantile:
virtual index `(N-1)·q`, floor / fractional part, `_lerp` with its two branches, the `+ 1e-6` of
`AdaptiveBound.single_split_bound`); the Float instance of the *same text* is executed bit-for-bit against
`np.percentile` and against the cut points recorded from `single_split_bound` on every run.
All statements hold for every sample (`data : List ℝ`, any order, ties allowed), every number of bins `n ≥ 1`.

Notation: `cntLt data c = #{x ∈ data : x < c}`, `cntLe` with `≤`, `cntWin data w v = #{x ∈ data : v ≤ x < v + w}`,
`pop data (a, b) = #{x ∈ data : a ≤ x < b}` (the `get_bool_mask` comparison), `N = data.length`.
-/
open TfPwaV.ScalarR
namespace TfPwaV.C20e
open TfPwaV.PercentileR TfPwaV.Bins

/-- numpy's `_lerp` (two branches, switched at `t ≥ 0.5`) is the linear interpolation `a + (b-a) t`, for all reals. -/
theorem lerp_linear (a b t : ℝ) : lerp a b t = a + (b - a) * t := lerp_eq a b t

/-- ★ the contract of `np.percentile` (proved from the model, not assumed): for every sample, every `n ≥ 1` and
`k ≤ n`, with `p = np.percentile(data, k/n*100)`: `#{x < p} ≤ ⌊(N-1)k/n⌋ + 1 ≤ #{x ≤ p}`. -/
theorem percentile_contract (data : List ℝ) (hne : data ≠ []) (n k : Nat) (hn : 0 < n) (hk : k ≤ n) :
    cntLt data (percentile data (pctOf k n)) ≤ (data.length - 1) * k / n + 1 ∧
    (data.length - 1) * k / n + 1 ≤ cntLe data (percentile data (pctOf k n)) :=
  PercentileR.percentile_contract data hne n k hn hk

/-- the same for an arbitrary quantile `q ∈ [0,1]` of a sorted sample: the index is `⌊(N-1) q⌋` and the value lies
between the order statistics `s_i` and `s_{min(i+1, N-1)}`. -/
theorem quantile_between_order_statistics (s : List ℝ) (hs : Sorted s) (hne : s ≠ []) (q : ℝ) (hq0 : 0 ≤ q)
    (hq1 : q ≤ 1) :
    s.getD (Nat.floor ((s.length - 1 : ℕ) * q : ℝ)) 0 ≤ quantileSorted s q ∧
    quantileSorted s q ≤ s.getD (min (Nat.floor ((s.length - 1 : ℕ) * q : ℝ) + 1) (s.length - 1)) 0 :=
  (quantile_between s hs hne q hq0 hq1).2

/-- the sort used by the model is a sort: sorted, and a permutation of the sample -/
theorem model_sort_correct (data : List ℝ) : Sorted (sort data) ∧ (sort data).Perm data :=
  ⟨sort_sorted data, sort_perm data⟩

/-- ★ the `k`-th cut point of `single_split_bound(data, n)` (`percentile + 1e-6`) has at least `⌊(N-1)k/n⌋ + 1` and at
most `⌊(N-1)k/n⌋ + 1 + m` sample values strictly below it, where `m` bounds the number of sample values in any
window `[v, v + 1e-6)` that starts at a sample value (`m = 1`: values pairwise ≥ 1e-6 apart; ties of multiplicity
`μ` need `m ≥ μ`). -/
theorem cut_count (data : List ℝ) (hne : data ≠ []) (n k : Nat) (hn : 0 < n) (hk : k ≤ n) (m : Nat)
    (hm : ∀ v ∈ data, cntWin data delta v ≤ m) :
    (data.length - 1) * k / n + 1 ≤ cntLt data (cut data n k) ∧
    cntLt data (cut data n k) ≤ (data.length - 1) * k / n + 1 + m :=
  PercentileR.cut_count data hne n k hn hk m hm

/-- ★ `populations_near_equal`: every bin of `single_split_bound(data, n, (lb, rb))` — with the cut points computed
by the percentile model, `lb ≤` every value `< rb` (the code's `base_bound`, or the parent bin in nested splitting) —
holds at least `⌊(N-1)/n⌋ - m` and at most `⌊(N-1)/n⌋ + 1 + m` of the `N` values; with ties the deviation from
`{⌊(N-1)/n⌋, ⌊(N-1)/n⌋ + 1}` is bounded by the multiplicity `m` of the most populated window `[v, v + 1e-6)`.
No monotonicity of the cut chain is assumed. -/
theorem populations_near_equal (data : List ℝ) (hne : data ≠ []) (n : Nat) (hn : 0 < n) (lb rb : ℝ)
    (hlb : ∀ x ∈ data, lb ≤ x) (hrb : ∀ x ∈ data, x < rb) (m : Nat)
    (hm : ∀ v ∈ data, cntWin data delta v ≤ m) :
    ∀ iv ∈ chain lb (cuts data n) rb,
      (data.length - 1) / n ≤ pop data iv + m ∧ pop data iv ≤ (data.length - 1) / n + 1 + m :=
  populations_bound data hne n hn lb rb hlb hrb m hm

/-- ★ distinct (1e-6-separated) values: every bin holds `⌊(N-1)/n⌋ - 1 … ⌊(N-1)/n⌋ + 2` values, i.e. `⌊N/n⌋` or
`⌈N/n⌉` up to ±1 (the `+1e-6` can move one boundary value across each of the two edges of a bin). -/
theorem populations_near_equal_distinct (data : List ℝ) (hne : data ≠ []) (n : Nat) (hn : 0 < n) (lb rb : ℝ)
    (hlb : ∀ x ∈ data, lb ≤ x) (hrb : ∀ x ∈ data, x < rb)
    (hsep : ∀ v ∈ data, cntWin data delta v ≤ 1) :
    ∀ iv ∈ chain lb (cuts data n) rb,
      (data.length - 1) / n ≤ pop data iv + 1 ∧ pop data iv ≤ (data.length - 1) / n + 2 :=
  populations_bound data hne n hn lb rb hlb hrb 1 hsep

/-- the number of bins of one split -/
theorem split_length (data : List ℝ) (n : Nat) (lb rb : ℝ) : (chain lb (cuts data n) rb).length = n - 1 + 1 := by
  have : ∀ (cs : List ℝ) (l : ℝ), (chain l cs rb).length = cs.length + 1 := by
    intro cs
    induction cs with
    | nil => intro l; rfl
    | cons c cs ih => intro l; simp [chain, ih]
  rw [this, cuts_length]

-- nested splitting -------------------------------------------------------------------------------------------

/-- the sub-sample that `multi_split_bound` hands to the next split: `data[:, mask]`, `mask = (x >= lb) & (x < rb)` -/
noncomputable def subSample (data : List ℝ) (iv : ℝ × ℝ) : List ℝ := data.filter fun x => inIv x iv

theorem cntWin_filter_le (data : List ℝ) (p : ℝ → Bool) (w v : ℝ) : cntWin (data.filter p) w v ≤ cntWin data w v := by
  unfold cntWin
  rw [List.countP_filter]
  apply List.countP_mono_left
  intro x _ hx
  simp only [Bool.and_eq_true] at hx
  exact hx.1

/-- ★ the hypotheses of `populations_near_equal` are inherited by the sub-sample of every bin: its values lie in
`[lb, rb)` of that bin, its 1e-6 clusters are no larger than those of the parent sample, and its size is the bin's
population — so the theorem applies again at the next level (`multi_split_bound` / `loop_split_bound`: the next split
of a box uses the parent's bin as `base_bound` and the masked data). -/
theorem sub_sample_inherits (data : List ℝ) (iv : ℝ × ℝ) (m : Nat) (hm : ∀ v ∈ data, cntWin data delta v ≤ m) :
    (∀ x ∈ subSample data iv, iv.1 ≤ x) ∧ (∀ x ∈ subSample data iv, x < iv.2) ∧
    (∀ v ∈ subSample data iv, cntWin (subSample data iv) delta v ≤ m) ∧
    (subSample data iv).length = pop data iv := by
  unfold subSample
  refine ⟨?_, ?_, ?_, ?_⟩
  · intro x hx
    have := (List.mem_filter.mp hx).2
    simp only [inIv, Bool.and_eq_true, decide_eq_true_eq] at this
    exact this.1
  · intro x hx
    have := (List.mem_filter.mp hx).2
    simp only [inIv, Bool.and_eq_true, decide_eq_true_eq] at this
    exact this.2
  · intro v hv
    exact le_trans (cntWin_filter_le data _ delta v) (hm v (List.mem_filter.mp hv).1)
  · unfold pop; rw [List.countP_eq_length_filter]

/-- ★ two levels (`bins = [[n₁], [n₂]]`, or two consecutive entries of a multi-dimensional specification with the
sample = the coordinate that is split): every second-level bin holds between `⌊(N₁-1)/n₂⌋ - m` and
`⌊(N₁-1)/n₂⌋ + 1 + m` values, where `N₁`, the population of its first-level bin, is itself between
`⌊(N-1)/n₁⌋ - m` and `⌊(N-1)/n₁⌋ + 1 + m`. -/
theorem nested_populations (data : List ℝ) (hne : data ≠ []) (n1 n2 : Nat) (hn1 : 0 < n1) (hn2 : 0 < n2) (lb rb : ℝ)
    (hlb : ∀ x ∈ data, lb ≤ x) (hrb : ∀ x ∈ data, x < rb) (m : Nat)
    (hm : ∀ v ∈ data, cntWin data delta v ≤ m) :
    ∀ iv1 ∈ chain lb (cuts data n1) rb, subSample data iv1 ≠ [] →
      ((data.length - 1) / n1 ≤ (subSample data iv1).length + m ∧
        (subSample data iv1).length ≤ (data.length - 1) / n1 + 1 + m) ∧
      ∀ iv2 ∈ chain iv1.1 (cuts (subSample data iv1) n2) iv1.2,
        ((subSample data iv1).length - 1) / n2 ≤ pop (subSample data iv1) iv2 + m ∧
        pop (subSample data iv1) iv2 ≤ ((subSample data iv1).length - 1) / n2 + 1 + m := by
  intro iv1 h1 hne1
  obtain ⟨a, b, c, d⟩ := sub_sample_inherits data iv1 m hm
  refine ⟨?_, ?_⟩
  · rw [d]; exact populations_bound data hne n1 hn1 lb rb hlb hrb m hm iv1 h1
  · exact populations_bound (subSample data iv1) hne1 n2 hn2 iv1.1 iv1.2 a b m c

/-- one level of splitting into `n` bins takes a population `N` to a population `N'` "near `N/n`" -/
def Near (m n N N' : Nat) : Prop := (N - 1) / n ≤ N' + m ∧ N' ≤ (N - 1) / n + 1 + m

/-- a path root → leaf through a nested splitting: `(nᵢ, Nᵢ)` = number of bins of level `i`, population after it -/
def PathOK (m : Nat) : Nat → List (Nat × Nat) → Prop
  | _, [] => True
  | N, (n, N') :: rest => Near m n N N' ∧ PathOK m N' rest

def lastPop : Nat → List (Nat × Nat) → Nat
  | N, [] => N
  | _, (_, N') :: rest => lastPop N' rest

/-- the bounds multiplied out: `N ↦ ⌊(N-1)/n⌋ - m` resp. `⌊(N-1)/n⌋ + 1 + m`, level after level -/
def loN (m : Nat) : Nat → List Nat → Nat
  | N, [] => N
  | N, n :: ns => loN m ((N - 1) / n - m) ns
def hiN (m : Nat) : Nat → List Nat → Nat
  | N, [] => N
  | N, n :: ns => hiN m ((N - 1) / n + 1 + m) ns

theorem loN_mono (m : Nat) : ∀ (ns : List Nat) (N N' : Nat), N ≤ N' → loN m N ns ≤ loN m N' ns
  | [], _, _, h => h
  | n :: ns, N, N', h => by
    apply loN_mono m ns
    exact Nat.sub_le_sub_right (Nat.div_le_div_right (Nat.sub_le_sub_right h 1)) m

theorem hiN_mono (m : Nat) : ∀ (ns : List Nat) (N N' : Nat), N ≤ N' → hiN m N ns ≤ hiN m N' ns
  | [], _, _, h => h
  | n :: ns, N, N', h => by
    apply hiN_mono m ns
    have := Nat.div_le_div_right (c := n) (Nat.sub_le_sub_right h 1)
    omega

/-- ★ `nested_multiplies_out`: along every root-to-leaf path of a nested splitting (any depth, any bin numbers) in
which each level satisfies the single-split bound (`populations_near_equal` + `sub_sample_inherits`), the leaf
population lies between the multiplied-out bounds `loN` and `hiN` — for `m = 0` and exact divisibility both are
`N / (n₁ n₂ …)` up to the `-1/+1` per level. -/
theorem nested_multiplies_out (m : Nat) : ∀ (path : List (Nat × Nat)) (N : Nat), PathOK m N path →
    loN m N (path.map (·.1)) ≤ lastPop N path ∧ lastPop N path ≤ hiN m N (path.map (·.1))
  | [], N, _ => ⟨Nat.le_refl _, Nat.le_refl _⟩
  | (n, N') :: rest, N, h => by
    obtain ⟨⟨h1, h2⟩, hrest⟩ := h
    obtain ⟨ih1, ih2⟩ := nested_multiplies_out m rest N' hrest
    simp only [List.map_cons, loN, hiN, lastPop]
    exact ⟨le_trans (loN_mono m _ _ _ (by omega)) ih1, le_trans ih2 (hiN_mono m _ _ _ h2)⟩

-- non-vacuity: 100 values, 4 bins then 3 bins, distinct values (m = 1): 25 → 8 is a valid path; bounds 6 … 10
example : PathOK 1 100 [(4, 25), (3, 8)] ∧ loN 1 100 [4, 3] = 6 ∧ hiN 1 100 [4, 3] = 10 := by
  refine ⟨?_, by decide, by decide⟩
  simp [PathOK, Near]

-- non-vacuity: the sample 0, 1, 2, 3 is 1e-6-separated, lies in [0, 4), two bins
example : ([0, 1, 2, 3] : List ℝ) ≠ [] ∧ (∀ x ∈ ([0, 1, 2, 3] : List ℝ), (0 : ℝ) ≤ x) ∧
    (∀ x ∈ ([0, 1, 2, 3] : List ℝ), x < 4) ∧ (∀ v ∈ ([0, 1, 2, 3] : List ℝ), cntWin [0, 1, 2, 3] delta v ≤ 1) := by
  refine ⟨by simp, ?_, ?_, ?_⟩
  · intro x hx; simp only [List.mem_cons, List.not_mem_nil, or_false] at hx
    rcases hx with rfl | rfl | rfl | rfl <;> norm_num
  · intro x hx; simp only [List.mem_cons, List.not_mem_nil, or_false] at hx
    rcases hx with rfl | rfl | rfl | rfl <;> norm_num
  · intro v hv; simp only [List.mem_cons, List.not_mem_nil, or_false] at hv
    rcases hv with rfl | rfl | rfl | rfl <;>
      (unfold cntWin delta; simp only [List.countP_cons, List.countP_nil]; norm_num)

end TfPwaV.C20e
