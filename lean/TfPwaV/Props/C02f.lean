import TfPwaV.Props.C01i
/-!
# C02 (chain order, continued) — one topology, opposite daughter order: the exact boundary of the listed finding
`chain-order:one-topology-opposite-daughter-order:half-integer-spin`

All chains of one topology read ONE set of angle data, computed by `cal_helicity_angle` for the FIRST declared chain of the topology
(the representative).  For the two-body top vertex `A → b c` the bias loop of `cal_helicity_angle` stores

* representative written `(b, c)` (orientation `O1`):  `b ↦ (α_b, β_b)`, `c ↦ (α_b − π, π − β_b)`, `α_b ∈ [−π, π)`;
* representative written `(c, b)` (orientation `O2`):  `c ↦ (α_c', π − β_b)`, `b ↦ (α_c' − π, β_b)`, `α_c' ∈ [−π, π)`, and
  `α_c' = α_b − π` if `α_b ≥ 0`, `α_c' = α_b + π` if `α_b < 0` (the same direction; `orientO2`, the flag `s = (α_b < 0)`).

So between the two orientations EXACTLY ONE of the two daughters has its azimuth moved by `2π` (`exactly_one_sheet_changes`): the SU(2)
element `Rotation_z(α)` of that daughter changes sign, and with it every route matrix `b_matrix[f]·r_matrix[f]` through that daughter
(`route_first_step_sheet`); nothing else in the data changes (the helicity axes handed down are geometric).

Theorems (spins `2j ≤ 8`, ALL events, ALL helicities; D-functions through the element-level statements of `Props/C01i.lean`):

1. `mkD_sheet` — the model's `get_D_matrix_lambda` at an Euler element multiplied by the central sign `±1` is `(±1)^{2j}` times itself,
   every row / column request (padding zeros included).  `top_D_orientation`: the top-vertex D-function a chain reads.
2. `chain_amp_sheet_signs` — ANY chain (any depth, any alignment list): top-vertex element and alignment elements multiplied by central
   signs ⇒ every component of the chain amplitude is multiplied by the product of the `(±1)^{2j}`.
3. **`opposite_orientation_factor`** — a chain whose final particles are aligned to a reference OUTSIDE the topology, read with the data
   of the orientation in which its first-written daughter is the representative's SECOND, versus the data of its own orientation:
   the amplitude tensor differs by the CONSTANT factor `(−1)^{Σ 2j_f, f below the second-written daughter}` `= (−1)^{2j_second}` —
   for every event (both values of `s`), given fermion-number conservation `2J_A + Σ 2j_f` even.
   `opposite_orientation_pair_factor` — two chains written `(b, c)` and `(c, b)`: the two factors multiply to `(−1)^{2J_A}`: the
   relative sign of the two chains changes by `(−1)^{2J_A}` when the declaration order (hence the representative) changes.
4. the density of the chains of ONE topology (the reproducer: no alignment between them; `sr = sk` otherwise):
   `one_topology_orientation_density` (the density with the `O2` data is the density with the `O1` data and the oppositely written
   chains multiplied by `(−1)^{2J_A}`), **`chain_order_invariant_integer_spin`**, **`chain_order_invariant_same_orientation`**,
   **`chain_order_dependence_witness`** (`2J_A = 1`, two oppositely written chains: the two declaration orders give densities `16` and `0`
   on the model — a kernel-checked real witness of the listed finding), `declared_order_relative_sign` (the interference term).

The reading of the real `cal_angle` / `get_amp` against these predictions (per-chain amplitude ratios of the two declaration orders,
per event, `1e-12`) is in `harness/c02_orient.py`.
-/
open Matrix BigOperators
open TfPwaV.ScalarR
namespace TfPwaV.C02f
open TfPwaV.SU2R TfPwaV.AlignR TfPwaV.KinR TfPwaV.AngleR TfPwaV.SL2CR TfPwaV.LorentzSLR TfPwaV.CascadeR TfPwaV.RouteRestR
open TfPwaV.C12 TfPwaV.C02 TfPwaV.C01 TfPwaV.C11 TfPwaV.AxesInd TfPwaV.UnitaryMix TfPwaV.FrameAlg TfPwaV.C01h TfPwaV.C01i
open TfPwaV.LineShapeR

/-! ## (0) the two sheets -/

/-- the central sign of SU(2): `−1` (`true`) or `+1` (`false`) -/
def sgnM (s : Bool) : M2 := if s then negOne else M2.one

/-- its value in the spin-`N/2` representation: `(−1)^{2j}` or `1` -/
def sgnC (s : Bool) (N : ℕ) : ℂ := if s then (-1 : ℂ) ^ N else 1

theorem sgnC_false (N : ℕ) : sgnC false N = 1 := rfl
theorem sgnC_true (N : ℕ) : sgnC true N = (-1 : ℂ) ^ N := rfl

theorem sgnC_sq (s : Bool) (N : ℕ) : sgnC s N * sgnC s N = 1 := by
  cases s
  · simp [sgnC]
  · simp only [sgnC, if_true]
    rw [← pow_add, ← two_mul, pow_mul]
    simp

theorem sgnC_normSq (s : Bool) (N : ℕ) : Complex.normSq (sgnC s N) = 1 := by
  cases s <;> simp [sgnC]

/-- `(−1)^{2j}` for an even `2j` (integer spin) -/
theorem sgnC_even (s : Bool) (N : ℕ) (h : Even N) : sgnC s N = 1 := by
  cases s
  · rfl
  · simp only [sgnC, if_true]
    exact h.neg_one_pow

theorem sgnC_not_mul (s : Bool) (N : ℕ) : sgnC (!s) N * sgnC s N = (-1 : ℂ) ^ N := by
  cases s <;> simp [sgnC]

theorem sgnC_not_mul_pow (s : Bool) (N : ℕ) : sgnC (!s) N * (-1 : ℂ) ^ N = sgnC s N := by
  cases s
  · simp only [Bool.not_false, sgnC, if_true, Bool.false_eq_true, if_false]
    rw [← pow_add, ← two_mul, pow_mul]
    simp
  · simp [sgnC]

theorem sgnM_mul (s : Bool) (x : M2) : (sgnM s).mul x = if s then negOne.mul x else x := by
  cases s <;> simp [sgnM, M2.one_mul]

/-! ## (1) what the bias loop of `cal_helicity_angle` stores for the two orientations -/

/-- `(α, β)` stored for the first-listed daughter and for the second one (`α − π`, `π − β`: the range `[−2π, 0)` of the second pass
of the bias loop and the opposite direction) -/
noncomputable def orient (a β : ℝ) : (ℝ × ℝ) × (ℝ × ℝ) := ((a, β), (a - Real.pi, Real.pi - β))

/-- the representative written `(b, c)`: data of `b`, data of `c` -/
noncomputable def orientO1 (αb βb : ℝ) : (ℝ × ℝ) × (ℝ × ℝ) := orient αb βb

/-- the representative written `(c, b)`, returned in the SAME order (data of `b`, data of `c`): `c` is listed first, its azimuth is the
direction of `c` reduced to `[−π, π)`: `α_b − π` if `α_b ≥ 0` (`s = false`), `α_b + π` if `α_b < 0` (`s = true`) -/
noncomputable def orientO2 (s : Bool) (αb βb : ℝ) : (ℝ × ℝ) × (ℝ × ℝ) :=
  let o := orient (αb - Real.pi + (if s then 2 * Real.pi else 0)) (Real.pi - βb)
  (o.2, o.1)

/-- the flag `s` IS forced by the ranges: both first-listed azimuths in `[−π, π)` and the same direction (`α_c' = α_b − π + 2πn`) leave
`n = 0` for `α_b ≥ 0` and `n = 1` for `α_b < 0` -/
theorem orientation_flag_of_ranges (αb : ℝ) (n : ℤ) (hb : -Real.pi ≤ αb ∧ αb < Real.pi)
    (hc : -Real.pi ≤ αb - Real.pi + 2 * Real.pi * n ∧ αb - Real.pi + 2 * Real.pi * n < Real.pi) :
    (0 ≤ αb → n = 0) ∧ (αb < 0 → n = 1) := by
  have hpi := Real.pi_pos
  have h0 : (-1 : ℝ) < n := by
    by_contra hcon
    push Not at hcon
    nlinarith
  have h1 : (n : ℝ) < 2 := by
    by_contra hcon
    push Not at hcon
    nlinarith
  have h0' : (-1 : ℤ) < n := by exact_mod_cast h0
  have h1' : n < 2 := by exact_mod_cast h1
  constructor
  · intro hpos
    by_contra hne
    have : n = 1 := by omega
    subst this
    push_cast at hc
    nlinarith
  · intro hneg
    by_contra hne
    have : n = 0 := by omega
    subst this
    push_cast at hc
    nlinarith

/-- the polar angles agree in the two orientations -/
theorem orient_beta (s : Bool) (αb βb : ℝ) :
    (orientO2 s αb βb).1.2 = (orientO1 αb βb).1.2 ∧ (orientO2 s αb βb).2.2 = (orientO1 αb βb).2.2 := by
  simp only [orientO2, orientO1, orient]
  exact ⟨by ring, trivial⟩

theorem rotZ_neg_two_pi : rotZ (-(2 * Real.pi)) = negOne := by
  rw [rotZ_eq]
  have e : -(2 * Real.pi) / 2 = -Real.pi := by ring
  rw [e, Real.cos_neg, Real.sin_neg, Real.cos_pi, Real.sin_pi]
  ext <;> simp [negOne]

/-- **`exactly_one_sheet_changes`** — ALL `α_b`, both values of the flag: between the two orientations the `Rotation_z` element of daughter
`c` is multiplied by the central sign `sgnM s` and that of daughter `b` by `sgnM (!s)`: exactly one of the two changes sheet. -/
theorem exactly_one_sheet_changes (s : Bool) (αb βb : ℝ) :
    rotZ (orientO2 s αb βb).2.1 = (sgnM s).mul (rotZ (orientO1 αb βb).2.1) ∧
      rotZ (orientO2 s αb βb).1.1 = (sgnM (!s)).mul (rotZ (orientO1 αb βb).1.1) := by
  simp only [orientO2, orientO1, orient]
  cases s
  · simp only [Bool.false_eq_true, if_false, add_zero, sgnM, Bool.not_false, if_true]
    refine ⟨(M2.one_mul _).symm, ?_⟩
    have e : αb - Real.pi - Real.pi = -(2 * Real.pi) + αb := by ring
    rw [e, rotZ_add, rotZ_neg_two_pi]
  · simp only [if_true, sgnM, Bool.not_true, Bool.false_eq_true, if_false]
    refine ⟨?_, ?_⟩
    · have e : αb - Real.pi + 2 * Real.pi = 2 * Real.pi + (αb - Real.pi) := by ring
      rw [e, rotZ_add, rotZ_two_pi]
    · have e : αb - Real.pi + 2 * Real.pi - Real.pi = αb := by ring
      rw [e, M2.one_mul]

/-- the Euler element `Rz(α)Ry(β)Rz(γ)` follows the sheet of its first factor -/
theorem rot3_sheet (s : Bool) (a a' b g : ℝ) (h : rotZ a' = (sgnM s).mul (rotZ a)) :
    rot3 a' b g = (sgnM s).mul (rot3 a b g) := by
  unfold rot3
  rw [h]
  simp only [su2_mul_assoc]

/-- the vertex rotation `r = Rotation_y(β)·Rotation_z(α)` of `cal_helicity_angle` follows the sheet of the azimuth -/
theorem stepR_sheet (s : Bool) (a a' b : ℝ) (h : rotZ a' = (sgnM s).mul (rotZ a)) :
    stepR a' b = (sgnM s).mul (stepR a b) := by
  unfold stepR
  rw [h]
  cases s
  · simp [sgnM, M2.one_mul]
  · simp only [sgnM, if_true]
    rw [← su2_mul_assoc, ← negOne_comm, su2_mul_assoc]

/-- **`route_first_step_sheet`** — the route matrix `b_matrix[f]·r_matrix[f] = routeM(steps)` of EVERY particle below a daughter of the top
particle (any depth: `rest` arbitrary) follows the sheet of that daughter's azimuth: the sign is central. -/
theorem route_first_step_sheet (s : Bool) (a a' b ω : ℝ) (rest : List Step) (h : rotZ a' = (sgnM s).mul (rotZ a)) :
    routeM (⟨a', b, ω⟩ :: rest) = (sgnM s).mul (routeM (⟨a, b, ω⟩ :: rest)) := by
  rw [routeM_cons, routeM_cons]
  unfold stepM
  simp only
  rw [stepR_sheet s a a' b h]
  cases s
  · simp [sgnM, M2.one_mul]
  · simp only [sgnM, if_true]
    rw [negOne_comm, ← su2_mul_assoc, ← su2_mul_assoc, ← negOne_comm, su2_mul_assoc]

/-- the alignment element `M_ref·M_k⁻¹` when both routes change by central signs: the product of the two signs -/
theorem align_sheet (sr sk : Bool) (ρ ρ' k k' : Route) (hr : routeM ρ'.list = (sgnM sr).mul (routeM ρ.list))
    (hk : routeM k'.list = (sgnM sk).mul (routeM k.list)) :
    alignR ρ'.b ρ'.r k'.r k'.b = (sgnM (xor sr sk)).mul (alignR ρ.b ρ.r k.r k.b) := by
  have e : negOne.inv = negOne := by ext <;> simp [M2.inv, negOne, SU2R.Cx.neg, SU2R.Cx.zero]
  rw [alignR_eq_routes, alignR_eq_routes, hr, hk]
  cases sr <;> cases sk <;> simp only [sgnM, if_true, if_false, Bool.false_eq_true, Bool.xor_false, Bool.xor_true, Bool.not_false,
    Bool.not_true, M2.one_mul, M2.inv_mul, e]
  · rw [← su2_mul_assoc, ← negOne_comm]
  · rw [su2_mul_assoc]
  · rw [← negOne_comm (routeM k.list).inv, su2_mul_assoc, ← su2_mul_assoc (routeM ρ.list), ← negOne_comm (routeM ρ.list),
      su2_mul_assoc, ← su2_mul_assoc negOne negOne, negOne_mul_negOne, M2.one_mul]

/-! ## (2) the D-functions -/

/-- **`mkD_sheet`** — spin `2j = N ≤ 8`, ALL angles, EVERY row request `l` and column request `δ` (padding zeros included): if the Euler
element is multiplied by the central sign, `get_D_matrix_lambda` is multiplied by `(±1)^{2j}`. -/
theorem mkD_sheet (N : ℕ) (hN : N ≤ 8) (s : Bool) (a b g a' b' g' : ℝ)
    (h : rot3 a' b' g' = (sgnM s).mul (rot3 a b g)) (l δ : Int) :
    toC (AmpR.mkD N a' b' g' l δ) = sgnC s N * toC (AmpR.mkD N a b g l δ) := by
  cases s
  · simp only [sgnM, Bool.false_eq_true, if_false, M2.one_mul] at h
    have hD := DConj_of_element N hN a b g a' b' g' h
    rw [sgnC_false, one_mul]
    by_cases hr : ((l + (N : Int)) / 2).toNat < N + 1
    · rw [AmpR.mkD_row_eq N l δ a' b' g' hr, AmpR.mkD_row_eq N l δ a b g hr, AmpR.toC_mkD, AmpR.toC_mkD, hD]
    · rw [AmpR.mkD_row_zero N l δ a' b' g' hr, AmpR.mkD_row_zero N l δ a b g hr]
  · simp only [sgnM, if_true] at h
    have hD := DConj_left_mul N hN negOne isSU2_negOne a b g a' b' g' h
    rw [DE_negOne N hN] at hD
    rw [sgnC_true]
    by_cases hr : ((l + (N : Int)) / 2).toNat < N + 1
    · rw [AmpR.mkD_row_eq N l δ a' b' g' hr, AmpR.mkD_row_eq N l δ a b g hr, AmpR.toC_mkD, AmpR.toC_mkD]
      split_ifs with hd
      · rw [hD]
        simp [Matrix.smul_apply]
      · simp
    · rw [AmpR.mkD_row_zero N l δ a' b' g' hr, AmpR.mkD_row_zero N l δ a b g hr, AmpR.toC_zero, mul_zero]

/-- **`top_D_orientation`** — the top-vertex D-function `D^{J*}(α, β, 0)` (`2J = N ≤ 8`) read by a chain written `(b, c)` (it reads the
data of `b`) and by a chain written `(c, b)` (it reads the data of `c`), in the two orientations of the representative: ALL `α_b, β_b`,
both values of the flag, every helicity request. -/
theorem top_D_orientation (N : ℕ) (hN : N ≤ 8) (s : Bool) (αb βb : ℝ) (l δ : Int) :
    toC (AmpR.mkD N (orientO2 s αb βb).2.1 (orientO2 s αb βb).2.2 0 l δ) =
        sgnC s N * toC (AmpR.mkD N (orientO1 αb βb).2.1 (orientO1 αb βb).2.2 0 l δ) ∧
      toC (AmpR.mkD N (orientO2 s αb βb).1.1 (orientO2 s αb βb).1.2 0 l δ) =
        sgnC (!s) N * toC (AmpR.mkD N (orientO1 αb βb).1.1 (orientO1 αb βb).1.2 0 l δ) := by
  obtain ⟨hc, hb⟩ := exactly_one_sheet_changes s αb βb
  obtain ⟨eb, ec⟩ := orient_beta s αb βb
  rw [eb, ec]
  exact ⟨mkD_sheet N hN s _ _ _ _ _ _ (rot3_sheet s _ _ _ _ hc) l δ, mkD_sheet N hN (!s) _ _ _ _ _ _ (rot3_sheet (!s) _ _ _ _ hb) l δ⟩

-- the fermion sign is real: for `2j = 1` the other sheet flips the sign, for `2j = 2` it does not
example : sgnC true 1 = -1 ∧ sgnC true 2 = 1 := by constructor <;> simp [sgnC]

/-! ## (3) one chain: central signs on the top vertex and on the alignment elements -/

/-- the product of the alignment signs of a chain -/
noncomputable def alignSign (N : Nat → Nat) (sa : AmpR.Align → Bool) (C : AmpR.Chain) : ℂ :=
  (C.aligns.map fun A => sgnC (sa A) (N A.p)).prod

/-- **`chain_amp_sheet_signs`** — ANY chain of the amplitude model (`templates/Amp.lean.in`: any number of lower vertices, any alignment
list, any index lists), top spin `2J = NT ≤ 8`, final spins `N p ≤ 8`, ALL angles: if the Euler element of the top-vertex D-function is
multiplied by the central sign `sgnM st` and the Euler element of the alignment D-function of every aligned final particle by
`sgnM (sa A)`, every component `(λ_top, finals)` of `DecayChain.get_amp` is multiplied by `(±1)^{2J} · Π_A (±1)^{2j_A}`. -/
theorem chain_amp_sheet_signs (NT : ℕ) (hNT : NT ≤ 8) (N : Nat → Nat) (C : AmpR.Chain) (hNa : ∀ A ∈ C.aligns, N A.p ≤ 8)
    (st : Bool) (sa : AmpR.Align → Bool) (ang' ang : ℝ × ℝ) (al' al : AmpR.Align → ℝ × ℝ × ℝ)
    (htop : rot3 ang'.1 ang'.2 0 = (sgnM st).mul (rot3 ang.1 ang.2 0))
    (hal : ∀ A ∈ C.aligns, rot3 (al' A).1 (al' A).2.1 (al' A).2.2 = (sgnM (sa A)).mul (rot3 (al A).1 (al A).2.1 (al A).2.2))
    (la : Int) (ext : AmpR.Hel) :
    toC (C.ampWith (AmpR.mkD NT ang'.1 ang'.2 0) (fun A => mkD3 (N A.p) (al' A)) la ext) =
      (sgnC st NT * alignSign N sa C) *
        toC (C.ampWith (AmpR.mkD NT ang.1 ang.2 0) (fun A => mkD3 (N A.p) (al A)) la ext) := by
  rw [← AmpR.ampG_stored]
  apply AmpR.ampG_gauge_ext (fun _ _ => True) (fun _ => True) C (fun _ _ _ _ => trivial)
    (AmpR.mkD NT ang'.1 ang'.2 0) (AmpR.mkD NT ang.1 ang.2 0) (fun v => v.D) (fun A => mkD3 (N A.p) (al' A))
    (fun A => mkD3 (N A.p) (al A)) (fun _ => sgnC st NT) (fun _ _ => 1) (fun A _ => sgnC (sa A) (N A.p)) (fun _ _ => 1) la
  · intro δ
    rw [mkD_sheet NT hNT st _ _ _ _ _ _ htop la δ, mul_comm]
  · intro v _ l δ
    rw [one_mul]
  · intro A hA l m
    rw [mul_one]
    exact mkD_sheet (N A.p) (hNa A hA) (sa A) _ _ _ _ _ _ (hal A hA) l m
  · intro p _
    trivial
  · intro h _
    unfold AmpR.Chain.gaugeProd alignSign
    simp

/-! ## (4) `opposite_orientation_factor` -/

/-- sum of the doubled spins of the aligned final particles selected by `sel` -/
def spinSum (N : Nat → Nat) (sel : AmpR.Align → Bool) : List AmpR.Align → ℕ
  | [] => 0
  | A :: r => (if sel A then N A.p else 0) + spinSum N sel r

theorem prod_sgnC_select (N : Nat → Nat) (s : Bool) (sel : AmpR.Align → Bool) (L : List AmpR.Align) :
    (L.map fun A => sgnC (if sel A then s else !s) (N A.p)).prod =
      sgnC s (spinSum N sel L) * sgnC (!s) (spinSum N (fun A => !sel A) L) := by
  induction L with
  | nil => simp [spinSum, sgnC]
  | cons A r ih =>
    simp only [List.map_cons, List.prod_cons, ih, spinSum]
    rcases Bool.eq_false_or_eq_true (sel A) with hsel | hsel <;> cases s <;> simp [hsel, sgnC, pow_add]

/-- **`opposite_orientation_factor`** — top spin `2J_A = NT ≤ 8`, final spins `≤ 8`, ANY chain `C` (any depth) whose aligned final particles
are referred to reference routes that do not change (a reference chain of another topology), `below1 A` = "the aligned particle `A` is
below the chain's FIRST-written daughter".  `(ang, al)`: the angles of the chain's own orientation (its first daughter is listed first by
the representative); `(ang', al')`: the angles of the opposite orientation, in which (`exactly_one_sheet_changes`,
`route_first_step_sheet`, `align_sheet`) the element of the first-written daughter and of every route through it carry the sign `sgnM s`
and those through the second-written daughter the sign `sgnM (!s)` — `s` depends on the EVENT (the sign of the azimuth).  With
fermion-number conservation (`NT + Σ_A N_A` even) every component of the chain amplitude differs by the CONSTANT
`(−1)^{Σ 2j_f, f below the second-written daughter}`, whatever `s`: `+1`/`−1` according to whether the second-written daughter is a
boson/fermion.  ALL events, ALL helicities. -/
theorem opposite_orientation_factor (NT : ℕ) (hNT : NT ≤ 8) (N : Nat → Nat) (C : AmpR.Chain) (hNa : ∀ A ∈ C.aligns, N A.p ≤ 8)
    (below1 : AmpR.Align → Bool) (hpar : Even (NT + spinSum N (fun _ => true) C.aligns))
    (s : Bool) (ang' ang : ℝ × ℝ) (al' al : AmpR.Align → ℝ × ℝ × ℝ)
    (htop : rot3 ang'.1 ang'.2 0 = (sgnM s).mul (rot3 ang.1 ang.2 0))
    (hal : ∀ A ∈ C.aligns, rot3 (al' A).1 (al' A).2.1 (al' A).2.2 =
      (sgnM (if below1 A then s else !s)).mul (rot3 (al A).1 (al A).2.1 (al A).2.2))
    (la : Int) (ext : AmpR.Hel) :
    toC (C.ampWith (AmpR.mkD NT ang'.1 ang'.2 0) (fun A => mkD3 (N A.p) (al' A)) la ext) =
      (-1 : ℂ) ^ spinSum N (fun A => !below1 A) C.aligns *
        toC (C.ampWith (AmpR.mkD NT ang.1 ang.2 0) (fun A => mkD3 (N A.p) (al A)) la ext) := by
  rw [chain_amp_sheet_signs NT hNT N C hNa s (fun A => if below1 A then s else !s) ang' ang al' al htop hal la ext]
  congr 1
  unfold alignSign
  rw [prod_sgnC_select]
  have hsplit : ∀ L : List AmpR.Align, spinSum N (fun _ => true) L = spinSum N below1 L + spinSum N (fun A => !below1 A) L := by
    intro L
    induction L with
    | nil => rfl
    | cons A r ih =>
      simp only [spinSum, ih, if_true]
      rcases Bool.eq_false_or_eq_true (below1 A) with hsel | hsel <;> simp [hsel] <;> ring
  cases s
  · simp [sgnC]
  · simp only [sgnC, if_true, Bool.not_true, Bool.false_eq_true, if_false, mul_one]
    rw [hsplit, ← add_assoc] at hpar
    rw [← pow_add]
    obtain ⟨k, hk⟩ := hpar
    have : (-1 : ℂ) ^ (NT + spinSum N below1 C.aligns) * (-1 : ℂ) ^ spinSum N (fun A => !below1 A) C.aligns = 1 := by
      rw [← pow_add, hk, ← two_mul, pow_mul]
      simp
    have h2 : (-1 : ℂ) ^ spinSum N (fun A => !below1 A) C.aligns * (-1 : ℂ) ^ spinSum N (fun A => !below1 A) C.aligns = 1 := by
      rw [← pow_add, ← two_mul, pow_mul]
      simp
    calc (-1 : ℂ) ^ (NT + spinSum N below1 C.aligns)
        = (-1 : ℂ) ^ (NT + spinSum N below1 C.aligns) *
            ((-1 : ℂ) ^ spinSum N (fun A => !below1 A) C.aligns * (-1 : ℂ) ^ spinSum N (fun A => !below1 A) C.aligns) := by
          rw [h2, mul_one]
      _ = (-1 : ℂ) ^ spinSum N (fun A => !below1 A) C.aligns := by
          rw [← mul_assoc, this, one_mul]

/-- **`opposite_orientation_pair_factor`** — two chains of one topology written `(b, c)` and `(c, b)` over the same aligned final particles
(`below_b`: the particle is below `b`): the constant factors of `opposite_orientation_factor` — `(−1)^{Σ below c}` for the chain written
`(b, c)`, `(−1)^{Σ below b}` for the one written `(c, b)` — multiply to `(−1)^{2J_A}`: declaring the chains in the other order (the other
chain becomes the representative) changes their RELATIVE sign by `(−1)^{2J_A}`. -/
theorem opposite_orientation_pair_factor (NT : ℕ) (N : Nat → Nat) (L : List AmpR.Align) (below_b : AmpR.Align → Bool)
    (hpar : Even (NT + spinSum N (fun _ => true) L)) :
    (-1 : ℂ) ^ spinSum N (fun A => !below_b A) L * (-1 : ℂ) ^ spinSum N (fun A => !!below_b A) L = (-1 : ℂ) ^ NT := by
  have hsplit : ∀ L : List AmpR.Align, spinSum N (fun _ => true) L = spinSum N (fun A => !below_b A) L + spinSum N (fun A => !!below_b A) L := by
    intro L
    induction L with
    | nil => rfl
    | cons A r ih =>
      simp only [spinSum, ih, if_true]
      rcases Bool.eq_false_or_eq_true (below_b A) with hsel | hsel <;> simp [hsel] <;> ring
  rw [hsplit] at hpar
  rw [← pow_add]
  obtain ⟨k, hk⟩ := hpar
  have h1 : (-1 : ℂ) ^ NT * (-1 : ℂ) ^ (spinSum N (fun A => !below_b A) L + spinSum N (fun A => !!below_b A) L) = 1 := by
    rw [← pow_add, hk, ← two_mul, pow_mul]
    simp
  have h2 : (-1 : ℂ) ^ NT * (-1 : ℂ) ^ NT = 1 := by
    rw [← pow_add, ← two_mul, pow_mul]
    simp
  calc (-1 : ℂ) ^ (spinSum N (fun A => !below_b A) L + spinSum N (fun A => !!below_b A) L)
      = ((-1 : ℂ) ^ NT * (-1 : ℂ) ^ NT) * (-1 : ℂ) ^ (spinSum N (fun A => !below_b A) L + spinSum N (fun A => !!below_b A) L) := by
        rw [h2, one_mul]
    _ = (-1 : ℂ) ^ NT := by
        rw [mul_assoc, h1, mul_one]

-- non-vacuity of the parity hypothesis and a non-trivial factor: `A(1/2) → R(1/2) D(0)`, `R → B(1/2) C(0)`, chain written `(D, R)`:
-- the finals `B`, `C` are below the SECOND-written daughter, the factor is `(−1)^{1+0} = −1`
example : Even (1 + spinSum (fun p => if p = 1 then 1 else 0) (fun _ => true) [⟨1, fun _ _ => ⟨0, 0⟩⟩, ⟨2, fun _ _ => ⟨0, 0⟩⟩, ⟨3, fun _ _ => ⟨0, 0⟩⟩]) ∧
    (-1 : ℂ) ^ spinSum (fun p => if p = 1 then 1 else 0) (fun A => !(A.p == 3))
      [⟨1, fun _ _ => ⟨0, 0⟩⟩, ⟨2, fun _ _ => ⟨0, 0⟩⟩, ⟨3, fun _ _ => ⟨0, 0⟩⟩] = -1 := by
  constructor
  · decide
  · simp [spinSum]

/-! ## (5) the chains of ONE topology: the density in the two declaration orders -/

/-- **`density_top_signs`** — ANY list of chains (any topology, depth, alignment lists `Dal` — unchanged —, index lists): if the
top-vertex D-function of every chain is multiplied by the SAME unit-modulus number, the density `sum_amp` is unchanged. -/
theorem density_top_signs (cs : List AmpR.Chain) (Dtop' Dtop : AmpR.Chain → Int → Int → LineShapeR.Cx)
    (Dal : AmpR.Chain → AmpR.Align → Int → Int → LineShapeR.Cx) (tops : List Int) (finals : List (Nat × List Int)) (Ξ : ℂ)
    (hΞ : Complex.normSq Ξ = 1) (h : ∀ C ∈ cs, ∀ la δ, toC (Dtop' C la δ) = Ξ * toC (Dtop C la δ)) :
    AmpR.densityWith cs Dtop' Dal tops finals = AmpR.densityWith cs Dtop Dal tops finals := by
  rw [← AmpR.densityG_stored]
  apply AmpR.densityG_gauge_ext (fun _ _ => True) cs tops finals (fun _ _ _ _ => trivial) (fun _ _ _ _ _ _ => trivial)
    Dtop' Dtop (fun _ v => v.D) Dal Dal (fun _ _ => Ξ) (fun _ _ _ => 1) (fun _ _ _ => 1) (fun _ _ _ => 1) (fun _ => Ξ)
    (fun _ _ => hΞ)
  · intro C hC la _ δ
    rw [h C hC la δ, mul_comm]
  · intro C _ v _ l δ
    rw [one_mul]
  · intro C _ A _ l m
    rw [one_mul, mul_one]
  · intro C _ ext _ h _
    unfold AmpR.Chain.gaugeProd
    simp

/-- the top-vertex D-function a chain of the topology reads from data `o` (`o.1`: data of `b`, `o.2`: data of `c`): a chain written
`(b, c)` (`opp = false`) reads `b`'s angles, a chain written `(c, b)` (`opp = true`) reads `c`'s -/
noncomputable def topD (NT : ℕ) (o : (ℝ × ℝ) × (ℝ × ℝ)) (opp : Bool) : Int → Int → LineShapeR.Cx :=
  if opp then AmpR.mkD NT o.2.1 o.2.2 0 else AmpR.mkD NT o.1.1 o.1.2 0

/-- a D-function multiplied by `(−1)^{2J}` -/
noncomputable def flipD (NT : ℕ) (D : Int → Int → LineShapeR.Cx) : Int → Int → LineShapeR.Cx := fun l δ => LineShapeR.Cx.smul ((-1 : ℝ) ^ NT) (D l δ)

theorem toC_flipD (NT : ℕ) (D : Int → Int → LineShapeR.Cx) (l δ : Int) : toC (flipD NT D l δ) = (-1 : ℂ) ^ NT * toC (D l δ) := by
  unfold flipD
  rw [toC_smul]
  push_cast
  rfl

/-- **`chain_order_invariant_integer_spin`** — top spin `2J_A = NT ≤ 8` EVEN (integer `J_A`): ANY list of chains of the topology, written
either way round (`opp`), ALL `α_b, β_b`, both values of the event flag: the density computed from the data of orientation `O2` equals the
density computed from the data of `O1` — the declaration order of the chains of the topology is immaterial. -/
theorem chain_order_invariant_integer_spin (NT : ℕ) (hNT : NT ≤ 8) (hev : Even NT) (cs : List AmpR.Chain) (opp : AmpR.Chain → Bool)
    (s : Bool) (αb βb : ℝ) (Dal : AmpR.Chain → AmpR.Align → Int → Int → LineShapeR.Cx) (tops : List Int) (finals : List (Nat × List Int)) :
    AmpR.densityWith cs (fun C => topD NT (orientO2 s αb βb) (opp C)) Dal tops finals =
      AmpR.densityWith cs (fun C => topD NT (orientO1 αb βb) (opp C)) Dal tops finals := by
  apply density_top_signs cs _ _ Dal tops finals 1 (by simp)
  intro C _ la δ
  obtain ⟨hc, hb⟩ := top_D_orientation NT hNT s αb βb la δ
  unfold topD
  cases opp C
  · simp only [Bool.false_eq_true, if_false]
    rw [hb, sgnC_even _ _ hev]
  · simp only [if_true]
    rw [hc, sgnC_even _ _ hev]

/-- **`chain_order_invariant_same_orientation`** — ANY top spin `2J_A ≤ 8` (half-integer included): if ALL chains of the topology are
written with the same daughter order (`opp` constant on the list), the density computed from the `O2` data equals the one computed from
the `O1` data (every chain acquires the same sign, which depends on the event only). -/
theorem chain_order_invariant_same_orientation (NT : ℕ) (hNT : NT ≤ 8) (cs : List AmpR.Chain) (opp : AmpR.Chain → Bool) (o : Bool)
    (hsame : ∀ C ∈ cs, opp C = o)
    (s : Bool) (αb βb : ℝ) (Dal : AmpR.Chain → AmpR.Align → Int → Int → LineShapeR.Cx) (tops : List Int) (finals : List (Nat × List Int)) :
    AmpR.densityWith cs (fun C => topD NT (orientO2 s αb βb) (opp C)) Dal tops finals =
      AmpR.densityWith cs (fun C => topD NT (orientO1 αb βb) (opp C)) Dal tops finals := by
  apply density_top_signs cs _ _ Dal tops finals (sgnC (if o then s else !s) NT) (sgnC_normSq _ _)
  intro C hC la δ
  obtain ⟨hc, hb⟩ := top_D_orientation NT hNT s αb βb la δ
  unfold topD
  rw [hsame C hC]
  cases o
  · simp only [Bool.false_eq_true, if_false]
    exact hb
  · simp only [if_true]
    exact hc

/-- **`one_topology_orientation_density`** (the finding, as an identity) — ANY top spin `2J_A = NT ≤ 8`, ANY list of chains of the topology,
ALL `α_b, β_b`, both values of the event flag: the density computed from the `O2` data IS the density computed from the `O1` data with the
amplitude of every OPPOSITELY written chain multiplied by `(−1)^{2J_A}`.  For half-integer `J_A` the interference between a chain
written `(b, c)` and one written `(c, b)` has the opposite sign in the two declaration orders. -/
theorem one_topology_orientation_density (NT : ℕ) (hNT : NT ≤ 8) (cs : List AmpR.Chain) (opp : AmpR.Chain → Bool)
    (s : Bool) (αb βb : ℝ) (Dal : AmpR.Chain → AmpR.Align → Int → Int → LineShapeR.Cx) (tops : List Int) (finals : List (Nat × List Int)) :
    AmpR.densityWith cs (fun C => topD NT (orientO2 s αb βb) (opp C)) Dal tops finals =
      AmpR.densityWith cs (fun C => if opp C then flipD NT (topD NT (orientO1 αb βb) true) else topD NT (orientO1 αb βb) false)
        Dal tops finals := by
  apply density_top_signs cs _ _ Dal tops finals (sgnC (!s) NT) (sgnC_normSq _ _)
  intro C _ la δ
  obtain ⟨hc, hb⟩ := top_D_orientation NT hNT s αb βb la δ
  cases opp C
  · simp only [Bool.false_eq_true, if_false, topD]
    exact hb
  · simp only [if_true, topD, toC_flipD]
    rw [hc, ← mul_assoc, sgnC_not_mul_pow]

/-- the interference term: for two complex amplitudes `|a₁ + σ a₂|² = |a₁|² + |a₂|² + 2σ·Re(a₁ conj a₂)` for `σ = ±1`: the two declaration
orders differ by `4·Re(a₁ conj a₂)` when `σ = −1` (half-integer `J_A`) -/
theorem declared_order_relative_sign (a1 a2 : ℂ) :
    Complex.normSq (a1 + a2) - Complex.normSq (a1 + (-1) * a2) = 4 * (a1 * (starRingEnd ℂ) a2).re := by
  simp only [Complex.normSq_apply, Complex.add_re, Complex.add_im, Complex.mul_re, Complex.mul_im, Complex.conj_re, Complex.conj_im,
    Complex.neg_re, Complex.neg_im, Complex.one_re, Complex.one_im]
  ring

/-- a one-vertex chain `0 → b c` with constant helicity couplings (`H = 1`), no propagators, no alignment -/
def wChain (b c : Nat) : AmpR.Chain :=
  ⟨⟨1, 0⟩, [], ⟨0, b, c, fun _ _ => ⟨1, 0⟩, fun _ _ => ⟨1, 0⟩⟩, [], [], []⟩

/-- **`chain_order_dependence_witness`** — `2J_A = 1`: two chains of one topology written `(1, 2)` and `(2, 1)` (daughter 1 of spin 1/2,
daughter 2 of spin 0, both final), D-functions `D` for the `O1` data: with the relation `one_topology_orientation_density` proves for the
`O2` data (the oppositely written chain multiplied by `(−1)^{2J_A} = −1`) the two declaration orders give the densities `16` and `0` on
the executable model — they differ.  Kernel-checked over ℝ. -/
theorem chain_order_dependence_witness :
    ∃ (cs : List AmpR.Chain) (opp : AmpR.Chain → Bool) (D : Int → Int → LineShapeR.Cx),
      AmpR.densityWith cs (fun _ => D) (fun _ A => A.D) [-1, 1] [(1, [-1, 1]), (2, [0])] = 16 ∧
      AmpR.densityWith cs (fun C => if opp C then flipD 1 D else D) (fun _ A => A.D) [-1, 1] [(1, [-1, 1]), (2, [0])] = 0 := by
  refine ⟨[wChain 1 2, wChain 2 1], fun C => C.top.b == 2, fun _ _ => ⟨1, 0⟩, ?_, ?_⟩
  · simp [AmpR.densityWith, AmpR.groupAmpWith, AmpR.Chain.ampWith, AmpR.Chain.term, AmpR.sumOver, AmpR.sumOverR, AmpR.rsum,
      AmpR.csum, AmpR.cprod, wChain, LineShapeR.Cx.mul, LineShapeR.Cx.add, LineShapeR.Cx.normSq]
    norm_num
  · simp [AmpR.densityWith, AmpR.groupAmpWith, AmpR.Chain.ampWith, AmpR.Chain.term, AmpR.sumOver, AmpR.sumOverR, AmpR.rsum,
      AmpR.csum, AmpR.cprod, wChain, flipD, LineShapeR.Cx.smul, LineShapeR.Cx.mul, LineShapeR.Cx.add, LineShapeR.Cx.normSq]

/-! ## (6) non-vacuity of the hypotheses and the boundary with a chain of another topology -/

-- `mkD_sheet` / `chain_amp_sheet_signs` / `opposite_orientation_factor`: the element hypotheses are satisfied by the angles the two
-- orientations store (`exactly_one_sheet_changes` + `rot3_sheet`), for every `α_b, β_b` and both values of the flag
example (s : Bool) (αb βb : ℝ) :
    rot3 (orientO2 s αb βb).2.1 (orientO1 αb βb).2.2 0 = (sgnM s).mul (rot3 (orientO1 αb βb).2.1 (orientO1 αb βb).2.2 0) :=
  rot3_sheet s _ _ _ _ (exactly_one_sheet_changes s αb βb).1

-- `orientation_flag_of_ranges`: the range hypotheses are satisfiable with both outcomes (`α_b = 1`: `n = 0`; `α_b = −1`: `n = 1`)
example : (-Real.pi ≤ (1 : ℝ) ∧ (1 : ℝ) < Real.pi) ∧
    (-Real.pi ≤ (1 : ℝ) - Real.pi + 2 * Real.pi * ((0 : ℤ) : ℝ) ∧ (1 : ℝ) - Real.pi + 2 * Real.pi * ((0 : ℤ) : ℝ) < Real.pi) := by
  have h3 := Real.two_le_pi
  refine ⟨⟨by linarith, by linarith⟩, ⟨by push_cast; linarith, by push_cast; linarith⟩⟩

example : (-Real.pi ≤ (-1 : ℝ) ∧ (-1 : ℝ) < Real.pi) ∧
    (-Real.pi ≤ (-1 : ℝ) - Real.pi + 2 * Real.pi * ((1 : ℤ) : ℝ) ∧ (-1 : ℝ) - Real.pi + 2 * Real.pi * ((1 : ℤ) : ℝ) < Real.pi) := by
  have h3 := Real.two_le_pi
  refine ⟨⟨by linarith, by linarith⟩, ⟨by push_cast; linarith, by push_cast; linarith⟩⟩

-- `chain_order_invariant_same_orientation`: `hsame` holds for any list with a constant flag, e.g. both chains written `(1, 2)`
example : ∀ C ∈ [wChain 1 2, wChain 1 2], (fun C : AmpR.Chain => C.top.b == 2) C = false := by
  intro C hC
  simp only [List.mem_cons, List.not_mem_nil, or_false, or_self] at hC
  subst hC
  rfl

/-- **`other_topology_boundary`** — the boundary of the finding when a chain of ANOTHER topology interferes (fixed reference): the two
constants of `opposite_orientation_factor` for chains written `(b, c)` and `(c, b)` are BOTH `+1` iff the doubled spin sums below `b` and
below `c` are both even (both daughters bosons).  For an integer-spin mother with two fermion daughters both constants are `−1`
(their product is `(−1)^{2J_A} = +1`: invisible between the two chains, visible against the third chain) — the second listed class
`chain-order:one-topology-opposite-daughter-order:fermion-daughters:other-topology`. -/
theorem other_topology_boundary (nb nc : ℕ) :
    ((-1 : ℂ) ^ nc = 1 ∧ (-1 : ℂ) ^ nb = 1) ↔ (Even nb ∧ Even nc) := by
  have key : ∀ n : ℕ, (-1 : ℂ) ^ n = 1 ↔ Even n := by
    intro n
    constructor
    · intro h
      by_contra hodd
      rw [Nat.not_even_iff_odd] at hodd
      rw [hodd.neg_one_pow] at h
      norm_num at h
    · intro h
      exact h.neg_one_pow
  rw [key, key]
  exact and_comm

end TfPwaV.C02f
