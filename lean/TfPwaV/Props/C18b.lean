import TfPwaV.Proofs.DataX
import TfPwaV.Props.C18
/-!
# C18b — the rest of `tf_pwa/data.py` and the file / side-file conventions of `config_loader/data.py`

Theorems about the model `TfPwaV.DataX` (tied to the source by the exact correspondence of harness/c18_x.py).
As in C18, every statement quantifies over **every** data tree `d : D α` (nested dict / list / tuple, any depth, any
row type), every mask, every batch size, every key list, every particle order; proofs are structural inductions.

Vocabulary: `leafList d` the arrays of `d` in `data_map` order, `mapLeaves f d` applies `f` to every array,
`maskRows sel rows` the rows `i` with `sel[i]`, `win b j rows = rows[j*b : j*b+b]`, `lookup k kv` the value of a dict
(item list) under `k`, `dictSet kv k v` is `kv[k] = v`, `dictUpdate a j` is `{**a, **j}`.
-/
namespace TfPwaV.C18b
open TfPwaV.Data TfPwaV.DataX

variable {α β γ : Type}

/-! ## data_shape, data_map, data_to_numpy / data_to_tensor -/

/-- `data_shape(d)` is the leading size of the first array in `data_map` order, `data_shape(d, all_list=True)`
    lists all of them; in a tree whose arrays share `n` rows every entry is `n`. -/
theorem data_shape_first (d : D α) : dataShape d = firstLen d ∧ dataShape d = (leafLens d).head? :=
  ⟨(firstLen_eq_head d).symm, rfl⟩

theorem data_shape_uniform (n : Nat) (d : D α) (hu : uniform n d = true) : ∀ l ∈ leafLens d, l = n := by
  intro l hl
  obtain ⟨r, hr, rfl⟩ := List.mem_map.mp hl
  exact leafList_uniform n d hu r hr

example : uniform 2 (D.node .dict [("a", .leaf [1, 2]), ("l", .node .list [("-", .leaf [3, 4])])] : D Nat) = true := by decide

/-- `data_map` is a functor on trees: identity and composition (so `data_to_numpy`, `data_to_tensor`, which map a
    value-preserving conversion over the arrays, change neither structure nor values) -/
theorem data_map_id (d : D α) : mapLeaves (fun r => r) d = d := mapLeaves_id' d

theorem data_map_comp (f : List α → List β) (g : List β → List γ) (d : D α) :
    mapLeaves g (mapLeaves f d) = mapLeaves (fun r => g (f r)) d := mapLeaves_comp' f g d

/-- the arrays of `data_map(d, f)` are `f` of the arrays of `d`, in the same order -/
theorem data_map_leaves (f : List α → List β) (d : D α) : leafList (mapLeaves f d) = (leafList d).map f :=
  leafList_mapLeaves f d

/-! ## data_mask / data_cut: a mask and its complement partition the events -/

/-- ★ `mask_partition`: for every mask and every array with as many rows as the mask, the rows kept by `sel` and
    the rows kept by `~sel`, re-interleaved by `sel`, are the array: nothing lost, nothing duplicated, order kept.
    Their sizes add up to `n`. -/
theorem mask_partition (sel : List Bool) (rows : List α) (h : rows.length = sel.length) :
    unmask sel (maskRows sel rows) (maskRows (sel.map (!·)) rows) = rows ∧
    (maskRows sel rows).length + (maskRows (sel.map (!·)) rows).length = rows.length :=
  ⟨unmask_maskRows sel rows h, maskRows_count sel rows h⟩

/-- ★ `cut_then_merge`: for every well-formed tree whose arrays have `sel.length` rows, `data_mask(d, sel)` and
    `data_mask(d, ~sel)` both succeed, `data_merge` of the two is `d` with every array replaced by
    "selected rows ++ rejected rows", and that is a permutation of the rows of the array (the same one in every array). -/
theorem cut_then_merge (sel : List Bool) (d : D α) (hwf : WF d) (hu : uniform sel.length d = true) :
    ∃ a c, mask sel d = some a ∧ mask (sel.map (!·)) d = some c ∧
      merge [a, c] = some (mapLeaves (fun r => maskRows sel r ++ maskRows (sel.map (!·)) r) d) ∧
      ∀ r ∈ leafList d, (maskRows sel r ++ maskRows (sel.map (!·)) r).Perm r := by
  refine ⟨mapLeaves (maskRows sel) d, mapLeaves (maskRows (sel.map (!·))) d, ?_, ?_, ?_, ?_⟩
  · simp [mask, hu]
  · simp [mask, hu]
  · have := merge1_map (maskRows sel) [maskRows (sel.map (!·))] d hwf
    simp only [List.map_cons, List.map_nil] at this
    simp only [merge, this]
    congr 1
    apply mapLeaves_congr
    intro r
    simp [catF]
  · intro r hr
    exact maskRows_perm sel r (leafList_uniform _ d hu r hr)

example : WF (D.node .dict [("p", .leaf [1, 2, 3]), ("w", .node .tuple [("-", .leaf [4, 5, 6])])] : D Nat) ∧
    uniform [true, false, true].length (D.node .dict [("p", .leaf [1, 2, 3]), ("w", .node .tuple [("-", .leaf [4, 5, 6])])] : D Nat) = true := by
  refine ⟨?_, by decide⟩
  simp [WF, WFCh]

/-- `data_cut(d, expr)`: the mask is the predicate evaluated row by row on the addressed array; the result keeps in
    every array exactly the events whose entry in that array satisfies the predicate -/
theorem cut_rows (path : List Key) (pred : α → Bool) (d : D α) (rows : List α)
    (hidx : index d path = some (.leaf rows)) (hu : uniform rows.length d = true) :
    cut path pred d = some (mapLeaves (fun r =>
      (List.range r.length).filterMap fun i => if ((rows.map pred).getD i false) then r[i]? else none) d) := by
  have hu' : uniform (rows.map pred).length d = true := by simpa using hu
  simp only [cut, hidx]
  exact (C18.mask_leaf (rows.map pred) d hu').1

example : index (D.node .dict [("m", .leaf [1, 5, 7]), ("p", .leaf [10, 50, 70])] : D Nat) [.name "m"] = some (.leaf [1, 5, 7]) := by
  simp [index, idx1, lookup]

/-! ## data_replace -/

/-- ★ `replace_keeps_others`: `data_replace(d, k, v)` on a dict: the value under `k` is `v`, every other key keeps its
    value, and the key order is that of `d` (with `k` appended when it is new). -/
theorem replace_keeps_others (kv : List (String × D α)) (k : String) (v : D α) :
    ∃ kv', replace (.node .dict kv) k v = some (.node .dict kv') ∧
      lookup k kv' = some v ∧ (∀ k', k' ≠ k → lookup k' kv' = lookup k' kv) ∧
      kv'.map (·.1) = if (lookup k kv).isSome then kv.map (·.1) else kv.map (·.1) ++ [k] := by
  refine ⟨dictSet kv k v, rfl, ?_, ?_, dictSet_keys kv k v⟩
  · simp [lookup_dictSet]
  · intro k' hk; simp [lookup_dictSet, hk]

/-- on a list / tuple / array `{**data}` raises -/
theorem replace_non_dict (d : D α) (k : String) (v : D α) (h : ∀ kv, d ≠ .node .dict kv) : replace d k v = none := by
  unfold replace setItem
  cases d with
  | leaf r => rfl
  | node kind ch => cases kind <;> first | rfl | exact absurd rfl (h ch)

/-! ## data_strip -/

/-- ★ `strip_idempotent`: after `data_strip(d, keys)` no dict at any depth has a key in `keys`, and stripping again
    changes nothing; a tree without such keys is returned unchanged; the surviving arrays are arrays of `d` in order. -/
theorem strip_idempotent (ks : List String) (d : D α) :
    hasKey ks (strip ks d) = false ∧ strip ks (strip ks d) = strip ks d ∧
    (leafList (strip ks d)).Sublist (leafList d) :=
  ⟨strip_hasKey ks d, strip_of_not_hasKey ks _ (strip_hasKey ks d), strip_leaves_sublist ks d⟩

theorem strip_unchanged (ks : List String) (d : D α) (h : hasKey ks d = false) : strip ks d = d :=
  strip_of_not_hasKey ks d h

example : hasKey ["w"] (D.node .dict [("a", .leaf [1]), ("l", .node .list [("-", .node .dict [("b", .leaf [2])])])] : D Nat) = false := by
  decide

/-! ## flatten_dict_data -/

mutual
/-- no two assignments `ret[key] = …` executed by `flatten_dict_data` (at any depth) use the same key -/
def NoColl : D α → Prop
  | .leaf _ => True
  | .node k ch => ((flatIns (k == .dict) 0 ch).map (·.1)).Nodup ∧ NoCollCh ch
def NoCollCh : List (String × D α) → Prop
  | [] => True
  | (_, v) :: rest => NoColl v ∧ NoCollCh rest
end

mutual
theorem flatV_leaves (key : String) : (d : D α) → NoColl d → (flatV key d).map (·.2) = leafList d
  | .leaf r, _ => by simp [flatV, leafList]
  | .node k ch, h => by
    have h' : ((flatIns (k == .dict) 0 ch).map (·.1)).Nodup ∧ NoCollCh ch := by simpa [NoColl] using h
    simp only [flatV, leafList, List.map_map, Function.comp_def]
    rw [insAll_fresh _ [] (by simpa using h'.1)]
    simpa using flatIns_leaves (k == .dict) 0 ch h'.2
theorem flatIns_leaves (isDict : Bool) (i : Nat) : (ch : List (String × D α)) → NoCollCh ch →
    (flatIns isDict i ch).map (·.2) = leafListCh ch
  | [], _ => by simp [flatIns, leafListCh]
  | (k, v) :: rest, h => by
    have h' : NoColl v ∧ NoCollCh rest := by simpa [NoCollCh] using h
    simp only [flatIns, leafListCh, List.map_append]
    rw [flatV_leaves _ v h'.1, flatIns_leaves isDict (i + 1) rest h'.2]
end

/-- ★ `flatten_lossless` (the provable half of "flatten / unflatten"): when no two joined keys collide,
    `flatten_dict_data(d)` holds every array of `d` exactly once, in `data_map` order, under the keys the loop assigns
    (`flatIns`: "k/j/…" paths); with a collision the later array silently replaces the earlier one (example below). -/
theorem flatten_lossless (k : Kind) (ch : List (String × D α)) (h : NoColl (.node k ch)) :
    flatten (.node k ch) = flatIns (k == .dict) 0 ch ∧ (flatten (.node k ch)).map (·.2) = leafList (.node k ch) := by
  have h' : ((flatIns (k == .dict) 0 ch).map (·.1)).Nodup ∧ NoCollCh ch := by simpa [NoColl] using h
  have e : flatten (.node k ch) = flatIns (k == .dict) 0 ch := by
    simp only [flatten]
    rw [insAll_fresh _ [] (by simpa using h'.1)]
    simp
  exact ⟨e, by rw [e]; simpa [leafList] using flatIns_leaves (k == .dict) 0 ch h'.2⟩

/-- the hypothesis is satisfiable: two arrays side by side; an array inside a nested dict -/
example : NoColl (D.node .dict [("a", .leaf [1]), ("b", .leaf [2])] : D Nat) ∧
    NoColl (D.node .dict [("a", .node .dict [("b", .leaf [1])])] : D Nat) := by
  constructor
  · simp [NoColl, NoCollCh, flatIns, flatV]
  · simp [NoColl, NoCollCh, flatIns, flatV, insAll, setKV]

/-- the excluded case is a real loss: `{a: {b: x}, c: y}` with `c = "str(a)/str(b)"` (e.g. `{"a": {"b": x}, "a/b": y}`)
    flattens to ONE entry, the array `x` is gone -/
theorem flatten_collision_loses (a b c : String) (x y : List α) (hc : c = strKey a ++ "/" ++ strKey b) :
    flatten (D.node .dict [(a, .node .dict [(b, .leaf x)]), (c, .leaf y)]) = [(c, y)] := by
  subst hc
  simp [flatten, flatIns, flatV, insAll, setKV]

/-! ## batch_sum -/

/-- ★ `batch_sum_eq_sum`: for every tree holding an array, with `n > 0` rows per array, every `b > 0`, and every `f`,
    `add` such that `f` of the first `(m+1)*b` rows is `add (f of the first m*b rows) (f of batch m)`:
    `batch_sum(f, d, b) = f(d)`.  (No algebraic law on `add` is needed: the code folds from the left in batch order.) -/
theorem batch_sum_eq_sum (f : D α → γ) (add : γ → γ → γ) (b n : Nat) (d : D α) (hu : uniform n d = true)
    (hleaf : noArray d = false) (hb : 0 < b) (hn : 0 < n)
    (hadd : ∀ m, 1 ≤ m → f (mapLeaves (List.take ((m + 1) * b)) d) =
      add (f (mapLeaves (List.take (m * b)) d)) (f (mapLeaves (win b m) d))) :
    batchSumV true f add b d = some (f d) := by
  have hpos := nChunks_pos b n hb hn
  obtain ⟨m, hm⟩ : ∃ m, nChunks b n = m + 1 := ⟨nChunks b n - 1, by omega⟩
  simp only [batchSumV, splitV, if_true]
  rw [splitF_eq b n d hu]
  simp only [hleaf, Bool.false_eq_true, if_false, hm]
  have h1 : f (mapLeaves (List.take (1 * b)) d) = f (mapLeaves (win b 0) d) := by
    congr 1
    apply mapLeaves_congr
    intro r
    simp [win_eq]
  have key := foldl_tab_telescope add (fun j => f (mapLeaves (win b j) d))
    (fun m => f (mapLeaves (List.take (m * b)) d)) h1 hadd m
  have hrw : batchSumOver f add (tab (m + 1) fun j => mapLeaves (win b j) d) =
      batchSumOver (fun j : Nat => f (mapLeaves (win b j) d)) add (List.range (m + 1)) := by
    simp [batchSumOver, tab, List.map_map, Function.comp_def]
  rw [hrw, key]
  congr 2
  apply mapLeaves_id_of _ n _ d hu
  intro r hr
  apply List.take_of_length_le
  rw [hr, ← hm]
  exact nChunks_mul_ge b n hb

/-- the additivity hypothesis is satisfiable: `f` = total number of rows in the first array, `add` = `+` -/
example : ∀ m, 1 ≤ m →
    (fun d : D Nat => ((leafList d).map List.length).sum) (mapLeaves (List.take ((m + 1) * 2)) (D.leaf [1, 2, 3])) =
    (fun d : D Nat => ((leafList d).map List.length).sum) (mapLeaves (List.take (m * 2)) (D.leaf [1, 2, 3])) +
    (fun d : D Nat => ((leafList d).map List.length).sum) (mapLeaves (win 2 m) (D.leaf [1, 2, 3])) := by
  intro m hm
  simp only [mapLeaves, leafList, List.map_cons, List.map_nil, List.sum_cons, List.sum_nil, win_length, List.length_take,
    List.length_cons, List.length_nil]
  have : 2 ≤ m * 2 := by omega
  omega

/-- a tree for which the generator yields nothing (`data_split` of an empty list of batches): `ret[0]` raises -/
theorem batch_sum_no_batch (f : D α → γ) (add : γ → γ → γ) : batchSumOver f add [] = none := rfl

/-! ## data_index with nested paths -/

/-- `data_index(d, p + q) = data_index(data_index(d, p), q)` for every non-empty `p`, `q` -/
theorem index_append (d : D α) (p : List Key) (hp : p ≠ []) (k : Key) (q : List Key) :
    index d (p ++ k :: q) = (index d p).bind fun v => index v (k :: q) := index_append_one d p hp k q

/-! ## check_nan -/

/-- `check_nan(d, no_raise=True)` has the structure of `d` with one flag per array: `False` exactly for the arrays that
    hold a NaN; `check_nan(d)` returns that (all-`True`) tree iff no array holds a NaN and raises otherwise. -/
theorem check_nan_shape (bad : α → Bool) (t f : α) (d : D α) :
    mapLeaves (fun _ => ([] : List α)) (checkNan bad t f d) = mapLeaves (fun _ => []) d ∧
    leafList (checkNan bad t f d) = (leafList d).map (fun r => [if r.any bad then f else t]) ∧
    (checkNanRaise bad t f d).isSome = !(leafList d).any (fun r => r.any bad) := by
  refine ⟨checkNan_shape bad t f d, checkNan_leaves bad t f d, ?_⟩
  unfold checkNanRaise
  cases (leafList d).any (fun r => r.any bad) <;> simp

/-! ## LazyCall as an object: `__setitem__`, `__getitem__`, `copy`, `data_replace`, `eval`, `LazyFile`, `EvalLazy` -/

/-- `L[k] = v; L[k']` -/
theorem lazy_getitem_set (L : Lazy α β) (k k' : String) (v : D β) :
    (L.setItem k v).getItem k' = if k' = k then some v else L.getItem k' := by
  simp [Lazy.setItem, Lazy.getItem, lookup_dictSet]

/-- `L.copy()` and `as_dataset` keep `x` and every item; a new object has no item -/
theorem lazy_copy_getitem (L : Lazy α β) (k : String) (b : Nat) :
    L.copy.getItem k = L.getItem k ∧ (L.asDataset b).getItem k = L.getItem k ∧ L.copy.x = L.x ∧
    (Lazy.new L.x : Lazy α β).getItem k = none := by
  simp [Lazy.copy, Lazy.getItem, Lazy.asDataset, Lazy.new, lookup]

/-- ★ `lazy_getitem_eq`: for every LazyCall whose function returns a dict, every key `k` attached with
    `L[k] = v` is found under `k` in the eager value `L.eval()` with the same value (it overrides an output of the
    function with the same name), and every other key of the eager value is the output of the function. -/
theorem lazy_getitem_eq (f : D α → D β) (L : Lazy α β) (fx : List (String × D β)) (hfx : f L.x = .node .dict fx)
    (hnd : (L.extra.map (·.1)).Nodup) (k : String) :
    ∃ ev, L.eval f = some (.node .dict ev) ∧
      lookup k ev = match L.getItem k with | some v => some v | none => lookup k fx := by
  refine ⟨dictUpdate fx L.extra, lazyEval_dict f L.x fx L.extra hfx, ?_⟩
  rw [lookup_dictUpdate, lookupLast_eq_lookup k L.extra hnd]
  rfl

example : ((⟨D.leaf [1, 2], [("weight", .leaf [5, 6]), ("c", .leaf [7, 8])], none⟩ : Lazy Nat Nat).extra.map (·.1)).Nodup := by
  decide

/-- `data_replace(L, k, v).eval()`: `v` under `k`, every other key as in `L.eval()`; `L` itself is a different object -/
theorem lazy_replace_eval (f : D α → D β) (L : Lazy α β) (fx : List (String × D β)) (hfx : f L.x = .node .dict fx)
    (k k' : String) (v : D β) :
    ∃ ev ev', L.eval f = some (.node .dict ev) ∧ (L.replace k v).eval f = some (.node .dict ev') ∧
      lookup k' ev' = if k' = k then some v else lookup k' ev := by
  refine ⟨dictUpdate fx L.extra, dictUpdate fx (dictSet L.extra k v), lazyEval_dict f L.x fx L.extra hfx,
    lazyEval_dict f L.x fx _ hfx, ?_⟩
  rw [lookup_dictUpdate, lookup_dictUpdate, lookupLast_dictSet]
  by_cases hk : k' = k
  · simp [hk]
  · simp [hk]

/-- ★ `lazy_merge_pieces`: `data_merge(L, *others)` of LazyCalls that hold pieces of one sample -- `x` pieces `fᵢ(X)` and
    extra pieces `gᵢ(E)` (e.g. the weights of the same events) -- is the LazyCall whose `x` is `X` with every array replaced
    by the concatenation of its pieces and whose extra is `E` concatenated in the SAME piece order: the items attached to
    the events stay aligned with them.  Every tree `X`, every dict `E`, any number of pieces. -/
theorem lazy_merge_pieces (X : D α) (E : List (String × D β)) (hX : WF X) (hE : WF (D.node .dict E))
    (f0 : List α → List α) (g0 : List β → List β) (ps : List ((List α → List α) × (List β → List β))) (bL : Option Nat) :
    Lazy.merge ⟨mapLeaves f0 X, mapLeavesCh g0 E, bL⟩ (ps.map fun p => ⟨mapLeaves p.1 X, mapLeavesCh p.2 E, none⟩) =
      some ⟨mapLeaves (catF f0 (ps.map (·.1))) X, mapLeavesCh (catF g0 (ps.map (·.2))) E, none⟩ := by
  have h1 := merge1_map g0 (ps.map (·.2)) (D.node .dict E) hE
  have h2 := merge1_map f0 (ps.map (·.1)) X hX
  simp only [mapLeaves, List.map_map, Function.comp_def] at h1 h2
  simp only [Lazy.merge, List.map_map, Function.comp_def, h1, h2]

example : WF (D.node .dict [("p", (D.leaf [1, 2, 3] : D Nat))]) ∧ WF (D.node .dict [("weight", (D.leaf [7, 8, 9] : D Nat))]) := by
  simp [WF, WFCh]

/-- ★ `lazy_file_eq_eager`: `LazyCall(g, LazyFile(x))` (a `LazyFile` is the LazyCall of the identity whose `eval()` is
    `x`): merged batches = `eval()` = `{**g(x), **extra}`, for every dict `x` holding an array, every event-wise `g`
    returning a dict, every batch size, every `extra`; no guard on the number of batches. -/
theorem lazy_file_eq_eager (g : D α → D β) (xs : List (String × D α)) (gx e2 : List (String × D β)) (b n : Nat)
    (hgx : g (.node .dict xs) = .node .dict gx)
    (hg : ∀ j, g (mapLeaves (win b j) (D.node .dict xs)) = mapLeaves (win b j) (g (.node .dict xs)))
    (hb : 0 < b) (hn : 0 < n)
    (hux : uniform n (D.node .dict xs) = true) (hleaf : noArray (D.node .dict xs) = false)
    (hue2 : uniform n (D.node .dict e2) = true)
    (hwf : WF (D.node .dict (dictUpdate gx e2))) (hu : uniform n (D.node .dict (dictUpdate gx e2)) = true) :
    (lazyFileIter g (.node .dict xs) (.node .dict e2) b).bind merge = lazyFileEval g (.node .dict xs) (.node .dict e2) ∧
    lazyFileEval g (.node .dict xs) (.node .dict e2) = some (.node .dict (dictUpdate gx e2)) := by
  have hupd : dictUpdate xs ([] : List (String × D α)) = xs := rfl
  have h := C18.lazy_nested_eq_eagerF g id (.node .dict xs) xs [] gx e2 b n rfl (fun _ => rfl)
    (by rw [hupd]; exact hgx) (by intro j; rw [hupd]; exact hg j) hb hn hux hleaf (by simp [uniform, uniformCh]) hue2 hwf hu
  have hev : lazyEvalNested g id (.node .dict xs) (.node .dict []) (.node .dict e2) =
      lazyFileEval g (.node .dict xs) (.node .dict e2) := by
    simp [lazyEvalNested, lazyFileEval, lazyEval]
  unfold lazyFileIter
  rw [← hev]
  exact h

/-- the hypotheses are satisfiable: `g` doubles every entry of `x["a"]` and returns it under "y"; extra = one weight per event -/
example : uniform 3 (D.node .dict [("a", (D.leaf [1, 2, 3] : D Nat))]) = true ∧
    noArray (D.node .dict [("a", (D.leaf [1, 2, 3] : D Nat))]) = false ∧
    uniform 3 (D.node .dict [("weight", (D.leaf [7, 8, 9] : D Nat))]) = true ∧
    WF (D.node .dict (dictUpdate [("y", (D.leaf [2, 4, 6] : D Nat))] [("weight", .leaf [7, 8, 9])])) ∧
    uniform 3 (D.node .dict (dictUpdate [("y", (D.leaf [2, 4, 6] : D Nat))] [("weight", .leaf [7, 8, 9])])) = true := by
  refine ⟨by decide, by decide, by decide, ?_, by decide⟩
  simp [dictUpdate, dictSet, lookup, WF, WFCh]

/-- `EvalLazy(g)(L) = g(L.eval())`, `EvalLazy(g)(d) = g(d)` -/
theorem eval_lazy_eq (f : D α → D β) (g : D β → γ) (L : Lazy α β) (d : D β) :
    evalLazy f g (.inl L) = (L.eval f).map g ∧ evalLazy f g (.inr d : Sum (Lazy α β) (D β)) = some (g d) := ⟨rfl, rfl⟩

/-! ## file conventions: `dat_order`, `order=(0,1,2)` -/

/-- ★ `dat_order_roundtrip`: for every list `order` of pairwise different particle names (every permutation of the
    final particles, and every sub-list), every `N ≥ 1` and all momenta `p4 name` with `N` rows:
    `load_p4(savetxt(data))` under the same `dat_order` is `{name: p4 name for name in order}`, in that order. -/
theorem dat_order_roundtrip (order : List String) (hne : order ≠ []) (hnd : order.Nodup)
    (N : Nat) (hN : 0 < N) (data : List (String × List α)) (p4 : String → List α)
    (hdata : ∀ k ∈ order, lookupP k data = some (p4 k)) (hrect : ∀ k ∈ order, (p4 k).length = N) :
    ∃ file, saveOrd order data = some file ∧
      loadOrd order [file] = some (order.map fun k => (k, p4 k)) := by
  have hm : order.mapM (fun k => lookupP k data) = some (order.map p4) := by
    clear hne hnd hrect
    induction order with
    | nil => rfl
    | cons k rest ih =>
      rw [List.mapM_cons, hdata k (by simp), ih (fun k' hk' => hdata k' (List.mem_cons_of_mem _ hk'))]
      rfl
  refine ⟨saveTxt (order.map p4), by simp [saveOrd, hm], ?_⟩
  have hr : Rect N (order.map p4) := by
    intro m hm'
    obtain ⟨k, hk, rfl⟩ := List.mem_map.mp hm'
    exact hrect k hk
  have hl := C18.load_save_roundtrip N hN (order.map p4) (by simpa using hne) hr
  simp only [List.length_map] at hl
  simp only [loadOrd, hl, Option.map_some]
  congr 1
  have hz : order.zip (order.map p4) = order.map fun k => (k, p4 k) := by
    clear hne hnd hdata hrect hm hr hl
    induction order with
    | nil => rfl
    | cons k rest ih => simp [ih]
  rw [hz]
  have := insAll_fresh (order.map fun k => (k, p4 k)) [] (by simpa [List.map_map, Function.comp_def] using hnd)
  simpa using this

/-- the hypotheses are satisfiable: three particles listed as D, B, C -/
example : (["D", "B", "C"] : List String).Nodup ∧
    (∀ k ∈ ["D", "B", "C"], lookupP k [("B", [1, 2]), ("C", [3, 4]), ("D", [5, 6])] =
      some ((fun k => if k = "B" then [1, 2] else if k = "C" then [3, 4] else [5, 6]) k)) ∧
    (∀ k ∈ ["D", "B", "C"], ((fun k => if k = "B" then [1, 2] else if k = "C" then [3, 4] else [5, 6]) k : List Nat).length = 2) := by
  refine ⟨by decide, ?_, ?_⟩ <;> simp [lookupP]

/-- consequence: the momentum a particle gets does not depend on the order in which the file lists the particles -/
theorem dat_order_independent (o1 o2 : List String) (h1 : o1 ≠ []) (h2 : o2 ≠ []) (n1 : o1.Nodup) (n2 : o2.Nodup)
    (N : Nat) (hN : 0 < N) (data : List (String × List α)) (p4 : String → List α)
    (hd1 : ∀ k ∈ o1, lookupP k data = some (p4 k)) (hd2 : ∀ k ∈ o2, lookupP k data = some (p4 k))
    (hr1 : ∀ k ∈ o1, (p4 k).length = N) (hr2 : ∀ k ∈ o2, (p4 k).length = N) (k : String) (hk1 : k ∈ o1) (hk2 : k ∈ o2) :
    ∃ f1 f2 r1 r2, saveOrd o1 data = some f1 ∧ saveOrd o2 data = some f2 ∧
      loadOrd o1 [f1] = some r1 ∧ loadOrd o2 [f2] = some r2 ∧ lookupP k r1 = some (p4 k) ∧ lookupP k r2 = some (p4 k) := by
  obtain ⟨f1, hs1, hl1⟩ := dat_order_roundtrip o1 h1 n1 N hN data p4 hd1 hr1
  obtain ⟨f2, hs2, hl2⟩ := dat_order_roundtrip o2 h2 n2 N hN data p4 hd2 hr2
  have look : ∀ (o : List String), k ∈ o → lookupP k (o.map fun k => (k, p4 k)) = some (p4 k) := by
    intro o
    induction o with
    | nil => intro h; simp at h
    | cons a rest ih =>
      intro h
      simp only [List.map_cons, lookupP]
      by_cases ha : a = k
      · subst ha; simp
      · simp only [ha, if_false]
        rcases List.mem_cons.mp h with h | h
        · exact absurd h.symm ha
        · exact ih h
  exact ⟨f1, f2, _, _, hs1, hs2, hl1, hl2, look o1 hk1, look o2 hk2⟩

/-- ★ `load_order012`: a particle-major file (all `N` rows of particle 0, then of particle 1, …) read with
    `order=(0,1,2)`, `split=[N]` gives the same assignment, for every particle count and `N ≥ 1`. -/
theorem load_order012 (N : Nat) (hN : 0 < N) (ps : List (List α)) (h : Rect N ps) :
    loadDat ps.length [ps.flatten] (some [N]) false = some ps := by
  unfold loadDat
  simp only [List.zipWith_cons_cons, List.zipWith_nil_right]
  rw [reshape_flatten N hN ps h]
  simp

example : Rect 2 ([[1, 2], [3, 4], [5, 6]] : List (List Nat)) := by simp [Rect]

/-! ## weight / charge side files stay aligned with the events -/

/-- ★ `weights_follow_rows`: the weight (or charge) read from a side file is the first `n_data` entries of the
    concatenated files, entry `i` belongs to event `i`; and every later row operation of the data helpers acts on the
    pair (event, weight): masks, batches and merges of the momentum array and of the weight array are the
    mask / batch / merge of the array of pairs. -/
theorem weights_follow_rows (nData : Nat) (files : List (List β)) (i : Nat) (hi : i < nData)
    (sel : List Bool) (b j : Nat) (a a' : List α) (w w' : List β) (hl : a.length = w.length) :
    (loadExtra nData (.inr files))[i]? = files.flatten[i]? ∧
    (maskRows sel a).zip (maskRows sel w) = maskRows sel (a.zip w) ∧
    (win b j a).zip (win b j w) = win b j (a.zip w) ∧
    (a ++ a').zip (w ++ w') = a.zip w ++ a'.zip w' := by
  refine ⟨?_, zip_maskRows sel a w, zip_win b j a w hl, List.zip_append hl⟩
  simp [loadExtra, loadWeightFiles, hi]

/-- a number in the configuration is broadcast to all events -/
theorem weights_default (nData : Nat) (c : β) : loadExtra nData (.inl c : Sum β (List (List β))) = List.replicate nData c := rfl

end TfPwaV.C18b
