import TfPwaV.Props.C14
/-! C14, n = 5 (105 chains), part c: kernel evaluation — sorted_table / from_sorted_table round trip on every chain. -/
namespace TfPwaV.C14
open TfPwaV.Topology

theorem enumRoundTrip_5_partial : enumRoundTripOK 5 = true := by decide +kernel

end TfPwaV.C14
