import TfPwaV.Proofs.Spinless
import TfPwaV.Props.C15
/-!
# C04 — Spinless cascades reproduce the closed-form Legendre × Breit–Wigner amplitude

Theorems about `TfPwaV.SpinlessR`, the ℝ-instance of `templates/Spinless.lean.in`; the *same text* instantiated at
Float is compared with `ConfigLoader(dict).get_amplitude()(data)` on every run (harness/c04.py).

* `helAmp` is the chain formula of `tf_pwa.amp.core` for a spin-0 parent, a resonance of spin `J` and three spin-0
  final particles: LS→helicity matrix `sqrt((2l+1)/(2J_a+1))·CG·CG` with the **exact** Clebsch–Gordan values of
  `Model/Wigner.lean` (C12), `D^{J*}` from the exact small-d weights, zero padding of `Dfun_delta_v2`, sum over the
  helicity of the resonance, barrier factors `q2^(l/2)·Bprime_q2`, total coupling, line shape.
* `closedOf` is the closed form of the property statement.

The sign `(-1)^J` and the absence of any `sqrt(2J+1)` are *derived* from the exact tables (`ls_factor_exact`,
`ls_factor_parent`, `ls_factor_resonance`), not assumed.
-/
open TfPwaV.ScalarR
namespace TfPwaV.C04
open TfPwaV.SpinlessR TfPwaV.LineShapeR TfPwaV.Wigner

/-! ## LS → helicity factors for spin-0 externals (exact) -/

/-- Exact rational content, J = 0..4 (kernel evaluation of Racah's formula): the squared parent factor
`(2J+1)/(2·0+1) · ⟨J0;00|J0⟩² · ⟨J0;J0|00⟩²` is 1 and its sign is `(-1)^J`; the squared resonance factor
`(2J+1)/(2J+1) · ⟨00;00|00⟩² · ⟨J0;00|J0⟩²` is 1 with sign +. -/
theorem ls_factor_exact : ∀ J ∈ List.range 5,
    ((2 * J + 1 : Nat) : Rat) / 1 * cgSq (2 * J) 0 0 0 (2 * J) 0 * cgSq (2 * J) 0 (2 * J) 0 0 0 = 1 ∧
    ratSign (cgRat (2 * J) 0 0 0 (2 * J) 0) * ratSign (cgRat (2 * J) 0 (2 * J) 0 0 0) = negOnePow J ∧
    ((2 * J + 1 : Nat) : Rat) / ((2 * J + 1 : Nat) : Rat) * cgSq 0 0 0 0 0 0 * cgSq (2 * J) 0 0 0 (2 * J) 0 = 1 ∧
    ratSign (cgRat 0 0 0 0 0 0) * ratSign (cgRat (2 * J) 0 0 0 (2 * J) 0) = 1 := by
  decide +kernel

/-- the parent's LS→helicity matrix vanishes for every helicity `λ ≠ 0` of the resonance (J = 0..4, both daughter
orders): `⟨J 0; J λ | 0 λ⟩ = 0` -/
theorem ls_factor_parent_offdiag : ∀ J ∈ List.range 5, ∀ lam ∈ mRange (2 * J), lam ≠ 0 →
    cgSq (2 * J) 0 (2 * J) lam 0 lam = 0 ∧ cgSq (2 * J) 0 (2 * J) (-lam) 0 (-lam) = 0 := by
  decide +kernel

/-- `_get_cg_matrix` of `A(0) → R(J) c(0)` at helicities (0, 0): `(-1)^J` -/
theorem ls_factor_parent (J : ℕ) (hJ : J ≤ 4) :
    cgMatrixEntry 0 (2 * J) 0 (2 * J) (2 * J) 0 0 = (-1) ^ J := by
  rw [cgMatrixEntry_parent J hJ]
  unfold negOnePowK
  rcases Nat.even_or_odd J with h | h
  · rw [if_pos (Nat.even_iff.mp h), h.neg_one_pow]
  · rw [if_neg (by rw [Nat.odd_iff.mp h]; decide), h.neg_one_pow]

/-- the bound `J ≤ 4` of this file is the bound of the property (J = 0..4); e.g. J = 3 gives the sign -1 -/
example : (3 : ℕ) ≤ 4 ∧ cgMatrixEntry 0 (2 * 3) 0 (2 * 3) (2 * 3) 0 0 = -1 := ⟨by decide, by rw [ls_factor_parent 3 (by decide)]; norm_num⟩

/-- the same with the daughters listed `[c, R]` -/
theorem ls_factor_parent_swapped (J : ℕ) (hJ : J ≤ 4) :
    cgMatrixEntry 0 0 (2 * J) (2 * J) (2 * J) 0 0 = (-1) ^ J := by
  rw [cgMatrixEntry_parent_swap J hJ]
  unfold negOnePowK
  rcases Nat.even_or_odd J with h | h
  · rw [if_pos (Nat.even_iff.mp h), h.neg_one_pow]
  · rw [if_neg (by rw [Nat.odd_iff.mp h]; decide), h.neg_one_pow]

/-- `_get_cg_matrix` of `R(J) → a(0) b(0)`: 1 (no `sqrt(2J+1)` survives) -/
theorem ls_factor_resonance (J : ℕ) (hJ : J ≤ 4) : cgMatrixEntry (2 * J) 0 0 (2 * J) 0 0 0 = 1 :=
  cgMatrixEntry_resonance J hJ

/-! ## Angular function -/

/-- `d^J_{00}(θ) = P_J(cos θ)` for J ≤ 4 and every real θ, with `d` computed as `small_d_matrix` does (exact weights,
powers of `sin θ/2`, `cos θ/2`) and `P_J` by Bonnet's recurrence -/
theorem d00_legendre (J : ℕ) (hJ : J ≤ 4) (θ : ℝ) : smallD (2 * J) J J θ = legendre J (Real.cos θ) :=
  smallD_legendre J hJ θ

/-- the recurrence gives the Legendre polynomials -/
theorem legendre_explicit (x : ℝ) :
    legendre 0 x = 1 ∧ legendre 1 x = x ∧ legendre 2 x = (3 * x ^ 2 - 1) / 2 ∧
    legendre 3 x = (5 * x ^ 3 - 3 * x) / 2 ∧ legendre 4 x = (35 * x ^ 4 - 30 * x ^ 2 + 3) / 8 := by
  refine ⟨rfl, rfl, ?_, ?_, ?_⟩ <;>
    · simp only [legendre, legendreAux, kofNat]
      norm_num
      ring

/-- normalisation `P_n(1) = 1` for every n -/
theorem legendre_one (n : ℕ) : legendre n 1 = 1 := by
  unfold legendre; rw [legendreAux_one]

/-- parity `P_n(-x) = (-1)^n P_n(x)` for every n: exchanging the two daughters of the resonance (θ → π - θ)
multiplies the chain amplitude by `(-1)^J` -/
theorem legendre_parity (n : ℕ) (x : ℝ) : legendre n (-x) = (-1) ^ n * legendre n x := by
  unfold legendre; rw [legendreAux_neg]

/-! ## The chain amplitude equals the closed form -/

/-- **For every resonance spin J ≤ 4, both daughter orders of the parent's decay, polar or Cartesian coupling, all
real masses / widths / couplings (through the mass-dependent factors `md`) and all real angles**: the helicity
formula of `amp/core.py` specialised to spin-0 external particles is
`c · (-1)^J · (p^J B_J) · (q^J B_J) · BW · P_J(cos θ_R)`; it does not depend on the azimuths nor on the angles of the
parent's decay. -/
theorem spinless_closed_form (P : ChainPar) (hJ : P.J ≤ 4) (md : MassDep) (αA βA αR βR : ℝ) :
    helAmp P md αA βA αR βR = closedOf P md (Real.cos βR) := by
  unfold helAmp closedOf
  rw [sum_mRange P.J hJ _ (fun l hl => helTerm_ne_zero P md αA βA αR βR l hl), helTerm_zero P hJ]
  rw [Cx.eq_iff]
  simp only [Cx.mul, Cx.smul]
  constructor <;> ring

example : ∃ P : ChainPar, P.J ≤ 4 ∧ P.J ≠ 0 := ⟨⟨3, true, false, 1, 2, 3, 1, 0.1, 0.1, 0.5, 0.9⟩, by decide, by decide⟩

/-- density of any list of interfering chains (each spin ≤ 4): `|Σ_k helAmp_k|² = |Σ_k closed_k|²` -/
theorem spinless_density (ts : List (ChainPar × MassDep × ℝ × ℝ × ℝ × ℝ)) (h : ∀ t ∈ ts, t.1.J ≤ 4) :
    (Cx.sumFrom ⟨0, 0⟩ (ts.map fun t => helAmp t.1 t.2.1 t.2.2.1 t.2.2.2.1 t.2.2.2.2.1 t.2.2.2.2.2)).normSq
      = (Cx.sumFrom ⟨0, 0⟩ (ts.map fun t => closedOf t.1 t.2.1 (Real.cos t.2.2.2.2.2))).normSq := by
  congr 2
  exact List.map_congr_left fun t ht => spinless_closed_form t.1 (h t ht) _ _ _ _ _

example : ∃ ts : List (ChainPar × MassDep × ℝ × ℝ × ℝ × ℝ), ts.length = 2 ∧ ∀ t ∈ ts, t.1.J ≤ 4 :=
  ⟨[(⟨1, true, false, 1, 2, 3, 1, 0.1, 0.1, 0.5, 0.9⟩, ⟨1, 1, ⟨1, 1⟩⟩, 0, 0, 0, 1),
    (⟨4, false, true, 1, 2, 3, 1, 0.1, 0.1, 0.5, 0.9⟩, ⟨1, 1, ⟨1, 1⟩⟩, 0, 0, 0, 1)], rfl, by simp⟩

/-- exchanging the daughters of the resonance (`cos θ → -cos θ`) multiplies the chain amplitude by `(-1)^J` -/
theorem closedOf_swap_daughters (P : ChainPar) (md : MassDep) (x : ℝ) :
    closedOf P md (-x) = Cx.smul ((-1) ^ P.J) (closedOf P md x) := by
  unfold closedOf
  rw [legendre_parity, Cx.eq_iff]
  simp only [Cx.smul]
  constructor <;> ring

/-! ## The closed form in documented notation (ℂ) -/

theorem negOnePowK_eq (J : ℕ) : negOnePowK J = (-1) ^ J := by
  unfold negOnePowK
  rcases Nat.even_or_odd J with h | h
  · rw [if_pos (Nat.even_iff.mp h), h.neg_one_pow]
  · rw [if_neg (by rw [Nat.odd_iff.mp h]; decide), h.neg_one_pow]

/-- polar couplings are `r e^{iφ}`, Cartesian ones `x + i y` -/
theorem coupling_spec (a b : ℝ) :
    toC (coupling true a b) = (a : ℂ) * Complex.exp (Complex.I * b) ∧ toC (coupling false a b) = (a : ℂ) + Complex.I * b := by
  constructor
  · simp only [coupling, if_true, toC_mk, kcos, ksin]
    rw [mul_comm Complex.I, Complex.exp_mul_I]
    apply Complex.ext <;> simp [Complex.cos_ofReal_re, Complex.sin_ofReal_re, Complex.cos_ofReal_im, Complex.sin_ofReal_im]
  · simp only [coupling]
    apply Complex.ext <;> simp

/-- `toC (closed term) = c · (-1)^J · bA · bR · P_J(cos θ) · BW` -/
theorem closedOf_toC (P : ChainPar) (md : MassDep) (x : ℝ) :
    toC (closedOf P md x)
      = toC (coupling P.polar P.c1 P.c2) * (((-1) ^ P.J * md.bA * md.bR * legendre P.J x : ℝ) : ℂ) * toC md.bw := by
  unfold closedOf
  rw [toC_smul, toC_mul, negOnePowK_eq]
  ring

/-- `q2^(l/2)` is `(sqrt q2)^l` for `q2 ≥ 0` -/
theorem powHalf_eq (q2 : ℝ) (h : 0 ≤ q2) (l : ℕ) : powHalf q2 l = Real.sqrt q2 ^ l := by
  unfold powHalf ksqrt
  rw [kpowN_eq]
  have hs : Real.sqrt q2 ^ 2 = q2 := Real.sq_sqrt h
  rcases Nat.even_or_odd' l with ⟨k, rfl | rfl⟩
  · rw [if_pos (by omega), show 2 * k / 2 = k by omega, pow_mul, hs]
  · rw [if_neg (by omega), show (2 * k + 1) / 2 = k by omega, pow_succ, pow_mul, hs]

/-- the barrier factor of the code is `q^l · B'_l(q, q0, d)` (documented Blatt–Weisskopf factor, C15) above threshold -/
theorem barrier_eq_spec (l : ℕ) (hl : l ≤ 8) (q q0 d : ℝ) (hq : 0 ≤ q) :
    barrier l (q * q) (q0 * q0) d = q ^ l * Bprime l q q0 d := by
  unfold barrier
  rw [powHalf_eq _ (mul_self_nonneg q), Real.sqrt_mul_self hq, C15.BprimeQ2_eq_Bprime l hl]

/-- the line shape inside `massDep` is the documented running-width Breit–Wigner `1/(m0² - m² - i m0 Γ(m))`
(C15 `BWR_eq_spec`; regular branch `q0 > 1e-15`, J ≤ 4) -/
theorem massDep_bw_spec (P : ChainPar) (hJ : P.J ≤ 4) (k : ChainKin)
    (hq0 : eps15 < getRelativeP P.mR0 P.ma0 P.mb0)
    (hden : P.mR0 * Gamma P.J k.mR P.g0 (getRelativeP k.mR k.ma k.mb) (getRelativeP P.mR0 P.ma0 P.mb0) P.mR0 dRad ≠ 0
      ∨ P.mR0 * P.mR0 ≠ k.mR * k.mR) :
    toC (massDep P k).bw
      = 1 / ((P.mR0 : ℂ) ^ 2 - (k.mR : ℂ) ^ 2 - Complex.I * P.mR0 *
          ((P.g0 * (getRelativeP k.mR k.ma k.mb / getRelativeP P.mR0 P.ma0 P.mb0) ^ (2 * P.J + 1) * (P.mR0 / k.mR)
            * (BprimePolynomial P.J ((getRelativeP P.mR0 P.ma0 P.mb0 * dRad) * (getRelativeP P.mR0 P.ma0 P.mb0 * dRad))
               / BprimePolynomial P.J ((getRelativeP k.mR k.ma k.mb * dRad) * (getRelativeP k.mR k.ma k.mb * dRad))) : ℝ) : ℂ)) := by
  unfold massDep
  exact C15.BWR_eq_spec P.J (by omega) k.mR P.mR0 P.g0 _ _ dRad hq0 hden

/-- the hypotheses of `massDep_bw_spec` are satisfiable: resonance of mass 2 into two massless particles, event at m = 1 -/
example : ∃ (P : ChainPar) (k : ChainKin), P.J ≤ 4 ∧ eps15 < getRelativeP P.mR0 P.ma0 P.mb0 ∧ P.mR0 * P.mR0 ≠ k.mR * k.mR := by
  refine ⟨⟨2, true, false, 1, 0, 3, 2, 1, 0, 0, 0⟩, ⟨3, 1, 0, 0, 0, 0⟩, by decide, ?_, by norm_num⟩
  have h : getRelativeP 2 0 0 = 1 := by
    unfold getRelativeP ksqrt
    norm_num
    rw [show (16 : ℝ) = 4 * 4 by norm_num, Real.sqrt_mul_self (by norm_num)]
    norm_num
  show eps15 < getRelativeP 2 0 0
  rw [h]; unfold eps15; norm_num

/-- above threshold the clamped `get_relative_p` (running width) is the square root of `get_relative_p2` (barrier factor):
one and the same break-up momentum `q` enters `q^J B_J(q)` and `Γ(m)` -/
theorem relP_eq_sqrt_relP2 (m m1 m2 : ℝ) (h : m1 + m2 < m) (hm : 0 < m) :
    getRelativeP m m1 m2 = Real.sqrt (getRelativeP2 m m1 m2) := by
  unfold getRelativeP getRelativeP2 ksqrt
  simp only [gt_iff_lt, if_pos h]
  rw [Real.sqrt_div' _ (by positivity), Real.sqrt_mul_self (by positivity)]

example : ∃ m m1 m2 : ℝ, m1 + m2 < m ∧ 0 < m ∧ 0 < getRelativeP2 m m1 m2 :=
  ⟨2, 0.5, 1, by norm_num, by norm_num, by unfold getRelativeP2; norm_num⟩

example : ∃ q2 : ℝ, 0 ≤ q2 ∧ powHalf q2 3 = Real.sqrt q2 ^ 3 ∧ q2 ≠ 0 := ⟨2, by norm_num, powHalf_eq 2 (by norm_num) 3, by norm_num⟩

/-- **The closed term in documented notation**, regular kinematics (event and nominal masses above the thresholds,
`q0 > 1e-15`), J ≤ 4:
`c · (-1)^J · p^J B'_J(p,p0,d) · q^J B'_J(q,q0,d) · P_J(cos θ) / (m0² - m² - i m0 Γ(m))` with
`Γ(m) = Γ0 (q/q0)^(2J+1) (m0/m) B'_J(q,q0,d)²`, `d = 3`, `p` the break-up momentum of the parent's decay, `q` that of the
resonance's decay. -/
theorem closedTerm_spec (P : ChainPar) (hJ : P.J ≤ 4) (k : ChainKin)
    (hp : 0 ≤ getRelativeP2 k.mA k.mR k.mc) (hp0 : 0 ≤ getRelativeP2 P.mA0 P.mR0 P.mc0)
    (hq : 0 ≤ getRelativeP2 k.mR k.ma k.mb) (hq0' : 0 ≤ getRelativeP2 P.mR0 P.ma0 P.mb0)
    (hth : k.ma + k.mb < k.mR) (hmR : 0 < k.mR) (hth0 : P.ma0 + P.mb0 < P.mR0) (hmR0 : 0 < P.mR0)
    (hq0 : eps15 < getRelativeP P.mR0 P.ma0 P.mb0)
    (hden : P.mR0 * Gamma P.J k.mR P.g0 (getRelativeP k.mR k.ma k.mb) (getRelativeP P.mR0 P.ma0 P.mb0) P.mR0 dRad ≠ 0
      ∨ P.mR0 * P.mR0 ≠ k.mR * k.mR) :
    let p := Real.sqrt (getRelativeP2 k.mA k.mR k.mc)
    let p0 := Real.sqrt (getRelativeP2 P.mA0 P.mR0 P.mc0)
    let q := getRelativeP k.mR k.ma k.mb
    let q0 := getRelativeP P.mR0 P.ma0 P.mb0
    toC (closedTerm P k)
      = toC (coupling P.polar P.c1 P.c2)
        * (((-1) ^ P.J * (p ^ P.J * Bprime P.J p p0 dRad) * (q ^ P.J * Bprime P.J q q0 dRad) * legendre P.J k.cosT : ℝ) : ℂ)
        * (1 / ((P.mR0 : ℂ) ^ 2 - (k.mR : ℂ) ^ 2 - Complex.I * P.mR0 *
            ((P.g0 * (q / q0) ^ (2 * P.J + 1) * (P.mR0 / k.mR)
              * (BprimePolynomial P.J ((q0 * dRad) * (q0 * dRad)) / BprimePolynomial P.J ((q * dRad) * (q * dRad))) : ℝ) : ℂ))) := by
  intro p p0 q q0
  unfold closedTerm
  rw [closedOf_toC, massDep_bw_spec P hJ k hq0 hden]
  have e1 : (massDep P k).bA = p ^ P.J * Bprime P.J p p0 dRad := by
    have := barrier_eq_spec P.J (by omega) p p0 dRad (Real.sqrt_nonneg _)
    rw [Real.mul_self_sqrt hp, Real.mul_self_sqrt hp0] at this
    exact this
  have e2 : (massDep P k).bR = q ^ P.J * Bprime P.J q q0 dRad := by
    have hqs : q = Real.sqrt (getRelativeP2 k.mR k.ma k.mb) := relP_eq_sqrt_relP2 _ _ _ hth hmR
    have hq0s : q0 = Real.sqrt (getRelativeP2 P.mR0 P.ma0 P.mb0) := relP_eq_sqrt_relP2 _ _ _ hth0 hmR0
    have := barrier_eq_spec P.J (by omega) q q0 dRad (by rw [hqs]; exact Real.sqrt_nonneg _)
    rw [hqs, hq0s, Real.mul_self_sqrt hq, Real.mul_self_sqrt hq0', ← hqs, ← hq0s] at this
    exact this
  rw [e1, e2]

/-- the hypotheses of `closedTerm_spec` are satisfiable: parent of mass 3, resonance of nominal mass 2 seen at m = 1,
massless final particles -/
example : ∃ (P : ChainPar) (k : ChainKin), P.J ≤ 4 ∧ 0 ≤ getRelativeP2 k.mA k.mR k.mc ∧ 0 ≤ getRelativeP2 P.mA0 P.mR0 P.mc0 ∧
    0 ≤ getRelativeP2 k.mR k.ma k.mb ∧ 0 ≤ getRelativeP2 P.mR0 P.ma0 P.mb0 ∧ k.ma + k.mb < k.mR ∧ 0 < k.mR ∧
    P.ma0 + P.mb0 < P.mR0 ∧ 0 < P.mR0 ∧ P.mR0 * P.mR0 ≠ k.mR * k.mR := by
  refine ⟨⟨2, true, false, 1, 0, 3, 2, 1, 0, 0, 0⟩, ⟨3, 1, 0, 0, 0, 0⟩, by decide, ?_, ?_, ?_, ?_, ?_, ?_, ?_, ?_, ?_⟩ <;>
    simp only [getRelativeP2] <;> norm_num

end TfPwaV.C04
