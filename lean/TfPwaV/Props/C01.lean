import TfPwaV.Proofs.FrameAlg
import TfPwaV.Model.Swap
/-!
# C01 — the decay-rate density is independent of the observer's frame

What is proved here is the **algebraic skeleton** of the statement, for all finite helicity index sets, all complex
chain tensors and all real angles:

* the helicity-summed density `Σ_λ |Σ_k A_k[λ]|²` is non-negative and unchanged when the parent and the final-state
  helicity indices of EVERY chain are mixed by the same unitary matrices (`density_unitary_invariant`);
* the code's conjugated D-matrix `e^{i m α} d^j_{mn}(β) e^{i n γ}` built from the exact small-d table model is such a
  unitary matrix for every `2j ≤ 8` and all real angles (`D_conj_unitary`, `density_rot_invariant`);
* every invariant mass of every subsystem and every break-up momentum fed to line shapes and barrier factors is
  unchanged by a common boost / rotation / reflection (`lorentz_invariants_*`);
* `d^j_{-m,-n}(β) = (-1)^{m-n} d^j_{mn}(β) = d^j_{nm}(β)` (`parity_d_symmetry`, `transpose_d_symmetry`);
* in the parent rest frame of a three-body decay spatial inversion IS the rotation by π about the decay-plane normal
  (`inversion_is_rotation_3body`), so inversion invariance there is a case of rotation invariance;
* the identical-particle sum over a finite exchange group with a sign character is an eigenvector of every exchange,
  hence its helicity-summed square is exchange invariant (`identical_exchange`).

What is **not** proved is kinematic: that under a boost (or a rotation with lab-fixed axes) the nested rest-frame
helicity angles and alignment rotations computed by `cal_angle` change by ONE common rotation of the parent rest
frame and common rotations of the final-state spin frames.  It is the explicit hypothesis (`hD`, `hB`) of
`density_boost_invariant_partial`; the harness validates it and the full statement on the implementation.
-/
open Matrix BigOperators
open scoped Kronecker
namespace TfPwaV.C01
open TfPwaV.UnitaryMix TfPwaV.FrameAlg TfPwaV.Wigner TfPwaV.C12

/-! ## density: non-negative, invariant under common unitary mixing -/

/-- the helicity-summed density is a non-negative real number (all index sets, all tensors) -/
theorem density_is_nonneg {ι κ : Type} [Fintype ι] [Fintype κ] (A : κ → ι → ℂ) : 0 ≤ density A :=
  density_nonneg A

/-- the density vanishes only if the coherent sum vanishes for every helicity configuration -/
theorem density_eq_zero_iff {ι κ : Type} [Fintype ι] [Fintype κ] (A : κ → ι → ℂ) :
    density A = 0 ↔ ∀ l, ∑ k, A k l = 0 := by
  unfold density
  rw [Finset.sum_eq_zero_iff_of_nonneg (fun _ _ => Complex.normSq_nonneg _)]
  simp

/-- **unitary mixing**: parent index mixed by `U`, final-state indices by `V` (a Kronecker product of per-particle
unitaries is again unitary, `kron_unitary`), the SAME for every chain: density unchanged. -/
theorem density_unitary_invariant {ιA ιF κ : Type} [Fintype ιA] [DecidableEq ιA] [Fintype ιF] [DecidableEq ιF]
    [Fintype κ] (U : Matrix ιA ιA ℂ) (V : Matrix ιF ιF ℂ) (hU : star U * U = 1) (hV : star V * V = 1)
    (A : κ → ιA × ιF → ℂ) :
    density (fun k => kroneckerMap (· * ·) U V *ᵥ A k) = density A :=
  unitary_mix_two U V hU hV A

-- non-vacuity: a non-trivial unitary (the 2×2 swap) exists
example : star (!![0, 1; 1, 0] : Matrix (Fin 2) (Fin 2) ℂ) * !![0, 1; 1, 0] = 1 := by
  ext i j; fin_cases i <;> fin_cases j <;> simp [Matrix.mul_apply, Fin.sum_univ_two]

/-! ## the code's D-matrix is unitary -/

/-- `D_matrix_conj(α,β,γ,N)[i,k] = e^{i m_i α} d_{ik}(β) e^{i m_k γ}` with `m_i = i - N/2` -/
theorem D_conj_entry (N : ℕ) (α β γ : ℝ) (i k : Fin (N + 1)) :
    DConj N α β γ i k = phase N α i * ((dReal N i k β : ℝ) : ℂ) * phase N γ k :=
  DConj_apply N α β γ i k

/-- for every spin `2j = N ≤ 8` and ALL real Euler angles the conjugated D-matrix of the code is unitary -/
theorem D_conj_unitary (N : ℕ) (hN : N ≤ 8) (α β γ : ℝ) : star (DConj N α β γ) * DConj N α β γ = 1 :=
  DConj_unitary N hN α β γ

/-- **rotation of the parent frame**: if a common rotation acts on every chain tensor by one D-matrix on the parent
helicity index (spin `N/2 ≤ 4`, any Euler angles) and by a common unitary `V` on the final-state indices, the
helicity-summed density is unchanged. -/
theorem density_rot_invariant {ιF κ : Type} [Fintype ιF] [DecidableEq ιF] [Fintype κ]
    (N : ℕ) (hN : N ≤ 8) (α β γ : ℝ) (V : Matrix ιF ιF ℂ) (hV : star V * V = 1)
    (A : κ → Fin (N + 1) × ιF → ℂ) :
    density (fun k => kroneckerMap (· * ·) (DConj N α β γ) V *ᵥ A k) = density A :=
  unitary_mix_two _ V (D_conj_unitary N hN α β γ) hV A

/-! ## frame independence from the covariance hypothesis -/

/-- FULL: for every decay structure, every physical event and every Lorentz transformation Λ the density computed by
`cal_angle` → `sum_amp` from Λp equals the one computed from p.

Proved part: write each chain tensor as `A_k[a,f] = Σ_l Dtop_k[a,l] · B_k[l,f]` (top-vertex D-matrix contracted with
the rest of the chain: helicity couplings, line shapes, lower D-matrices, alignment D-matrices).  IF under Λ
* `hD`: the top-vertex factor of every chain changes by ONE common unitary `U` on the parent helicity index (the
  rotation of the parent rest frame induced by Λ — a Wigner rotation for a boost), and
* `hB`: the remainder of every chain changes by ONE common unitary `V` on the final-state helicity indices (the code
  produces helicity-dependent phases there; `V = 1` when nothing changes: masses, |q|, lower angles are invariants,
  see `lorentz_invariants_boost`),
THEN the density is unchanged.  Missing: `hD`/`hB` for the angles actually computed by `cal_angle` (validated on the
implementation by harness/c01.py). -/
theorem density_boost_invariant_partial {ιA ιM ιF κ : Type} [Fintype ιA] [DecidableEq ιA] [Fintype ιM]
    [Fintype ιF] [DecidableEq ιF] [Fintype κ]
    (Dtop Dtop' : κ → Matrix ιA ιM ℂ) (B B' : κ → ιM → ιF → ℂ)
    (U : Matrix ιA ιA ℂ) (V : Matrix ιF ιF ℂ) (hU : star U * U = 1) (hV : star V * V = 1)
    (hD : ∀ k, Dtop' k = U * Dtop k) (hB : ∀ k l, B' k l = V *ᵥ B k l) :
    density (fun k (p : ιA × ιF) => ∑ l, Dtop' k p.1 l * B' k l p.2)
      = density (fun k (p : ιA × ιF) => ∑ l, Dtop k p.1 l * B k l p.2) := by
  rw [← unitary_mix_two U V hU hV (fun k (p : ιA × ιF) => ∑ l, Dtop k p.1 l * B k l p.2)]
  congr 1
  funext k p
  obtain ⟨a, f⟩ := p
  simp only [hD, hB, mulVec, dotProduct, kroneckerMap_apply, Matrix.mul_apply, Fintype.sum_prod_type,
    Finset.sum_mul, Finset.mul_sum]
  -- left: Σ_l Σ_f' Σ_a' …, right: Σ_a' Σ_f' Σ_l …
  rw [Finset.sum_comm (β := ℂ)]
  conv_rhs => rw [Finset.sum_comm (β := ℂ)]
  apply Finset.sum_congr rfl
  intro f' _
  rw [Finset.sum_comm (β := ℂ)]
  apply Finset.sum_congr rfl
  intro a' _
  apply Finset.sum_congr rfl
  intro l _
  ring

-- non-vacuity of the hypotheses: `U = D_conj` of any angles, `V = 1`, `Dtop' = U * Dtop`, `B' = B`
example (N : ℕ) (hN : N ≤ 8) (α β γ : ℝ) (Dtop : Unit → Matrix (Fin (N + 1)) (Fin 2) ℂ) (B : Unit → Fin 2 → Fin 3 → ℂ) :
    density (fun k (p : Fin (N + 1) × Fin 3) => ∑ l, (DConj N α β γ * Dtop k) p.1 l * B k l p.2)
      = density (fun k (p : Fin (N + 1) × Fin 3) => ∑ l, Dtop k p.1 l * B k l p.2) :=
  density_boost_invariant_partial Dtop (fun k => DConj N α β γ * Dtop k) B B (DConj N α β γ) 1
    (D_conj_unitary N hN α β γ) (by simp) (fun _ => rfl) (fun k l => by simp)

/-! ## Lorentz invariants: masses of all subsystems, break-up momenta -/
section Kinematics
open TfPwaV.ScalarR TfPwaV.KinR

/-- four-momentum of a subsystem = sum of its members (`infer_momentum`) -/
noncomputable def total : List V4 → V4
  | [] => ⟨0, 0, 0, 0⟩
  | p :: ps => p.add (total ps)

theorem boost_add (p q : V4) (v : V3) : (p.add q).boost v = (p.boost v).add (q.boost v) := by
  simp only [V4.boost, V4.add, V4.vect, V3.dot]
  congr 1 <;> ring

theorem boost_total (ps : List V4) (v : V3) : (total ps).boost v = total (ps.map (·.boost v)) := by
  induction ps with
  | nil => simp [total, V4.boost, V4.vect, V3.dot]
  | cons p ps ih => simp only [total, List.map_cons, boost_add, ih]

/-- **every invariant mass is boost invariant**: for every list of four-momenta (any subsystem of the final state)
and every velocity in the regular branch `ε < |v|² < 1`, the mass of the summed boosted momenta equals the mass of the
sum — so `data["particle"][·]["m"]` of every resonance is unchanged by a common boost. -/
theorem lorentz_invariants_boost (ps : List V4) (v : V3) (h1 : eps < v.norm2) (h2 : v.norm2 < 1) :
    (total (ps.map (·.boost v))).mass = (total ps).mass := by
  rw [← boost_total, TfPwaV.C11.boost_mass _ v h1 h2]

/-- … hence every break-up momentum `|q|²` (`Getp2`; input of barrier factors and running widths) is boost invariant -/
theorem breakup_boost_invariant (s0 s1 s2 : List V4) (v : V3) (h1 : eps < v.norm2) (h2 : v.norm2 < 1) :
    twoBodyP2 (total (s0.map (·.boost v))).mass (total (s1.map (·.boost v))).mass (total (s2.map (·.boost v))).mass
      = twoBodyP2 (total s0).mass (total s1).mass (total s2).mass := by
  rw [lorentz_invariants_boost s0 v h1 h2, lorentz_invariants_boost s1 v h1 h2, lorentz_invariants_boost s2 v h1 h2]

/-- action of a spatial linear map on four-vectors -/
def spatial (R : V3 → V3) (p : V4) : V4 := ⟨p.t, (R p.vect).x, (R p.vect).y, (R p.vect).z⟩

/-- **every invariant mass is invariant under rotations and reflections** (any additive map of three-space that
preserves the dot product; spatial inversion is the case `R = V3.neg`). -/
theorem lorentz_invariants_rotation (R : V3 → V3) (hadd : ∀ a b, R (a.add b) = (R a).add (R b))
    (hR : ∀ a b, (R a).dot (R b) = a.dot b) (ps : List V4) :
    (total (ps.map (spatial R))).mass = (total ps).mass := by
  have hlin : ∀ p q : V4, spatial R (p.add q) = (spatial R p).add (spatial R q) := by
    intro p q
    have := hadd p.vect q.vect
    simp only [spatial, V4.add, V4.vect, V3.add] at this ⊢
    rw [this]
  have h0 : R ⟨0, 0, 0⟩ = ⟨0, 0, 0⟩ := by
    have h := hadd ⟨0, 0, 0⟩ ⟨0, 0, 0⟩
    simp only [V3.add, add_zero] at h
    have hx := congrArg V3.x h
    have hy := congrArg V3.y h
    have hz := congrArg V3.z h
    simp only at hx hy hz
    cases hr : R ⟨0, 0, 0⟩ with
    | mk x y z =>
      rw [hr] at hx hy hz
      simp only at hx hy hz
      congr 1 <;> linarith
  have htot : ∀ qs : List V4, spatial R (total qs) = total (qs.map (spatial R)) := by
    intro qs
    induction qs with
    | nil => simp [total, spatial, V4.vect, h0]
    | cons q qs ih => simp only [total, List.map_cons, hlin, ih]
  rw [← htot]
  have := TfPwaV.C11.rotation_minkowski R hR (total ps) (total ps)
  simp only at this
  unfold V4.mass V4.m2
  unfold spatial
  rw [this]

/-- spatial inversion satisfies the hypotheses of `lorentz_invariants_rotation` -/
theorem inversion_mass_invariant (ps : List V4) : (total (ps.map (spatial V3.neg))).mass = (total ps).mass :=
  lorentz_invariants_rotation V3.neg (by intro a b; simp [V3.neg, V3.add]; ring_nf; trivial)
    (by intro a b; simp only [V3.neg, V3.dot]; ring) ps

-- non-vacuity: a velocity in the regular branch
example : eps < (⟨0.6, 0, 0.7⟩ : V3).norm2 ∧ (⟨0.6, 0, 0.7⟩ : V3).norm2 < 1 := by
  unfold eps V3.norm2; norm_num

/-! ## three-body decays: inversion is a rotation -/

/-- In the parent rest frame of a three-body decay (`a + b + c = 0`, non-collinear) the spatial inversion of the three
momenta coincides with the proper rotation by π about the normal `a × b` of the decay plane. -/
theorem inversion_is_rotation_3body (a b c : V3) (hsum : (a.add b).add c = ⟨0, 0, 0⟩)
    (hn : (a.cross b).norm2 ≠ 0) :
    rotPi (a.cross b) a = a.neg ∧ rotPi (a.cross b) b = b.neg ∧ rotPi (a.cross b) c = c.neg := by
  obtain ⟨ax, ay, az⟩ := a
  obtain ⟨bx, bY, bz⟩ := b
  obtain ⟨cx, cy, cz⟩ := c
  simp only [V3.add, V3.mk.injEq] at hsum
  obtain ⟨hx, hy, hz⟩ := hsum
  have ecx : cx = -(ax + bx) := by linarith
  have ecy : cy = -(ay + bY) := by linarith
  have ecz : cz = -(az + bz) := by linarith
  subst ecx ecy ecz
  simp only [V3.cross, V3.norm2] at hn
  refine ⟨?_, ?_, ?_⟩ <;>
  · simp only [rotPi, V3.cross, V3.dot, V3.norm2, V3.smul, V3.sub, V3.neg, V3.mk.injEq]
    refine ⟨?_, ?_, ?_⟩ <;> (field_simp; ring)

/-- `rotPi n` preserves dot products and (being proper) cross products, and is additive: it satisfies the hypotheses
of `lorentz_invariants_rotation` / `C11.rotation_minkowski` and is a rotation, not a reflection. -/
theorem rotPi_is_rotation (n : V3) (hn : n.norm2 ≠ 0) :
    (∀ u v, (rotPi n u).dot (rotPi n v) = u.dot v) ∧
    (∀ u v, rotPi n (u.cross v) = (rotPi n u).cross (rotPi n v)) ∧
    (∀ u v, rotPi n (u.add v) = (rotPi n u).add (rotPi n v)) := by
  obtain ⟨nx, ny, nz⟩ := n
  simp only [V3.norm2] at hn
  have hn' : nx ^ 2 + ny ^ 2 + nz ^ 2 ≠ 0 := by
    intro h; apply hn; rw [← h]; ring
  refine ⟨?_, ?_, ?_⟩
  · intro u v
    simp only [rotPi, V3.dot, V3.norm2, V3.smul, V3.sub]
    field_simp
    ring
  · intro u v
    simp only [rotPi, V3.cross, V3.dot, V3.norm2, V3.smul, V3.sub, V3.mk.injEq]
    refine ⟨?_, ?_, ?_⟩ <;> (field_simp; ring)
  · intro u v
    simp only [rotPi, V3.add, V3.dot, V3.norm2, V3.smul, V3.sub, V3.mk.injEq]
    refine ⟨?_, ?_, ?_⟩ <;> (field_simp; ring)

-- non-vacuity: a non-collinear rest-frame configuration
example : ((⟨1, 0, 0⟩ : V3).add ⟨0, 1, 0⟩).add ⟨-1, -1, 0⟩ = ⟨0, 0, 0⟩ ∧ ((⟨1, 0, 0⟩ : V3).cross ⟨0, 1, 0⟩).norm2 ≠ 0 := by
  simp [V3.add, V3.cross, V3.norm2]

end Kinematics

/-! ## parity: symmetry of the small-d functions -/

/-- `d^j_{-m,-n}(β) = (-1)^{m-n} d^j_{mn}(β)` for every `2j = N ≤ 8`, all `m, n`, all real β
(index `i ↔ m = i - N/2`, so `-m ↔ N - i` and `(-1)^{m-n} = (-1)^{i+k}`). -/
theorem parity_d_symmetry (N im inn : ℕ) (hN : N ≤ 8) (hm : im ≤ N) (hn : inn ≤ N) (β : ℝ) :
    dReal N (N - im) (N - inn) β = (-1 : ℝ) ^ (im + inn) * dReal N im inn β := by
  unfold dReal
  rw [(dPoly_sym N im inn hN hm hn).1, evalQ_map_mul, A_reflect N im hm, A_reflect N inn hn, sgn_cast]
  ring

/-- `d^j_{nm}(β) = (-1)^{m-n} d^j_{mn}(β)` -/
theorem transpose_d_symmetry (N im inn : ℕ) (hN : N ≤ 8) (hm : im ≤ N) (hn : inn ≤ N) (β : ℝ) :
    dReal N inn im β = (-1 : ℝ) ^ (im + inn) * dReal N im inn β := by
  unfold dReal
  rw [(dPoly_sym N im inn hN hm hn).2, evalQ_map_mul, sgn_cast, Nat.mul_comm (A N inn)]
  ring

/-- consequently `d^j_{-m,-n} = d^j_{nm}`: reflecting all helicities transposes the small-d matrix -/
theorem parity_is_transpose (N im inn : ℕ) (hN : N ≤ 8) (hm : im ≤ N) (hn : inn ≤ N) (β : ℝ) :
    dReal N (N - im) (N - inn) β = dReal N inn im β := by
  rw [parity_d_symmetry N im inn hN hm hn, transpose_d_symmetry N im inn hN hm hn]

/-! ## identical particles: the symmetrised amplitude is an eigenvector of every exchange -/

/-- `get_amp2`: `S(x)[λ] = Σ_g χ(g) · A(g·x)[P_g λ]` over the exchange group `G` of the declared identical particles
(`g·x` = event with exchanged momenta, `P_g` = transposition of the helicity indices, `χ` = sign character: `-1`
per odd exchange of fermions). -/
noncomputable def symmetrised {G X ι : Type} [Group G] [Fintype G] [MulAction G X]
    (P : G →* Equiv.Perm ι) (χ : G →* ℂ) (A : X → ι → ℂ) (x : X) (l : ι) : ℂ :=
  ∑ g : G, χ g * A (g • x) (P g l)

/-- exchange covariance: `S(h·x)[λ] = χ(h)⁻¹ · S(x)[P_h⁻¹ λ]` for every finite group, character and amplitude -/
theorem symmetrised_covariant {G X ι : Type} [Group G] [Fintype G] [MulAction G X]
    (P : G →* Equiv.Perm ι) (χ : G →* ℂ) (A : X → ι → ℂ) (h : G) (x : X) (l : ι) :
    symmetrised P χ A (h • x) l = χ h⁻¹ * symmetrised P χ A x (P h⁻¹ l) := by
  unfold symmetrised
  have hh : χ h⁻¹ * χ h = 1 := by rw [← map_mul, inv_mul_cancel, map_one]
  have hP : ∀ g : G, (P (g * h)) ((P h⁻¹) l) = (P g) l := by
    intro g
    rw [← Equiv.Perm.mul_apply, ← map_mul, mul_assoc, mul_inv_cancel, mul_one]
  rw [← Equiv.sum_comp (Equiv.mulRight h) (fun g => χ g * A (g • x) ((P g) ((P h⁻¹) l))), Finset.mul_sum]
  refine Finset.sum_congr rfl fun g _ => ?_
  simp only [Equiv.coe_mulRight, mul_smul, map_mul]
  rw [← map_mul P, hP]
  calc χ g * A (g • h • x) ((P g) l) = (χ h⁻¹ * χ h) * (χ g * A (g • h • x) ((P g) l)) := by rw [hh, one_mul]
    _ = χ h⁻¹ * (χ g * χ h * A (g • h • x) ((P g) l)) := by ring

/-- **identical-particle exchange**: for every finite exchange group `G` acting on events, every homomorphism `P` into
permutations of the helicity configurations, every character `χ` of modulus one (the fermion sign) and EVERY
amplitude `A`, the helicity-summed square of the symmetrised amplitude is the same at `x` and at the exchanged
event `h·x`. -/
theorem identical_exchange {G X ι : Type} [Group G] [Fintype G] [MulAction G X] [Fintype ι]
    (P : G →* Equiv.Perm ι) (χ : G →* ℂ) (hχ : ∀ g, Complex.normSq (χ g) = 1) (A : X → ι → ℂ) (h : G) (x : X) :
    ∑ l, Complex.normSq (symmetrised P χ A (h • x) l) = ∑ l, Complex.normSq (symmetrised P χ A x l) := by
  simp only [symmetrised_covariant, Complex.normSq_mul, hχ, one_mul]
  exact Equiv.sum_comp (P h⁻¹) (fun l => Complex.normSq (symmetrised P χ A x l))

/-- the case implemented by `get_amp2` for one pair: `S(p) = A(p) + ε · Aᵀ(σp)` with `σ² = 1`, `ε = ±1`
(`get_swap_factor`), `ᵀ` the involutive exchange of the two helicity indices. -/
theorem pair_exchange {X ι : Type} [Fintype ι] (σ : X → X) (hσ : ∀ x, σ (σ x) = x) (T : Equiv.Perm ι)
    (hT : ∀ l, T (T l) = l) (ε : ℂ) (hε : ε * ε = 1) (A : X → ι → ℂ) (x : X) :
    ∑ l, Complex.normSq (A (σ x) l + ε * A (σ (σ x)) (T l)) = ∑ l, Complex.normSq (A x l + ε * A (σ x) (T l)) := by
  have hn : Complex.normSq ε = 1 := by
    have := congrArg Complex.normSq hε
    rw [Complex.normSq_mul, Complex.normSq_one] at this
    have h0 := Complex.normSq_nonneg ε
    nlinarith
  rw [← Equiv.sum_comp T (fun l => Complex.normSq (A x l + ε * A (σ x) (T l)))]
  refine Finset.sum_congr rfl fun l _ => ?_
  rw [hσ, hT]
  have : A (σ x) l + ε * A x (T l) = ε * (A x (T l) + ε * A (σ x) l) := by
    rw [mul_add, ← mul_assoc, hε, one_mul, add_comm]
  rw [this, Complex.normSq_mul, hn, one_mul]

-- non-vacuity: the sign character of Z₂ ≅ Perm (Fin 2) has modulus one
example : ∀ g : Equiv.Perm (Fin 2), Complex.normSq (((Equiv.Perm.sign g : ℤˣ) : ℤ) : ℂ) = 1 := by
  intro g
  rcases Int.units_eq_one_or (Equiv.Perm.sign g) with h | h <;> simp [h]

/-! ## the sign factor of `get_swap_factor` (model `TfPwaV.Swap`, compared with the real function on every run) -/

/-- the repaired `get_swap_factor` is the sign of the permutation for every exchange of up to four identical fermions,
hence a character (hypothesis `χ` of `identical_exchange`) -/
theorem swap_factor_fixed_is_sign :
    ∀ n ≤ 4, (TfPwaV.Swap.perms n).all (fun σ => TfPwaV.Swap.fixedFactor σ = TfPwaV.Swap.permSign σ) = true :=
  TfPwaV.Swap.fixed_is_sign

/-- the factor computed before the repair agrees with it for at most two identical fermions … -/
theorem swap_factor_legacy_ok_pairs :
    ∀ n ≤ 2, (TfPwaV.Swap.perms n).all (fun σ => TfPwaV.Swap.legacyFactor σ = TfPwaV.Swap.permSign σ) = true :=
  TfPwaV.Swap.legacy_ok_le2

/-- … and is NOT a character for three: `-1` on the (even) 3-cycle `(0 1)(1 2)`, while the two transpositions
multiply to `+1` — the hypothesis of `identical_exchange` fails for the unrepaired code (known finding). -/
theorem swap_factor_legacy_violates :
    TfPwaV.Swap.legacyFactor [1, 2, 0] = -1 ∧ TfPwaV.Swap.permSign [1, 2, 0] = 1 ∧
    TfPwaV.Swap.compose [1, 0, 2] [0, 2, 1] = [1, 2, 0] ∧
    TfPwaV.Swap.legacyFactor [1, 0, 2] * TfPwaV.Swap.legacyFactor [0, 2, 1] = 1 :=
  TfPwaV.Swap.legacy_wrong_3cycle

end TfPwaV.C01
