import TfPwaV.Proofs.AmpSwap
import TfPwaV.Props.C01
/-!
# C01 (amplitude tensor, part 3) — identical particles in the executable model

`templates/Amp.lean.in` models `DecayGroup.get_amp2` (`groupAmp2`: the amplitude on the event's own data plus, for every entry
of `data["id_swap"]`, `get_swap_factor ·` the amplitude on the exchanged data with the final-state axes transposed),
`get_amp3` and `sum_amp` (`density2` / `density3`); the Float instance is compared per helicity component with
`DecayGroup.get_amp3` and with `sum_amp` on every run (harness/c01_amp.py `correspond_amp3`).  Here, for the ℝ instance:

* `amp2_exchange_covariant`: for one pair of identical particles `p, q`, the symmetrised amplitude on the EXCHANGED event is
  `ε ·` the symmetrised amplitude on the event itself with the two helicity indices transposed (`ε² = 1`);
* `model_exchange_invariant`: hence the symmetrised model density (`sum_amp` with the identical-particle terms) is the same on the
  event and on the exchanged event — for EVERY list of chains on either data, both signs, every helicity list of the pair, any
  other final particles.  This is the case `G = Z₂` of `C01.identical_exchange` / `C01.pair_exchange` on the executable model,
  whose nested list sums are re-indexed by `sumOverR_swap`.

The exchanged event's own data are the chains `cs'` and its `id_swap` data are the chains `cs` of the original event: exchanging the
momenta twice gives the original momenta (bookkeeping of `cal_angle_from_momentum_id_swap`, validated by the `swap` transformation
of the search).
-/
open BigOperators
open TfPwaV.ScalarR
namespace TfPwaV.C01f
open TfPwaV.AmpR TfPwaV.LineShapeR

/-- `get_amp2` with one `id_swap` entry -/
theorem groupAmp2_single (cs : List Chain) (s : SwapTerm) (la : Int) (ext : Hel) :
    groupAmp2 cs [s] la ext = (groupAmp cs la ext).add (Cx.smul s.factor (groupAmp s.chains la (ext.perm s.perm))) := rfl

/-- **exchange covariance of the symmetrised amplitude** (all chains, all helicity components): with `cs` the chains on the data of
the event, `cs'` the chains on the exchanged data, `ε = get_swap_factor` (`ε² = 1`) and the transposition `swapIds p q`,
`A₂(exchanged event)[λ] = ε · A₂(event)[λ with the indices of p and q transposed]`. -/
theorem amp2_exchange_covariant (cs cs' : List Chain) (ε : ℝ) (hε : ε * ε = 1) (p q : Nat) (la : Int) (ext : Hel) :
    toC (groupAmp2 cs' [⟨ε, cs, swapIds p q⟩] la ext)
      = (ε : ℂ) * toC (groupAmp2 cs [⟨ε, cs', swapIds p q⟩] la (ext.perm (swapIds p q))) := by
  rw [groupAmp2_single, groupAmp2_single]
  simp only [toC_add, toC_smul, Hel.perm_perm_swap]
  have h2 : (ε : ℂ) * (ε : ℂ) = 1 := by exact_mod_cast hε
  linear_combination (-(toC (groupAmp cs' la ext))) * h2

example : ∃ ε : ℝ, ε * ε = 1 ∧ ε ≠ 1 := ⟨-1, by norm_num, by norm_num⟩

/-- **the symmetrised model density is invariant under exchanging the identical particles' data**: `sum_amp` with the
identical-particle term of one pair (`density2`), evaluated on the exchanged event (own data `cs'`, exchanged data `cs`), equals
its value on the event (own data `cs`, exchanged data `cs'`).  All lists of chains, `ε = ±1`, every top helicity list, the pair
`p ≠ q` carrying the same helicity list `R`, arbitrary other final-state index lists. -/
theorem model_exchange_invariant (cs cs' : List Chain) (ε : ℝ) (hε : ε * ε = 1) (p q : Nat) (hpq : p ≠ q) (R : List Int)
    (tops : List Int) (pre mid post : List (Nat × List Int))
    (hp : p ∉ (mid ++ (q, R) :: post).map Prod.fst) (hq : q ∉ post.map Prod.fst) :
    density2 cs' [⟨ε, cs, swapIds p q⟩] tops (pre ++ (p, R) :: (mid ++ (q, R) :: post))
      = density2 cs [⟨ε, cs', swapIds p q⟩] tops (pre ++ (p, R) :: (mid ++ (q, R) :: post)) := by
  unfold density2
  congr 1
  apply List.map_congr_left
  intro la _
  rw [← sumOverR_swap (fun x => (groupAmp2 cs [⟨ε, cs', swapIds p q⟩] la x).normSq) p q hpq R pre mid post hp hq]
  apply sumOverR_congr
  intro x
  rw [← normSq_toC, ← normSq_toC, amp2_exchange_covariant cs cs' ε hε p q la x, Complex.normSq_mul]
  have : Complex.normSq (ε : ℂ) = 1 := by rw [Complex.normSq_ofReal]; exact hε
  rw [this, one_mul]

-- the index hypotheses are satisfiable: finals [B(id 1, spin 0), C1(id 2), C2(id 3)] with two identical spin-1/2 particles
example : (2 : Nat) ≠ 3 ∧ (2 : Nat) ∉ (([] : List (Nat × List Int)) ++ (3, [-1, 1]) :: []).map Prod.fst
    ∧ (3 : Nat) ∉ ([] : List (Nat × List Int)).map Prod.fst := by simp

/-- `get_swap_factor` for one pair: the model's factor is `-1` for two identical fermions and `+1` for bosons, so `ε² = 1` -/
theorem swapFactor_pair_sq (ferm : Bool) (σ : List Nat) (hσ : σ = [0, 1] ∨ σ = [1, 0]) :
    swapFactor [(ferm, σ)] * swapFactor [(ferm, σ)] = 1 := by
  rcases hσ with rfl | rfl <;> cases ferm <;> decide

end TfPwaV.C01f
