import TfPwaV.Props.C15
import TfPwaV.Gen.LineShapeXR
import Mathlib.Analysis.Complex.Norm

/-!
C15, round 3 — the registered particle models outside the Breit–Wigner family equal their documented formulas:
`FlatteGen` / `Flatte2` (with the documented options), `LASS`, `MultiBW`, `Kmatrix`, `KMatrixSingleChannel`,
`KmatrixSimple` (one and two channels).  All statements over ℝ / Mathlib ℂ for all parameter values; hypotheses name the
guards of the code (`q0 > 1e-15`) and non-vanishing momenta where a ratio is cancelled.
-/
open TfPwaV.ScalarR TfPwaV.BprimeTable
namespace TfPwaV.C15
open TfPwaV.LineShapeR

/-! ## helpers -/

theorem toC_real (x : ℝ) : toC ⟨x, 0⟩ = (x : ℂ) := by apply Complex.ext <;> simp
theorem toC_imag (y : ℝ) : toC ⟨0, y⟩ = Complex.I * (y : ℂ) := by apply Complex.ext <;> simp
theorem toC_zero : toC ⟨0, 0⟩ = 0 := by apply Complex.ext <;> simp
theorem toC_sub_I (x y : ℝ) : toC ⟨x, -y⟩ = (x : ℂ) - Complex.I * (y : ℂ) := by apply Complex.ext <;> simp

/-- `tf.abs` of a complex number is the norm -/
theorem Cx.abs_eq_norm (a : Cx) : a.abs = ‖toC a‖ := by
  unfold Cx.abs Cx.normSq ksqrt
  rw [Complex.norm_eq_sqrt_sq_add_sq]
  simp [pow_two]

theorem Cx.abs_div (a b : Cx) : (a.div b).abs = a.abs / b.abs := by
  rw [Cx.abs_eq_norm, Cx.abs_eq_norm, Cx.abs_eq_norm, toC_div, norm_div]

theorem Cx.abs_nonneg (a : Cx) : 0 ≤ a.abs := by rw [Cx.abs_eq_norm]; exact norm_nonneg _

/-- `BW` without side condition (Lean's totalised division: both sides vanish at a vanishing denominator) -/
theorem BW_eq_spec_total (m m0 g0 : ℝ) :
    toC (BW m m0 g0) = 1 / ((m0 : ℂ) ^ 2 - (m : ℂ) ^ 2 - Complex.I * m0 * g0) := by
  unfold BW
  simp only [toC_mk]
  rw [inv_sub_I]
  push_cast
  ring_nf

/-! ## FlatteGen / Flatte2 -/

/-- `FlatteGen` / `Flatte2`, every option setting, any number of channels:
`R = 1 / (m0² - m² + im_sign · Σ_i term_i)` with `term_i` the channel term below; `Flatte2` squares the couplings -/
theorem FlatteGen_eq_spec (o : FlatteOpt) (sq : Bool) (sgn d : ℝ) (chs : List (ℝ × ℝ × ℝ)) (ls : List ℕ) (m m0 : ℝ) :
    toC (FlatteGen o sq sgn d chs ls m m0)
      = 1 / ((m0 : ℂ) ^ 2 - (m : ℂ) ^ 2 + (sgn : ℂ) *
          ((((if sq then chs.map (fun c => (c.1, c.2.1, c.2.2 * c.2.2)) else chs).zip ls).map
            fun cl => toC (flatteGenTerm o d m m0 cl.1 cl.2)).sum)) := by
  unfold FlatteGen
  simp only
  set chs' := (if sq then chs.map (fun c => (c.1, c.2.1, c.2.2 * c.2.2)) else chs)
  set rho := Cx.smul sgn (Cx.sumFrom ⟨0, 0⟩ ((chs'.zip ls).map fun cl => flatteGenTerm o d m m0 cl.1 cl.2)) with hrho
  have hr : toC rho = (sgn : ℂ) * (((chs'.zip ls).map fun cl => toC (flatteGenTerm o d m m0 cl.1 cl.2)).sum) := by
    rw [hrho, toC_smul, Cx.sumFrom_eq, List.map_map, toC_zero, zero_add]
    rfl
  rw [← hr]
  have := inv_toC ⟨m0 * m0 - m * m + rho.re, rho.im⟩
  simp only at this
  rw [toC_mk, this]
  congr 1
  apply Complex.ext <;> simp [pow_two]

/-- the documented channel term (default options `has_bprime=True, no_m0=False, no_q0=False, cut_phsp=False`), L ≤ 8:
`i g (q_i/m) m0 · (m0/|q_i0|) · (|q_i|/|q_i0|)^{2l} · B_l'²(|q_i|, |q_i0|, d)` with `q_i = cal_monentum(m)` (real above, `+i|·|` below threshold,
`calMomentum_sq`) -/
theorem flatteGenTerm_default_eq_doc (d m m0 : ℝ) (ch : ℝ × ℝ × ℝ) (l : ℕ) (hl : l ≤ 8) :
    toC (flatteGenTerm ⟨true, false, false, false⟩ d m m0 ch l)
      = toC (calMomentum m ch.1 ch.2.1) * (Complex.I * ((ch.2.2 * (m0 / m) : ℝ) : ℂ))
        * ((m0 / (calMomentum m0 ch.1 ch.2.1).abs : ℝ) : ℂ)
        * ((((calMomentum m ch.1 ch.2.1).abs / (calMomentum m0 ch.1 ch.2.1).abs) ^ (2 * l) : ℝ) : ℂ)
        * ((BprimePolynomial l (((calMomentum m0 ch.1 ch.2.1).abs * d) * ((calMomentum m0 ch.1 ch.2.1).abs * d))
            / BprimePolynomial l (((calMomentum m ch.1 ch.2.1).abs * d) * ((calMomentum m ch.1 ch.2.1).abs * d)) : ℝ) : ℂ) := by
  unfold flatteGenTerm
  simp only [Bool.false_eq_true, if_false, if_true]
  rw [BprimeQ2_eq_Bprime l hl, Bprime_sq l hl, toC_mul, toC_real]
  by_cases h0 : l = 0
  · subst h0
    simp only [bne_self_eq_false, Bool.false_eq_true, if_false, Nat.mul_zero, pow_zero, Complex.ofReal_one, mul_one]
    rw [toC_mul, toC_mul, toC_real, toC_imag]
  · have : (l != 0) = true := by simpa using h0
    simp only [this, if_true]
    rw [toC_mul, toC_mul, toC_mul, toC_real, toC_real, toC_imag, kpowN_eq, Cx.abs_div]

/-- `cut_phsp`: the code zeroes a channel for `m < ma + mb`, the documentation where the radicand is negative; the two
conditions coincide for `m > |ma - mb|` (below the pseudo-threshold the code still zeroes the channel) -/
theorem flatteGen_cut_condition (m ma mb : ℝ) (hm : 0 < m) (hs : 0 ≤ ma + mb) (hd : |ma - mb| < m) :
    (m * m - (ma + mb) * (ma + mb)) * (m * m - (ma - mb) * (ma - mb)) < 0 ↔ m < ma + mb := by
  have h2 : 0 < m * m - (ma - mb) * (ma - mb) := by
    have := abs_lt.mp hd
    nlinarith [this.1, this.2]
  constructor
  · intro h
    have h1 : m * m - (ma + mb) * (ma + mb) < 0 := by
      by_contra hc
      exact absurd (mul_nonneg (not_lt.mp hc) h2.le) (not_le.mpr h)
    nlinarith
  · intro h
    have h1 : m * m - (ma + mb) * (ma + mb) < 0 := by nlinarith
    exact mul_neg_of_neg_of_pos h1 h2

/-- with `cut_phsp` the channel term is exactly zero below the channel threshold -/
theorem flatteGenTerm_cut (o : FlatteOpt) (ho : o.cutPhsp = true) (d m m0 : ℝ) (ch : ℝ × ℝ × ℝ) (l : ℕ)
    (hm : m < ch.1 + ch.2.1) : toC (flatteGenTerm o d m m0 ch l) = 0 := by
  unfold flatteGenTerm
  simp only [ho, if_true, if_pos hm]
  exact toC_zero

/-! ## LASS -/

/-- `e^{2iδ_B} = (cot²δ-1)/(cot²δ+1) + i 2cotδ/(cot²δ+1)` -/
theorem lassPhase_eq_doc (c : ℝ) :
    toC (lassPhase c) = (((c * c - 1) / (c * c + 1) : ℝ) : ℂ) + Complex.I * ((2 * c / (c * c + 1) : ℝ) : ℂ) := by
  have h : c * c + 1 ≠ 0 := by nlinarith [mul_self_nonneg c]
  unfold lassPhase
  simp only
  apply Complex.ext
  · simp only [toC_re, Complex.add_re, Complex.ofReal_re, Complex.mul_re, Complex.I_re, Complex.I_im, Complex.ofReal_im, Cx.div,
      Cx.normSq]
    field_simp
    ring
  · simp only [toC_im, Complex.add_im, Complex.ofReal_re, Complex.mul_im, Complex.I_re, Complex.I_im, Complex.ofReal_im, Cx.div,
      Cx.normSq]
    field_simp
    ring

/-- the background phase factor has modulus one (it is `cos 2δ + i sin 2δ`) -/
theorem lassPhase_unit (c : ℝ) : (lassPhase c).normSq = 1 := by
  have h : c * c + 1 ≠ 0 := by nlinarith [mul_self_nonneg c]
  simp only [lassPhase, Cx.div, Cx.normSq]
  field_simp
  ring

/-- `LASS`: `m/(q cotδ_B - i q) + e^{2iδ_B} · m0 Γ0 (m0/q0) / ((m0² - m²) - i m0 Γ0 (q/m)(m0/q0))`,
`cotδ_B = 1/(|a| q) + |r| q / 2`, for all inputs in the regular branch `q0 > 1e-15` of the running width -/
theorem LASS_eq_spec (m m0 g0 q q0 a r : ℝ) (hq0 : eps15 < q0) :
    toC (LASS m m0 g0 q q0 a r)
      = (m : ℂ) * (1 / (((q * (1 / |a| / q + 1 / 2 * |r| * q) : ℝ) : ℂ) - Complex.I * (q : ℂ)))
        + toC (lassPhase (1 / |a| / q + 1 / 2 * |r| * q))
          * (1 / ((m0 : ℂ) ^ 2 - (m : ℂ) ^ 2 - Complex.I * m0 * ((g0 * (q / q0) * (m0 / m) : ℝ) : ℂ)))
          * ((m0 * g0 * m0 / q0 : ℝ) : ℂ) := by
  have h10 : (1.0 : ℝ) = 1 := by norm_num
  have h05 : (0.5 : ℝ) = 1 / 2 := by norm_num
  have hb : toC (BWR 0 m m0 g0 q q0 1)
      = 1 / ((m0 : ℂ) ^ 2 - (m : ℂ) ^ 2 - Complex.I * m0 * ((g0 * (q / q0) * (m0 / m) : ℝ) : ℂ)) := by
    unfold BWR
    simp only [toC_mk]
    rw [inv_sub_I]
    have hG : Gamma 0 m g0 q q0 m0 1 = g0 * (q / q0) * (m0 / m) := by
      unfold Gamma
      simp [if_pos hq0, kpowN, Bprime, BprimeNum, BprimePolynomial, tfCoeff, polyval, kofNat, ksqrt]
    rw [hG]
    push_cast
    ring_nf
  unfold LASS
  simp only [lassCot, kabs, h10, h05]
  rw [toC_add, toC_mul, toC_mul, toC_mul, toC_ofReal, toC_ofReal, toC_div, toC_real, toC_sub_I, hb]
  push_cast
  ring

/-! ## MultiBW -/

/-- CURRENT TREE: `MultiBW` is `MultiBWR` — the overridden `dom_fun` (constant-width `BW`) is never called -/
theorem MultiBW_current_eq_MultiBWR (fix : Bool) (ls : List ℕ) (res : List (ℝ × ℝ)) (coeff : List (List Cx)) (m q2 q02 d : ℝ) :
    MultiBW false fix ls res coeff m q2 q02 d = MultiBWR fix ls res coeff m q2 q02 d := by
  simp [MultiBW]

/-- the documented `MultiBW` (tree with `get_ls_amp` calling `dom_fun`): per (l,s) entry
`(Σ_k c_ik / (m_k² - m² - i m_k Γ_k)) · (q/q0)^{l_i} B'_{l_i}`, any number of resonances and partial waves -/
theorem MultiBW_fixed_eq_spec (fix : Bool) (ls : List ℕ) (res : List (ℝ × ℝ)) (coeff : List (List Cx)) (m q2 q02 d : ℝ) :
    (MultiBW true fix ls res coeff m q2 q02 d).map toC
      = (coeff.zip ls).map fun cl =>
          (List.zipWith (fun (r : ℝ × ℝ) (c : Cx) =>
              1 / ((r.1 : ℂ) ^ 2 - (m : ℂ) ^ 2 - Complex.I * r.1 * r.2) * toC c) res cl.1).sum
            * ((lsBarrier q2 q02 d cl.2 : ℝ) : ℂ) := by
  unfold MultiBW
  simp only [if_true, List.map_map]
  apply List.map_congr_left
  intro cl _
  simp only [Function.comp, toC_mul, toC_ofReal, Cx.sumFrom_eq, toC_zero, zero_add]
  congr 1
  exact congrArg List.sum (zipCx_map_toC _ _ _ (fun r => BW_eq_spec_total m r.1 r.2) _)

/-- the two differ: one resonance, S-wave, at a mass where the running width is not `Γ0` -/
theorem MultiBW_current_ne_documented :
    ∃ (ls : List ℕ) (res : List (ℝ × ℝ)) (coeff : List (List Cx)) (m q2 q02 d : ℝ),
      (MultiBW false true ls res coeff m q2 q02 d).map toC ≠ (MultiBW true true ls res coeff m q2 q02 d).map toC := by
  have h16 : Real.sqrt 16 = 4 := by
    rw [show (16 : ℝ) = 4 * 4 by norm_num]
    exact Real.sqrt_mul_self (by norm_num)
  refine ⟨[0], [(1, 1)], [[⟨1, 0⟩]], 2, 16, 1, 1, ?_⟩
  intro h
  have h1 := congrArg (fun l => (l.headD 0).im) h
  simp [MultiBW, MultiBWR, BW, BWR2, bwr2Den, Gamma2, zipCx, Cx.sumFrom, Cx.mul, Cx.add, Cx.sub, Cx.ofReal, Cx.sqrt, lsBarrier, BprimeQ2,
    BprimePolynomial, tfCoeff, polyval, kofNat, kpowN, ksqrt, h16] at h1
  norm_num at h1

/-! ## Kmatrix (amp/base.py) -/

/-- `ParticleKmatrix.get_amp` is `β(m) / (1 - i (K1 + K2 + α)) + KNR` -/
theorem Kmatrix_eq_form (L : ℕ) (m q d : ℝ) (r1 r2 : ℝ × ℝ × ℝ) (alpha : ℝ) (knr b0 b1 b2 : Cx) :
    toC (Kmatrix L m q d r1 r2 alpha knr b0 b1 b2)
      = (toC b0 + toC (kmBetaTerm L m q d b1 r1) + toC (kmBetaTerm L m q d b2 r2))
          / (1 - Complex.I * ((kmK L m q d r1 + kmK L m q d r2 + alpha : ℝ) : ℂ)) + toC knr := by
  unfold Kmatrix
  simp only
  rw [toC_add, toC_div, toC_add, toC_add, toC_sub_I]
  push_cast
  ring

/-- the `β_i` terms are the production vector `β_i m_i Γ_i / (m_i² - m²)`: the momentum, mass and barrier factors that
`get_beta` multiplies and divides cancel against those of `K_i` (regular branch, non-vanishing momenta) -/
theorem kmBetaTerm_eq_P (L : ℕ) (hL : L ≤ 8) (m q d : ℝ) (beta : Cx) (mi wi qi : ℝ) (hqi : eps15 < qi) (hq : q ≠ 0)
    (hm : m ≠ 0) (hmi : mi ≠ 0) (hd : d ≠ 0) :
    toC (kmBetaTerm L m q d beta (mi, wi, qi)) = toC beta * ((mi * wi / (mi * mi - m * m) : ℝ) : ℂ) := by
  have hqi' : qi ≠ 0 := (lt_trans eps15_pos hqi).ne'
  have hB : Bprime L q qi d * Bprime L q qi d ≠ 0 := by
    rw [Bprime_sq L hL]
    exact (div_pos (BprimePolynomial_pos L hL _ (mul_self_nonneg _)) (BprimePolynomial_pos L hL _ (mul_self_nonneg _))).ne'
  unfold kmBetaTerm
  simp only
  rw [toC_div, toC_mul, toC_ofReal, toC_ofReal, mul_div_assoc, ← Complex.ofReal_div]
  congr 2
  unfold kmK Gamma
  simp only [if_pos hqi, kpowN_eq]
  set B := Bprime L q qi d * Bprime L q qi d with hBdef
  have e : q * d * (q * d) / (qi * d * (qi * d)) = (q / qi) ^ 2 := by field_simp
  rw [e, ← pow_mul, pow_succ]
  have hp : (q / qi) ^ (2 * L) ≠ 0 := pow_ne_zero _ (div_ne_zero hq hqi')
  by_cases hden : mi * mi - m * m = 0
  · simp [hden]
  · field_simp

/-! ## KMatrixSingleChannel -/

theorem zipKsP_sum (m : ℝ) (betas : List Cx) (poles : List (ℝ × ℝ × ℝ)) :
    ((zipKsP m betas poles).map toC).sum
      = (List.zipWith (fun (b : Cx) (r : ℝ × ℝ × ℝ) => toC b * ((r.1 * r.2.1 / (r.1 * r.1 - m * m) : ℝ) : ℂ)) betas poles).sum := by
  induction betas generalizing poles with
  | nil => simp [zipKsP]
  | cons b bs ih =>
    cases poles with
    | nil => simp [zipKsP]
    | cons r rs => simp [zipKsP, ksP, toC_mul, toC_ofReal, ih]

/-- `KMatrixSingleChannel`: `R = (1 - iK)^{-1} P`, `K = Σ_i ksK_i`, `P = Σ_i β_i m_i Γ_i0 / (m_i² - m²)`; any number of poles -/
theorem KMatrixSingle_eq_spec (L : ℕ) (d m p : ℝ) (poles : List (ℝ × ℝ × ℝ)) (betas : List Cx) :
    toC (KMatrixSingle L d m p poles betas)
      = (List.zipWith (fun (b : Cx) (r : ℝ × ℝ × ℝ) => toC b * ((r.1 * r.2.1 / (r.1 * r.1 - m * m) : ℝ) : ℂ)) betas poles).sum
          / (1 - Complex.I * (((poles.map (ksK L d m p)).sum : ℝ) : ℂ)) := by
  unfold KMatrixSingle
  simp only
  rw [toC_div, Cx.sumFrom_eq, toC_zero, zero_add, zipKsP_sum, toC_sub_I, sumFrom_eq, zero_add]
  push_cast
  ring

/-- each pole of `K` is the documented `m_i Γ_i(m) / (m_i² - m²)` with the running width `Γ_i(m)` of `breit_wigner.Gamma`
(`Bl² = (q/q0)^{2l} B_l'²`), L ≤ 8, regular branch -/
theorem ksK_eq_Gamma (L : ℕ) (hL : L ≤ 8) (d m p mi gi p0 : ℝ) (hp0 : eps15 < p0) (hd : d ≠ 0) :
    ksK L d m p (mi, gi, p0) = mi * Gamma L m gi p p0 mi d / (mi * mi - m * m) := by
  have hp0' : p0 ≠ 0 := (lt_trans eps15_pos hp0).ne'
  rw [Gamma_eq_spec L hL _ _ _ _ _ _ hp0]
  unfold ksK blSq fbSq
  by_cases h0 : L = 0
  · subst h0
    simp [BprimePolynomial, tfCoeff, polyval, kofNat]
    ring
  · simp only [if_neg h0, kpowN_eq]
    have h1 := (BprimePolynomial_pos L hL 1 zero_le_one).ne'
    have hz := (BprimePolynomial_pos L hL ((p * d) * (p * d)) (mul_self_nonneg _)).ne'
    have hz0 := (BprimePolynomial_pos L hL ((p0 * d) * (p0 * d)) (mul_self_nonneg _)).ne'
    have hpow : (p0 * d * (p0 * d)) ^ L ≠ 0 := pow_ne_zero _ (mul_ne_zero (mul_ne_zero hp0' hd) (mul_ne_zero hp0' hd))
    have e : (p / p0) ^ (2 * L + 1) = (p / p0) * ((p * d * (p * d)) ^ L / (p0 * d * (p0 * d)) ^ L) := by
      rw [← div_pow]
      have : p * d * (p * d) / (p0 * d * (p0 * d)) = (p / p0) ^ 2 := by field_simp
      rw [this, ← pow_mul, pow_succ]
      ring
    rw [e]
    by_cases hden : mi * mi - m * m = 0
    · simp [hden]
    · field_simp

theorem zipKsP_im_zero (m : ℝ) (betas : List Cx) (poles : List (ℝ × ℝ × ℝ)) (h : ∀ b ∈ betas, b.im = 0) (acc : Cx)
    (ha : acc.im = 0) : (Cx.sumFrom acc (zipKsP m betas poles)).im = 0 := by
  induction betas generalizing poles acc with
  | nil => simpa [zipKsP, Cx.sumFrom] using ha
  | cons b bs ih =>
    cases poles with
    | nil => simpa [zipKsP, Cx.sumFrom] using ha
    | cons r rs =>
      simp only [zipKsP, Cx.sumFrom]
      apply ih rs (fun b' hb' => h b' (List.mem_cons_of_mem _ hb'))
      simp [Cx.add, ksP, Cx.mul, Cx.ofReal, ha, h b (List.mem_cons_self)]

/-- Watson-type identity the K-matrix form guarantees: for real production couplings the phase of the amplitude is the
phase of `1/(1 - iK)`, i.e. `Im R = K · Re R`, for every mass and any number of poles -/
theorem KMatrixSingle_phase (L : ℕ) (d m p : ℝ) (poles : List (ℝ × ℝ × ℝ)) (betas : List Cx) (h : ∀ b ∈ betas, b.im = 0) :
    (KMatrixSingle L d m p poles betas).im
      = sumFrom 0 (poles.map (ksK L d m p)) * (KMatrixSingle L d m p poles betas).re := by
  have hi := zipKsP_im_zero m betas poles h ⟨0, 0⟩ rfl
  unfold KMatrixSingle
  simp only [Cx.div, Cx.normSq, hi]
  ring

/-- elastic unitarity of the K-matrix form: for a real `K` and phase-space factor `ρ`, `T = K / (1 - i ρ K)` satisfies
`Im T = ρ |T|²` (single channel, real couplings, above threshold) -/
theorem kmatrix_unitarity (k rho : ℝ) :
    ((⟨k, 0⟩ : Cx).div ⟨1, -(rho * k)⟩).im = rho * ((⟨k, 0⟩ : Cx).div ⟨1, -(rho * k)⟩).normSq := by
  have h : 1 + rho * k * (rho * k) ≠ 0 := by nlinarith [mul_self_nonneg (rho * k)]
  simp only [Cx.div, Cx.normSq]
  field_simp
  ring

/-! ## KmatrixSimple -/

theorem ksimPole_eq (s eps mi : ℝ) :
    toC (ksimPole s eps mi) = 1 / (((mi * mi - s : ℝ) : ℂ) - Complex.I * (eps : ℂ)) := by
  unfold ksimPole
  rw [toC_div, toC_real, toC_sub_I]
  simp

/-- `K_ij = Σ_a g_ia g_ja / (m_a² - s - i ε)` (the code's sign of ε) -/
theorem ksimK_eq_sum (s eps : ℝ) (ms gi gj : List ℝ) :
    toC (ksimK s eps ms gi gj)
      = (List.zipWith (fun (mi gg : ℝ) => (gg : ℂ) * (1 / (((mi * mi - s : ℝ) : ℂ) - Complex.I * (eps : ℂ)))) ms (zipMul gi gj)).sum := by
  unfold ksimK
  rw [Cx.sumFrom_eq, toC_zero, zero_add]
  congr 1
  induction ms generalizing gi gj with
  | nil => simp
  | cons a as ih =>
    cases h : zipMul gi gj with
    | nil => simp
    | cons g gs =>
      cases gi with
      | nil => simp [zipMul] at h
      | cons x xs =>
        cases gj with
        | nil => simp [zipMul] at h
        | cons y ys =>
          simp only [zipMul, List.cons.injEq] at h
          obtain ⟨h1, h2⟩ := h
          have := ih xs ys
          rw [h2] at this
          simp [toC_mul, toC_ofReal, ksimPole_eq, this]

/-- one channel: `R = n · P / (1 - i K ρ n²)` -/
theorem KmatrixSimple1_eq_spec (eps d m : ℝ) (ms : List ℝ) (betas : List Cx) (c : KsChan) :
    toC (KmatrixSimple1 eps d m ms betas c)
      = toC (ksimP (m * m) eps ms c.g betas c.bkg)
          / (1 - Complex.I * (((ksimRelP m c.m1 c.m2 / m * (ksimBarrier c.l m c.m1 c.m2 d * ksimBarrier c.l m c.m1 c.m2 d) : ℝ) : ℂ)
              * toC (ksimK (m * m) eps ms c.g c.g)))
          * ((ksimBarrier c.l m c.m1 c.m2 d : ℝ) : ℂ) := by
  unfold KmatrixSimple1
  simp only
  rw [toC_mul, toC_div, toC_sub, toC_mul, toC_smul, toC_ofReal, toC_real, toC_I]
  simp

/-- the adjugate solution solves the 2×2 system whenever the determinant does not vanish -/
theorem solve2_correct (mm : Cx × Cx × Cx × Cx) (p0 p1 : Cx)
    (hdet : toC mm.1 * toC mm.2.2.2 - toC mm.2.1 * toC mm.2.2.1 ≠ 0) :
    toC mm.1 * toC (solve2 mm p0 p1).1 + toC mm.2.1 * toC (solve2 mm p0 p1).2 = toC p0
    ∧ toC mm.2.2.1 * toC (solve2 mm p0 p1).1 + toC mm.2.2.2 * toC (solve2 mm p0 p1).2 = toC p1 := by
  unfold solve2
  simp only [toC_div, toC_sub, toC_mul]
  constructor
  · rw [mul_div_assoc', mul_div_assoc', ← add_div, div_eq_iff hdet]
    ring
  · rw [mul_div_assoc', mul_div_assoc', ← add_div, div_eq_iff hdet]
    ring

/-- two channels: `R_i = n_i x_i` where `x` solves `(1 - i K ρ n²) x = P` -/
theorem KmatrixSimple2_solves (eps d m : ℝ) (ms : List ℝ) (betas : List Cx) (c0 c1 : KsChan)
    (hdet : toC (ksimDom2 eps d m ms c0 c1).1 * toC (ksimDom2 eps d m ms c0 c1).2.2.2
      - toC (ksimDom2 eps d m ms c0 c1).2.1 * toC (ksimDom2 eps d m ms c0 c1).2.2.1 ≠ 0) :
    ∃ x0 x1 : ℂ,
      toC (KmatrixSimple2 eps d m ms betas c0 c1).1 = x0 * ((ksimBarrier c0.l m c0.m1 c0.m2 d : ℝ) : ℂ)
      ∧ toC (KmatrixSimple2 eps d m ms betas c0 c1).2 = x1 * ((ksimBarrier c1.l m c1.m1 c1.m2 d : ℝ) : ℂ)
      ∧ toC (ksimDom2 eps d m ms c0 c1).1 * x0 + toC (ksimDom2 eps d m ms c0 c1).2.1 * x1
          = toC (ksimP (m * m) eps ms c0.g betas c0.bkg)
      ∧ toC (ksimDom2 eps d m ms c0 c1).2.2.1 * x0 + toC (ksimDom2 eps d m ms c0 c1).2.2.2 * x1
          = toC (ksimP (m * m) eps ms c1.g betas c1.bkg) := by
  have h := solve2_correct (ksimDom2 eps d m ms c0 c1) (ksimP (m * m) eps ms c0.g betas c0.bkg)
    (ksimP (m * m) eps ms c1.g betas c1.bkg) hdet
  refine ⟨_, _, ?_, ?_, h.1, h.2⟩
  · simp [KmatrixSimple2, toC_mul, toC_ofReal]
  · simp [KmatrixSimple2, toC_mul, toC_ofReal]

/-- the matrix the code inverts is `δ_ij - i K_ij ρ_j n_j²` -/
theorem ksimDom2_entries (eps d m : ℝ) (ms : List ℝ) (c0 c1 : KsChan) :
    let w := fun (c : KsChan) => ksimRelP m c.m1 c.m2 / m * (ksimBarrier c.l m c.m1 c.m2 d * ksimBarrier c.l m c.m1 c.m2 d)
    toC (ksimDom2 eps d m ms c0 c1).1 = 1 - Complex.I * ((w c0 : ℝ) : ℂ) * toC (ksimK (m * m) eps ms c0.g c0.g)
    ∧ toC (ksimDom2 eps d m ms c0 c1).2.1 = 0 - Complex.I * ((w c1 : ℝ) : ℂ) * toC (ksimK (m * m) eps ms c0.g c1.g)
    ∧ toC (ksimDom2 eps d m ms c0 c1).2.2.1 = 0 - Complex.I * ((w c0 : ℝ) : ℂ) * toC (ksimK (m * m) eps ms c1.g c0.g)
    ∧ toC (ksimDom2 eps d m ms c0 c1).2.2.2 = 1 - Complex.I * ((w c1 : ℝ) : ℂ) * toC (ksimK (m * m) eps ms c1.g c1.g) := by
  simp only [ksimDom2, toC_sub, toC_mul, toC_smul, toC_real, toC_I]
  refine ⟨?_, ?_, ?_, ?_⟩ <;> simp [mul_assoc]

/-- the barrier factor the code evaluates is `(q d)^l B'_l(q, 1/d, d)` — the docstring of the unpatched tree has `q^l B'_l(q, 1/d, d)`
(listed finding `KmatrixSimple:barrier-extra-d-power`) -/
theorem ksimBarrier_eq (L : ℕ) (hL : L ≤ 8) (h0 : L ≠ 0) (m m1 m2 d : ℝ) (hd : 0 < d) :
    ksimBarrier L m m1 m2 d = (ksimRelP m m1 m2 * d) ^ L * Bprime L (ksimRelP m m1 m2) (1 / d) d := by
  have hq : 0 ≤ ksimRelP m m1 m2 := by
    unfold ksimRelP
    simp only
    split_ifs
    · exact Real.sqrt_nonneg _
    · exact le_refl _
  unfold ksimBarrier
  simp only [if_neg h0, kpowN_eq]
  set q := ksimRelP m m1 m2
  unfold Bprime BprimeNum ksqrt
  have e1 : 1 / d * d * (1 / d * d) = 1 := by field_simp
  rw [e1]
  have hp1 := (BprimePolynomial_pos L hL 1 zero_le_one).le
  have hs : Real.sqrt ((q * d * (q * d)) ^ L) = (q * d) ^ L := by
    rw [show (q * d * (q * d)) ^ L = ((q * d) ^ L) ^ 2 by ring]
    exact Real.sqrt_sq (pow_nonneg (mul_nonneg hq hd.le) L)
  rw [Real.sqrt_mul hp1, hs]
  ring


/-! ## the hypotheses used above are satisfiable by ordinary values -/
example : ∃ m ma mb : ℝ, 0 < m ∧ 0 ≤ ma + mb ∧ |ma - mb| < m ∧ m < ma + mb :=
  ⟨1, 0.6, 0.7, by norm_num, by norm_num, by rw [abs_lt]; constructor <;> norm_num, by norm_num⟩
example : ∃ q0 : ℝ, eps15 < q0 := ⟨1, by unfold eps15; norm_num⟩
example : ∃ m q d mi wi qi : ℝ, eps15 < qi ∧ q ≠ 0 ∧ m ≠ 0 ∧ mi ≠ 0 ∧ d ≠ 0 ∧ mi * mi - m * m ≠ 0 ∧ wi ≠ 0 :=
  ⟨1, 0.4, 3, 1.2, 0.1, 0.5, by unfold eps15; norm_num, by norm_num, by norm_num, by norm_num, by norm_num, by norm_num, by norm_num⟩
example : ∃ betas : List Cx, betas ≠ [] ∧ ∀ b ∈ betas, b.im = 0 := ⟨[⟨1, 0⟩, ⟨-0.5, 0⟩], by simp, by simp⟩
example : ∃ mm : Cx × Cx × Cx × Cx, toC mm.1 * toC mm.2.2.2 - toC mm.2.1 * toC mm.2.2.1 ≠ 0 :=
  ⟨(⟨1, 0⟩, ⟨0, 0⟩, ⟨0, 0⟩, ⟨1, 0⟩), by
    show toC ⟨1, 0⟩ * toC ⟨1, 0⟩ - toC ⟨0, 0⟩ * toC ⟨0, 0⟩ ≠ 0
    rw [toC_real, toC_zero]; norm_num⟩
example : ∃ (L : ℕ) (d : ℝ), L ≤ 8 ∧ L ≠ 0 ∧ 0 < d := ⟨1, 3, by norm_num, by norm_num, by norm_num⟩
end TfPwaV.C15
