import TfPwaV.Model.LS
/-!
# C13 — Partial-wave (l,s) selection is sound, complete and non-redundant

Property theorems about the model `TfPwaV.LS.lsList` of `GetA2BC_LS_list`
(tied to the source by the grid correspondence in harness/c13.py).
Spins are doubled; `l` is undoubled, `s2 = 2 s`.
-/
namespace TfPwaV.C13
open TfPwaV.LS

theorem mem_spinRange (a b x : Nat) :
    x ∈ spinRange a b ↔ a ≤ x ∧ x ≤ b ∧ (x - a) % 2 = 0 := by
  unfold spinRange
  simp only [List.mem_map, List.mem_range]
  constructor
  · rintro ⟨i, hi, rfl⟩
    omega
  · rintro ⟨h1, h2, h3⟩
    exact ⟨(x - a) / 2, by omega, by omega⟩

theorem absDiff_cases (a b : Nat) :
    (a ≤ b ∧ absDiff a b = b - a) ∨ (b < a ∧ absDiff a b = a - b) := by
  unfold absDiff; split <;> omega

/-- The allowed-coupling predicate, written from the physics rule (not from the loop):
triangle rule for `s`, triangle rule for `l` (with `l` integral), parity `(-1)^l = pa pb pc`
unless parity is broken / unknown, and C-parity `ca = (-1)^(l+s)` when requested. -/
def Allowed (ja jb jc : Nat) (pa pb pc : Option Int) (pBreak : Bool) (ca : Option Int)
    (l s2 : Nat) : Prop :=
  (absDiff jb jc ≤ s2 ∧ s2 ≤ jb + jc ∧ (s2 + jb + jc) % 2 = 0) ∧
  (absDiff ja s2 ≤ 2 * l ∧ 2 * l ≤ ja + s2 ∧ (ja + s2) % 2 = 0) ∧
  (effBreak pa pb pc pBreak = false → l % 2 = dlOf pa pb pc) ∧
  (∀ c, ca = some c → s2 % 2 = 0 ∧ c = negOnePow (l + s2 / 2))

/-- Soundness and completeness, for **all** spins (unbounded). -/
theorem ls_mem_iff (ja jb jc : Nat) (pa pb pc : Option Int) (pBreak : Bool) (ca : Option Int)
    (l s2 : Nat) :
    (l, s2) ∈ lsList ja jb jc pa pb pc pBreak ca ↔ Allowed ja jb jc pa pb pc pBreak ca l s2 := by
  unfold lsList Allowed lsInner
  simp only [List.mem_flatMap, mem_spinRange]
  constructor
  · rintro ⟨s, ⟨hs1, hs2, hs3⟩, hin⟩
    split at hin
    · simp at hin
    · rename_i hpar
      simp only [List.mem_filterMap, mem_spinRange] at hin
      obtain ⟨l2, ⟨hl1, hl2, hl3⟩, hsome⟩ := hin
      split at hsome
      · rename_i hc
        simp only [Option.some.injEq, Prod.mk.injEq] at hsome
        obtain ⟨rfl, rfl⟩ := hsome
        simp only [Bool.and_eq_true] at hc
        obtain ⟨hca, hp⟩ := hc
        have hA := absDiff_cases ja s
        have hB := absDiff_cases jb jc
        have hl2even : l2 % 2 = 0 := by omega
        refine ⟨⟨hs1, hs2, by omega⟩, ⟨by omega, by omega, by omega⟩, ?_, ?_⟩
        · intro hb
          unfold pOk at hp
          simp only [hb, Bool.false_or, beq_iff_eq] at hp
          exact hp
        · intro c hc
          subst hc
          unfold caOk at hca
          simp only at hca
          split at hca
          · simp at hca
          · simp only [beq_iff_eq] at hca
            exact ⟨by omega, hca⟩
      · simp at hsome
  · rintro ⟨⟨hs1, hs2, hs3⟩, ⟨hl1, hl2, hl3⟩, hp, hc⟩
    have hA := absDiff_cases ja s2
    have hB := absDiff_cases jb jc
    refine ⟨s2, ⟨hs1, hs2, by omega⟩, ?_⟩
    · rw [if_neg (by omega)]
      simp only [List.mem_filterMap, mem_spinRange]
      refine ⟨2 * l, ⟨hl1, hl2, by omega⟩, ?_⟩
      · have h2 : 2 * l / 2 = l := by omega
        simp only [h2]
        have hca : caOk ca l s2 = true := by
          unfold caOk
          cases ca with
          | none => rfl
          | some c =>
            obtain ⟨h1, h2⟩ := hc c rfl
            simp only
            rw [if_neg (by omega)]
            simp [h2]
        have hpk : pOk pa pb pc pBreak l = true := by
          unfold pOk
          cases hb : effBreak pa pb pc pBreak with
          | true => rfl
          | false => simp [hp hb]
        simp [hca, hpk]

/-- strictly increasing in the code's loop order: `s` ascending, then `l` ascending. -/
def lt2 (p q : Nat × Nat) : Prop := p.2 < q.2 ∨ (p.2 = q.2 ∧ p.1 < q.1)

theorem spinRange_pairwise (a b : Nat) : (spinRange a b).Pairwise (· < ·) := by
  unfold spinRange
  rw [List.pairwise_map]
  have := List.pairwise_lt_range (n := (b + 2 - a) / 2)
  exact this.imp (by intro x y h; omega)

theorem lsInner_snd (ja : Nat) (pa pb pc : Option Int) (pBreak : Bool) (ca : Option Int) (s2 : Nat)
    (p : Nat × Nat) (h : p ∈ lsInner ja pa pb pc pBreak ca s2) : p.2 = s2 := by
  unfold lsInner at h
  split at h
  · simp at h
  · simp only [List.mem_filterMap] at h
    obtain ⟨l2, _, hs⟩ := h
    split at hs
    · simp only [Option.some.injEq] at hs; rw [← hs]
    · simp at hs

theorem lsInner_pairwise (ja : Nat) (pa pb pc : Option Int) (pBreak : Bool) (ca : Option Int) (s2 : Nat) :
    (lsInner ja pa pb pc pBreak ca s2).Pairwise lt2 := by
  unfold lsInner
  split
  · exact List.Pairwise.nil
  · rename_i hpar
    rw [List.pairwise_filterMap]
    have hp := spinRange_pairwise (absDiff ja s2) (ja + s2)
    have hm : ∀ x ∈ spinRange (absDiff ja s2) (ja + s2), x % 2 = 0 := by
      intro x hx
      rw [mem_spinRange] at hx
      obtain ⟨h1, h2, h3⟩ := hx
      have hA := absDiff_cases ja s2
      omega
    have hp' : (spinRange (absDiff ja s2) (ja + s2)).Pairwise (fun x y => x < y ∧ x % 2 = 0 ∧ y % 2 = 0) := by
      rw [List.pairwise_iff_forall_sublist] at hp ⊢
      intro x y hxy
      exact ⟨hp hxy, hm x (hxy.subset (by simp)), hm y (hxy.subset (by simp))⟩
    refine hp'.imp ?_
    intro x y ⟨hxy, hx, hy⟩ p hpx q hqy
    dsimp only at hpx hqy
    split at hpx <;> split at hqy <;> simp only [Option.some.injEq, reduceCtorEq] at hpx hqy
    subst hpx; subst hqy
    right
    exact ⟨rfl, by show x / 2 < y / 2; omega⟩

/-- The list is strictly sorted in `(s, l)` lexicographic order — the order that names the fit
parameters `g_ls_i` — for all spins. -/
theorem ls_sorted (ja jb jc : Nat) (pa pb pc : Option Int) (pBreak : Bool) (ca : Option Int) :
    (lsList ja jb jc pa pb pc pBreak ca).Pairwise lt2 := by
  unfold lsList
  rw [List.pairwise_flatMap]
  refine ⟨fun s _ => lsInner_pairwise ja pa pb pc pBreak ca s, ?_⟩
  refine (spinRange_pairwise _ _).imp ?_
  intro s t hst p hp q hq
  left
  rw [lsInner_snd _ _ _ _ _ _ _ _ hp, lsInner_snd _ _ _ _ _ _ _ _ hq]
  exact hst

/-- Non-redundancy: each allowed coupling is listed exactly once, for all spins. -/
theorem ls_nodup (ja jb jc : Nat) (pa pb pc : Option Int) (pBreak : Bool) (ca : Option Int) :
    (lsList ja jb jc pa pb pc pBreak ca).Nodup := by
  refine (ls_sorted ja jb jc pa pb pc pBreak ca).imp ?_
  intro p q h heq
  subst heq
  unfold lt2 at h
  omega

/-- `l_list` restriction keeps exactly the allowed couplings whose `l` is listed, order preserved. -/
theorem ls_restrict (ls : List (Nat × Nat)) (lList : List Nat) (p : Nat × Nat) :
    (p ∈ filterL ls lList ↔ p ∈ ls ∧ p.1 ∈ lList) ∧ (filterL ls lList).Sublist ls := by
  unfold filterL
  refine ⟨?_, List.filter_sublist⟩
  simp [List.mem_filter]

/-- a chain survives the `ls` cut iff the decay has at least one allowed coupling -/
theorem cut_iff (ja jb jc : Nat) (pa pb pc : Option Int) (pBreak : Bool) (ca : Option Int) :
    (lsList ja jb jc pa pb pc pBreak ca ≠ []) ↔ ∃ l s2, Allowed ja jb jc pa pb pc pBreak ca l s2 := by
  constructor
  · intro h
    obtain ⟨⟨l, s2⟩, hm⟩ := List.exists_mem_of_ne_nil _ h
    exact ⟨l, s2, (ls_mem_iff ..).1 hm⟩
  · rintro ⟨l, s2, h⟩ hnil
    have := (ls_mem_iff ..).2 h
    rw [hnil] at this
    simp at this

-- non-vacuity: 1⁻ → 1⁻ 0⁺ has exactly the couplings (l,s) = (0,1), (2,1)
example : lsList 2 2 0 (some (-1)) (some (-1)) (some 1) false none = [(0, 2), (2, 2)] := by decide
example : Allowed 2 2 0 (some (-1)) (some (-1)) (some 1) false none 2 2 := by
  rw [← ls_mem_iff]; decide

/-! ## Counting: number of couplings = number of independent helicity amplitudes
(finite statement, the whole grid 2j ≤ 8 the property quantifies over; kernel-evaluated) -/

def grid : List (Nat × Nat × Nat) :=
  (List.range 9).flatMap fun a => (List.range 9).flatMap fun b => (List.range 9).map fun c => (a, b, c)

def countOkBroken (t : Nat × Nat × Nat) : Bool :=
  let (ja, jb, jc) := t
  (ja + jb + jc) % 2 == 1 ||
  (lsList ja jb jc none none none true none).length == helCount ja jb jc

def countOkParity (t : Nat × Nat × Nat) : Bool :=
  let (ja, jb, jc) := t
  (ja + jb + jc) % 2 == 1 ||
  ([(1 : Int), -1].all fun pa => [(1 : Int), -1].all fun pb => [(1 : Int), -1].all fun pc =>
    (lsList ja jb jc (some pa) (some pb) (some pc) false none).length
      == helCountParity ja jb jc (etaOf ja jb jc (pa * pb * pc)))

/-- parity violated: #(l,s) = #{(λb,λc) : |λb-λc| ≤ J_A}, every spin triple up to 4 -/
theorem ls_count_broken : grid.all countOkBroken = true := by decide +kernel

/-- parity conserved: #(l,s) = number of orbits of (λb,λc) ↦ (-λb,-λc) compatible with η -/
theorem ls_count_parity : grid.all countOkParity = true := by decide +kernel

/-- when the total spin is half-integral (2(ja+jb+jc) odd) nothing is offered -/
theorem ls_empty_of_odd (ja jb jc : Nat) (pa pb pc : Option Int) (pBreak : Bool) (ca : Option Int)
    (h : (ja + jb + jc) % 2 = 1) : lsList ja jb jc pa pb pc pBreak ca = [] := by
  rw [List.eq_nil_iff_forall_not_mem]
  rintro ⟨l, s2⟩ hm
  rw [ls_mem_iff] at hm
  obtain ⟨⟨_, _, h1⟩, ⟨_, _, h2⟩, _⟩ := hm
  omega

end TfPwaV.C13
