import TfPwaV.Props.C14b
import TfPwaV.Proofs.TopologyTableRT
import TfPwaV.Proofs.TopologyRename
import TfPwaV.Proofs.TopologyMapP
/-!
# C14c — `from_sorted_table` rebuilds the chain from its table, for EVERY number of final particles

`Props/C14.lean` / `C14N5*.lean` kernel-evaluate the round trip `sorted_table` ↔ `from_sorted_table` for n ≤ 5.
Here it is proved for every n ≥ 2 on the same model (`Model/Topology.lean`: `fromSortedTable`, `splitLen`,
`deepSearch` = the search in `deep_ordered_iter` order, `fstLoop`, `sortedTable`), for every named binary tree, by
the loop invariant of the search (`Proofs/TopologyTable.lean`, `Proofs/TopologyTableRT.lean`).
-/
namespace TfPwaV.C14
open TfPwaV.Topology

section generic
variable {α : Type} [DecidableEq α] [LT α] [DecidableLT α]

/-! ## 1. the loop invariant of the search -/

/-- ★ (search) For EVERY named binary tree `N` with pairwise different vertices and EVERY loop state
(`D` = rows entered so far, `base` = `base_dict`, `acc` = `ret`) that satisfies the invariant `FInv` — `base_dict` is
a forest of finished subtrees of `N` whose leaf sets are pairwise disjoint and cover the finals — and every row
`a → l r` of the table whose daughters are finished: both daughters are keys of `base_dict`, `deep_search` returns,
and the FIRST k-subset of the keys in `deep_ordered_iter` order (k = 2 first, index-lexicographic) whose
concatenated values sort to the row's value is exactly the pair of daughters of the row, in the order in which
they stand in `base_dict`. -/
theorem search_finds_the_daughter_pair (hα : LinLt α) {N : NT α} (hv : N.verts.Nodup) {D : List α}
    {base : Dict α (List α)} {acc : Chain α} (h : FInv N D base acc) {a : α} {l r : NT α}
    (hn : NT.node a l r ∈ N.subs) (hl : Finished D l) (hr : Finished D r) (ha : a ∉ D) :
    base.get? l.name = some (isort l.leaves) ∧ base.get? r.name = some (isort r.leaves) ∧
    ∃ found, deepSearch (isort (l.leaves ++ r.leaves)) base = some found ∧
      (found = [l.name, r.name] ∨ found = [r.name, l.name]) :=
  deepSearch_pair hα hv h hn hl hr ha

/-- ★ (loop) For EVERY named binary tree, every loop state satisfying `FInv` and every remaining list of rows
`todo` that is schedulable (`Sched`: when a row is reached both daughters are finished — which
`rows_by_length_are_schedulable` derives from the `split_len` order): the loop of `from_sorted_table` never raises
"not found in searching" and ends in a state that again satisfies `FInv`, with all rows entered. Since the
statement holds from ANY state, the invariant holds at every iteration. -/
theorem from_sorted_table_loop_invariant (hα : LinLt α) {N : NT α} (hv : N.verts.Nodup)
    (todo : List (α × List α)) (D : List α) (base : Dict α (List α)) (acc : Chain α) (h : FInv N D base acc)
    (hs : Sched N D todo) :
    ∃ c base', fstLoop todo base acc = some c ∧ FInv N (D ++ todo.map (·.1)) base' c :=
  fstLoop_inv hα hv todo D base acc h hs

/-- ★ (schedule) rows listed by non-decreasing number of finals (any order within one length: what `split_len`
followed by the two nested `for` loops produces) are schedulable: a daughter has strictly fewer finals than its
mother, so it is a final particle or stands before the mother. -/
theorem rows_by_length_are_schedulable {N : NT α} (hv : N.verts.Nodup) (rows : List (α × List α))
    (hrow : ∀ j ∈ rows, ∃ a l r, NT.node a l r ∈ N.subs ∧ j = (a, isort (l.leaves ++ r.leaves)))
    (hall : ∀ a l r, NT.node a l r ∈ N.subs → (a, isort (l.leaves ++ r.leaves)) ∈ rows)
    (hnd : (rows.map (·.1)).Nodup)
    (hsorted : rows.Pairwise (fun x y => x.2.length ≤ y.2.length)) :
    Sched N [] rows := by
  have := sched_of_sorted hv [] rows (by simpa using hrow) (by simpa using hall) (by simpa using hnd)
    (by simpa using hsorted)
  simpa using this

-- non-vacuity of `FInv` / `Sched` / `IsTableOf`: the tree 0 → (7 → 1 2) 3 with its table in a scrambled order
-- (the start state and the schedule are built inside `from_sorted_table_of_any_tree_table`)
example : ∃ t : Dict Nat (List Nat), IsTableOf t (NT.node 0 (NT.node 7 (.leaf 1) (.leaf 2)) (.leaf 3))
    ∧ (NT.node 0 (NT.node 7 (.leaf 1) (.leaf 2)) (.leaf 3)).verts.Nodup :=
  ⟨[(3, [3]), (0, [1, 2, 3]), (1, [1]), (7, [1, 2]), (2, [2])], ⟨by decide, by decide⟩, by decide⟩

/-! ## 2. the round trip for every named binary tree -/

/-- ★ `from_sorted_table` of ANY dictionary `t` (ANY insertion order of the entries) that holds one entry
(vertex, sorted finals below it) per vertex of a named binary tree `a → l r` with pairwise different vertices —
EVERY tree, every number of finals: the call returns a chain `c` that consists of exactly the decays of the tree
(`Rep`: one decay per inner vertex, daughters = the two daughter vertices, nothing else), the constructor's single-top
assertion included; and `sorted_table(c)` is the dictionary `t` again (`DictEq` = Python `dict.__eq__`; the insertion
order may differ). -/
theorem from_sorted_table_of_any_tree_table (hα : LinLt α) {a : α} {l r : NT α}
    (hv : (NT.node a l r).verts.Nodup) {t : Dict α (List α)} (ht : IsTableOf t (NT.node a l r)) :
    ∃ c t', fromSortedTable t = some c ∧ Rep c (NT.node a l r) ∧ sortedTable c = some t' ∧ DictEq t' t := by
  obtain ⟨c, hc, hrep⟩ := fromSortedTable_rep hα hv ht
  obtain ⟨t', ht', hk', hp'⟩ := sortedTable_rep hα hrep hv
  exact ⟨c, t', hc, hrep, ht', ht.dictEq ⟨hk', hp'⟩⟩

-- the scrambled table above is rebuilt (kernel evaluation of the model on that instance)
example : fromSortedTable ([(3, [3]), (0, [1, 2, 3]), (1, [1]), (7, [1, 2]), (2, [2])] : Dict Nat (List Nat))
    = some [⟨7, [1, 2]⟩, ⟨0, [3, 7]⟩] := by decide +kernel

/-- ★ `table_roundtrip_all_n`: for EVERY chain `c` that denotes an enumerated tree `T` (`Denotes` of
Props/C14b.lean: `c` consists of exactly the decays of `T` hanging under `top`, inner vertex `node_k` = particle
`mk' k`, ANY order of the decays and of the daughters, any n ≥ 2): `sorted_table(c)` returns `t`;
`from_sorted_table(t)` returns `c'`; `c'` denotes the same tree and equals `c` as a `DecayChain` (`ChainEqv`: same
decays up to the order of the decays and of the daughters — `BaseDecay` identity sorts the daughters);
`sorted_table(c')` returns a dictionary equal to `t` (`DictEq`). -/
theorem table_roundtrip_all_n (hα : LinLt α) {mk' : Nat → α} {top : α} {T : Tr α} {c : Chain α}
    (h : Denotes mk' top T c) :
    ∃ t c' t', sortedTable c = some t ∧ fromSortedTable t = some c' ∧ Denotes mk' top T c' ∧ ChainEqv c' c ∧
      sortedTable c' = some t' ∧ DictEq t' t := by
  obtain ⟨k, l, r, rfl⟩ := h.isNode
  obtain ⟨t, c', t', h1, _, h3, h4, h5, h6, h7⟩ := Rep.roundtrip hα h.rep h.verts
  exact ⟨t, c', t', h1, h3, ⟨⟨k, l, r, rfl⟩, h.verts, h4⟩, h5, h6, h7⟩

-- the table equality is dictionary equality, NOT equality of insertion order: for the chain
-- [13 → 1 2, 11 → 13 3, 12 → 4 5, 0 → 11 12] the rebuilt chain lists 12 → 4 5 before 11 → 13 3, so its table has the
-- same entries in another order (refutes the list-level reading of `sorted_table(from_sorted_table(t)) = t`)
example :
    let c : Chain Nat := [⟨13, [1, 2]⟩, ⟨11, [13, 3]⟩, ⟨12, [4, 5]⟩, ⟨0, [11, 12]⟩]
    ((sortedTable c).bind fromSortedTable).bind sortedTable ≠ sortedTable c
      ∧ (((sortedTable c).bind fromSortedTable).bind sortedTable).map (·.length) = (sortedTable c).map (·.length) := by
  decide +kernel

/-- ★ corollary for the whole enumeration, EVERY n ≥ 2, every particle type with a linear order, every top and
pairwise different finals (`NamesOK` as in `enum_all_n`): every chain produced by `from_particles` survives both
round trips. Together with `enum_all_n` this is the FULL statement documented at `enum_le4_partial`. -/
theorem enum_roundtrip_all_n (hα : LinLt α) (mk : Nat → Nat → α) (top : α) (finals : List α)
    (h2 : 2 ≤ finals.length) (hn : NamesOK mk top finals) :
    ∃ cs, fromParticles mk top finals = some cs ∧ ∀ c ∈ cs,
      ∃ t c' t', sortedTable c = some t ∧ fromSortedTable t = some c' ∧ ChainEqv c' c ∧
        sortedTable c' = some t' ∧ DictEq t' t := by
  obtain ⟨cs, hcs, hlen, hlink⟩ := topology_id_link hα hα (fun x : α => x) mk top finals h2 hn
  refine ⟨cs, hcs, ?_⟩
  intro c hc
  obtain ⟨j, hj, rfl⟩ := List.mem_iff_getElem.1 hc
  have hj' : j < (enumTrees top finals).length := hlen ▸ hj
  obtain ⟨t, c', t', h1, h3, _, h5, h6, h7⟩ := table_roundtrip_all_n hα (hlink j hj hj').1
  exact ⟨t, c', t', h1, h3, h5, h6, h7⟩

end generic

-- non-vacuity of `Denotes`: three-body decay, the first enumerated chain
example : ∃ cs, fromParticles natMk 0 (finalsN 3) = some cs ∧ cs.length = 3 := by
  obtain ⟨cs, h, hl, _⟩ := enum_nat_all_n 3 (by omega) (by omega)
  exact ⟨cs, h, by simpa [dfact] using hl⟩

/-! ## 3. the Boolean vocabulary of Props/C14.lean without the bound -/

theorem chainEqv_of (a b : Chain Nat) (h : ChainEqv a b) : chainEqv a b = true := by
  simp only [chainEqv, Bool.and_eq_true, beq_iff_eq, List.all_eq_true, List.any_eq_true]
  exact ⟨⟨h.len, h.left⟩, h.right⟩

theorem dictEq_of (a b : Dict Nat (List Nat)) (h : DictEq a b) : dictEq a b = true := by
  simp only [dictEq, Bool.and_eq_true, beq_iff_eq, List.all_eq_true]
  refine ⟨h.perm.length_eq, ?_⟩
  intro kv hkv
  rw [← h.get_eq]
  exact (Dict.mem_iff_get _ h.keysL kv.1 kv.2).1 hkv

/-- ★ `enum_le4_partial` of Props/C14.lean with the bound REMOVED, in its own Boolean vocabulary (`isBinaryTree`,
`roundTrip` are the functions the kernel evaluates there for n ≤ 5): for EVERY 2 ≤ n < 1000 (the Nat labelling
1000 (i+1) + k of the inner particles collides with the finals for larger n; `enum_all_n` + `enum_roundtrip_all_n`
have no such bound) `from_particles` returns (2n-3)!! chains, each a binary tree on the finals, with pairwise
different `topology_id`, and each passes `roundTrip` (`from_sorted_table(sorted_table(c)) == c` with the same
table). -/
theorem enum_nat_roundtrip_all_n (n : Nat) (h2 : 2 ≤ n) (h3 : n < 1000) :
    ∃ cs, fromParticles natMk 0 (finalsN n) = some cs ∧ cs.length = dfact (2 * n - 3)
      ∧ (∀ c ∈ cs, isBinaryTree 0 (finalsN n) c = true)
      ∧ (cs.map (topologyId (fun x : Nat => x))).Nodup
      ∧ (∀ c ∈ cs, roundTrip c = true) := by
  obtain ⟨cs, h1, hl, ht, hd, _⟩ := enum_nat_all_n n h2 h3
  have hlen : (finalsN n).length = n := by simp [finalsN]
  obtain ⟨cs', h1', hrt⟩ := enum_roundtrip_all_n LinLt.nat natMk 0 (finalsN n) (by omega) (namesOK_nat n h3)
  rw [h1] at h1'
  cases h1'
  refine ⟨cs, h1, hl, ht, hd, ?_⟩
  intro c hc
  obtain ⟨t, c', t', e1, e2, e3, e4, e5⟩ := hrt c hc
  simp only [roundTrip, e1, e2, e4, chainEqv_of _ _ e3, dictEq_of _ _ e5, Bool.and_self]

example : (2 : Nat) ≤ 7 ∧ 7 < 1000 := by omega

/-! ## 4. `standard_topology` keeps `topology_id` (the renaming step, every tree) -/

section rename
variable {α κ : Type} [DecidableEq α] [LT α] [DecidableLT α] [DecidableEq κ] [LT κ] [DecidableLT κ]

/-- ★ (renaming step; the FULL statement `standard_topology_keeps_id` — that the model's `standard_topology` IS such a
renaming, with the name layer made explicit — is in Props/C14d.lean.)  For EVERY named binary tree `a → l r` with
pairwise different vertices, EVERY chain `c` that consists of its decays (any order), EVERY key (name / particle) and
EVERY particle map `f` that is injective on the vertices and fixes the final particles: the chain
`[BaseDecay(f[core], [f[j] for j in outs]) for decay in c]` — the last loop of `standard_topology` — has the same
`topology_id` as `c`, and that id exists. -/
theorem renaming_keeps_topology_id (hα : LinLt α) (hκ : LinLt κ) (key : α → κ) {c : Chain α} {a : α}
    {l r : NT α} (hc : Rep c (NT.node a l r)) (hv : (NT.node a l r).verts.Nodup) (f : α → α)
    (hinj : ∀ x ∈ (NT.node a l r).verts, ∀ y ∈ (NT.node a l r).verts, f x = f y → x = y)
    (hfix : ∀ z ∈ (NT.node a l r).leaves, f z = z) :
    topologyId key (c.map (Decay.rename f)) = topologyId key c ∧ (topologyId key c).isSome :=
  Rep.rename_topologyId hα hκ key hc hv f hinj hfix

end rename

-- non-vacuity: the chain [7 → 2 1, 0 → 3 7] of the tree 0 → (7 → 1 2) 3, inner vertex 7 renamed to 70 (and top 0 to 5)
example :
    let c : Chain Nat := [⟨7, [2, 1]⟩, ⟨0, [3, 7]⟩]
    let f : Nat → Nat := fun x => if x = 7 then 70 else if x = 0 then 5 else x
    topologyId (fun x : Nat => x) (c.map (Decay.rename f)) = topologyId (fun x : Nat => x) c
      ∧ (topologyId (fun x : Nat => x) c).isSome = true := by decide +kernel

/-! ## 5. `topology_map` between renamed copies of one tree -/

section tmap
variable {α : Type} [DecidableEq α] [LT α] [DecidableLT α]

/-- ★ (renamed copies; the FULL statement `topology_map_is_morphism` — equal `topology_id(identical=False)` makes two
chains renamed copies — is in Props/C14d.lean.)  For EVERY named binary tree `a → l r` with pairwise different
vertices, EVERY chain `c` consisting of its decays, EVERY particle map `f` injective on the vertices and fixing the
finals, and EVERY chain `c2` consisting of the decays of the renamed tree (any order of decays and daughters in both):
`topology_map(c, c2)` returns (no KeyError); its particle part is defined exactly on the vertices and sends `x` to
`f x` — hence it is injective, onto the particles of `c2`, and fixes every final; its decay part lists every decay of
`c`, in order, paired with a decay of `c2` whose mother is `f core` and whose daughters are the images of the daughters
(up to daughter order, `BaseDecay.__eq__`). -/
theorem topology_map_of_renamed_copy (hα : LinLt α) {c c2 : Chain α} {a : α} {l r : NT α}
    (hc : Rep c (NT.node a l r)) (hv : (NT.node a l r).verts.Nodup) (f : α → α)
    (hinj : ∀ x ∈ (NT.node a l r).verts, ∀ y ∈ (NT.node a l r).verts, f x = f y → x = y)
    (hfix : ∀ z ∈ (NT.node a l r).leaves, f z = z) (hc2 : Rep c2 ((NT.node a l r).mapN f)) :
    ∃ pm dm, topologyMap c c2 = some (pm, dm) ∧
      (∀ x, pm.get? x = if x ∈ (NT.node a l r).verts then some (f x) else none) ∧
      (∀ z ∈ (NT.node a l r).leaves, pm.get? z = some z) ∧
      dm.map (·.1) = c ∧ ∀ p ∈ dm, p.2 ∈ c2 ∧ Decay.same (Decay.rename f p.1) p.2 = true := by
  obtain ⟨pm, dm, h1, h2, h3, h4⟩ := topologyMap_rename hα hc hv f hinj hfix hc2
  refine ⟨pm, dm, h1, h2, ?_, h3, h4⟩
  intro z hz
  rw [h2, if_pos ((NT.node a l r).leaves_sub_verts z hz), hfix z hz]

end tmap

-- non-vacuity: [7 → 2 1, 0 → 3 7] against the renamed copy [5 → 70 3, 70 → 1 2] (7 ↦ 70, 0 ↦ 5)
example : topologyMap ([⟨7, [2, 1]⟩, ⟨0, [3, 7]⟩] : Chain Nat) [⟨5, [70, 3]⟩, ⟨70, [1, 2]⟩]
    = some ([(1, 1), (2, 2), (3, 3), (7, 70), (0, 5)],
        [(⟨7, [2, 1]⟩, ⟨70, [1, 2]⟩), (⟨0, [3, 7]⟩, ⟨5, [70, 3]⟩)]) := by decide +kernel

end TfPwaV.C14
