import TfPwaV.Proofs.Sampler
import Mathlib.Algebra.Order.Floor.Semifield
import Mathlib.Algebra.BigOperators.Group.List.Basic
import Mathlib.Tactic.FieldSimp
import Mathlib.Tactic.Ring
/-!
# C20 (part 6) — the measure-free core of "the sample follows the model density"

Exact counting theorems about `acceptList` / `thinList` / `step` of `TfPwaV.SamplerR` (the ℝ-instance of
`templates/Sampler.lean.in`, whose Float instance is executed bit-for-bit against `single_sampling2` / `multi_sampling`):

* one proposal with weight `w` and bound `M > 0` is accepted exactly for the uniforms `u < w / M` (`accept_interval`);
  on the uniform grid `u = j/K` the number of accepting grid points is exactly `⌈K w / M⌉` (`accept_count_grid`), for
  every `K`; the accepted fraction lies in `[w/M, w/M + 1/K)`;
* a thinning step from the book-keeping bound `m` to the new bound `M` retains an event exactly for `u < m / M`
  (`thinning_ratio`), `⌈K m / M⌉` grid points (`thinning_count_grid`);
* `step` thins with (book-keeping bound)/(new acceptance bound) and books `M · 1.05` afterwards (`step_growth`), so the
  interval lengths of an event of weight `w` through any bound history multiply to `w · κ / M_final`
  (`composed_acceptance`), `κ` the product of the code's book-keeping factors: proportional to `w`, the same for every
  event of a batch, and dependent on the history only through `κ` and the final bound (`composed_acceptance_history`).

What is not proved: that `tf.random.uniform` is uniform and independent (χ² test, thorough tier).
-/
open TfPwaV.ScalarR
namespace TfPwaV.C20f
open TfPwaV.SamplerR

/-- the uniform grid `0, 1/K, …, (K-1)/K` on `[0, 1)` -/
noncomputable def grid (K : Nat) : List ℝ := (List.range K).map fun (j : Nat) => (j : ℝ) / (K : ℝ)

theorem grid_length (K : Nat) : (grid K).length = K := by simp [grid]

/-- ★ `accept_interval`: the proposal is accepted iff `u < w / M`; for `0 ≤ w ≤ M` this is the interval `[0, w/M)`
of length `w/M ≤ 1`. -/
theorem accept_interval (k i : Nat) (M w r : ℝ) (hM : 0 < M) :
    acceptList k M i [w] [r] = if r < w / M then [⟨k, i, w, M⟩] else [] := by
  have h : r * M < w ↔ r < w / M := (lt_div_iff₀ hM).symm
  by_cases hr : r < w / M
  · rw [if_pos hr]; simp [acceptList, h.mpr hr]
  · rw [if_neg hr]; simp [acceptList, mt h.mp hr]

theorem accept_interval_length (M w : ℝ) (hM : 0 < M) (hw0 : 0 ≤ w) (hwM : w ≤ M) : 0 ≤ w / M ∧ w / M ≤ 1 :=
  ⟨div_nonneg hw0 hM.le, (div_le_one hM).mpr hwM⟩

theorem acceptList_replicate_length (k : Nat) (M w : ℝ) : ∀ (rs : List ℝ) (i : Nat),
    (acceptList k M i (List.replicate rs.length w) rs).length = rs.countP fun r => decide (r * M < w)
  | [], i => by simp [acceptList]
  | r :: rs, i => by
    have ih := acceptList_replicate_length k M w rs (i + 1)
    simp only [List.length_cons, List.replicate_succ, acceptList, List.countP_cons]
    by_cases h : r * M < w
    · simp [h, ih]
    · simp [h, ih]

theorem count_range_lt (c : Nat) : ∀ K : Nat, (List.range K).countP (fun j => decide (j < c)) = min c K
  | 0 => by simp
  | K + 1 => by
    rw [List.range_succ, List.countP_append, count_range_lt c K]
    simp only [List.countP_cons, List.countP_nil, decide_eq_true_eq]
    split <;> omega

theorem grid_count (K : Nat) (hK : 0 < K) (t : ℝ) (ht1 : t ≤ 1) (p : ℝ → Bool)
    (hp : ∀ j : Nat, p ((j : ℝ) / (K : ℝ)) = decide ((j : ℝ) / (K : ℝ) < t)) :
    (grid K).countP p = Nat.ceil ((K : ℝ) * t) := by
  have hKr : (0 : ℝ) < (K : ℝ) := by exact_mod_cast hK
  unfold grid
  rw [List.countP_map]
  have hcongr : ∀ j ∈ List.range K, (p ∘ fun j : Nat => (j : ℝ) / (K : ℝ)) j = true ↔
      (fun j : Nat => decide (j < Nat.ceil ((K : ℝ) * t))) j = true := by
    intro j _
    simp only [Function.comp, hp j, decide_eq_true_eq]
    rw [Nat.lt_ceil, div_lt_iff₀ hKr, mul_comm]
  rw [List.countP_congr hcongr, count_range_lt]
  apply min_eq_left
  apply Nat.ceil_le.mpr
  nlinarith

/-- ★ `accept_count_grid`: `K` copies of a proposal of weight `0 ≤ w ≤ M` offered with the `K` grid uniforms `j/K`:
exactly `⌈K w / M⌉` are accepted — for every `K ≥ 1`. -/
theorem accept_count_grid (k K : Nat) (hK : 0 < K) (M w : ℝ) (hM : 0 < M) (hw0 : 0 ≤ w) (hwM : w ≤ M) :
    (acceptList k M 0 (List.replicate K w) (grid K)).length = Nat.ceil ((K : ℝ) * (w / M)) := by
  have h1 := acceptList_replicate_length k M w (grid K) 0
  rw [grid_length] at h1
  rw [h1]
  obtain ⟨h0, h1'⟩ := accept_interval_length M w hM hw0 hwM
  apply grid_count K hK (w / M) h1'
  intro j
  congr 1
  exact propext (lt_div_iff₀ hM).symm

/-- the accepted fraction of the grid converges to `w/M` at rate `1/K` -/
theorem accept_fraction (K : Nat) (hK : 0 < K) (t : ℝ) (ht0 : 0 ≤ t) :
    t ≤ (Nat.ceil ((K : ℝ) * t) : ℝ) / (K : ℝ) ∧ (Nat.ceil ((K : ℝ) * t) : ℝ) / (K : ℝ) < t + 1 / (K : ℝ) := by
  have hKr : (0 : ℝ) < (K : ℝ) := by exact_mod_cast hK
  have h1 := Nat.le_ceil ((K : ℝ) * t)
  have h2 := Nat.ceil_lt_add_one (mul_nonneg hKr.le ht0)
  constructor
  · rw [le_div_iff₀ hKr]; linarith
  · rw [div_lt_iff₀ hKr]
    have : (t + 1 / (K : ℝ)) * (K : ℝ) = (K : ℝ) * t + 1 := by field_simp
    linarith

/-- ★ `thinning_ratio`: after a bound increase from the book-keeping bound `m > 0` to `M > 0` an earlier event is
retained iff `u < m / M`: the retained fraction is `m / M`. -/
theorem thinning_ratio (M m r : ℝ) (hM : 0 < M) (hm : 0 < m) (e : Ev) :
    thinList M m [e] [r] = if r < m / M then [e] else [] := by
  have h : r * M / m < 1 ↔ r < m / M := by
    rw [div_lt_one hm, lt_div_iff₀ hM]
  by_cases hr : r < m / M
  · rw [if_pos hr]; simp [thinList, h.mpr hr]
  · rw [if_neg hr]; simp [thinList, mt h.mp hr]

theorem thinList_replicate_length (M m : ℝ) (e : Ev) : ∀ (rs : List ℝ),
    (thinList M m (List.replicate rs.length e) rs).length = rs.countP fun r => decide (r * M / m < 1)
  | [] => by simp [thinList]
  | r :: rs => by
    have ih := thinList_replicate_length M m e rs
    simp only [List.length_cons, List.replicate_succ, thinList, List.countP_cons]
    by_cases h : r * M / m < 1
    · simp [h, ih]
    · simp [h, ih]

/-- ★ `thinning_count_grid`: of `K` copies of an event offered with the grid uniforms exactly `⌈K m / M⌉` survive a
thinning step `m → M` (`0 < m ≤ M`). -/
theorem thinning_count_grid (K : Nat) (hK : 0 < K) (M m : ℝ) (hm : 0 < m) (hmM : m ≤ M) (e : Ev) :
    (thinList M m (List.replicate K e) (grid K)).length = Nat.ceil ((K : ℝ) * (m / M)) := by
  have hM : 0 < M := lt_of_lt_of_le hm hmM
  have h1 := thinList_replicate_length M m e (grid K)
  rw [grid_length] at h1
  rw [h1]
  apply grid_count K hK (m / M) ((div_le_one hM).mpr hmM)
  intro j
  congr 1
  apply propext
  rw [div_lt_one hm, lt_div_iff₀ hM]

/-- ★ what `multi_sampling` does when the bound grows (`new_max_weight > max_weight and len(all_data) > 0`): earlier
events are thinned with `u · M / B < 1`, `B` the book-keeping bound and `M` the acceptance bound of the new batch, the
new batch is appended, and the book-keeping bound becomes `M · 1.05`. -/
theorem step_growth (N maxN k : Nat) (b : Batch) (s : St)
    (hgrow : bookBound s.maxW (acceptBound b.ws s.maxW) < acceptBound b.ws s.maxW) (hfirst : s.first = false) :
    (step N maxN k b s).all = thinList (acceptBound b.ws s.maxW) (bookBound s.maxW (acceptBound b.ws s.maxW)) s.all b.thin
        ++ acceptList k (acceptBound b.ws s.maxW) 0 b.ws b.rnd ∧
    (step N maxN k b s).maxW = some (acceptBound b.ws s.maxW * c105) := by
  unfold step
  simp only [hgrow, hfirst, and_self, if_true]

/-- … and when it does not grow (or the batch is the first): nothing is thinned -/
theorem step_no_growth (N maxN k : Nat) (b : Batch) (s : St)
    (h : ¬ (bookBound s.maxW (acceptBound b.ws s.maxW) < acceptBound b.ws s.maxW ∧ s.first = false)) :
    (step N maxN k b s).all = s.all ++ acceptList k (acceptBound b.ws s.maxW) 0 b.ws b.rnd ∧
    (step N maxN k b s).maxW = some (bookBound s.maxW (acceptBound b.ws s.maxW)) := by
  unfold step
  simp only [h, if_false, and_self]

/-- interval length of one thinning step `(B, M)`: old book-keeping bound over new acceptance bound (`thinning_ratio`) -/
noncomputable def thinLen (s : ℝ × ℝ) : ℝ := s.1 / s.2

/-- product of the interval lengths of an event of weight `w` accepted at bound `M0` (`accept_interval`) and then
carried through the thinning steps `steps` (`thinning_ratio`): the volume of the set of uniform tuples that keep it -/
noncomputable def survival (w M0 : ℝ) (steps : List (ℝ × ℝ)) : ℝ := w / M0 * (steps.map thinLen).prod

/-- a bound history as `multi_sampling` produces it: the book-keeping bound used by each thinning step is `c ×` the
previous acceptance bound (`c = 1.1` after the first batch, `1.05` after a thinning step; `step_growth`) -/
def Linked : ℝ → List (ℝ × ℝ) → List ℝ → Prop
  | _, [], [] => True
  | M, (B, M') :: steps, c :: cs => B = c * M ∧ M' ≠ 0 ∧ Linked M' steps cs
  | _, _, _ => False

def finalBound : ℝ → List (ℝ × ℝ) → ℝ
  | M, [] => M
  | _, (_, M') :: steps => finalBound M' steps

/-- ★ `composed_acceptance`: through every linked bound history the interval lengths multiply to
`w · (∏ c) / M_final` — proportional to `w / M_final` with a constant that does not depend on the event. -/
theorem composed_acceptance (w : ℝ) : ∀ (M0 : ℝ) (_ : M0 ≠ 0) (steps : List (ℝ × ℝ)) (cs : List ℝ),
    Linked M0 steps cs → survival w M0 steps = w * cs.prod / finalBound M0 steps
  | M0, hM0, [], [], _ => by simp [survival, finalBound]
  | M0, hM0, [], _ :: _, h => by simp [Linked] at h
  | M0, hM0, _ :: _, [], h => by simp [Linked] at h
  | M0, hM0, (B, M') :: steps, c :: cs, h => by
    obtain ⟨hB, hM', hrest⟩ := h
    have ih := composed_acceptance w M' hM' steps cs hrest
    unfold survival at ih ⊢
    simp only [List.map_cons, List.prod_cons, finalBound, thinLen]
    rw [hB]
    have : w / M0 * (c * M0 / M' * (List.map thinLen steps).prod) = c * (w / M' * (List.map thinLen steps).prod) := by
      field_simp
    rw [this, ih]; ring

/-- two events of the same batch: survival volumes are in the ratio of their weights (the retained sample of each
batch follows the density `∝ w`), for every bound history, linked or not -/
theorem composed_acceptance_proportional (w w' M0 : ℝ) (steps : List (ℝ × ℝ)) :
    survival w M0 steps * w' = survival w' M0 steps * w := by
  unfold survival; ring

/-- ★ independence of the way the bound grew: two linked histories with the same final bound and the same product
of book-keeping factors give every event the same survival volume -/
theorem composed_acceptance_history (w M0 M0' : ℝ) (h0 : M0 ≠ 0) (h0' : M0' ≠ 0) (steps steps' : List (ℝ × ℝ))
    (cs cs' : List ℝ) (hl : Linked M0 steps cs) (hl' : Linked M0' steps' cs')
    (hfin : finalBound M0 steps = finalBound M0' steps') (hc : cs.prod = cs'.prod) :
    survival w M0 steps = survival w M0' steps' := by
  rw [composed_acceptance w M0 h0 steps cs hl, composed_acceptance w M0' h0' steps' cs' hl', hfin, hc]

-- non-vacuity: accept at 2, book 2.2, grow to 4 (book 4.2), grow to 8: linked with factors 1.1, 1.05
example : Linked 2 [(2.2, 4), (4.2, 8)] [1.1, 1.05] := by
  simp only [Linked]; norm_num

end TfPwaV.C20f
