import TfPwaV.Props.C15
import Mathlib.Analysis.SpecialFunctions.Sqrt
import Mathlib.Analysis.SpecialFunctions.Log.Deriv
import Mathlib.Analysis.Real.Pi.Bounds
/-!
# C15 (continued) — Gounaris–Sakurai: the code's `hFun`, `dh_dsFun`, `dFun`, `fsFun` are the docstring's h, dh/dm², D, f

The docstring of `ParticleGS` is written with one pion mass `m_π` and `π`; the code takes the two daughter masses
(`c_daug2Mass`, `c_daug3Mass`) and the literal `3.14159265359`.  The specification below is the docstring with
`2 m_π := d2 + d3`, `m_π² := ((d2 + d3)/2)²`, `q := ` two-body momentum of (d2, d3), and `π := pi` a parameter; the theorems
instantiate `pi` with the code's constant `gsPi`, which is within 2.1e-13 of `Real.pi` (`gsPi_close_to_pi`).
-/
open TfPwaV.ScalarR TfPwaV.BprimeTable
namespace TfPwaV.C15
open TfPwaV.LineShapeR

/-- docstring: `h(m) = (2/π) (q/m) ln((m + 2q)/(2 m_π))` -/
noncomputable def gsDocH (pi sm q m : ℝ) : ℝ := 2 / pi * (q / m) * Real.log ((m + 2 * q) / sm)

/-- docstring: `dh/dm²|_{m0} = h(m0) [(8 q0²)⁻¹ - (2 m0²)⁻¹] + (2π m0²)⁻¹` -/
noncomputable def gsDocDh (pi sm q0 m0 : ℝ) : ℝ :=
  gsDocH pi sm q0 m0 * (1 / (8 * q0 ^ 2) - 1 / (2 * m0 ^ 2)) + 1 / (2 * pi * m0 ^ 2)

/-- docstring: `D = (3/π)(m_π²/q0²) ln((m0 + 2 q0)/(2 m_π)) + m0/(2π q0) - m_π² m0/(π q0³)` -/
noncomputable def gsDocD (pi sm q0 m0 : ℝ) : ℝ :=
  3 / pi * ((sm / 2) ^ 2 / q0 ^ 2) * Real.log ((m0 + 2 * q0) / sm) + m0 / (2 * pi * q0) - (sm / 2) ^ 2 * m0 / (pi * q0 ^ 3)

/-- docstring: `f(m) = Γ0 (m0²/q0³) [q² (h(m) - h(m0)) + (m0² - m²) q0² dh/dm²|_{m0}]` -/
noncomputable def gsDocF (pi sm g0 q q0 m m0 : ℝ) : ℝ :=
  g0 * (m0 ^ 2 / q0 ^ 3) * (q ^ 2 * (gsDocH pi sm q m - gsDocH pi sm q0 m0) + (m0 ^ 2 - m ^ 2) * q0 ^ 2 * gsDocDh pi sm q0 m0)

/-- the code's literal is π to 2.1e-13; the float32 flag is a rounding only (identity over ℝ) -/
theorem gsPi_close_to_pi (f32 : Bool) : |gsPi f32 - Real.pi| < 2.1e-13 := by
  have h : gsPi f32 = 3.14159265359 := by cases f32 <;> simp [gsPi, kf32]
  rw [h, abs_lt]
  constructor
  · have := Real.pi_lt_d20; norm_num at this ⊢; linarith
  · have := Real.pi_gt_d20; norm_num at this ⊢; linarith

/-- above threshold `twoBodyCMmom` is the two-body momentum `sqrt((m²-(d2+d3)²)(m²-(d2-d3)²))/(2m)` -/
theorem twoBodyCMmom_above (m d2 d3 : ℝ) (h2 : 0 ≤ d2) (h3 : 0 ≤ d3) (hm : d2 + d3 < m) :
    twoBodyCMmom m d2 d3 = symRelP m d2 d3 := by
  have hp : (m - (d2 + d3)) * (m + (d2 + d3)) * (m - (d2 - d3)) * (m + (d2 - d3)) > 0 := by
    have a1 : 0 < m - (d2 + d3) := by linarith
    have a2 : 0 < m + (d2 + d3) := by linarith
    have a3 : 0 < m - (d2 - d3) := by linarith
    have a4 : 0 < m + (d2 - d3) := by linarith
    positivity
  unfold twoBodyCMmom symRelP ksqrt
  simp only [if_pos hp]
  have e : (m - (d2 + d3)) * (m + (d2 + d3)) * (m - (d2 - d3)) * (m + (d2 - d3))
      = (m * m - (d2 + d3) * (d2 + d3)) * (m * m - (d2 - d3) * (d2 - d3)) := by ring
  rw [e, div_div]

/-- at and below threshold the code sets the momentum to 0 (its own branch) -/
theorem twoBodyCMmom_below (m d2 d3 : ℝ) (h2 : 0 ≤ d2) (h3 : 0 ≤ d3) (hm0 : d2 - d3 ≤ m) (hm1 : d3 - d2 ≤ m)
    (hm : m ≤ d2 + d3) : twoBodyCMmom m d2 d3 = 0 := by
  have hp : ¬ (m - (d2 + d3)) * (m + (d2 + d3)) * (m - (d2 - d3)) * (m + (d2 - d3)) > 0 := by
    have a1 : m - (d2 + d3) ≤ 0 := by linarith
    have a2 : 0 ≤ m + (d2 + d3) := by linarith
    have a3 : 0 ≤ m - (d2 - d3) := by linarith
    have a4 : 0 ≤ m + (d2 - d3) := by linarith
    have : (m - (d2 + d3)) * (m + (d2 + d3)) * (m - (d2 - d3)) * (m + (d2 - d3)) ≤ 0 := by
      apply mul_nonpos_of_nonpos_of_nonneg _ a4
      apply mul_nonpos_of_nonpos_of_nonneg _ a3
      exact mul_nonpos_of_nonpos_of_nonneg a1 a2
    linarith
  unfold twoBodyCMmom
  simp only [if_neg hp]

/-- `hFun(m², d2, d3)` is the docstring's `h(m)` -/
theorem hFun_eq_doc (f32 : Bool) (m d2 d3 : ℝ) (h2 : 0 ≤ d2) (h3 : 0 ≤ d3) (hm : d2 + d3 < m) :
    hFun f32 (m * m) d2 d3 = gsDocH (gsPi f32) (d2 + d3) (symRelP m d2 d3) m := by
  have hm0 : 0 ≤ m := by linarith
  have e2 : (2.0 : ℝ) = 2 := by norm_num
  unfold hFun gsDocH ksqrt klog
  simp only [Real.sqrt_mul_self hm0, twoBodyCMmom_above m d2 d3 h2 h3 hm, e2]

/-- `dh_dsFun(m0², d2, d3)` is the docstring's `dh/dm²|_{m0}` -/
theorem dhdsFun_eq_doc (f32 : Bool) (m0 d2 d3 : ℝ) (h2 : 0 ≤ d2) (h3 : 0 ≤ d3) (hm : d2 + d3 < m0) :
    dhdsFun f32 (m0 * m0) d2 d3 = gsDocDh (gsPi f32) (d2 + d3) (symRelP m0 d2 d3) m0 := by
  have hm0 : 0 ≤ m0 := by linarith
  have e1 : (1.0 : ℝ) = 1 := by norm_num
  have e2 : (2.0 : ℝ) = 2 := by norm_num
  have e8 : (8.0 : ℝ) = 8 := by norm_num
  unfold dhdsFun gsDocDh
  rw [hFun_eq_doc f32 m0 d2 d3 h2 h3 hm]
  simp only [ksqrt, Real.sqrt_mul_self hm0, twoBodyCMmom_above m0 d2 d3 h2 h3 hm, e1, e2, e8, pow_two]

/-- `dFun(m0², d2, d3)` is the docstring's `D` -/
theorem dFun_eq_doc (f32 : Bool) (m0 d2 d3 : ℝ) (h2 : 0 ≤ d2) (h3 : 0 ≤ d3) (hm : d2 + d3 < m0) :
    dFun f32 (m0 * m0) d2 d3 = gsDocD (gsPi f32) (d2 + d3) (symRelP m0 d2 d3) m0 := by
  have hm0 : 0 ≤ m0 := by linarith
  have e3 : (3.0 : ℝ) = 3 := by norm_num
  have e4 : (4.0 : ℝ) = 4 := by norm_num
  unfold dFun gsDocD
  simp only [ksqrt, klog, Real.sqrt_mul_self hm0, twoBodyCMmom_above m0 d2 d3 h2 h3 hm, e3, e4]
  ring

/-- `fsFun(m², m0², Γ0, d2, d3)` is the docstring's `f(m)` -/
theorem fsFun_eq_doc (f32 : Bool) (m m0 g0 d2 d3 : ℝ) (h2 : 0 ≤ d2) (h3 : 0 ≤ d3) (hm : d2 + d3 < m)
    (hm0 : d2 + d3 < m0) :
    fsFun f32 (m * m) (m0 * m0) g0 d2 d3
      = gsDocF (gsPi f32) (d2 + d3) g0 (symRelP m d2 d3) (symRelP m0 d2 d3) m m0 := by
  have hmn : 0 ≤ m := by linarith
  have hm0n : 0 ≤ m0 := by linarith
  unfold fsFun gsDocF
  rw [hFun_eq_doc f32 m d2 d3 h2 h3 hm, hFun_eq_doc f32 m0 d2 d3 h2 h3 hm0, dhdsFun_eq_doc f32 m0 d2 d3 h2 h3 hm0]
  simp only [ksqrt, Real.sqrt_mul_self hmn, Real.sqrt_mul_self hm0n, twoBodyCMmom_above m d2 d3 h2 h3 hm,
    twoBodyCMmom_above m0 d2 d3 h2 h3 hm0]
  ring

/-- the whole docstring of `GS_rho`:
`R(m) = (1 + D Γ0/m0) / ((m0² - m²) + f(m) - i m0 Γ(m))` with the documented D, f, h, dh/dm² (both float32 settings) -/
theorem GS_eq_doc (f32 : Bool) (L : ℕ) (m m0 g0 q q0 d c2 c3 : ℝ) (h2 : 0 ≤ c2) (h3 : 0 ≤ c3) (hm : c2 + c3 < m)
    (hm0 : c2 + c3 < m0) :
    toC (GS f32 L m m0 g0 q q0 d c2 c3)
      = ((1 + gsDocD (gsPi f32) (c2 + c3) (symRelP m0 c2 c3) m0 * g0 / m0 : ℝ) : ℂ)
        * (1 / (((m0 * m0 - m * m
              + gsDocF (gsPi f32) (c2 + c3) g0 (symRelP m c2 c3) (symRelP m0 c2 c3) m m0 : ℝ) : ℂ)
            - Complex.I * ((m0 * Gamma L m g0 q q0 m0 d : ℝ) : ℂ))) := by
  have hk : ∀ x : ℝ, (if f32 = true then kf32 x else x) = x := by intro x; split_ifs <;> simp [kf32]
  rw [GS_eq_spec, hk, hk, dFun_eq_doc f32 m0 c2 c3 h2 h3 hm0, fsFun_eq_doc f32 m m0 g0 c2 c3 h2 h3 hm hm0]

/-- equal daughter masses μ: for `t > (2μ)²`, `k(t) = sqrt(t - 4μ²)/2` -/
theorem twoBodyCMmom_equal (t mu : ℝ) (hmu : 0 ≤ mu) (ht : (2 * mu) * (2 * mu) < t) :
    twoBodyCMmom (Real.sqrt t) mu mu = Real.sqrt (t - (2 * mu) * (2 * mu)) / 2 := by
  have ht0 : 0 < t := lt_of_le_of_lt (mul_self_nonneg _) ht
  have hlt : mu + mu < Real.sqrt t := by
    rw [show mu + mu = Real.sqrt ((2 * mu) * (2 * mu)) by rw [Real.sqrt_mul_self (by linarith)]; ring]
    exact Real.sqrt_lt_sqrt (mul_self_nonneg _) ht
  rw [twoBodyCMmom_above _ mu mu hmu hmu hlt]
  unfold symRelP ksqrt
  have ha : Real.sqrt t * Real.sqrt t = t := Real.mul_self_sqrt ht0.le
  have hpos : 0 < Real.sqrt t := Real.sqrt_pos.mpr ht0
  rw [ha, sub_self, mul_zero, sub_zero, show (mu + mu) * (mu + mu) = (2 * mu) * (2 * mu) by ring,
    Real.sqrt_mul (by linarith)]
  field_simp

/-- `dh_dsFun` is the derivative of `hFun` in `s = m²` above threshold when the two daughter masses are equal
(the docstring's single `m_π`): `d/ds h(s) = h(s) [1/(8 k²) - 1/(2 s)] + 1/(2π s)` -/
theorem hFun_hasDerivAt_equal_mass (f32 : Bool) (s mu : ℝ) (hmu : 0 < mu) (hs : (2 * mu) * (2 * mu) < s) :
    HasDerivAt (fun t => hFun f32 t mu mu) (dhdsFun f32 s mu mu) s := by
  have hs0 : 0 < s := lt_of_le_of_lt (mul_self_nonneg _) hs
  have hpi : gsPi f32 ≠ 0 := by
    have h : gsPi f32 = 3.14159265359 := by cases f32 <;> simp [gsPi, kf32]
    rw [h]; norm_num
  -- the explicit function near s
  have hev : (fun t => hFun f32 t mu mu) =ᶠ[nhds s]
      fun t => 2 / gsPi f32 * ((Real.sqrt (t - (2 * mu) * (2 * mu)) / 2) / Real.sqrt t)
        * Real.log ((Real.sqrt t + 2 * (Real.sqrt (t - (2 * mu) * (2 * mu)) / 2)) / (mu + mu)) := by
    filter_upwards [lt_mem_nhds hs] with t ht
    have e2 : (2.0 : ℝ) = 2 := by norm_num
    unfold hFun
    simp only [ksqrt, klog, twoBodyCMmom_equal t mu hmu.le ht, e2]
  have hb0 : 0 < s - (2 * mu) * (2 * mu) := by linarith
  have hA : HasDerivAt (fun t => Real.sqrt t) (1 / (2 * Real.sqrt s)) s := Real.hasDerivAt_sqrt hs0.ne'
  have hB : HasDerivAt (fun t => Real.sqrt (t - (2 * mu) * (2 * mu))) (1 / (2 * Real.sqrt (s - (2 * mu) * (2 * mu)))) s := by
    have := ((hasDerivAt_id s).sub_const ((2 * mu) * (2 * mu))).sqrt hb0.ne'
    simpa using this
  have ha : 0 < Real.sqrt s := Real.sqrt_pos.mpr hs0
  have hb : 0 < Real.sqrt (s - (2 * mu) * (2 * mu)) := Real.sqrt_pos.mpr hb0
  have hK := hB.div_const 2
  have hR := hK.div hA ha.ne'
  have hArg := (hA.add (hK.const_mul 2)).div_const (mu + mu)
  have hargne : (Real.sqrt s + 2 * (Real.sqrt (s - (2 * mu) * (2 * mu)) / 2)) / (mu + mu) ≠ 0 := by positivity
  have hL := hArg.log hargne
  have hG := (hR.const_mul (2 / gsPi f32)).mul hL
  refine HasDerivAt.congr_of_eventuallyEq (hG.congr_deriv ?_) hev
  simp only [Pi.div_apply, Pi.add_apply]
  -- value of dh_dsFun in the same atoms
  have e1 : (1.0 : ℝ) = 1 := by norm_num
  have e2 : (2.0 : ℝ) = 2 := by norm_num
  have e8 : (8.0 : ℝ) = 8 := by norm_num
  unfold dhdsFun hFun
  simp only [ksqrt, klog, twoBodyCMmom_equal s mu hmu.le hs, e1, e2, e8]
  have hss : s = Real.sqrt s * Real.sqrt s := (Real.mul_self_sqrt hs0.le).symm
  generalize Real.log ((Real.sqrt s + 2 * (Real.sqrt (s - (2 * mu) * (2 * mu)) / 2)) / (mu + mu)) = Lg
  generalize Real.sqrt (s - (2 * mu) * (2 * mu)) = b at *
  have hs' : ∀ x : ℝ, x / (2 * s) = x / (2 * (Real.sqrt s * Real.sqrt s)) := by intro x; rw [← hss]
  have hs'' : ∀ x : ℝ, x / (2 * gsPi f32 * s) = x / (2 * gsPi f32 * (Real.sqrt s * Real.sqrt s)) := by intro x; rw [← hss]
  rw [hs', hs'']
  generalize Real.sqrt s = a at *
  have hmu2 : mu + mu ≠ 0 := by positivity
  have hab : a + 2 * (b / 2) ≠ 0 := by positivity
  field_simp
  ring

/-- why equal masses: the Gounaris–Sakurai derivation uses `d(k²)/ds = 1/4`.  For daughter masses with
`S = d2 + d3`, `D = d2 - d3` the code's `k² = (s - S²)(s - D²)/(4 s)` has `d(k²)/ds = 1/4 - S² D²/(4 s²)` … -/
theorem gs_kSq_hasDerivAt (S D s : ℝ) (hs : s ≠ 0) :
    HasDerivAt (fun t => (t - S * S) * (t - D * D) / (4 * t)) (1 / 4 - S * S * (D * D) / (4 * (s * s))) s := by
  have h1 := ((hasDerivAt_id s).sub_const (S * S)).mul ((hasDerivAt_id s).sub_const (D * D))
  have h2 := (hasDerivAt_id s).const_mul (4 : ℝ)
  have h3 := h1.div h2 (by simpa using hs)
  refine h3.congr_deriv ?_
  simp only [id, Pi.mul_apply]
  field_simp
  ring

/-- … which is `1/4` exactly when `S D = 0`, i.e. for equal daughter masses (with the code's defaults `m_π⁺ ≠ m_π⁰`,
`dh_dsFun` is the documented formula but only an approximation of `dh/ds`, relative correction `S² D²/s² ≈ 4e-6` at the ρ) -/
theorem gs_kSq_deriv_eq_quarter_iff (S D s : ℝ) (hs : s ≠ 0) :
    1 / 4 - S * S * (D * D) / (4 * (s * s)) = 1 / 4 ↔ S * D = 0 := by
  have hss : (4 : ℝ) * (s * s) ≠ 0 := by positivity
  constructor
  · intro h
    have h0 : S * S * (D * D) / (4 * (s * s)) = 0 := by linarith
    rcases div_eq_zero_iff.mp h0 with h1 | h1
    · have : (S * D) * (S * D) = 0 := by linear_combination h1
      exact mul_self_eq_zero.mp this
    · exact absurd h1 hss
  · intro h
    have : S * S * (D * D) = 0 := by
      have := congrArg (fun x => x * x) h
      simp only [zero_mul] at this
      linear_combination this
    rw [this, zero_div, sub_zero]

-- non-vacuity: ρ-like kinematics, m_π = 0.1396, m = 0.9, m0 = 0.775 are above the 2π threshold
example : (0 : ℝ) ≤ 0.1396 ∧ (0.1396 : ℝ) + 0.1396 < 0.775 ∧ (2 * 0.1396 : ℝ) * (2 * 0.1396) < 0.775 * 0.775 := by norm_num

end TfPwaV.C15
