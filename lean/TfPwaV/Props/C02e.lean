import TfPwaV.Proofs.RouteRestTree
/-!
# C02 (kinematic clause, closed) — `RouteToRest` DISCHARGED from the cascade model

`Props/C02d.lean` proves the convention-invariance theorems under the named hypothesis `RouteToRest`: the Lorentz
transformation composed from the `(alpha_i, beta_i, omega_i)` of a route brings the particle's top-frame momentum to
rest.  Here that hypothesis is PROVED from the model of the code that produces those numbers:

* `templates/Cascade.lean.in` — `calChainBoost` = `infer_momentum` + `add_mass` + `cal_chain_boost` (nested
  `LorentzVector.rest_vector`), the axis propagation of `cal_helicity_angle` (`set_z[j] = vect(rest_p[j])`,
  `set_x[j] = x2` of `angle_zx_z_getx`), the `alpha` range shift;
* `templates/RouteRest.lean.in` — `stepTree`: the `(alpha, beta, omega)` `cal_helicity_angle` records for BOTH daughters
  of every decay (`omega = LorentzVector.omega(rest_p[j])`), `routeAt`: the route of a decay path, `topCoords`: the frame
  all chains of an event start from, `rule2Step`: the angles of `aligned_angle_ref_rule2`.  The Float instance of the same
  text is compared on every run with the angles and rapidities the real `cal_angle` produces.

The EVENT is an arbitrary tree of four-momenta (`MTree`: any binary decay topology, any momenta in any input frame),
the base axes `(bz, bx)` are arbitrary (`random_z` on or off, `center_mass` on or off are instances).  Hypotheses are
the code's own guards, read off the output of `cal_chain_boost` (`Guards`, `Proofs/RouteRestTree.lean`):
positive energy and time-like helicity-frame momenta (massive particles), no `cross_unit` in its degenerate branch
(`norm < 1e-14`), every DECAYING daughter in the regular branch of `LorentzVector.boost` (`beta² > 1e-14`).
-/
open TfPwaV.ScalarR
open Matrix
namespace TfPwaV.C02
open TfPwaV.SU2R TfPwaV.AlignR TfPwaV.KinR TfPwaV.AngleR TfPwaV.CascadeR TfPwaV.SL2CR TfPwaV.RouteRestR TfPwaV.C11
open TfPwaV.C12 TfPwaV.UnitaryMix

/-! ### (1) one vertex -/

/-- **`route_step_tracks`** — one pass of the inner loop of `cal_helicity_angle`, any mother frame `(X, Y, Z)` with
`set_z = s·Z` (un-normalised, as the code hands it down), `cross_unit(set_z, set_x) = Y`; `r = rest_p[j]` any
four-vector passing the code's guards (`StepOK`); `bias` arbitrary (`−π` for `outs[0]`, `−2π` for `outs[1]`).
The recorded step `(alpha, beta, omega)` satisfies `LastVertexTracks` for EVERY prefix of a route that delivers the
coordinates of `r`, and `Boost_z(omega)·Rotation_y(beta)·Rotation_z(alpha)` maps `herm(coords r)` to `m·1`, `m = √(r·r) > 0`. -/
theorem route_step_tracks (X Y Z : V3) (hF : IsFrame X Y Z) (s : ℝ) (hs : eps ≤ s) (x : V3)
    (hx : crossUnit (V3.smul s Z) x = Y) (r : V4) (hok : StepOK (V3.smul s Z) r) (bias : ℝ) :
    let out := angleZxZGetx (V3.smul s Z) x r.vect
    let st : Step := ⟨shiftAlpha out.alpha bias, out.beta, omegaP r⟩
    (∀ (ss : List Step) (q : V4), routeL ss q = coords X Y Z r → LastVertexTracks ss st q (Real.sqrt r.m2)) ∧
      act (stepM st) (herm (coords X Y Z r)) = scalarM (Real.sqrt r.m2) ∧ 0 < Real.sqrt r.m2 := by
  intro out st
  obtain ⟨ht, hq, hg⟩ := hok
  have VF := vertex_facts X Y Z hF s hs x hx r ht hq hg bias
  refine ⟨fun ss q h => ?_, ?_, VF.mpos⟩
  · unfold LastVertexTracks; rw [h]; exact VF.tracks
  · rw [VF.tracks]; exact helicity_vertex_to_rest st _

/-- **the recorded step IS the passage between helicity frames** (the "frame bookkeeping" link `Props/C02d.lean` left
open): the daughter's axes `(set_x[j], Y', Z')`, `set_z[j] = P·Z'`, form an orthonormal frame, and for EVERY four-vector
`q` the coordinates of the code's `rest_vector(r, q)` along the daughter's axes are `stepL` of its coordinates along
the mother's — provided the daughter is in the regular branch of `LorentzVector.boost`. -/
theorem route_step_is_rest_vector (X Y Z : V3) (hF : IsFrame X Y Z) (s : ℝ) (hs : eps ≤ s) (x : V3)
    (hx : crossUnit (V3.smul s Z) x = Y) (r : V4) (hok : StepOK (V3.smul s Z) r) (bias : ℝ)
    (hreg : eps < r.boostVector.norm2) :
    let out := angleZxZGetx (V3.smul s Z) x r.vect
    let st : Step := ⟨shiftAlpha out.alpha bias, out.beta, omegaP r⟩
    ∃ (Y' Z' : V3) (P : ℝ), IsFrame out.x2 Y' Z' ∧ 0 < P ∧ r.vect = V3.smul P Z' ∧
      ∀ q, coords out.x2 Y' Z' (r.restVector q) = stepL st (coords X Y Z q) := by
  intro out st
  obtain ⟨ht, hq, hg⟩ := hok
  obtain ⟨Y', Z', P, F', hP, hv, h⟩ := (vertex_facts X Y Z hF s hs x hx r ht hq hg bias).ex
  exact ⟨Y', Z', P, F', hP, hv, h hreg⟩

/-- the standard mother frame (coordinate axes): the vertex matrix maps `herm r` itself to `m·1` -/
theorem route_step_tracks_standard (r : V4) (hok : StepOK ⟨0, 0, 1⟩ r) (bias : ℝ) :
    let out := angleZxZGetx ⟨0, 0, 1⟩ ⟨1, 0, 0⟩ r.vect
    act (stepM ⟨shiftAlpha out.alpha bias, out.beta, omegaP r⟩) (herm r) = scalarM (Real.sqrt r.m2) := by
  intro out
  have e : V3.smul 1 (⟨0, 0, 1⟩ : V3) = ⟨0, 0, 1⟩ := one_smul' _
  have hx : crossUnit (V3.smul 1 ⟨0, 0, 1⟩) ⟨1, 0, 0⟩ = (⟨0, 1, 0⟩ : V3) :=
    crossUnit_eq _ _ _ 1 (by rw [cross_smul_left, lab_frame.czx]) (by simp [V3.norm2]) eps_le_one
  have h := (route_step_tracks _ _ _ lab_frame 1 eps_le_one ⟨1, 0, 0⟩ hx r (by rw [e]; exact hok) bias).2.1
  rw [e] at h
  have hc : coords ⟨1, 0, 0⟩ ⟨0, 1, 0⟩ ⟨0, 0, 1⟩ r = r := by
    ext <;> simp [coords, V3.dot, V4.vect]
  rw [hc] at h
  exact h

/-- non-vacuity of the single-vertex hypotheses: `r = (2, 1, 0, 0)` in the standard frame -/
example : StepOK ⟨0, 0, 1⟩ ⟨2, 1, 0, 0⟩ := by
  refine ⟨by norm_num, by simp only [V4.vect, V3.norm2]; norm_num, ?_⟩
  have : ((⟨0, 0, 1⟩ : V3).cross (V4.vect ⟨2, 1, 0, 0⟩)).norm = 1 := by
    simp [V3.cross, V4.vect, V3.norm, V3.norm2, ksqrt]
  rw [this]; exact eps_le_one

/-! ### (2) every decay path of every binary tree -/

/-- **`route_to_rest_of_cascade`** — for EVERY event `t` (any binary decay tree, any four-momenta, any input frame),
any base axes, and EVERY decay path to a final particle with input-frame momentum `p`: the route the cascade model
records along the path (`calSteps … |>.routeAt path`) satisfies `RouteToRest` for the top-frame momentum
`q = topCoords(p_top, bz, bx)(p)` and the mass `m = √(q·q) > 0`.  Hypotheses: the code's guards only. -/
theorem route_to_rest_of_cascade (t : MTree) (hd : MDecays t) (bz bx : V3) (h1 : eps ≤ (bz.cross bx).norm)
    (h2 : eps ≤ bz.norm) (hG : Guards (calChainBoost t) bz bx) (path : List Bool) (p : V4) (r : Route)
    (hp : MTree.leafAt t path = some p) (hr : (calSteps t bz bx).routeAt path = some r) :
    RouteToRest r (topCoords t.total bz bx p) (Real.sqrt (topCoords t.total bz bx p).m2) ∧
      0 < Real.sqrt (topCoords t.total bz bx p).m2 := by
  obtain ⟨F, hbz, hY⟩ := top_frame bz bx h1 h2
  have hss : (calSteps t bz bx).stepsAt path = some r.list := by
    unfold STree.routeAt at hr
    split at hr
    · rename_i s ss heq
      simp only [Option.some.injEq] at hr
      subst hr
      exact heq
    · simp at hr
  have hG' : Guards (chainBoost (inferMomentum t) (fun q => (inferMomentum t).p.restVector q))
      (V3.smul bz.norm (topZ bz)) bx := by rw [← hbz]; exact hG
  have hss' : (stepTree (chainBoost (inferMomentum t) (fun q => (inferMomentum t).p.restVector q))
      (V3.smul bz.norm (topZ bz)) bx).stepsAt path = some r.list := by rw [← hbz]; exact hss
  obtain ⟨m, hm, hrest⟩ := steps_general t hd (fun q => (inferMomentum t).p.restVector q)
    (topCoords t.total bz bx) (topX bz bx) (topY bz bx) (topZ bz) bz.norm bx [] F h2 hY
    (by intro q; rw [infer_p]; rfl) hG' path p r.list hp hss'
  rw [List.nil_append] at hrest
  have hmass := rest_mass_eq r.list _ m hm hrest
  rw [hmass]
  exact ⟨hrest, hm⟩

/-- A decay chain of an event, seen from one final particle: the event has total momentum `P` and base axes `(bz, bx)`
(shared by all chains), the final particle has input-frame momentum `p`; `tree` arranges the final momenta of the event
in the chain's topology, `path` leads to the particle, `route` is what the cascade model records along it, and the
code's guards hold along the chain. -/
structure ChainOf (P : V4) (bz bx : V3) (p : V4) where
  tree : MTree
  path : List Bool
  route : Route
  decays : MDecays tree
  total : tree.total = P
  leaf : MTree.leafAt tree path = some p
  steps : (calSteps tree bz bx).routeAt path = some route
  guards : Guards (calChainBoost tree) bz bx

/-- the base axes pass the two `cross_unit` guards of the top particle -/
def TopOK (bz bx : V3) : Prop := eps ≤ (bz.cross bx).norm ∧ eps ≤ bz.norm

theorem ChainOf.toRest {P : V4} {bz bx : V3} {p : V4} (c : ChainOf P bz bx p) (hT : TopOK bz bx) :
    RouteToRest c.route (topCoords P bz bx p) (Real.sqrt (topCoords P bz bx p).m2) ∧
      0 < Real.sqrt (topCoords P bz bx p).m2 := by
  have := route_to_rest_of_cascade c.tree c.decays bz bx hT.1 hT.2 c.guards c.path p c.route c.leaf c.steps
  rw [c.total] at this
  exact this

/-- **`convention_invariant` with hypotheses on the EVENT only**: final particle of any spin `2j = N ≤ 8`, arbitrary
spectator indices, any number of chains, any chain amplitudes; the references are two chains `ρ`, `ρ'` of the event;
every matrix is the one the code builds from the steps the cascade model records.  No `IsSU2`, no `RouteToRest`. -/
theorem convention_invariant_event {ι' κ : Type} [Fintype ι'] [DecidableEq ι'] [Fintype κ] (N : ℕ) (hN : N ≤ 8)
    (P : V4) (bz bx : V3) (hT : TopOK bz bx) (p : V4) (ρ ρ' : ChainOf P bz bx p) (chain : κ → ChainOf P bz bx p)
    (A : κ → ι' × Fin (N + 1) → ℂ) :
    density (fun k => alignOp N (alignR ρ'.route.b ρ'.route.r (chain k).route.r (chain k).route.b) *ᵥ A k) =
      density (fun k => alignOp N (alignR ρ.route.b ρ.route.r (chain k).route.r (chain k).route.b) *ᵥ A k) :=
  convention_invariant_routes N hN (topCoords P bz bx p) _ (ρ.toRest hT).2.ne' ρ.route ρ'.route
    (fun k => (chain k).route) (ρ.toRest hT).1 (ρ'.toRest hT).1 (fun k => ((chain k).toRest hT).1) A

/-- two aligned final particles (input-frame momenta `p₁`, `p₂`), each with its own pair of reference chains -/
theorem convention_invariant_two_event {ι' κ : Type} [Fintype ι'] [DecidableEq ι'] [Fintype κ] (N₁ N₂ : ℕ)
    (hN₁ : N₁ ≤ 8) (hN₂ : N₂ ≤ 8) (P : V4) (bz bx : V3) (hT : TopOK bz bx) (p₁ p₂ : V4)
    (ρ₁ ρ₁' : ChainOf P bz bx p₁) (ρ₂ ρ₂' : ChainOf P bz bx p₂)
    (chain₁ : κ → ChainOf P bz bx p₁) (chain₂ : κ → ChainOf P bz bx p₂)
    (A : κ → (ι' × Fin (N₁ + 1)) × Fin (N₂ + 1) → ℂ) :
    density (fun k => alignOp N₂ (alignR ρ₂'.route.b ρ₂'.route.r (chain₂ k).route.r (chain₂ k).route.b) *ᵥ
        (alignOp1 N₁ N₂ (alignR ρ₁'.route.b ρ₁'.route.r (chain₁ k).route.r (chain₁ k).route.b) *ᵥ A k)) =
      density (fun k => alignOp N₂ (alignR ρ₂.route.b ρ₂.route.r (chain₂ k).route.r (chain₂ k).route.b) *ᵥ
        (alignOp1 N₁ N₂ (alignR ρ₁.route.b ρ₁.route.r (chain₁ k).route.r (chain₁ k).route.b) *ᵥ A k)) :=
  convention_invariant_two_routes N₁ N₂ hN₁ hN₂ (topCoords P bz bx p₁) (topCoords P bz bx p₂) _ _
    (ρ₁.toRest hT).2.ne' (ρ₂.toRest hT).2.ne' ρ₁.route ρ₁'.route ρ₂.route ρ₂'.route
    (fun k => (chain₁ k).route) (fun k => (chain₂ k).route)
    (ρ₁.toRest hT).1 (ρ₁'.toRest hT).1 (fun k => ((chain₁ k).toRest hT).1)
    (ρ₂.toRest hT).1 (ρ₂'.toRest hT).1 (fun k => ((chain₂ k).toRest hT).1) A

/-- chain order and reference together (what reordering the configuration does) -/
theorem order_and_reference_invariant_event {ι' κ : Type} [Fintype ι'] [DecidableEq ι'] [Fintype κ]
    (σ : Equiv.Perm κ) (N : ℕ) (hN : N ≤ 8) (P : V4) (bz bx : V3) (hT : TopOK bz bx) (p : V4)
    (ρ ρ' : ChainOf P bz bx p) (chain : κ → ChainOf P bz bx p) (A : κ → ι' × Fin (N + 1) → ℂ) :
    density (fun k => alignOp N (alignR ρ'.route.b ρ'.route.r (chain (σ k)).route.r (chain (σ k)).route.b) *ᵥ
        A (σ k)) =
      density (fun k => alignOp N (alignR ρ.route.b ρ.route.r (chain k).route.r (chain k).route.b) *ᵥ A k) :=
  order_and_reference_invariant_routes σ N hN (topCoords P bz bx p) _ (ρ.toRest hT).2.ne' ρ.route ρ'.route
    (fun k => (chain k).route) (ρ.toRest hT).1 (ρ'.toRest hT).1 (fun k => ((chain k).toRest hT).1) A

/-! ### non-vacuity: the event `A → a b`, `p_a = (2, 1, 0, 0)`, `p_b = (2, −1, 0, 0)` with the coordinate axes as base
axes passes every guard, and both final particles have a chain (`ChainOf` is inhabited) -/

def exEvent : MTree := .node (.leaf ⟨2, 1, 0, 0⟩) (.leaf ⟨2, -1, 0, 0⟩)

theorem exEvent_total : exEvent.total = ⟨4, 0, 0, 0⟩ := by
  simp only [exEvent, MTree.total, V4.add]; norm_num

theorem exStepOK (c : ℝ) (hc : c = 1 ∨ c = -1) : StepOK ⟨0, 0, 1⟩ ⟨2, c, 0, 0⟩ := by
  have hcc : c * c = 1 := by rcases hc with rfl | rfl <;> norm_num
  refine ⟨by norm_num, by simp only [V4.vect, V3.norm2]; nlinarith, ?_⟩
  have : ((⟨0, 0, 1⟩ : V3).cross (V4.vect ⟨2, c, 0, 0⟩)).norm = 1 := by
    simp [V3.cross, V4.vect, V3.norm, V3.norm2, ksqrt, hcc]
  rw [this]; exact eps_le_one

theorem exTopOK : TopOK ⟨0, 0, 1⟩ ⟨1, 0, 0⟩ := by
  constructor
  · have : ((⟨0, 0, 1⟩ : V3).cross ⟨1, 0, 0⟩).norm = 1 := by simp [V3.cross, V3.norm, V3.norm2, ksqrt]
    rw [this]; exact eps_le_one
  · have : (⟨0, 0, 1⟩ : V3).norm = 1 := by simp [V3.norm, V3.norm2, ksqrt]
    rw [this]; exact eps_le_one

theorem exEvent_guards : Guards (calChainBoost exEvent) ⟨0, 0, 1⟩ ⟨1, 0, 0⟩ := by
  have hg : ∀ q : V4, (⟨4, 0, 0, 0⟩ : V4).restVector q = q := (good_top 4).inv
  have ht : (inferMomentum exEvent).p = ⟨4, 0, 0, 0⟩ := by rw [infer_p, exEvent_total]
  unfold calChainBoost
  simp only [ht]
  simp only [exEvent, inferMomentum, chainBoost, Guards, PTree.p, hg, RDecays, false_imp_iff, and_true]
  exact ⟨exTopOK.1, exStepOK 1 (Or.inl rfl), exStepOK (-1) (Or.inr rfl)⟩

example : MDecays exEvent ∧ TopOK ⟨0, 0, 1⟩ ⟨1, 0, 0⟩ ∧ Guards (calChainBoost exEvent) ⟨0, 0, 1⟩ ⟨1, 0, 0⟩ :=
  ⟨trivial, exTopOK, exEvent_guards⟩

/-- a chain for each of the two final particles -/
noncomputable def exChain (second : Bool) :
    ChainOf ⟨4, 0, 0, 0⟩ ⟨0, 0, 1⟩ ⟨1, 0, 0⟩ (if second then ⟨2, -1, 0, 0⟩ else ⟨2, 1, 0, 0⟩) where
  tree := exEvent
  path := [second]
  route := match (calSteps exEvent ⟨0, 0, 1⟩ ⟨1, 0, 0⟩) with
    | .node s1 s2 _ _ => (if second then s2 else s1, [])
    | .leaf => (⟨0, 0, 0⟩, [])
  decays := trivial
  total := exEvent_total
  leaf := by cases second <;> rfl
  steps := by cases second <;> rfl
  guards := exEvent_guards

example : Nonempty (ChainOf ⟨4, 0, 0, 0⟩ ⟨0, 0, 1⟩ ⟨1, 0, 0⟩ ⟨2, 1, 0, 0⟩) := ⟨exChain false⟩

/-! ### non-vacuity at depth 2: `A → R c`, `R → a b` with `R` in flight -/

noncomputable def exEvent2 : MTree := .node (.node (.leaf ⟨5 / 2, 3 / 2, 1, 0⟩) (.leaf ⟨5 / 2, 3 / 2, -1, 0⟩)) (.leaf ⟨5, -3, 0, 0⟩)

theorem ex2_gamma : gammaOf (9 / 25 : ℝ) = 5 / 4 := by
  unfold gammaOf ksqrt
  rw [show (1 - 9 / 25 : ℝ) = (4 / 5) ^ 2 by norm_num, Real.sqrt_sq (by norm_num)]; norm_num

theorem ex2_gamma2 : gamma2Of (9 / 25 : ℝ) = 25 / 36 := by
  unfold gamma2Of
  rw [if_pos (by unfold eps; norm_num), ex2_gamma]; norm_num

theorem ex2_rest (y : ℝ) : (⟨5, 3, 0, 0⟩ : V4).restVector ⟨5 / 2, 3 / 2, y, 0⟩ = ⟨2, 0, y, 0⟩ := by
  have hv : (V4.boostVector ⟨5, 3, 0, 0⟩).neg = ⟨-(3 / 5), 0, 0⟩ := by
    simp [V4.boostVector, V3.neg]
  have hn : (⟨-(3 / 5), 0, 0⟩ : V3).norm2 = 9 / 25 := by simp only [V3.norm2]; norm_num
  unfold V4.restVector
  rw [hv]
  simp only [V4.boost, hn, ex2_gamma, ex2_gamma2, V3.dot, V4.vect]
  norm_num

theorem ex2_norm (a : ℝ) (ha : 0 ≤ a) (v : V3) (h : v.norm2 = a * a) : v.norm = a := by
  unfold V3.norm ksqrt; rw [h]; exact Real.sqrt_mul_self ha

theorem ex2_x2 : (angleZxZGetx ⟨0, 0, 1⟩ ⟨1, 0, 0⟩ ⟨3, 0, 0⟩).x2 = ⟨0, 0, -1⟩ := by
  have e1 : V3.smul 1 (⟨0, 0, 1⟩ : V3) = ⟨0, 0, 1⟩ := one_smul' _
  have hd : V3.smul 3 (dir ⟨1, 0, 0⟩ ⟨0, 1, 0⟩ ⟨0, 0, 1⟩ (Real.pi / 2) 0) = ⟨3, 0, 0⟩ := by
    unfold dir; ext <;> simp [V3.smul, V3.add]
  have h := (angle_step_scaled _ _ _ lab_frame 1 3 (Real.pi / 2) 0 eps_le_one (by norm_num)
    (by positivity) (by linarith [Real.pi_pos]) (by linarith [Real.pi_pos]) Real.pi_pos.le
    (by rw [Real.sin_pi_div_two]; unfold eps; norm_num)).2.2
  rw [e1, hd] at h
  rw [h]
  unfold yNew dir
  ext <;> simp [V3.smul, V3.add, V3.cross]

theorem ex2_guards : Guards (calChainBoost exEvent2) ⟨0, 0, 1⟩ ⟨1, 0, 0⟩ := by
  have hg : ∀ q : V4, (⟨10, 0, 0, 0⟩ : V4).restVector q = q := (good_top 10).inv
  have htot : exEvent2.total = ⟨10, 0, 0, 0⟩ := by
    simp only [exEvent2, MTree.total, V4.add]; norm_num
  have ht : (inferMomentum exEvent2).p = ⟨10, 0, 0, 0⟩ := by rw [infer_p, htot]
  have hR : (MTree.node (.leaf ⟨5 / 2, 3 / 2, 1, 0⟩) (.leaf ⟨5 / 2, 3 / 2, -1, 0⟩)).total = ⟨5, 3, 0, 0⟩ := by
    simp only [MTree.total, V4.add]; norm_num
  unfold calChainBoost
  simp only [ht]
  simp only [exEvent2, inferMomentum, chainBoost, Guards, PTree.p, hg, RDecays, false_imp_iff, and_true, true_and,
    forall_const, MTree.total]
  have hRa : (⟨5 / 2, 3 / 2, 1, 0⟩ : V4).add ⟨5 / 2, 3 / 2, -1, 0⟩ = ⟨5, 3, 0, 0⟩ := by
    simp only [V4.add]; norm_num
  simp only [StepOK, hRa, ex2_rest, V4.vect, ex2_x2]
  have n1 : ((⟨0, 0, 1⟩ : V3).cross ⟨3, 0, 0⟩).norm = 3 :=
    ex2_norm 3 (by norm_num) _ (by simp [V3.cross, V3.norm2])
  have n2 : ((⟨0, 0, 1⟩ : V3).cross ⟨-3, 0, 0⟩).norm = 3 :=
    ex2_norm 3 (by norm_num) _ (by simp [V3.cross, V3.norm2])
  have n3 : ((⟨3, 0, 0⟩ : V3).cross ⟨0, 0, -1⟩).norm = 3 :=
    ex2_norm 3 (by norm_num) _ (by simp [V3.cross, V3.norm2])
  have n4 : ((⟨3, 0, 0⟩ : V3).cross ⟨0, 1, 0⟩).norm = 3 :=
    ex2_norm 3 (by norm_num) _ (by simp [V3.cross, V3.norm2])
  have n5 : ((⟨3, 0, 0⟩ : V3).cross ⟨0, -1, 0⟩).norm = 3 :=
    ex2_norm 3 (by norm_num) _ (by simp [V3.cross, V3.norm2])
  have e3 : eps ≤ (3 : ℝ) := by unfold eps; norm_num
  refine ⟨exTopOK.1, ⟨by norm_num, by simp only [V3.norm2]; norm_num, by rw [n1]; exact e3⟩,
    ⟨by norm_num, by simp only [V3.norm2]; norm_num, by rw [n2]; exact e3⟩, ?_, ?_, ?_, ?_⟩
  · simp only [V4.boostVector, V3.norm2]; unfold eps; norm_num
  · rw [n3]; exact e3
  · exact ⟨by norm_num, by simp only [V3.norm2]; norm_num, by rw [n4]; exact e3⟩
  · exact ⟨by norm_num, by simp only [V3.norm2]; norm_num, by rw [n5]; exact e3⟩

theorem ex2_total : exEvent2.total = ⟨10, 0, 0, 0⟩ := by
  simp only [exEvent2, MTree.total, V4.add]; norm_num

/-- the chain `A → R c, R → a b` seen from the final particle `a` (a route of TWO vertices) -/
noncomputable def exChain2 : ChainOf ⟨10, 0, 0, 0⟩ ⟨0, 0, 1⟩ ⟨1, 0, 0⟩ ⟨5 / 2, 3 / 2, 1, 0⟩ where
  tree := exEvent2
  path := [false, false]
  route := match (calSteps exEvent2 ⟨0, 0, 1⟩ ⟨1, 0, 0⟩) with
    | .node s1 _ (.node t1 _ _ _) _ => (s1, [t1])
    | _ => (⟨0, 0, 0⟩, [])
  decays := trivial
  total := ex2_total
  leaf := rfl
  steps := rfl
  guards := ex2_guards

example : exChain2.route.list.length = 2 := rfl


/-! ### rule 2 (`align_ref = "center_mass"`) -/

theorem omegaP_neg (r : V4) : omegaP r.neg = omegaP r := by
  unfold omegaP gammaP
  have : r.neg.boostVector.norm2 = r.boostVector.norm2 := by
    simp only [V4.neg, V4.boostVector, V3.norm2]; ring
  simp only [this]

theorem coords_m2 {X Y Z : V3} (hF : IsFrame X Y Z) (r : V4) : (coords X Y Z r).m2 = r.m2 := by
  have := coords3_norm2 hF r.vect
  simp only [coords3, V3.norm2, V4.vect] at this
  simp only [V4.m2, V4.dot, coords, V4.vect]
  linarith

/-- **the angles of `aligned_angle_ref_rule2` are the polar form of the top-frame momentum** (base x-axis `(1,0,0)`
as in the code; no range shift; `omega` of the space-reflected momentum) -/
theorem rule2_polar (P : V4) (bz : V3) (hT : TopOK bz ⟨1, 0, 0⟩) (p : V4) (hok : StepOK bz (P.restVector p)) :
    topCoords P bz ⟨1, 0, 0⟩ p = polar (Real.sqrt (topCoords P bz ⟨1, 0, 0⟩ p).m2) (rule2Step P bz p).alpha
      (rule2Step P bz p).beta (rule2Step P bz p).omega := by
  obtain ⟨F, hbz, hY⟩ := top_frame bz ⟨1, 0, 0⟩ hT.1 hT.2
  have hok' : StepOK (V3.smul bz.norm (topZ bz)) (P.restVector p) := by rw [← hbz]; exact hok
  obtain ⟨ht, hq, hg⟩ := hok'
  have VF := vertex_facts _ _ _ F bz.norm hT.2 ⟨1, 0, 0⟩ hY (P.restVector p) ht hq hg 0
  have h := VF.tracks
  rw [← hbz] at h
  obtain ⟨hc, hs⟩ := shiftAlpha_cos_sin (angleZxZGetx bz ⟨1, 0, 0⟩ (P.restVector p).vect).alpha 0
  simp only at h
  rw [polar_congr _ _ _ _ _ hc hs] at h
  unfold topCoords rule2Step
  simp only
  rw [omegaP_neg, coords_m2 F]
  exact h

/-- rule 1 → rule 2 with hypotheses on the EVENT only: the rule-2 reference `(1, r⁻¹·Boost_z(ω)·r)` is built from the
angles `rule2Step` the code computes (`base_x = (1,0,0)`), the rule-1 reference and all chains are chains of the event -/
theorem convention_invariant_rule2_event {ι' κ : Type} [Fintype ι'] [DecidableEq ι'] [Fintype κ] (N : ℕ)
    (hN : N ≤ 8) (P : V4) (bz : V3) (hT : TopOK bz ⟨1, 0, 0⟩) (p : V4) (hok : StepOK bz (P.restVector p))
    (ρ : ChainOf P bz ⟨1, 0, 0⟩ p) (chain : κ → ChainOf P bz ⟨1, 0, 0⟩ p) (A : κ → ι' × Fin (N + 1) → ℂ) :
    density (fun k => alignOp N (alignR M2.one
        (rule2R (rule2Step P bz p).alpha (rule2Step P bz p).beta (rule2Step P bz p).omega)
        (chain k).route.r (chain k).route.b) *ᵥ A k) =
      density (fun k => alignOp N (alignR ρ.route.b ρ.route.r (chain k).route.r (chain k).route.b) *ᵥ A k) := by
  have hpol := rule2_polar P bz hT p hok
  obtain ⟨hρ1, hρ2⟩ := ρ.toRest hT
  have hk : ∀ k, RouteToRest (chain k).route (topCoords P bz ⟨1, 0, 0⟩ p)
      (Real.sqrt (topCoords P bz ⟨1, 0, 0⟩ p).m2) := fun k => ((chain k).toRest hT).1
  generalize Real.sqrt (topCoords P bz ⟨1, 0, 0⟩ p).m2 = m at hpol hρ1 hρ2 hk
  rw [hpol] at hρ1 hk
  exact convention_invariant_rule2_routes N hN m _ _ _ hρ2.ne' ρ.route (fun k => (chain k).route) hρ1 hk A

/-! ### `center_mass` and `random_z` are instances -/

/-- `center_mass=True`: `struct_momentum` first replaces every final momentum by `rest_vector(p_top, p)`; the theorem
above applies to that event verbatim (any event is allowed) -/
theorem route_to_rest_center_mass (t : MTree) (hd : MDecays t) (bz bx : V3) (hT : TopOK bz bx)
    (hG : Guards (calChainBoost (t.map (fun q => t.total.restVector q))) bz bx) (path : List Bool) (p : V4) (r : Route)
    (hp : MTree.leafAt (t.map (fun q => t.total.restVector q)) path = some p)
    (hr : (calSteps (t.map (fun q => t.total.restVector q)) bz bx).routeAt path = some r) :
    ∃ q m, 0 < m ∧ RouteToRest r q m := by
  have hd' : MDecays (t.map (fun q => t.total.restVector q)) := by
    cases t with
    | leaf _ => exact hd.elim
    | node _ _ => trivial
  exact ⟨_, _, (route_to_rest_of_cascade _ hd' bz bx hT.1 hT.2 hG path p r hp hr).2,
    (route_to_rest_of_cascade _ hd' bz bx hT.1 hT.2 hG path p r hp hr).1⟩

/-- `random_z=True`: `base_z = p3(top)` (or `(0,0,1)` when the top particle is slower than `1e-5`), `base_x = (1,0,0)` -/
theorem route_to_rest_random_z (t : MTree) (hd : MDecays t) (hT : TopOK (baseZ t.total) ⟨1, 0, 0⟩)
    (hG : Guards (calChainBoost t) (baseZ t.total) ⟨1, 0, 0⟩) (path : List Bool) (p : V4) (r : Route)
    (hp : MTree.leafAt t path = some p) (hr : (calSteps t (baseZ t.total) ⟨1, 0, 0⟩).routeAt path = some r) :
    RouteToRest r (topCoords t.total (baseZ t.total) ⟨1, 0, 0⟩ p)
      (Real.sqrt (topCoords t.total (baseZ t.total) ⟨1, 0, 0⟩ p).m2) :=
  (route_to_rest_of_cascade t hd _ _ hT.1 hT.2 hG path p r hp hr).1

end TfPwaV.C02
