import TfPwaV.Proofs.PhspOpt
import TfPwaV.Props.C10
import TfPwaV.Props.C20f
/-!
# C10 (part c) — every keyword path of `generate`, the recursion of the phase-space weight, accept/reject pointwise

Theorems over ℝ about `TfPwaV.PhspR` (ℝ-instance of `templates/Phsp.lean.in`; the Float instance of the same text
is run against `PhaseSpaceGenerator.generate(N, force, flatten, importances)`, `applications.gen_mc` and
`ChainGenerator.generate` on the recorded stream of `tf.random.uniform` calls on every check).

* counting (`generateOpt` = `generate` with all its keywords): exactly `N` events whenever `force`, or
  `flatten=False`, or a two-body decay; at most `N` (the accepted part of ONE batch) for `force=False`; `N` weights
  for `flatten=False`; `N` events from `ChainGenerator.generate`; `gen_mc` is the row-major flattening of `N` events.
* the weight numerator `Π q_i` obeys the phase-space recursion
  `R_n(m0; m_1, rest; …, M) = R_{n-1}(M; rest; …) · q(m0; M, m_1)` for every `n` and equals the textbook recursive
  spectrum `lipsR`.
* accept/reject is a pointwise thinning with probability `weight`: accepted iff `u < weight`; because
  `0 ≤ weight ≤ 1` on everything `generate_mass` produces, of `K` grid uniforms exactly `⌈K · weight⌉` accept, so
  (proposal density) × (accepted fraction) → `C · Π q_i` (`accepted_density`).
What is not proved: that `tf.random.uniform` is uniform and independent; termination of the refill loop.
-/
open TfPwaV.ScalarR
namespace TfPwaV.C10
open TfPwaV.PhspR TfPwaV.KinR

/-! ## (2) exact count on every path -/

/-- `generate(N)` with its default keywords is the `force=True, flatten=True` instance of the general model: the
theorems about `generate` (`exact_count`, …) are theorems about this path of `generateOpt`.  All inputs. -/
theorem generateOpt_default (r32 : ℝ → ℝ) (guess : Nat → Nat → Nat → Nat) (m0 : ℝ) (mass : List ℝ) (imp : Bool)
    (N : Nat) (ds : List (List ℝ)) :
    generateOpt r32 m0 mass guess imp true true N ds
      = (generate r32 m0 mass guess imp N ds).map (fun r => ([], r.1, r.2.1, r.2.2)) := by
  unfold generateOpt generate
  by_cases h2 : mass.length = 2
  · simp only [h2, or_true, if_true, Nat.sub_self, drawMany, rowsOf_nil, List.map_replicate, generateMass_nil]
    cases momentaB r32 m0 mass (List.replicate N []) ds with
    | none => rfl
    | some q => rfl
  · simp only [h2, Bool.true_eq_false, or_self, if_false, if_true]
    cases batch r32 m0 mass imp N ds with
    | none => rfl
    | some q =>
      obtain ⟨acc, ds1⟩ := q
      simp only
      cases refill r32 m0 mass guess N ds1.length acc acc.length N ds1 with
      | none => rfl
      | some q2 =>
        obtain ⟨acc2, nT, ds2⟩ := q2
        simp only
        cases momentaB r32 m0 mass (List.take N acc2) ds2 with
        | none => rfl
        | some q3 => rfl

/-- **Exact count on every keyword path**: whenever `generate(N, force, flatten, importances)` returns,
* it returns exactly `N` events if `force` (default), or `flatten=False`, or the decay is two-body;
* it never returns more than `N` events (with `force=False` the accepted part of the one batch of `N` proposals);
* with `flatten=False` it returns exactly `N` weights, otherwise none.
For every rounding mode, refill guess, `importances` flag, stream of draws. -/
theorem exact_count_all_paths (r32 : ℝ → ℝ) (guess : Nat → Nat → Nat → Nat) (m0 : ℝ) (mass : List ℝ)
    (imp force flatten : Bool) (N : Nat) (ds ds' : List (List ℝ)) (w : List ℝ) (ev : List (List V4)) (nTotal : Nat)
    (h : generateOpt r32 m0 mass guess imp force flatten N ds = some (w, ev, nTotal, ds')) :
    ((force = true ∨ flatten = false ∨ mass.length = 2) → ev.length = N) ∧ ev.length ≤ N ∧
      (flatten = false → w.length = N) ∧ (flatten = true → w = []) := by
  unfold generateOpt at h
  split at h
  · -- no accept/reject: N proposals, N events
    cases hm : drawMany N (mass.length - 2) ds with
    | none => rw [hm] at h; simp at h
    | some q =>
      obtain ⟨cols, ds1⟩ := q
      rw [hm] at h
      simp only at h
      cases hb : momentaB r32 m0 mass ((rowsOf N cols).map (generateMass m0 mass)) ds1 with
      | none => rw [hb] at h; simp at h
      | some q2 =>
        obtain ⟨ev1, ds2⟩ := q2
        rw [hb] at h
        simp only [Option.some.injEq, Prod.mk.injEq] at h
        obtain ⟨hw, hev, _, _⟩ := h
        subst hev
        have hlen : ev1.length = N := by
          rw [momentaB_length hb, List.length_map, rowsOf_length _ _ (drawMany_lengths _ _ _ _ _ hm).1]
        refine ⟨fun _ => hlen, le_of_eq hlen, ?_, ?_⟩
        · intro hf
          subst hw
          simp only [hf, Bool.false_eq_true, if_false, List.length_map]
          exact rowsOf_length _ _ (drawMany_lengths _ _ _ _ _ hm).1
        · intro hf
          subst hw
          simp [hf]
  · rename_i hcase
    have hflat : flatten = true := by
      cases flatten with
      | true => rfl
      | false => exact absurd (Or.inl rfl) hcase
    have hn2 : mass.length ≠ 2 := fun hh => hcase (Or.inr hh)
    cases hb : batch r32 m0 mass imp N ds with
    | none => rw [hb] at h; simp at h
    | some q =>
      obtain ⟨acc, ds1⟩ := q
      rw [hb] at h
      simp only at h
      cases force with
      | false =>
        simp only [Bool.false_eq_true, if_false] at h
        cases hm : momentaB r32 m0 mass acc ds1 with
        | none => rw [hm] at h; simp at h
        | some q3 =>
          obtain ⟨ev1, ds3⟩ := q3
          rw [hm] at h
          simp only [Option.some.injEq, Prod.mk.injEq] at h
          obtain ⟨hw, hev, _, _⟩ := h
          subst hev; subst hw
          have hle : ev1.length ≤ N := by rw [momentaB_length hm]; exact batch_length_le hb
          refine ⟨?_, hle, fun hf => ?_, fun _ => rfl⟩
          · rintro (hh | hh | hh)
            · simp at hh
            · rw [hflat] at hh; simp at hh
            · exact absurd hh hn2
          · rw [hflat] at hf; simp at hf
      | true =>
        simp only [if_true] at h
        cases hr : refill r32 m0 mass guess N ds1.length acc acc.length N ds1 with
        | none => rw [hr] at h; simp at h
        | some q2 =>
          obtain ⟨acc2, nT, ds2⟩ := q2
          rw [hr] at h
          simp only at h
          cases hm : momentaB r32 m0 mass (acc2.take N) ds2 with
          | none => rw [hm] at h; simp at h
          | some q3 =>
            obtain ⟨ev1, ds3⟩ := q3
            rw [hm] at h
            simp only [Option.some.injEq, Prod.mk.injEq] at h
            obtain ⟨hw, hev, _, _⟩ := h
            subst hev; subst hw
            have hlen : ev1.length = N := by
              rw [momentaB_length hm, List.length_take]
              have := refill_length _ _ _ _ _ _ _ _ hr rfl
              omega
            exact ⟨fun _ => hlen, le_of_eq hlen, fun hf => by rw [hflat] at hf; simp at hf, fun _ => rfl⟩


-- non-vacuity: `force=False` on a three-body decay whose single proposal is rejected (accept draw 2 > weight) returns
-- zero events (the four momentum draws then have shape [0])
example : ∃ nT ds', generateOpt id 1 [0.1, 0.2, 0.3] (fun _ _ _ => 1) true false true 1 [[0.5], [2], [], [], [], []]
    = some ([], [], nT, ds') := by
  refine ⟨1, [], ?_⟩
  have hw : ¬ (2 < getWeight id 1 [0.1, 0.2, 0.3] true (generateMass 1 [0.1, 0.2, 0.3] [0.5])) := by
    have := (weight_le_one_generated 1 [0.1, 0.2, 0.3] [0.5] true
      (by intro m hm; simp at hm; rcases hm with h | h | h <;> rw [h] <;> norm_num)
      (by simp [teCm]; norm_num) (by intro u hu; simp at hu; rw [hu]; norm_num) rfl).2
    intro hgt; linarith
  simp [generateOpt, batch, drawMany, draw, rowsOf, flattenMass, momentaB, hw]

/-- **`ChainGenerator.generate(N)` returns exactly `N` events** whenever it returns (every nesting, every stream). -/
theorem exact_count_chain (r32 : ℝ → ℝ) (guess : Nat → Nat → Nat → Nat) (N : Nat) (t : MTree) (ds : List (List ℝ))
    (evs : List (List V4)) (h : chainGenerate r32 guess N t ds = some evs) : evs.length = N := by
  unfold chainGenerate at h
  cases hc : chainRun r32 guess N t.gens ds with
  | none => rw [hc] at h; simp at h
  | some q =>
    obtain ⟨outs, ds1⟩ := q
    rw [hc] at h
    simp only at h
    rw [mapM_option_length _ _ _ h, List.length_range]

/-- … and every generator of the chain delivered exactly `N` events to `_restruct_pi` (one `generate(N)` per node,
in `_get_generator` order). -/
theorem chain_run_counts (r32 : ℝ → ℝ) (guess : Nat → Nat → Nat → Nat) (N : Nat) : ∀ (gs : List (ℝ × List ℝ))
    (ds ds' : List (List ℝ)) (outs : List (List (List V4))),
    chainRun r32 guess N gs ds = some (outs, ds') → outs.length = gs.length ∧ ∀ o ∈ outs, o.length = N := by
  intro gs
  induction gs with
  | nil =>
    intro ds ds' outs h
    simp only [chainRun, Option.some.injEq, Prod.mk.injEq] at h
    obtain ⟨h1, _⟩ := h
    subst h1
    simp
  | cons g gs ih =>
    intro ds ds' outs h
    simp only [chainRun] at h
    cases hg : generate r32 g.1 g.2 guess true N ds with
    | none => rw [hg] at h; simp at h
    | some q =>
      obtain ⟨ev, nT, ds1⟩ := q
      rw [hg] at h
      simp only at h
      cases hr : chainRun r32 guess N gs ds1 with
      | none => rw [hr] at h; simp at h
      | some q2 =>
        obtain ⟨evs, ds2⟩ := q2
        rw [hr] at h
        simp only [Option.some.injEq, Prod.mk.injEq] at h
        obtain ⟨h1, _⟩ := h
        subst h1
        obtain ⟨ihl, ihn⟩ := ih ds1 ds2 evs hr
        refine ⟨by simp [ihl], ?_⟩
        intro o ho
        simp only [List.mem_cons] at ho
        rcases ho with ho | ho
        · rw [ho]; exact exact_count r32 guess g.1 g.2 true N ds ds1 ev nT hg
        · exact ihn o ho

/-- `applications.gen_mc(m0, mass, N)`: the returned array is the row-major flattening (row `e·n + i` = daughter `i`
of event `e`) of exactly `N` events of `generate(N)`. -/
theorem gen_mc_rows (r32 : ℝ → ℝ) (guess : Nat → Nat → Nat → Nat) (m0 : ℝ) (mass : List ℝ) (N : Nat)
    (ds : List (List ℝ)) (rows : List V4) (h : genMc r32 m0 mass guess N ds = some rows) :
    ∃ ev nT ds', generate r32 m0 mass guess true N ds = some (ev, nT, ds') ∧ ev.length = N ∧ rows = ev.flatten := by
  unfold genMc at h
  cases hg : generate r32 m0 mass guess true N ds with
  | none => rw [hg] at h; simp at h
  | some q =>
    obtain ⟨ev, nT, ds1⟩ := q
    rw [hg] at h
    simp only [Option.some.injEq] at h
    exact ⟨ev, nT, ds1, rfl, exact_count r32 guess m0 mass true N ds ds1 ev nT hg, h.symm⟩

/-! ## (3) the weight is the recursive phase-space spectrum -/

/-- **Recursion of the phase-space weight**, every `n ≥ 3`: the product of break-up momenta of the decay
`m0 → m1, rest` at the mass point `(…, M)` (`M` = mass of the system `rest`) is the product for the `(n-1)`-body decay
`M → rest` at the remaining mass point, times `q(m0; M, m1)` — `dΦ_n(m0) = dΦ_{n-1}(M) · q(m0; M, m1) dM`.
All real masses. -/
theorem weight_recursion (m0 m1 M : ℝ) (rest ms : List ℝ) (hlen : ms.length + 2 = rest.length) :
    qProd m0 (m1 :: rest) (ms ++ [M]) = qProd M rest ms * getP m0 M m1 :=
  qProd_rec m0 m1 M rest ms hlen

/-- `qProd` is the numerator of the acceptance weight: `get_weight(ms, importances=False) = qProd / wtMax`. -/
theorem weight_is_qProd (m0 : ℝ) (mass ms : List ℝ) :
    getWeight id m0 mass false ms = qProd m0 mass ms / wtMax id m0 mass := by
  simp [getWeight, qProd]

/-- … hence, by induction on the number of bodies, it IS the textbook recursive n-body spectrum `lipsR`
(`R_2 = q`, `R_n(M; a, rest) = R_{n-1}(M'; rest) · q(M; M', a)`), for every `n ≥ 2` and every mass point. -/
theorem weight_is_lips : ∀ (mass : List ℝ) (m0 : ℝ) (ms : List ℝ), ms.length + 2 = mass.length →
    qProd m0 mass ms = lipsR m0 mass ms.reverse := by
  intro mass
  induction mass with
  | nil => intro m0 ms h; simp at h
  | cons a rest ih =>
    intro m0 ms h
    rcases List.eq_nil_or_concat ms with hnil | ⟨ms', M, hms⟩
    · subst hnil
      match rest, h with
      | [b], _ => simp [qProd_two, lipsR]
    · subst hms
      have hl : ms'.length + 2 = rest.length := by simp at h; omega
      rw [List.concat_eq_append, qProd_rec m0 a M rest ms' hl, ih M ms' hl, List.reverse_append]
      simp only [List.reverse_cons, List.reverse_nil, List.nil_append, List.singleton_append]
      cases rest with
      | nil => simp at hl
      | cons b rest' =>
        cases rest' with
        | nil => simp at hl
        | cons c rest'' => simp [lipsR]

/-- **Flat density in recursive form**: proposal density × acceptance weight (with the importance factor) is a
constant times the textbook recursive spectrum. -/
theorem flat_density_lips (m0 : ℝ) (mass ms : List ℝ) (hQ : teCm m0 mass ≠ 0) (hlen : ms.length + 2 = mass.length)
    (hok : PropOK m0 mass ms) :
    proposal m0 mass ms * getWeight id m0 mass true ms =
      (1 / (teCm m0 mass ^ ms.length * wtMax id m0 mass)) * lipsR m0 mass ms.reverse := by
  rw [flat_density m0 mass ms hQ hlen hok, ← weight_is_lips mass m0 ms hlen]
  rfl

/-! ## (3b) accept/reject is a pointwise thinning with probability `weight` -/

/-- `flatten_mass` keeps a mass point iff its uniform number is below its weight — all weights, all uniforms. -/
theorem accept_iff (wf : List ℝ → ℝ) (row : List ℝ) (u : ℝ) :
    flattenMass wf [row] [u] = if u < wf row then [row] else [] := flattenMass_single wf row u

/-- **Accepted fraction = weight**: a mass point produced by `generate_mass` from uniforms in [0,1], offered with the
`K` grid uniforms `0, 1/K, …, (K-1)/K`, is accepted exactly `⌈K · weight⌉` times — because `0 ≤ weight ≤ 1`
(`weight_le_one_generated`); a weight above 1 would saturate the count at `K` and distort the density.  Every number
of bodies, every `K ≥ 1`, with or without importance factor. -/
theorem accept_count_grid (m0 : ℝ) (mass us : List ℝ) (imp : Bool) (hpos : ∀ m ∈ mass, 0 ≤ m)
    (hQ : 0 < teCm m0 mass) (hu : ∀ u ∈ us, 0 ≤ u ∧ u ≤ 1) (hlen : us.length + 2 = mass.length) (K : Nat) (hK : 0 < K) :
    (flattenMass (getWeight id m0 mass imp) (List.replicate K (generateMass m0 mass us)) (TfPwaV.C20f.grid K)).length
      = Nat.ceil ((K : ℝ) * getWeight id m0 mass imp (generateMass m0 mass us)) := by
  obtain ⟨_, h1⟩ := weight_le_one_generated m0 mass us imp hpos hQ hu hlen
  have hl := flattenMass_replicate_length (getWeight id m0 mass imp) (generateMass m0 mass us) (TfPwaV.C20f.grid K)
  rw [TfPwaV.C20f.grid_length] at hl
  rw [hl]
  exact TfPwaV.C20f.grid_count K hK _ h1 _ (fun j => rfl)

/-- **Accepted density ∝ Π q_i**: (proposal density) × (accepted fraction on the `K`-grid) lies within
`proposal / K` of `C · lipsR` with `C = 1/(Q^{n-2} wtMax)` — the accepted mass points follow the recursive
phase-space spectrum in the limit `K → ∞`.  Needs positive proposal density (non-degenerate intervals). -/
theorem accepted_density (m0 : ℝ) (mass us : List ℝ) (hpos : ∀ m ∈ mass, 0 ≤ m) (hQ : 0 < teCm m0 mass)
    (hu : ∀ u ∈ us, 0 ≤ u ∧ u ≤ 1) (hlen : us.length + 2 = mass.length)
    (hok : PropOK m0 mass (generateMass m0 mass us)) (hprop : 0 ≤ proposal m0 mass (generateMass m0 mass us))
    (hmlen : (generateMass m0 mass us).length = us.length) (K : Nat) (hK : 0 < K) :
    let ms := generateMass m0 mass us
    let frac := ((flattenMass (getWeight id m0 mass true) (List.replicate K ms) (TfPwaV.C20f.grid K)).length : ℝ) / (K : ℝ)
    let target := (1 / (teCm m0 mass ^ ms.length * wtMax id m0 mass)) * lipsR m0 mass ms.reverse
    target ≤ proposal m0 mass ms * frac ∧ proposal m0 mass ms * frac ≤ target + proposal m0 mass ms / (K : ℝ) := by
  intro ms frac target
  have hcount := accept_count_grid m0 mass us true hpos hQ hu hlen K hK
  obtain ⟨hw0, _⟩ := weight_le_one_generated m0 mass us true hpos hQ hu hlen
  obtain ⟨hf1, hf2⟩ := TfPwaV.C20f.accept_fraction K hK (getWeight id m0 mass true ms) hw0
  have hfrac : frac = (Nat.ceil ((K : ℝ) * getWeight id m0 mass true ms) : ℝ) / (K : ℝ) := by
    simp only [frac]; rw [hcount]
  have htarget : target = proposal m0 mass ms * getWeight id m0 mass true ms :=
    (flat_density_lips m0 mass ms (ne_of_gt hQ) (by rw [hmlen]; exact hlen) hok).symm
  rw [hfrac, htarget]
  constructor
  · exact mul_le_mul_of_nonneg_left hf1 hprop
  · have := mul_le_mul_of_nonneg_left hf2.le hprop
    calc _ ≤ proposal m0 mass ms * (getWeight id m0 mass true ms + 1 / (K : ℝ)) := this
      _ = _ := by ring

/-- every event `generate_momentum` returns for a batch of mass points is the per-event function `generateMomentum`
(the subject of `momentum_sum` / `on_shell`, `Props/C10b.lean`) of one of these mass points -/
theorem momenta_are_per_event (r32 : ℝ → ℝ) (m0 : ℝ) (mass : List ℝ) (rows : List (List ℝ)) (ds ds' : List (List ℝ))
    (ev : List (List V4)) (h : momentaB r32 m0 mass rows ds = some (ev, ds')) :
    ∀ e ∈ ev, ∃ ms ∈ rows, ∃ us : List ℝ, e = generateMomentum r32 m0 mass ms (pairUp us) := by
  unfold momentaB at h
  cases hm : drawMany rows.length (2 * (mass.length - 1)) ds with
  | none => rw [hm] at h; simp at h
  | some q =>
    obtain ⟨cols, ds1⟩ := q
    rw [hm] at h
    simp only [Option.some.injEq, Prod.mk.injEq] at h
    obtain ⟨h1, _⟩ := h
    subst h1
    intro e he
    obtain ⟨ms, hms, us, _, heq⟩ := mem_zipWith' _ _ _ e he
    exact ⟨ms, hms, us, heq⟩

/-- `flatten_mass` returns only proposed mass points, each with an accept draw below its weight (all inputs) -/
theorem accepted_rows (wf : List ℝ → ℝ) (rows : List (List ℝ)) (rnd : List ℝ) :
    ∀ row ∈ flattenMass wf rows rnd, row ∈ rows ∧ ∃ u ∈ rnd, u < wf row := by
  intro row h
  unfold flattenMass at h
  simp only [List.mem_filterMap] at h
  obtain ⟨⟨a, u⟩, hz, hsome⟩ := h
  simp only at hsome
  split at hsome
  · rename_i hlt
    simp only [Option.some.injEq] at hsome
    subst hsome
    exact ⟨(List.of_mem_zip hz).1, u, (List.of_mem_zip hz).2, hlt⟩
  · simp at hsome

-- non-vacuity of `accepted_density`: 1.0 → 0.1 0.2 0 0.3 with the uniforms (0.25, 0.5)
-- (`hpos`, `hQ`, `hu`, `hlen` are those of `weight_le_one_generated`, shown satisfiable in `Props/C10.lean`)
example : PropOK 1.0 [0.1, 0.2, 0, 0.3] (generateMass 1.0 [0.1, 0.2, 0, 0.3] [0.25, 0.5]) ∧
    0 ≤ proposal 1.0 [0.1, 0.2, 0, 0.3] (generateMass 1.0 [0.1, 0.2, 0, 0.3] [0.25, 0.5]) ∧
    (generateMass 1.0 [0.1, 0.2, 0, 0.3] [0.25, 0.5]).length = ([0.25, 0.5] : List ℝ).length := by
  refine ⟨?_, ?_, ?_⟩
  · simp [generateMass, generateMassAux, PropOK, PropOKAux, sm0, sumMass]; norm_num
  · simp [generateMass, generateMassAux, proposal, proposalAux, sm0, sumMass]; norm_num
  · simp [generateMass, generateMassAux]

-- non-vacuity of `weight_recursion` / `weight_is_lips`: a 4-body decay
example : ([0.4] : List ℝ).length + 2 = ([0.2, 0, 0.3] : List ℝ).length := rfl

end TfPwaV.C10
