import TfPwaV.Proofs.Deriv
import Mathlib.Analysis.Calculus.FDeriv.Prod
import Mathlib.Analysis.Calculus.FDeriv.Pi
/-!
# C07 (continued) — chain rules: bound transformation wrappers and the cfit models

Here the outer function is composed with a CURVE that is not a line (`y(x₀ + s p)` with a non-linear bound
transform; `(θ(s), I_sig(θ(s)), I_bg(θ(s)))` for cfit), so it is required to be Fréchet differentiable
(`HasFDerivAt`); its derivative is tied to the numbers the tape returns by evaluating it on the coordinate directions.
-/
open TfPwaV.ScalarR
namespace TfPwaV.C07
open TfPwaV.DerivR

/-! ## bound wrappers (`trans_fcn_grad`, `trans_f_grad_hess`, `trans_grad_hessp`, variable.py:828-929) -/

theorem line_hasDerivAt (a b t : ℝ) : HasDerivAt (fun s => a + s * b) b t := by
  simpa using ((hasDerivAt_id' t).mul_const b).const_add a

/-- the curve `s ↦ y(x₀ + s p)` in physical coordinates, `y_k = Y_k(x_k)` componentwise -/
theorem curve_hasDerivAt {n : Nat} (Y : Fin n → ℝ → ℝ) (x0 p d : Fin n → ℝ) (t : ℝ)
    (hY : ∀ k, HasDerivAt (Y k) (d k) (x0 k + t * p k)) :
    HasDerivAt (fun s => (fun k => Y k (x0 k + s * p k))) (fun k => d k * p k) t := by
  rw [hasDerivAt_pi]
  intro k
  exact (hY k).comp t (line_hasDerivAt (x0 k) (p k) t)

/-- `trans_fcn_grad`: `d/dx F(y(x)) = F'(y)·y'`: if `gy` is the gradient of `F` at `y(x)` (Fréchet derivative
`v ↦ Σ gy_k v_k`) and `d_k = dy_k/dx_k`, the returned `gy * dydxs` is the gradient of `x ↦ F(y(x))`. -/
theorem bound_chain_rule {n : Nat} (F : (Fin n → ℝ) → ℝ) (F' : (Fin n → ℝ) →L[ℝ] ℝ) (Y : Fin n → ℝ → ℝ)
    (x0 p d gy : Fin n → ℝ) (t : ℝ)
    (hY : ∀ k, HasDerivAt (Y k) (d k) (x0 k + t * p k))
    (hF : HasFDerivAt F F' (fun k => Y k (x0 k + t * p k)))
    (hF' : ∀ v, F' v = ∑ k, gy k * v k) :
    HasDerivAt (fun s => F (fun k => Y k (x0 k + s * p k)))
      (dot (transGrad (List.ofFn gy) (List.ofFn d)) (List.ofFn p)) t := by
  have h := hF.comp_hasDerivAt t (curve_hasDerivAt Y x0 p d t hY)
  rw [transGrad_ofFn, dot_ofFn]
  refine h.congr_deriv ?_
  rw [hF']
  apply Finset.sum_congr rfl; intro k _; ring

example : ∃ (F : (Fin 1 → ℝ) → ℝ) (F' : (Fin 1 → ℝ) →L[ℝ] ℝ) (y : Fin 1 → ℝ),
    HasFDerivAt F F' y ∧ ∀ v, F' v = ∑ k, (fun _ => (1 : ℝ)) k * v k :=
  ⟨fun v => v 0, ContinuousLinearMap.proj 0, fun _ => 0, (ContinuousLinearMap.proj (R := ℝ) (φ := fun _ : Fin 1 => ℝ) 0).hasFDerivAt,
    fun v => by simp⟩

/-- `trans_f_grad_hess`: `H_x = y' H_y y' + diag(F'·y'')`: the returned matrix is the derivative of the returned
(transformed) gradient `x ↦ gy(y(x)) * y'(x)`: `d/ds (q·g_x(x₀+s p)) = qᵀ H_x p` for all `p`, `q`.
`Gy k` is the `k`-th gradient component as a function of `y`, with Fréchet derivative row `k` of `Hy`;
`Y1 k = dY_k/dx`, `d2 k` its derivative. -/
theorem bound_hess_chain_rule {n : Nat} (Gy : Fin n → (Fin n → ℝ) → ℝ) (Gy' : Fin n → ((Fin n → ℝ) →L[ℝ] ℝ))
    (Hy : Fin n → Fin n → ℝ) (Y Y1 : Fin n → ℝ → ℝ) (x0 p q d d2 : Fin n → ℝ) (t : ℝ)
    (hY : ∀ k, HasDerivAt (Y k) (d k) (x0 k + t * p k))
    (hY1 : ∀ k, HasDerivAt (Y1 k) (d2 k) (x0 k + t * p k)) (hd : ∀ k, Y1 k (x0 k + t * p k) = d k)
    (hG : ∀ k, HasFDerivAt (Gy k) (Gy' k) (fun j => Y j (x0 j + t * p j)))
    (hG' : ∀ k v, Gy' k v = ∑ j, Hy k j * v j) :
    HasDerivAt (fun s => dot (transGrad (List.ofFn fun k => Gy k (fun j => Y j (x0 j + s * p j)))
                                (List.ofFn fun k => Y1 k (x0 k + s * p k))) (List.ofFn q))
      (dot (matVec (transHess (List.ofFn fun k => Gy k (fun j => Y j (x0 j + t * p j))) (ofFn2 Hy) (List.ofFn d) (List.ofFn d2))
              (List.ofFn p)) (List.ofFn q)) t := by
  rw [transHess_ofFn, dot_matVec_ofFn]
  have hf : (fun s => dot (transGrad (List.ofFn fun k => Gy k (fun j => Y j (x0 j + s * p j)))
                                (List.ofFn fun k => Y1 k (x0 k + s * p k))) (List.ofFn q))
      = fun s => ∑ k, Gy k (fun j => Y j (x0 j + s * p j)) * Y1 k (x0 k + s * p k) * q k := by
    funext s; rw [transGrad_ofFn, dot_ofFn]
  rw [hf]
  have hc := curve_hasDerivAt Y x0 p d t hY
  have hk : ∀ k, HasDerivAt (fun s => Gy k (fun j => Y j (x0 j + s * p j)) * Y1 k (x0 k + s * p k) * q k)
      (((∑ j, Hy k j * (d j * p j)) * d k + Gy k (fun j => Y j (x0 j + t * p j)) * (d2 k * p k)) * q k) t := by
    intro k
    have h1 := (hG k).comp_hasDerivAt t hc
    rw [hG'] at h1
    have h2 := (hY1 k).comp t (line_hasDerivAt (x0 k) (p k) t)
    have h3 := (h1.mul h2).mul_const (q k)
    refine h3.congr_deriv ?_
    simp only [Function.comp, hd]
  have h := HasDerivAt.fun_sum (u := Finset.univ) (fun k _ => hk k)
  refine h.congr_deriv ?_
  apply Finset.sum_congr rfl
  intro i _
  have e : ∀ j, q i * (d i * Hy i j * d j + if i = j then Gy i (fun j => Y j (x0 j + t * p j)) * d2 i else 0) * p j
      = (q i * d i) * (Hy i j * (d j * p j)) + (if i = j then q i * (Gy i (fun j => Y j (x0 j + t * p j)) * d2 i) * p j else 0) := by
    intro j
    split <;> ring
  rw [Finset.sum_congr rfl (fun j _ => e j), Finset.sum_add_distrib, ← Finset.mul_sum,
    Finset.sum_ite_eq Finset.univ i]
  simp only [Finset.mem_univ, if_true]
  ring

/-- non-vacuity of `bound_hess_chain_rule`: one parameter, `F(y) = y²/2` (gradient `y`, Hessian 1), non-linear
transform `y = x²` at `x₀ = 1`: all hypotheses hold together. -/
example (q : Fin 1 → ℝ) :=
  bound_hess_chain_rule (n := 1) (fun _ y => y 0) (fun _ => ContinuousLinearMap.proj 0) (fun _ _ => 1)
    (fun _ x => x * x) (fun _ x => 2 * x) (fun _ => 1) (fun _ => 1) q (fun _ => 2) (fun _ => 2) 0
    (fun _ => ((hasDerivAt_id' (1 + 0 * 1 : ℝ)).fun_mul (hasDerivAt_id' (1 + 0 * 1 : ℝ))).congr_deriv (by norm_num))
    (fun _ => by simpa using (hasDerivAt_id' (1 + 0 * 1 : ℝ)).const_mul 2)
    (fun _ => by norm_num)
    (fun _ => (ContinuousLinearMap.proj (R := ℝ) (φ := fun _ : Fin 1 => ℝ) 0).hasFDerivAt)
    (fun _ v => by simp)

/-- `trans_grad_hessp`: it calls the wrapped function with `p * dydxs` and returns
`hessp_yv * dydxs + grad_yv * dydxs2 * p`: that is (matrix of `trans_f_grad_hess`)·p. -/
theorem trans_hessp_eq_hess_mul {n : Nat} (gy d d2 p : Fin n → ℝ) (Hy : Fin n → Fin n → ℝ) :
    transHessp (List.ofFn gy) (matVec (ofFn2 Hy) (transP (List.ofFn p) (List.ofFn d))) (List.ofFn d) (List.ofFn d2) (List.ofFn p)
      = matVec (transHess (List.ofFn gy) (ofFn2 Hy) (List.ofFn d) (List.ofFn d2)) (List.ofFn p) := by
  rw [transP_ofFn, matVec_ofFn, transHessp_ofFn, transHess_ofFn, matVec_ofFn]
  congr 1
  funext i
  have e : ∀ j, (d i * Hy i j * d j + if i = j then gy i * d2 i else 0) * p j
      = d i * (Hy i j * (p j * d j)) + (if i = j then gy i * d2 i * p j else 0) := by
    intro j
    split <;> ring
  rw [Finset.sum_congr rfl (fun j _ => e j), Finset.sum_add_distrib, ← Finset.mul_sum, Finset.sum_ite_eq Finset.univ i]
  simp only [Finset.mem_univ, if_true]
  ring

/-! ## cfit / cfit-extended (cfit.py): chain rule through `v_int_sig`, `v_int_bg`

`ll : ℝ × ℝ × ℝ → ℝ` is the data term `Σ w clip_log(prob)` as a function of (position `s` on the line `θ₀ + s p`,
`v_int_sig`, `v_int_bg`) — the tape differentiates it with respect to `var + [v_int_sig, v_int_bg]` as independent
variables.  The reported NLL is `-ll(θ, I_sig(θ), I_bg(θ))` (+ the extended terms). -/

theorem clm3_apply (l : ℝ × ℝ × ℝ →L[ℝ] ℝ) (x y : ℝ) :
    l (1, x, y) = l (1, 0, 0) + x * l (0, 1, 0) + y * l (0, 0, 1) := by
  have h : ((1 : ℝ), x, y) = (1, 0, 0) + x • ((0 : ℝ), (1 : ℝ), (0 : ℝ)) + y • ((0 : ℝ), (0 : ℝ), (1 : ℝ)) := by
    ext <;> simp
  rw [h, map_add, map_add, map_smul, map_smul]
  simp only [smul_eq_mul]

/-- a function of (s, u, v) along the curve `(s, I_sig(s), I_bg(s))` -/
theorem comp3_hasDerivAt (G : ℝ × ℝ × ℝ → ℝ) (G' : ℝ × ℝ × ℝ →L[ℝ] ℝ) (Is Ib : ℝ → ℝ) (Is' Ib' t : ℝ)
    (hG : HasFDerivAt G G' (t, Is t, Ib t)) (hIs : HasDerivAt Is Is' t) (hIb : HasDerivAt Ib Ib' t) :
    HasDerivAt (fun s => G (s, Is s, Ib s)) (G' (1, 0, 0) + Is' * G' (0, 1, 0) + Ib' * G' (0, 0, 1)) t := by
  have hc : HasDerivAt (fun s => (s, Is s, Ib s)) ((1 : ℝ), Is', Ib') t :=
    (hasDerivAt_id' t).prodMk (hIs.prodMk hIb)
  have h := hG.comp_hasDerivAt t hc
  rw [clm3_apply] at h
  exact h

/-- `Model_cfit.nll_grad_batch` / `ModelCfitExtended.nll_grad_batch` (and the gradient returned by their
`nll_grad_hessian`): `-g_ll − g_Isig·∂ll/∂I_sig − g_Ibg·∂ll/∂I_bg` (+ extended terms) is the gradient of the
reported value. -/
theorem cfit_grad_is_deriv (ext : Bool) {n : Nat} (ll : ℝ × ℝ × ℝ → ℝ) (ll' : ℝ × ℝ × ℝ →L[ℝ] ℝ) (Is Ib : ℝ → ℝ)
    (gllθ gSig gBg p : Fin n → ℝ) (gllSig gllBg sw wB t : ℝ)
    (hll : HasFDerivAt ll ll' (t, Is t, Ib t))
    (h1 : ll' (1, 0, 0) = ∑ k, gllθ k * p k) (h2 : ll' (0, 1, 0) = gllSig) (h3 : ll' (0, 0, 1) = gllBg)
    (hIs : HasDerivAt Is (∑ k, gSig k * p k) t) (hIb : HasDerivAt Ib (∑ k, gBg k * p k) t)
    (h0 : ext = true → Is t ≠ 0 ∧ 1 - wB ≠ 0) :
    HasDerivAt (fun s => cfitVal ext (ll (s, Is s, Ib s)) sw (Is s) wB)
      (dot (cfitGrad ext (List.ofFn gllθ) (List.ofFn gSig) (List.ofFn gBg) gllSig gllBg sw (Is t) wB) (List.ofFn p)) t := by
  have hc := comp3_hasDerivAt ll ll' Is Ib _ _ t hll hIs hIb
  rw [h1, h2, h3] at hc
  rw [cfitGrad_ofFn, dot_ofFn]
  cases ext with
  | false =>
    simp only [cfitVal, Bool.false_eq_true, if_false]
    refine hc.neg.congr_deriv ?_
    have e : ∀ k, (-gllθ k - gSig k * gllSig - gBg k * gllBg) * p k
        = (-1) * (gllθ k * p k) + (-gllSig) * (gSig k * p k) + (-gllBg) * (gBg k * p k) := fun k => by ring
    rw [Finset.sum_congr rfl (fun k _ => e k), sum_lin3]
    ring
  | true =>
    obtain ⟨hI0, hw⟩ := h0 rfl
    simp only [cfitVal, if_true, klog]
    have hd := hIs.div_const (1 - wB)
    have hlog := hd.log (div_ne_zero hI0 hw)
    have h := (hc.neg.sub (hlog.const_mul sw)).add hd
    refine h.congr_deriv ?_
    have e : ∀ k, (-gllθ k - gSig k * gllSig - gBg k * gllBg - sw / Is t * gSig k + gSig k / (1 - wB)) * p k
        = (-1) * (gllθ k * p k) + (-gllSig - sw / Is t + 1 / (1 - wB)) * (gSig k * p k) + (-gllBg) * (gBg k * p k) :=
      fun k => by ring
    rw [Finset.sum_congr rfl (fun k _ => e k), sum_lin3]
    field_simp
    ring

example : ∃ (ll : ℝ × ℝ × ℝ → ℝ) (ll' : ℝ × ℝ × ℝ →L[ℝ] ℝ), HasFDerivAt ll ll' (0, 1, 1) ∧ ll' (0, 1, 0) = 1 :=
  ⟨fun x => x.2.1, (ContinuousLinearMap.fst ℝ ℝ ℝ).comp (ContinuousLinearMap.snd ℝ ℝ (ℝ × ℝ)),
    ((ContinuousLinearMap.fst ℝ ℝ ℝ).comp (ContinuousLinearMap.snd ℝ ℝ (ℝ × ℝ))).hasFDerivAt, by simp⟩

/-- `Model_cfit.nll_grad_hessian` / `ModelCfitExtended.nll_grad_hessian`:
`-(JᵀH_ll J + ∂ll/∂I_sig·H_Isig + ∂ll/∂I_bg·H_Ibg)` (+ extended terms `sw(H_I/I − g gᵀ/I²) − H_I/(1−w)`) is the
derivative of the returned gradient: `d/ds (q·g(θ₀+s p)) = qᵀ H p`.
`Gθ k`, `GS`, `GB` are the components of the tape's gradient of `ll` as functions of (s, I_sig, I_bg); their
Fréchet derivatives on the coordinate directions are the blocks of `h_ll`. -/
theorem cfit_hess_is_deriv (ext : Bool) {n : Nat}
    (Gθ : Fin n → ℝ × ℝ × ℝ → ℝ) (GS GB : ℝ × ℝ × ℝ → ℝ)
    (Gθ' : Fin n → (ℝ × ℝ × ℝ →L[ℝ] ℝ)) (GS' GB' : ℝ × ℝ × ℝ →L[ℝ] ℝ)
    (Is Ib : ℝ → ℝ) (gSig gBg : Fin n → ℝ → ℝ)
    (A hSig hBg : Fin n → Fin n → ℝ) (bSig bBg rSig rBg p q : Fin n → ℝ) (cSS cSB cBS cBB sw wB t : ℝ)
    (hGθ : ∀ k, HasFDerivAt (Gθ k) (Gθ' k) (t, Is t, Ib t))
    (hGS : HasFDerivAt GS GS' (t, Is t, Ib t)) (hGB : HasFDerivAt GB GB' (t, Is t, Ib t))
    (hA : ∀ k, Gθ' k (1, 0, 0) = ∑ j, A k j * p j) (hbS : ∀ k, Gθ' k (0, 1, 0) = bSig k) (hbB : ∀ k, Gθ' k (0, 0, 1) = bBg k)
    (hrS : GS' (1, 0, 0) = ∑ j, rSig j * p j) (hSS : GS' (0, 1, 0) = cSS) (hSB : GS' (0, 0, 1) = cSB)
    (hrB : GB' (1, 0, 0) = ∑ j, rBg j * p j) (hBS : GB' (0, 1, 0) = cBS) (hBB : GB' (0, 0, 1) = cBB)
    (hgS : ∀ k, HasDerivAt (gSig k) (∑ j, hSig k j * p j) t) (hgB : ∀ k, HasDerivAt (gBg k) (∑ j, hBg k j * p j) t)
    (hIs : HasDerivAt Is (∑ j, gSig j t * p j) t) (hIb : HasDerivAt Ib (∑ j, gBg j t * p j) t)
    (h0 : ext = true → Is t ≠ 0) :
    HasDerivAt (fun s => dot (cfitGrad ext (List.ofFn fun k => Gθ k (s, Is s, Ib s)) (List.ofFn fun k => gSig k s)
                              (List.ofFn fun k => gBg k s) (GS (s, Is s, Ib s)) (GB (s, Is s, Ib s)) sw (Is s) wB) (List.ofFn q))
      (dot (matVec (cfitHess ext (ofFn2 A) (List.ofFn bSig) (List.ofFn bBg) (List.ofFn rSig) (List.ofFn rBg)
                      (List.ofFn fun k => gSig k t) (List.ofFn fun k => gBg k t) cSS cSB cBS cBB (ofFn2 hSig) (ofFn2 hBg)
                      (GS (t, Is t, Ib t)) (GB (t, Is t, Ib t)) sw (Is t) wB) (List.ofFn p)) (List.ofFn q)) t := by
  rw [cfitHess_ofFn, dot_matVec_ofFn]
  -- the three tape-gradient blocks along the curve
  have hθ : ∀ k, HasDerivAt (fun s => Gθ k (s, Is s, Ib s))
      ((∑ j, A k j * p j) + (∑ j, gSig j t * p j) * bSig k + (∑ j, gBg j t * p j) * bBg k) t := fun k => by
    have h := comp3_hasDerivAt (Gθ k) (Gθ' k) Is Ib _ _ t (hGθ k) hIs hIb
    rwa [hA, hbS, hbB] at h
  have hS : HasDerivAt (fun s => GS (s, Is s, Ib s))
      ((∑ j, rSig j * p j) + (∑ j, gSig j t * p j) * cSS + (∑ j, gBg j t * p j) * cSB) t := by
    have h := comp3_hasDerivAt GS GS' Is Ib _ _ t hGS hIs hIb
    rwa [hrS, hSS, hSB] at h
  have hB : HasDerivAt (fun s => GB (s, Is s, Ib s))
      ((∑ j, rBg j * p j) + (∑ j, gSig j t * p j) * cBS + (∑ j, gBg j t * p j) * cBB) t := by
    have h := comp3_hasDerivAt GB GB' Is Ib _ _ t hGB hIs hIb
    rwa [hrB, hBS, hBB] at h
  -- the non-extended part of one gradient component
  have hbase : ∀ k, HasDerivAt (fun s => -Gθ k (s, Is s, Ib s) - gSig k s * GS (s, Is s, Ib s) - gBg k s * GB (s, Is s, Ib s))
      (-∑ j, (jtHjEntry (A k j) (bSig k) (bBg k) (rSig j) (rBg j) (gSig k t) (gBg k t) (gSig j t) (gBg j t) cSS cSB cBS cBB
                + GS (t, Is t, Ib t) * hSig k j + GB (t, Is t, Ib t) * hBg k j) * p j) t := fun k => by
    have h := ((hθ k).neg.sub ((hgS k).mul hS)).sub ((hgB k).mul hB)
    refine h.congr_deriv ?_
    have e : ∀ j, (jtHjEntry (A k j) (bSig k) (bBg k) (rSig j) (rBg j) (gSig k t) (gBg k t) (gSig j t) (gBg j t) cSS cSB cBS cBB
                + GS (t, Is t, Ib t) * hSig k j + GB (t, Is t, Ib t) * hBg k j) * p j
        = (1 : ℝ) * (A k j * p j) + (bSig k + gSig k t * cSS + gBg k t * cBS) * (gSig j t * p j)
          + (bBg k + gSig k t * cSB + gBg k t * cBB) * (gBg j t * p j)
          + (gSig k t * (rSig j * p j) + gBg k t * (rBg j * p j))
          + (GS (t, Is t, Ib t) * (hSig k j * p j) + GB (t, Is t, Ib t) * (hBg k j * p j)) := fun j => by
      unfold jtHjEntry; ring
    rw [Finset.sum_congr rfl (fun j _ => e j), Finset.sum_add_distrib, Finset.sum_add_distrib, sum_lin3, sum_lin2, sum_lin2]
    ring
  cases ext with
  | false =>
    have hf : (fun s => dot (cfitGrad false (List.ofFn fun k => Gθ k (s, Is s, Ib s)) (List.ofFn fun k => gSig k s)
                              (List.ofFn fun k => gBg k s) (GS (s, Is s, Ib s)) (GB (s, Is s, Ib s)) sw (Is s) wB) (List.ofFn q))
        = fun s => ∑ k, (-Gθ k (s, Is s, Ib s) - gSig k s * GS (s, Is s, Ib s) - gBg k s * GB (s, Is s, Ib s)) * q k := by
      funext s; rw [cfitGrad_ofFn, dot_ofFn]; simp
    rw [hf]
    have h := HasDerivAt.fun_sum (u := Finset.univ) (fun k _ => (hbase k).mul_const (q k))
    refine h.congr_deriv ?_
    apply Finset.sum_congr rfl; intro i _
    simp only [Bool.false_eq_true, if_false]
    rw [neg_mul, Finset.sum_mul, ← Finset.sum_neg_distrib]
    apply Finset.sum_congr rfl; intro j _
    ring
  | true =>
    have hI0 := h0 rfl
    have hf : (fun s => dot (cfitGrad true (List.ofFn fun k => Gθ k (s, Is s, Ib s)) (List.ofFn fun k => gSig k s)
                              (List.ofFn fun k => gBg k s) (GS (s, Is s, Ib s)) (GB (s, Is s, Ib s)) sw (Is s) wB) (List.ofFn q))
        = fun s => ∑ k, ((-Gθ k (s, Is s, Ib s) - gSig k s * GS (s, Is s, Ib s) - gBg k s * GB (s, Is s, Ib s))
                          - sw / Is s * gSig k s + gSig k s / (1 - wB)) * q k := by
      funext s; rw [cfitGrad_ofFn, dot_ofFn]; simp
    rw [hf]
    have hext : ∀ k, HasDerivAt (fun s => (-Gθ k (s, Is s, Ib s) - gSig k s * GS (s, Is s, Ib s) - gBg k s * GB (s, Is s, Ib s))
                          - sw / Is s * gSig k s + gSig k s / (1 - wB))
        (-∑ j, ((jtHjEntry (A k j) (bSig k) (bBg k) (rSig j) (rBg j) (gSig k t) (gBg k t) (gSig j t) (gBg j t) cSS cSB cBS cBB
                + GS (t, Is t, Ib t) * hSig k j + GB (t, Is t, Ib t) * hBg k j)
                + sw * (hSig k j / Is t - gSig k t * gSig j t / Is t / Is t) - hSig k j / (1 - wB)) * p j) t := fun k => by
      have hq : HasDerivAt (fun s => sw / Is s * gSig k s)
          ((0 * Is t - sw * ∑ j, gSig j t * p j) / Is t ^ 2 * gSig k t + sw / Is t * ∑ j, hSig k j * p j) t :=
        ((hasDerivAt_const t sw).div hIs hI0).mul (hgS k)
      have h := ((hbase k).sub hq).add ((hgS k).div_const (1 - wB))
      refine h.congr_deriv ?_
      have e : ∀ j, ((jtHjEntry (A k j) (bSig k) (bBg k) (rSig j) (rBg j) (gSig k t) (gBg k t) (gSig j t) (gBg j t) cSS cSB cBS cBB
                + GS (t, Is t, Ib t) * hSig k j + GB (t, Is t, Ib t) * hBg k j)
                + sw * (hSig k j / Is t - gSig k t * gSig j t / Is t / Is t) - hSig k j / (1 - wB)) * p j
          = (jtHjEntry (A k j) (bSig k) (bBg k) (rSig j) (rBg j) (gSig k t) (gBg k t) (gSig j t) (gBg j t) cSS cSB cBS cBB
                + GS (t, Is t, Ib t) * hSig k j + GB (t, Is t, Ib t) * hBg k j) * p j
            + ((sw / Is t - 1 / (1 - wB)) * (hSig k j * p j) + (-(sw * gSig k t / Is t / Is t)) * (gSig j t * p j)) :=
        fun j => by ring
      rw [Finset.sum_congr rfl (fun j _ => e j), Finset.sum_add_distrib, sum_lin2]
      generalize (∑ j, (jtHjEntry (A k j) (bSig k) (bBg k) (rSig j) (rBg j) (gSig k t) (gBg k t) (gSig j t) (gBg j t) cSS cSB cBS cBB
                + GS (t, Is t, Ib t) * hSig k j + GB (t, Is t, Ib t) * hBg k j) * p j) = S0
      generalize (∑ j, hSig k j * p j) = S1
      generalize (∑ j, gSig j t * p j) = S2
      field_simp
      ring
    have h := HasDerivAt.fun_sum (u := Finset.univ) (fun k _ => (hext k).mul_const (q k))
    refine h.congr_deriv ?_
    apply Finset.sum_congr rfl; intro i _
    simp only [if_true]
    rw [neg_mul, Finset.sum_mul, ← Finset.sum_neg_distrib]
    apply Finset.sum_congr rfl; intro j _
    ring

/-- non-vacuity of `cfit_hess_is_deriv` (extended): gradient blocks of `ll` linear in (s, I_sig, I_bg),
`I_sig(s) = 1 + s`, `I_bg = 1`: all hypotheses hold together. -/
example (q : Fin 1 → ℝ) (sw wB : ℝ) :=
  cfit_hess_is_deriv true (n := 1)
    (fun _ x => x.1) (fun x => x.2.1) (fun x => x.2.2)
    (fun _ => ContinuousLinearMap.fst ℝ ℝ (ℝ × ℝ))
    ((ContinuousLinearMap.fst ℝ ℝ ℝ).comp (ContinuousLinearMap.snd ℝ ℝ (ℝ × ℝ)))
    ((ContinuousLinearMap.snd ℝ ℝ ℝ).comp (ContinuousLinearMap.snd ℝ ℝ (ℝ × ℝ)))
    (fun s => 1 + s) (fun _ => 1) (fun _ _ => 1) (fun _ _ => 0)
    (fun _ _ => 1) (fun _ _ => 0) (fun _ _ => 0) (fun _ => 0) (fun _ => 0) (fun _ => 0) (fun _ => 0) (fun _ => 1) q
    1 0 0 1 sw wB 0
    (fun _ => (ContinuousLinearMap.fst ℝ ℝ (ℝ × ℝ)).hasFDerivAt)
    ((ContinuousLinearMap.fst ℝ ℝ ℝ).comp (ContinuousLinearMap.snd ℝ ℝ (ℝ × ℝ))).hasFDerivAt
    ((ContinuousLinearMap.snd ℝ ℝ ℝ).comp (ContinuousLinearMap.snd ℝ ℝ (ℝ × ℝ))).hasFDerivAt
    (fun _ => by simp) (fun _ => by simp) (fun _ => by simp)
    (by simp) (by simp) (by simp) (by simp) (by simp) (by simp)
    (fun _ => by simpa using hasDerivAt_const (0 : ℝ) (1 : ℝ)) (fun _ => by simpa using hasDerivAt_const (0 : ℝ) (0 : ℝ))
    (by simpa using (hasDerivAt_id' (0 : ℝ)).const_add 1) (by simpa using hasDerivAt_const (0 : ℝ) (1 : ℝ))
    (fun _ => by norm_num)

end TfPwaV.C07
