import TfPwaV.Proofs.ErrCtx
import TfPwaV.Props.C09
import Mathlib.Analysis.Calculus.Deriv.MeanValue
import Mathlib.Analysis.Calculus.Deriv.ZPow
/-!
# C09c — the error-propagation context (`ParamsTrans`), batch accumulation, numeric derivative of `apply`

Theorems over ℝ about `TfPwaV.ErrCtxR` / `TfPwaV.ErrPropR` (same text runs at Float against
`tf_pwa.params_trans.ParamsTrans`, `VarsManager.error_trans / trans_error_matrix`, `FitFractions.integral`,
`cal_fitfractions`, `NumberError.apply`).

* `params_trans_is_jvj…`: what `get_error_matrix` / `get_error` assemble from the per-variable blocks of the tape
  IS `J V Jᵀ` / `sqrt(diag(J V Jᵀ))` with `J[a, p] = ∂y_a/∂x_p` the true Jacobian — for vector, list and (row-major
  flattened) tensor outputs; the index convention is a theorem; the text before fix 680c99c is refuted;
* `bound_then_params_trans`: feeding the bound-transformed covariance `d V d` into the context is the chain rule for
  `f ∘ bound`;
* `frac_grad_batch_invariant`: the accumulated integrals / gradients do not depend on how the events are batched;
* `applyFD_rule_remainder`: the quantity `apply(fun)` computes without `grad`, with its remainder as an explicit term.
-/
open TfPwaV.ScalarR
namespace TfPwaV.C09c
open TfPwaV.ErrPropR TfPwaV.ErrCtxR TfPwaV.C09

/-! ## ParamsTrans -/

/-- `get_error_matrix(list of scalars)`: the rows are the per-output tape gradients; if they are the gradients
(`HasDerivAt` along every coordinate), the result is `J V Jᵀ` with the index convention
`(J V Jᵀ)[a, b] = Σ_ij J[a, i] V[i, j] J[b, j]`, for ANY `J'` that is a Jacobian of `y` at `x` (uniqueness). -/
theorem params_trans_list_is_jvj {m n : Nat} (y : (Fin n → ℝ) → Fin m → ℝ) (x : Fin n → ℝ)
    (rows : Fin m → Fin n → ℝ) (V : Fin n → Fin n → ℝ)
    (htape : ∀ a p, HasDerivAt (fun s => y (Function.update x p s) a) (rows a p) (x p))
    (J : Fin m → Fin n → ℝ) (hJ : ∀ a p, HasDerivAt (fun s => y (Function.update x p s) a) (J a p) (x p)) :
    jvjT n (List.ofFn fun a => List.ofFn (rows a)) (List.ofFn fun i => List.ofFn (V i))
      = List.ofFn fun a => List.ofFn fun b => ∑ i, ∑ j, J a i * V i j * J b j := by
  have e : rows = J := by funext a p; exact (htape a p).unique (hJ a p)
  rw [e, jvjT_ofFn]

/-- `get_error_matrix(vector tensor)` / `get_error(vector tensor)`: `tape.jacobian` returns one block per
variable (`blocks p a = ∂y_a/∂x_p`), the code stacks them on the LAST axis and reshapes to `(-1, nvar)`; the
result is `J V Jᵀ` and `sqrt(diag(J V Jᵀ))` for the Jacobian `J` of `y`. -/
theorem params_trans_is_jvj {m n : Nat} (y : (Fin n → ℝ) → Fin m → ℝ) (x : Fin n → ℝ)
    (blocks : Fin n → Fin m → ℝ) (V : Fin n → Fin n → ℝ)
    (htape : ∀ p a, HasDerivAt (fun s => y (Function.update x p s) a) (blocks p a) (x p))
    (J : Fin m → Fin n → ℝ) (hJ : ∀ a p, HasDerivAt (fun s => y (Function.update x p s) a) (J a p) (x p)) :
    jvjT n (stackLast m (List.ofFn fun p => List.ofFn (blocks p))) (List.ofFn fun i => List.ofFn (V i))
      = (List.ofFn fun a => List.ofFn fun b => ∑ i, ∑ j, J a i * V i j * J b j)
    ∧ getErrorVec n (stackLast m (List.ofFn fun p => List.ofFn (blocks p))) (List.ofFn fun i => List.ofFn (V i))
      = List.ofFn fun a => Real.sqrt (∑ i, ∑ j, J a i * V i j * J a j) := by
  have e : ∀ a p, blocks p a = J a p := fun a p => (htape p a).unique (hJ a p)
  unfold stackLast
  rw [transpose_ofFn]
  simp only [e]
  rw [jvjT_ofFn, getErrorVec_ofFn]
  exact ⟨rfl, rfl⟩

example : ∃ (y : (Fin 1 → ℝ) → Fin 1 → ℝ) (x : Fin 1 → ℝ) (J : Fin 1 → Fin 1 → ℝ),
    ∀ a p, HasDerivAt (fun s => y (Function.update x p s) a) (J a p) (x p) :=
  ⟨fun z _ => 2 * z 0, fun _ => 1, fun _ _ => 2, by
    intro a p
    have hp : p = 0 := Subsingleton.elim _ _
    subst hp
    simpa using (hasDerivAt_id' (1 : ℝ)).const_mul 2⟩

/-- Tensor outputs of shape `(r, c)`: the tape's block of variable `p` is the `r × c` array `D p`, flattened
row-major by `reshape`; entry `(i, j)` of the output is row/column `i * c + j` of the returned matrix:
`M[a][b] = Σ_pq D p (a / c) (a % c) · V p q · D q (b / c) (b % c)`. -/
theorem params_trans_tensor_is_jvj {r c n : Nat} (y : (Fin n → ℝ) → Fin r → Fin c → ℝ) (x : Fin n → ℝ)
    (D : Fin n → Fin r → Fin c → ℝ) (V : Fin n → Fin n → ℝ)
    (htape : ∀ p i j, HasDerivAt (fun s => y (Function.update x p s) i j) (D p i j) (x p)) :
    let ix := fun a : Fin (r * c) => finProdFinEquiv.symm a
    jvjT n (stackLast (r * c) (List.ofFn fun p => (List.ofFn fun i => List.ofFn (D p i)).flatten))
        (List.ofFn fun i => List.ofFn (V i))
      = (List.ofFn fun a => List.ofFn fun b =>
          ∑ p, ∑ q, D p (ix a).1 (ix a).2 * V p q * D q (ix b).1 (ix b).2)
    ∧ (∀ (i : Fin r) (j : Fin c), ((ix (finProdFinEquiv (i, j))) = (i, j))
        ∧ ((finProdFinEquiv (i, j) : Fin (r * c)) : Nat) = j + c * i) := by
  intro ix
  refine ⟨?_, fun i j => ⟨by simp only [ix, Equiv.symm_apply_apply], by simp [finProdFinEquiv]⟩⟩
  simp only [flatten_ofFn]
  have h := params_trans_is_jvj (m := r * c)
    (fun z a => y z (ix a).1 (ix a).2) x (fun p a => D p (ix a).1 (ix a).2) V
    (fun p a => htape p (ix a).1 (ix a).2) (fun a p => D p (ix a).1 (ix a).2)
    (fun a p => htape p (ix a).1 (ix a).2)
  exact h.1

/-- `get_error(scalar)`: `sqrt(Σ matvec(V, g) * g)` is the `sqrt(g V g)` of `ErrProp` (so `err_from_grad_is_jvj`
applies to it). -/
theorem params_trans_scalar_is_jvj {n : Nat} (V : Fin n → Fin n → ℝ) (g : Fin n → ℝ)
    (hpsd : 0 ≤ ∑ i, ∑ j, g i * V i j * g j) :
    (getErrorScalar (List.ofFn fun i => List.ofFn (V i)) (List.ofFn g)) ^ 2 = ∑ i, ∑ j, g i * V i j * g j
    ∧ 0 ≤ getErrorScalar (List.ofFn fun i => List.ofFn (V i)) (List.ofFn g) := by
  rw [getErrorScalar_eq]
  exact err_from_grad_is_jvj V g hpsd

/-- The assembly before fix 680c99c (stack on axis 0, then `reshape((-1, nvar))`) is NOT `J V Jᵀ`: witness
`y = (x₀ + 3 x₁, 2 x₀ + 4 x₁)`, `V = 1`: the tape blocks are `[[1, 2], [3, 4]]`, `J V Jᵀ = [[10, 14], [14, 20]]`
but the legacy text returns `[[5, 11], [11, 25]]` (its diagonal is not `get_error²`). -/
theorem stackFirstReshape_violates :
    jvjT 2 (stackLast 2 [[1, 2], [3, 4]]) [[1, 0], [0, 1]] = [[10, 14], [14, 20]]
    ∧ jvjT 2 (stackFirstReshape 2 2 [[1, 2], [3, 4]]) [[1, 0], [0, 1]] = [[5, 11], [11, 25]] := by
  constructor <;>
    norm_num [jvjT, stackLast, stackFirstReshape, chunksK, transpose, matMulT, dot, List.range, List.range.loop]

/-- Composition with the bound transformation (`ConfigLoader.params_trans` uses the covariance that
`trans_error_matrix` produced): for `f ∘ bound` with `bound` acting coordinate-wise (`y_k = yb_k(x_k)`,
`yb_k' = d_k`) and `J` the Jacobian of `f` at `y`, (1) the Jacobian of the composition is `J · diag(d)` (chain
rule, `HasDerivAt`), and (2) the context evaluated on the transformed covariance `d V d` returns
`(J diag d) V (J diag d)ᵀ`, i.e. first-order propagation of the covariance `V` of the INTERNAL variables `x`. -/
theorem bound_then_params_trans {m n : Nat} (f : (Fin n → ℝ) → Fin m → ℝ) (yb : Fin n → ℝ → ℝ)
    (x d : Fin n → ℝ) (J : Fin m → Fin n → ℝ) (V : Fin n → Fin n → ℝ)
    (hy : ∀ k, HasDerivAt (yb k) (d k) (x k))
    (hJ : ∀ a p, HasDerivAt (fun s => f (Function.update (fun k => yb k (x k)) p s) a) (J a p) (yb p (x p))) :
    (∀ a p, HasDerivAt (fun s => f (fun k => yb k (Function.update x p s k)) a) (J a p * d p) (x p))
    ∧ jvjT n (List.ofFn fun a => List.ofFn (J a))
        (transErrorMatrix (List.ofFn d) (List.ofFn fun i => List.ofFn (V i)))
      = (List.ofFn fun a => List.ofFn fun b => ∑ i, ∑ j, (J a i * d i) * V i j * (J b j * d j))
    ∧ jvjT n (List.ofFn fun a => List.ofFn (J a))
        (transErrorMatrix (List.ofFn d) (List.ofFn fun i => List.ofFn (V i)))
      = jvjT n (scaleCols (List.ofFn fun a => List.ofFn (J a)) (List.ofFn d)) (List.ofFn fun i => List.ofFn (V i)) := by
  have h2 : jvjT n (List.ofFn fun a => List.ofFn (J a))
        (transErrorMatrix (List.ofFn d) (List.ofFn fun i => List.ofFn (V i)))
      = (List.ofFn fun a => List.ofFn fun b => ∑ i, ∑ j, (J a i * d i) * V i j * (J b j * d j)) := by
    rw [transErrorMatrix_ofFn, jvjT_ofFn]
    congr 1; funext a; congr 1; funext b
    refine Finset.sum_congr rfl fun i _ => Finset.sum_congr rfl fun j _ => ?_
    ring
  refine ⟨?_, h2, ?_⟩
  · intro a p
    have e : (fun s => f (fun k => yb k (Function.update x p s k)) a)
        = (fun t => f (Function.update (fun k => yb k (x k)) p t) a) ∘ (yb p) := by
      funext s
      simp only [Function.comp]
      congr 1
      funext k
      by_cases h : k = p
      · subst h; simp
      · simp [h]
    rw [e]
    exact (hJ a p).comp (x p) (hy p)
  · rw [h2, scaleCols_ofFn, jvjT_ofFn]

/-! ## Batch accumulation of integrals and gradients -/

/-- `frac_grad_batch_invariant`: the cached total (`cached_int…`, `cached_grad…` of `FitFractions`, `int_mc`,
`g_int_mc` of `cal_fitfractions`) is the same for any two batchings of the same multiset of events — any batch
size, any order, also a ragged last batch. -/
theorem frac_grad_batch_invariant (n : Nat) (bs bs' : List (List (ℝ × List ℝ)))
    (h : ∀ b ∈ bs, ∀ e ∈ b, e.2.length = n) (h' : ∀ b ∈ bs', ∀ e ∈ b, e.2.length = n)
    (hperm : bs.flatten.Perm bs'.flatten) :
    integralBatched n bs = integralBatched n bs' := by
  rw [integralBatched_flatten n bs h, integralBatched_flatten n bs' h']
  unfold evalBatch
  rw [sumK_perm (hperm.map _), sumV_perm n (hperm.map _)]

example : ([[((1 : ℝ), [(2 : ℝ)])], [((3 : ℝ), [(4 : ℝ)])]] : List (List (ℝ × List ℝ))).flatten.Perm
    ([[((3 : ℝ), [(4 : ℝ)]), ((1 : ℝ), [(2 : ℝ)])]] : List (List (ℝ × List ℝ))).flatten := by
  simpa using List.Perm.swap _ _ _

/-- … hence every fraction and every fraction gradient computed from the accumulated pieces is batch-invariant. -/
theorem frac_from_batches_invariant (n : Nat) (bsI bsI' bsT bsT' : List (List (ℝ × List ℝ)))
    (hI : ∀ b ∈ bsI, ∀ e ∈ b, e.2.length = n) (hI' : ∀ b ∈ bsI', ∀ e ∈ b, e.2.length = n)
    (hT : ∀ b ∈ bsT, ∀ e ∈ b, e.2.length = n) (hT' : ∀ b ∈ bsT', ∀ e ∈ b, e.2.length = n)
    (hpI : bsI.flatten.Perm bsI'.flatten) (hpT : bsT.flatten.Perm bsT'.flatten) :
    frac (integralBatched n bsI).1 (integralBatched n bsT).1
      = frac (integralBatched n bsI').1 (integralBatched n bsT').1
    ∧ fracGrad (integralBatched n bsI).1 (integralBatched n bsT).1 (integralBatched n bsI).2 (integralBatched n bsT).2
      = fracGrad (integralBatched n bsI').1 (integralBatched n bsT').1 (integralBatched n bsI').2
          (integralBatched n bsT').2 := by
  rw [frac_grad_batch_invariant n bsI bsI' hI hI' hpI, frac_grad_batch_invariant n bsT bsT' hT hT' hpT]
  exact ⟨rfl, rfl⟩

/-- The accumulated gradient is the gradient of the accumulated integral: if each event's tape gradient `G e`
is the gradient of its weighted value `F e` (directional derivative along every line `θ₀ + s u`), then the
pair `(I, g)` the batches add up to satisfies the hypothesis `HasDerivAt I (g·u)` of `frac_grad_is_deriv`. -/
theorem batch_grad_is_deriv {N n : Nat} (F : Fin N → ℝ → ℝ) (G : Fin N → Fin n → ℝ) (u : Fin n → ℝ) (t : ℝ)
    (hF : ∀ e, HasDerivAt (F e) (∑ k, G e k * u k) t) :
    HasDerivAt (fun s => (evalBatch n (List.ofFn fun e => (F e s, List.ofFn (G e)))).1)
      (dot (evalBatch n (List.ofFn fun e => (F e t, List.ofFn (G e)))).2 (List.ofFn u)) t := by
  simp only [evalBatch, List.map_ofFn, Function.comp_def]
  exact sum_diag_is_deriv F G u t hF

/-! ## `NumberError.apply(fun)` without `grad`: the quantity computed and its remainder -/

/-- On a cubic the central difference is `f'(x) + c₃ dx²` exactly: the remainder term is `f'''(x)/6 · dx²`. -/
theorem centralDiff_cubic (c0 c1 c2 c3 x dx : ℝ) (hdx : dx ≠ 0) :
    centralDiff (fun x => c0 + c1 * x + c2 * x * x + c3 * x * x * x) x dx
      = (c1 + 2 * c2 * x + 3 * c3 * x * x) + c3 * dx ^ 2 := by
  unfold centralDiff; field_simp; ring

/-- … so `apply(fun)` is NOT the first-order propagation in general: for `fun = x³` at `0 ± 1` with `dx = 1`
the propagated error is `|f'(0)| σ = 0`, the code returns `1`. (With the default `dx = 1e-5` the excess is
`c₃·1e-10·σ`.) -/
theorem applyFD_cubic_not_exact :
    (NE.applyFD ⟨0, 1⟩ (fun x => x * x * x) 1).err = 1
    ∧ ¬ IsProp1 (fun x => x * x * x) ⟨0, 1⟩ (NE.applyFD ⟨0, 1⟩ (fun x => x * x * x) 1) := by
  have he : (NE.applyFD ⟨0, 1⟩ (fun x => x * x * x) 1).err = 1 := by
    norm_num [NE.applyFD, centralDiff, kabs]
  refine ⟨he, fun h => ?_⟩
  have hd : HasDerivAt (fun x : ℝ => x * x * x) 0 0 := by
    exact (((hasDerivAt_id' (0 : ℝ)).mul (hasDerivAt_id' (0 : ℝ))).mul (hasDerivAt_id' (0 : ℝ))).congr_deriv
      (by norm_num)
  have := (h.spec 0 hd).1
  rw [he] at this
  norm_num at this

/-- Mean-value form of the central difference, for EVERY differentiable `f` and every step `dx > 0`:
`(f(x+dx) − f(x−dx))/2/dx = (f'(x+τ) + f'(x−τ))/2` for some `0 < τ < dx`. -/
theorem centralDiff_mean_value (f f' : ℝ → ℝ) (x dx : ℝ) (hdx : 0 < dx)
    (hf : ∀ z, x - dx ≤ z → z ≤ x + dx → HasDerivAt f (f' z) z) :
    ∃ τ, 0 < τ ∧ τ < dx ∧ centralDiff f x dx = (f' (x + τ) + f' (x - τ)) / 2 := by
  have hg : ∀ t, 0 ≤ t → t ≤ dx → HasDerivAt (fun t => f (x + t) - f (x - t)) (f' (x + t) + f' (x - t)) t := by
    intro t h0 h1
    have h1' := (hf (x + t) (by linarith) (by linarith)).comp t ((hasDerivAt_id' t).const_add x)
    have h2' := (hf (x - t) (by linarith) (by linarith)).comp t ((hasDerivAt_id' t).const_sub x)
    have := h1'.sub h2'
    simp only [Function.comp_def, mul_one, mul_neg, sub_neg_eq_add] at this
    exact this
  have hc : ContinuousOn (fun t => f (x + t) - f (x - t)) (Set.Icc 0 dx) := by
    intro t ht
    exact (hg t ht.1 ht.2).continuousAt.continuousWithinAt
  obtain ⟨τ, hτ, he⟩ := exists_hasDerivAt_eq_slope (fun t => f (x + t) - f (x - t))
    (fun t => f' (x + t) + f' (x - t)) hdx hc (fun t ht => hg t ht.1.le ht.2.le)
  refine ⟨τ, hτ.1, hτ.2, ?_⟩
  simp only [add_zero, sub_zero, sub_self] at he
  unfold centralDiff
  rw [he]
  field_simp

/-- `applyFD_rule`: the exact quantity `apply(fun)` reports without `grad` is
`|f'(x) + R| σ` with the explicit remainder `R = (f'(x+τ) − f'(x))/2 + (f'(x−τ) − f'(x))/2`, `0 < τ < dx`; if
`f'` is `L`-Lipschitz on `[x−dx, x+dx]` then `|R| ≤ L·dx` and the reported error differs from the first-order
propagation `|f'(x)| σ` by at most `L·dx·σ`.  (For `f ∈ C³` the remainder is `O(dx²)`, cf. `centralDiff_cubic`;
that sharper order is not proved for general `f`.) -/
theorem applyFD_rule_remainder (a : NE) (f f' : ℝ → ℝ) (dx L : ℝ) (hdx : 0 < dx) (ha : 0 ≤ a.err)
    (hf : ∀ z, a.val - dx ≤ z → z ≤ a.val + dx → HasDerivAt f (f' z) z)
    (hL : ∀ z, a.val - dx ≤ z → z ≤ a.val + dx → |f' z - f' a.val| ≤ L * |z - a.val|) :
    (a.applyFD f dx).val = f a.val
    ∧ ∃ R, (a.applyFD f dx).err = |f' a.val + R| * a.err ∧ |R| ≤ L * dx
      ∧ |(a.applyFD f dx).err - |f' a.val| * a.err| ≤ L * dx * a.err := by
  refine ⟨rfl, ?_⟩
  obtain ⟨τ, h0, h1, he⟩ := centralDiff_mean_value f f' a.val dx hdx hf
  have hE : (a.applyFD f dx).err
      = |f' a.val + ((f' (a.val + τ) - f' a.val) / 2 + (f' (a.val - τ) - f' a.val) / 2)| * a.err := by
    simp only [NE.applyFD, kabs, he]
    congr 2; ring
  have hR : |(f' (a.val + τ) - f' a.val) / 2 + (f' (a.val - τ) - f' a.val) / 2| ≤ L * dx := by
    have b1 := hL (a.val + τ) (by linarith) (by linarith)
    have b2 := hL (a.val - τ) (by linarith) (by linarith)
    have e1 : |a.val + τ - a.val| = τ := by rw [add_sub_cancel_left, abs_of_pos h0]
    have e2 : |a.val - τ - a.val| = τ := by
      rw [show a.val - τ - a.val = -τ by ring, abs_neg, abs_of_pos h0]
    rw [e1] at b1; rw [e2] at b2
    have hL0 : 0 ≤ L := by
      by_contra hneg
      have : L * τ < 0 := mul_neg_of_neg_of_pos (not_le.mp hneg) h0
      linarith [abs_nonneg (f' (a.val + τ) - f' a.val)]
    calc |(f' (a.val + τ) - f' a.val) / 2 + (f' (a.val - τ) - f' a.val) / 2|
        ≤ |(f' (a.val + τ) - f' a.val) / 2| + |(f' (a.val - τ) - f' a.val) / 2| := abs_add_le _ _
      _ = |f' (a.val + τ) - f' a.val| / 2 + |f' (a.val - τ) - f' a.val| / 2 := by
          rw [abs_div, abs_div, abs_two]
      _ ≤ L * τ := by linarith
      _ ≤ L * dx := by nlinarith
  refine ⟨_, hE, hR, ?_⟩
  rw [hE, ← sub_mul, abs_mul, abs_of_nonneg ha]
  refine mul_le_mul_of_nonneg_right ?_ ha
  refine le_trans (abs_abs_sub_abs_le_abs_sub _ _) ?_
  rw [add_sub_cancel_left]
  exact hR

/-! ## every `NumberError` operator of the patched tree -/

/-- `op_rule_is_jvj` at full strength for the tree as it is now (after `fix_err_num.diff`; the harness observes
that the tree implements this text): EVERY operator, with either or both operands uncertain and operands of
either sign, returns value and `sqrt(Σ (∂f/∂x_k)² σ_k²) ≥ 0`, on the domain where the derivative exists
(non-zero divisor; positive base for `log`, for a real exponent and for an uncertain exponent). -/
theorem op_rule_is_jvj (a b : NE) (c : ℝ) (ha : 0 ≤ a.err) :
    (IsProp2 (fun x y => x + y) a b (a.add b) ∧ IsProp1 (fun x => x + c) a (a.addS c) ∧
     IsProp2 (fun x y => x - y) a b (a.sub b) ∧ IsProp1 (fun x => x - c) a (a.subS c) ∧
     IsProp1 (fun x => -x) a a.neg ∧ IsProp2 (fun x y => x * y) a b (a.mul b) ∧
     (0 < a.val → IsProp1 (fun x => kpow x c) a (a.powS c)) ∧
     (0 < a.val → IsProp1 klog a a.log) ∧ IsProp1 kexp a a.exp) ∧
    (IsProp1 (fun x => x * c) a (a.mulS c) ∧ (c ≠ 0 → IsProp1 (fun x => x / c) a (a.divS c)) ∧
     (b.val ≠ 0 → IsProp2 (fun x y => x / y) a b (a.div b)) ∧
     (0 < a.val → IsProp2 (fun x y => kpow x y) a b (a.pow b)) ∧
     (0 < c → IsProp1 (fun x => kpow c x) a (NE.rpow c a))) ∧
    (1 ≤ c → IsProp1 (fun x => kpow x c) a (a.powS c)) ∧
    (∀ (f : ℝ → ℝ) (gv : ℝ), HasDerivAt f gv a.val → IsProp1 f a (a.applyG (f a.val) gv)) :=
  ⟨op_rule_is_jvj_partial a b c ha, op_rule_is_jvj_fixed a b c ha, fun hc => powS_rule_of_one_le a c hc ha,
   fun f gv hf => applyG_rule a f gv hf ha⟩

end TfPwaV.C09c
