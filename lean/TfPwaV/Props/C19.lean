import TfPwaV.Proofs.Config
import TfPwaV.Props.C13
/-!
# C19 — A configuration determines the model deterministically and completely

Theorems about the model `TfPwaV.Config` of the decay-card loader (tied to `ConfigLoader(dict)` by the
grammar-based correspondence in harness/c19.py).  "For every card" = every value of `Card` (every card the driver's
grammar can express); `Card.expand` is a function, so equal cards give equal models by `rfl` — the content of
determinism is that the implementation agrees with this function on repeated loads (correspondence).
-/
namespace TfPwaV.C19
open TfPwaV.Config

/-! ## reading the outcome -/

/-- what is observable of a load: ordered chains, their (l,s) lists, the parameter names (or the error kind) -/
def view : Outcome → Except String (List Chain × List (List (List (Nat × Nat))) × List String)
  | .raise w => .error w
  | .ok ctx chains => .ok (chains, chains.map (fun c => c.map ctx.ls), ctx.paramNames chains)

def regsOf (ctx : Ctx) : List BDecay := ctx.regs.map (·.1)

theorem expand_ok {c : Card} {ctx : Ctx} {chains : List Chain} (h : c.expand = .ok ctx chains) :
    c.context = some ctx ∧ ∃ cand, candidates (regsOf ctx) c.top c.finals = some cand ∧
      cand.all simpleChain = true ∧ chains = cand.filter ctx.survives ∧ chains ≠ [] := by
  unfold Card.expand at h
  split at h
  · simp at h
  · rename_i ctx' hc
    split at h
    · simp at h
    · rename_i cand hcand
      split at h
      · simp at h
      · rename_i hs
        split at h
        · simp at h
        · rename_i hne
          simp only [Outcome.ok.injEq] at h
          obtain ⟨rfl, rfl⟩ := h
          refine ⟨hc, cand, hcand, by simpa using hs, rfl, ?_⟩
          intro h0; rw [h0] at hne; simp at hne

/-! ## every produced chain is a tree from `$top` to exactly `$finals` through declared decays -/

/-- Every chain of every successfully loaded card is the pre-order list of a decay tree whose root is `$top`,
whose nodes are registered decays with the subtrees hanging on their daughters, whose leaves are particles
without any decay, and whose leaves are exactly `$finals` (as a multiset). -/
theorem chains_are_trees (c : Card) (ctx : Ctx) (chains : List Chain) (h : c.expand = .ok ctx chains) :
    ∀ ch ∈ chains, ∃ t : DTree, t.WF (regsOf ctx) ∧ t.root = c.top ∧ t.chain = ch ∧ t.leaves.Perm c.finals := by
  obtain ⟨_, cand, hcand, _, rfl, _⟩ := expand_ok h
  intro ch hch
  rw [List.mem_filter] at hch
  unfold candidates at hcand
  cases hcd : chainDecay (regsOf ctx) (recursionBudget (regsOf ctx)) c.top with
  | none => rw [hcd] at hcand; simp at hcand
  | some cs =>
    rw [hcd] at hcand
    simp only [Option.map_some, Option.some.injEq] at hcand
    subst hcand
    obtain ⟨hmem, hfin⟩ := List.mem_filter.1 hch.1
    obtain ⟨hnil, hspec⟩ := chainDecay_spec _ _ _ _ hcd
    obtain ⟨t, wf, hr, hc, _⟩ := (hspec ch).1 (Or.inl hmem)
    refine ⟨t, wf, hr, hc, ?_⟩
    cases t with
    | leaf n =>
      exfalso
      simp only [DTree.root] at hr
      subst hr
      have : cs = [] := hnil.2 wf
      rw [this] at hmem; simp at hmem
    | node d l r =>
      have hp := chainLeaves_perm _ d l r wf
      rw [hc] at hp
      have : (chainLeaves ch).Perm c.finals := by
        unfold matchesFinals at hfin
        exact List.isPerm_iff.1 hfin
      exact hp.symm.trans this

/-- insertion into the registry never invents a decay -/
theorem register_mem (regs : List (BDecay × DOpt)) (d : BDecay) (o : DOpt) (e : BDecay) :
    e ∈ (register regs d o).map (·.1) → e ∈ regs.map (·.1) ∨ e = d := by
  induction regs with
  | nil => simp [register]
  | cons x xs ih =>
    unfold register
    split
    · intro h; left; simpa using h
    · intro h
      simp only [List.map_cons, List.mem_cons] at h ⊢
      rcases h with h | h
      · exact Or.inl (Or.inl h)
      · rcases ih h with h | h
        · exact Or.inl (Or.inr h)
        · exact Or.inr h

theorem foldl_register_mem (l : List (BDecay × DOpt)) (acc : List (BDecay × DOpt)) (e : BDecay) :
    e ∈ (l.foldl (fun regs x => register regs x.1 x.2) acc).map (·.1) → e ∈ acc.map (·.1) ∨ e ∈ l.map (·.1) := by
  induction l generalizing acc with
  | nil => intro h; exact Or.inl h
  | cons x xs ih =>
    intro h
    rcases ih _ h with h | h
    · rcases register_mem _ _ _ _ h with h | h
      · exact Or.inl h
      · right; simp [h]
    · right; simp only [List.map_cons, List.mem_cons]; exact Or.inr h

/-- Every registered decay is an instance of a declared decay: mother and daughters are candidates of the
declared slots (or the slot names themselves when no candidate list is given). -/
theorem registered_are_declared (pm : List (Name × List Name)) (decs : List DecEntry) (d : BDecay)
    (h : d ∈ (registerAll pm decs).map (·.1)) :
    ∃ e ∈ decs, d.core ∈ wrap pm e.core ∧ d.o1 ∈ wrap pm e.o1 ∧ d.o2 ∈ wrap pm e.o2 := by
  unfold registerAll at h
  rcases foldl_register_mem _ _ _ h with h | h
  · simp at h
  · simp only [List.mem_map, List.mem_flatMap] at h
    obtain ⟨x, ⟨e, he, hx⟩, rfl⟩ := h
    unfold instances at hx
    simp only [List.mem_flatMap, List.mem_map] at hx
    obtain ⟨cc, hcc, a, ha, b, hb, rfl⟩ := hx
    exact ⟨e, he, hcc, ha, hb⟩

/-- … and, composed: every decay of every produced chain is a declared (core, outs) instance. -/
theorem chain_decays_declared (c : Card) (ctx : Ctx) (chains : List Chain) (h : c.expand = .ok ctx chains) :
    ∀ ch ∈ chains, ∀ d ∈ ch, ∃ decs merged, decayItem c.decay = some decs ∧ mergeIncludes c.particle c.includes = some merged ∧
      ∃ e ∈ decs, d.core ∈ wrap (particleMap merged) e.core ∧ d.o1 ∈ wrap (particleMap merged) e.o1 ∧
        d.o2 ∈ wrap (particleMap merged) e.o2 := by
  intro ch hch d hd
  obtain ⟨t, wf, _, hc, _⟩ := chains_are_trees c ctx chains h ch hch
  have hreg : d ∈ regsOf ctx := wf_chain_mem _ t wf d (by rw [hc]; exact hd)
  obtain ⟨hctx, _⟩ := expand_ok h
  unfold Card.context at hctx
  cases h1 : decayItem c.decay with
  | none => simp [h1] at hctx
  | some decs =>
    cases h2 : mergeIncludes c.particle c.includes with
    | none => simp [h1, h2] at hctx
    | some merged =>
      simp only [h1, h2, Option.bind_eq_bind, Option.bind_some, Option.some.injEq] at hctx
      subst hctx
      exact ⟨decs, merged, rfl, rfl, registered_are_declared _ _ d hreg⟩

/-! ## no allowed chain is dropped, no forbidden chain is kept -/

/-- Cut criterion: a candidate chain is in the output iff each of its decays has a non-empty (l,s) list. -/
theorem cut_sound_complete (c : Card) (ctx : Ctx) (chains : List Chain) (h : c.expand = .ok ctx chains) :
    ∃ cand, candidates (regsOf ctx) c.top c.finals = some cand ∧
      ∀ ch, ch ∈ chains ↔ ch ∈ cand ∧ ∀ d ∈ ch, ctx.ls d ≠ [] := by
  obtain ⟨_, cand, hcand, _, rfl, _⟩ := expand_ok h
  refine ⟨cand, hcand, ?_⟩
  intro ch
  rw [List.mem_filter]
  unfold Ctx.survives
  simp only [List.all_eq_true, Bool.not_eq_true', List.isEmpty_eq_false_iff]

/-- Completeness of the enumeration: every decay tree over the registered decays from `$top` to `$finals`
(within the recursion budget) whose decays all have an allowed coupling is in the output — no allowed chain is dropped. -/
theorem no_allowed_chain_dropped (c : Card) (ctx : Ctx) (chains : List Chain) (h : c.expand = .ok ctx chains)
    (d : BDecay) (l r : DTree) (wf : (DTree.node d l r).WF (regsOf ctx)) (hroot : d.core = c.top)
    (hleaves : (DTree.node d l r).leaves.Perm c.finals)
    (hdepth : (DTree.node d l r).depth ≤ recursionBudget (regsOf ctx))
    (hls : ∀ e ∈ (DTree.node d l r).chain, ctx.ls e ≠ []) :
    (DTree.node d l r).chain ∈ chains := by
  obtain ⟨cand, hcand, hiff⟩ := cut_sound_complete c ctx chains h
  rw [hiff]
  refine ⟨?_, hls⟩
  unfold candidates at hcand
  cases hcd : chainDecay (regsOf ctx) (recursionBudget (regsOf ctx)) c.top with
  | none => rw [hcd] at hcand; simp at hcand
  | some cs =>
    rw [hcd] at hcand
    simp only [Option.map_some, Option.some.injEq] at hcand
    subst hcand
    obtain ⟨_, hspec⟩ := chainDecay_spec _ _ _ _ hcd
    have hp := (hspec (DTree.node d l r).chain).2 ⟨_, wf, hroot, rfl, hdepth⟩
    rw [List.mem_filter]
    refine ⟨?_, ?_⟩
    · rcases hp with hp | ⟨_, hp⟩
      · exact hp
      · simp [DTree.chain] at hp
    · unfold matchesFinals
      exact List.isPerm_iff.2 ((chainLeaves_perm _ d l r wf).trans hleaves)

/-- "Non-empty" is the physical selection rule (C13): without `l_list`/`ls_list` options a decay passes the cut iff
some (l,s) satisfies the triangle, parity and C-parity rules for the quantum numbers of the card. -/
theorem cut_is_selection_rule (a b cc : QN) (o : DOpt) (h1 : o.lsList = none) (h2 : o.lList = none) :
    lsOf a b cc o ≠ [] ↔ ∃ l s2, C13.Allowed a.j2 b.j2 cc.j2 a.p b.p cc.p (o.pBreak.getD false)
      (if o.cBreak.getD true then none else a.c) l s2 := by
  unfold lsOf
  rw [h1, h2]
  exact C13.cut_iff ..

/-- with `l_list`: exactly the allowed couplings whose `l` is listed -/
theorem ls_with_l_list (a b cc : QN) (o : DOpt) (ll : List Nat) (h1 : o.lsList = none) (h2 : o.lList = some ll) (l s2 : Nat) :
    (l, s2) ∈ lsOf a b cc o ↔ C13.Allowed a.j2 b.j2 cc.j2 a.p b.p cc.p (o.pBreak.getD false)
      (if o.cBreak.getD true then none else a.c) l s2 ∧ l ∈ ll := by
  unfold lsOf
  rw [h1, h2]
  simp only
  rw [(C13.ls_restrict _ ll (l, s2)).1, C13.ls_mem_iff]

/-- the excluded branch: a user-given `ls_list` is taken as it is (the selection rule is NOT applied) -/
theorem ls_list_verbatim (a b cc : QN) (o : DOpt) (ls : List (Nat × Nat)) (h : o.lsList = some ls) :
    lsOf a b cc o = ls := by
  unfold lsOf; rw [h]

/-! ## aliases, includes, key order -/

theorem renameKey_idem (k : String) : renameKey (renameKey k) = renameKey k := by
  unfold renameKey
  by_cases h1 : k = "Par" <;> by_cases h2 : k = "m0" <;> by_cases h3 : k = "g0" <;> by_cases h4 : k = "bw" <;>
    simp [h1, h2, h3, h4]

/-- `m0/mass`, `g0/width`, `Par/P`, `bw/model`: spelling the aliases out does not change the normalised dict -/
theorem alias_equiv_dict (d : PDict) : renameParams (expandAliases d) = renameParams d := by
  unfold renameParams expandAliases
  rw [List.foldl_map]
  simp only [renameKey_idem]

theorem qnOf_alias (d : PDict) : qnOf (expandAliases d) = qnOf d := by
  unfold qnOf; rw [alias_equiv_dict]

theorem hasWidth_alias (d : PDict) : hasWidth (expandAliases d) = hasWidth d := by
  unfold hasWidth; rw [alias_equiv_dict]

def mapV (f : PDict → PDict) (p : List (Name × PDict)) : List (Name × PDict) := p.map fun kv => (kv.1, f kv.2)

theorem getKV_mapV (f : PDict → PDict) (p : List (Name × PDict)) (k : Name) :
    getKV (mapV f p) k = (getKV p k).map f := by
  induction p with
  | nil => rfl
  | cons x xs ih =>
    simp only [mapV, List.map_cons, getKV]
    split
    · rfl
    · exact ih

theorem setKV_mapV (f : PDict → PDict) (p : List (Name × PDict)) (k : Name) (v : PDict) :
    setKV (mapV f p) k (f v) = mapV f (setKV p k v) := by
  induction p with
  | nil => rfl
  | cons x xs ih =>
    simp only [mapV, List.map_cons, setKV]
    split
    · rfl
    · simp only [List.map_cons, List.cons.injEq, true_and]; exact ih

theorem updKV_mapV (f : PDict → PDict) (p q : List (Name × PDict)) :
    updKV (mapV f p) (mapV f q) = mapV f (updKV p q) := by
  unfold updKV
  induction q generalizing p with
  | nil => rfl
  | cons x xs ih =>
    simp only [mapV, List.map_cons, List.foldl_cons]
    have := setKV_mapV f p x.1 x.2
    simp only [mapV] at this ih
    rw [this]
    exact ih _

/-- the card with every alias spelled out (particle dicts, `$top`/`$finals` dicts) -/
def aliasEntry : PEntry → PEntry
  | .cands n l => .cands n l
  | .props n d => .props n (expandAliases d)

def aliasCard (c : Card) : Card :=
  { c with
    topDict := c.topDict.map expandAliases
    finalsDict := c.finalsDict.map (mapV expandAliases)
    particle := c.particle.map aliasEntry }

theorem particleMap_alias (d : List PEntry) : particleMap (d.map aliasEntry) = particleMap d := by
  unfold particleMap
  induction d with
  | nil => rfl
  | cons x xs ih => cases x <;> simp_all [aliasEntry]

theorem particleProp_alias (d : List PEntry) : particleProp (d.map aliasEntry) = mapV expandAliases (particleProp d) := by
  unfold particleProp mapV
  induction d with
  | nil => rfl
  | cons x xs ih => cases x <;> simp_all [aliasEntry]

theorem props_alias (c : Card) (merged : List PEntry) :
    (aliasCard c).props (merged.map aliasEntry) = mapV expandAliases (c.props merged) := by
  unfold Card.props aliasCard
  simp only [particleProp_alias]
  cases c.topDict <;> cases c.finalsDict <;> simp [setKV_mapV, updKV_mapV]

theorem ls_alias (props : List (Name × PDict)) (regs : List (BDecay × DOpt)) (d : BDecay) :
    (Ctx.mk (mapV expandAliases props) regs).ls d = (Ctx.mk props regs).ls d := by
  unfold Ctx.ls qnOfName Ctx.optOf
  simp only [getKV_mapV]
  have : ∀ n, qnOf (((getKV props n).map expandAliases).getD []) = qnOf ((getKV props n).getD []) := by
    intro n
    cases getKV props n with
    | none => rfl
    | some v => exact qnOf_alias v
  simp only [this]

theorem paramNames_alias (props : List (Name × PDict)) (regs : List (BDecay × DOpt)) (chains : List Chain) :
    (Ctx.mk (mapV expandAliases props) regs).paramNames chains = (Ctx.mk props regs).paramNames chains := by
  unfold Ctx.paramNames
  have hw : ∀ n, hasWidth ((getKV (mapV expandAliases props) n).getD []) = hasWidth ((getKV props n).getD []) := by
    intro n
    rw [getKV_mapV]
    cases getKV props n with
    | none => rfl
    | some v => exact hasWidth_alias v
  have hl : ∀ d, (Ctx.mk (mapV expandAliases props) regs).ls d = (Ctx.mk props regs).ls d := ls_alias props regs
  simp only [hw, hl]

/-- Aliases are equivalent to their expanded form: for every card without `$include` the card with all aliases
spelled out loads to the same chains, the same (l,s) lists and the same parameter names (or the same error). -/
theorem alias_equiv (c : Card) (hinc : c.includes = []) : view (aliasCard c).expand = view c.expand := by
  have hctx : (aliasCard c).context = c.context.map fun x => ⟨mapV expandAliases x.props, x.regs⟩ := by
    unfold Card.context
    have e1 : (aliasCard c).decay = c.decay := rfl
    have e2 : (aliasCard c).includes = [] := hinc
    have e3 : (aliasCard c).particle = c.particle.map aliasEntry := rfl
    rw [e1, e2, e3, hinc]
    cases decayItem c.decay with
    | none => rfl
    | some decs =>
      simp only [mergeIncludes, List.foldlM_nil, Option.pure_def, Option.bind_eq_bind, Option.bind_some, Option.map_some,
        Option.some.injEq]
      rw [props_alias, particleMap_alias]
  unfold Card.expand
  rw [hctx]
  cases c.context with
  | none => rfl
  | some ctx =>
    have e4 : (aliasCard c).top = c.top := rfl
    have e5 : (aliasCard c).finals = c.finals := rfl
    simp only [Option.map_some, e4, e5]
    cases candidates (ctx.regs.map (·.1)) c.top c.finals with
    | none => rfl
    | some cand =>
      have hl : (Ctx.mk (mapV expandAliases ctx.props) ctx.regs).ls = ctx.ls := funext (ls_alias ctx.props ctx.regs)
      have hs : (Ctx.mk (mapV expandAliases ctx.props) ctx.regs).survives = ctx.survives := by
        funext ch
        unfold Ctx.survives
        rw [hl]
      have hp : (Ctx.mk (mapV expandAliases ctx.props) ctx.regs).paramNames = ctx.paramNames :=
        funext (paramNames_alias ctx.props ctx.regs)
      simp only [hs]
      by_cases h1 : (!cand.all simpleChain) = true
      · simp only [h1, if_true]
      · by_cases h2 : (cand.filter ctx.survives).isEmpty = true
        · simp only [h1, h2, if_true]
        · simp [h1, h2, view, hl, hp]

/-- `$include` equals the textual merge with local override: a card with includes loads exactly like the card
whose particle section is the merged text. -/
theorem include_is_merge (c : Card) (merged : List PEntry) (h : mergeIncludes c.particle c.includes = some merged) :
    ({ c with includes := [], particle := merged } : Card).expand = c.expand := by
  unfold Card.expand Card.context
  rw [h]
  rfl

theorem getKV_setKV (a : PDict) (k' k : String) (v' : PVal) :
    getKV (setKV a k' v') k = if k' = k then some v' else getKV a k := by
  induction a with
  | nil => simp [setKV, getKV]
  | cons y ys ih =>
    simp only [setKV]
    split
    · rename_i hy
      simp only [getKV]
      by_cases hk : k' = k
      · simp [hy, hk]
      · have : ¬ y.1 = k := by rw [hy]; exact hk
        simp [this, hk]
    · rename_i hy1
      simp only [getKV]
      split
      · rename_i hy2
        have : ¬ k' = k := by intro e; apply hy1; rw [hy2, e]
        simp [this]
      · exact ih

theorem getKV_none_of_not_mem (l : PDict) (k : String) (h : k ∉ l.map (·.1)) : getKV l k = none := by
  induction l with
  | nil => rfl
  | cons x xs ih =>
    simp only [List.map_cons, List.mem_cons, not_or] at h
    simp only [getKV]
    rw [if_neg (fun e => h.1 e.symm)]
    exact ih h.2

/-- local override inside one included particle (`s[i].update(d[i])`): for every key the local value wins,
a key that is only in the include keeps the included value (Python dict: the keys of `loc` are distinct). -/
theorem include_local_wins (inc loc : PDict) (hn : (loc.map (·.1)).Nodup) (k : String) :
    getKV (updKV inc loc) k = (getKV loc k).orElse fun _ => getKV inc k := by
  unfold updKV
  induction loc generalizing inc with
  | nil => rfl
  | cons x xs ih =>
    simp only [List.map_cons, List.nodup_cons] at hn
    simp only [List.foldl_cons]
    rw [ih _ hn.2, getKV_setKV]
    simp only [getKV]
    by_cases hx : x.1 = k
    · have : getKV xs k = none := getKV_none_of_not_mem xs k (by rw [← hx]; exact hn.1)
      simp [hx, this]
    · simp [hx]

/-- Order of the keys of the particle section: the loader looks particles up by name, so a card whose particle
entries are permuted (keys distinct, as in any dict) loads identically. Stated on the two look-ups the loader uses. -/
theorem getKV_perm {β : Type} (p q : List (String × β)) (hp : p.Perm q) (hn : (p.map (·.1)).Nodup) (k : String) :
    getKV p k = getKV q k := by
  induction hp with
  | nil => rfl
  | cons x _ ih =>
    simp only [List.map_cons, List.nodup_cons] at hn
    simp only [getKV]
    split
    · rfl
    · exact ih hn.2
  | swap x y l =>
    simp only [List.map_cons, List.nodup_cons, List.mem_cons, not_or] at hn
    simp only [getKV]
    by_cases h1 : y.1 = k <;> by_cases h2 : x.1 = k
    · exact absurd (h1.trans h2.symm) (fun e => hn.1.1 e)
    · simp [h1, h2]
    · simp [h1, h2]
    · simp [h1, h2]
  | trans h1 _ ih1 ih2 =>
    rw [ih1 hn, ih2 ((h1.map (·.1)).nodup_iff.1 hn)]

/-- determinism of the model: the loader model is a function of the card (its content for the implementation
is the correspondence check: three loads of one card in one process agree with this function). -/
theorem expand_deterministic (c₁ c₂ : Card) (h : c₁ = c₂) : view c₁.expand = view c₂.expand := by rw [h]

/-! ## non-vacuity: a concrete card that satisfies the hypotheses of the theorems above
(3-body, two candidates in one slot, an include with an alias, one candidate removed by the parity rule) -/

def exCard : Card :=
  { top := "A", topDict := none, finals := ["B", "C", "D"], finalsDict := none
    includes := [[.props "R2" [("J", .spin 2), ("Par", .int (-1)), ("g0", .other "0.05")]]]
    particle := [.props "A" [("J", .spin 2), ("P", .int (-1))], .props "B" [("J", .spin 2), ("Par", .int (-1))],
      .props "C" [("J", .spin 0), ("P", .int (-1))], .props "D" [("P", .int (-1))],
      .cands "R_BC" ["R1", "R2"], .cands "R_BD" ["R3"],
      .props "R1" [("J", .spin 2), ("P", .int 1), ("m0", .other "2.6")], .props "R2" [("m0", .other "2.7")],
      .props "R3" [("J", .spin 0), ("P", .int 1)]]
    decay := [("A", .nested [[.name "R_BC", .name "D"], [.name "R_BD", .name "C"]]),
      ("R_BC", .flat [.name "B", .name "C", .opt { lList := some [0, 1] }]), ("R_BD", .flat [.name "B", .name "D"])] }

def exOK : Bool :=
  match exCard.expand with
  | .ok ctx ch =>
    ch.map showChain == ["[A->R1+D, R1->B+C]", "[A->R2+D, R2->B+C]"] &&
    ch.map (fun c => c.map ctx.ls) == [[[(0, 2), (2, 2)], [(0, 2)]], [[(1, 2)], [(1, 2)]]] &&
    ctx.paramNames ch == ["R1_mass", "R2_mass", "R2_width", "A->R1.DR1->B.C_total_0r", "A->R1.DR1->B.C_total_0i",
      "A->R1.D_g_ls_0r", "A->R1.D_g_ls_0i", "A->R1.D_g_ls_1r", "A->R1.D_g_ls_1i", "R1->B.C_g_ls_0r", "R1->B.C_g_ls_0i",
      "A->R2.DR2->B.C_total_0r", "A->R2.DR2->B.C_total_0i", "A->R2.D_g_ls_0r", "A->R2.D_g_ls_0i",
      "R2->B.C_g_ls_0r", "R2->B.C_g_ls_0i"]
  | .raise _ => false

example : exOK = true := by decide +kernel

/-- the hypothesis `c.expand = .ok ctx chains` of `chains_are_trees`, `cut_sound_complete`,
`chain_decays_declared`, `no_allowed_chain_dropped` holds for `exCard` (with two chains, one candidate cut) -/
example : ∃ ctx chains, exCard.expand = .ok ctx chains := by
  cases h : exCard.expand with
  | ok ctx ch => exact ⟨ctx, ch, rfl⟩
  | raise w =>
    exfalso
    have : exOK = true := by decide +kernel
    unfold exOK at this
    rw [h] at this
    simp at this

example : exCard.includes ≠ [] ∧ (aliasCard { exCard with includes := [] }).particle ≠ exCard.particle := by
  decide +kernel

end TfPwaV.C19
