import TfPwaV.Props.C19b
/-!
# C19 (continued) — aliases together with `$include`

`alias_equiv_include`: for every card with ONE include whose dicts are alias-clean (no dict spells the same
property twice, e.g. both `m0` and `mass` — exactly the condition under which the expanded card is a dict at all),
spelling all aliases out (card and include) gives the same outcome.
`alias_include_two_refuted`: with TWO includes the statement is false for the loader as it is (the model reproduces
`_do_include_dict`): a value spelled with an alias in the first include survives the merge and overrides the card.
-/
namespace TfPwaV.C19
open TfPwaV.Config

/-! ## what `rename_params` keeps of a dict: per canonical key the LAST entry -/

def lastR : PDict → String → Option PVal
  | [], _ => none
  | y :: ys, K =>
    match lastR ys K with
    | some v => some v
    | none => if renameKey y.1 = K then some y.2 else none

theorem getKV_renameParams_aux (d acc : PDict) (K : String) :
    getKV (d.foldl (fun acc kv => setKV acc (renameKey kv.1) kv.2) acc) K =
      match lastR d K with
      | some v => some v
      | none => getKV acc K := by
  induction d generalizing acc with
  | nil => rfl
  | cons y ys ih =>
    simp only [List.foldl_cons, lastR]
    rw [ih, getKV_setKV_gen]
    cases lastR ys K with
    | some v => rfl
    | none =>
      simp only
      split <;> rfl

theorem getKV_renameParams (d : PDict) (K : String) : getKV (renameParams d) K = lastR d K := by
  unfold renameParams
  rw [getKV_renameParams_aux]
  cases lastR d K <;> rfl

def ReadAgree (d d' : PDict) : Prop := ∀ K, lastR d K = lastR d' K

theorem readAgree_qn {d d' : PDict} (h : ReadAgree d d') : qnOf d = qnOf d' ∧ hasWidth d = hasWidth d' := by
  refine ⟨?_, ?_⟩
  · unfold qnOf; simp only [getKV_renameParams, h _]
  · unfold hasWidth; simp only [getKV_renameParams, h _]

theorem lastR_alias (d : PDict) (K : String) : lastR (expandAliases d) K = lastR d K := by
  unfold expandAliases
  induction d with
  | nil => rfl
  | cons y ys ih =>
    simp only [List.map_cons, lastR, ih, renameKey_idem]

theorem readAgree_alias (d : PDict) : ReadAgree d (expandAliases d) := fun K => (lastR_alias d K).symm

/-! ## alias-clean dicts and `dict.update` -/

def noK (d : PDict) (K : String) : Prop := ∀ kv ∈ d, renameKey kv.1 ≠ K

/-- at most one key of the dict is a spelling of `K` -/
def CleanK : PDict → String → Prop
  | [], _ => True
  | y :: ys, K => (renameKey y.1 = K → noK ys K) ∧ CleanK ys K

/-- no property is spelled twice -/
def Clean (d : PDict) : Prop := (d.map fun kv => renameKey kv.1).Nodup

theorem clean_cleanK (d : PDict) (h : Clean d) (K : String) : CleanK d K := by
  induction d with
  | nil => trivial
  | cons y ys ih =>
    unfold Clean at h
    simp only [List.map_cons, List.nodup_cons] at h
    refine ⟨?_, ih h.2⟩
    intro hy kv hkv e
    apply h.1
    rw [hy, ← e]
    exact List.mem_map.2 ⟨kv, hkv, rfl⟩

theorem noK_alias (d : PDict) (K : String) : noK (expandAliases d) K ↔ noK d K := by
  unfold noK expandAliases
  constructor
  · intro h kv hkv
    have := h (renameKey kv.1, kv.2) (List.mem_map.2 ⟨kv, hkv, rfl⟩)
    simpa [renameKey_idem] using this
  · intro h kv hkv
    obtain ⟨kv0, h0, rfl⟩ := List.mem_map.1 hkv
    simpa [renameKey_idem] using h kv0 h0

theorem cleanK_alias (d : PDict) (K : String) (h : CleanK d K) : CleanK (expandAliases d) K := by
  induction d with
  | nil => trivial
  | cons y ys ih =>
    obtain ⟨h1, h2⟩ := h
    refine ⟨?_, ih h2⟩
    intro hy
    have : noK (expandAliases ys) K := (noK_alias ys K).2 (h1 (by simpa [renameKey_idem] using hy))
    exact this

theorem lastR_noK (d : PDict) (K : String) (h : noK d K) : lastR d K = none := by
  induction d with
  | nil => rfl
  | cons y ys ih =>
    have hy : renameKey y.1 ≠ K := h y (by simp)
    have := ih (fun kv hkv => h kv (by simp [hkv]))
    simp [lastR, this, hy]

theorem noK_setKV (a : PDict) (k : String) (v : PVal) (K : String) (hk : renameKey k ≠ K) (h : noK a K) :
    noK (setKV a k v) K := by
  induction a with
  | nil => intro kv hkv; simp only [setKV, List.mem_singleton] at hkv; subst hkv; exact hk
  | cons y ys ih =>
    simp only [setKV]
    split
    · rename_i hy
      intro kv hkv
      rcases List.mem_cons.1 hkv with rfl | hkv
      · simpa [hy] using hk
      · exact h kv (by simp [hkv])
    · intro kv hkv
      rcases List.mem_cons.1 hkv with rfl | hkv
      · exact h _ (by simp)
      · exact ih (fun kv hkv => h kv (by simp [hkv])) kv hkv

theorem lastR_setKV_ne (a : PDict) (k : String) (v : PVal) (K : String) (hk : renameKey k ≠ K) :
    lastR (setKV a k v) K = lastR a K := by
  induction a with
  | nil => simp [setKV, lastR, hk]
  | cons y ys ih =>
    simp only [setKV]
    split
    · rename_i hy
      have : renameKey y.1 ≠ K := by rw [hy]; exact hk
      simp [lastR, this]
    · simp only [lastR, ih]

theorem cleanK_setKV_ne (a : PDict) (k : String) (v : PVal) (K : String) (hk : renameKey k ≠ K) (h : CleanK a K) :
    CleanK (setKV a k v) K := by
  induction a with
  | nil => exact ⟨fun e => absurd e hk, trivial⟩
  | cons y ys ih =>
    obtain ⟨h1, h2⟩ := h
    simp only [setKV]
    split
    · rename_i hy
      exact ⟨fun e => h1 e, h2⟩
    · exact ⟨fun e => noK_setKV ys k v K hk (h1 e), ih h2⟩

theorem lastR_setKV_eq (a : PDict) (k : String) (v : PVal) (K : String) (hk : renameKey k = K) (h : CleanK a K) :
    lastR (setKV a k v) K = some v := by
  induction a with
  | nil => simp [setKV, lastR, hk]
  | cons y ys ih =>
    obtain ⟨h1, h2⟩ := h
    simp only [setKV]
    split
    · rename_i hy
      have hyK : renameKey y.1 = K := by rw [hy]; exact hk
      simp [lastR, lastR_noK ys K (h1 hyK), hyK]
    · simp [lastR, ih h2]

theorem lastR_updKV_noK (a b : PDict) (K : String) (h : noK b K) : lastR (updKV a b) K = lastR a K := by
  unfold updKV
  induction b generalizing a with
  | nil => rfl
  | cons x xs ih =>
    simp only [List.foldl_cons]
    rw [ih _ (fun kv hkv => h kv (by simp [hkv])), lastR_setKV_ne _ _ _ _ (h x (by simp))]

/-- `inc.update(loc)` read through `rename_params`: the local value wins, whatever the two spellings -/
theorem lastR_updKV (a b : PDict) (K : String) (ha : CleanK a K) (hb : CleanK b K) :
    lastR (updKV a b) K = match lastR b K with
      | some v => some v
      | none => lastR a K := by
  induction b generalizing a with
  | nil => rfl
  | cons x xs ih =>
    obtain ⟨h1, h2⟩ := hb
    by_cases hx : renameKey x.1 = K
    · have hn := h1 hx
      have e1 : lastR (updKV a (x :: xs)) K = lastR (updKV (setKV a x.1 x.2) xs) K := rfl
      rw [e1, lastR_updKV_noK _ _ _ hn, lastR_setKV_eq _ _ _ _ hx ha]
      simp [lastR, lastR_noK xs K hn, hx]
    · have e1 : lastR (updKV a (x :: xs)) K = lastR (updKV (setKV a x.1 x.2) xs) K := rfl
      rw [e1, ih _ (cleanK_setKV_ne _ _ _ _ hx ha) h2, lastR_setKV_ne _ _ _ _ hx]
      simp only [lastR]
      cases lastR xs K with
      | some v => rfl
      | none => simp [hx]

theorem readAgree_merge (inc loc : PDict) (hi : Clean inc) (hl : Clean loc) :
    ReadAgree (updKV inc loc) (updKV (expandAliases inc) (expandAliases loc)) := by
  intro K
  rw [lastR_updKV _ _ K (clean_cleanK _ hi K) (clean_cleanK _ hl K),
    lastR_updKV _ _ K (cleanK_alias _ K (clean_cleanK _ hi K)) (cleanK_alias _ K (clean_cleanK _ hl K)),
    lastR_alias, lastR_alias]

/-! ## the merge of one include on related particle sections -/

/-- entries of the raw and of the alias-expanded section; `T` = keys already merged with the include -/
def EntRel (T : List Name) : PEntry → PEntry → Prop
  | .cands n l, .cands n' l' => n = n' ∧ l = l'
  | .props n d, .props n' d' => n = n' ∧ ReadAgree d d' ∧ (n ∉ T → d' = expandAliases d ∧ Clean d)
  | _, _ => False

theorem entRel_key {T : List Name} {e e' : PEntry} (h : EntRel T e e') : e.key = e'.key := by
  cases e <;> cases e' <;> simp_all [EntRel, PEntry.key]

theorem entRel_mono {T T' : List Name} (hT : ∀ n, n ∈ T → n ∈ T') {e e' : PEntry} (h : EntRel T e e') :
    EntRel T' e e' := by
  cases e with
  | cands n l =>
    cases e' with
    | cands n' l' => exact h
    | props _ _ => exact h
  | props n d =>
    cases e' with
    | cands _ _ => exact h
    | props n' d' =>
      obtain ⟨h1, h2, h3⟩ := h
      exact ⟨h1, h2, fun hn => h3 (fun hx => hn (hT _ hx))⟩

inductive ERel (T : List Name) : List PEntry → List PEntry → Prop
  | nil : ERel T [] []
  | cons {a b : PEntry} {as bs : List PEntry} : EntRel T a b → ERel T as bs → ERel T (a :: as) (b :: bs)

theorem eRel_mono {T T' : List Name} (hT : ∀ n, n ∈ T → n ∈ T') {l l' : List PEntry} (h : ERel T l l') :
    ERel T' l l' := by
  induction h with
  | nil => exact .nil
  | cons h1 _ ih => exact .cons (entRel_mono hT h1) ih

theorem eRel_append {T : List Name} {l l' m m' : List PEntry} (h : ERel T l l') (h2 : ERel T m m') :
    ERel T (l ++ m) (l' ++ m') := by
  induction h with
  | nil => exact h2
  | cons h1 _ ih => exact .cons h1 ih

theorem findEntry_rel {T : List Name} {l l' : List PEntry} (h : ERel T l l') (k : Name) :
    (findEntry l k = none ∧ findEntry l' k = none) ∨
      ∃ e e', findEntry l k = some e ∧ findEntry l' k = some e' ∧ EntRel T e e' ∧ e.key = k := by
  induction h with
  | nil => left; exact ⟨rfl, rfl⟩
  | @cons a b as bs h1 _ ih =>
    simp only [findEntry]
    have hk := entRel_key h1
    by_cases ha : a.key = k
    · right
      exact ⟨a, b, by simp [ha], by simp [← hk, ha], h1, ha⟩
    · have hb : ¬ b.key = k := by rw [← hk]; exact ha
      simp only [ha, hb, if_false]
      exact ih

theorem replaceEntry_rel {T : List Name} {l l' : List PEntry} (h : ERel T l l') {e e' : PEntry}
    (he : EntRel T e e') : ERel T (replaceEntry l e) (replaceEntry l' e') := by
  induction h with
  | nil => exact .cons he .nil
  | @cons a b as bs h1 h2 ih =>
    simp only [replaceEntry]
    have hk := entRel_key h1
    have hk' := entRel_key he
    by_cases ha : a.key = e.key
    · have hb : b.key = e'.key := by rw [← hk, ha, hk']
      simp only [ha, hb, if_true]
      exact .cons he h2
    · have hb : ¬ b.key = e'.key := by rw [← hk, ← hk']; exact ha
      simp only [ha, hb, if_false]
      exact .cons h1 ih

def aliasEntries (l : List PEntry) : List PEntry := l.map aliasEntry

/-- the body of the loop of `_do_include_dict` -/
def incStep (d : List PEntry) (si : PEntry) : Option (List PEntry) :=
  match findEntry d si.key with
  | none => some (d ++ [si])
  | some (.cands _ _) => some d
  | some (.props n loc) =>
    match si with
    | .props _ inc => some (replaceEntry d (.props n (updKV inc loc)))
    | .cands _ _ => none

theorem doInclude_nil (d : List PEntry) : doInclude d [] = some d := rfl

theorem doInclude_cons (d : List PEntry) (si : PEntry) (ss : List PEntry) :
    doInclude d (si :: ss) = (incStep d si).bind fun r => doInclude r ss := by
  unfold doInclude
  rw [List.foldlM_cons]
  rfl

/-- one step of `_do_include_dict` on related sections -/
theorem doInclude_step {T : List Name} {d d' : List PEntry} (h : ERel T d d') (si : PEntry)
    (hk : si.key ∉ T) (hc : ∀ n inc, si = .props n inc → Clean inc) :
    (incStep d si = none ∧ incStep d' (aliasEntry si) = none) ∨
      ∃ r r', incStep d si = some r ∧ incStep d' (aliasEntry si) = some r' ∧ ERel (si.key :: T) r r' := by
  have hkey : (aliasEntry si).key = si.key := by cases si <;> rfl
  have hmono : ∀ n, n ∈ T → n ∈ si.key :: T := fun n hn => List.mem_cons_of_mem _ hn
  have hsi : EntRel (si.key :: T) si (aliasEntry si) := by
    cases si with
    | cands n l => exact ⟨rfl, rfl⟩
    | props n inc => exact ⟨rfl, readAgree_alias inc, fun hn => absurd (by simp [PEntry.key]) hn⟩
  rcases findEntry_rel h si.key with ⟨h1, h2⟩ | ⟨e, e', h1, h2, hr, hek⟩
  · right
    refine ⟨d ++ [si], d' ++ [aliasEntry si], ?_, ?_, ?_⟩
    · unfold incStep; rw [h1]
    · unfold incStep; rw [hkey, h2]
    · exact eRel_append (eRel_mono hmono h) (.cons hsi .nil)
  · cases e with
    | cands n l =>
      cases e' with
      | props _ _ => exact absurd hr (by simp [EntRel])
      | cands n' l' =>
        right
        refine ⟨d, d', ?_, ?_, eRel_mono hmono h⟩
        · unfold incStep; rw [h1]
        · unfold incStep; rw [hkey, h2]
    | props n loc =>
      cases e' with
      | cands _ _ => exact absurd hr (by simp [EntRel])
      | props n' loc' =>
        obtain ⟨hnn, _, hun⟩ := hr
        subst hnn
        have hnk : n = si.key := hek
        obtain ⟨hloc, hcl⟩ := hun (by rw [hnk]; exact hk)
        subst hloc
        cases si with
        | cands m l =>
          left
          refine ⟨?_, ?_⟩
          · unfold incStep; rw [h1]
          · unfold incStep; rw [hkey, h2]; rfl
        | props m inc =>
          right
          refine ⟨replaceEntry d (.props n (updKV inc loc)),
            replaceEntry d' (.props n (updKV (expandAliases inc) (expandAliases loc))), ?_, ?_, ?_⟩
          · unfold incStep; rw [h1]
          · unfold incStep; rw [hkey, h2]; rfl
          · apply replaceEntry_rel (eRel_mono hmono h)
            refine ⟨rfl, readAgree_merge inc loc (hc m inc rfl) hcl, fun hn => absurd ?_ hn⟩
            rw [hnk]; simp

theorem doInclude_rel (s : List PEntry) : ∀ {T : List Name} {d d' : List PEntry}, ERel T d d' →
    (∀ k ∈ s.map PEntry.key, k ∉ T) → (s.map PEntry.key).Nodup →
    (∀ e ∈ s, ∀ n inc, e = .props n inc → Clean inc) →
    (doInclude d s = none ∧ doInclude d' (aliasEntries s) = none) ∨
      ∃ r r' T', doInclude d s = some r ∧ doInclude d' (aliasEntries s) = some r' ∧ ERel T' r r' := by
  induction s with
  | nil => intro T d d' h _ _ _; right; exact ⟨d, d', T, rfl, rfl, h⟩
  | cons si ss ih =>
    intro T d d' h hT hn hc
    simp only [List.map_cons, List.nodup_cons] at hn
    have hstep := doInclude_step h si (hT _ (by simp)) (fun n inc e => hc si (by simp) n inc e)
    have ea : aliasEntries (si :: ss) = aliasEntry si :: aliasEntries ss := rfl
    rw [ea, doInclude_cons, doInclude_cons]
    rcases hstep with ⟨h1, h2⟩ | ⟨r, r', h1, h2, hr⟩
    · left
      rw [h1, h2]
      exact ⟨rfl, rfl⟩
    · rw [h1, h2]
      simp only [Option.bind_some]
      exact ih hr (fun k hk => by
        intro hm
        rcases List.mem_cons.1 hm with rfl | hm
        · exact hn.1 hk
        · exact hT k (by simp [hk]) hm) hn.2 (fun e he => hc e (by simp [he]))

/-! ## from related sections to indistinguishable property tables -/

theorem particleMap_rel {T : List Name} {l l' : List PEntry} (h : ERel T l l') : particleMap l' = particleMap l := by
  induction h with
  | nil => rfl
  | @cons a b as bs h1 _ ih =>
    unfold particleMap at ih ⊢
    cases a with
    | cands n l =>
      cases b with
      | cands n' l' =>
        obtain ⟨rfl, rfl⟩ := h1
        simp only [List.filterMap_cons, ih]
      | props _ _ => exact absurd h1 (by simp [EntRel])
    | props n d =>
      cases b with
      | cands _ _ => exact absurd h1 (by simp [EntRel])
      | props n' d' => simp only [List.filterMap_cons, ih]

/-- per name: both tables have a dict, readable alike, or both have none -/
def PRel (p p' : List (Name × PDict)) : Prop :=
  ∀ n, match getKV p n, getKV p' n with
    | some d, some d' => ReadAgree d d'
    | none, none => True
    | _, _ => False

theorem particleProp_rel {T : List Name} {l l' : List PEntry} (h : ERel T l l') : PRel (particleProp l) (particleProp l') := by
  induction h with
  | nil => intro n; simp [particleProp, getKV]
  | @cons a b as bs h1 _ ih =>
    unfold particleProp at ih ⊢
    cases a with
    | cands n l =>
      cases b with
      | cands _ _ => simpa only [List.filterMap_cons] using ih
      | props _ _ => exact absurd h1 (by simp [EntRel])
    | props n d =>
      cases b with
      | cands _ _ => exact absurd h1 (by simp [EntRel])
      | props n' d' =>
        obtain ⟨rfl, hra, _⟩ := h1
        intro m
        simp only [List.filterMap_cons, getKV]
        by_cases hm : n = m
        · simp only [hm, if_true]; exact hra
        · simp only [hm, if_false]; exact ih m

theorem pRel_setKV {p p' : List (Name × PDict)} (h : PRel p p') (k : Name) {d d' : PDict} (hd : ReadAgree d d') :
    PRel (setKV p k d) (setKV p' k d') := by
  intro n
  rw [getKV_setKV_gen, getKV_setKV_gen]
  by_cases hk : k = n
  · simp only [hk, if_true]; exact hd
  · simp only [hk, if_false]; exact h n

theorem pRel_updKV {p p' : List (Name × PDict)} (h : PRel p p') (fd : List (Name × PDict)) :
    PRel (updKV p fd) (updKV p' (mapV expandAliases fd)) := by
  unfold updKV mapV
  induction fd generalizing p p' with
  | nil => exact h
  | cons x xs ih =>
    simp only [List.map_cons, List.foldl_cons]
    exact ih (pRel_setKV h x.1 (readAgree_alias x.2))

theorem pRel_agree {p p' : List (Name × PDict)} (h : PRel p p') : PropsAgree p p' := by
  intro n
  have := h n
  cases h1 : getKV p n with
  | none =>
    cases h2 : getKV p' n with
    | none => exact ⟨rfl, rfl⟩
    | some d' => simp only [h1, h2] at this
  | some d =>
    cases h2 : getKV p' n with
    | none => simp only [h1, h2] at this
    | some d' =>
      simp only [h1, h2] at this
      exact readAgree_qn this

/-- the card with every alias spelled out, in the card AND in its includes -/
def aliasCardInc (c : Card) : Card :=
  { aliasCard c with includes := c.includes.map aliasEntries }

/-- Aliases together with `$include`: for every card with one include (distinct keys, as any dict) in which no
dict spells a property twice, spelling all aliases out — in the card and in the include — gives the same ordered
chains, (l,s) lists and parameter names (or the same error). -/
theorem alias_equiv_include (c : Card) (s : List PEntry) (hinc : c.includes = [s])
    (hs : (s.map PEntry.key).Nodup)
    (hclean : ∀ e ∈ c.particle ++ s, ∀ n d, e = .props n d → Clean d) :
    view (aliasCardInc c).expand = view c.expand := by
  have h0 : ERel [] c.particle (c.particle.map aliasEntry) := by
    have : ∀ l : List PEntry, (∀ e ∈ l, ∀ n d, e = .props n d → Clean d) → ERel [] l (l.map aliasEntry) := by
      intro l
      induction l with
      | nil => intro _; exact .nil
      | cons a as ih =>
        intro hl
        refine .cons ?_ (ih fun e he => hl e (by simp [he]))
        cases a with
        | cands n l => exact ⟨rfl, rfl⟩
        | props n d => exact ⟨rfl, readAgree_alias d, fun _ => ⟨rfl, hl _ (by simp) n d rfl⟩⟩
    exact this _ (fun e he => hclean e (by simp [he]))
  have hm := doInclude_rel s h0 (fun k _ => by simp) hs (fun e he => hclean e (by simp [he]))
  refine expand_congr c (aliasCardInc c) rfl rfl ?_
  have e1 : (aliasCardInc c).context = (do
      let decs ← decayItem c.decay
      let merged ← doInclude (c.particle.map aliasEntry) (aliasEntries s)
      some ⟨(aliasCardInc c).props merged, registerAll (particleMap merged) decs⟩) := by
    unfold Card.context aliasCardInc aliasCard
    simp only [hinc, List.map_cons, List.map_nil, mergeIncludes, List.foldlM_cons, List.foldlM_nil, Option.pure_def,
      Option.bind_eq_bind]
    cases decayItem c.decay with
    | none => rfl
    | some decs =>
      simp only [Option.bind_some]
      cases doInclude (c.particle.map aliasEntry) (aliasEntries s) <;> rfl
  have e2 : c.context = (do
      let decs ← decayItem c.decay
      let merged ← doInclude c.particle s
      some ⟨c.props merged, registerAll (particleMap merged) decs⟩) := by
    unfold Card.context
    simp only [hinc, mergeIncludes, List.foldlM_cons, List.foldlM_nil, Option.pure_def, Option.bind_eq_bind]
    cases decayItem c.decay with
    | none => rfl
    | some decs =>
      simp only [Option.bind_some]
      cases doInclude c.particle s <;> rfl
  rw [e1, e2]
  cases decayItem c.decay with
  | none => left; exact ⟨rfl, rfl⟩
  | some decs =>
    simp only [Option.bind_eq_bind, Option.bind_some]
    rcases hm with ⟨h1, h2⟩ | ⟨r, r', T', h1, h2, hr⟩
    · left; rw [h1, h2]; exact ⟨rfl, rfl⟩
    · right
      rw [h1, h2]
      simp only [Option.bind_some]
      refine ⟨c.props r, (aliasCardInc c).props r', registerAll (particleMap r) decs, rfl, ?_, ?_⟩
      · rw [particleMap_rel hr]
      · apply pRel_agree
        have hp := particleProp_rel hr
        unfold Card.props aliasCardInc aliasCard
        simp only
        cases c.topDict with
        | none =>
          cases c.finalsDict with
          | none => exact hp
          | some fd => exact pRel_updKV hp fd
        | some td =>
          have h1 := pRel_setKV hp c.top (readAgree_alias td)
          cases c.finalsDict with
          | none => exact h1
          | some fd => exact pRel_updKV h1 fd

/-- non-vacuity: `exCard` (one include with `Par`/`g0`, local dicts with `m0`, all alias-clean) -/
example : ∃ s, exCard.includes = [s] ∧ (s.map PEntry.key).Nodup ∧ (aliasCardInc exCard).includes ≠ exCard.includes :=
  ⟨_, rfl, by decide +kernel, by decide +kernel⟩

/-! ## two includes: the equivalence FAILS for the loader as it is -/

/-- `R` is declared with `P: 1` in the card; include 1 says `Par: -1`, include 2 says `P: -1`.
`_do_include_dict` twice gives `{P: 1, Par: -1, …}` and `rename_params` then lets `Par` win. -/
def twoIncCard : Card :=
  { top := "A", topDict := some [("J", .spin 2), ("P", .int (-1))], finals := ["B", "C", "D"]
    finalsDict := some [("B", [("J", .spin 2), ("P", .int (-1))]), ("C", [("P", .int (-1))]), ("D", [("P", .int (-1))])]
    includes := [[.props "R" [("Par", .int (-1)), ("width", .other "0.1")]], [.props "R" [("P", .int (-1))]]]
    particle := [.props "R" [("J", .spin 2), ("P", .int 1), ("mass", .other "2.0")]]
    decay := [("A", .flat [.name "R", .name "D"]), ("R", .flat [.name "B", .name "C"])] }

def lsView (c : Card) : List (List (List (Nat × Nat))) :=
  match view c.expand with
  | .ok (_, ls, _) => ls
  | .error _ => []

/-- Refutation: with two includes, spelling the aliases out changes the loaded model (the card's own parity wins
only in the expanded spelling).  The real loader behaves like the model here (harness `two_include_demo`). -/
theorem alias_include_two_refuted :
    lsView twoIncCard = [[[(1, 2)], [(1, 2)]]] ∧ lsView (aliasCardInc twoIncCard) = [[[(0, 2), (2, 2)], [(0, 2), (2, 2)]]] := by
  decide +kernel

/-! ## non-vacuity of `hclean`, decidable form -/

instance (d : PDict) : Decidable (Clean d) := by unfold Clean; exact inferInstance

def allClean (l : List PEntry) : Bool :=
  l.all fun e => match e with
    | .props _ d => decide (Clean d)
    | .cands _ _ => true

theorem allClean_spec (l : List PEntry) (h : allClean l = true) : ∀ e ∈ l, ∀ n d, e = .props n d → Clean d := by
  intro e he n d hd
  subst hd
  have := List.all_eq_true.1 h _ he
  simpa using this

example : allClean (exCard.particle ++ exCard.includes.flatten) = true := by decide +kernel

/-! ## export → import (`as_config`)

/-- FULL: for every card `c` that loads, `view (c.roundTrip)` has the same chain set, quantum numbers, `p_break`,
`c_break` as `view c.expand` (the chain order and the (l,s) lists too when no `l_list`/`ls_list` is used). -/
Proved below: the export keeps, for EVERY property table and particle, exactly what the loader reads of a particle
(J, P, C, presence of a width), and for every decay without `l_list`/`ls_list` the exported options give the same
(l,s) list.  NOT proved: that the registry rebuilt from the exported decay section reproduces the same trees
(validated on every generated card: driver op `rt` against the chains of the original and against the real
export → load).  A kernel-evaluated instance is given. -/

theorem lastR_export (vj vp vc vm vw : PVal) :
    lastR [("J", vj), ("P", vp), ("C", vc), ("mass", vm), ("width", vw)] "J" = some vj ∧
    lastR [("J", vj), ("P", vp), ("C", vc), ("mass", vm), ("width", vw)] "P" = some vp ∧
    lastR [("J", vj), ("P", vp), ("C", vc), ("mass", vm), ("width", vw)] "C" = some vc ∧
    lastR [("J", vj), ("P", vp), ("C", vc), ("mass", vm), ("width", vw)] "width" = some vw := by
  simp [lastR, renameKey]

theorem export_import_partial_qn (props : List (Name × PDict)) (n : Name) :
    qnOf (exportDict props n) = qnOfName props n ∧
      hasWidth (exportDict props n) = hasWidth ((getKV props n).getD []) := by
  refine ⟨?_, ?_⟩
  · unfold qnOf
    simp only [getKV_renameParams]
    unfold exportDict
    simp only [(lastR_export _ _ _ _ _).1, (lastR_export _ _ _ _ _).2.1, (lastR_export _ _ _ _ _).2.2.1]
    cases hq : qnOfName props n with
    | mk j pp cc => cases pp <;> cases cc <;> rfl
  · unfold hasWidth
    rw [getKV_renameParams]
    unfold exportDict
    simp only [(lastR_export _ _ _ _ _).2.2.2]
    cases getKV (renameParams ((getKV props n).getD [])) "width" with
    | none => rfl
    | some v => cases v <;> rfl

theorem export_import_partial_ls (a b cc : QN) (o : DOpt) (h1 : o.lsList = none) (h2 : o.lList = none) :
    lsOf a b cc { pBreak := some (o.pBreak.getD false), cBreak := some (o.cBreak.getD true) } = lsOf a b cc o := by
  unfold lsOf
  simp [h1, h2]

/-- `exCard` without its `l_list` option -/
def exCard2 : Card :=
  { exCard with decay := [("A", .nested [[.name "R_BC", .name "D"], [.name "R_BD", .name "C"]]),
      ("R_BC", .flat [.name "B", .name "C"]), ("R_BD", .flat [.name "B", .name "D"])] }

def sameView (a b : Outcome) : Bool :=
  match a, b with
  | .ok x ch, .ok y ch' => ch == ch' && ch.map (fun c => c.map x.ls) == ch'.map (fun c => c.map y.ls) &&
      x.paramNames ch == y.paramNames ch'
  | _, _ => false

/-- round trip on a concrete card (two chains, one removed by the cut): same ordered chains, couplings, names -/
theorem export_import_instance : sameView exCard2.roundTrip exCard2.expand = true := by decide +kernel

end TfPwaV.C19
