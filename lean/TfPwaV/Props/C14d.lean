import TfPwaV.Props.C14c
import TfPwaV.Proofs.TopologyStdL
/-!
# C14d — the two `_partial` theorems of C14c in FULL, and `get_chains_map` for every n

1. `standard_topology_keeps_id`: the model's `standard_topology` IS a renaming that is injective on the vertices and
   fixes finals and top (bookkeeping of its three `name_map` loops, `Proofs/TopologyStd.lean`), for EVERY chain of a
   named binary tree, under the explicit hypothesis `StdNaming` on the three name operations; `StdNaming` is PROVED for
   names as structured values (`List Char`: `PtL.repr`, `fmtL`, `PtL.parse` of `Model/TopologyNames.lean`) under the
   well-formedness predicate `NameWF` (no ',' in `str(p)`, `BaseParticle(str(p)) == p`, for top and finals), with
   kernel-checked counter-examples when either half of `NameWF` is dropped.
2. `topology_map_is_morphism` for `identical=False`: equal `topology_id` ⇒ the chains are renamed copies of one tree
   (`Proofs/TopologySameId.lean`: both rebuild from the same table) ⇒ `topology_map` is a bijection of the vertices
   fixing the finals and mapping decays to decays.  Witness of failure for `identical=True`.
3. `get_chains_map` (after fix 41067a5) for every group of binary-tree chains, every n: the call returns, every chain is
   in exactly one class, every listed map is a tree morphism of the class representative onto the chain.
4. `from_particles_chains_are_trees`: every enumerated chain (every n) satisfies the tree hypothesis of 1–3.
-/
namespace TfPwaV.C14
open TfPwaV.Topology

/-! ## 1. `standard_topology` keeps `topology_id` -/

section std
variable {α σ κ : Type} [DecidableEq α] [LT α] [DecidableLT α] [LT σ] [DecidableLT σ]
  [DecidableEq κ] [LT κ] [DecidableLT κ]

/-- ★ FULL statement (the renaming step alone is `renaming_keeps_topology_id`, Props/C14c.lean).  For EVERY named binary tree
`a → l r` with pairwise different vertices (any number of finals), EVERY chain `c` that consists of its decays (any
order of decays and daughters), EVERY name layer (`repr` = `str`, `fmt` = the "(B, C)" formatting, `parse` =
`BaseParticle(..)`) that satisfies `StdNaming` for the top and the finals of the tree, and EVERY key (`identical` flag):
`standard_topology(c)` returns a chain `c'`; `c'` is `c` with every particle replaced by `f(particle)` for ONE map `f`
(the `particle_map` of the code) that is injective on the vertices, fixes every final particle and the top particle;
`c'` consists of the decays of the renamed tree (pairwise different vertices again); and
`topology_id(c') = topology_id(c)`, which exists. -/
theorem standard_topology_keeps_id (hα : LinLt α) (hκ : LinLt κ) (key : α → κ)
    (repr : α → σ) (fmt : List σ → σ) (parse : σ → α) {c : Chain α} {a : α} {l r : NT α}
    (hc : Rep c (NT.node a l r)) (hv : (NT.node a l r).verts.Nodup)
    (hnm : StdNaming repr fmt parse a (NT.node a l r).leaves) :
    ∃ c' f, standardTopologyG repr fmt parse c = some c' ∧ c' = c.map (Decay.rename f) ∧
      (∀ x ∈ (NT.node a l r).verts, ∀ y ∈ (NT.node a l r).verts, f x = f y → x = y) ∧
      (∀ z ∈ (NT.node a l r).leaves, f z = z) ∧ f a = a ∧
      Rep c' ((NT.node a l r).mapN f) ∧ ((NT.node a l r).mapN f).verts.Nodup ∧
      topologyId key c' = topologyId key c ∧ (topologyId key c).isSome := by
  obtain ⟨f, e, hinj, hfix, hfa⟩ := standardTopologyG_is_renaming hα repr fmt parse hc hv hnm
  obtain ⟨h1, h2⟩ := hc.rename f hinj
  obtain ⟨h3, h4⟩ := Rep.rename_topologyId hα hκ key hc hv f hinj hfix
  exact ⟨_, f, e, rfl, hinj, hfix, hfa, h1, h2 hv, h3, h4⟩

end std

/-- ★ the same for the String model `standardTopology` of Model/Topology.lean (the function the driver runs as
`C14 std`), which is `standardTopologyG` at `Pt.repr`, `"(" ++ ", ".intercalate · ++ ")"`, `Pt.parse` by `rfl`: the
only hypothesis left is `StdNaming` for these three String operations (Lean's `String.splitOn` / `toInt?` /
`intercalate`, for which core Lean has no lemmas; see `standard_topology_keeps_id_names` for the proved instance). -/
theorem standard_topology_keeps_id_string {κ : Type} [DecidableEq κ] [LT κ] [DecidableLT κ] (hκ : LinLt κ)
    (key : Pt → κ) {c : Chain Pt} {a : Pt} {l r : NT Pt}
    (hc : Rep c (NT.node a l r)) (hv : (NT.node a l r).verts.Nodup)
    (hnm : StdNaming Pt.repr (fun parts => "(" ++ ", ".intercalate parts ++ ")") Pt.parse a (NT.node a l r).leaves) :
    ∃ c', standardTopology c = some c' ∧ topologyId key c' = topologyId key c ∧ (topologyId key c).isSome := by
  obtain ⟨c', f, e, _, _, _, _, _, _, h1, h2⟩ :=
    standard_topology_keeps_id LinLt.pt hκ key Pt.repr _ Pt.parse hc hv hnm
  exact ⟨c', by rw [standardTopology_eq_G]; exact e, h1, h2⟩

/-- ★ names as structured values: the well-formedness predicate `NameWF` (no ',' in `str(p)`; `BaseParticle(str(p))
== p`) for the top and the final particles implies `StdNaming` for `str` / "(B, C)" formatting / `BaseParticle(..)` on
`List Char` names: generated names of different groups of ≥ 2 finals are pairwise different particles, none of them a
final or the top particle (EVERY top, EVERY list of finals). -/
theorem generated_names_are_new (top : PtL) (finals : List PtL)
    (hwf : ∀ p, p = top ∨ p ∈ finals → NameWF p) : StdNaming PtL.repr fmtL PtL.parse top finals :=
  stdNaming_ptL top finals hwf

/-- ★ `standard_topology_keeps_id` on structured names with NO hypothesis on the name layer other than `NameWF` of
the top and the final particles (the inner particles may have ANY name): for EVERY named binary tree, every chain of
its decays, either flag. -/
theorem standard_topology_keeps_id_names {κ : Type} [DecidableEq κ] [LT κ] [DecidableLT κ] (hκ : LinLt κ)
    (key : PtL → κ) {c : Chain PtL} {a : PtL} {l r : NT PtL}
    (hc : Rep c (NT.node a l r)) (hv : (NT.node a l r).verts.Nodup)
    (hwf : ∀ p, p = a ∨ p ∈ (NT.node a l r).leaves → NameWF p) :
    ∃ c' f, standardTopologyL c = some c' ∧ c' = c.map (Decay.rename f) ∧
      (∀ x ∈ (NT.node a l r).verts, ∀ y ∈ (NT.node a l r).verts, f x = f y → x = y) ∧
      (∀ z ∈ (NT.node a l r).leaves, f z = z) ∧ f a = a ∧
      Rep c' ((NT.node a l r).mapN f) ∧ ((NT.node a l r).mapN f).verts.Nodup ∧
      topologyId key c' = topologyId key c ∧ (topologyId key c).isSome :=
  standard_topology_keeps_id LinLt.ptL hκ key PtL.repr fmtL PtL.parse hc hv (stdNaming_ptL _ _ hwf)

/-- particle from its written name -/
abbrev pL (s : String) : PtL := PtL.parse s.toList

-- non-vacuity (kernel evaluation): A → R B, R → C D:1 — every particle is well-formed, the chain is the tree
-- A → (R → C D:1) B, and `standard_topology` renames R to "(C, D:1)"
example :
    let c : Chain PtL := [⟨pL "A", [pL "R", pL "B"]⟩, ⟨pL "R", [pL "C", pL "D:1"]⟩]
    ([pL "A", pL "B", pL "C", pL "D:1"].all PtL.wf) = true
    ∧ standardTopologyL c = some [⟨pL "A", [pL "(C, D:1)", pL "B"]⟩, ⟨pL "(C, D:1)", [pL "C", pL "D:1"]⟩]
    ∧ (standardTopologyL c).bind (topologyId (fun p : PtL => p)) = topologyId (fun p : PtL => p) c := by
  decide +kernel

example : Rep ([⟨pL "A", [pL "R", pL "B"]⟩, ⟨pL "R", [pL "C", pL "D:1"]⟩] : Chain PtL)
    (NT.node (pL "A") (NT.node (pL "R") (.leaf (pL "C")) (.leaf (pL "D:1"))) (.leaf (pL "B"))) := by
  refine ⟨by decide +kernel, ?_, ?_⟩
  · intro d hd
    simp only [List.mem_cons, List.mem_nil_iff, or_false] at hd
    rcases hd with rfl | rfl
    · exact ⟨NT.node (pL "R") (.leaf (pL "C")) (.leaf (pL "D:1")), .leaf (pL "B"), by simp [NT.subs],
        List.Perm.refl _⟩
    · exact ⟨.leaf (pL "C"), .leaf (pL "D:1"), by simp [NT.subs], List.Perm.refl _⟩
  · intro a l r h
    simp only [NT.subs, List.mem_cons, List.mem_nil_iff, or_false, List.cons_append,
      List.nil_append, reduceCtorEq, NT.node.injEq] at h
    rcases h with ⟨rfl, _, _⟩ | ⟨rfl, _, _⟩ <;> simp [coreList]

/-- ★ counter-example WITHOUT the "no comma" half of `NameWF` (kernel-checked): finals named `B, C`, `D`, `B`, `C, D`
(every particle satisfies `BaseParticle(str(p)) == p`).  In A → R S, R → `B, C` D, S → B `C, D` the two inner particles
both get the generated name "(B, C, D)": `standard_topology` returns a chain in which R and S are ONE particle, and its
`topology_id` is not that of the chain (it does not exist: the result is no tree). -/
theorem generated_names_collide_with_comma :
    let c : Chain PtL := [⟨pL "A", [pL "R", pL "S"]⟩, ⟨pL "R", [pL "B, C", pL "D"]⟩, ⟨pL "S", [pL "B", pL "C, D"]⟩]
    ([pL "A", pL "B, C", pL "D", pL "B", pL "C, D"].all fun p => decide (PtL.parse p.repr = p)) = true
    ∧ (topologyId (fun p : PtL => p) c).isSome = true
    ∧ standardTopologyL c = some [⟨pL "A", [pL "(B, C, D)", pL "(B, C, D)"]⟩,
        ⟨pL "(B, C, D)", [pL "B, C", pL "D"]⟩, ⟨pL "(B, C, D)", [pL "B", pL "C, D"]⟩]
    ∧ (standardTopologyL c).bind (topologyId (fun p : PtL => p)) ≠ topologyId (fun p : PtL => p) c := by
  decide +kernel

/-- ★ counter-example WITHOUT the round-trip half of `NameWF` (kernel-checked): the final `BaseParticle("a:1:0")` is
(name "a:1", id 0), its `str` is "a:1", and `BaseParticle("a:1")` is (name "a", id 1) — another particle.
`standard_topology` of A → `a:1:0` B replaces that FINAL particle, so the `topology_id(identical=False)` changes. -/
theorem final_not_fixed_without_roundtrip :
    let c : Chain PtL := [⟨pL "A", [pL "a:1:0", pL "B"]⟩]
    (pL "a:1:0").repr.contains ',' = false ∧ PtL.parse (pL "a:1:0").repr ≠ pL "a:1:0"
    ∧ standardTopologyL c = some [⟨pL "A", [pL "a:1", pL "B"]⟩]
    ∧ (standardTopologyL c).bind (topologyId (fun p : PtL => p)) ≠ topologyId (fun p : PtL => p) c := by
  decide +kernel

/-! ## 2. `topology_map` between chains of equal `topology_id(identical=False)` -/

section tmap
variable {α : Type} [DecidableEq α] [LT α] [DecidableLT α]

/-- ★ converse of the renaming theorem.  For EVERY two chains that consist of the decays of named binary trees with
pairwise different vertices (any number of finals, any order of decays/daughters) and have EQUAL
`topology_id(identical=False)`: the second chain consists of the decays of the FIRST tree with its vertices renamed by
a map `f` that is injective on the vertices and fixes the finals, and `f` maps the vertices of the first tree onto the
vertices of the second. -/
theorem equal_id_is_renamed_copy (hα : LinLt α) {c1 c2 : Chain α} {a1 a2 : α} {l1 r1 l2 r2 : NT α}
    (h1 : Rep c1 (NT.node a1 l1 r1)) (hv1 : (NT.node a1 l1 r1).verts.Nodup)
    (h2 : Rep c2 (NT.node a2 l2 r2)) (hv2 : (NT.node a2 l2 r2).verts.Nodup)
    (hid : topologyId (fun x : α => x) c1 = topologyId (fun x : α => x) c2) :
    ∃ f : α → α,
      (∀ x ∈ (NT.node a1 l1 r1).verts, ∀ y ∈ (NT.node a1 l1 r1).verts, f x = f y → x = y) ∧
      (∀ z ∈ (NT.node a1 l1 r1).leaves, f z = z) ∧
      Rep c2 ((NT.node a1 l1 r1).mapN f) ∧
      ((NT.node a1 l1 r1).verts.map f).Perm (NT.node a2 l2 r2).verts :=
  sameId_renamed_copy hα h1 hv1 h2 hv2 hid

/-- ★ FULL statement for `identical=False` (the case of renamed copies alone is `topology_map_of_renamed_copy`, Props/C14c.lean).  For EVERY two
chains `c1`, `c2` of named binary trees with pairwise different vertices and equal `topology_id(identical=False)`:
`c1.topology_map(c2)` returns (no KeyError) a pair `m` = (particle map, decay map) that is a tree morphism
(`IsTreeMorphism`): the particle map is defined exactly on the vertices of `c1`, is injective there, fixes every final
particle, and every decay core → outs of `c1` is paired, in order, with the decay of `c2` whose mother is the image of
core and whose daughters are the images of outs (up to daughter order); and the particle map sends the vertices of `c1`
ONTO the vertices of `c2` (a bijection, as the lists are duplicate-free). -/
theorem topology_map_is_morphism (hα : LinLt α) {c1 c2 : Chain α} {a1 a2 : α} {l1 r1 l2 r2 : NT α}
    (h1 : Rep c1 (NT.node a1 l1 r1)) (hv1 : (NT.node a1 l1 r1).verts.Nodup)
    (h2 : Rep c2 (NT.node a2 l2 r2)) (hv2 : (NT.node a2 l2 r2).verts.Nodup)
    (hid : topologyId (fun x : α => x) c1 = topologyId (fun x : α => x) c2) :
    ∃ m, topologyMap c1 c2 = some m ∧ IsTreeMorphism c1 c2 m ∧
      ((NT.node a1 l1 r1).verts.map fun x => (m.1.get? x).getD x).Perm (NT.node a2 l2 r2).verts :=
  topologyMap_sameId hα h1 hv1 h2 hv2 hid

end tmap

-- non-vacuity: the chains [7 → 2 1, 0 → 3 7] and [5 → 70 3, 70 → 1 2] are chains of trees and have equal ids
example : topologyId (fun x : Nat => x) ([⟨7, [2, 1]⟩, ⟨0, [3, 7]⟩] : Chain Nat)
    = topologyId (fun x : Nat => x) ([⟨5, [70, 3]⟩, ⟨70, [1, 2]⟩] : Chain Nat) := by decide +kernel

/-- ★ what fails for `identical=True` (kernel-checked witness; Nat labelling particle = 10·name + id, so 11, 12 are
`pi:1`, `pi:2`; A = 0, K = 20, R = 30): the chains A → R pi:1, R → pi:2 K and A → R pi:2, R → pi:1 K have EQUAL
`topology_id(identical=True)` but `topology_map` raises KeyError — it matches table VALUES, which are lists of
particles compared by (name, id): no entry of the second table equals [pi:2, K], so R gets no image.  Equal ids by
name only give a renamed copy up to a permutation of identical particles, which `topology_map` does not search for. -/
theorem topology_map_identical_true_fails :
    let c1 : Chain Nat := [⟨0, [30, 11]⟩, ⟨30, [12, 20]⟩]
    let c2 : Chain Nat := [⟨0, [30, 12]⟩, ⟨30, [11, 20]⟩]
    topologyId (fun x : Nat => x / 10) c1 = topologyId (fun x : Nat => x / 10) c2
    ∧ (topologyId (fun x : Nat => x / 10) c1).isSome = true
    ∧ topologyId (fun x : Nat => x) c1 ≠ topologyId (fun x : Nat => x) c2
    ∧ topologyMap c1 c2 = none := by
  decide +kernel

/-! ## 3. `get_chains_map` for every n -/

section cmap
variable {α σ : Type} [DecidableEq α] [LT α] [DecidableLT α] [LT σ] [DecidableLT σ]

/-- ★ `get_chains_map` (after fix 41067a5) for EVERY decay group whose chains are binary trees — each chain consists of
the decays of SOME named binary tree with pairwise different vertices, any number of finals, any order — and whose
top/final names satisfy `StdNaming`: `topology_structure()` returns the standardised representatives `reps'`;
`get_chains_map()` returns `cm` (no KeyError anywhere); every chain of the group has the same topology as EXACTLY ONE
element of `reps'`; and class by class (`All2`: `cm` and `reps'` have the same length and correspond position by
position), the entries of class `s` are exactly the chains `(i, c)` with `s.topology_same(c, identical=False)`, in group
order, `c` being the i-th chain of the group, each with `s.topology_map(c)`, which is a tree morphism of `s` onto `c`
(`IsTreeMorphism`: particle map injective on the vertices of `s`, finals fixed, every decay of `s` sent to the decay
of `c` with the image mother and daughters). -/
theorem chains_map_all_n (hα : LinLt α) (repr : α → σ) (fmt : List σ → σ) (parse : σ → α)
    (chains : List (Chain α))
    (htree : ∀ c ∈ chains, ∃ a l r, Rep c (NT.node a l r) ∧ (NT.node a l r).verts.Nodup)
    (hnm : ∀ c ∈ chains, ∀ a l r, Rep c (NT.node a l r) → (NT.node a l r).verts.Nodup →
      StdNaming repr fmt parse a (NT.node a l r).leaves) :
    ∃ reps' cm, (topologyReps (fun p : α => p) chains).mapM (standardTopologyG repr fmt parse) = some reps' ∧
      chainsMapG (standardTopologyG repr fmt parse) chains = some cm ∧
      (∀ c ∈ chains, (reps'.filter fun s => topologySame (fun p : α => p) s c == some true).length = 1) ∧
      All2 (fun s cl =>
        All2 (fun ij e => e.1 = ij.1 ∧ chains[ij.1]? = some ij.2 ∧
          topologyMap s ij.2 = some e.2 ∧ IsTreeMorphism s ij.2 e.2) (membersOf s chains) cl) reps' cm := by
  apply chainsMapG_spec hα _ chains htree
  intro c hc a l r h1 h2
  obtain ⟨f, e, hinj, hfix, _⟩ := standardTopologyG_is_renaming hα repr fmt parse h1 h2 (hnm c hc a l r h1 h2)
  exact ⟨f, e, hinj, hfix⟩

end cmap

/-- ★ the same on structured names, hypothesis on names = `NameWF` of the top and final particles of every chain. -/
theorem chains_map_all_n_names (chains : List (Chain PtL))
    (htree : ∀ c ∈ chains, ∃ a l r, Rep c (NT.node a l r) ∧ (NT.node a l r).verts.Nodup)
    (hwf : ∀ c ∈ chains, ∀ a l r, Rep c (NT.node a l r) → (NT.node a l r).verts.Nodup →
      ∀ p, p = a ∨ p ∈ (NT.node a l r).leaves → NameWF p) :
    ∃ reps' cm, (topologyReps (fun p : PtL => p) chains).mapM standardTopologyL = some reps' ∧
      chainsMapG standardTopologyL chains = some cm ∧
      (∀ c ∈ chains, (reps'.filter fun s => topologySame (fun p : PtL => p) s c == some true).length = 1) ∧
      All2 (fun s cl =>
        All2 (fun ij e => e.1 = ij.1 ∧ chains[ij.1]? = some ij.2 ∧
          topologyMap s ij.2 = some e.2 ∧ IsTreeMorphism s ij.2 e.2) (membersOf s chains) cl) reps' cm :=
  chains_map_all_n LinLt.ptL PtL.repr fmtL PtL.parse chains htree
    (fun c hc a l r h1 h2 => stdNaming_ptL _ _ (hwf c hc a l r h1 h2))

/-- ★ the String model `chainsMap false` (the function the driver runs as `C14 cmap 0`) is `chainsMapG
standardTopology`; the hypothesis `hpres` of `chainsMap_classes_partition` (Props/C14b.lean) is discharged, what is left
is `StdNaming` of the String operations. -/
theorem chainsMap_all_n_string (chains : List (Chain Pt))
    (htree : ∀ c ∈ chains, ∃ a l r, Rep c (NT.node a l r) ∧ (NT.node a l r).verts.Nodup)
    (hnm : ∀ c ∈ chains, ∀ a l r, Rep c (NT.node a l r) → (NT.node a l r).verts.Nodup →
      StdNaming Pt.repr (fun parts => "(" ++ ", ".intercalate parts ++ ")") Pt.parse a (NT.node a l r).leaves) :
    ∃ reps' cm, topologyStructure false true chains = some reps' ∧ chainsMap false chains = some cm ∧
      (∀ c ∈ chains, (reps'.filter fun s => topologySame (fun p : Pt => p) s c == some true).length = 1) ∧
      All2 (fun s cl =>
        All2 (fun ij e => e.1 = ij.1 ∧ chains[ij.1]? = some ij.2 ∧
          topologyMap s ij.2 = some e.2 ∧ IsTreeMorphism s ij.2 e.2) (membersOf s chains) cl) reps' cm := by
  obtain ⟨reps', cm, h1, h2, h3, h4⟩ := chains_map_all_n LinLt.pt Pt.repr _ Pt.parse chains htree hnm
  have e : standardTopologyG Pt.repr (fun parts => "(" ++ ", ".intercalate parts ++ ")") Pt.parse = standardTopology :=
    funext fun c => (standardTopology_eq_G c).symm
  rw [e] at h1 h2
  refine ⟨reps', cm, ?_, by rw [chainsMap_false_eq_G]; exact h2, h3, h4⟩
  simpa [topologyStructure] using h1

-- non-vacuity (kernel evaluation on structured names): the group of the fixed finding, A → R pi:1, R → pi:2 K and
-- A → R pi:2, R → pi:1 K: two classes, one chain each
example :
    let cs : List (Chain PtL) := [[⟨pL "A", [pL "R", pL "pi:1"]⟩, ⟨pL "R", [pL "pi:2", pL "K"]⟩],
      [⟨pL "A", [pL "R", pL "pi:2"]⟩, ⟨pL "R", [pL "pi:1", pL "K"]⟩]]
    ((chainsMapG standardTopologyL cs).map fun cm => cm.map fun cl => cl.map (·.1)) = some [[0], [1]] := by
  decide +kernel

/-! ## 4. the hypotheses are met by the enumeration; non-vacuity -/

/-- ★ the tree hypothesis of §1–§3 holds for EVERY chain of the enumeration, every n ≥ 2 (under `NamesOK`, as in
`enum_all_n`): each chain returned by `from_particles` consists of the decays of a named binary tree rooted at `top`
with pairwise different vertices. -/
theorem from_particles_chains_are_trees {α : Type} [DecidableEq α] [LT α] [DecidableLT α] (hα : LinLt α)
    (mk : Nat → Nat → α) (top : α) (finals : List α) (h2 : 2 ≤ finals.length) (hn : NamesOK mk top finals) :
    ∃ cs, fromParticles mk top finals = some cs ∧
      ∀ c ∈ cs, ∃ l r, Rep c (NT.node top l r) ∧ (NT.node top l r).verts.Nodup := by
  obtain ⟨cs, hcs, hlen, hlink⟩ := topology_id_link hα hα (fun x : α => x) mk top finals h2 hn
  refine ⟨cs, hcs, ?_⟩
  intro c hc
  obtain ⟨j, hj, rfl⟩ := List.mem_iff_getElem.1 hc
  have hj' : j < (enumTrees top finals).length := hlen ▸ hj
  have hd := (hlink j hj hj').1
  obtain ⟨k, l, r, e⟩ := hd.isNode
  have hv := hd.verts
  have hr := hd.rep
  rw [e] at hv hr
  exact ⟨l.nt (mk j), r.nt (mk j), hr, hv⟩

-- non-vacuity of the tree hypothesis: the three chains of a three-body decay (Nat labelling of Props/C14.lean)
example : ∃ cs, fromParticles natMk 0 (finalsN 3) = some cs ∧
    ∀ c ∈ cs, ∃ l r, Rep c (NT.node 0 l r) ∧ (NT.node 0 l r).verts.Nodup :=
  from_particles_chains_are_trees LinLt.nat natMk 0 (finalsN 3) (by decide) (namesOK_nat 3 (by omega))

-- non-vacuity of `NameWF` / `StdNaming` / pairwise different vertices for the tree A → (R → C D:1) B
example : StdNaming PtL.repr fmtL PtL.parse (pL "A") [pL "C", pL "D:1", pL "B"] := by
  apply generated_names_are_new
  have h : ∀ p ∈ [pL "A", pL "C", pL "D:1", pL "B"], p.wf = true := by decide +kernel
  intro p hp
  apply (PtL.wf_iff p).1
  apply h
  rcases hp with rfl | hp
  · simp
  · exact List.mem_cons_of_mem _ hp

example : (NT.node (pL "A") (NT.node (pL "R") (.leaf (pL "C")) (.leaf (pL "D:1"))) (.leaf (pL "B"))).verts.Nodup := by
  decide +kernel

end TfPwaV.C14
