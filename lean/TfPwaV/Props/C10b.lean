import TfPwaV.Proofs.PhspShell
/-!
# C10 (continued) — generated momenta are on shell and add up to the parent at rest

Theorems over ℝ about `generateMomentum` / `momStep` / `tree_boost` of `TfPwaV.PhspR` (ℝ-instance of
`templates/Phsp.lean.in`), using `boost_minkowski` of C11.  `id` selects double-precision `get_p`.
Hypotheses are the code's own regime: uniform numbers in [0,1], the mass ordering `generate_mass` produces
(`MomChain`), and for the mass-shell clause the regular branch `ε < |v|² < 1` of `LorentzVector.boost` at every
recoil boost (`RegChain`; the guard branch of the boost is exact only to `O(|v|²)`, see `C11.boost_guard_branch`).
-/
open TfPwaV.ScalarR
namespace TfPwaV.C10
open TfPwaV.PhspR TfPwaV.KinR

/-- Two-body energy conservation for `q = get_p(M, m1, m2)`, all `M ≥ m1 + m2`, `M > 0`. -/
theorem two_body_energy (M m1 m2 : ℝ) (hM : 0 < M) (h1 : 0 ≤ m1) (h2 : 0 ≤ m2) (h : m1 + m2 ≤ M) :
    ksqrt (getP M m1 m2 * getP M m1 m2 + m2 * m2) + ksqrt (getP M m1 m2 * getP M m1 m2 + m1 * m1) = M :=
  energy_sum hM h1 h2 h

/-- **Momentum sum**: for every number of bodies, the momenta returned by `generate_momentum` add up to
`(m0, 0, 0, 0)` exactly — for all non-negative daughter masses, all ordered positive intermediate masses, all
angles' uniform numbers in [0,1].  (No regular-branch hypothesis: the boosted quantity is a rest vector.) -/
theorem momentum_sum (m0 : ℝ) (mass ms : List ℝ) (us : List (ℝ × ℝ)) (hpos : ∀ m ∈ mass, 0 ≤ m)
    (hchain : MomChain m0 (mass.reverse.headD 0) ms (mass.reverse.drop 1))
    (hlen : us.length + 1 = mass.length) (hu : ∀ u ∈ us, 0 ≤ u.1 ∧ u.1 ≤ 1) :
    sumV4 (generateMomentum id m0 mass ms us) = ⟨m0, 0, 0, 0⟩ := by
  unfold generateMomentum
  cases h : mass.reverse with
  | nil =>
    rw [h] at hchain
    cases ms <;> simp [MomChain] at hchain
  | cons r0 rs =>
    rw [h] at hchain
    simp only [List.headD_cons, List.drop_succ_cons, List.drop_zero] at hchain ⊢
    have hp : ∀ m ∈ r0 :: rs, 0 ≤ m := by
      intro m hm; apply hpos; rw [← List.mem_reverse, h]; exact hm
    have hl : us.length = rs.length := by
      have : mass.length = rs.length + 1 := by rw [← List.length_reverse, h]; simp
      omega
    exact genMomAux_sum m0 ms rs us r0 true [] hchain (hp r0 (by simp)) (fun r hr => hp r (by simp [hr])) hl hu (Or.inl rfl)

/-- **On shell**: every returned momentum has `p² = m²` of the daughter in the same position, for every number of
bodies, whenever every recoil boost is in the regular branch. -/
theorem on_shell (m0 : ℝ) (mass ms : List ℝ) (us : List (ℝ × ℝ))
    (hreg : RegChain m0 (mass.reverse.headD 0) true ms (mass.reverse.drop 1))
    (hlen : us.length + 1 = mass.length) (hu : ∀ u ∈ us, 0 ≤ u.1 ∧ u.1 ≤ 1) :
    List.Forall₂ OnShell (generateMomentum id m0 mass ms us) mass := by
  unfold generateMomentum
  cases h : mass.reverse with
  | nil =>
    rw [h] at hreg
    cases ms <;> simp [RegChain] at hreg
  | cons r0 rs =>
    rw [h] at hreg
    simp only [List.headD_cons, List.drop_succ_cons, List.drop_zero] at hreg ⊢
    have hl : us.length = rs.length := by
      have : mass.length = rs.length + 1 := by rw [← List.length_reverse, h]; simp
      omega
    have := genMomAux_shell m0 ms rs us r0 true true [] [] hreg hl hu (fun _ => rfl) (by simp) List.Forall₂.nil
    have hm : mass = rs.reverse ++ [r0] := by
      rw [← List.reverse_reverse mass, h]; simp
    rw [hm]
    simpa using this

/-- The mass points `generate_mass` produces (domain of `weight_le_one`) with positive intermediate masses
satisfy the ordering hypothesis of `momentum_sum`. -/
theorem domain_is_chain (m0 : ℝ) (mass ms : List ℝ) (hQ : 0 < teCm m0 mass) (hdom : InDomain m0 mass ms)
    (hms : ∀ m ∈ ms, 0 < m) (hm0 : 0 < m0) :
    MomChain m0 (mass.reverse.headD 0) ms (mass.reverse.drop 1) := by
  unfold InDomain at hdom
  cases h : mass.reverse with
  | nil => rw [h] at hdom; simp [InDomainAux] at hdom
  | cons r0 t =>
    cases t with
    | nil => rw [h] at hdom; simp [InDomainAux] at hdom
    | cons r1 rest =>
      rw [h] at hdom
      simp only [List.drop_succ_cons, List.drop_zero, List.headD_cons] at hdom ⊢
      obtain ⟨hsum, _⟩ := reverse_facts h
      have hsm : sm0 mass = rest.sum := by
        unfold sm0; rw [h, sumMass_eq, hsum]; simp only [List.drop_succ_cons, List.drop_zero, List.headD_cons]; ring
      rw [teCm_eq, hsum] at hQ
      exact momChain_of_domain m0 rest r1 ms r0 (sm0 mass) hsm hdom (by rw [hsm]; linarith) hms hm0

/-- `tree_boost` (nested chains), momentum: if the daughters of an intermediate state add up to `(m,0,0,0)` in
its rest frame and its own momentum `p0` is on the mass shell `m > 0` with positive energy, then after
`tree_boost(p0, ·)` they add up to `p0`.  All lists, all `p0`. -/
theorem tree_boost_sum (p0 : V4) (m : ℝ) (l : List V4) (hm : 0 < m) (hE : 0 < p0.t) (hp0 : OnShell p0 m)
    (hl : sumV4 l = ⟨m, 0, 0, 0⟩) : sumV4 (l.map (fun x => p0.neg.restVector x)) = p0 :=
  tree_boost_sum_aux p0 m l hm hE hp0 hl

/-- `tree_boost`, mass shell: invariant masses survive the boost in the regular branch. -/
theorem tree_boost_shell (p0 : V4) (l : List V4) (d : List ℝ) (h1 : eps < p0.boostVector.norm2)
    (h2 : p0.boostVector.norm2 < 1) (hl : List.Forall₂ OnShell l d) :
    List.Forall₂ OnShell (l.map (fun x => p0.neg.restVector x)) d := by
  induction hl with
  | nil => exact List.Forall₂.nil
  | cons hx _ ih =>
    refine List.Forall₂.cons ?_ ih
    simp only [OnShell, V4.m2, V4.restVector, neg_neg_boostVector] at hx ⊢
    rw [TfPwaV.C11.boost_minkowski _ _ _ h1 h2]
    exact hx

/-- `_restruct_pi` boosts *every* final-state momentum below a nested daughter (any depth of the sub-tree). -/
theorem tree_boost_leaves (p0 : V4) (forest : List PTree) :
    leavesL (boostByL p0 forest) = (leavesL forest).map (fun x => p0.neg.restVector x) :=
  leavesL_boostByL p0 forest

/-- **Nested chains, momentum sum, every nesting**: for every struct `t` (any depth, any number of daughters per
node, all node masses positive) and every list `pis` of generator outputs (one per node, in `_get_generator`
order) such that each output adds up to `(m_node,0,0,0)`, is on the mass shells of the node's daughters and has
positive energies (`GoodOut`; true of `generateMomentum` by `momentum_sum`/`on_shell`): if `_restruct_pi`
consumes exactly these outputs, the final-state momenta add up to `(m0,0,0,0)`.  Structural induction over the
tree; no regular-branch hypothesis. -/
theorem chain_momentum_sum (t : MTree) (pis : List (List V4)) (forest : List PTree)
    (h : t.restruct pis = some (forest, [])) (hpos : t.posNodes) (hgood : List.Forall₂ GoodOut t.gens pis) :
    sumV4 (leavesL forest) = ⟨t.mass, 0, 0, 0⟩ := by
  obtain ⟨used, hu, _, hs⟩ := restruct_sum t pis forest [] h
  have : used = pis := by simpa using hu.symm
  subst this
  exact hs hpos hgood

/-- `_restruct_pi` consumes exactly one generator output per node of the struct. -/
theorem chain_consumes (t : MTree) (pis rest : List (List V4)) (forest : List PTree)
    (h : t.restruct pis = some (forest, rest)) : pis.length = t.gens.length + rest.length := by
  obtain ⟨used, hu, hl, _⟩ := restruct_sum t pis forest rest h
  rw [hu, List.length_append, hl]

/-- One `tree_boost` step on a whole sub-forest of arbitrary depth keeps the leaves on their mass shells
(regular branch). -/
theorem tree_boost_forest_shell (p0 : V4) (forest : List PTree) (d : List ℝ) (h1 : eps < p0.boostVector.norm2)
    (h2 : p0.boostVector.norm2 < 1) (hl : List.Forall₂ OnShell (leavesL forest) d) :
    List.Forall₂ OnShell (leavesL (boostByL p0 forest)) d := by
  rw [tree_boost_leaves]
  exact tree_boost_shell p0 _ d h1 h2 hl

/-- `specs` lists the nodes of a struct with their daughters in exactly the order of the model's `gens`
(`_get_generator`): the hypotheses of the next theorems are indexed like the generator outputs. -/
theorem chain_specs_are_gens (t : MTree) : t.specs.map (fun s => (s.1, s.2.map MTree.mass)) = t.gens :=
  specs_gens t

/-- **Nested chains, full structure, every nesting**: for every struct `node m ch` (any depth, any number of
daughters per node, all node masses positive) and every list `pis` of generator outputs (one per node, in
`_get_generator` order) such that each output adds up to `(m_node,0,0,0)`, has positive energies, is on the mass
shells of the node's daughters, and the momentum of every *nested* daughter is in the regular branch
`ε < |v|² < 1` of `LorentzVector.boost` (`GoodNode`): if `_restruct_pi` consumes exactly these outputs then the
returned momentum tree realises the struct (`MatchL`): every final particle is on its mass shell, every
intermediate state is on its fixed mass shell and equals the sum of the final-state momenta below it; and all
final-state momenta add up to `(m,0,0,0)`.  Structural induction over the tree. -/
theorem chain_structure (m : ℝ) (ch : List MTree) (pis : List (List V4)) (forest : List PTree)
    (h : (MTree.node m ch).restruct pis = some (forest, [])) (hpos : (MTree.node m ch).posNodes)
    (hgood : List.Forall₂ GoodNode (MTree.node m ch).specs pis) :
    sumV4 (leavesL forest) = ⟨m, 0, 0, 0⟩ ∧ MatchL ch forest := by
  obtain ⟨used, hu, _, hs⟩ := restruct_match (.node m ch) pis forest [] h
  have : used = pis := by simpa using hu.symm
  subst this
  exact hs hpos hgood

/-- **Nested chains, mass shell, every nesting**: under the hypotheses of `chain_structure` every final-state
momentum (depth-first order, as `strip_tree` returns them) is on the mass shell of its particle. -/
theorem chain_on_shell (m : ℝ) (ch : List MTree) (pis : List (List V4)) (forest : List PTree)
    (h : (MTree.node m ch).restruct pis = some (forest, [])) (hpos : (MTree.node m ch).posNodes)
    (hgood : List.Forall₂ GoodNode (MTree.node m ch).specs pis) :
    List.Forall₂ OnShell (leavesL forest) (MTree.node m ch).leafMasses := by
  simp only [MTree.leafMasses]
  exact matchL_leaves ch forest (chain_structure m ch pis forest h hpos hgood).2

/-- **Intermediate states at their fixed mass**: in a momentum tree that realises a struct, the final-state
momenta below an intermediate state of mass `m'` have invariant mass `m'` (all nestings; combine with
`chain_structure`, whose `MatchL` contains this for every node at every depth). -/
theorem chain_intermediate_mass (m' : ℝ) (c : List MTree) (p : V4) (f : List PTree)
    (h : Match (.node m' c) (.node p f)) : OnShell (sumV4 (leavesL f)) m' := by
  simp only [Match] at h
  rw [h.2.1]
  exact h.1

-- non-vacuity of `chain_momentum_sum`: 1 → two massless daughters, back to back
example : (MTree.node 1 [.leaf 0, .leaf 0]).restruct [[⟨0.5, 0, 0, 0.5⟩, ⟨0.5, 0, 0, -0.5⟩]]
      = some ([.leaf ⟨0.5, 0, 0, 0.5⟩, .leaf ⟨0.5, 0, 0, -0.5⟩], []) := by
  simp [MTree.restruct, restructL, attach]
example : GoodNode (1, [.leaf 0, .leaf 0]) [⟨0.5, 0, 0, 0.5⟩, ⟨0.5, 0, 0, -0.5⟩] := by
  refine ⟨?_, ?_, ?_⟩
  · simp [sumV4, V4.add]; norm_num
  · intro p hp; simp at hp; rcases hp with h | h <;> rw [h] <;> norm_num
  · simp [OnShell, V4.m2, V4.dot, MTree.mass]
example : GoodOut (1, [0, 0]) [⟨0.5, 0, 0, 0.5⟩, ⟨0.5, 0, 0, -0.5⟩] := by
  refine ⟨?_, ?_, ?_⟩
  · simp [sumV4, V4.add]; norm_num
  · simp [OnShell, V4.m2, V4.dot]
  · intro p hp; simp at hp; rcases hp with h | h <;> rw [h] <;> norm_num

-- non-vacuity of the regular-branch and ordering hypotheses: 1.0 → 0.3 0.2 (two-body) with cos θ, φ from (0.25, 0.5)
example : MomChain 1.0 (([0.3, 0.2] : List ℝ).reverse.headD 0) [] (([0.3, 0.2] : List ℝ).reverse.drop 1) := by
  simp [MomChain]; norm_num
example : RegChain 1.0 (([0.3, 0.2] : List ℝ).reverse.headD 0) true [] (([0.3, 0.2] : List ℝ).reverse.drop 1) := by
  simp [RegChain]
-- a three-body chain 1.0 → 0.1 0.2 0.3 with intermediate mass 0.6 (0.3 + 0.2 ≤ 0.6, 0.6 + 0.1 ≤ 1.0)
example : MomChain 1.0 (([0.1, 0.2, 0.3] : List ℝ).reverse.headD 0) [0.6] (([0.1, 0.2, 0.3] : List ℝ).reverse.drop 1) := by
  simp [MomChain]; norm_num

-- … and the recoil boost of its second step is in the regular branch
example : RegChain 1.0 (([0.1, 0.2, 0.3] : List ℝ).reverse.headD 0) true [0.6] (([0.1, 0.2, 0.3] : List ℝ).reverse.drop 1) := by
  have hq : getP 1.0 0.6 0.1 * getP 1.0 0.6 0.1 = g2 1.0 0.6 0.1 := getP_sq (by norm_num) (by norm_num) (by norm_num) (by norm_num)
  simp only [RegChain, List.reverse_cons, List.reverse_nil, List.nil_append, List.cons_append, List.headD_cons,
    List.drop_succ_cons, List.drop_zero, true_or, true_and]
  right
  rw [hq]
  unfold g2 p2Of eps
  norm_num

-- non-vacuity of `chain_structure` with a genuinely nested, regular boost: 1 → A(0.6 → γγ) γ
example : ∃ forest, (MTree.node 1 [.node 0.6 [.leaf 0, .leaf 0], .leaf 0]).restruct
      [[⟨0.3, 0, 0, 0.3⟩, ⟨0.3, 0, 0, -0.3⟩], [⟨0.68, 0, 0, 0.32⟩, ⟨0.32, 0, 0, -0.32⟩]] = some (forest, []) := by
  simp [MTree.restruct, restructL, attach]
example : (MTree.node 1 [.node 0.6 [.leaf 0, .leaf 0], .leaf 0]).posNodes := by
  simp [MTree.posNodes, posNodesL]; norm_num
example : List.Forall₂ GoodNode (MTree.node 1 [.node 0.6 [.leaf 0, .leaf 0], .leaf 0]).specs
      [[⟨0.3, 0, 0, 0.3⟩, ⟨0.3, 0, 0, -0.3⟩], [⟨0.68, 0, 0, 0.32⟩, ⟨0.32, 0, 0, -0.32⟩]] := by
  simp only [MTree.specs, specsL, List.nil_append, List.append_nil, List.cons_append]
  refine List.Forall₂.cons ⟨?_, ?_, ?_⟩ (List.Forall₂.cons ⟨?_, ?_, ?_⟩ List.Forall₂.nil)
  · simp [sumV4, V4.add]; norm_num
  · intro p hp; simp at hp; rcases hp with h | h <;> rw [h] <;> norm_num
  · simp [OnShell, V4.m2, V4.dot, MTree.mass]
  · simp [sumV4, V4.add]; norm_num
  · intro p hp; simp at hp; rcases hp with h | h <;> rw [h] <;> norm_num
  · simp [OnShell, V4.m2, V4.dot, MTree.mass, Regular, V4.boostVector, V3.norm2, eps]; norm_num

end TfPwaV.C10
