import TfPwaV.Proofs.Vars
import TfPwaV.Proofs.VarsFixed
import TfPwaV.Proofs.PolarBound
/-!
# C16 — Parameter constraints survive every sequence of updates

Part 1 (core Lean, no Mathlib needed): theorems about `TfPwaV.Vars.step`, the state-machine model of
`tf_pwa.variable.VarsManager` (`Model/Vars.lean`), for **every** value arithmetic `A : Arith V` (so they hold
for IEEE doubles as executed, not only for reals), every state / every well-phased history.
`cfg.fixSame = false` is the behaviour of the unchanged tree, `true` the behaviour after `fix_set_same_merge.diff`;
the harness observes which one the tree has and runs the correspondence against that variant.

Part 2 (ℝ): the value-level arithmetic (`templates/Polar.lean.in`, `templates/Bound.lean.in`, instantiated at
ℝ here and at Float in the executable model).
-/
open TfPwaV.Vars

namespace TfPwaV.C16

variable {V : Type}

/-! ## Part 1: histories -/

/-- **Constraint invariant along every well-phased history (unchanged tree).**
For every arithmetic, every initial `polar` setting and every finite history in the order a configuration
applies operations (create; fix/free; tie; bound; arbitrary interleavings of all other calls):
`trainable_vars` has no duplicates, contains only bound names, and no two different free names are bound to the
same variable object — a tie group counts once among the free parameters. -/
theorem inv_reachable (A : Arith V) (cfg : Cfg) (hc : cfg.fixSame = false) (d : V) (pol : Bool) (ops : List (Op V))
    (hw : WellPhased ops) : Inv (run A cfg (State.empty d pol) ops) :=
  run_inv A cfg hc ops 0 _ hw (empty_inv d pol).1 (fun _ => (empty_inv d pol).2)

/-- the three consequences spelled out -/
theorem trainable_nodup_and_counted_once (A : Arith V) (cfg : Cfg) (hc : cfg.fixSame = false) (d : V) (pol : Bool)
    (ops : List (Op V)) (hw : WellPhased ops) :
    let s := run A cfg (State.empty d pol) ops
    s.trainable.Nodup ∧ (∀ n ∈ s.trainable, (cellOf s n).isSome) ∧
      ∀ a ∈ s.trainable, ∀ b ∈ s.trainable, a ≠ b → cellOf s a ≠ cellOf s b := by
  intro s
  have h := inv_reachable A cfg hc d pol ops hw
  exact ⟨h.nodup, fun n hn => h.sub n hn, h.once⟩

/-- For ANY history in phase order, without the naming hypothesis of `inv_reachable_patched`, and for both variants of
`set_same`: no duplicates, only bound names, fresh cell ids.  ("Counted once" needs `WellNamed` on the patched tree:
see `inv_reachable_patched` and the counterexample `well_named_needed`.) -/
theorem inv_reachable_anyvariant_partial (A : Arith V) (cfg : Cfg) (d : V) (pol : Bool) (ops : List (Op V))
    (hw : WellPhased ops) : Inv0 (run A cfg (State.empty d pol) ops) :=
  run_inv0 A cfg ops 0 _ hw (empty_inv d pol).1.toInv0 (fun _ => empty_inv d pol)

/-- **Constraint invariant along every well-phased history — patched tree** (`cfg.fixSame = true`, the `set_same` of
commit 647ec00).  For every arithmetic, every initial `polar` setting and every finite history in phase order in which
the tie calls name existing parameters of the right kind (`WellNamed`: real ties list bound names, complex ties / shared
radii list complex parameters `c` with `c+"r"`, `c+"i"` bound, and no name is both a real variable and the base of a
complex one): `trainable_vars` has no duplicates, contains only bound names, **no two different free names are bound to
the same variable object**, and every group of `same_list` has at most one free member (`InvF.groups`). -/
theorem inv_reachable_patched (A : Arith V) (cfg : Cfg) (hc : cfg.fixSame = true) (d : V) (pol : Bool)
    (ops : List (Op V)) (hw : WellPhased ops) (hn : WellNamed A cfg (State.empty d pol) ops) :
    InvF (run A cfg (State.empty d pol) ops) :=
  run_invF A cfg hc ops 0 _ hw hn (empty_invF d pol) (fun _ => ⟨(empty_inv d pol).2, rfl⟩)

/-- the consequences spelled out, patched tree -/
theorem trainable_nodup_and_counted_once_patched (A : Arith V) (cfg : Cfg) (hc : cfg.fixSame = true) (d : V) (pol : Bool)
    (ops : List (Op V)) (hw : WellPhased ops) (hn : WellNamed A cfg (State.empty d pol) ops) :
    let s := run A cfg (State.empty d pol) ops
    s.trainable.Nodup ∧ (∀ n ∈ s.trainable, (cellOf s n).isSome) ∧
      ∀ a ∈ s.trainable, ∀ b ∈ s.trainable, a ≠ b → cellOf s a ≠ cellOf s b := by
  intro s
  have h := (inv_reachable_patched A cfg hc d pol ops hw hn).inv
  exact ⟨h.nodup, fun n hn => h.sub n hn, h.once⟩

/-- **The patched `set_same` ties everything it lists** (real names): in every state satisfying the invariant, after
`set_same(names)` all members of the resulting group — the listed names AND all members of every merged group — are
bound, and bound to one object. -/
theorem set_same_ties_patched (cfg : Cfg) (hc : cfg.fixSame = true) (s : State V) (hi : InvF s) (names : List Name)
    (hok : tieOK s (.setSame names false) = true) :
    ∀ a ∈ (setSame cfg s names false).2, ∀ b ∈ (setSame cfg s names false).2,
      cellOf (setSame cfg s names false).1 a = cellOf (setSame cfg s names false).1 b ∧
      (cellOf (setSame cfg s names false).1 a).isSome = true :=
  setSame_ties_real cfg hc s hi names hok

/-- … and `set_same(names, cplx=True)` / `Variable.sameas`: the `r` parts of all members of the resulting group are
bound to one object and so are the `i` parts. -/
theorem set_same_ties_patched_cplx (cfg : Cfg) (hc : cfg.fixSame = true) (s : State V) (hi : InvF s) (names : List Name)
    (hok : tieOK s (.setSame names true) = true) :
    ∀ a ∈ (setSame cfg s names true).2, ∀ b ∈ (setSame cfg s names true).2,
      cellOf (setSame cfg s names true).1 (a ++ "r") = cellOf (setSame cfg s names true).1 (b ++ "r") ∧
      cellOf (setSame cfg s names true).1 (a ++ "i") = cellOf (setSame cfg s names true).1 (b ++ "i") ∧
      (cellOf (setSame cfg s names true).1 (a ++ "r")).isSome = true ∧
      (cellOf (setSame cfg s names true).1 (a ++ "i")).isSome = true :=
  setSame_ties_cplx cfg hc s hi names hok

/-- the resulting group always contains the listed names, so the two theorems above cover them -/
theorem set_same_group_contains_names (cfg : Cfg) (hc : cfg.fixSame = true) (s : State V) (names : List Name) (cplx : Bool)
    (n : Name) (hn : n ∈ names) : n ∈ (setSame cfg s names cplx).2 := by
  unfold setSame
  simp only [hc, if_true]
  by_cases h : n ∈ ssNewNames names
      (mergeLoop (ssInVars cfg s cplx) (ssHeadOf cfg s cplx) names (s.same, [], [])).2.1
      (mergeLoop (ssInVars cfg s cplx) (ssHeadOf cfg s cplx) names (s.same, [], [])).2.2
  · exact List.mem_append.2 (Or.inl h)
  · refine List.mem_append.2 (Or.inr (List.mem_filter.2 ⟨(mem_ssNameList _ _ _).2 (Or.inl hn), ?_⟩))
    simpa using h

-- non-vacuity: a well-phased history with a tie, a fix and bulk updates
example : WellPhased (V := Nat)
    [.addReal "a" 1 true true, .addReal "b" 2 true true, .addComplex "c" none true 3 4, .setFix "b" none false,
     .setSame ["a", "b"] false, .setBound [("a", (some 0, some 5))], .setAllList [7, 8, 9] false, .rp2xyAll,
     .refresh 0 0 0 0 0 0 none none, .getAllDic false] := by unfold WellPhased; decide +kernel

/-- **Frame: bulk writers never move a fixed parameter.**  In *any* state, if no free name is bound to the object of
`n` (`n` is fixed and not tied to a free parameter), then `set_all(list)`, `set_trans_var` and `refresh_vars` leave
the value of `n` unchanged. -/
theorem fixed_frame_bulk (A : Arith V) (cfg : Cfg) (s : State V) (n : Name) (c : Nat)
    (hn : cellOf s n = some c) (hfix : FixedCell s c) (op : Op V)
    (hop : (∃ l b, op = .setAllList l b) ∨ (∃ xs, op = .setTransVar xs) ∨
           (∃ vxy vr vp u chi z i b, op = .refresh vxy vr vp u chi z i b)) :
    readN (step A cfg s op).1 n = readN s n := by
  rcases hop with ⟨l, b, rfl⟩ | ⟨xs, rfl⟩ | ⟨vxy, vr, vp, u, chi, z, i, b, rfl⟩
  · exact (HF_setAllList A c s l b hfix).read_eq n hn
  · simp only [step]
    split
    · rfl
    · exact (HF_setAllList A c s _ false hfix).read_eq n hn
  · exact (HF_refresh A c s vxy vr vp u chi z i b hfix).read_eq n hn

/-- **Frame: targeted writers move only what they target.**  `set(name, v)`, `set_all(dict)`, `rp2xy(c)`, `xy2rp(c)`
change the value of `n` only if `n` is bound to the same object as a name they assign. -/
theorem frame_targeted (A : Arith V) (cfg : Cfg) (s : State V) (n : Name) (c : Nat) (hn : cellOf s n = some c) :
    (∀ name v b, cellOf s name ≠ some c → readN (step A cfg s (.set name v b)).1 n = readN s n) ∧
    (∀ d b, (∀ kv ∈ d, cellOf s kv.1 ≠ some c) → readN (step A cfg s (.setAllDict d b)).1 n = readN s n) ∧
    (∀ cn, cellOf s (cn ++ "r") ≠ some c → cellOf s (cn ++ "i") ≠ some c →
        readN (step A cfg s (.rp2xy cn)).1 n = readN s n ∧ readN (step A cfg s (.xy2rp cn)).1 n = readN s n) := by
  refine ⟨?_, ?_, ?_⟩
  · intro name v b h; exact (HF_setV A c s name v b h).read_eq n hn
  · intro d b h; exact (HF_setAllDict A c s d b h).read_eq n hn
  · intro cn hr hi
    exact ⟨(HF_rp2xy A c s cn hr hi).read_eq n hn, (HF_xy2rp A c s cn hr hi).read_eq n hn⟩

/-- **Bindings are stable**: every call other than create / fix-free / tie leaves the name→object bindings, the free
list and the tie groups exactly as they were (all 20 other calls of the model, any state). -/
theorem bindings_stable (A : Arith V) (cfg : Cfg) (s : State V) (op : Op V) (h : structural op = false) :
    (step A cfg s op).1.vars = s.vars ∧ (step A cfg s op).1.trainable = s.trainable ∧
      (step A cfg s op).1.same = s.same := by
  obtain ⟨h1, h2, h3, _⟩ := (skel_eq_iff _ _).1 (step_skel A cfg s op h)
  exact ⟨h1, h2, h3⟩

/-- **Tied parameters always read the same value**: two names bound to one object read equal after *any* history of
value-level calls (set, set_all, get, refresh, coordinate switches, standardisation, masks, bounds), and stay bound
to one object. -/
theorem tied_read_equal (A : Arith V) (cfg : Cfg) (s : State V) (a b : Name) (hab : cellOf s a = cellOf s b)
    (ops : List (Op V)) (hops : ∀ op ∈ ops, structural op = false) :
    cellOf (run A cfg s ops) a = cellOf (run A cfg s ops) b ∧ readN (run A cfg s ops) a = readN (run A cfg s ops) b := by
  have hk := (skel_eq_iff _ _).1 (run_skel A cfg ops hops s)
  have : cellOf (run A cfg s ops) a = cellOf (run A cfg s ops) b := by
    unfold cellOf; rw [hk.1]; exact hab
  exact ⟨this, read_eq_of_cell_eq _ a b this⟩

/-- **`same_real` ties what it is given**: after the inner function of `set_same`, all listed names (and, in the patched
variant, all followers) that exist are bound to one object. -/
theorem same_real_ties (s : State V) (names fol : List Name) (a b : Name)
    (ha : a ∈ names ∨ a ∈ fol) (hb : b ∈ names ∨ b ∈ fol) (hae : dhas s.vars a = true) (hbe : dhas s.vars b = true)
    (hne : ∃ n ∈ names, dhas s.vars n = true) :
    cellOf (sameReal s names fol) a = cellOf (sameReal s names fol) b :=
  sameReal_ties s names fol a b ha hb hae hbe hne

/-- the arithmetic used for closed examples: values are `Nat`, all functions trivial -/
def arithN : Arith Nat :=
  ⟨id, id, id, id, fun _ x => x, Nat.add, Nat.sub, Nat.mul, fun _ => false, 3, id, fun _ _ x => x,
   fun _ _ x => x, fun _ _ x => x, fun _ _ x => x, id⟩

-- non-vacuity of `fixed_frame_bulk`: "b" fixed, "a" free
example : ∃ s : State Nat, cellOf s "b" = some 1 ∧ FixedCell s 1 ∧ s.trainable = ["a"] :=
  ⟨run arithN ⟨false, false, false, false⟩ (State.empty 0 true) [.addReal "a" 1 true true, .addReal "b" 2 true false],
   by decide +kernel, by unfold FixedCell; decide +kernel, by decide +kernel⟩

/-- a history with real ties, a complex tie chain and a shared radius that merges groups -/
def namedHistory : List (Op Nat) :=
  [.addReal "a" 1 true true, .addReal "b" 2 true true, .addReal "c" 3 true false, .addReal "d" 4 true true,
   .addComplex "p" none true 5 6, .addComplex "q" none true 7 8, .addComplex "u" none true 9 10,
   .setFix "b" none false, .setSame ["a", "b"] false, .setSame ["c", "d"] false, .setSame ["b", "d"] false,
   .setSame ["p", "q"] true, .setSame ["u", "q"] true, .setShareR ["p", "u"], .setAllList [1, 2, 3] false]

-- non-vacuity of `inv_reachable_patched`: the hypotheses hold for `namedHistory`
example : WellPhased namedHistory ∧ WellNamed arithN ⟨true, true, false, false⟩ (State.empty 0 true) namedHistory := by
  unfold WellPhased WellNamed; decide +kernel

-- non-vacuity of `set_same_ties_patched`: a reachable state with two groups, and a call that merges them
example : ∃ s : State Nat, InvF s ∧ s.same.length = 2 ∧ tieOK s (.setSame ["b", "d"] false) = true :=
  ⟨run arithN ⟨true, true, false, false⟩ (State.empty 0 true) (namedHistory.take 10),
   inv_reachable_patched arithN ⟨true, true, false, false⟩ rfl 0 true _ (by unfold WellPhased; decide +kernel)
     (by unfold WellNamed; decide +kernel), by decide +kernel, by decide +kernel⟩

/-- **`WellNamed` is needed**: with a real variable `a` and a complex parameter `a` (`ar`, `ai`), a real tie of `a`
followed by a complex tie of `a` leaves the two free names `ar` and `xr` on one object — in the model of the patched
tree, and (checked by the harness author) in the real code as well.  The history is in phase order but not `WellNamed`. -/
theorem well_named_needed :
    let ops : List (Op Nat) :=
      [.addReal "a" 1 true true, .addComplex "a" none true 2 3, .addReal "x" 4 true true, .addComplex "x" none true 5 6,
       .addComplex "b" none true 7 8, .setSame ["a", "x"] false, .setSame ["a", "b"] true]
    let s := run arithN ⟨true, true, false, false⟩ (State.empty 0 true) ops
    wellPhasedFrom 0 ops = true ∧ wellNamedFrom arithN ⟨true, true, false, false⟩ (State.empty 0 true) ops = false ∧
      "ar" ∈ s.trainable ∧ "xr" ∈ s.trainable ∧ cellOf s "ar" = cellOf s "xr" := by
  decide +kernel

def mergeHistory : List (Op Nat) :=
  [.addReal "a" 1 true true, .addReal "b" 2 true true, .addReal "c" 3 true true, .addReal "d" 4 true true,
   .setSame ["a", "b"] false, .setSame ["c", "d"] false, .setSame ["b", "d"] false]

/-- **Finding (unchanged tree)**: merging two existing tie groups leaves the follower of the second group bound to
its old object — `d` is listed in the same group as `a` but is a different variable. -/
theorem merge_two_groups_unfixed_breaks_tie :
    let s := run arithN ⟨false, false, false, false⟩ (State.empty 0 true) mergeHistory
    s.same = [["b", "d", "a", "c"]] ∧ cellOf s "d" ≠ cellOf s "a" := by
  decide +kernel

/-- the same history with the patched `set_same`: all four names are bound to one object, one free parameter -/
theorem merge_two_groups_fixed_ties :
    let s := run arithN ⟨true, false, false, false⟩ (State.empty 0 true) mergeHistory
    cellOf s "d" = cellOf s "a" ∧ cellOf s "c" = cellOf s "a" ∧ cellOf s "b" = cellOf s "a" ∧ s.trainable = ["a"] := by
  decide +kernel

/-- **Reading everything and writing it back changes nothing**: with no mask active,
`set_all(get_all_dic())` returns exactly the same state (all fields), for every state. -/
theorem getall_setall_id (A : Arith V) (cfg : Cfg) (s : State V) (hm : s.mask = []) (trainableOnly : Bool) :
    (step A cfg s (.setAllDict (getAllDic A s trainableOnly) false)).1 = s := by
  simp only [step]
  exact setAllDict_self A s _ (getAllDic_reads A s hm trainableOnly)

/-- the excluded branch: under an active mask the read-back writes the (float32-cast) mask value into the variable -/
theorem getall_setall_under_mask_writes_mask :
    let s := (step arithN ⟨false, false, false, false⟩ (run arithN ⟨false, false, false, false⟩ (State.empty 0 true) [.addReal "a" 1 true true])
                (.maskEnter [("a", 5)])).1
    readN s "a" = some 1 ∧ readN (step arithN ⟨false, false, false, false⟩ s (.setAllDict (getAllDic arithN s false) false)).1 "a" = some 5 := by
  decide +kernel

/-! ## Part 2: value arithmetic over ℝ -/

open TfPwaV.ScalarR

/-- **Cartesian → polar preserves the complex value**, `r ≥ 0`, `-π < φ ≤ π` (all real x, y). -/
theorem xy2rp_preserves (x y : ℝ) :
    PolarR.rp2xyX (PolarR.xy2rpR x y) (PolarR.xy2rpP x y) = x ∧
    PolarR.rp2xyY (PolarR.xy2rpR x y) (PolarR.xy2rpP x y) = y ∧
    0 ≤ PolarR.xy2rpR x y ∧ -Real.pi < PolarR.xy2rpP x y ∧ PolarR.xy2rpP x y ≤ Real.pi :=
  ⟨PolarR.xy2rp_x x y, PolarR.xy2rp_y x y, PolarR.xy2rp_range x y⟩

/-- **The sign step of `std_polar` preserves the complex value and gives `r ≥ 0`** (all real r, φ). -/
theorem std_polar_sign_step (r p : ℝ) :
    PolarR.rp2xyX (PolarR.stdR r) (PolarR.stdP r p) = PolarR.rp2xyX r p ∧
    PolarR.rp2xyY (PolarR.stdR r) (PolarR.stdP r p) = PolarR.rp2xyY r p ∧ 0 ≤ PolarR.stdR r :=
  ⟨PolarR.std_x r p, PolarR.std_y r p, PolarR.stdR_nonneg r⟩

/-- **`_std_polar_angle` brings the phase into `[-π, π)` and preserves `e^{iφ}`** (all real φ).
(On the unchanged tree `std_polar` computes this value and discards it: finding `std_polar:phase-range`.) -/
theorem std_polar_angle (p : ℝ) :
    -Real.pi ≤ PolarR.stdAngle p ∧ PolarR.stdAngle p < Real.pi ∧
    Real.cos (PolarR.stdAngle p) = Real.cos p ∧ Real.sin (PolarR.stdAngle p) = Real.sin p :=
  ⟨(PolarR.stdAngle_range p).1, (PolarR.stdAngle_range p).2, PolarR.stdAngle_cos p, PolarR.stdAngle_sin p⟩

/-- **Two-sided bound** `(b-a)(sin x+1)/2+a`, `a < b`: inverse on `[a,b]`, maps ℝ into `[a,b]`,
`dydx` and `d2ydx2` are the derivatives. -/
theorem bound_two_sided (a b : ℝ) (hab : a < b) :
    (∀ y, a ≤ y → y ≤ b → BoundR.x2yAB a b (BoundR.y2xAB a b y) = y) ∧
    (∀ x, a ≤ BoundR.x2yAB a b x ∧ BoundR.x2yAB a b x ≤ b) ∧
    (∀ x, HasDerivAt (BoundR.x2yAB a b) (BoundR.dydxAB a b x) x) ∧
    (∀ x, HasDerivAt (BoundR.dydxAB a b) (BoundR.d2AB a b x) x) :=
  ⟨fun y h1 h2 => BoundR.x2y_y2x_AB a b y hab h1 h2, fun x => BoundR.x2y_range_AB a b x (le_of_lt hab),
   BoundR.hasDerivAt_x2yAB a b, BoundR.hasDerivAt_dydxAB a b⟩

/-- outside the range `get_y2x` clips to the nearer end point -/
theorem bound_two_sided_clip (a b y : ℝ) (hab : a ≤ b) :
    (y < a → BoundR.y2xAB a b y = BoundR.y2xAB a b a) ∧ (b < y → BoundR.y2xAB a b y = BoundR.y2xAB a b b) := by
  constructor
  · intro h
    unfold BoundR.y2xAB BoundR.clipAB
    rw [if_pos h, if_neg (lt_irrefl a), if_neg (not_lt.2 hab)]
  · intro h
    unfold BoundR.y2xAB BoundR.clipAB
    rw [if_neg (not_lt.2 (le_trans hab (le_of_lt h))), if_pos h, if_neg (not_lt.2 hab), if_neg (lt_irrefl b)]

/-- **Lower bound only** `a-1+sqrt(x²+1)`: inverse on `[a,∞)`, maps ℝ into `[a,∞)`, slopes are the derivatives. -/
theorem bound_lower (a : ℝ) :
    (∀ y, a ≤ y → BoundR.x2yA a (BoundR.y2xA a y) = y) ∧ (∀ x, a ≤ BoundR.x2yA a x) ∧
    (∀ x, HasDerivAt (BoundR.x2yA a) (BoundR.dydxA x) x) ∧ (∀ x, HasDerivAt BoundR.dydxA (BoundR.d2A x) x) :=
  ⟨BoundR.x2y_y2x_A a, BoundR.x2y_range_A a, BoundR.hasDerivAt_x2yA a, BoundR.hasDerivAt_dydxA⟩

/-- **Upper bound only** `b+1-sqrt(x²+1)`: inverse on `(-∞,b]`, maps ℝ into `(-∞,b]`, slopes are the derivatives. -/
theorem bound_upper (b : ℝ) :
    (∀ y, y ≤ b → BoundR.x2yB b (BoundR.y2xB b y) = y) ∧ (∀ x, BoundR.x2yB b x ≤ b) ∧
    (∀ x, HasDerivAt (BoundR.x2yB b) (BoundR.dydxB x) x) ∧ (∀ x, HasDerivAt BoundR.dydxB (BoundR.d2B x) x) :=
  ⟨BoundR.x2y_y2x_B b, BoundR.x2y_range_B b, BoundR.hasDerivAt_x2yB b, BoundR.hasDerivAt_dydxB⟩

-- non-vacuity of `bound_two_sided`
example : (0 : ℝ) < 1 := by norm_num

end TfPwaV.C16
