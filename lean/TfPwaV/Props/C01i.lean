import TfPwaV.Proofs.AxesIndBSteps
import TfPwaV.Proofs.AxesIndBD
import TfPwaV.Proofs.AxesIndBMkD
import TfPwaV.Props.C01e
import TfPwaV.Props.C01h
/-!
# C01 (base-axes clause, continued) — SU(2) → SO(3) is onto for the frames at hand; the D-function as a function of the
SU(2) ELEMENT (the `4π` bookkeeping of the level-2 azimuth)

`Props/C01h.lean` proves, for two choices of base axes whose top frames are related by an SU(2) element `U`
(`AxesPair U z x z' x'`), that the top-vertex rotations of every chain compose as `r'·U = Rotation_z(γ)·r`, and derives the
independence of the density from the base axes up to the named link `hB`.  That a `U` EXISTS was a hypothesis.  Here:

1. `frame_change_exists` — for ANY two right-handed orthonormal frames there is `U ∈ SU(2)` with `FrameChange U F F'`
   (the coordinates along a frame are `lor V` for `V = Rotation_z(γ)·Rotation_y(β)·Rotation_z(α)`; `Proofs/AxesIndB.lean`,
   degenerate directions included).  `axes_pair_exists` — hence for ANY two choices of base axes that pass the code's two
   `cross_unit` guards there is `U` with `AxesPair U z x z' x'`: the `AxesPair` hypothesis of every theorem of C01h is
   satisfiable for every pair of admissible axes, in particular for the pulled-back axes `(R⁻¹z', R⁻¹x')` of
   `C01g.boost_is_axes_change`.
2. `top_angles_compose_any_axes`, `top_D_compose_any_axes`, `below_top_azimuth_shift_any_axes` — the C01h statements with
   hypotheses on the axes' GUARDS only: ONE `U` for all chains / both daughters / all events sharing the axes.
3. `density_axes_independent_any_axes_partial` — `C01h.density_axes_independent_model_partial` without the `AxesPair`
   hypothesis; the only named link left is `hB`.
4. towards `hB`, the D-function as a function of the SU(2) element (all spins `2j ≤ 8`): `DConj_zero`, `DConj_of_element`
   (equal elements `Rz(α)Ry(β)Rz(γ)` ⇒ equal D-matrices: angles may differ by `4π`-periodic re-parametrisations, NOT by
   `2π`), `vertex_phase_element` (if the azimuth element of a vertex is `Rotation_z(a') = Rotation_z(a)·Rotation_z(−γ)` —
   the level-2 azimuth lowered by `γ` ON THE SAME SHEET — row `λ` of the vertex's D-function is multiplied by
   `e^{−iλγ}`: the phase that cancels `phase N γ k` of `C01h.top_D_compose`), `vertex_phase_other_sheet` (on the other sheet
   `Rotation_z(a') = −Rotation_z(a)·Rotation_z(−γ)` the same with the extra sign `(−1)^{2j}`: the fermion sign is a
   statement about ELEMENTS), and their `mkD` forms on the executable amplitude model (`templates/Amp.lean.in`);
   `top_and_vertex_phases_cancel`: for one configuration of the helicities at the top vertex the column phase of the top
   D-function and the row phases of the two daughters' own D-functions multiply to one.  `D_is_representation`: `D_matrix_conj` as a
   unitary representation `DE` of SU(2) elements.
5. `route_axes_change` — the route matrices `b_matrix[f]·r_matrix[f]` of the model of `cal_helicity_angle` (step record `stepTree` of
   `templates/RouteRest.lean.in`, any depth, any decay path): `M'·U = W·M` with `W = Rotation_z(γ)` for a direct daughter of the top
   particle, `W = ±1` below (`RouteW`; the relation `alignment_compose` that harness/c01_axes.py only validated).
   `alignment_element_change`, `aligned_D_axes_change`, `alignment_axes_change_model`, `row_factor_of_routeW`: the alignment element
   becomes `W_ref·R·W_k⁻¹` and its D-function `C02.codeD` changes by `codeD(W_k⁻¹)` on the row (contracted) index and by
   `codeD(W_ref)` — ONE element per final particle — on the column (external) index.
6.–8. assembly on the executable amplitude model `AmpR` (`templates/Amp.lean.in`; `AmpR.densityG` = `AmpR.density` of the chains with all
   D-functions replaced, `AmpR.density_setAll`), ANY list of chains of any topology / depth:
   `model_density_axes_independent_partial` / `_stored_partial` (one unitary on the top rows, one unitary per final particle on the
   alignment columns of chains aligned once, row factors everywhere), `model_density_axes_independent_ext_partial` (reference chains
   included: all `W` are diagonal, the external helicities carry one common phase `Ξ ext`), and the versions with hypotheses on SU(2)
   ELEMENTS only, `2j ≤ 8`, D-functions = `mkD` at the primed angles (`_elements_partial`, `_elements_ext_partial`;
   `vertex_element_of_shift` turns the model's `AzShift` into the element hypothesis).  The ONLY open hypothesis of these theorems is
   `hcancel`: the proved row/column phases multiply, on every helicity configuration the einsum visits, to one common unit-modulus
   number — a statement about numbers, no D-function or index structure in it.
-/
open Matrix BigOperators
open TfPwaV.ScalarR
namespace TfPwaV.C01i
open TfPwaV.SU2R TfPwaV.AlignR TfPwaV.KinR TfPwaV.AngleR TfPwaV.SL2CR TfPwaV.LorentzSLR TfPwaV.CascadeR TfPwaV.RouteRestR
open TfPwaV.C12 TfPwaV.C02 TfPwaV.C01 TfPwaV.C11 TfPwaV.AxesInd TfPwaV.UnitaryMix TfPwaV.FrameAlg TfPwaV.C01h

/-! ## (1) SU(2) → SO(3) is onto for frames -/

/-- **`frame_change_exists`** — ALL right-handed orthonormal frames `(X, Y, Z)`, `(X', Y', Z')`: there is `U ∈ SU(2)` such that
for every four-vector the coordinates along the second frame are `lor U` of the coordinates along the first. -/
theorem frame_change_exists (X Y Z X' Y' Z' : V3) (hF : IsFrame X Y Z) (hF' : IsFrame X' Y' Z') :
    ∃ U : M2, IsSU2 U ∧ FrameChange U X Y Z X' Y' Z' :=
  AxesInd.frame_change_exists X Y Z X' Y' Z' hF hF'

/-- the coordinates along a frame are the Lorentz map of ONE element of SU(2) (every frame) -/
theorem frame_is_su2 (X Y Z : V3) (hF : IsFrame X Y Z) : ∃ V : M2, IsSU2 V ∧ ∀ q : V4, coords X Y Z q = lor V q :=
  frame_lift X Y Z hF

/-- **`axes_pair_exists`** — ALL base axes `(z, x)`, `(z', x')` (not normalised, not orthogonal) that pass the two
`cross_unit` guards of `angle_zx_z_getx` for the top particle: the `AxesPair` hypothesis of C01h holds for some `U`. -/
theorem axes_pair_exists (z x z' x' : V3) (h : TopOK z x) (h' : TopOK z' x') : ∃ U : M2, AxesPair U z x z' x' := by
  obtain ⟨F, _, _⟩ := top_frame z x h.1 h.2
  obtain ⟨F', _, _⟩ := top_frame z' x' h'.1 h'.2
  obtain ⟨U, hU, hch⟩ := AxesInd.frame_change_exists _ _ _ _ _ _ F F'
  exact ⟨U, h, h', hU, hch⟩

-- non-vacuity: the laboratory axes and a tilted, rescaled pair are admissible
example : TopOK ⟨0, 0, 1⟩ ⟨1, 0, 0⟩ ∧ TopOK ⟨0, 3, 4⟩ ⟨2, 0, 0⟩ := by
  have e5 : Real.sqrt (5 * 5) = 5 := Real.sqrt_mul_self (by norm_num)
  have e10 : Real.sqrt (10 * 10) = 10 := Real.sqrt_mul_self (by norm_num)
  refine ⟨⟨?_, ?_⟩, ⟨?_, ?_⟩⟩ <;> simp only [V3.cross, V3.norm, V3.norm2, ksqrt] <;> unfold eps <;> norm_num
  · have : (100 : ℝ) = 10 * 10 := by norm_num
    rw [this, e10]; norm_num
  · have : (25 : ℝ) = 5 * 5 := by norm_num
    rw [this, e5]; norm_num

/-! ## (2) the C01h statements with hypotheses on the guards only -/

/-- **`top_angles_compose_any_axes`** — ALL admissible base axes: there is ONE `U ∈ SU(2)` (depending on the axes only) such
that for EVERY chain of EVERY event (decay trees `T1`, `T2` of any depth, any boost `g`, the code's guards) and both
daughters of the top vertex `r'·U = Rotation_z(γ_j)·r`. -/
theorem top_angles_compose_any_axes (z x z' x' : V3) (h : TopOK z x) (h' : TopOK z' x') :
    ∃ U : M2, IsSU2 U ∧ ∀ (p : V4) (T1 T2 : PTree) (g : V4 → V4),
      Guards (chainBoost (.node p T1 T2) g) z x → Guards (chainBoost (.node p T1 T2) g) z' x' →
      let a := topAngles (helicityAngle (chainBoost (.node p T1 T2) g) z x)
      let a' := topAngles (helicityAngle (chainBoost (.node p T1 T2) g) z' x')
      (∃ γ1 : ℝ, (stepR a'.1 a'.2.1).mul U = (rotZ γ1).mul (stepR a.1 a.2.1)) ∧
        ∃ γ2 : ℝ, (stepR a'.2.2.1 a'.2.2.2).mul U = (rotZ γ2).mul (stepR a.2.2.1 a.2.2.2) := by
  obtain ⟨U, hA⟩ := axes_pair_exists z x z' x' h h'
  exact ⟨U, hA.su2, fun p T1 T2 g hG hG' => top_angles_compose U z x z' x' hA p T1 T2 g hG hG'⟩

/-- **`top_D_compose_any_axes`** — … hence (spin `2j = N ≤ 8`) ONE matrix `D₀ = D(mirror U)` for all chains with
`D^{j*}(α', β', 0) = D₀ · D^{j*}(α, β, 0) · diag(e^{i l γ})`, `γ` the chain's own angle. -/
theorem top_D_compose_any_axes (N : ℕ) (hN : N ≤ 8) (z x z' x' : V3) (h : TopOK z x) (h' : TopOK z' x') :
    ∃ D0 : Matrix (Fin (N + 1)) (Fin (N + 1)) ℂ, star D0 * D0 = 1 ∧ ∀ (p : V4) (T1 T2 : PTree) (g : V4 → V4),
      Guards (chainBoost (.node p T1 T2) g) z x → Guards (chainBoost (.node p T1 T2) g) z' x' →
      let a := topAngles (helicityAngle (chainBoost (.node p T1 T2) g) z x)
      let a' := topAngles (helicityAngle (chainBoost (.node p T1 T2) g) z' x')
      ∃ γ : ℝ, ∀ i k, DConj N a'.1 a'.2.1 0 i k = (D0 * DConj N a.1 a.2.1 0) i k * FrameAlg.phase N γ k := by
  obtain ⟨U, hA⟩ := axes_pair_exists z x z' x' h h'
  refine ⟨DConj N (eulerOf (mirror U)).gamma (eulerOf (mirror U)).beta (eulerOf (mirror U)).alpha,
    C01.D_conj_unitary N hN _ _ _, fun p T1 T2 g hG hG' => ?_⟩
  obtain ⟨⟨γ, hγ⟩, _⟩ := top_angles_compose U z x z' x' hA p T1 T2 g hG hG'
  exact ⟨γ, fun i k => top_D_compose N hN U hA.su2 _ _ _ _ γ hγ i k⟩

/-- **`below_top_azimuth_shift_any_axes`** — `C01h.below_top_azimuth_shift` for ALL admissible base axes. -/
theorem below_top_azimuth_shift_any_axes (z x z' x' : V3) (h : TopOK z x) (h' : TopOK z' x') :
    ∃ U : M2, IsSU2 U ∧ ∀ (r : V4) (T : PTree) (g : V4 → V4) (bias bias' : ℝ), StepOK z r → StepOK z' r →
      (RDecays (chainBoost T (fun q => r.restVector (g q))) → eps < r.boostVector.norm2) →
      Guards (chainBoost T (fun q => r.restVector (g q))) r.vect (angleZxZGetx z x r.vect).x2 →
      Guards (chainBoost T (fun q => r.restVector (g q))) r.vect (angleZxZGetx z' x' r.vect).x2 →
      ∃ γ : ℝ, (stepR (shiftAlpha (angleZxZGetx z' x' r.vect).alpha bias') (angleZxZGetx z' x' r.vect).beta).mul U =
          (rotZ γ).mul (stepR (shiftAlpha (angleZxZGetx z x r.vect).alpha bias) (angleZxZGetx z x r.vect).beta) ∧
        AzShift γ (helicityAngle (chainBoost T (fun q => r.restVector (g q))) r.vect (angleZxZGetx z x r.vect).x2)
          (helicityAngle (chainBoost T (fun q => r.restVector (g q))) r.vect (angleZxZGetx z' x' r.vect).x2) := by
  obtain ⟨U, hA⟩ := axes_pair_exists z x z' x' h h'
  exact ⟨U, hA.su2, fun r T g bias bias' hok hok' hreg hG hG' =>
    below_top_azimuth_shift U z x z' x' hA r T g bias bias' hok hok' hreg hG hG'⟩

/-! ## (3) the density: no `AxesPair` hypothesis left -/

/-- FULL: for a FIXED event the helicity-summed density of the amplitude model does not depend on the base axes.

Proved part: `C01h.density_axes_independent_model_partial` for ALL admissible base axes `(z, x)`, `(z', x')` — the SU(2) element
relating the two top frames is no longer assumed to exist.  Any number of chains `κ`, parent spin `2j = N ≤ 8`, decay trees of
any depth.  Missing, named `hB` (unchanged from C01h, but now asked for whichever `U` relates the frames): the remainder of
chain `k` computed from the second choice of axes is `e^{−i l γ_k}` times the remainder computed from the first.  Section (4)
proves the vertex-level half of it on SU(2) elements. -/
theorem density_axes_independent_any_axes_partial {ιF κ : Type} [Fintype ιF] [DecidableEq ιF] [Fintype κ]
    (N : ℕ) (hN : N ≤ 8) (z x z' x' : V3) (h : TopOK z x) (h' : TopOK z' x')
    (p : κ → V4) (T1 T2 : κ → PTree) (g : κ → V4 → V4)
    (hG : ∀ k, Guards (chainBoost (.node (p k) (T1 k) (T2 k)) (g k)) z x)
    (hG' : ∀ k, Guards (chainBoost (.node (p k) (T1 k) (T2 k)) (g k)) z' x')
    (B B' : κ → Fin (N + 1) → ιF → ℂ)
    (hB : ∀ U, AxesPair U z x z' x' → ∀ k γ,
      (stepR (topAngles (helicityAngle (chainBoost (.node (p k) (T1 k) (T2 k)) (g k)) z' x')).1
          (topAngles (helicityAngle (chainBoost (.node (p k) (T1 k) (T2 k)) (g k)) z' x')).2.1).mul U =
        (rotZ γ).mul (stepR (topAngles (helicityAngle (chainBoost (.node (p k) (T1 k) (T2 k)) (g k)) z x)).1
          (topAngles (helicityAngle (chainBoost (.node (p k) (T1 k) (T2 k)) (g k)) z x)).2.1) →
      ∀ l f, B' k l f = FrameAlg.phase N (-γ) l * B k l f) :
    density (fun k (q : Fin (N + 1) × ιF) => ∑ l,
        DConj N (topAngles (helicityAngle (chainBoost (.node (p k) (T1 k) (T2 k)) (g k)) z' x')).1
          (topAngles (helicityAngle (chainBoost (.node (p k) (T1 k) (T2 k)) (g k)) z' x')).2.1 0 q.1 l * B' k l q.2)
      = density (fun k (q : Fin (N + 1) × ιF) => ∑ l,
        DConj N (topAngles (helicityAngle (chainBoost (.node (p k) (T1 k) (T2 k)) (g k)) z x)).1
          (topAngles (helicityAngle (chainBoost (.node (p k) (T1 k) (T2 k)) (g k)) z x)).2.1 0 q.1 l * B k l q.2) := by
  obtain ⟨U, hA⟩ := axes_pair_exists z x z' x' h h'
  exact density_axes_independent_model_partial N hN U z x z' x' hA p T1 T2 g hG hG' B B' (hB U hA)

/-! ## (4) the D-function is a function of the SU(2) element -/

/-- **the D-matrix of the unit element is the unit matrix** (all spins `2j ≤ 8`) -/
theorem D_of_unit_element (N : ℕ) (hN : N ≤ 8) : DConj N 0 0 0 = 1 := DConj_zero N hN

/-- **`D_of_element`** — spin `2j = N ≤ 8`, ALL angles: Euler angles that describe the SAME element of SU(2) give the same
D-matrix (so half-integer spins see the `4π` range of every angle through the element, never through the angle). -/
theorem D_of_element (N : ℕ) (hN : N ≤ 8) (α β γ α' β' γ' : ℝ) (h : rot3 α' β' γ' = rot3 α β γ) :
    DConj N α' β' γ' = DConj N α β γ := DConj_of_element N hN α β γ α' β' γ' h

/-- **`D_is_representation`** — `DE N x` := `D_matrix_conj` at Euler angles of `x` (`DE N (Rz(α)Ry(β)Rz(γ)) = DConj N α β γ`) is a
unitary representation of SU(2) for `2j ≤ 8`: multiplicative on ALL pairs of elements, `Rotation_z(θ) ↦ diag(e^{imθ})`,
`−1 ↦ (−1)^{2j}`. -/
theorem D_is_representation (N : ℕ) (hN : N ≤ 8) :
    (∀ α β γ : ℝ, DE N (rot3 α β γ) = DConj N α β γ) ∧
    (∀ x y : M2, IsSU2 x → IsSU2 y → DE N (x.mul y) = DE N x * DE N y) ∧
    (∀ x : M2, star (DE N x) * DE N x = 1) ∧
    (∀ θ : ℝ, DE N (rotZ θ) = diagonal (FrameAlg.phase N θ)) ∧
    DE N negOne = ((-1 : ℂ) ^ N) • (1 : Matrix (Fin (N + 1)) (Fin (N + 1)) ℂ) :=
  ⟨DE_rot3 N hN, DE_mul N hN, DE_unitary N hN, DE_rotZ N hN, DE_negOne N hN⟩

/-- **`vertex_phase_element`** (the `Dfun_delta` structure, on elements) — spin `2j = N ≤ 8`: if the azimuth ELEMENT of a vertex
is `Rotation_z(a') = Rotation_z(a)·Rotation_z(−γ)` (the azimuth is lowered by `γ` on the same sheet of the double cover), then
`D^{j*}_{λ, δ}(a', b, g) = e^{−iλγ} · D^{j*}_{λ, δ}(a, b, g)` for every row `λ` and every column. -/
theorem vertex_phase_element (N : ℕ) (hN : N ≤ 8) (a a' b g γ : ℝ) (h : rotZ a' = (rotZ a).mul (rotZ (-γ)))
    (i k : Fin (N + 1)) : DConj N a' b g i k = FrameAlg.phase N (-γ) i * DConj N a b g i k := by
  have he : rot3 a' b g = rot3 (a + -γ) b g := by
    unfold rot3
    rw [h, rotZ_add]
  rw [DConj_of_element N hN _ _ _ _ _ _ he, DConj_alpha_shift]

/-- **`vertex_phase_other_sheet`** — … and if the azimuth element is on the OTHER sheet, `Rotation_z(a') =
Rotation_z(a)·Rotation_z(2π − γ)` (`= −Rotation_z(a)·Rotation_z(−γ)`: the angles agree mod `2π`, not mod `4π`), the D-function
carries the extra sign `(−1)^{2j}`: `+1` for bosons, `−1` for fermions. -/
theorem vertex_phase_other_sheet (N : ℕ) (hN : N ≤ 8) (a a' b g γ : ℝ)
    (h : rotZ a' = (rotZ a).mul (rotZ (2 * Real.pi - γ))) (i k : Fin (N + 1)) :
    DConj N a' b g i k = (-1 : ℂ) ^ N * (FrameAlg.phase N (-γ) i * DConj N a b g i k) := by
  have h2 : rotZ a' = (rotZ a).mul (rotZ (-(γ - 2 * Real.pi))) := by
    rw [h]; congr 2; ring
  rw [vertex_phase_element N hN a a' b g (γ - 2 * Real.pi) h2 i k]
  have e : -(γ - 2 * Real.pi) = -γ + 2 * Real.pi := by ring
  rw [e, phase_two_pi]
  ring

-- the two sheets are the two elements over one rotation of three-space: `Rotation_z(2π − γ) = −Rotation_z(−γ)`
example (γ : ℝ) : rotZ (2 * Real.pi - γ) = (rotZ (2 * Real.pi)).mul (rotZ (-γ)) := by
  rw [← rotZ_add]; congr 1

/-- **the same on the executable amplitude model** (`AmpR.mkD` = `get_D_matrix_lambda`: the table `D_matrix_conj` gathered by
`Dfun_delta_v2`, padding zeros included): row helicity `hel2 N i`, EVERY column request `δ`. -/
theorem mkD_vertex_phase (N : ℕ) (hN : N ≤ 8) (a a' b g γ : ℝ) (h : rotZ a' = (rotZ a).mul (rotZ (-γ)))
    (i : Fin (N + 1)) (δ : Int) :
    LineShapeR.toC (AmpR.mkD N a' b g (AmpR.hel2 N i) δ) =
      FrameAlg.phase N (-γ) i * LineShapeR.toC (AmpR.mkD N a b g (AmpR.hel2 N i) δ) := by
  rw [AmpR.toC_mkD, AmpR.toC_mkD]
  split_ifs with hd
  · exact vertex_phase_element N hN a a' b g γ h i _
  · simp

/-- the column phase of the top vertex on the executable model: `D^{J*}_{λ,δ}(α, β, γ) = D^{J*}_{λ,δ}(α, β, 0)·e^{iδγ}` with
`δ = λ_b − λ_c` the gathered column (all spins, every row `hel2 N i`, every column request) -/
theorem mkD_top_gamma (N : ℕ) (α β γ : ℝ) (i : Fin (N + 1)) (δ : Int) :
    LineShapeR.toC (AmpR.mkD N α β γ (AmpR.hel2 N i) δ) =
      if h : δ.natAbs ≤ N then LineShapeR.toC (AmpR.mkD N α β 0 (AmpR.hel2 N i) δ) *
        FrameAlg.phase N γ ⟨((δ + (N : Int)) / 2).toNat, by omega⟩ else 0 := by
  rw [AmpR.toC_mkD, AmpR.toC_mkD]
  split_ifs with hd
  · exact DConj_gamma N α β γ i _
  · rfl

/-- **`top_and_vertex_phases_cancel`** — one configuration of the helicities at the top vertex (`kb`, `kc`: index of `λ_b`, `λ_c`
in the helicity ranges of the two daughters with doubled spins `Nb`, `Nc`; `k`: index of `δ = λ_b − λ_c` in the range of the
parent, `2j = N`): the phase `e^{iδγ}` that `top_D_compose` puts on the column of the top D-function, the row phase `e^{−iλ_b γ}`
of daughter `b`'s own D-function (`vertex_phase_element`) and the row phase `e^{+iλ_c γ}` of daughter `c`'s (whose frame is turned
the other way round, `γ_c = −γ`) multiply to ONE. -/
theorem top_and_vertex_phases_cancel (N Nb Nc : ℕ) (k : Fin (N + 1)) (kb : Fin (Nb + 1)) (kc : Fin (Nc + 1)) (γ : ℝ)
    (hδ : AmpR.hel2 N k = AmpR.hel2 Nb kb - AmpR.hel2 Nc kc) :
    FrameAlg.phase N γ k * FrameAlg.phase Nb (-γ) kb * FrameAlg.phase Nc γ kc = 1 := by
  unfold FrameAlg.phase
  rw [← Complex.exp_add, ← Complex.exp_add]
  have hh : hel N k = hel Nb kb - hel Nc kc := by
    unfold AmpR.hel2 at hδ
    unfold hel
    have : (2 * ((k : ℕ) : ℝ) - (N : ℝ)) = (2 * ((kb : ℕ) : ℝ) - (Nb : ℝ)) - (2 * ((kc : ℕ) : ℝ) - (Nc : ℝ)) := by
      exact_mod_cast congrArg (fun z : Int => (z : ℝ)) hδ
    linarith
  rw [hh]
  have : (((hel Nb kb - hel Nc kc) * γ : ℝ) : ℂ) * Complex.I + ((hel Nb kb * -γ : ℝ) : ℂ) * Complex.I +
      ((hel Nc kc * γ : ℝ) : ℂ) * Complex.I = 0 := by
    push_cast; ring
  rw [this, Complex.exp_zero]

-- non-vacuity of the element hypotheses: lowering the azimuth by `γ` literally satisfies the same-sheet equation, lowering it
-- by `γ` and adding a full turn (what a `mod 2π` reduction of the stored angle does) satisfies the other-sheet equation
example (a γ : ℝ) : rotZ (a - γ) = (rotZ a).mul (rotZ (-γ)) := by rw [← rotZ_add]; congr 1
example (a γ : ℝ) : rotZ (a - γ + 2 * Real.pi) = (rotZ a).mul (rotZ (2 * Real.pi - γ)) := by
  rw [← rotZ_add]; congr 1; ring

/-! ## (5) the route matrices `b_matrix[f]·r_matrix[f]` and the alignment elements -/

/-- how the route matrix of a final particle changes: `W` is `Rotation_z(γ)` with the `γ` of the vertex equation for a direct
daughter of the top particle (one step), `+1` or `−1` for every deeper particle -/
def RouteW (U : M2) (ss ss' : List Step) (W : M2) : Prop :=
  (∃ s s' γ, ss = [s] ∧ ss' = [s'] ∧ (stepR s'.alpha s'.beta).mul U = (rotZ γ).mul (stepR s.alpha s.beta) ∧ W = rotZ γ) ∨
    (2 ≤ ss.length ∧ (W = M2.one ∨ W = negOne))

theorem RouteW.isSU2 {U : M2} {ss ss' : List Step} {W : M2} (h : RouteW U ss ss' W) : IsSU2 W := by
  rcases h with ⟨_, _, γ, _, _, _, rfl⟩ | ⟨_, rfl | rfl⟩
  · exact isSU2_rotZ γ
  · exact ⟨by simp [M2.one, Cx.one, Cx.conj], by ext <;> simp [M2.one, Cx.zero, Cx.conj, Cx.neg],
      by simp [M2.one, Cx.one, Cx.zero, Cx.normSq]⟩
  · exact isSU2_negOne

theorem route_direct_change_at (a b a' b' ω : ℝ) (U : M2) (γ : ℝ) (h : (stepR a' b').mul U = (rotZ γ).mul (stepR a b)) :
    (routeM [⟨a', b', ω⟩]).mul U = (rotZ γ).mul (routeM [⟨a, b, ω⟩]) :=
  route_direct_change ⟨a, b, ω⟩ ⟨a', b', ω⟩ U γ rfl h

theorem route_deeper_change_at (a b a' b' ω : ℝ) (t t' : Step) (rest : List Step) (U : M2) (γ : ℝ)
    (h : (stepR a' b').mul U = (rotZ γ).mul (stepR a b)) (ht : StepShift γ t t') :
    (routeM (⟨a', b', ω⟩ :: t' :: rest)).mul U = routeM (⟨a, b, ω⟩ :: t :: rest) ∨
      (routeM (⟨a', b', ω⟩ :: t' :: rest)).mul U = negOne.mul (routeM (⟨a, b, ω⟩ :: t :: rest)) :=
  route_deeper_change ⟨a, b, ω⟩ ⟨a', b', ω⟩ t t' rest U γ rfl h ht.1 ht.2.1 ht.2.2.1 ht.2.2.2

theorem routeW_direct (a b a' b' ω : ℝ) (U : M2) (γ : ℝ) (h : (stepR a' b').mul U = (rotZ γ).mul (stepR a b)) :
    RouteW U [⟨a, b, ω⟩] [⟨a', b', ω⟩] (rotZ γ) :=
  Or.inl ⟨⟨a, b, ω⟩, ⟨a', b', ω⟩, γ, rfl, rfl, h, rfl⟩

/-- **`route_axes_change`** (`alignment_compose`, so far validated only) — every event (`T1`, `T2`: decay trees of ANY depth of the
two daughters of the top particle, `g`: boost to its rest frame), two admissible choices of base axes related by `U`, EVERY
decay path to a final particle: the route matrices `M = b_matrix[f]·r_matrix[f] = routeM(steps)` that `cal_helicity_angle`
accumulates satisfy `M'·U = W·M` with `W = Rotation_z(γ)` for a direct daughter of the top particle (`γ` from its vertex
equation) and `W = ±1` for every deeper particle. -/
theorem route_axes_change (U : M2) (z x z' x' : V3) (hA : AxesPair U z x z' x') (p : V4) (T1 T2 : PTree) (g : V4 → V4)
    (hG : Guards (chainBoost (.node p T1 T2) g) z x) (hG' : Guards (chainBoost (.node p T1 T2) g) z' x')
    (path : List Bool) (ss ss' : List Step)
    (h : (stepTree (chainBoost (.node p T1 T2) g) z x).stepsAt path = some ss)
    (h' : (stepTree (chainBoost (.node p T1 T2) g) z' x').stepsAt path = some ss') :
    ∃ W : M2, RouteW U ss ss' W ∧ (routeM ss').mul U = W.mul (routeM ss) := by
  simp only [chainBoost, Guards] at hG hG'
  obtain ⟨_, ok1, ok2, reg1, reg2, G1, G2⟩ := hG
  obtain ⟨_, ok1', ok2', _, _, G1', G2'⟩ := hG'
  simp only [chainBoost, stepTree] at h h'
  cases path with
  | nil => simp [STree.stepsAt] at h
  | cons b r =>
    cases b with
    | false =>
      simp only [STree.stepsAt, Option.map_eq_some_iff] at h h'
      obtain ⟨l, hl, rfl⟩ := h
      obtain ⟨l', hl', rfl⟩ := h'
      obtain ⟨γ, hγ, hS⟩ := below_top_steps_shift U z x z' x' hA (g T1.p) T1 g (-kpi) (-kpi) ok1 ok1' reg1 G1 G1'
      rcases hS.steps r l l' hl hl' with ⟨rfl, rfl⟩ | ⟨t, t', rest, rfl, rfl, ht⟩
      · exact ⟨rotZ γ, routeW_direct _ _ _ _ _ U γ hγ, route_direct_change_at _ _ _ _ _ U γ hγ⟩
      · rcases route_deeper_change_at _ _ _ _ _ t t' rest U γ hγ ht with e | e
        · exact ⟨M2.one, Or.inr ⟨by simp, Or.inl rfl⟩, by rw [M2.one_mul]; exact e⟩
        · exact ⟨negOne, Or.inr ⟨by simp, Or.inr rfl⟩, e⟩
    | true =>
      simp only [STree.stepsAt, Option.map_eq_some_iff] at h h'
      obtain ⟨l, hl, rfl⟩ := h
      obtain ⟨l', hl', rfl⟩ := h'
      obtain ⟨γ, hγ, hS⟩ := below_top_steps_shift U z x z' x' hA (g T2.p) T2 g (-kpi - kpi) (-kpi - kpi) ok2 ok2' reg2 G2 G2'
      rcases hS.steps r l l' hl hl' with ⟨rfl, rfl⟩ | ⟨t, t', rest, rfl, rfl, ht⟩
      · exact ⟨rotZ γ, routeW_direct _ _ _ _ _ U γ hγ, route_direct_change_at _ _ _ _ _ U γ hγ⟩
      · rcases route_deeper_change_at _ _ _ _ _ t t' rest U γ hγ ht with e | e
        · exact ⟨M2.one, Or.inr ⟨by simp, Or.inl rfl⟩, by rw [M2.one_mul]; exact e⟩
        · exact ⟨negOne, Or.inr ⟨by simp, Or.inr rfl⟩, e⟩

/-- the alignment element `cal_helicity_angle` hands to `get_euler_angle` is `M_ref · M_k⁻¹` of the two route matrices -/
theorem alignR_eq_routes (ρ k : Route) : alignR ρ.b ρ.r k.r k.b = (routeM ρ.list).mul (routeM k.list).inv := by
  rw [alignR_eq, ← route_matches_code ρ, ← route_matches_code k, M2.inv_mul]

/-- **`alignment_element_change`** — the alignment element of chain `k` for a final particle with reference chain `ρ`: if the two
route matrices change as in `route_axes_change` (`M'·U = W·M`), the alignment element changes to `W_ref · R · W_k⁻¹`:
ONE element `W_ref` per final particle on the left (common to all chains), the chain's own `W_k⁻¹` on the right; `U` drops out. -/
theorem alignment_element_change (U : M2) (hU : IsSU2 U) (ρ ρ' k k' : Route) (Wr Wk : M2)
    (hr : (routeM ρ'.list).mul U = Wr.mul (routeM ρ.list)) (hk : (routeM k'.list).mul U = Wk.mul (routeM k.list)) :
    alignR ρ'.b ρ'.r k'.r k'.b = (Wr.mul (alignR ρ.b ρ.r k.r k.b)).mul Wk.inv := by
  rw [alignR_eq_routes, alignR_eq_routes]
  exact align_change _ _ _ _ U Wr Wk (isSU2_det U hU) hr hk

/-- **`aligned_D_axes_change`** — spin `2j = N ≤ 8` of the final particle: the D-function `DecayChain.get_amp` inserts for the
alignment (`D_matrix_conj` at `get_euler_angle` of the alignment element) changes by `codeD(W_k⁻¹)` on the ROW index (the one
contracted with the chain's own helicity) and by `codeD(W_ref)` on the COLUMN index (the external helicity of the final particle:
ONE unitary per final particle, the same for all chains).  The fermion signs are carried by the elements. -/
theorem aligned_D_axes_change (N : ℕ) (hN : N ≤ 8) (U : M2) (hU : IsSU2 U) (ρ ρ' k k' : Route) (Wr Wk : M2)
    (hWr : IsSU2 Wr) (hWk : IsSU2 Wk) (hR : IsSU2 (alignR ρ.b ρ.r k.r k.b))
    (hr : (routeM ρ'.list).mul U = Wr.mul (routeM ρ.list)) (hk : (routeM k'.list).mul U = Wk.mul (routeM k.list)) :
    codeD N (alignR ρ'.b ρ'.r k'.r k'.b) = codeD N Wk.inv * codeD N (alignR ρ.b ρ.r k.r k.b) * codeD N Wr := by
  rw [alignment_element_change U hU ρ ρ' k k' Wr Wk hr hk]
  exact codeD_change N hN _ Wr Wk hR hWr hWk

/-- the row factor for the three kinds of `W_k`: the phase `e^{−imγ}` for a direct daughter of the top particle (cancelling
`phase N γ` of `top_D_compose`), `1` or `(−1)^{2j}` for a deeper particle -/
theorem row_factor_of_routeW (N : ℕ) (hN : N ≤ 8) (U : M2) (ss ss' : List Step) (W : M2) (h : RouteW U ss ss' W) :
    (∃ γ, W = rotZ γ ∧ codeD N W.inv = diagonal (FrameAlg.phase N (-γ))) ∨
      (W = M2.one ∧ codeD N W.inv = 1) ∨
      (W = negOne ∧ codeD N W.inv = ((-1 : ℂ) ^ N) • (1 : Matrix (Fin (N + 1)) (Fin (N + 1)) ℂ)) := by
  rcases h with ⟨_, _, γ, _, _, _, rfl⟩ | ⟨_, rfl | rfl⟩
  · exact Or.inl ⟨γ, rfl, by rw [rotZ_inv, codeD_rotZ N hN]⟩
  · refine Or.inr (Or.inl ⟨rfl, ?_⟩)
    have e : (M2.one : M2).inv = M2.one := by ext <;> simp [M2.inv, M2.one, Cx.neg, Cx.zero]
    rw [e, codeD_one N hN]
  · refine Or.inr (Or.inr ⟨rfl, ?_⟩)
    have e : negOne.inv = negOne := by ext <;> simp [M2.inv, negOne, Cx.neg, Cx.zero]
    rw [e, codeD_negOne N hN]

/-- **`alignment_axes_change_model`** — the statement on the MODEL of `cal_helicity_angle`, hypotheses = the code's guards: one event,
two chains (the reference chain of a final particle with trees `T1r`, `T2r` and chain `k` with trees `T1k`, `T2k`, any depth, any
decay paths), two admissible choices of base axes: there are `W_ref`, `W_k` of the kinds `RouteW` (`Rotation_z(γ)` of the own vertex
equation for a direct daughter of the top particle, `±1` below) such that the alignment D-function (`2j = N ≤ 8`) computed from the
second choice of axes is `codeD(W_k⁻¹)·(the one computed from the first)·codeD(W_ref)`.  `IsSU2` of the alignment element is
`C02d.alignR_isSU2` (from `C02e.route_to_rest_of_cascade` for the event). -/
theorem alignment_axes_change_model (N : ℕ) (hN : N ≤ 8) (U : M2) (z x z' x' : V3) (hA : AxesPair U z x z' x')
    (pr : V4) (T1r T2r : PTree) (gr : V4 → V4)
    (hGr : Guards (chainBoost (.node pr T1r T2r) gr) z x) (hGr' : Guards (chainBoost (.node pr T1r T2r) gr) z' x')
    (pathr : List Bool) (ρ ρ' : Route)
    (hρ : (stepTree (chainBoost (.node pr T1r T2r) gr) z x).stepsAt pathr = some ρ.list)
    (hρ' : (stepTree (chainBoost (.node pr T1r T2r) gr) z' x').stepsAt pathr = some ρ'.list)
    (pk : V4) (T1k T2k : PTree) (gk : V4 → V4)
    (hGk : Guards (chainBoost (.node pk T1k T2k) gk) z x) (hGk' : Guards (chainBoost (.node pk T1k T2k) gk) z' x')
    (pathk : List Bool) (k k' : Route)
    (hk : (stepTree (chainBoost (.node pk T1k T2k) gk) z x).stepsAt pathk = some k.list)
    (hk' : (stepTree (chainBoost (.node pk T1k T2k) gk) z' x').stepsAt pathk = some k'.list)
    (hR : IsSU2 (alignR ρ.b ρ.r k.r k.b)) :
    ∃ Wr Wk : M2, RouteW U ρ.list ρ'.list Wr ∧ RouteW U k.list k'.list Wk ∧
      codeD N (alignR ρ'.b ρ'.r k'.r k'.b) = codeD N Wk.inv * codeD N (alignR ρ.b ρ.r k.r k.b) * codeD N Wr := by
  obtain ⟨Wr, hWr, er⟩ := route_axes_change U z x z' x' hA pr T1r T2r gr hGr hGr' pathr _ _ hρ hρ'
  obtain ⟨Wk, hWk, ek⟩ := route_axes_change U z x z' x' hA pk T1k T2k gk hGk hGk' pathk _ _ hk hk'
  exact ⟨Wr, Wk, hWr, hWk, aligned_D_axes_change N hN U hA.su2 ρ ρ' k k' Wr Wk hWr.isSU2 hWk.isSU2 hR er ek⟩

/-! ## (6) assembly on the executable amplitude model: top unitary × final unitaries × row factors -/

/-- the helicities of particle `p` with doubled spin `N p` -/
def AllowedHel (N : Nat → Nat) (p : Nat) (m : Int) : Prop := ∃ k : Fin (N p + 1), m = AmpR.hel2 (N p) k

theorem mem_mRange (j : Nat) (m : Int) (h : m ∈ Wigner.mRange j) : ∃ k : Fin (j + 1), m = AmpR.hel2 j k := by
  unfold Wigner.mRange at h
  obtain ⟨i, hi, rfl⟩ := List.mem_map.mp h
  exact ⟨⟨i, List.mem_range.mp hi⟩, rfl⟩

/-- FULL: for a FIXED event the helicity-summed density `sum_amp` of the amplitude model (`templates/Amp.lean.in`: any list of
chains of any topology and depth, top spin and final spins arbitrary here) does not depend on the base axes from which
`cal_helicity_angle` starts.

Proved part — the INDEX STRUCTURE of `DecayChain.get_amp` / `DecayGroup.get_amp` / `sum_amp` (the part of `hB` that C01h left open): if
a change of the base axes acts on the D-functions of every chain `C` by
* (`ht`, `htop`) the top-vertex D-function: ONE unitary `U0` on its rows (common to all chains) and a factor `χt C (λ_b − λ_c)` on
  its column — what `C01h.top_D_compose` proves with `U0 = D(mirror U)`, `χt = e^{i(λ_b−λ_c)γ_C}`;
* (`hv`) every lower vertex: a factor `χv C v (λ_a)` on its row — what `vertex_phase_element` / `vertex_phase_other_sheet` prove for
  the daughters of the top particle (`e^{−iλγ}`, times `(−1)^{2j}` on the other sheet), `1` for the deeper ones
  (`C01h.below_top_azimuth_shift`);
* (`ha`, `hcol`, `hsame`) every alignment D-function: a factor `χa C A (λ)` on its row (contracted index) and ONE unitary `V p` per
  final particle `p ∈ M` on its column (common to all chains) — what `alignment_axes_change_model` proves with
  `χa = codeD(W_k⁻¹)` (diagonal: `e^{−iλγ}`, `1` or `(−1)^{2j}`: `row_factor_of_routeW`) and `V p = codeD(W_ref)`;
and if for every chain and every helicity configuration the einsum visits the row/column factors multiply to ONE (`hcancel`),
then the density is unchanged.  `densityG … = AmpR.density` of the chains with the D-functions replaced (`AmpR.density_setAll`).

Missing, named `hcancel` (a statement about NUMBERS, no D-function or index structure left in it): that the factors proved above
do multiply to one — `top_and_vertex_phases_cancel` is the case of two decaying daughters on the same sheet with `γ_c = −γ_b`; the
general case needs `Rotation_z(γ_c) = ±Rotation_z(−γ_b)` (the second daughter's frame is the first one's turned by `π` about `y`),
the sign bookkeeping `(−1)^{2j_R}` = product of the `(−1)^{2j_f}` of the finals below `R` (angular-momentum conservation of the decay
card), and the reference chain of a final particle (no alignment D-function: `p ∉ M`, its `W` must be trivial). -/
theorem model_density_axes_independent_partial (NT : ℕ) (U0 : Matrix (Fin (NT + 1)) (Fin (NT + 1)) ℂ) (hU0 : star U0 * U0 = 1)
    (N : Nat → Nat) (V : ∀ p, Matrix (Fin (N p + 1)) (Fin (N p + 1)) ℂ)
    (M : List Nat) (hV : ∀ p ∈ M, star (V p) * V p = 1) (hMnd : M.Nodup)
    (ids : List Nat) (hids : ids.Nodup) (hM : ∀ p ∈ M, p ∈ ids)
    (cs : List AmpR.Chain) (hstruct : ∀ p ∈ M, ∀ C ∈ cs, C.AlignedOnce p)
    (hinner : ∀ C ∈ cs, ∀ x ∈ C.inner, ∀ m ∈ x.2, AllowedHel N x.1 m)
    (Dtop' Dtop'' Dtop : AmpR.Chain → Int → Int → LineShapeR.Cx) (Dv' : AmpR.Chain → AmpR.Vertex → Int → Int → LineShapeR.Cx)
    (Dal' Dal'' Dal : AmpR.Chain → AmpR.Align → Int → Int → LineShapeR.Cx)
    (χt : AmpR.Chain → Int → ℂ) (χv : AmpR.Chain → AmpR.Vertex → Int → ℂ) (χa : AmpR.Chain → AmpR.Align → Int → ℂ)
    (ht : ∀ C ∈ cs, ∀ (i : Fin (NT + 1)) (δ : Int),
      LineShapeR.toC (Dtop' C (AmpR.hel2 NT i) δ) = LineShapeR.toC (Dtop'' C (AmpR.hel2 NT i) δ) * χt C δ)
    (htop : ∀ C ∈ cs, ∀ (i : Fin (NT + 1)) (δ : Int),
      LineShapeR.toC (Dtop'' C (AmpR.hel2 NT i) δ) = ∑ k, U0 i k * LineShapeR.toC (Dtop C (AmpR.hel2 NT k) δ))
    (hv : ∀ C ∈ cs, ∀ v ∈ C.rest, ∀ l δ, LineShapeR.toC (Dv' C v l δ) = χv C v l * LineShapeR.toC (v.D l δ))
    (ha : ∀ C ∈ cs, ∀ A ∈ C.aligns, ∀ l m, LineShapeR.toC (Dal' C A l m) = χa C A l * LineShapeR.toC (Dal'' C A l m))
    (hcol : ∀ p ∈ M, ∀ C ∈ cs, ∀ A ∈ C.aligns, A.p = p → ∀ (l : Int) (k : Fin (N p + 1)),
      LineShapeR.toC (Dal'' C A l (AmpR.hel2 (N p) k)) = ∑ j, LineShapeR.toC (Dal C A l (AmpR.hel2 (N p) j)) * V p j k)
    (hsame : ∀ C ∈ cs, ∀ A ∈ C.aligns, A.p ∉ M → ∀ l m, Dal'' C A l m = Dal C A l m)
    (hcancel : ∀ C ∈ cs, ∀ h : AmpR.Hel,
      (∀ p, (p ∈ (C01e.finalsOf N ids).map Prod.fst ∨ p ∈ C.inner.map Prod.fst) → AllowedHel N p (h p)) →
      C.gaugeProd (χt C) (χv C) (χa C) h = 1) :
    AmpR.densityG cs Dtop' Dv' Dal' (Wigner.mRange NT) (C01e.finalsOf N ids)
      = AmpR.densityWith cs Dtop Dal (Wigner.mRange NT) (C01e.finalsOf N ids) := by
  rw [AmpR.densityG_gauge (AllowedHel N) cs (Wigner.mRange NT) (C01e.finalsOf N ids) ?_ hinner Dtop' Dtop'' Dv' Dal' Dal''
    χt χv χa ?_ hv ha hcancel]
  · exact C01e.model_density_mix_all NT U0 hU0 N V M hV hMnd ids hids hM cs hstruct Dtop'' Dtop Dal'' Dal htop hcol hsame
  · intro x hx m hm
    unfold C01e.finalsOf at hx
    obtain ⟨p, _, rfl⟩ := List.mem_map.mp hx
    exact mem_mRange _ _ hm
  · intro C hC la hla δ
    obtain ⟨i, rfl⟩ := mem_mRange _ _ hla
    exact ht C hC i δ

/-- the same for the density of the executable model itself: `AmpR.density` (the function whose Float instance is compared with the
real `sum_amp` on every run) of the chains with the D-functions of the second choice of axes equals `AmpR.density` of the chains
with those of the first -/
theorem model_density_axes_independent_stored_partial (NT : ℕ) (U0 : Matrix (Fin (NT + 1)) (Fin (NT + 1)) ℂ)
    (hU0 : star U0 * U0 = 1) (N : Nat → Nat) (V : ∀ p, Matrix (Fin (N p + 1)) (Fin (N p + 1)) ℂ)
    (M : List Nat) (hV : ∀ p ∈ M, star (V p) * V p = 1) (hMnd : M.Nodup)
    (ids : List Nat) (hids : ids.Nodup) (hM : ∀ p ∈ M, p ∈ ids)
    (cs : List AmpR.Chain) (hstruct : ∀ p ∈ M, ∀ C ∈ cs, C.AlignedOnce p)
    (hinner : ∀ C ∈ cs, ∀ x ∈ C.inner, ∀ m ∈ x.2, AllowedHel N x.1 m)
    (Dtop' Dtop'' : AmpR.Chain → Int → Int → LineShapeR.Cx) (Dv' : AmpR.Chain → AmpR.Vertex → Int → Int → LineShapeR.Cx)
    (Dal' Dal'' : AmpR.Chain → AmpR.Align → Int → Int → LineShapeR.Cx)
    (χt : AmpR.Chain → Int → ℂ) (χv : AmpR.Chain → AmpR.Vertex → Int → ℂ) (χa : AmpR.Chain → AmpR.Align → Int → ℂ)
    (ht : ∀ C ∈ cs, ∀ (i : Fin (NT + 1)) (δ : Int),
      LineShapeR.toC (Dtop' C (AmpR.hel2 NT i) δ) = LineShapeR.toC (Dtop'' C (AmpR.hel2 NT i) δ) * χt C δ)
    (htop : ∀ C ∈ cs, ∀ (i : Fin (NT + 1)) (δ : Int),
      LineShapeR.toC (Dtop'' C (AmpR.hel2 NT i) δ) = ∑ k, U0 i k * LineShapeR.toC (C.top.D (AmpR.hel2 NT k) δ))
    (hv : ∀ C ∈ cs, ∀ v ∈ C.rest, ∀ l δ, LineShapeR.toC (Dv' C v l δ) = χv C v l * LineShapeR.toC (v.D l δ))
    (ha : ∀ C ∈ cs, ∀ A ∈ C.aligns, ∀ l m, LineShapeR.toC (Dal' C A l m) = χa C A l * LineShapeR.toC (Dal'' C A l m))
    (hcol : ∀ p ∈ M, ∀ C ∈ cs, ∀ A ∈ C.aligns, A.p = p → ∀ (l : Int) (k : Fin (N p + 1)),
      LineShapeR.toC (Dal'' C A l (AmpR.hel2 (N p) k)) = ∑ j, LineShapeR.toC (A.D l (AmpR.hel2 (N p) j)) * V p j k)
    (hsame : ∀ C ∈ cs, ∀ A ∈ C.aligns, A.p ∉ M → ∀ l m, Dal'' C A l m = A.D l m)
    (hcancel : ∀ C ∈ cs, ∀ h : AmpR.Hel,
      (∀ p, (p ∈ (C01e.finalsOf N ids).map Prod.fst ∨ p ∈ C.inner.map Prod.fst) → AllowedHel N p (h p)) →
      C.gaugeProd (χt C) (χv C) (χa C) h = 1) :
    AmpR.density (cs.map fun C => C.setAll (Dtop' C) (Dv' C) (Dal' C)) (Wigner.mRange NT) (C01e.finalsOf N ids)
      = AmpR.density cs (Wigner.mRange NT) (C01e.finalsOf N ids) := by
  rw [AmpR.density_setAll]
  exact model_density_axes_independent_partial NT U0 hU0 N V M hV hMnd ids hids hM cs hstruct hinner Dtop' Dtop''
    (fun C => C.top.D) Dv' Dal' Dal'' (fun _ A => A.D) χt χv χa ht htop hv ha hcol hsame hcancel

-- non-vacuity of `hcancel` and of the factor hypotheses: trivial factors (`χ = 1`, identical D-functions) satisfy them for every chain
example (C : AmpR.Chain) (h : AmpR.Hel) : C.gaugeProd (fun _ => 1) (fun _ _ => 1) (fun _ _ => 1) h = 1 := by
  unfold AmpR.Chain.gaugeProd
  simp

/-! ## (7) the assembly with hypotheses on SU(2) ELEMENTS and phases only -/

/-- the D-function angles in the order `mkD` takes them -/
noncomputable def mkD3 (N : ℕ) (a : ℝ × ℝ × ℝ) : Int → Int → LineShapeR.Cx := AmpR.mkD N a.1 a.2.1 a.2.2

/-- FULL: as `model_density_axes_independent_partial`.

Proved part, on the model's own `get_D_matrix_lambda` (`AmpR.mkD`), all spins `2j ≤ 8`, any list of chains of any topology and depth:
the hypotheses are the relations between SU(2) ELEMENTS that sections (2), (4), (5) prove for the angles of `cal_helicity_angle` —
* `htop`: the vertex equation `r'·U = Rotation_z(γ_C)·r` of the top vertex of every chain (`top_angles_compose_any_axes`);
* `hvert`: every lower vertex has its Euler element multiplied from the left by `Rotation_z(θ)` (`θ = −γ` or `2π − γ` for the daughters
  of the top particle: `vertex_phase_element` / `_other_sheet`; `θ = 0` below);
* `hal`, `hal0`: the alignment Euler element `rev R` of every chain is multiplied from the left by the chain's own `Rotation_z(θ)`
  (`rev(W_k⁻¹)`, `row_factor_of_routeW`) and from the right by ONE element `Wref p` per final particle (`rev W_ref`;
  `alignment_axes_change_model`);
and the single numerical link `hcancel`: for every configuration of helicities the einsum visits the phases
`colPhase(γ_C)(λ_b − λ_c) · Π rowPhase(θ_v)(λ_{a(v)}) · Π rowPhase(θ_A)(λ_{p(A)})` multiply to one.  The D-functions of the second
choice of axes are `mkD` at the primed angles; `densityG` is `AmpR.density` of the chains carrying them (`AmpR.density_setAll`). -/
theorem model_density_axes_independent_elements_partial (NT : ℕ) (hNT : NT ≤ 8) (U : M2) (hU : IsSU2 U)
    (N : Nat → Nat) (Wref : Nat → M2) (M : List Nat) (hNM : ∀ p ∈ M, N p ≤ 8) (hW : ∀ p ∈ M, IsSU2 (Wref p)) (hMnd : M.Nodup)
    (ids : List Nat) (hids : ids.Nodup) (hM : ∀ p ∈ M, p ∈ ids)
    (cs : List AmpR.Chain) (hstruct : ∀ p ∈ M, ∀ C ∈ cs, C.AlignedOnce p)
    (hinner : ∀ C ∈ cs, ∀ x ∈ C.inner, ∀ m ∈ x.2, AllowedHel N x.1 m)
    (hNa : ∀ C ∈ cs, ∀ A ∈ C.aligns, N A.p ≤ 8)
    (jv : AmpR.Vertex → ℕ) (hjv : ∀ C ∈ cs, ∀ v ∈ C.rest, jv v ≤ 8)
    (ang' ang : AmpR.Chain → ℝ × ℝ) (γ : AmpR.Chain → ℝ)
    (angv' angv : AmpR.Chain → AmpR.Vertex → ℝ × ℝ × ℝ) (θv : AmpR.Chain → AmpR.Vertex → ℝ)
    (al' al : AmpR.Chain → AmpR.Align → ℝ × ℝ × ℝ) (θa : AmpR.Chain → AmpR.Align → ℝ)
    (htop : ∀ C ∈ cs, (stepR (ang' C).1 (ang' C).2).mul U = (rotZ (γ C)).mul (stepR (ang C).1 (ang C).2))
    (hvD : ∀ C ∈ cs, ∀ v ∈ C.rest, v.D = mkD3 (jv v) (angv C v))
    (hvert : ∀ C ∈ cs, ∀ v ∈ C.rest, rot3 (angv' C v).1 (angv' C v).2.1 (angv' C v).2.2 =
      (rotZ (θv C v)).mul (rot3 (angv C v).1 (angv C v).2.1 (angv C v).2.2))
    (hal : ∀ C ∈ cs, ∀ A ∈ C.aligns, A.p ∈ M → rot3 (al' C A).1 (al' C A).2.1 (al' C A).2.2 =
      (rotZ (θa C A)).mul ((rot3 (al C A).1 (al C A).2.1 (al C A).2.2).mul (Wref A.p)))
    (hal0 : ∀ C ∈ cs, ∀ A ∈ C.aligns, A.p ∉ M → rot3 (al' C A).1 (al' C A).2.1 (al' C A).2.2 =
      (rotZ (θa C A)).mul (rot3 (al C A).1 (al C A).2.1 (al C A).2.2))
    (hcancel : ∀ C ∈ cs, ∀ h : AmpR.Hel,
      (∀ p, (p ∈ (C01e.finalsOf N ids).map Prod.fst ∨ p ∈ C.inner.map Prod.fst) → AllowedHel N p (h p)) →
      C.gaugeProd (colPhase NT (γ C)) (fun v => rowPhase (jv v) (θv C v)) (fun A => rowPhase (N A.p) (θa C A)) h = 1) :
    AmpR.densityG cs (fun C => AmpR.mkD NT (ang' C).1 (ang' C).2 0) (fun C v => mkD3 (jv v) (angv' C v))
        (fun C A => mkD3 (N A.p) (al' C A)) (Wigner.mRange NT) (C01e.finalsOf N ids)
      = AmpR.densityWith cs (fun C => AmpR.mkD NT (ang C).1 (ang C).2 0) (fun C A => mkD3 (N A.p) (al C A))
        (Wigner.mRange NT) (C01e.finalsOf N ids) := by
  have hm := mirror_isSU2 U hU
  -- the intermediate D-functions: top rows mixed by `D(mirror U)`, alignment columns mixed by `D(Wref p)`, no phases yet
  let mid : AmpR.Chain → M2 := fun C => (mirror U).mul (rot3 (ang C).1 (ang C).2 0)
  have hmid : ∀ C, IsSU2 (mid C) := fun C => isSU2_mul _ _ hm (isSU2_rot3 _ _ _)
  let midA : AmpR.Chain → AmpR.Align → M2 := fun C A => (rot3 (al C A).1 (al C A).2.1 (al C A).2.2).mul (Wref A.p)
  apply model_density_axes_independent_partial NT (DE NT (mirror U)) (DE_unitary NT hNT _) N (fun p => DE (N p) (Wref p)) M
    (fun p hp => DE_unitary (N p) (hNM p hp) _) hMnd ids hids hM cs hstruct hinner
    (fun C => AmpR.mkD NT (ang' C).1 (ang' C).2 0) (fun C => mkD3 NT (anglesOf (mid C)))
    (fun C => AmpR.mkD NT (ang C).1 (ang C).2 0) (fun C v => mkD3 (jv v) (angv' C v)) (fun C A => mkD3 (N A.p) (al' C A))
    (fun C A => if A.p ∈ M then mkD3 (N A.p) (anglesOf (midA C A)) else mkD3 (N A.p) (al C A))
    (fun C A => mkD3 (N A.p) (al C A))
    (fun C => colPhase NT (γ C)) (fun C v => rowPhase (jv v) (θv C v)) (fun C A => rowPhase (N A.p) (θa C A))
  · -- ht
    intro C hC i δ
    apply mkD_col_factor NT hNT
    rw [rot3_anglesOf _ (hmid C), active_of_passive U hU _ _ _ _ _ (htop C hC), rot3_split (ang C).1 (ang C).2 (γ C),
      su2_mul_assoc]
  · -- htop
    intro C hC i δ
    exact mkD_row_mix NT hNT (mirror U) hm _ _ _ _ _ _ (rot3_anglesOf _ (hmid C)) i δ
  · -- hv
    intro C hC v hv l δ
    rw [hvD C hC v hv]
    exact mkD_row_factor (jv v) (hjv C hC v hv) _ _ _ _ _ _ _ (hvert C hC v hv) l δ
  · -- ha
    intro C hC A hA l m
    by_cases hp : A.p ∈ M
    · simp only [if_pos hp]
      apply mkD_row_factor (N A.p) (hNa C hC A hA)
      rw [rot3_anglesOf _ (isSU2_mul _ _ (isSU2_rot3 _ _ _) (hW A.p hp))]
      exact hal C hC A hA hp
    · simp only [if_neg hp]
      exact mkD_row_factor (N A.p) (hNa C hC A hA) _ _ _ _ _ _ _ (hal0 C hC A hA hp) l m
  · -- hcol
    intro p hp C hC A hA hAp l k
    have hpA : A.p ∈ M := hAp ▸ hp
    simp only [if_pos hpA]
    subst hAp
    exact mkD_col_mix' (N A.p) (hNM A.p hp) (Wref A.p) (hW A.p hp) _ _ _ _ _ _
      (rot3_anglesOf _ (isSU2_mul _ _ (isSU2_rot3 _ _ _) (hW A.p hp))) l k
  · -- hsame
    intro C hC A hA hp l m
    simp only [if_neg hp]
  · exact hcancel

-- non-vacuity of `hcancel` with NON-trivial phases: a chain whose only lower vertex is the decay of the first daughter (`a = b_top`,
-- doubled spin 1), second daughter final and unaligned with spin 0: `colPhase 1 γ (λ_b − 0) · rowPhase 1 (−γ) λ_b = 1`
example (γ : ℝ) (k : Fin 2) :
    colPhase 1 γ (AmpR.hel2 1 k - 0) * rowPhase 1 (-γ) (AmpR.hel2 1 k) = 1 := by
  have hk : (AmpR.hel2 1 k - 0).natAbs ≤ 1 := by unfold AmpR.hel2; have := k.2; omega
  have e : (⟨((AmpR.hel2 1 k - 0 + ((1 : ℕ) : Int)) / 2).toNat, by omega⟩ : Fin 2) = k := by
    apply Fin.ext; simp only; unfold AmpR.hel2; have := k.2; omega
  rw [rowPhase_hel2]
  unfold colPhase
  rw [dif_pos hk, e]
  unfold FrameAlg.phase
  rw [← Complex.exp_add]
  have : ((hel 1 k * γ : ℝ) : ℂ) * Complex.I + ((hel 1 k * -γ : ℝ) : ℂ) * Complex.I = 0 := by push_cast; ring
  rw [this, Complex.exp_zero]

/-! ## (8) the reference chains included: every `W` is diagonal, the final helicities carry ONE common phase -/

/-- FULL: as `model_density_axes_independent_partial`.

`route_axes_change` shows that EVERY `W` (of the chain itself and of the reference chain of a final particle) is `Rotation_z(γ)` or `±1`,
i.e. diagonal in the helicity basis.  So no unitary MIXING of final helicities occurs at all: an alignment D-function acquires a row
factor `χa` and a column factor `ψ`, and the chain that is the reference of a final particle (no alignment D-function for it) keeps
the row factor of the vertex in which that particle is produced as a phase on the EXTERNAL helicity.  Proved (any list of chains —
reference chains included —, any topology and depth, any spins): if for every chain all row/column factors multiply, on every helicity
configuration the einsum visits, to ONE unit-modulus number `Ξ ext` that is the same for all chains (`hcancel`), and the top D-function
rows mix with one unitary `U0` (`htop`), the density is unchanged.  Missing, named: `hcancel` (numbers only). -/
theorem model_density_axes_independent_ext_partial (NT : ℕ) (U0 : Matrix (Fin (NT + 1)) (Fin (NT + 1)) ℂ)
    (hU0 : star U0 * U0 = 1) (N : Nat → Nat) (ids : List Nat) (cs : List AmpR.Chain)
    (hinner : ∀ C ∈ cs, ∀ x ∈ C.inner, ∀ m ∈ x.2, AllowedHel N x.1 m)
    (Dtop' Dtop'' Dtop : AmpR.Chain → Int → Int → LineShapeR.Cx) (Dv' : AmpR.Chain → AmpR.Vertex → Int → Int → LineShapeR.Cx)
    (Dal' Dal : AmpR.Chain → AmpR.Align → Int → Int → LineShapeR.Cx)
    (χt : AmpR.Chain → Int → ℂ) (χv : AmpR.Chain → AmpR.Vertex → Int → ℂ) (χa ψ : AmpR.Chain → AmpR.Align → Int → ℂ)
    (Ξ : AmpR.Hel → ℂ)
    (hΞ : ∀ ext, (∀ p, p ∈ (C01e.finalsOf N ids).map Prod.fst → AllowedHel N p (ext p)) → Complex.normSq (Ξ ext) = 1)
    (ht : ∀ C ∈ cs, ∀ (i : Fin (NT + 1)) (δ : Int),
      LineShapeR.toC (Dtop' C (AmpR.hel2 NT i) δ) = LineShapeR.toC (Dtop'' C (AmpR.hel2 NT i) δ) * χt C δ)
    (htop : ∀ C ∈ cs, ∀ (i : Fin (NT + 1)) (δ : Int),
      LineShapeR.toC (Dtop'' C (AmpR.hel2 NT i) δ) = ∑ k, U0 i k * LineShapeR.toC (Dtop C (AmpR.hel2 NT k) δ))
    (hv : ∀ C ∈ cs, ∀ v ∈ C.rest, ∀ l δ, LineShapeR.toC (Dv' C v l δ) = χv C v l * LineShapeR.toC (v.D l δ))
    (ha : ∀ C ∈ cs, ∀ A ∈ C.aligns, ∀ l m,
      LineShapeR.toC (Dal' C A l m) = χa C A l * LineShapeR.toC (Dal C A l m) * ψ C A m)
    (hcancel : ∀ C ∈ cs, ∀ ext, (∀ p, p ∈ (C01e.finalsOf N ids).map Prod.fst → AllowedHel N p (ext p)) →
      ∀ h : AmpR.Hel,
      (∀ p, (p ∈ (C01e.finalsOf N ids).map Prod.fst ∨ p ∈ C.inner.map Prod.fst) → AllowedHel N p (h p)) →
      C.gaugeProd (χt C) (χv C) (χa C) h * (C.aligns.map fun A => ψ C A (ext A.p)).prod = Ξ ext) :
    AmpR.densityG cs Dtop' Dv' Dal' (Wigner.mRange NT) (C01e.finalsOf N ids)
      = AmpR.densityWith cs Dtop Dal (Wigner.mRange NT) (C01e.finalsOf N ids) := by
  rw [AmpR.densityG_gauge_ext (AllowedHel N) cs (Wigner.mRange NT) (C01e.finalsOf N ids) ?_ hinner Dtop' Dtop'' Dv' Dal' Dal
    χt χv χa ψ Ξ hΞ ?_ hv ha hcancel]
  · exact C01d.model_density_top_mix NT U0 hU0 cs Dtop'' Dtop Dal _ htop
  · intro x hx m hm
    unfold C01e.finalsOf at hx
    obtain ⟨p, _, rfl⟩ := List.mem_map.mp hx
    exact mem_mRange _ _ hm
  · intro C hC la hla δ
    obtain ⟨i, rfl⟩ := mem_mRange _ _ hla
    exact ht C hC i δ

/-- **`model_density_axes_independent_elements_ext_partial`** — the same on the model's own `get_D_matrix_lambda` (`AmpR.mkD`), all spins
`2j ≤ 8`, with hypotheses on SU(2) ELEMENTS only: `htop` (vertex equation of the top vertex of every chain, proved:
`top_angles_compose_any_axes`), `hvert` (Euler element of every lower vertex multiplied from the left by `Rotation_z(θ_v)`, proved for
the angles of the model: `C01h.below_top_azimuth_shift` + `rotZ_of_cos_sin`, see `vertex_element_of_shift`), `hal` (alignment Euler
element multiplied by `Rotation_z(θ_A)` from the left — the chain's own `W_k⁻¹` — and by `Rotation_z(φ_A)` from the right — the
reference chain's `W_ref`; proved: `alignment_axes_change_model` + `RouteW`), and the numerical link `hcancel`. -/
theorem model_density_axes_independent_elements_ext_partial (NT : ℕ) (hNT : NT ≤ 8) (U : M2) (hU : IsSU2 U)
    (N : Nat → Nat) (ids : List Nat) (cs : List AmpR.Chain)
    (hinner : ∀ C ∈ cs, ∀ x ∈ C.inner, ∀ m ∈ x.2, AllowedHel N x.1 m)
    (hNa : ∀ C ∈ cs, ∀ A ∈ C.aligns, N A.p ≤ 8)
    (jv : AmpR.Vertex → ℕ) (hjv : ∀ C ∈ cs, ∀ v ∈ C.rest, jv v ≤ 8)
    (ang' ang : AmpR.Chain → ℝ × ℝ) (γ : AmpR.Chain → ℝ)
    (angv' angv : AmpR.Chain → AmpR.Vertex → ℝ × ℝ × ℝ) (θv : AmpR.Chain → AmpR.Vertex → ℝ)
    (al' al : AmpR.Chain → AmpR.Align → ℝ × ℝ × ℝ) (θa φa : AmpR.Chain → AmpR.Align → ℝ) (Ξ : AmpR.Hel → ℂ)
    (hΞ : ∀ ext, (∀ p, p ∈ (C01e.finalsOf N ids).map Prod.fst → AllowedHel N p (ext p)) → Complex.normSq (Ξ ext) = 1)
    (htop : ∀ C ∈ cs, (stepR (ang' C).1 (ang' C).2).mul U = (rotZ (γ C)).mul (stepR (ang C).1 (ang C).2))
    (hvD : ∀ C ∈ cs, ∀ v ∈ C.rest, v.D = mkD3 (jv v) (angv C v))
    (hvert : ∀ C ∈ cs, ∀ v ∈ C.rest, rot3 (angv' C v).1 (angv' C v).2.1 (angv' C v).2.2 =
      (rotZ (θv C v)).mul (rot3 (angv C v).1 (angv C v).2.1 (angv C v).2.2))
    (hal : ∀ C ∈ cs, ∀ A ∈ C.aligns, rot3 (al' C A).1 (al' C A).2.1 (al' C A).2.2 =
      (rotZ (θa C A)).mul ((rot3 (al C A).1 (al C A).2.1 (al C A).2.2).mul (rotZ (φa C A))))
    (hcancel : ∀ C ∈ cs, ∀ ext, (∀ p, p ∈ (C01e.finalsOf N ids).map Prod.fst → AllowedHel N p (ext p)) →
      ∀ h : AmpR.Hel,
      (∀ p, (p ∈ (C01e.finalsOf N ids).map Prod.fst ∨ p ∈ C.inner.map Prod.fst) → AllowedHel N p (h p)) →
      C.gaugeProd (colPhase NT (γ C)) (fun v => rowPhase (jv v) (θv C v)) (fun A => rowPhase (N A.p) (θa C A)) h *
        (C.aligns.map fun A => colPhase (N A.p) (φa C A) (ext A.p)).prod = Ξ ext) :
    AmpR.densityG cs (fun C => AmpR.mkD NT (ang' C).1 (ang' C).2 0) (fun C v => mkD3 (jv v) (angv' C v))
        (fun C A => mkD3 (N A.p) (al' C A)) (Wigner.mRange NT) (C01e.finalsOf N ids)
      = AmpR.densityWith cs (fun C => AmpR.mkD NT (ang C).1 (ang C).2 0) (fun C A => mkD3 (N A.p) (al C A))
        (Wigner.mRange NT) (C01e.finalsOf N ids) := by
  have hm := mirror_isSU2 U hU
  let mid : AmpR.Chain → M2 := fun C => (mirror U).mul (rot3 (ang C).1 (ang C).2 0)
  have hmid : ∀ C, IsSU2 (mid C) := fun C => isSU2_mul _ _ hm (isSU2_rot3 _ _ _)
  apply model_density_axes_independent_ext_partial NT (DE NT (mirror U)) (DE_unitary NT hNT _) N ids cs hinner
    (fun C => AmpR.mkD NT (ang' C).1 (ang' C).2 0) (fun C => mkD3 NT (anglesOf (mid C)))
    (fun C => AmpR.mkD NT (ang C).1 (ang C).2 0) (fun C v => mkD3 (jv v) (angv' C v)) (fun C A => mkD3 (N A.p) (al' C A))
    (fun C A => mkD3 (N A.p) (al C A))
    (fun C => colPhase NT (γ C)) (fun C v => rowPhase (jv v) (θv C v)) (fun C A => rowPhase (N A.p) (θa C A))
    (fun C A => colPhase (N A.p) (φa C A)) Ξ hΞ
  · intro C hC i δ
    apply mkD_col_factor NT hNT
    rw [rot3_anglesOf _ (hmid C), active_of_passive U hU _ _ _ _ _ (htop C hC), rot3_split (ang C).1 (ang C).2 (γ C),
      su2_mul_assoc]
  · intro C hC i δ
    exact mkD_row_mix NT hNT (mirror U) hm _ _ _ _ _ _ (rot3_anglesOf _ (hmid C)) i δ
  · intro C hC v hv l δ
    rw [hvD C hC v hv]
    exact mkD_row_factor (jv v) (hjv C hC v hv) _ _ _ _ _ _ _ (hvert C hC v hv) l δ
  · intro C hC A hA l m
    exact mkD_row_col_factor (N A.p) (hNa C hC A hA) _ _ _ _ _ _ _ _ (hal C hC A hA) l m
  · exact hcancel

/-- the link from the MODEL's level-2 azimuth to `hvert`: an azimuth that is lowered by `γ` mod `2π` (what
`C01h.below_top_azimuth_shift` proves) multiplies the Euler element of the vertex from the left by `Rotation_z(−γ)` or by
`Rotation_z(2π − γ) = −Rotation_z(−γ)` — one of the two sheets, nothing else -/
theorem vertex_element_of_shift (a a' b g γ : ℝ) (hc : Real.cos a' = Real.cos (a - γ)) (hs : Real.sin a' = Real.sin (a - γ)) :
    ∃ θ : ℝ, (θ = -γ ∨ θ = 2 * Real.pi - γ) ∧ rot3 a' b g = (rotZ θ).mul (rot3 a b g) := by
  have e0 : ∀ θ : ℝ, rot3 (θ + a) b g = (rotZ θ).mul (rot3 a b g) := by
    intro θ
    unfold rot3
    rw [rotZ_add]
    simp only [su2_mul_assoc]
  have e1 : ∀ x y : ℝ, rotZ x = rotZ y → rot3 x b g = rot3 y b g := by
    intro x y h; unfold rot3; rw [h]
  rcases rotZ_of_cos_sin a' (a - γ) hc hs with h | h
  · refine ⟨-γ, Or.inl rfl, ?_⟩
    rw [← e0, e1 a' (-γ + a) (by rw [h]; congr 1; ring)]
  · refine ⟨2 * Real.pi - γ, Or.inr rfl, ?_⟩
    rw [← e0]
    apply e1
    rw [h, ← rotZ_two_pi, ← rotZ_add]
    congr 1; ring

end TfPwaV.C01i
