import TfPwaV.Proofs.Amp
import TfPwaV.Props.C01
import TfPwaV.Props.C01b
/-!
# C01 (amplitude tensor) — theorems about the EXECUTABLE model of `tf_pwa/amp/core.py`

`templates/Amp.lean.in` is the helicity amplitude tensor as the code builds it (`HelicityDecay.get_helicity_amp`,
`get_amp`, `DecayChain.get_amp`, `DecayGroup.get_amp`, `sum_amp`); its Float instance is compared with the real
tensors per helicity component on every run (harness/c01_amp.py).  Here, for the ℝ instance of the same text, for EVERY
list of chains (any number, any depth, any spins, any couplings / line-shape values / angles below the top vertex):

* `amp_is_chain_tensor`: the model amplitude of a chain is `Σ_μ D^{J*}_{λ_A μ}(α,β,γ) · T[μ, finals]` with `D` the
  matrix `FrameAlg.DConj` of C01/C12 and a remainder `T` that depends neither on `λ_A` nor on the top angles;
* `model_density_top_mix` / `model_density_top_rot_invariant`: if the top-vertex D-matrix of every chain is left-multiplied
  by ONE common unitary (`D(R)` for a rotation that composes in SU(2): `DConj_compose`), the helicity-summed density of
  the model is unchanged;
* `amp_linear_in_total`, `amp_linear_in_top_couplings`, `amp_linear_in_vertex_couplings`, `helicity_coupling_formula`,
  `group_amp_is_sum`: linearity in
  `total`, in the helicity couplings / `g_ls`, and the group amplitude as the sum over chains (the abstract vectors of C03);
* `model_density_nonneg`.
-/
open Matrix BigOperators
open TfPwaV.ScalarR
namespace TfPwaV.C01d
open TfPwaV.AmpR TfPwaV.LineShapeR TfPwaV.SpinlessR TfPwaV.UnitaryMix TfPwaV.FrameAlg TfPwaV.Wigner

/-! ## (a) the chain amplitude is a chain tensor -/

/-- the gather pattern of `Dfun_delta_v2` as a D-function: row `μ` (an index `0..N`) selects the configurations with
`|λb-λc| ≤ j` whose flattened column index is `μ` -/
noncomputable def gatherInd (N : ℕ) (μ δ : Int) : Cx :=
  if δ.natAbs ≤ N ∧ ((δ + (N : Int)) / 2).toNat = μ.toNat then ⟨1, 0⟩ else ⟨0, 0⟩

/-- the remainder tensor `T[μ, finals]` of a chain: helicity couplings, propagators, `total`, lower vertices and
alignment D-functions contracted over the inner helicities with `λb - λc ↔ μ` at the top vertex.  It involves neither the
helicity of the top particle nor the angles of the top vertex. -/
noncomputable def remainder (N : ℕ) (C : Chain) (Dal : Align → Int → Int → Cx) (k : Fin (N + 1)) (ext : Hel) : Cx :=
  C.ampWith (gatherInd N) Dal ((k : ℕ) : Int) ext

/-- **(a)** for every chain, every spin `N/2` of the top particle, all top-vertex angles, every helicity `λ_A` of the top
particle and every final-state component: the model amplitude built with `get_D_matrix_lambda(ang, J, …)` at the top
vertex equals `Σ_μ D^{J*}_{λ_A, μ}(α,β,γ) · T[μ, finals]`. -/
theorem amp_is_chain_tensor (N : ℕ) (C : Chain) (Dal : Align → Int → Int → Cx) (α β γ : ℝ) (i : Fin (N + 1))
    (ext : Hel) :
    toC (C.ampWith (mkD N α β γ) Dal (hel2 N i) ext)
      = ∑ k : Fin (N + 1), DConj N α β γ i k * toC (remainder N C Dal k ext) := by
  unfold remainder
  apply ampWith_mix Finset.univ (fun k => DConj N α β γ i k) (fun k => ((k : ℕ) : Int)) C
  intro δ
  rw [toC_mkD]
  unfold gatherInd
  split_ifs with h
  · rw [Finset.sum_eq_single (⟨((δ + (N : Int)) / 2).toNat, by omega⟩ : Fin (N + 1))]
    · have hc : δ.natAbs ≤ N ∧ ((δ + (N : Int)) / 2).toNat
          = ((((⟨((δ + (N : Int)) / 2).toNat, by omega⟩ : Fin (N + 1)) : ℕ) : Int)).toNat :=
        ⟨h, by simp only [Int.toNat_natCast]⟩
      rw [if_pos hc, toC_one, mul_one]
    · intro b _ hb
      have : ¬ (δ.natAbs ≤ N ∧ ((δ + (N : Int)) / 2).toNat = (((b : ℕ) : Int)).toNat) := by
        rintro ⟨_, h2⟩
        apply hb
        apply Fin.ext
        simp only [Int.toNat_natCast] at h2
        exact h2.symm
      rw [if_neg this, toC_zero, mul_zero]
    · intro hni; exact absurd (Finset.mem_univ _) hni
  · symm
    apply Finset.sum_eq_zero
    intro k _
    have : ¬ (δ.natAbs ≤ N ∧ ((δ + (N : Int)) / 2).toNat = (((k : ℕ) : Int)).toNat) := fun hh => h hh.1
    rw [if_neg this, toC_zero, mul_zero]

/-! ## (b) the density of the model under a common unitary on the top helicity index -/

/-- **top-index mixing, abstract D-functions**: if for every chain the rows of the new top-vertex D-function are the
`U`-mixture of the old rows, `U` unitary and the same for all chains, the helicity-summed density of the model (all
helicities `mRange N` of the top particle summed) is unchanged.  Any list of chains, any final-state index lists. -/
theorem model_density_top_mix (N : ℕ) (U : Matrix (Fin (N + 1)) (Fin (N + 1)) ℂ) (hU : star U * U = 1)
    (cs : List Chain) (Dtop' Dtop : Chain → Int → Int → Cx) (Dal : Chain → Align → Int → Int → Cx)
    (finals : List (Nat × List Int))
    (hD : ∀ C ∈ cs, ∀ (i : Fin (N + 1)) (δ : Int),
      toC (Dtop' C (hel2 N i) δ) = ∑ k, U i k * toC (Dtop C (hel2 N k) δ)) :
    densityWith cs Dtop' Dal (mRange N) finals = densityWith cs Dtop Dal (mRange N) finals := by
  unfold densityWith
  rw [rsum_mRange, rsum_mRange, ← sumOverR_finset_sum, ← sumOverR_finset_sum]
  apply sumOverR_congr
  intro ext
  have hmix : ∀ i : Fin (N + 1), toC (groupAmpWith cs Dtop' Dal (hel2 N i) ext)
      = (U *ᵥ fun k => toC (groupAmpWith cs Dtop Dal (hel2 N k) ext)) i := by
    intro i
    rw [groupAmpWith_mix Finset.univ (fun k => U i k) (hel2 N) cs Dtop' Dtop Dal (hel2 N i) ext
      (fun C hC δ => hD C hC i δ)]
    rfl
  have key := unitary_mix U hU (fun (_ : Unit) (k : Fin (N + 1)) => toC (groupAmpWith cs Dtop Dal (hel2 N k) ext))
  unfold UnitaryMix.density at key
  simp only [Finset.univ_unique, Finset.sum_singleton] at key
  simp only [← normSq_toC]
  rw [← key]
  refine Finset.sum_congr rfl fun i _ => ?_
  rw [hmix i]

/-- **(b, top vertex) on the model's own D-functions**: for every list of chains and all angles, if the top-vertex
D-matrix `D_matrix_conj(α',β',γ')` of every chain equals `U · D_matrix_conj(α,β,γ)` with ONE unitary `U`, the
density of the model with top angles `(α',β',γ')` equals the density with top angles `(α,β,γ)`. -/
theorem model_density_top_unitary (N : ℕ) (U : Matrix (Fin (N + 1)) (Fin (N + 1)) ℂ) (hU : star U * U = 1)
    (cs : List Chain) (ang' ang : Chain → ℝ × ℝ × ℝ) (Dal : Chain → Align → Int → Int → Cx)
    (finals : List (Nat × List Int))
    (hD : ∀ C ∈ cs, DConj N (ang' C).1 (ang' C).2.1 (ang' C).2.2 = U * DConj N (ang C).1 (ang C).2.1 (ang C).2.2) :
    densityWith cs (fun C => mkD N (ang' C).1 (ang' C).2.1 (ang' C).2.2) Dal (mRange N) finals
      = densityWith cs (fun C => mkD N (ang C).1 (ang C).2.1 (ang C).2.2) Dal (mRange N) finals := by
  apply model_density_top_mix N U hU
  intro C hC i δ
  simp only [toC_mkD]
  split_ifs with h
  · rw [hD C hC, Matrix.mul_apply]
  · simp

/-- **(b), top vertex, hypotheses about angles**: for every spin `N/2 ≤ 4` of the top particle, every rotation `(a,b,c)`,
every list of chains, if the top-vertex rotation of every chain composes with it in SU(2)
(`rot3 α' β' γ' = rot3 a b c · rot3 α β γ`, the hypothesis discharged for lab-fixed axes in `Props/C01b`), the density of
the model is unchanged.  The FULL statement (b) — this one together with the mixing of the primed final-state indices
through the alignment D-functions, one common rotation per final particle — is `C01e.model_density_rot_invariant`
(`Props/C01e.lean`); this theorem is its top-vertex step (formerly `model_density_rot_invariant_partial`). -/
theorem model_density_top_rot_invariant (N : ℕ) (hN : N ≤ 8) (a b c : ℝ)
    (cs : List Chain) (ang' ang : Chain → ℝ × ℝ × ℝ) (Dal : Chain → Align → Int → Int → Cx)
    (finals : List (Nat × List Int))
    (hcomp : ∀ C ∈ cs, C01.rot3 (ang' C).1 (ang' C).2.1 (ang' C).2.2
      = (C01.rot3 a b c).mul (C01.rot3 (ang C).1 (ang C).2.1 (ang C).2.2)) :
    densityWith cs (fun C => mkD N (ang' C).1 (ang' C).2.1 (ang' C).2.2) Dal (mRange N) finals
      = densityWith cs (fun C => mkD N (ang C).1 (ang C).2.1 (ang C).2.2) Dal (mRange N) finals :=
  model_density_top_unitary N (DConj N a b c) (C01.D_conj_unitary N hN a b c) cs ang' ang Dal finals
    (fun C hC => C01.DConj_compose N hN a b c _ _ _ _ _ _ (hcomp C hC))

-- non-vacuity of `hcomp`: for EVERY rotation `(a,b,c)` and every helicity-angle pair `(α, β, 0)` of a top vertex
-- (the code's `ang` has γ = 0) composed angles exist (`C01.exists_composed_angles`)
example (a b c α β : ℝ) : ∃ α' β' γ' : ℝ, C01.rot3 α' β' γ' = (C01.rot3 a b c).mul (C01.rot3 α β 0) :=
  C01.exists_composed_angles _ (by rw [C01.rot3_eq_ofEuler]; exact TfPwaV.C12.ofEuler_isSU2 _ _ _) α β

/-- the density of the executable model IS `densityWith` at the D-functions stored in the chains: replacing the stored
top-vertex D-function of every chain gives `densityWith` at the new functions (ties the statements above to
`AmpR.density`, the function the Float instance executes) -/
theorem density_setTopD (cs : List Chain) (Dt : Chain → Int → Int → Cx) (tops : List Int)
    (finals : List (Nat × List Int)) :
    density (cs.map fun C => { C with top := { C.top with D := Dt C } }) tops finals
      = densityWith cs Dt (fun _ A => A.D) tops finals := by
  unfold AmpR.density densityWith groupAmpWith
  simp only [List.map_map]
  rfl

/-! ## (c) linearity in the couplings -/

/-- the chain amplitude is linear (homogeneous of degree one) in `total` -/
theorem amp_linear_in_total (C : Chain) (t : Cx) (Dtop : Int → Int → Cx) (Dal : Align → Int → Int → Cx) (la : Int)
    (ext : Hel) :
    toC (({ C with total := t } : Chain).ampWith Dtop Dal la ext)
      = toC t * toC (({ C with total := ⟨1, 0⟩ } : Chain).ampWith Dtop Dal la ext) := by
  unfold Chain.ampWith
  simp only [toC_mul, toC_one, one_mul]
  have : ∀ s : Cx, ({ C with total := s } : Chain).term Dtop Dal la ext = C.term Dtop Dal la ext := fun _ => rfl
  rw [this t, this ⟨1, 0⟩]
  ring

/-- the chain amplitude is linear in the helicity couplings of the top vertex: `H = x·H₁ + y·H₂` (pointwise) gives
`A = x·A₁ + y·A₂`, for all complex `x, y` -/
theorem amp_linear_in_top_couplings (C : Chain) (H H1 H2 : Int → Int → Cx) (x y : ℂ)
    (hH : ∀ lb lc, toC (H lb lc) = x * toC (H1 lb lc) + y * toC (H2 lb lc))
    (Dtop : Int → Int → Cx) (Dal : Align → Int → Int → Cx) (la : Int) (ext : Hel) :
    toC (({ C with top := { C.top with H := H } } : Chain).ampWith Dtop Dal la ext)
      = x * toC (({ C with top := { C.top with H := H1 } } : Chain).ampWith Dtop Dal la ext)
        + y * toC (({ C with top := { C.top with H := H2 } } : Chain).ampWith Dtop Dal la ext) := by
  unfold Chain.ampWith
  simp only [toC_mul]
  rw [toC_sumOver_add x y C.inner _ (({ C with top := { C.top with H := H1 } } : Chain).term Dtop Dal la ext)
    (({ C with top := { C.top with H := H2 } } : Chain).term Dtop Dal la ext) _ ext]
  · ring
  · intro h
    unfold Chain.term
    simp only [toC_mul, hH]
    ring

/-- … and in the helicity couplings of ANY other vertex of the chain (`rest = pre ++ v :: post`) -/
theorem amp_linear_in_vertex_couplings (C : Chain) (pre post : List Vertex) (v : Vertex) (H H1 H2 : Int → Int → Cx)
    (x y : ℂ) (hH : ∀ lb lc, toC (H lb lc) = x * toC (H1 lb lc) + y * toC (H2 lb lc))
    (Dtop : Int → Int → Cx) (Dal : Align → Int → Int → Cx) (la : Int) (ext : Hel) :
    toC (({ C with rest := pre ++ { v with H := H } :: post } : Chain).ampWith Dtop Dal la ext)
      = x * toC (({ C with rest := pre ++ { v with H := H1 } :: post } : Chain).ampWith Dtop Dal la ext)
        + y * toC (({ C with rest := pre ++ { v with H := H2 } :: post } : Chain).ampWith Dtop Dal la ext) := by
  unfold Chain.ampWith
  simp only [toC_mul]
  rw [toC_sumOver_add x y C.inner _
    (({ C with rest := pre ++ { v with H := H1 } :: post } : Chain).term Dtop Dal la ext)
    (({ C with rest := pre ++ { v with H := H2 } :: post } : Chain).term Dtop Dal la ext) _ ext]
  · ring
  · intro h
    unfold Chain.term
    simp only [toC_mul, toC_cprod, List.map_append, List.map_cons, List.prod_append, List.prod_cons, Vertex.amp, hH]
    ring

/-- **the helicity coupling is `Σ_ls g_ls · bf_ls · cg[ls][λb][λc]`** (`get_helicity_amp` ∘ `get_ls_amp`): manifestly
linear in the vector `g_ls`; all lists, all indices -/
theorem helicity_coupling_formula (g : List Cx) (bf : List ℝ) (cg : List (List (List ℝ))) (ib ic : ℕ) :
    toC (hEntry (lsAmp g bf) cg ib ic)
      = (List.zipWith (fun (gb : Cx × ℝ) (t : List (List ℝ)) => toC gb.1 * (gb.2 : ℂ) * (((t.getD ib []).getD ic 0 : ℝ) : ℂ))
          (List.zip g bf) cg).sum := by
  induction g generalizing bf cg with
  | nil => simp only [lsAmp, hEntry, List.zip_nil_left, List.zipWith_nil_left, List.sum_nil]; exact toC_zero
  | cons a r ih =>
    cases bf with
    | nil => simp only [lsAmp, hEntry, List.zip_nil_right, List.zipWith_nil_left, List.sum_nil]; exact toC_zero
    | cons b bs =>
      cases cg with
      | nil => simp only [lsAmp, hEntry, List.zipWith_nil_right, List.sum_nil]; exact toC_zero
      | cons t ts =>
        simp only [lsAmp, hEntry, toC_add, toC_mul, ih, List.zip_cons_cons, List.zipWith_cons_cons, List.sum_cons]
        have e1 : toC ⟨b, 0⟩ = (b : ℂ) := by apply Complex.ext <;> simp
        have e2 : toC ⟨(t.getD ib []).getD ic 0, 0⟩ = (((t.getD ib []).getD ic 0 : ℝ) : ℂ) := by
          apply Complex.ext <;> simp
        rw [e1, e2]

/-- `DecayGroup.get_amp`: the group amplitude is the sum of the chain amplitudes, component by component -/
theorem group_amp_is_sum (cs : List Chain) (la : Int) (ext : Hel) :
    toC (groupAmp cs la ext) = (cs.map fun C => toC (C.amp la ext)).sum := by
  unfold groupAmp
  rw [toC_csum, List.map_map]
  rfl

/-! ## (d) the density of the model is non-negative -/

theorem model_density_nonneg (cs : List Chain) (tops : List Int) (finals : List (Nat × List Int)) :
    0 ≤ density cs tops finals := by
  unfold AmpR.density densityWith
  rw [rsum_eq]
  apply List.sum_nonneg
  intro y hy
  simp only [List.mem_map] at hy
  obtain ⟨la, _, rfl⟩ := hy
  apply sumOverR_nonneg
  intro h
  rw [← normSq_toC]
  exact Complex.normSq_nonneg _

end TfPwaV.C01d
