import TfPwaV.Proofs.AxesIndCPair
import TfPwaV.Proofs.AxesIndCGauge
import TfPwaV.Props.C01i
import TfPwaV.Props.C13
/-!
# C01 (base-axes clause, continued) — the phases cancel: `hcancel` of `Props/C01i.lean` discharged

`Props/C01i.lean` reduces the independence of the model density from the base axes to ONE numerical link `hcancel`: the row / column
phases that a change of axes puts on the D-functions of a chain multiply, on every helicity configuration the einsum visits, to one
common unit-modulus number.  Here:

(a) `vertex_second_daughter_exact`, `top_second_daughter_exact` — on the model of `cal_helicity_angle`: if the two daughters of a
    vertex fly back to back, the stored angles satisfy `beta_2 = π − beta_1` and `alpha_2 = alpha_1 − π` EXACTLY (not mod `2π`: this is
    what the biases `−π` / `−2π` of the range shift are for).  `top_gammas_opposite`: hence the two third angles of the top vertex satisfy
    `Rotation_z(γ_2) = Rotation_z(−γ_1)` EXACTLY in SU(2) (no sign), `Rotation_z(γ_1)·Rotation_z(γ_2) = 1`.
    `second_daughter_same_sheet`: and at every lower vertex both daughters' azimuths are lowered ON THE SAME SHEET.
(b) `CTree.spinOK` (decidable: `2j_core ≡ 2j_b + 2j_c mod 2` at every vertex), `spin_sign_rule`: `s^{2j_R} = Π_{finals f below R} s^{2j_f}`
    (`s = ±1`, structural induction), `loader_enforces_spinOK`: a vertex violating the parity has NO `(l, s)` coupling (`C13.lsList = []`).
(c)+(d) `ChainOfTree` (the index structure of an `AmpR.Chain` is that of a decay tree of ANY depth; `mkChain` builds such a chain,
    `mkChain_shape`), `chain_phases_cancel` (= `hcancel`, PROVED: the reference chain's own vertex phase is the other chains' alignment
    column phase), and the assembly `model_density_axes_independent_tree_partial`: NO `hcancel` hypothesis left.

Two defects of the STATEMENT of `hcancel` in C01i are repaired on the way (both made it unsatisfiable for real chains, not wrong):
it was asked (i) for helicity configurations with `|λ_b − λ_c| > J` (where `Dfun_delta_v2` gathers the padding zero and `colPhase` is
`1` by convention — `colPhaseX` continues the phase there), and (ii) for configurations `h` that differ from the external helicities
on the final particles that are NOT contracted in the chain (the reference chain's own finals) — `AmpR.densityG_gauge_ext2` carries
`h p = ext p` off the contracted indices.
-/
open Matrix BigOperators
open TfPwaV.ScalarR
namespace TfPwaV.C01j
open TfPwaV.SU2R TfPwaV.AlignR TfPwaV.KinR TfPwaV.AngleR TfPwaV.SL2CR TfPwaV.LorentzSLR TfPwaV.CascadeR TfPwaV.RouteRestR
open TfPwaV.C12 TfPwaV.C02 TfPwaV.C01 TfPwaV.C11 TfPwaV.AxesInd TfPwaV.UnitaryMix TfPwaV.FrameAlg TfPwaV.C01h TfPwaV.C01i

/-! ## (a) the two daughters of one vertex -/

/-- **`vertex_second_daughter_exact`** — ANY vertex of `cal_helicity_angle` (mother's axes `set_z = s·Z`, `set_x = x`, orthonormal frame
`(X, Y, Z)`, ANY helicity-frame momenta `r1`, `r2` of the two daughters passing the code's guards) whose daughters are back to back
(`vect r2 = −vect r1`: momentum conservation in the mother's rest frame): `beta_2 = π − beta_1` and, with the code's range shifts
(`bias = −π` for `outs[0]`, `−2π` for `outs[1]`), `alpha_2 = alpha_1 − π` as REAL NUMBERS. -/
theorem vertex_second_daughter_exact (X Y Z : V3) (hF : IsFrame X Y Z) (s : ℝ) (hs : eps ≤ s) (x : V3)
    (hx : crossUnit (V3.smul s Z) x = Y) (r1 r2 : V4) (hbb : r2.vect = r1.vect.neg)
    (ok1 : StepOK (V3.smul s Z) r1) (ok2 : StepOK (V3.smul s Z) r2) :
    (angleZxZGetx (V3.smul s Z) x r2.vect).beta = Real.pi - (angleZxZGetx (V3.smul s Z) x r1.vect).beta ∧
      shiftAlpha (angleZxZGetx (V3.smul s Z) x r2.vect).alpha (-kpi - kpi) =
        shiftAlpha (angleZxZGetx (V3.smul s Z) x r1.vect).alpha (-kpi) - Real.pi := by
  have g2 := ok2.2.2
  rw [hbb] at g2 ⊢
  exact second_daughter_exact X Y Z hF s hs x hx r1.vect ok1.2.2 g2

/-- **`top_second_daughter_exact`** — the top vertex of EVERY chain of EVERY event (`T1`, `T2`: decay trees of any depth, `g`: the boost
to the rest frame of the top particle), ANY admissible base axes: the stored angles of `outs[1]` are `(alpha_1 − π, π − beta_1)`. -/
theorem top_second_daughter_exact (z x : V3) (h : TopOK z x) (p : V4) (T1 T2 : PTree) (g : V4 → V4)
    (hG : Guards (chainBoost (.node p T1 T2) g) z x) (hbb : (g T2.p).vect = (g T1.p).vect.neg) :
    let a := topAngles (helicityAngle (chainBoost (.node p T1 T2) g) z x)
    a.2.2.2 = Real.pi - a.2.1 ∧ a.2.2.1 = a.1 - Real.pi := by
  intro a
  obtain ⟨F, hbz, hY⟩ := top_frame z x h.1 h.2
  simp only [chainBoost, Guards] at hG
  obtain ⟨_, ok1, ok2, _⟩ := hG
  simp only [a, chainBoost, helicityAngle, topAngles]
  rw [hbz] at ok1 ok2 ⊢
  exact vertex_second_daughter_exact _ _ _ F _ h.2 x hY _ _ hbb ok1 ok2

/-- **`top_gammas_opposite`** (ingredient (a)) — every event, two admissible choices of base axes related by `U`, daughters of the top
particle back to back: for ALL `γ_1`, `γ_2` satisfying the two vertex equations `r'_j·U = Rotation_z(γ_j)·r_j` of
`C01h.top_angles_compose`: `Rotation_z(γ_2) = Rotation_z(−γ_1)` and `Rotation_z(γ_1)·Rotation_z(γ_2) = 1`, EXACTLY in SU(2). -/
theorem top_gammas_opposite (U : M2) (z x z' x' : V3) (hA : AxesPair U z x z' x') (p : V4) (T1 T2 : PTree) (g : V4 → V4)
    (hG : Guards (chainBoost (.node p T1 T2) g) z x) (hG' : Guards (chainBoost (.node p T1 T2) g) z' x')
    (hbb : (g T2.p).vect = (g T1.p).vect.neg) :
    let a := topAngles (helicityAngle (chainBoost (.node p T1 T2) g) z x)
    let a' := topAngles (helicityAngle (chainBoost (.node p T1 T2) g) z' x')
    ∀ γ1 γ2 : ℝ, (stepR a'.1 a'.2.1).mul U = (rotZ γ1).mul (stepR a.1 a.2.1) →
      (stepR a'.2.2.1 a'.2.2.2).mul U = (rotZ γ2).mul (stepR a.2.2.1 a.2.2.2) →
      rotZ γ2 = rotZ (-γ1) ∧ (rotZ γ1).mul (rotZ γ2) = M2.one := by
  intro a a' γ1 γ2 e1 e2
  obtain ⟨hb, ha⟩ := top_second_daughter_exact z x hA.ok p T1 T2 g hG hbb
  obtain ⟨hb', ha'⟩ := top_second_daughter_exact z' x' hA.ok' p T1 T2 g hG' hbb
  have h := pair_gamma_exact U (stepR a.1 a.2.1) (stepR a'.1 a'.2.1) (stepR a.2.2.1 a.2.2.2) (stepR a'.2.2.1 a'.2.2.2)
    (isSU2_stepR _ _) γ1 γ2 (by rw [ha, hb]; exact stepR_second _ _) (by rw [ha', hb']; exact stepR_second _ _) e1 e2
  refine ⟨h, ?_⟩
  rw [h, ← rotZ_add, add_neg_cancel, rotZ_zero]

-- non-vacuity: the two-body event of `Props/C02e.lean` (momenta `(2, ±1, 0, 0)`) is back to back and passes the guards
example : (⟨2, -1, 0, 0⟩ : V4).vect = (⟨2, 1, 0, 0⟩ : V4).vect.neg ∧ StepOK ⟨0, 0, 1⟩ ⟨2, 1, 0, 0⟩ ∧ StepOK ⟨0, 0, 1⟩ ⟨2, -1, 0, 0⟩ :=
  ⟨by ext <;> simp [V4.vect, V3.neg], C02.exStepOK 1 (Or.inl rfl), C02.exStepOK (-1) (Or.inr rfl)⟩

/-- **`second_daughter_same_sheet`** — a lower vertex: `C01h.below_top_azimuth_shift` lowers both azimuths by `γ` mod `2π`; because
`alpha_2 = alpha_1 − π` exactly for both choices of axes (`vertex_second_daughter_exact`), the two azimuth ELEMENTS are lowered on the
SAME sheet `e` — the routes through `outs[1]` carry the same sign as the vertex's own D-function (which reads `alpha_1`). -/
theorem second_daughter_same_sheet (a1 a1' a2 a2' γ : ℝ) (e : Bool) (h2 : a2 = a1 - Real.pi) (h2' : a2' = a1' - Real.pi)
    (h : rotZ a1' = (signM e).mul (rotZ (a1 - γ))) : rotZ a2' = (signM e).mul (rotZ (a2 - γ)) := by
  have e1 : a1' - Real.pi = a1' + -Real.pi := by ring
  have e2 : a1 - Real.pi - γ = a1 - γ + -Real.pi := by ring
  rw [h2, h2', e1, e2, rotZ_add, rotZ_add, h, su2_mul_assoc]

-- the two sheets exist: lowering by `γ` literally is sheet `false`, lowering by `γ` and adding a full turn is sheet `true`
example (a γ : ℝ) : rotZ (a - γ) = (signM false).mul (rotZ (a - γ)) := by simp [signM, M2.one_mul]
example (a γ : ℝ) : rotZ (a - γ + 2 * Real.pi) = (signM true).mul (rotZ (a - γ)) := by
  simp only [signM, if_true]
  rw [add_comm, rotZ_add, rotZ_two_pi]


/-- **`sheet_exists`** — an azimuth lowered by `γ` mod `2π` (what `C01h.below_top_azimuth_shift` proves for the level-2 azimuths) is lowered,
as an ELEMENT, on one of the two sheets -/
theorem sheet_exists (a a' γ : ℝ) (hc : Real.cos a' = Real.cos (a - γ)) (hs : Real.sin a' = Real.sin (a - γ)) :
    ∃ e : Bool, rotZ a' = (signM e).mul (rotZ (a - γ)) := by
  rcases rotZ_of_cos_sin a' (a - γ) hc hs with h | h
  · exact ⟨false, by simp only [signM, Bool.false_eq_true, if_false]; rw [M2.one_mul]; exact h⟩
  · exact ⟨true, by simp only [signM, if_true]; exact h⟩

/-- **`lower_vertex_sheet`** — the vertex of a daughter of the top particle whose azimuth element is lowered by `γ` on sheet `e`: its Euler
element is multiplied from the left by `Rotation_z(sheetAngle e γ) = (±1)·Rotation_z(−γ)` (the `hvert` / `SideOKE` hypothesis for the daughter's
own vertex) -/
theorem lower_vertex_sheet (a a' b g γ : ℝ) (e : Bool) (h : rotZ a' = (signM e).mul (rotZ (a - γ))) :
    rot3 a' b g = (rotZ (sheetAngle e γ)).mul (rot3 a b g) ∧ rotZ (sheetAngle e γ) = (signM e).mul (rotZ (-γ)) :=
  ⟨vertex_row_sheet a a' b g γ e h, rotZ_sheetAngle e γ⟩

/-- **`routes_carry_vertex_sheet`** — `C01i.route_axes_change` with the SIGN identified: the route matrices of ALL final particles below a
daughter of the top particle — through its first daughter (step `t1`, azimuth `alpha_1`, the one the vertex's own D-function reads) AND
through its second daughter (step `t2`, `alpha_2 = alpha_1 − π` for both choices of axes: `vertex_second_daughter_exact`) — change by the
SAME element `±1`, the sheet `e` of the vertex: `M'·U = (signM e)·M`, any continuation `rest` of the route. -/
theorem routes_carry_vertex_sheet (s s' t1 t1' t2 t2' : Step) (rest1 rest2 : List Step) (U : M2) (γ : ℝ) (e : Bool)
    (hω : s'.omega = s.omega) (h : (stepR s'.alpha s'.beta).mul U = (rotZ γ).mul (stepR s.alpha s.beta))
    (hβ1 : t1'.beta = t1.beta) (hω1 : t1'.omega = t1.omega) (hβ2 : t2'.beta = t2.beta) (hω2 : t2'.omega = t2.omega)
    (h2 : t2.alpha = t1.alpha - Real.pi) (h2' : t2'.alpha = t1'.alpha - Real.pi)
    (hsheet : rotZ t1'.alpha = (signM e).mul (rotZ (t1.alpha - γ))) :
    (routeM (s' :: t1' :: rest1)).mul U = (signM e).mul (routeM (s :: t1 :: rest1)) ∧
      (routeM (s' :: t2' :: rest2)).mul U = (signM e).mul (routeM (s :: t2 :: rest2)) :=
  ⟨route_deeper_change_sheet s s' t1 t1' rest1 U γ e hω h hβ1 hω1 hsheet,
    route_deeper_change_sheet s s' t2 t2' rest2 U γ e hω h hβ2 hω2
      (second_daughter_same_sheet t1.alpha t1'.alpha t2.alpha t2'.alpha γ e h2 h2' hsheet)⟩

-- non-vacuity of the sheet hypothesis: see the two examples above (`signM false` / `signM true`)
example (a γ : ℝ) : ∃ e : Bool, rotZ (a - γ + 2 * Real.pi) = (signM e).mul (rotZ (a - γ)) :=
  sheet_exists a (a - γ + 2 * Real.pi) γ (Real.cos_add_two_pi _) (Real.sin_add_two_pi _)

/-! ## (b) angular-momentum conservation of the decay card: the sign rule -/

/-- **`spin_sign_rule`** — EVERY decay tree (any depth, ids and doubled spins arbitrary) with `spinOK` (at every vertex
`2j_core ≡ 2j_b + 2j_c mod 2`), `s = ±1` (any `s` with `s² = 1`): `s^{2j_R} = Π_{finals f below R} s^{2j_f}`. -/
theorem spin_sign_rule (s : ℂ) (hs : s * s = 1) (t : CTree) (h : t.spinOK = true) :
    sgnPow s (t.N : Int) = (t.finals.map fun f => sgnPow s (f.2 : Int)).prod := sign_rule s hs t h

/-- … in the familiar form: `(−1)^{2j_R} = Π (−1)^{2j_f}` -/
theorem fermion_sign_rule (t : CTree) (h : t.spinOK = true) :
    (-1 : ℂ) ^ t.N = (t.finals.map fun f => (-1 : ℂ) ^ f.2).prod := by
  have e : ∀ n : ℕ, (-1 : ℂ) ^ n = sgnPow (-1) (n : Int) := by
    intro n
    unfold sgnPow
    rcases Nat.even_or_odd n with hn | hn
    · rw [Even.neg_one_pow hn, if_pos (by have := Nat.even_iff.mp hn; omega)]
    · rw [Odd.neg_one_pow hn, if_neg (by have := Nat.odd_iff.mp hn; omega)]
  rw [e, sign_rule (-1) (by norm_num) t h]
  congr 1
  apply List.map_congr_left
  intro f _
  exact (e f.2).symm

-- non-vacuity: Λb(1/2) → [Λc(1/2) → p(1/2) K(0) π(0)-like cascade] π(0) satisfies the rule, a parity-violating card does not
example : (CTree.dec 1 1 (.dec 2 1 (.fin 3 1) (.dec 4 0 (.fin 5 0) (.fin 6 0))) (.fin 7 0)).spinOK = true := by decide
example : (CTree.dec 1 1 (.fin 2 1) (.fin 3 1)).spinOK = false := by decide

/-- **`loader_enforces_spinOK`** — a vertex of the decay card that violates the parity (`2j_a + 2j_b + 2j_c` odd) is offered NO
`(l, s)` coupling by `get_ls_list` (`C13.lsList`, ALL spins, parities, `p_break`, `C`-parity settings): such a decay has no amplitude
parameters at all.  Contrapositive of `C13.ls_empty_of_odd` (`C13.ls_mem_iff`). -/
theorem loader_enforces_spinOK (ja jb jc : Nat) (pa pb pc : Option Int) (pBreak : Bool) (ca : Option Int)
    (h : LS.lsList ja jb jc pa pb pc pBreak ca ≠ []) : (ja + jb + jc) % 2 = 0 := by
  by_contra hodd
  exact h (C13.ls_empty_of_odd ja jb jc pa pb pc pBreak ca (by omega))

example : LS.lsList 2 2 0 (some (-1)) (some (-1)) (some 1) false none ≠ [] := by decide

/-! ## (c) the phases of one chain cancel: `hcancel` -/

/-- **`chain_phases_cancel`** (= `hcancel` of `C01i.model_density_axes_independent_elements_ext_partial`, PROVED) — a chain `C` of the
executable amplitude model whose index structure is that of a decay tree `top → tb tc` of ANY depth (`ChainOfTree`: ids, doubled
spins `N`, `spinOK` at every vertex, `al f` = the final particle `f` is aligned in `C`); the own elements of the two daughters
`Rotation_z(γ1)`, `Rotation_z(γ2) = Rotation_z(−γ1)` (`top_gammas_opposite`); sheets `sb`, `sc` of the two sides; row angles `Θ` (vertices)
and `θa` (alignments) as SU(2) elements (`SideOKE`: `−γ` on the side's sheet for the daughter's own vertex, `1` for deeper vertices, `−γ` for
an aligned direct daughter, the sheet sign for deeper finals); `φ f` the angle of the reference element of `f`, equal to the chain's own
element when `C` is the reference of `f` (`href`).  For EVERY configuration `h` of allowed helicities with `h = ext` off the contracted
indices: the column phase of the top vertex (`colPhaseX`), all row phases and all alignment column phases multiply to
`Π_{finals f} ph (ext f) (φ f)` — a number that depends on the external helicities and the reference elements only. -/
theorem chain_phases_cancel (N : Nat → Nat) (NT : Nat) (C : AmpR.Chain) (tb tc : CTree) (al : Nat → Bool)
    (hC : ChainOfTree N NT C tb tc al) (ids : List Nat) (hfin : ∀ f ∈ tb.finals ++ tc.finals, f.1 ∈ ids)
    (sb sc : Bool) (γ1 γ2 : ℝ) (hγ : rotZ γ2 = rotZ (-γ1)) (Θ θa φ : Nat → ℝ)
    (hSb : SideOKE γ1 sb Θ θa tb) (hSc : SideOKE γ2 sc Θ θa tc)
    (href : ∀ f ∈ tb.finals ++ tc.finals, al f.1 = false → (rotZ (θa f.1)).mul (rotZ (φ f.1)) = M2.one)
    (ext h : AmpR.Hel) (hext : ∀ p, p ∈ ids → AllowedHel N p (ext p))
    (hall : ∀ p, (p ∈ ids ∨ p ∈ C.inner.map Prod.fst) → AllowedHel N p (h p))
    (hoff : ∀ p, p ∉ C.inner.map Prod.fst → h p = ext p) :
    C.gaugeProd (colPhaseX NT γ1) (fun v => rowPhase (N v.a) (Θ v.a)) (fun A => rowPhase (N A.p) (θa A.p)) h *
        (C.aligns.map fun A => colPhase (N A.p) (φ A.p) (ext A.p)).prod =
      ((tb.finals ++ tc.finals).map fun f => ph (ext f.1) (φ f.1)).prod :=
  chain_hcancel N NT C tb tc al hC ids hfin sb sc γ1 γ2 hγ Θ θa φ hSb.sideOK hSc.sideOK
    (fun f hf ha m => href_of_elements _ _ (href f hf ha) m) ext h hext hall hoff

/-! ## (d) a builder: the chain of a decay tree -/

/-- the lower vertices of a decay tree, pre-order; `Hf`, `Df`: helicity couplings and D-function by id of the decaying particle -/
def vertsOf (Hf Df : Nat → Int → Int → LineShapeR.Cx) : CTree → List AmpR.Vertex
  | .fin _ _ => []
  | .dec i _ d1 d2 => ⟨i, d1.id, d2.id, Hf i, Df i⟩ :: (vertsOf Hf Df d1 ++ vertsOf Hf Df d2)

/-- **`mkChain`** — the `AmpR.Chain` of a decay tree `top → tb tc`: lower vertices in pre-order, one alignment D-function per final
particle with `al f`, contracted indices = decaying particles and aligned finals with their full helicity ranges -/
def mkChain (total : LineShapeR.Cx) (props : List LineShapeR.Cx) (topId : Nat) (Htop Dtop : Int → Int → LineShapeR.Cx)
    (Hf Df Da : Nat → Int → Int → LineShapeR.Cx) (tb tc : CTree) (al : Nat → Bool) : AmpR.Chain :=
  { total := total, props := props, top := ⟨topId, tb.id, tc.id, Htop, Dtop⟩,
    rest := vertsOf Hf Df tb ++ vertsOf Hf Df tc,
    aligns := ((tb.finals ++ tc.finals).filter fun f => al f.1).map fun f => ⟨f.1, Da f.1⟩,
    inner := ((tb.decs ++ tc.decs) ++ ((tb.finals ++ tc.finals).filter fun f => al f.1)).map fun x => (x.1, Wigner.mRange x.2) }

theorem vertsOf_ids (Hf Df : Nat → Int → Int → LineShapeR.Cx) (t : CTree) :
    (vertsOf Hf Df t).map (fun v => v.a) = t.decs.map Prod.fst := by
  induction t with
  | fin i N => rfl
  | dec i N d1 d2 ih1 ih2 => simp only [vertsOf, CTree.decs, List.map_cons, List.map_append, ih1, ih2]

/-- **`mkChain_shape`** — the chain built from a tree has the index structure of that tree; hypotheses: `spinOK`, the spin table `N`
agrees with the tree, and the ids of the tree are pairwise different -/
theorem mkChain_shape (N : Nat → Nat) (NT : Nat) (total : LineShapeR.Cx) (props : List LineShapeR.Cx) (topId : Nat)
    (Htop Dtop : Int → Int → LineShapeR.Cx) (Hf Df Da : Nat → Int → Int → LineShapeR.Cx) (tb tc : CTree) (al : Nat → Bool)
    (hb : tb.spinOK = true) (hc : tc.spinOK = true) (htop : (NT + tb.N + tc.N) % 2 = 0)
    (hNb : ∀ x ∈ tb.decs ++ tb.finals, N x.1 = x.2) (hNc : ∀ x ∈ tc.decs ++ tc.finals, N x.1 = x.2)
    (hnd : (((tb.decs ++ tc.decs) ++ (tb.finals ++ tc.finals)).map Prod.fst).Nodup) :
    ChainOfTree N NT (mkChain total props topId Htop Dtop Hf Df Da tb tc al) tb tc al := by
  refine ⟨rfl, rfl, ?_, ?_, hNb, hNc, hb, hc, htop, ?_, ?_, ?_⟩
  · simp only [mkChain, List.map_append, vertsOf_ids]
  · simp only [mkChain, List.map_map]
    rfl
  · intro x hx
    simp only [mkChain, List.map_map]
    exact List.mem_map.mpr ⟨x, List.mem_append_left _ hx, rfl⟩
  · intro f hf ha
    simp only [mkChain, List.map_map]
    exact List.mem_map.mpr ⟨f, List.mem_append_right _ (List.mem_filter.mpr ⟨hf, by simpa using ha⟩), rfl⟩
  · intro f hf ha hin
    simp only [mkChain, List.map_map] at hin
    obtain ⟨y, hy, hyf⟩ := List.mem_map.mp hin
    simp only [Function.comp] at hyf
    rcases List.mem_append.mp hy with hy | hy
    · -- a decaying particle with the id of a final particle: excluded by `Nodup`
      rw [List.map_append] at hnd
      have := (List.nodup_append.mp hnd).2.2 y.1 (List.mem_map.mpr ⟨y, hy, rfl⟩) f.1 (List.mem_map.mpr ⟨f, hf, rfl⟩)
      exact this hyf
    · -- an aligned final particle with the id of `f`: it is `f`
      obtain ⟨hy1, hy2⟩ := List.mem_filter.mp hy
      rw [List.map_append] at hnd
      have hnd2 := (List.nodup_append.mp hnd).2.1
      have hyf' : y = f := by
        have hinj := List.inj_on_of_nodup_map hnd2
        exact hinj hy1 hf hyf
      rw [hyf'] at hy2
      simp [ha] at hy2

/-! ## the assembly: no `hcancel` left -/

/-- FULL: for a FIXED event the helicity-summed density `sum_amp` of the chains that `cal_angle` + `DecayGroup` produce does not depend on
the base axes from which `cal_helicity_angle` starts (hypotheses: the code's guards on the momenta and `spinOK` of the decay card).

Proved part — `C01i.model_density_axes_independent_elements_ext_partial` WITHOUT its numerical hypothesis `hcancel`: any list of chains
(reference chains included) of the executable amplitude model, each with the index structure of a decay tree of ANY depth with `spinOK`
(`ChainOfTree`), all spins `2j ≤ 8`, D-functions = the model's own `get_D_matrix_lambda` (`AmpR.mkD`) at the primed angles.  The
hypotheses are relations between SU(2) ELEMENTS, each of which is a theorem about the model of `cal_helicity_angle`:
* `htop`: the vertex equation `r'·U = Rotation_z(γ_C)·r` of the first daughter of the top vertex (`C01i.top_angles_compose_any_axes`);
  `hγ`: the second daughter's `Rotation_z(γ2_C) = Rotation_z(−γ_C)` (`top_gammas_opposite`);
* `hvert` + `hSb`/`hSc` (`SideOKE`): the Euler element of a lower vertex is multiplied from the left by `Rotation_z(Θ)`, with `Θ = −γ` on the
  side's sheet for the daughter's own vertex (`C01i.vertex_element_of_shift` from `C01h.below_top_azimuth_shift`) and the unit element below;
* `hal` + `SideOKE` + `href`: the alignment Euler element is multiplied from the left by the chain's own `W_k⁻¹` (`Rotation_z(−γ)` for a direct
  daughter, the sheet sign `±1` of the vertex for every deeper final particle — `routes_carry_vertex_sheet`, `lower_vertex_sheet`) and from the right by the reference element `Rotation_z(φ f)` (`C01i.alignment_axes_change_model`), which is
  the chain's own element when the chain is the reference of `f`;
* `hperm`: every chain has the same final particles `ids`.
Missing for FULL (named): the walk that instantiates `Θ`, `θa`, `φ`, `tb`, `tc` from the angle trees `CascadeR.helicityAngle` of the chains of
a `DecayGroup` (ids ↔ tree positions), i.e. the proof that the relations above hold SIMULTANEOUSLY for the chains the cascade model produces
(`hSb`, `hSc`, `href` as theorems about `stepTree` instead of hypotheses), and the boost clause `density_boost_invariant` that follows
from it by `C01g.boost_is_axes_change`. -/
theorem model_density_axes_independent_tree_partial (NT : ℕ) (hNT : NT ≤ 8) (U : M2) (hU : IsSU2 U)
    (N : Nat → Nat) (ids : List Nat) (cs : List AmpR.Chain)
    (hinner : ∀ C ∈ cs, ∀ x ∈ C.inner, ∀ m ∈ x.2, AllowedHel N x.1 m)
    (hNa : ∀ C ∈ cs, ∀ A ∈ C.aligns, N A.p ≤ 8) (hjv : ∀ C ∈ cs, ∀ v ∈ C.rest, N v.a ≤ 8)
    (tb tc : AmpR.Chain → CTree) (al : AmpR.Chain → Nat → Bool)
    (hshape : ∀ C ∈ cs, ChainOfTree N NT C (tb C) (tc C) (al C))
    (hperm : ∀ C ∈ cs, (((tb C).finals ++ (tc C).finals).map Prod.fst).Perm ids)
    (ang' ang : AmpR.Chain → ℝ × ℝ) (γ γ2 : AmpR.Chain → ℝ)
    (angv' angv : AmpR.Chain → AmpR.Vertex → ℝ × ℝ × ℝ) (Θ : AmpR.Chain → Nat → ℝ)
    (al' al0 : AmpR.Chain → AmpR.Align → ℝ × ℝ × ℝ) (θa : AmpR.Chain → Nat → ℝ) (φ : Nat → ℝ)
    (sb sc : AmpR.Chain → Bool)
    (htop : ∀ C ∈ cs, (stepR (ang' C).1 (ang' C).2).mul U = (rotZ (γ C)).mul (stepR (ang C).1 (ang C).2))
    (hγ : ∀ C ∈ cs, rotZ (γ2 C) = rotZ (-(γ C)))
    (hvD : ∀ C ∈ cs, ∀ v ∈ C.rest, v.D = mkD3 (N v.a) (angv C v))
    (hvert : ∀ C ∈ cs, ∀ v ∈ C.rest, rot3 (angv' C v).1 (angv' C v).2.1 (angv' C v).2.2 =
      (rotZ (Θ C v.a)).mul (rot3 (angv C v).1 (angv C v).2.1 (angv C v).2.2))
    (hal : ∀ C ∈ cs, ∀ A ∈ C.aligns, rot3 (al' C A).1 (al' C A).2.1 (al' C A).2.2 =
      (rotZ (θa C A.p)).mul ((rot3 (al0 C A).1 (al0 C A).2.1 (al0 C A).2.2).mul (rotZ (φ A.p))))
    (hSb : ∀ C ∈ cs, SideOKE (γ C) (sb C) (Θ C) (θa C) (tb C))
    (hSc : ∀ C ∈ cs, SideOKE (γ2 C) (sc C) (Θ C) (θa C) (tc C))
    (href : ∀ C ∈ cs, ∀ f ∈ (tb C).finals ++ (tc C).finals, al C f.1 = false →
      (rotZ (θa C f.1)).mul (rotZ (φ f.1)) = M2.one) :
    AmpR.densityG cs (fun C => AmpR.mkD NT (ang' C).1 (ang' C).2 0) (fun C v => mkD3 (N v.a) (angv' C v))
        (fun C A => mkD3 (N A.p) (al' C A)) (Wigner.mRange NT) (C01e.finalsOf N ids)
      = AmpR.densityWith cs (fun C => AmpR.mkD NT (ang C).1 (ang C).2 0) (fun C A => mkD3 (N A.p) (al0 C A))
        (Wigner.mRange NT) (C01e.finalsOf N ids) := by
  have hm := mirror_isSU2 U hU
  let mid : AmpR.Chain → M2 := fun C => (mirror U).mul (rot3 (ang C).1 (ang C).2 0)
  have hmid : ∀ C, IsSU2 (mid C) := fun C => isSU2_mul _ _ hm (isSU2_rot3 _ _ _)
  have hids : (C01e.finalsOf N ids).map Prod.fst = ids := by
    unfold C01e.finalsOf
    rw [List.map_map]
    exact List.map_id' ids
  rw [AmpR.densityG_gauge_ext2 (AllowedHel N) cs (Wigner.mRange NT) (C01e.finalsOf N ids) ?_ hinner
    (fun C => AmpR.mkD NT (ang' C).1 (ang' C).2 0) (fun C => mkD3 NT (anglesOf (mid C)))
    (fun C v => mkD3 (N v.a) (angv' C v)) (fun C A => mkD3 (N A.p) (al' C A)) (fun C A => mkD3 (N A.p) (al0 C A))
    (fun C => colPhaseX NT (γ C)) (fun C v => rowPhase (N v.a) (Θ C v.a)) (fun C A => rowPhase (N A.p) (θa C A.p))
    (fun _ A => colPhase (N A.p) (φ A.p)) (fun ext => (ids.map fun p => ph (ext p) (φ p)).prod)
    (fun ext _ => normSq_prod_ph ids ext φ) ?_ ?_ ?_ ?_]
  · -- the common unitary on the rows of the top D-function
    exact C01d.model_density_top_mix NT (DE NT (mirror U)) (DE_unitary NT hNT _) cs _ _ _ _
      (fun C _ i δ => mkD_row_mix NT hNT (mirror U) hm _ _ _ _ _ _ (rot3_anglesOf _ (hmid C)) i δ)
  · intro x hx m hm'
    unfold C01e.finalsOf at hx
    obtain ⟨p, _, rfl⟩ := List.mem_map.mp hx
    exact mem_mRange _ _ hm'
  · intro C hC la hla δ
    obtain ⟨i, rfl⟩ := mem_mRange _ _ hla
    apply mkD_col_factorX NT hNT
    rw [rot3_anglesOf _ (hmid C), active_of_passive U hU _ _ _ _ _ (htop C hC), rot3_split (ang C).1 (ang C).2 (γ C),
      su2_mul_assoc]
  · intro C hC v hv l δ
    rw [hvD C hC v hv]
    exact mkD_row_factor (N v.a) (hjv C hC v hv) _ _ _ _ _ _ _ (hvert C hC v hv) l δ
  · intro C hC A hA l m
    exact mkD_row_col_factor (N A.p) (hNa C hC A hA) _ _ _ _ _ _ _ _ (hal C hC A hA) l m
  · intro C hC ext hext h hall hoff
    rw [hids] at hext hall
    have hfin : ∀ f ∈ (tb C).finals ++ (tc C).finals, f.1 ∈ ids :=
      fun f hf => (hperm C hC).mem_iff.mp (List.mem_map.mpr ⟨f, hf, rfl⟩)
    rw [chain_phases_cancel N NT C (tb C) (tc C) (al C) (hshape C hC) ids hfin (sb C) (sc C) (γ C) (γ2 C) (hγ C hC) (Θ C) (θa C) φ
      (hSb C hC) (hSc C hC) (href C hC) ext h hext hall hoff]
    have e : (((tb C).finals ++ (tc C).finals).map fun f => ph (ext f.1) (φ f.1)) =
        (((tb C).finals ++ (tc C).finals).map Prod.fst).map fun p => ph (ext p) (φ p) := by
      rw [List.map_map]; rfl
    rw [e]
    exact ((hperm C hC).map _).prod_eq

-- non-vacuity of the structural hypotheses: a two-body chain `top(1/2) → b(1/2) c(0)` with both finals unaligned (the reference chain);
-- `SideOKE` / `href` hold with the chain's own elements `θa b = −γ`, `φ b = γ`
example (total : LineShapeR.Cx) (Htop Dtop : Int → Int → LineShapeR.Cx) (Hf Df Da : Nat → Int → Int → LineShapeR.Cx) :
    ChainOfTree (fun p => if p = 1 then 1 else 0) 1 (mkChain total [] 0 Htop Dtop Hf Df Da (.fin 1 1) (.fin 2 0) (fun _ => false))
      (.fin 1 1) (.fin 2 0) (fun _ => false) :=
  mkChain_shape _ 1 total [] 0 Htop Dtop Hf Df Da (.fin 1 1) (.fin 2 0) (fun _ => false) rfl rfl (by decide)
    (by simp [CTree.decs, CTree.finals]) (by simp [CTree.decs, CTree.finals]) (by simp [CTree.decs, CTree.finals])
example (γ : ℝ) : SideOKE γ false (fun _ => 0) (fun _ => -γ) (.fin 1 1) ∧ (rotZ (-γ)).mul (rotZ γ) = M2.one :=
  ⟨rfl, by rw [← rotZ_add, neg_add_cancel, rotZ_zero]⟩

-- JOINT non-vacuity of ALL hypotheses of `model_density_axes_independent_tree_partial` with a NON-trivial phase: one two-body reference
-- chain `top(1/2) → b(1/2) c(0)`, polar angle `0`, azimuth `α` at the first axes and `α'` at the second, `U = 1`: the vertex equation holds
-- with `γ = α' − α`, the own elements are `Rotation_z(γ)`, `Rotation_z(−γ)`, and the theorem yields the equality of the two densities
example (total : LineShapeR.Cx) (Htop Dtop : Int → Int → LineShapeR.Cx) (Hf Df Da : Nat → Int → Int → LineShapeR.Cx) (α α' : ℝ) :
    let N : Nat → Nat := fun p => if p = 1 then 1 else 0
    let C := mkChain total [] 0 Htop Dtop Hf Df Da (.fin 1 1) (.fin 2 0) (fun _ => false)
    AmpR.densityG [C] (fun _ => AmpR.mkD 1 α' 0 0) (fun _ v => mkD3 (N v.a) (0, 0, 0)) (fun _ A => mkD3 (N A.p) (0, 0, 0))
        (Wigner.mRange 1) (C01e.finalsOf N [1, 2])
      = AmpR.densityWith [C] (fun _ => AmpR.mkD 1 α 0 0) (fun _ A => mkD3 (N A.p) (0, 0, 0)) (Wigner.mRange 1)
        (C01e.finalsOf N [1, 2]) := by
  intro N C
  have hC : ChainOfTree N 1 C (.fin 1 1) (.fin 2 0) (fun _ => false) :=
    mkChain_shape _ 1 total [] 0 Htop Dtop Hf Df Da (.fin 1 1) (.fin 2 0) (fun _ => false) rfl rfl (by decide)
      (by simp [CTree.decs, CTree.finals, N]) (by simp [CTree.decs, CTree.finals, N]) (by simp [CTree.decs, CTree.finals])
  exact model_density_axes_independent_tree_partial 1 (by norm_num) M2.one isSU2_one N [1, 2] [C]
    (fun C' hC' x hx => by
      rw [List.mem_singleton.mp hC'] at hx
      simp [C, mkChain, CTree.decs, CTree.finals] at hx)
    (fun C' hC' A hA => by
      rw [List.mem_singleton.mp hC'] at hA
      simp [C, mkChain, CTree.finals] at hA)
    (fun C' hC' v hv => by
      rw [List.mem_singleton.mp hC'] at hv
      simp [C, mkChain, vertsOf] at hv)
    (fun _ => .fin 1 1) (fun _ => .fin 2 0) (fun _ _ => false)
    (fun C' hC' => by rw [List.mem_singleton.mp hC']; exact hC)
    (fun _ _ => by simp [CTree.finals])
    (fun _ => (α', 0)) (fun _ => (α, 0)) (fun _ => α' - α) (fun _ => -(α' - α))
    (fun _ _ => (0, 0, 0)) (fun _ _ => (0, 0, 0)) (fun _ _ => 0) (fun _ _ => (0, 0, 0)) (fun _ _ => (0, 0, 0))
    (fun _ p => if p = 1 then -(α' - α) else (α' - α)) (fun p => if p = 1 then (α' - α) else -(α' - α))
    (fun _ => false) (fun _ => false)
    (fun _ _ => by
      simp only
      unfold stepR
      rw [rotY_zero, M2.one_mul, M2.one_mul, M2.mul_one, ← rotZ_add]
      congr 1; ring)
    (fun _ _ => rfl)
    (fun C' hC' v hv => by
      rw [List.mem_singleton.mp hC'] at hv
      simp [C, mkChain, vertsOf] at hv)
    (fun C' hC' v hv => by
      rw [List.mem_singleton.mp hC'] at hv
      simp [C, mkChain, vertsOf] at hv)
    (fun C' hC' A hA => by
      rw [List.mem_singleton.mp hC'] at hA
      simp [C, mkChain, CTree.finals] at hA)
    (fun _ _ => by simp [SideOKE])
    (fun _ _ => by simp [SideOKE])
    (fun _ _ f hf _ => by
      simp only [CTree.finals, List.cons_append, List.nil_append, List.mem_cons, List.not_mem_nil, or_false] at hf
      rcases hf with rfl | rfl
      · simp only [if_true]
        rw [← rotZ_add, neg_add_cancel, rotZ_zero]
      · simp only [show ¬ ((2 : Nat) = 1) by decide, if_false]
        rw [← rotZ_add, add_neg_cancel, rotZ_zero])

end TfPwaV.C01j
